/-
  Model of the module-level `_transform` of persim/images.py (lines 873-974), of the weight
  functions of persim/images_weights.py, and of `PersistenceImager.transform` /
  `_ensure_iterable` (lines 646-748).  Import-free and polymorphic: the same definitions run at
  `Rat` / `Float` in the driver and unfold to ordinary Mathlib notation at an ordered field.

  This is the model C04 and C11 use (pixel content of every image).  `_ensure_iterable` / `transform` are modelled
  twice more — `Imager.ensureIterable` (Model/Imager.lean: which diagrams a `fit` sees; C12, C18) and
  `Transformers.imagerTransform` (Model/Transformers.lean: container shape of the output only; C18);
  `Lemmas/ImageModels.lean` proves that the three agree (`ensureIterable_agree`, `transform_agree`).

  Inputs taken as given (other properties own them): the pixel-corner meshes `_bpnts`, `_ppnts`
  and `resolution` (C12), the kernel CDF itself (C13).  The kernel enters as the *vectorised*
  function the code calls, `kvec pt bb pp  ≙  kernel(bb, pp, mu=pt, **kernel_params)`; a kernel
  that acts elementwise is `vectorize F`.  `sqrt` and the 1-D normal CDF `Φ` are parameters.

  What the model rejects:
    * `Err.reshape` — `np.reshape(kernel(...), (resolution[0]+1, resolution[1]+1))` with a wrong
      number of values (code: `ValueError`);
    * `Err.shape`   — mesh lengths different from `resolution + 1`, where `pers_img += …` does not
      have the shape of `pers_img` (code: `ValueError`, except that NumPy would *broadcast* an
      increment with a 1-sized axis; such states are not reachable through the public API — the
      constructor and every setter rebuild the mesh with `resolution + 1` points, see C12);
    * `Err.index`   — `pers_imgs[0]` on an empty list (never happens: theorem `transform_dgm`).
-/
namespace PersimVerif.Image

inductive Err where
  | shape
  | reshape
  | index
  deriving DecidableEq, Repr

/-- a point of a diagram: (birth, death) before, (birth, persistence) after the skew conversion -/
abbrev Pt (α : Type) := α × α
/-- a row-major matrix: `m[i][j]`, `i` the first NumPy axis -/
abbrev Mat (α : Type) := List (List α)

/-- `img[i][j]` as an option (no default value) -/
def pixel? {α : Type} (img : Mat α) (i j : Nat) : Option α := (img[i]?).bind (·[j]?)

/-! ### birth-death → birth-persistence (lines 925-927) -/
section
variable {α : Type} [Sub α]

/-- `pers_dgm[:, 1] = pers_dgm[:, 1] - pers_dgm[:, 0]` for one row -/
def skew (p : Pt α) : Pt α := (p.1, p.2 - p.1)

/-- the private copy of the diagram in birth-persistence coordinates -/
def toBP (skewFlag : Bool) (dgm : List (Pt α)) : List (Pt α) :=
  if skewFlag then dgm.map skew else dgm

end

/-! ### weights (persim/images_weights.py), evaluated on (birth, persistence) -/
section
variable {α : Type} [Add α] [Sub α] [Mul α] [Div α] [LT α] [DecidableLT α]

/-- `persistence(birth, pers, n) = pers ** n` -/
def persistenceW (pow : α → α → α) (n : α) (p : Pt α) : α := pow p.2 n

/-- `linear_ramp`: `low` below `start`, `high` above `end`, linear in between -/
def linearRamp (low high start stop : α) (p : Pt α) : α :=
  if p.2 < start then low
  else if stop < p.2 then high
  else (p.2 - start) * (high - low) / (stop - start) + low

end

/-- `wts = weight(pers_dgm[:, 0], pers_dgm[:, 1], **weight_params)`, paired with the points
    (the weight is assumed to act elementwise, as both built-in ones do) -/
def withWeights {α : Type} (w : Pt α → α) (bp : List (Pt α)) : List (Pt α × α) :=
  bp.map fun p => (p, w p)

/-! ### the dispatch of lines 932-954 -/

/-- `kernel_params["sigma"]`: a single variance (`isinstance(sigma, (int, float))`) or a 2×2 matrix -/
inductive Sigma (α : Type) where
  | scalar (s : α)
  | matrix (s00 s01 s10 s11 : α)

/-- `kernel == images_kernels.gaussian` (with its `sigma`), or any other callable -/
inductive KernelChoice (α : Type) where
  | gaussian (σ : Sigma α)
  | other

inductive Path (α : Type) where
  | fast (variance : α)      -- `sigma = np.sqrt(sigma[0][0])` and the 1-D outer-product loop
  | general                  -- `general_flag = True`

section
variable {α : Type} [Zero α] [BEq α]

/-- line 939: a scalar becomes `[[sigma, 0.0], [0.0, sigma]]` -/
def Sigma.toMatrix : Sigma α → α × α × α × α
  | .scalar s => (s, 0, 0, s)
  | .matrix a b c d => (a, b, c, d)

/-- `if sigma[0][0] == sigma[1][1] and sigma[0][1] == 0.0:` (`sigma[1][0]` is never read) -/
def dispatch : KernelChoice α → Path α
  | .other => .general
  | .gaussian σ =>
    match σ.toMatrix with
    | (s00, s01, _, s11) => if (s00 == s11 && s01 == 0) then .fast s00 else .general

end

/-! ### matrices -/
section
variable {α : Type}

/-- `np.zeros(resolution)` -/
def zeros [Zero α] (r c : Nat) : Mat α := List.replicate r (List.replicate c 0)

/-- elementwise binary operation on equally shaped matrices -/
def matZip (f : α → α → α) (A B : Mat α) : Mat α := List.zipWith (List.zipWith f) A B

/-- `w * M` -/
def scale [Mul α] (w : α) (M : Mat α) : Mat α := M.map fun row => row.map fun x => w * x

/-- `curr[1:, 1:] - curr[:-1, 1:] - curr[1:, :-1] + curr[:-1, :-1]` by the four slices -/
def inclExcl [Add α] [Sub α] (curr : Mat α) : Mat α :=
  let a := curr.tail.map List.tail
  let b := curr.dropLast.map List.tail
  let c := curr.tail.map List.dropLast
  let d := curr.dropLast.map List.dropLast
  matZip (· + ·) (matZip (· - ·) (matZip (· - ·) a b) c) d

/-- `pers_img += w * (…)` -/
def accumulate [Add α] [Sub α] [Mul α] (img : Mat α) (w : α) (curr : Mat α) : Mat α :=
  matZip (· + ·) img (scale w (inclExcl curr))

/-- `np.meshgrid(_bpnts, _ppnts, indexing="ij")`: `bb[i][j] = b_i`, `pp[i][j] = p_j` -/
def meshgridIJ (bs ps : List α) : Mat α × Mat α :=
  (bs.map fun b => ps.map fun _ => b, bs.map fun _ => ps)

/-- `.flatten(order="C")` -/
def flattenC (M : Mat α) : List α := M.flatten

/-- the two flat coordinate arrays handed to the kernel -/
def flatMesh (bs ps : List α) : List α × List α :=
  (flattenC (meshgridIJ bs ps).1, flattenC (meshgridIJ bs ps).2)

/-- `np.reshape(v, (r, c), order="C")` on a vector of the right size -/
def reshapeC : Nat → Nat → List α → Mat α
  | 0, _, _ => []
  | r + 1, c, l => l.take c :: reshapeC r c (l.drop c)

def reshape? (r c : Nat) (l : List α) : Except Err (Mat α) :=
  if l.length = r * c then .ok (reshapeC r c l) else .error .reshape

/-- a kernel that acts elementwise on the flat arrays -/
def vectorize {P : Type} (F : P → α → α → α) : P → List α → List α → List α :=
  fun pt bb pp => List.zipWith (F pt) bb pp

/-- the shape condition under which `pers_img += …` is an elementwise addition -/
def meshOk (rx ry : Nat) (bs ps : List α) : Prop := bs.length = rx + 1 ∧ ps.length = ry + 1

instance (rx ry : Nat) (bs ps : List α) : Decidable (meshOk rx ry bs ps) := by
  unfold meshOk; exact inferInstance

end

/-! ### the two loops of `_transform` -/
section
variable {α : Type} [Add α] [Sub α] [Mul α] [Div α] [Zero α]

/-- one iteration of the general loop (lines 960-972); `P` is whatever identifies the point -/
def generalStep {P : Type} (kvec : P → List α → List α → List α) (rx ry : Nat) (bb pp : List α)
    (img : Mat α) (pw : P × α) : Except Err (Mat α) := do
  let curr ← reshape? (rx + 1) (ry + 1) (kvec pw.1 bb pp)
  pure (accumulate img pw.2 curr)

/-- lines 956-972: kernel at all corners, inclusion–exclusion, weighted accumulation -/
def generalPath {P : Type} (kvec : P → List α → List α → List α) (rx ry : Nat) (bs ps : List α)
    (pws : List (P × α)) : Except Err (Mat α) :=
  if meshOk rx ry bs ps then
    let bbpp := flatMesh bs ps
    pws.foldlM (generalStep kvec rx ry bbpp.1 bbpp.2) (zeros rx ry)
  else .error .shape

/-- one iteration of the isotropic loop (lines 943-952); `s` is already the standard deviation -/
def fastStep (Φ : α → α) (s : α) (bs ps : List α) (img : Mat α) (pw : Pt α × α) : Mat α :=
  let ncdfB := bs.map fun b => Φ ((b - pw.1.1) / s)
  let ncdfP := ps.map fun p => Φ ((p - pw.1.2) / s)
  let curr := ncdfB.map fun x => ncdfP.map fun y => y * x      -- ncdf_p[None, :] * ncdf_b[:, None]
  accumulate img pw.2 curr

/-- lines 941-952: `sigma = np.sqrt(sigma[0][0])`, then the loop -/
def fastPath (sqrt Φ : α → α) (variance : α) (rx ry : Nat) (bs ps : List α)
    (pws : List (Pt α × α)) : Except Err (Mat α) :=
  if meshOk rx ry bs ps then
    .ok (pws.foldl (fastStep Φ (sqrt variance) bs ps) (zeros rx ry))
  else .error .shape

variable [BEq α]

/-- `_transform(pers_dgm, skew, resolution, weight, weight_params, kernel, kernel_params, _bpnts, _ppnts)` -/
def transformOne (sqrt Φ : α → α) (w : Pt α → α) (kc : KernelChoice α)
    (kvec : Pt α → List α → List α → List α) (rx ry : Nat) (bs ps : List α)
    (skewFlag : Bool) (dgm : List (Pt α)) : Except Err (Mat α) :=
  let pws := withWeights w (toBP skewFlag dgm)
  match dispatch kc with
  | .fast v => fastPath sqrt Φ v rx ry bs ps pws
  | .general => generalPath kvec rx ry bs ps pws

end

/-! ### the kernels that need no quadrature (used by the driver and in `fast_path_eq_general`) -/
section
variable {α : Type} [Add α] [Sub α] [Mul α] [Div α]

/-- `gaussian` with `sigma[0][1] == 0.0` → `sbvn_cdf`: product of the marginals, each standardised
    by the square root of its *variance* -/
def prodKernel (sqrt Φ : α → α) (vx vy : α) (mu : Pt α) (x y : α) : α :=
  Φ ((x - mu.1) / sqrt vx) * Φ ((y - mu.2) / sqrt vy)

/-- `images_kernels.uniform(x, y, mu, width, height)` -/
def uniformKernel [Max α] [Min α] [Zero α] [OfNat α 2] (width height : α) (mu : Pt α) (x y : α) : α :=
  let w1 := max (x - (mu.1 - width / 2)) 0
  let h1 := max (y - (mu.2 - height / 2)) 0
  let w := min w1 width
  let h := min h1 height
  w * h / (width * height)

end

/-! ### `transform` on one diagram or a collection (lines 646-748) -/
section
variable {α : Type}

/-- what the caller passes: one (n,2) diagram, or an iterable of diagrams -/
inductive Input (α : Type) where
  | dgm (d : List (Pt α))
  | coll (ds : List (List (Pt α)))

/-- what comes back: one image, or a list of images in the order of the input -/
inductive Output (α : Type) where
  | img (m : Mat α)
  | imgs (ms : List (Mat α))

/-- `len(pers_dgms)` -/
def Input.len : Input α → Nat
  | .dgm d => d.length
  | .coll ds => ds.length

inductive Elem where
  | scalar
  | iterable
  deriving DecidableEq

/-- `pers_dgms[0][0]`, or the `IndexError` -/
def firstFirst : Input α → Except Err Elem
  | .dgm [] => .error .index               -- pers_dgms[0] on an empty array
  | .dgm (_ :: _) => .ok .scalar           -- a coordinate
  | .coll [] => .error .index              -- pers_dgms[0] on an empty collection
  | .coll ([] :: _) => .error .index       -- first diagram empty: pers_dgms[0][0]
  | .coll ((_ :: _) :: _) => .ok .iterable -- a row of the first diagram

/-- `_ensure_iterable`: `try: singular = not isinstance(pers_dgms[0][0], Iterable)`
    `except IndexError: singular = False`; `if singular: pers_dgms = [pers_dgms]` -/
def ensureIterable (x : Input α) : List (List (Pt α)) × Bool :=
  let singular := match firstFirst x with
    | .ok e => decide (e ≠ .iterable)
    | .error _ => false
  match singular, x with
  | true, .dgm d => ([d], true)
  | true, .coll ds => (ds, true)      -- not reachable (`ensureIterable_coll`)
  | false, .coll ds => (ds, false)
  | false, .dgm _ => ([], false)      -- only the empty array gets here (`ensureIterable_dgm`): iterating it yields nothing

/-- `PersistenceImager.transform(pers_dgms, skew, n_jobs)` with `one = _transform(·, skew, …)`.
    `n_jobs = None` is the list comprehension; otherwise `joblib.Parallel(n_jobs)(delayed(_transform)(…))`,
    which by its contract is the same ordered map (worker scheduling is not modelled). -/
def transform (one : List (Pt α) → Except Err (Mat α)) [Zero α] (rx ry : Nat)
    (nJobs : Option Nat) (x : Input α) : Except Err (Output α) :=
  if x.len = 0 then .ok (.img (zeros rx ry))          -- `return np.zeros(self.resolution)`
  else
    let ds := ensureIterable x
    let imgs? := match nJobs with
      | some _ => ds.1.mapM one                        -- Parallel(...)(delayed(_transform)(...) for …)
      | none => ds.1.mapM one                          -- [_transform(...) for …]
    match imgs? with
    | .error e => .error e
    | .ok imgs =>
      if ds.2 then
        match imgs with
        | i :: _ => .ok (.img i)                       -- pers_imgs[0]
        | [] => .error .index
      else .ok (.imgs imgs)

end
end PersimVerif.Image
