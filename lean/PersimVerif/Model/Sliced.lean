/-
  Model of persim/sliced_wasserstein.py (`sliced_wasserstein`), import-free and polymorphic.

      diag_theta = array([cos(pi/4), sin(pi/4)])        (float64, e37e244)  -- parameter `dd`
      l_theta1   = [dot(diag_theta, x) for x in PD1]
      PD_delta1  = [[x / sqrt(2.0)] * 2 for x in l_theta1]                 -- `diagProj dd s`, s = sqrt 2 (fix 1c74424)
      (before:     [[sqrt(x**2 / 2.0)] * 2 …]  = |x|/sqrt 2                -- `diagProjOld`)
      sw = 0; theta = 0.5; step = 1.0 / M
      for i in range(M):
          l_theta = array([cos(theta*pi), sin(theta*pi)])   (float64)          -- parameter list `dirs` (length M)
          V1 = [dot(l_theta,x) for x in PD1] + [dot(l_theta,x) for x in PD_delta2]
          V2 = [dot(l_theta,x) for x in PD2] + [dot(l_theta,x) for x in PD_delta1]
          sw += step * cityblock(sorted(V1), sorted(V2))
          theta += step

  The M directions are a *parameter list* of pairs `(cos θ_i, sin θ_i)`; the harness computes them exactly
  as the code does (accumulated `theta`, float64; before /repo e37e244 they were cast to float32) and hands them to the driver, the theorems hold
  for every list of directions.  `M = dirs.length`; `M = 0` is rejected (`1.0 / 0` raises
  `ZeroDivisionError` in the code).  `sqrt` appears only in the old projection.
-/
namespace PersimVerif.Sliced

inductive Err where
  | zeroDivision
  deriving DecidableEq, Repr

section
variable {α : Type} [Add α] [Sub α] [Mul α] [Div α] [Neg α] [Zero α] [LE α] [DecidableLE α] [Max α]
  [OfNat α 1] [OfNat α 2]

/-- `np.dot(u, x)` for a direction `u` and a point `x` -/
def dot (u p : α × α) : α := u.1 * p.1 + u.2 * p.2

/-- the point of the diagonal nearest to `p`, as the code computes it after the fix:
    `x = dot(diag_theta, p) / sqrt(2.0)`, the point is `(x, x)` -/
def diagProj (dd : α × α) (s : α) (p : α × α) : α × α :=
  let x := dot dd p / s
  (x, x)

/-- the projection before commit 1c74424: `sqrt(x**2 / 2.0)` (= `|x|/√2`, wrong sign for `x < 0`) -/
def diagProjOld (sqrt : α → α) (dd : α × α) (p : α × α) : α × α :=
  let x := dot dd p
  let y := sqrt (x * x / 2)
  (y, y)

/-- Python's `sorted` on numbers (ascending) -/
def sort (l : List α) : List α := l.mergeSort (fun a b => decide (a ≤ b))

/-- `abs` -/
def absv (x : α) : α := max x (-x)

/-- `scipy.spatial.distance.cityblock(u, v)` = `abs(u - v).sum()` (the two lists have equal length here) -/
def cityblock (u v : List α) : α := (List.zipWith (fun a b => absv (a - b)) u v).sum

/-- `[dot(l_theta, x) for x in A] + [dot(l_theta, x) for x in B]` -/
def slice (dir : α × α) (A B : List (α × α)) : List α := A.map (dot dir) ++ B.map (dot dir)

/-- the summand of one direction for given diagonal projections `D1` of `PD1`, `D2` of `PD2` -/
def sliceCost (dir : α × α) (PD1 D1 PD2 D2 : List (α × α)) : α :=
  cityblock (sort (slice dir PD1 D2)) (sort (slice dir PD2 D1))

/-- the loop over the directions with a given diagonal projection `proj` -/
def swWith (proj : α × α → α × α) (natCast : Nat → α) (dirs : List (α × α)) (PD1 PD2 : List (α × α)) : α :=
  let D1 := PD1.map proj
  let D2 := PD2.map proj
  let step := 1 / natCast dirs.length
  dirs.foldl (fun sw dir => sw + step * sliceCost dir PD1 D1 PD2 D2) 0

/-- the value `sliced_wasserstein(PD1, PD2, M)` for `M = dirs.length ≥ 1` -/
def swVal (natCast : Nat → α) (dd : α × α) (s : α) (dirs : List (α × α)) (PD1 PD2 : List (α × α)) : α :=
  swWith (diagProj dd s) natCast dirs PD1 PD2

/-- the same with the projection of the old code -/
def swValOld (sqrt : α → α) (natCast : Nat → α) (dd : α × α) (dirs : List (α × α))
    (PD1 PD2 : List (α × α)) : α :=
  swWith (diagProjOld sqrt dd) natCast dirs PD1 PD2

/-- `sliced_wasserstein(PD1, PD2, M)`: rejects `M = 0` like the code (`1.0 / M`) -/
def sw (natCast : Nat → α) (dd : α × α) (s : α) (dirs : List (α × α)) (PD1 PD2 : List (α × α)) :
    Except Err α :=
  match dirs with
  | [] => .error .zeroDivision
  | _ :: _ => .ok (swVal natCast dd s dirs PD1 PD2)

end
end PersimVerif.Sliced
