/-
  Model of the *geometry* of `persim/images.py:PersistenceImager` (C12; reused by C18), import-free
  and polymorphic.  Mirrors, line by line, the code after /repo commit e840b92:

    __init__ (306-356), _n_pixels (358-360), pixel_size.setter (410-419), birth_range.setter
    (433-441), pers_range.setter (455-463), _create_mesh (576-602), fit (604-644),
    _ensure_iterable (738-748) and the shape bookkeeping of transform/_transform (669-671, 913, 939).

  `ensureIterable` below is the model of `_ensure_iterable` that C12 (and C18's `fit`) use; C04/C11 use
  `Image.ensureIterable` (Model/Image.lean) and C18's `transform` is `Transformers.imagerTransform`;
  `Lemmas/ImageModels.lean` proves that they agree.

  The state is `(b0,b1,p0,p1,ps,w,h,rx,ry)` = `_birth_range, _pers_range, _pixel_size, _width,
  _height, _resolution`.  `_bpnts/_ppnts` are recomputed by `_create_mesh` at the end of every
  mutator from exactly these fields and are never written anywhere else, so they are the derived
  functions `meshB/meshP` of the state.

  `ceil : α → Int` (`int(np.ceil(·))`), `trunc : α → Int` (`int(·)`, pre-fix code only) are
  parameters: `Rat.ceil` in the driver, `Int.ceil` of a floor ring in the theorems.

  The model rejects what the code rejects:
    * `pixel_size == 0`                               → `Err.zeroPixel` (ZeroDivisionError; with
        numpy scalars ±inf/nan reach `int()`: OverflowError/ValueError)
    * a resolution `< -1` reaching `np.linspace`       → `Err.negCount`  (ValueError: number of samples must be non-negative)
    * `fit` without data: no diagram (±inf reach `int()`: OverflowError) or an empty diagram in
      the collection (`ndarray.min` of a zero-size array: ValueError)          → `Err.emptyData`
  Type validation of the constructor (`_validate_parameters`: tuple / number / dict checks) is about
  Python types and has no counterpart here.  Coordinates are finite (NaN/±inf data are outside the model).
-/
namespace PersimVerif.Imager

structure State (α : Type) where
  b0 : α
  b1 : α
  p0 : α
  p1 : α
  ps : α
  w  : α
  h  : α
  rx : Int
  ry : Int
  deriving Repr, DecidableEq

inductive Err where
  | zeroPixel
  | negCount
  | emptyData
  deriving DecidableEq, Repr

abbrev Dgm (α : Type) := List (α × α)

/-- what the user may pass to `fit/transform`: one diagram (a `(-,2)` array) or a collection -/
inductive Input (α : Type) where
  | single (d : Dgm α)
  | coll (ds : List (Dgm α))
  deriving Repr

section
variable {α : Type} [Add α] [Sub α] [Mul α] [Div α] [Zero α] [OfNat α 2] [IntCast α]
  [LT α] [DecidableLT α] [DecidableEq α]

/-- `_n_pixels`: `int(np.ceil(extent / self._pixel_size))` -/
def nPixels (ceil : α → Int) (ps extent : α) : Int := ceil (extent / ps)

/-- `np.linspace(start, stop, num, endpoint=False)` for `num ≥ 0`:
    `step = (stop - start)/num ; arange(num) * step + start` -/
def linspace (start stop : α) (num : Int) : List α :=
  let step := (stop - start) / (num : α)
  (List.range num.toNat).map fun (i : Nat) => (((i : Int) : α)) * step + start

/-- `_bpnts` -/
def meshB (s : State α) : List α := linspace s.b0 (s.b1 + s.ps) (s.rx + 1)
/-- `_ppnts` -/
def meshP (s : State α) : List α := linspace s.p0 (s.p1 + s.ps) (s.ry + 1)

/-- `_create_mesh`: pad both ranges symmetrically up to `width/height`, then build the two
    linear spaces (`np.linspace` raises for a negative number of samples). -/
def createMesh (s : State α) : Except Err (State α) :=
  let db := s.w - (s.b1 - s.b0)
  let dp := s.h - (s.p1 - s.p0)
  if s.rx + 1 < 0 ∨ s.ry + 1 < 0 then .error .negCount
  else .ok { s with b0 := s.b0 - db / 2, b1 := s.b1 + db / 2,
                    p0 := s.p0 - dp / 2, p1 := s.p1 + dp / 2 }

/-- `__init__` (after defaults and type validation) -/
def ctor (ceil : α → Int) (b0 b1 p0 p1 ps : α) : Except Err (State α) :=
  if ps = 0 then .error .zeroPixel else
  let rx := nPixels ceil ps (b1 - b0)
  let ry := nPixels ceil ps (p1 - p0)
  createMesh { b0 := b0, b1 := b1, p0 := p0, p1 := p1, ps := ps,
               rx := rx, ry := ry, w := (rx : α) * ps, h := (ry : α) * ps }

/-- `pixel_size.setter` -/
def setPixel (ceil : α → Int) (s : State α) (v : α) : Except Err (State α) :=
  if v = 0 then .error .zeroPixel else
  let rx := nPixels ceil v (s.b1 - s.b0)
  let ry := nPixels ceil v (s.p1 - s.p0)
  createMesh { s with ps := v, rx := rx, ry := ry, w := (rx : α) * v, h := (ry : α) * v }

/-- `birth_range.setter` -/
def setBirth (ceil : α → Int) (s : State α) (v0 v1 : α) : Except Err (State α) :=
  if s.ps = 0 then .error .zeroPixel else
  let rx := nPixels ceil s.ps (v1 - v0)
  createMesh { s with b0 := v0, b1 := v1, rx := rx, w := (rx : α) * s.ps }

/-- `pers_range.setter` -/
def setPers (ceil : α → Int) (s : State α) (v0 v1 : α) : Except Err (State α) :=
  if s.ps = 0 then .error .zeroPixel else
  let ry := nPixels ceil s.ps (v1 - v0)
  createMesh { s with p0 := v0, p1 := v1, ry := ry, h := (ry : α) * s.ps }

/-! ### fit -/

/-- `pers_dgm[:, 1] = pers_dgm[:, 1] - pers_dgm[:, 0]` when `skew` -/
def skewDgm (skew : Bool) (d : Dgm α) : Dgm α :=
  if skew then d.map (fun p => (p.1, p.2 - p.1)) else d

/-- `_ensure_iterable`: `singular = not isinstance(pers_dgms[0][0], Iterable)`, `IndexError → False`.
    One empty `(0,2)` array is *not* singular and iterates as an empty collection. -/
def ensureIterable : Input α → List (Dgm α) × Bool
  | .single [] => ([], false)
  | .single d => ([d], true)
  | .coll ds => (ds, false)

/-- `ndarray.min(axis=0)`; `none` = ValueError on a zero-size array -/
def colMin : Dgm α → Option (α × α)
  | [] => none
  | p :: t => some (t.foldl (fun a q => (if q.1 < a.1 then q.1 else a.1, if q.2 < a.2 then q.2 else a.2)) p)

/-- `ndarray.max(axis=0)` -/
def colMax : Dgm α → Option (α × α)
  | [] => none
  | p :: t => some (t.foldl (fun a q => (if a.1 < q.1 then q.1 else a.1, if a.2 < q.2 then q.2 else a.2)) p)

/-- `if x < acc: acc = x` with `acc` starting at `+inf` (`none`) -/
def updMin (acc : Option α) (x : α) : Option α :=
  match acc with
  | none => some x
  | some a => if x < a then some x else some a

/-- `if x > acc: acc = x` with `acc` starting at `-inf` (`none`) -/
def updMax (acc : Option α) (x : α) : Option α :=
  match acc with
  | none => some x
  | some a => if a < x then some x else some a

/-- the four running extremes of `fit` (`none` = the initial ±inf) -/
structure Ext (α : Type) where
  minB : Option α
  maxB : Option α
  minP : Option α
  maxP : Option α

/-- the loop of `fit` (lines 623-641) -/
def scan (skew : Bool) : Ext α → List (Dgm α) → Except Err (Ext α)
  | e, [] => .ok e
  | e, d :: ds =>
    match colMin (skewDgm skew d), colMax (skewDgm skew d) with
    | some mn, some mx =>
      scan skew { minB := updMin e.minB mn.1, maxB := updMax e.maxB mx.1,
                  minP := updMin e.minP mn.2, maxP := updMax e.maxP mx.2 } ds
    | _, _ => .error .emptyData

/-- `fit`: the data's extent, then the two setters in the code's order -/
def fit (ceil : α → Int) (s : State α) (skew : Bool) (X : Input α) : Except Err (State α) :=
  match scan skew ⟨none, none, none, none⟩ (ensureIterable X).1 with
  | .error e => .error e
  | .ok ⟨some mnB, some mxB, some mnP, some mxP⟩ =>
    match setBirth ceil s mnB mxB with
    | .error e => .error e
    | .ok s1 => setPers ceil s1 mnP mxP
  | .ok _ => .error .emptyData

/-! ### configuration histories -/

inductive Op (α : Type) where
  | setBirth (v0 v1 : α)
  | setPers (v0 v1 : α)
  | setPixel (v : α)
  | fit (skew : Bool) (X : Input α)

def step (ceil : α → Int) (s : State α) : Op α → Except Err (State α)
  | .setBirth v0 v1 => setBirth ceil s v0 v1
  | .setPers v0 v1 => setPers ceil s v0 v1
  | .setPixel v => setPixel ceil s v
  | .fit skew X => fit ceil s skew X

/-- run a history; the first rejected operation ends it (the exception propagates) -/
def run (ceil : α → Int) : State α → List (Op α) → Except Err (State α)
  | s, [] => .ok s
  | s, op :: ops =>
    match step ceil s op with
    | .error e => .error e
    | .ok s' => run ceil s' ops

/-! ### the shape of what `transform` returns

`_transform` allocates `np.zeros(resolution)` and adds, in place, differences of an array indexed
by the mesh points, i.e. of shape `(len(_bpnts)-1, len(_ppnts)-1)`.  The in-place `+=` raises
unless that shape broadcasts into the resolution (equal, or 1); the result keeps the shape of the
allocation.  An empty input returns `np.zeros(self.resolution)`. -/

/-- shape of the per-point increment -/
def incShape (s : State α) : Int × Int := ((meshB s).length - 1, (meshP s).length - 1)

/-- numpy's rule for `a += b`: every axis of `b` equals that of `a` or is 1 -/
def broadcastsInto (b a : Int × Int) : Bool :=
  (b.1 = a.1 || b.1 = 1) && (b.2 = a.2 || b.2 = 1)

/-- shape of one image (`none` = `ValueError: operands could not be broadcast together`, raised
    only when there is at least one point to add) -/
def imageShape (s : State α) (npoints : Nat) : Option (Int × Int) :=
  if s.rx < 0 ∨ s.ry < 0 then none          -- np.zeros of a negative dimension
  else if npoints = 0 then some (s.rx, s.ry)
  else if broadcastsInto (incShape s) (s.rx, s.ry) then some (s.rx, s.ry) else none

/-! ### the code before e840b92 (kept for the counterexample) -/

/-- old `__init__`: `width = b1 - b0`, `resolution = int(width / pixel_size)` -/
def ctorOld (trunc : α → Int) (b0 b1 p0 p1 ps : α) : Except Err (State α) :=
  if ps = 0 then .error .zeroPixel else
  let w := b1 - b0
  let h := p1 - p0
  createMesh { b0 := b0, b1 := b1, p0 := p0, p1 := p1, ps := ps,
               w := w, h := h, rx := trunc (w / ps), ry := trunc (h / ps) }

/-- old `birth_range.setter`: `width = ceil(extent/ps)*ps`, then
    `resolution = (int(width/ps), int(height/ps))` -/
def setBirthOld (ceil trunc : α → Int) (s : State α) (v0 v1 : α) : Except Err (State α) :=
  if s.ps = 0 then .error .zeroPixel else
  let w := ((ceil ((v1 - v0) / s.ps) : Int) : α) * s.ps
  createMesh { s with b0 := v0, b1 := v1, w := w, rx := trunc (w / s.ps), ry := trunc (s.h / s.ps) }

end
end PersimVerif.Imager
