/-
  Line protocol shared by every driver command (import-free, core Lean only).

  One operation per line:   `op arg arg …`   (arguments separated by single spaces, no spaces
  inside an argument).  Argument / result syntax:

    number   `p/q` or `p` (exact rational, sign on p), `inf`, `-inf`, `nan`
    float    `f<bits>`  (IEEE-754 double as its 64-bit pattern, decimal)  — results only
    string   any other token (must not start with `[`, a digit, `-` or `f<digit>`)
    list     `[v,v,…]`  nested arbitrarily, `[]` for empty

  Errors are answered as `err:<Kind>`; an operation the driver does not know is `bad-op`.
-/
namespace PersimVerif

inductive Val where
  | num  : Rat → Val
  | flt  : Float → Val
  | inf  : Bool → Val          -- `true` = −∞
  | nan  : Val
  | str  : String → Val
  | list : List Val → Val
  deriving Inhabited

namespace Val

/-- exact conversion of a rational to `Float` when it is representable (dyadic denominators
    go through `scaleB`, so subnormal inputs survive); otherwise correctly-rounded division. -/
def ratToFloat (r : Rat) : Float :=
  let n := r.num
  let d := r.den
  if d == 1 then Float.ofInt n
  else
    let k := d.log2
    if d == 2 ^ k then (Float.ofInt n).scaleB (-(k : Int))
    else Float.ofInt n / Float.ofNat d

partial def render : Val → String
  | num r   => if r.den == 1 then toString r.num else s!"{r.num}/{r.den}"
  | flt x   => s!"f{x.toBits}"
  | inf neg => if neg then "-inf" else "inf"
  | nan     => "nan"
  | str s   => s
  | list xs => "[" ++ ",".intercalate (xs.map render) ++ "]"

instance : ToString Val := ⟨render⟩

/-- parse a scalar token -/
def parseScalar (s : String) : Val :=
  if s == "inf" then inf false
  else if s == "-inf" then inf true
  else if s == "nan" then nan
  else
    match s.splitOn "/" with
    | [p] => match p.toInt? with
      | some n => num (n : Rat)
      | none => str s
    | [p, q] => match p.toInt?, q.toNat? with
      | some n, some d => if d == 0 then str s else num (mkRat n d)
      | _, _ => str s
    | _ => str s

/-- recursive-descent parser over characters; returns the value and the rest -/
partial def parseChars : List Char → Option (Val × List Char)
  | '[' :: rest => parseList rest []
  | cs =>
    let tok := cs.takeWhile (fun c => c != ',' && c != ']' && c != '[')
    let rest := cs.dropWhile (fun c => c != ',' && c != ']' && c != '[')
    if tok.isEmpty then none else some (parseScalar (String.ofList tok), rest)
where
  parseList : List Char → List Val → Option (Val × List Char)
    | ']' :: rest, acc => some (list acc.reverse, rest)
    | ',' :: rest, acc => parseList rest acc
    | cs, acc => match parseChars cs with
      | some (v, rest) => parseList rest (v :: acc)
      | none => none

def parse (s : String) : Option Val :=
  match parseChars s.toList with
  | some (v, []) => some v
  | _ => none

/-! accessors (all partial functions are `Option`-valued: the driver answers `bad-op` on `none`) -/

def asRat? : Val → Option Rat
  | num r => some r
  | _ => none

def asInt? : Val → Option Int
  | num r => if r.den == 1 then some r.num else none
  | _ => none

def asNat? : Val → Option Nat
  | num r => if r.den == 1 && r.num ≥ 0 then some r.num.toNat else none
  | _ => none

def asFloat? : Val → Option Float
  | num r => some (ratToFloat r)
  | flt x => some x
  | inf neg => some (if neg then -(1.0/0.0) else (1.0/0.0))
  | nan => some (0.0/0.0)
  | _ => none

def asStr? : Val → Option String
  | str s => some s
  | _ => none

def asList? : Val → Option (List Val)
  | list xs => some xs
  | _ => none

def asBool? : Val → Option Bool
  | str "T" => some true
  | str "F" => some false
  | _ => none

def listOf? (f : Val → Option α) : Val → Option (List α)
  | list xs => xs.mapM f
  | _ => none

/-- an optional scalar: the token `none` or a value -/
def optOf? (f : Val → Option α) : Val → Option (Option α)
  | str "none" => some none
  | v => (f v).map some

def pairOf? (f : Val → Option α) : Val → Option (α × α)
  | list [a, b] => do pure (← f a, ← f b)
  | _ => none

/-- extended rational: a finite value or ±∞ (how diagrams with infinite deaths travel) -/
inductive ERat where
  | fin : Rat → ERat
  | pinf : ERat
  | ninf : ERat
  deriving BEq, Inhabited

def asERat? : Val → Option ERat
  | num r => some (.fin r)
  | inf neg => some (if neg then .ninf else .pinf)
  | _ => none

def ofBool (b : Bool) : Val := str (if b then "T" else "F")
def ofNat (n : Nat) : Val := num (n : Rat)
def ofInt (n : Int) : Val := num (n : Rat)
def ofRats (xs : List Rat) : Val := list (xs.map num)
def ofFloats (xs : List Float) : Val := list (xs.map flt)
def err (kind : String) : Val := str s!"err:{kind}"

end Val

/-- a driver handler: `none` = not my operation / malformed arguments -/
abbrev Handler := String → List Val → Option Val

end PersimVerif
