/-
  Model of persim/heat.py (`evalHeatKernel`, `heat`), import-free and polymorphic.

  `exp`, `sqrt` and the constant `pi` are parameters; the numerals `2` and `8` come from `OfNat`
  (so the same text is `8 * sigma` at `Float`, `Rat` and `ℝ`).  A diagram is a list of points
  `(birth, death)` (the code reads columns `0:2` of `np.array(dgm)`; an empty list / an array of
  shape `(0,2)` makes both loops empty).

      kSigma = 0
      for p in dgm1: for q in dgm2:                       -- row-major, left to right
          qc = (q[1], q[0])
          kSigma += exp(-(|p-q|^2)/(8*sigma)) - exp(-(|p-qc|^2)/(8*sigma))
      return kSigma / (8*pi*sigma)

      heat = sqrt(maximum(k(F,F) + k(G,G) - 2*k(F,G), 0))      -- after fix 2acc822
      heatOld = sqrt(k(F,F) + k(G,G) - 2*k(F,G))              -- before: NaN when rounding makes it < 0

  The code has no guard on `sigma`; the property quantifies over `sigma > 0` and so do the theorems.
-/
namespace PersimVerif.Heat

section
variable {α : Type} [Add α] [Sub α] [Mul α] [Div α] [Neg α] [Zero α] [Max α]
  [OfNat α 2] [OfNat α 8]

/-- `np.sum((p - q) ** 2)` for two points -/
def sqDist (p q : α × α) : α := (p.1 - q.1) * (p.1 - q.1) + (p.2 - q.2) * (p.2 - q.2)

/-- `qc = I2[j, 1::-1]`: the mirror image of `q` at the diagonal -/
def mirror (q : α × α) : α × α := (q.2, q.1)

/-- one summand of the double loop -/
def kTerm (exp : α → α) (sigma : α) (p q : α × α) : α :=
  exp (-(sqDist p q) / (8 * sigma)) - exp (-(sqDist p (mirror q)) / (8 * sigma))

/-- the accumulator `kSigma` after the double loop (left folds, `kSigma = 0` initially) -/
def kSum (exp : α → α) (sigma : α) (d1 d2 : List (α × α)) : α :=
  d1.foldl (fun acc p => d2.foldl (fun acc q => acc + kTerm exp sigma p q) acc) 0

/-- `evalHeatKernel(dgm1, dgm2, sigma)` -/
def evalHeatKernel (exp : α → α) (pi : α) (d1 d2 : List (α × α)) (sigma : α) : α :=
  kSum exp sigma d1 d2 / (8 * pi * sigma)

/-- the radicand `k(F,F) + k(G,G) - 2 k(F,G)` -/
def dist2 (exp : α → α) (pi : α) (d1 d2 : List (α × α)) (sigma : α) : α :=
  evalHeatKernel exp pi d1 d1 sigma + evalHeatKernel exp pi d2 d2 sigma
    - 2 * evalHeatKernel exp pi d1 d2 sigma

/-- `heat(dgm1, dgm2, sigma)` after the fix: the radicand is clamped at 0 (`np.maximum(·, 0)`) -/
def heat (exp sqrt : α → α) (pi : α) (d1 d2 : List (α × α)) (sigma : α) : α :=
  sqrt (max (dist2 exp pi d1 d2 sigma) 0)

/-- `heat` before commit 2acc822: no clamp -/
def heatOld (exp sqrt : α → α) (pi : α) (d1 d2 : List (α × α)) (sigma : α) : α :=
  sqrt (dist2 exp pi d1 d2 sigma)

end
end PersimVerif.Heat
