import PersimVerif.Model.PLBase
/-
  Model of the grid ("approximate") persistence landscape of persim:

    persim/landscapes/approximate.py   `PersLandscapeApprox.__init__`, `compute_landscape`
    persim/landscapes/auxiliary.py     `ndsnap_regular`
    persim/landscapes/tools.py         `vectorize`, `death_vector`
    persim/landscapes/transformer.py   `PersistenceLandscaper.fit / transform / fit_transform`

  Import-free (core Lean only) and polymorphic over core classes, so the same definitions run at
  `Rat` in the driver and unfold to Mathlib notation over a linear ordered field in the theorems.

  A diagram coordinate is `Option α`, `none` = +∞ (the only non-finite value the constructor
  treats: rows containing `np.inf` are removed).

  External calls are modelled by their contract (DESIGN.md section 5):
    * `np.linspace(start, stop, n, retstep=True)`:  `step = (stop-start)/(n-1)`, node `i` is
      `i*step + start` (the last node is `stop`, which is the same number in exact arithmetic);
    * `np.argmin`: index of the FIRST minimum;
    * `dict(zip(grid, range(n)))[v]`: the LAST index holding the key `v`;
    * `sorted(…, reverse=True)`: a descending sort (core `mergeSort`);
    * `np.interp(x, xp, fp)` for increasing `xp`: `npInterp` below (clamped linear interpolation);
    * `TransformerMixin.fit_transform(X) = fit(X).transform(X)`.

  What the code rejects, the model rejects (`Err`).  A grid on which no bar is visible (every `W[i]`
  stays empty, `K = 0`) gives ONE ZERO ROW `np.zeros((1, num_steps))`, `max_depth = 1` (/repo fix
  357d745; before it the code stored the string placeholder `np.array(["empty"])`).
-/
namespace PersimVerif.Approx
open PersimVerif.PL

inductive Err where
  | noDiagrams      -- `dgms` is the empty list (and no values): ValueError
  | homDeg          -- `dgms[hom_deg]` out of range: IndexError
  | emptyDiagram    -- `min()/max()` of an empty diagram when start/stop is not given: ValueError
  | noSteps         -- `num_steps = 0`: ValueError (argmin of an empty sequence / max of an empty list /
                    --   "dgms and values cannot both be empty" in `vectorize`)
  | emptyDepth      -- `vectorize`: `xs, ys = zip(*depth)` on an empty depth: ValueError
  | noDepths        -- `vectorize`: `critical_pairs[0]` on an empty landscape: IndexError
  | startAfterStop  -- `vectorize` → constructor with values: "start must be less than or equal to stop": ValueError
  | notImplemented  -- `death_vector` with `hom_deg != 0`: NotImplementedError
  | keyError        -- only in the model of the code before fix b209c93 (`fitTransformOld`): `dict_grid[nan]`
  deriving DecidableEq, Repr

/-- the `values` attribute: a depth × grid matrix (always at least one row, see `valuesOfW`) -/
inductive Values (α : Type) where
  | mat (rows : List (List α))
  deriving Repr, DecidableEq

/-- rows of the values array -/
def Values.rows {α : Type} : Values α → List (List α)
  | .mat r => r

/-- entry (depth `k`, node `i`), depths beyond those returned counting as zero -/
def Values.entry {α : Type} [Zero α] (v : Values α) (k i : Nat) : α :=
  match v.rows[k]? with
  | some row => row.getD i 0
  | none => 0

abbrev Dgm (α : Type) := List (Option α × Option α)

section
variable {α : Type} [Add α] [Sub α] [Mul α] [Div α] [Neg α] [Zero α] [NatCast α] [LT α]
  [DecidableLT α] [LE α] [DecidableLE α] [Max α] [Min α] [DecidableEq α]

/-! ### the grid -/

/-- `np.abs` -/
def absv (x : α) : α := max x (-x)

/-- the `step` returned by `np.linspace(start, stop, n, retstep=True)` (`n ≥ 2`; for `n = 1` numpy
    returns `nan`, which is never used because no ramp is written then) -/
def stepOf (start stop : α) (n : Nat) : α := (stop - start) / ((n - 1 : Nat) : α)

/-- node `i` of the grid -/
def node (start stop : α) (n i : Nat) : α := (i : α) * stepOf start stop n + start

/-- `np.linspace(start, stop, n)` -/
def linspace (start stop : α) (n : Nat) : List α := (List.range n).map (node start stop n)

/-! ### `ndsnap_regular`: nearest node, first arg-min -/

/-- `(index, value)` of the first minimum of `a :: t` -/
def argminAux : α → List α → Nat × α
  | a, [] => (0, a)
  | a, b :: t =>
    let r := argminAux b t
    if r.2 < a then (r.1 + 1, r.2) else (0, a)

/-- `np.argmin` (first minimum).  numpy raises on an empty sequence; the callers below reject
    `num_steps = 0` before reaching it. -/
def argmin : List α → Nat
  | [] => 0
  | a :: t => (argminAux a t).1

/-- `best = np.argmin(np.abs(ax[:, None] - x), axis=0)` for one coordinate `x` -/
def snapIdx (grid : List α) (x : α) : Nat := argmin (grid.map fun g => absv (g - x))

/-- `dict_grid[ax[best]]` with `dict_grid = dict(zip(grid_values, index))`: later equal keys
    overwrite earlier ones, so the lookup returns the last index whose node equals node `i`
    (`i` itself is always a hit). -/
def dictIndex (grid : List α) (i : Nat) : Nat :=
  (List.range grid.length).foldl (fun acc j => if grid[j]? = grid[i]? then j else acc) i

/-- index in `W` of the snapped coordinate -/
def gridIndex (grid : List α) (x : α) : Nat := dictIndex grid (snapIdx grid x)

/-! ### the two ramp loops of `compute_landscape` -/

/-- `W[i].append(v)` -/
def appendAt (W : List (List α)) (i : Nat) (v : α) : List (List α) := W.modify i (· ++ [v])

/-- `mid_pt = ind_in_Wb + (ind_in_Wd - ind_in_Wb) // 2` (Python floor division = `Int` `/`) -/
def midPt (ib id : Nat) : Int := (ib : Int) + ((id : Int) - (ib : Int)) / 2

/-- `j = 0; for _ in range(ind_in_Wb, mid_pt): j += 1; W[ind_in_Wb + j].append(j * step)` -/
def rampUp (step : α) (ib : Nat) (mid : Int) (W : List (List α)) : List (List α) :=
  (List.range (mid - (ib : Int)).toNat).foldl
    (fun W t => appendAt W (ib + (t + 1)) (((t + 1 : Nat) : α) * step)) W

/-- `j = 0; for _ in range(mid_pt + 1, ind_in_Wd): j += 1; W[ind_in_Wd - j].append(j * step)` -/
def rampDown (step : α) (mid : Int) (id : Nat) (W : List (List α)) : List (List α) :=
  (List.range ((id : Int) - (mid + 1)).toNat).foldl
    (fun W t => appendAt W (id - (t + 1)) (((t + 1 : Nat) : α) * step)) W

/-- body of `for ind_in_bd_pairs, bd in enumerate(bd_pairs_grid)` -/
def addBar (step : α) (grid : List α) (W : List (List α)) (p : α × α) : List (List α) :=
  let ib := gridIndex grid p.1
  let id := gridIndex grid p.2
  let mid := midPt ib id
  rampDown step mid id (rampUp step ib mid W)

/-- `W` after the loop over all bars -/
def rampsW (bars : List (α × α)) (start stop : α) (n : Nat) : List (List α) :=
  bars.foldl (addBar (stepOf start stop n) (linspace start stop n)) (List.replicate n [])

/-- sort every `W[i]` descending, `K = max len`, `L[k][i] = W[i][k]` on a zero matrix; when
    `L.size == 0` (no bar visible, `K = 0`): `L = np.zeros((1, self.num_steps))`, one zero row -/
def valuesOfW (W : List (List α)) : Values α :=
  let Ws := W.map sortDesc
  let K := (Ws.map List.length).foldl max 0
  if K = 0 then .mat [List.replicate W.length 0]
  else .mat ((List.range K).map fun k => Ws.map fun w => w.getD k 0)

/-- `compute_landscape` for `num_steps = n ≥ 1` -/
def computeLandscape (bars : List (α × α)) (start stop : α) (n : Nat) : Values α :=
  valuesOfW (rampsW bars start stop n)

/-! ### the constructor -/

/-- `self.dgms[~np.any(self.dgms == np.inf, axis=1)]` -/
def finiteBars (d : Dgm α) : List (α × α) :=
  d.filterMap fun p => match p.1, p.2 with
    | some b, some e => some (b, e)
    | _, _ => none

/-- `min(dgm, key=itemgetter(0))[0]` (keeps the first unless a later one is strictly smaller) -/
def minBirth : List (α × α) → Option α
  | [] => none
  | p :: t => some (t.foldl (fun m q => if q.1 < m then q.1 else m) p.1)

/-- `max(dgm, key=itemgetter(1))[1]` -/
def maxDeath : List (α × α) → Option α
  | [] => none
  | p :: t => some (t.foldl (fun m q => if m < q.2 then q.2 else m) p.2)

/-- `if start is None: start = min(self.dgms, key=itemgetter(0))[0]` -/
def resolveStart (start : Option α) (bars : List (α × α)) : Option α :=
  match start with
  | some s => some s
  | none => minBirth bars

/-- `if stop is None: stop = max(self.dgms, key=itemgetter(1))[1]` -/
def resolveStop (stop : Option α) (bars : List (α × α)) : Option α :=
  match stop with
  | some e => some e
  | none => maxDeath bars

/-- `PersLandscapeApprox(dgms=…, hom_deg=…, start=…, stop=…, num_steps=…).values` -/
def persLandscapeApprox (dgms : List (Dgm α)) (homDeg : Nat) (start stop : Option α) (n : Nat) :
    Except Err (Values α) :=
  if dgms.isEmpty then .error .noDiagrams else
  match dgms[homDeg]? with
  | none => .error .homDeg
  | some d =>
    let bars := finiteBars d
    match resolveStart start bars with
    | none => .error .emptyDiagram
    | some s =>
      match resolveStop stop bars with
      | none => .error .emptyDiagram
      | some e => if n = 0 then .error .noSteps else .ok (computeLandscape bars s e n)

/-! ### `vectorize` -/

/-- contract of `np.interp(t, xs, ys)` for increasing `xs`: clamped linear interpolation
    (`slope*(t - x_j) + y_j` on `[x_j, x_{j+1})`, the end values outside) -/
def npInterp : List (α × α) → α → α
  | [], _ => 0
  | [(_, y0)], _ => y0
  | (x0, y0) :: (x1, y1) :: rest, t =>
    if t ≤ x0 then y0
    else if t < x1 then (y1 - y0) / (x1 - x0) * (t - x0) + y0
    else npInterp ((x1, y1) :: rest) t

/-- smallest / largest abscissa of a depth (`min/max(…, key=itemgetter(0))[0]`) -/
def minAbscissa : List (α × α) → Option α
  | [] => none
  | p :: t => some (t.foldl (fun m q => if q.1 < m then q.1 else m) p.1)

def maxAbscissa : List (α × α) → Option α
  | [] => none
  | p :: t => some (t.foldl (fun m q => if m < q.1 then q.1 else m) p.1)

/-- an optional argument with its default -/
def optOr (a b : Option α) : Option α :=
  match a with
  | some x => some x
  | none => b

/-- `vectorize(l, start, stop, num_steps).values` for an exact landscape with critical pairs `cps`;
    `interp` is `np.interp` -/
def vectorize (interp : List (α × α) → α → α) (cps : List (List (α × α))) (start stop : Option α)
    (n : Nat) : Except Err (List (List α)) :=
  match cps with
  | [] => .error .noDepths
  | d0 :: _ =>
    match optOr start (minAbscissa d0) with
    | none => .error .emptyDepth
    | some s =>
      match optOr stop (maxAbscissa d0) with
      | none => .error .emptyDepth
      | some e =>
        if cps.any List.isEmpty then .error .emptyDepth
        else if n = 0 then .error .noSteps
        else if e < s then .error .startAfterStop
        else .ok (cps.map fun depth => (linspace s e n).map (interp depth))

/-! ### `PersistenceLandscaper` (a freshly constructed transformer) -/

structure Landscaper (α : Type) where
  homDeg : Nat
  start : Option α
  stop : Option α
  numSteps : Nat
  flatten : Bool

/-- what `transform` returns: the values array or its row-major flattening -/
inductive Out (α : Type) where
  | values (v : Values α)
  | flat (xs : List α)
  deriving Repr, DecidableEq

def embed (d : List (α × α)) : Dgm α := d.map fun p => (some p.1, some p.2)

/-- `fit`: learn `start`/`stop` from the points of `X[hom_deg]` with finite coordinates
    (`_dgm = [pt for pt in X[self.hom_deg] if np.all(np.isfinite(pt))]`, /repo fix b209c93) unless the
    user fixed them -/
def Landscaper.fit (self : Landscaper α) (X : List (Dgm α)) : Except Err (Landscaper α) :=
  match X[self.homDeg]? with
  | none => .error .homDeg
  | some d =>
    match resolveStart self.start (finiteBars d) with
    | none => .error .emptyDiagram
    | some s =>
      match resolveStop self.stop (finiteBars d) with
      | none => .error .emptyDiagram
      | some e => .ok { self with start := some s, stop := some e }

/-- `transform`: build the approximate landscape, `.flatten()` (C order) on request -/
def Landscaper.transform (self : Landscaper α) (X : List (Dgm α)) : Except Err (Out α) :=
  match persLandscapeApprox X self.homDeg self.start self.stop self.numSteps with
  | .error e => .error e
  | .ok v =>
    if self.flatten then .ok (.flat v.rows.flatten)
    else .ok (.values v)

/-- `fit_transform(X) = fit(X).transform(X)` (sklearn `TransformerMixin`) -/
def Landscaper.fitTransform (self : Landscaper α) (X : List (Dgm α)) : Except Err (Out α) :=
  match self.fit X with
  | .error e => .error e
  | .ok s => s.transform X

/-- `max(dgm, key=itemgetter(1))[1]` over ALL points, `none = +∞` (the code before fix b209c93 did
    not filter): `none` as soon as some death is infinite -/
def maxDeathOpt (d : Dgm α) : Option (Option α) :=
  match d with
  | [] => none
  | _ :: _ => some (if d.any (fun p => p.2.isNone) then none else maxDeath (finiteBars d))

/-- the code BEFORE fix b209c93: `fit` took `stop` from all points of the diagram; a learnt
    `stop = inf` makes `np.linspace` produce `nan` nodes and `dict_grid[...]` raise `KeyError(nan)` in
    `transform` (modelled as `Err.keyError`).  Births are assumed finite. -/
def Landscaper.fitTransformOld (self : Landscaper α) (X : List (Dgm α)) : Except Err (Out α) :=
  match X[self.homDeg]? with
  | none => .error .homDeg
  | some d =>
    match self.stop, maxDeathOpt d with
    | none, some none => .error .keyError
    | _, _ => self.fitTransform X

/-! ### `death_vector` -/

/-- `a ≥ b` on coordinates with `none = +∞` -/
def geOpt : Option α → Option α → Bool
  | none, _ => true
  | some _, none => false
  | some x, some y => decide (y ≤ x)

/-- `sorted(dgms[hom_deg][:, 1], reverse=True)` -/
def deathVector (dgms : List (Dgm α)) (homDeg : Nat) : Except Err (List (Option α)) :=
  if homDeg ≠ 0 then .error .notImplemented else
  match dgms[homDeg]? with
  | none => .error .homDeg
  | some d => .ok ((d.map (·.2)).mergeSort geOpt)

/-- the true landscape sampled at the grid nodes, depths `0 … #bars-1` (search oracle) -/
def lambdaGrid (bars : List (α × α)) (start stop : α) (n : Nat) : List (List α) :=
  (List.range bars.length).map fun k => (linspace start stop n).map fun t => landscape bars k t

end
end PersimVerif.Approx
