/-
  Model of persim/persistent_entropy.py (`persistent_entropy`), import-free and polymorphic.

  A coordinate is `Option α` (`none` = +∞, the only non-finite value the routine knows about);
  `log` is a parameter.  The model rejects what the code rejects:
    * `keep_inf=True` without `val_inf`      → `Err.needValInf`   (code: `Exception`)
    * some bar with length ≤ 0 (or not > 0)  → `Err.bornAfterDying` (code: `Exception`)
-/
namespace PersimVerif.Entropy

inductive Err where
  | needValInf
  | bornAfterDying
  deriving DecidableEq, Repr

abbrev Dgm (α : Type) := List (Option α × Option α)

section
variable {α : Type} [Add α] [Sub α] [Mul α] [Div α] [Neg α] [Zero α] [LT α] [DecidableLT α]

/-- Step 1 of the code: drop bars with infinite death (`keep_inf=False`) … -/
def dropInf (d : Dgm α) : List (α × α) :=
  d.filterMap fun p => match p.1, p.2 with
    | some b, some e => some (b, e)
    | _, _ => none

/-- … or substitute `val_inf` for every infinite entry (`keep_inf=True`). -/
def substInf (v : α) (d : Dgm α) : List (α × α) :=
  d.map fun p => (p.1.getD v, p.2.getD v)

def lengths (d : List (α × α)) : List α := d.map fun p => p.2 - p.1

/-- Shannon entropy of the normalised lengths, as the code writes it: `-sum(p*log p)`. -/
def shannon (log : α → α) (l : List α) : α :=
  let L := l.sum
  Neg.neg ((l.map fun x => (x / L) * log (x / L)).sum)

/-- Step 2 for one diagram. `logn` is `log (len l)` as the code computes it. -/
def entropyOne (log : α → α) (natCast : Nat → α) (normalize : Bool) (d : List (α × α)) :
    Except Err α :=
  let l := lengths d
  if l.all (fun x => decide (0 < x)) then
    let E := shannon log l
    .ok (if normalize then E / log (natCast l.length) else E)
  else .error .bornAfterDying

/-- The whole routine on a list of diagrams (a single diagram is wrapped by the caller, as
    `isinstance(dgms, list) == False` does). -/
def persistentEntropy (log : α → α) (natCast : Nat → α) (keepInf : Bool) (valInf : Option α)
    (normalize : Bool) (dgms : List (Dgm α)) : Except Err (List α) :=
  if keepInf then
    match valInf with
    | none => .error .needValInf
    | some v => (dgms.map (substInf v)).mapM (entropyOne log natCast normalize)
  else (dgms.map dropInf).mapM (entropyOne log natCast normalize)

end
end PersimVerif.Entropy
