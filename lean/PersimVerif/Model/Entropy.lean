/-
  Model of persim/persistent_entropy.py (`persistent_entropy`), import-free and polymorphic.

  A coordinate is `Option α` (`none` = +∞, the only non-finite value the routine knows about);
  `log` is a parameter.  The model rejects what the code rejects:
    * `keep_inf=True` without `val_inf`      → `Err.needValInf`   (code: `Exception`)
    * some bar with length ≤ 0 (or not > 0)  → `Err.bornAfterDying` (code: `Exception`);
      this includes a bar `[inf, e]` with finite death when `keep_inf=False`: the code filters on
      the death column only, the bar stays and its length is `-inf`.
-/
namespace PersimVerif.Entropy

inductive Err where
  | needValInf
  | bornAfterDying
  deriving DecidableEq, Repr

abbrev Dgm (α : Type) := List (Option α × Option α)

section
variable {α : Type} [Add α] [Sub α] [Mul α] [Div α] [Neg α] [Zero α] [LT α] [DecidableLT α]

/-- Step 1 of the code (`keep_inf=False`): `dgm[dgm[:, 1] != np.inf]` — the filter looks at the
    **death only**.  A bar with an infinite *birth* and a finite death stays in. -/
def dropInf (d : Dgm α) : List (Option α × α) :=
  d.filterMap fun p => match p.2 with
    | some e => some (p.1, e)
    | none => none

/-- The births of the bars that are left, if all of them are finite.  A remaining infinite birth
    gives the length `e - inf = -inf`, which is not `> 0`: the code raises "born after dying". -/
def finiteBirths : List (Option α × α) → Option (List (α × α))
  | [] => some []
  | (some b, e) :: t => (finiteBirths t).map ((b, e) :: ·)
  | (none, _) :: _ => none

/-- … or substitute `val_inf` for every infinite entry (`keep_inf=True`). -/
def substInf (v : α) (d : Dgm α) : List (α × α) :=
  d.map fun p => (p.1.getD v, p.2.getD v)

def lengths (d : List (α × α)) : List α := d.map fun p => p.2 - p.1

/-- Shannon entropy of the normalised lengths, as the code writes it: `-sum(p*log p)`. -/
def shannon (log : α → α) (l : List α) : α :=
  let L := l.sum
  Neg.neg ((l.map fun x => (x / L) * log (x / L)).sum)

/-- Step 2 for one diagram. `logn` is `log (len l)` as the code computes it. -/
def entropyOne (log : α → α) (natCast : Nat → α) (normalize : Bool) (d : List (α × α)) :
    Except Err α :=
  let l := lengths d
  if l.all (fun x => decide (0 < x)) then
    let E := shannon log l
    .ok (if normalize then E / log (natCast l.length) else E)
  else .error .bornAfterDying

/-- Step 1 + 2 for one diagram when `keep_inf=False`. -/
def entropyDrop (log : α → α) (natCast : Nat → α) (normalize : Bool) (d : Dgm α) : Except Err α :=
  match finiteBirths (dropInf d) with
  | some d' => entropyOne log natCast normalize d'
  | none => .error .bornAfterDying

/-- The whole routine on a list of diagrams (a single diagram is wrapped by the caller, as
    `isinstance(dgms, list) == False` does). -/
def persistentEntropy (log : α → α) (natCast : Nat → α) (keepInf : Bool) (valInf : Option α)
    (normalize : Bool) (dgms : List (Dgm α)) : Except Err (List α) :=
  if keepInf then
    match valInf with
    | none => .error .needValInf
    | some v => (dgms.map (substInf v)).mapM (entropyOne log natCast normalize)
  else dgms.mapM (entropyDrop log natCast normalize)

end
end PersimVerif.Entropy
