/-
  Model of the landscape norms (property C10), import-free and polymorphic.

  Anchors (all in /repo/persim/landscapes):
    * `auxiliary.py:_p_norm`            → `segTerm`, `pNormPow`, `pNorm`   (code after fixes 5bfdf8b, b342827)
    * the same function before 5bfdf8b  → `segTermOld`, `pNormPowOld`
      (b342827 only re-associates the one-signed branch against float cancellation; in exact
       arithmetic the value did not change)
    * `base.py:PersLandscape.p_norm`    → `checkP`  (argument validation)
    * `exact.py:p_norm / sup_norm`      → `pNormMethod`, `supNormExact`
    * `approximate.py:p_norm / sup_norm / values_to_pairs` → `valuesToPairs`, `supNormApprox`

  A depth function is its list of critical points `(x, y)`; a landscape is the list of its depth
  functions.  `x ** p` and `x ** (p+1)` are the parameters `powP`, `powP1`, the real number `p+1`
  is `p1`, `-np.expm1((p+1)*np.log(r))` is `oneSubPow r`, the final `** (1.0/p)` is `root`: one definition therefore serves natural `p`
  (`^` on `Rat`/`ℝ`, see `pNormPowNat`) and real `p` (`Float.pow`, see `pNormPowF` in the driver).
-/
namespace PersimVerif.PNorm

/-- what the code raises -/
inductive Err where
  | valueError        -- `p < -1 or -1 < p < 0` (base.py); `max()`/`np.max` of an empty sequence
  | zeroDivision      -- `1.0 / p` with `p == 0`; a segment with `x1 == x0` and `y1 != y0`
  deriving DecidableEq, Repr

/-- the three outcomes of the argument check in `PersLandscape.p_norm` (base.py:41-45) -/
inductive PCheck where
  | reject     -- raises `ValueError`
  | sup        -- `p == -1`: the base method evaluates `self.sup_norm()`
  | norm       -- every other accepted `p` (that is `p ≥ 0`)
  deriving DecidableEq, Repr

section
variable {α : Type} [Add α] [Sub α] [Mul α] [Div α] [Neg α] [Zero α] [One α] [LT α] [DecidableLT α]
  [BEq α]

/-- `np.abs` on a scalar -/
def absA (x : α) : α := if x < 0 then -x else x

/-- base.py:41-45 -/
def checkP (p : α) : PCheck :=
  if p < -1 ∨ (-1 < p ∧ p < 0) then .reject
  else if p == -1 then .sup
  else .norm

/-- consecutive pairs `zip(l, l[1:])` -/
def segs : List (α × α) → List ((α × α) × (α × α))
  | a :: b :: rest => (a, b) :: segs (b :: rest)
  | _ => []

variable [OfNat α 2]

/-- `a, M = sorted((np.abs(y0), np.abs(y1)))` -/
def sortedAbs (y0 y1 : α) : α × α :=
  if absA y1 < absA y0 then (absA y1, absA y0) else (absA y0, absA y1)

/-- the contribution of one segment to `result` — body of the inner loop of the **fixed** `_p_norm`
    (auxiliary.py:153-177, after fixes 5bfdf8b and b342827).
    `powP x = x ** p`, `p1 = p + 1`, `powP1 x = x ** (p+1)`,
    `oneSubPow r = -np.expm1((p + 1) * np.log(r))`, i.e. `1 - r ** (p+1)` for `r > 0`. -/
def segTerm (powP powP1 oneSubPow : α → α) (p1 : α) (x0 y0 x1 y1 : α) : α :=
  if y0 == y1 then
    -- horizontal line segment
    powP (absA y0) * (x1 - x0)
  else
    let slope := (y1 - y0) / (x1 - x0)
    let b := y0 - slope * x0
    if (y0 < 0 ∧ 0 < y1) ∨ (0 < y0 ∧ y1 < 0) then
      -- segment crosses the x-axis
      let z := -b / slope
      let ev_x1 := powP1 (absA (slope * x1 + b)) / (absA slope * p1)
      let ev_x0 := powP1 (absA (slope * x0 + b)) / (absA slope * p1)
      let ev_z := powP1 (absA (slope * z + b)) / (absA slope * p1)
      absA (ev_x1 + ev_x0 - 2 * ev_z)
    else
      -- segment does not cross the x-axis
      let aM := sortedAbs y0 y1
      let r := aM.1 / aM.2
      let ratio := if r == 0 then 1 else oneSubPow r / (1 - r)
      (x1 - x0) * powP aM.2 * ratio / p1

/-- the same loop body **before** fix 5bfdf8b: no absolute values inside the antiderivative -/
def segTermOld (powP powP1 : α → α) (p1 : α) (x0 y0 x1 y1 : α) : α :=
  if y0 == y1 then
    powP (absA y0) * (x1 - x0)
  else
    let slope := (y1 - y0) / (x1 - x0)
    let b := y0 - slope * x0
    if (y0 < 0 ∧ 0 < y1) ∨ (0 < y0 ∧ y1 < 0) then
      let z := -b / slope
      let ev_x1 := powP1 (slope * x1 + b) / (slope * p1)
      let ev_x0 := powP1 (slope * x0 + b) / (slope * p1)
      let ev_z := powP1 (slope * z + b) / (slope * p1)
      absA (ev_x1 + ev_x0 - 2 * ev_z)
    else
      let ev_x1 := powP1 (slope * x1 + b) / (slope * p1)
      let ev_x0 := powP1 (slope * x0 + b) / (slope * p1)
      absA (ev_x1 - ev_x0)

/-- the terms added to `result`, in the order the two nested loops visit them -/
def segTerms (term : α → α → α → α → α) (cps : List (List (α × α))) : List α :=
  cps.flatMap fun l => (segs l).map fun s => term s.1.1 s.1.2 s.2.1 s.2.2

/-- `result` at the end of the loops: `result = 0.0; … result += term` (a left fold) -/
def accumulate (term : α → α → α → α → α) (cps : List (List (α × α))) : α :=
  (segTerms term cps).foldl (· + ·) 0

/-- p-th **power** of the norm computed by the fixed `_p_norm`, general exponent -/
def pNormPowGen (powP powP1 oneSubPow : α → α) (p1 : α) (cps : List (List (α × α))) : α :=
  accumulate (segTerm powP powP1 oneSubPow p1) cps

/-- p-th power of the value of the pre-fix `_p_norm` -/
def pNormPowOldGen (powP powP1 : α → α) (p1 : α) (cps : List (List (α × α))) : α :=
  accumulate (segTermOld powP powP1 p1) cps

/-- `_p_norm` itself: `(result) ** (1.0 / p)` -/
def pNormGen (root powP powP1 oneSubPow : α → α) (p1 : α) (cps : List (List (α × α))) : α :=
  root (pNormPowGen powP powP1 oneSubPow p1 cps)

/-! ### natural `p`: powers are `^` -/

variable [Pow α Nat] [NatCast α]

/-- segment term of the fixed code for natural `p` -/
def segTermNat (p : Nat) (x0 y0 x1 y1 : α) : α :=
  segTerm (fun x => x ^ p) (fun x => x ^ (p + 1)) (fun r => 1 - r ^ (p + 1)) ((p + 1 : Nat) : α) x0 y0 x1 y1

/-- **`pNormPow p cps`**: the p-th power of `_p_norm(p, cps)` for natural `p` (fixed code) -/
def pNormPow (p : Nat) (cps : List (List (α × α))) : α :=
  pNormPowGen (fun x => x ^ p) (fun x => x ^ (p + 1)) (fun r => 1 - r ^ (p + 1)) ((p + 1 : Nat) : α) cps

/-- the same for the code before fix 5bfdf8b -/
def pNormPowOld (p : Nat) (cps : List (List (α × α))) : α :=
  pNormPowOldGen (fun x => x ^ p) (fun x => x ^ (p + 1)) ((p + 1 : Nat) : α) cps

/-- `_p_norm(p, cps)` for natural `p`, the p-th root being the parameter `root` -/
def pNorm (root : α → α) (p : Nat) (cps : List (List (α × α))) : α := root (pNormPow p cps)

end

/-! ### guards: what makes `_p_norm` raise -/

section
variable {α : Type} [BEq α]

/-- a segment on which `(y1 - y0) / (x1 - x0)` divides by zero (Python floats: `ZeroDivisionError`) -/
def hasVerticalSeg (cps : List (List (α × α))) : Bool :=
  cps.any fun l => (segs l).any fun (a, b) => a.1 == b.1 && !(a.2 == b.2)

end

/-! ### sup norms -/

section
variable {α : Type} [Neg α] [Zero α] [LT α] [DecidableLT α]

/-- Python's `max(iterable, key=…)` on the keys: the first maximal key (a later key replaces the
    current one only if it is strictly larger) -/
def pyMax : List α → Option α
  | [] => none
  | a :: rest => some (rest.foldl (fun best v => if best < v then v else best) a)

/-- `PersLandscapeExact.sup_norm` (exact.py:405-407):
    `cvals = chain(critical_pairs); max(np.abs(cvals), key=itemgetter(1))[1]` — the largest `|y|`
    over every critical point of every depth; `max()` of an empty sequence raises `ValueError`. -/
def supNormExact (cps : List (List (α × α))) : Except Err α :=
  match pyMax (cps.flatten.map fun pt => absA pt.2) with
  | some m => .ok m
  | none => .error .valueError

variable [Max α]

/-- `PersLandscapeApprox.sup_norm` (approximate.py:369): `np.max(np.abs(self.values))` over the whole
    `values` matrix; zero-size array raises `ValueError`. -/
def supNormApprox (values : List (List α)) : Except Err α :=
  match values.flatten.map absA with
  | [] => .error .valueError
  | a :: rest => .ok (rest.foldl max a)

end

/-! ### the public methods -/

section
variable {α : Type} [Add α] [Sub α] [Mul α] [Div α] [Neg α] [Zero α] [One α] [LT α] [DecidableLT α]
  [BEq α] [OfNat α 2]

/-- `PersLandscapeExact.__mul__` (exact.py:199-205): `[(a, other * b) for a, b in depth_list]` -/
def scaleCps (c : α) (cps : List (List (α × α))) : List (List (α × α)) :=
  cps.map fun l => l.map fun pt => (pt.1, c * pt.2)

/-- `PersLandscapeApprox.values_to_pairs` given the grid `np.linspace(start, stop, num_steps)` -/
def valuesToPairs (grid : List α) (values : List (List α)) : List (List (α × α)) :=
  values.map fun vals => grid.zip vals

/-- `PersLandscapeExact.p_norm` / `PersLandscapeApprox.p_norm`: `super().p_norm(p=p)` validates `p`
    (its return value — the sup norm when `p == -1` — is **discarded** by both subclasses), then
    `_p_norm(p, critical pairs)` runs for every accepted `p`.  `p == 0` makes `1.0 / p` raise. -/
def pNormMethod (root powP powP1 oneSubPow : α → α) (p : α) (cps : List (List (α × α))) :
    Except Err α :=
  match checkP p with
  | .reject => .error .valueError
  | _ =>
    if hasVerticalSeg cps then .error .zeroDivision
    else if p == 0 then .error .zeroDivision
    else .ok (pNormGen root powP powP1 oneSubPow (p + 1) cps)

end
end PersimVerif.PNorm
