/-
  Vocabulary shared by the landscape properties (C03, C08, C09, C10): tents, k-th largest value,
  piecewise-linear interpolation of critical points.  Import-free, polymorphic over core classes,
  so each definition runs at `Rat`/`Float` in the driver and unfolds to Mathlib notation at `ℝ`.
-/
namespace PersimVerif.PL

section
variable {α : Type} [Add α] [Sub α] [Mul α] [Div α] [Zero α] [LT α] [DecidableLT α] [LE α]
  [DecidableLE α] [Max α] [Min α]

/-- the tent function of the bar `(b,d)`: `max 0 (min (t-b) (d-t))` -/
def tent (b d t : α) : α := max 0 (min (t - b) (d - t))

/-- descending sort (stable merge sort from core) -/
def sortDesc (vs : List α) : List α := vs.mergeSort (fun a b => decide (b ≤ a))

/-- the `k`-th largest entry, `k = 0` being the largest; `0` beyond the length -/
def kth (vs : List α) (k : Nat) : α := (sortDesc vs).getD k 0

/-- the mathematical landscape `λ_k(t)` (depth `k = 0` is the outermost function) -/
def landscape (bars : List (α × α)) (k : Nat) (t : α) : α :=
  kth (bars.map fun p => tent p.1 p.2 t) k

/-- linear interpolation of a list of critical points `(x,y)` with increasing abscissae;
    `0` to the left of the first and to the right of the last abscissa -/
def evalPL : List (α × α) → α → α
  | [], _ => 0
  | [_], _ => 0
  | (x0, y0) :: (x1, y1) :: rest, t =>
    if t < x0 then 0
    else if t ≤ x1 then y0 + (y1 - y0) * (t - x0) / (x1 - x0)
    else evalPL ((x1, y1) :: rest) t

/-- a landscape given by critical points: depth `k` beyond the list is the zero function -/
def evalDepth (cps : List (List (α × α))) (k : Nat) (t : α) : α :=
  match cps[k]? with
  | some l => evalPL l t
  | none => 0

/-- well-formed depth function: at least two points, strictly increasing abscissae, zero at both ends -/
def wellFormed [BEq α] : List (α × α) → Bool
  | [] => false
  | [_] => false
  | l@((_, y0) :: _ :: _) =>
    y0 == 0 && (l.getLast?.map (·.2 == 0)).getD false &&
      (l.zip l.tail).all fun (p, q) => decide (p.1 < q.1)

end
end PersimVerif.PL
