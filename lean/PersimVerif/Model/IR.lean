/-!
# Buffer-ownership IR for C19 (import-free, executable)

`harness/translator/py2ir.py` translates every public entry point of `persim` into a *program*
of this IR on every run.  The IR forgets values and control flow and keeps only what matters for
"does the call write into memory the caller can see":

* `new x s`      — `x` := a fresh buffer / container allocated at site `s`
                   (`np.array`, `np.copy`, `deepcopy`, arithmetic, boolean-mask indexing, literals …)
* `copy x y`     — `x` := the very buffer `y` refers to (names, views, `asarray`, `reshape`, `.T`)
* `store y v`    — a reference to `v`'s buffer is put into an element slot of `y`'s buffer
                   (`y[i] = v`, `append`, `insert`, building `list(v)`); this changes `y`'s own buffer
* `elem x y`     — `x` := some element slot **or attribute** of `y`'s buffer (subscripts, iteration, `pop`,
                   attribute loads)
* `write x`      — the contents of `x`'s own buffer change (subscript stores, `+=`, `.sort()`, `.pop()`,
                   `np.fill_diagonal`, `out=` …); may also drop an element slot
* `setattr y v`  — `y.attr = v`: a reference is put into the *attribute table* of `y`.  Instances are not
                   "arrays or lists": the attribute table is kept apart from `data`/`slots`, and the purity
                   theorem is about `data` and `slots` only (methods may update their object).
* `readGlobal g` / `writeGlobal g` — module-level state (pyplot's state machine counts as one global)
* `rng`          — one draw from the global NumPy generator

Concrete semantics (`step`, `exec`): a heap of buffers with opaque data, element slots and attribute
slots; instructions may be executed in **any order, any number of times** (`Reach`), which
over-approximates every path, loop and call sequence of the translated function.

Abstract domain: allocation sites plus the single object `owned` (everything the caller can see when
the call starts).  `SolB` is a finite candidate solution of the inclusion constraints (bit masks over
abstract objects); `isPostFixpoint`/`safe` *check* a candidate, `solve` computes one by bounded
iteration (unverified — only its output is checked).  Soundness is proved in `Props/C19.lean`.
-/
namespace PersimVerif.IR

abbrev Var := Nat
abbrev Buf := Nat
abbrev Site := Nat
abbrev GlobalId := Nat

/-- abstract objects: allocation sites and the single caller-owned object -/
inductive AObj where
  | owned
  | site (s : Site)
  deriving DecidableEq, Repr

inductive Instr where
  | new (x : Var) (s : Site)
  | copy (x y : Var)
  | store (y v : Var)
  | elem (x y : Var)
  | write (x : Var)
  | setattr (y v : Var)
  | readGlobal (g : GlobalId)
  | writeGlobal (g : GlobalId)
  | rng
  deriving DecidableEq, Repr

/-- a translated entry point: the variables bound to caller-owned buffers, and the instruction pool -/
structure Prog where
  params : List Var
  instrs : List Instr
  deriving Repr

/-! ## concrete semantics -/

structure Cell where
  aobj : AObj            -- which abstract object this buffer belongs to (ghost, fixed at allocation)
  data : Nat             -- opaque contents
  slots : List Buf       -- element references (list items, rows of an object array)
  attrs : List Buf       -- attribute table (instances only)

structure State where
  env : Var → Option Buf
  heap : Buf → Option Cell
  next : Buf             -- all allocated buffers are < next
  obs : List Nat         -- what the program has observed from outside: globals read, RNG draws
  rpos : Nat             -- position in the RNG stream
  glob : GlobalId → Nat  -- module-level state (not part of the program-visible `View`)

/-- replace the cell of buffer `b0` -/
def State.setCell (st : State) (b0 : Buf) (c : Cell) : State :=
  { st with heap := fun b => if b = b0 then some c else st.heap b }

/-- bind variable `x` to buffer `b0` -/
def State.bind (st : State) (x : Var) (b0 : Buf) : State :=
  { st with env := fun v => if v = x then some b0 else st.env v }

/-- one concrete step.  `R` is the RNG stream; `pick` resolves the nondeterministic slot choice
    (which element is read / replaced / dropped), `d` is the data written. -/
def step (R : Nat → Nat) (st : State) (pick : Nat) (d : Nat) : Instr → Option State
  | .new x s => some { (st.setCell st.next ⟨.site s, d, [], []⟩).bind x st.next with next := st.next + 1 }
  | .copy x y => match st.env y with
      | none => none
      | some b => some (st.bind x b)
  | .store y v => match st.env y, st.env v with
      | some by_, some bv => match st.heap by_ with
          | some c => some (st.setCell by_ { c with slots := bv :: c.slots.eraseIdx pick })
          | none => none
      | _, _ => none
  | .setattr y v => match st.env y, st.env v with
      | some by_, some bv => match st.heap by_ with
          | some c => some (st.setCell by_ { c with attrs := bv :: c.attrs.eraseIdx pick })
          | none => none
      | _, _ => none
  | .elem x y => match st.env y with
      | some by_ => match st.heap by_ with
          | some c => match (c.slots ++ c.attrs)[pick]? with
              | some b => some (st.bind x b)
              | none => none
          | none => none
      | none => none
  | .write x => match st.env x with
      | some bx => match st.heap bx with
          | some c => some (st.setCell bx { c with data := d, slots := c.slots.eraseIdx pick })
          | none => none
      | none => none
  | .readGlobal g => some { st with obs := st.glob g :: st.obs }
  | .writeGlobal g => some { st with glob := fun h => if h = g then d else st.glob h }
  | .rng => some { st with obs := R st.rpos :: st.obs, rpos := st.rpos + 1 }

/-- a scheduled action -/
structure Act where
  instr : Instr
  pick : Nat
  d : Nat
  deriving Repr

/-- run a schedule; `none` when some step is stuck (such a schedule is not an execution) -/
def exec (R : Nat → Nat) (st : State) : List Act → Option State
  | [] => some st
  | a :: as => match step R st a.pick a.d a.instr with
      | some st' => exec R st' as
      | none => none

/-! ## finite candidate solutions and the decidable checker

The checker is written for evaluation *inside the Lean kernel* (`decide +kernel`, no `native_decide`): the
tables are single natural numbers (GMP arithmetic in the kernel), sets are bit masks, and the members of a
mask are enumerated through `Nat.log2`. -/

/-- encoding of abstract objects as bit positions: `owned ↦ 0`, `site s ↦ s+1` -/
def enc : AObj → Nat
  | .owned => 0
  | .site s => s + 1

/-- a candidate solution.  One `w`-bit mask per variable (`pts`) and per encoded abstract object (`cont`);
    bit `enc o` of a mask says that `o` is in the set.  The masks are packed `k` to a natural number
    (entry `i` is in piece `i / k` at bits `(i % k)*w … (i % k)*w + w - 1`), so a lookup is a handful of
    GMP operations on a moderately sized literal. -/
structure SolB where
  w : Nat
  k : Nat
  pts : List Nat
  cont : List Nat
  deriving Repr, BEq, DecidableEq

def SolB.look (b : SolB) (t : List Nat) (i : Nat) : Nat := (t.getD (i / b.k) 0 >>> ((i % b.k) * b.w)) % 2 ^ b.w
def SolB.ptsOf (b : SolB) (x : Var) : Nat := b.look b.pts x
def SolB.contOf (b : SolB) (o : Nat) : Nat := b.look b.cont o

/-- `a ⊆ b` on bit masks -/
def subset (a b : Nat) : Bool := a &&& b == a

/-- `f o` for every set bit `o` of `m` (highest first); `false` if more than `fuel` bits are set -/
def forBits (f : Nat → Bool) : Nat → Nat → Bool
  | 0, m => m == 0
  | k + 1, m => m == 0 || (f m.log2 && forBits f k (m ^^^ (1 <<< m.log2)))

/-- the inclusion constraint generated by one instruction -/
def instrOk (b : SolB) : Instr → Bool
  | .new x s => (b.ptsOf x).testBit (s + 1)
  | .copy x y => subset (b.ptsOf y) (b.ptsOf x)
  | .store y v => forBits (fun o => subset (b.ptsOf v) (b.contOf o)) b.w (b.ptsOf y)
  | .setattr y v => forBits (fun o => subset (b.ptsOf v) (b.contOf o)) b.w (b.ptsOf y)
  | .elem x y => forBits (fun o => subset (b.contOf o) (b.ptsOf x)) b.w (b.ptsOf y)
  | _ => true

/-- no `write x` / `store x _` may hit a variable that can point to `owned`
    (`setattr` is exempt: attribute tables of instances are not arrays or lists) -/
def writeOk (b : SolB) : Instr → Bool
  | .write x => !(b.ptsOf x).testBit 0
  | .store y _ => !(b.ptsOf y).testBit 0
  | _ => true

/-- `owned ∈ cont owned`, and every parameter points to `owned` -/
def headOk (p : Prog) (b : SolB) : Bool :=
  (b.contOf 0).testBit 0 && p.params.all (fun x => (b.ptsOf x).testBit 0)

/-- the checker: `b` is a post-fixpoint of the constraint system of `p` -/
def isPostFixpoint (p : Prog) (b : SolB) : Bool :=
  headOk p b && p.instrs.all (instrOk b)

def safe (p : Prog) (b : SolB) : Bool :=
  isPostFixpoint p b && p.instrs.all (writeOk b)

/-- both checks on a slice of the instruction list (the generated obligations are discharged slice by slice,
    which keeps the kernel's recursion shallow) -/
def chunkOk (b : SolB) (is : List Instr) : Bool := is.all (fun i => instrOk b i && writeOk b i)

/-! ## well-formedness of a program together with a candidate solution

`SolB.look` reads the packed tables with `getD … 0`, so a variable the tables do not cover — or one that no
instruction defines — has the *empty* points-to set, and a `write` through it passes `writeOk` vacuously.  That is
sound for the program as given (such an instruction can never execute, `Props/C19.lean: unbound_of_undefined`), but
it would hide a translator that dropped a defining instruction.  `wellFormed` is the decidable guard against that:
it is part of the generated obligations (`wf_<entry>`) and of the executable checker (`ir.wf`). -/

/-- the variables an instruction reads -/
def Instr.uses : Instr → List Var
  | .copy _ y => [y]
  | .store y v => [y, v]
  | .elem _ y => [y]
  | .write x => [x]
  | .setattr y v => [y, v]
  | _ => []

/-- the variable an instruction binds -/
def Instr.defs : Instr → Option Var
  | .new x _ => some x
  | .copy x _ => some x
  | .elem x _ => some x
  | _ => none

/-- the variable whose buffer an instruction changes -/
def Instr.target : Instr → Option Var
  | .write x => some x
  | .store y _ => some y
  | .setattr y _ => some y
  | _ => none

/-- every variable an instruction mentions -/
def Instr.vars (i : Instr) : List Var :=
  match i.defs with
  | some x => x :: i.uses
  | none => i.uses

/-- set bit `x` (nothing for `none`) -/
def orBit (m : Nat) : Option Var → Nat
  | some x => m ||| (1 <<< x)
  | none => m

/-- bit `x` is set iff `x` is a parameter or is bound by some instruction of the program -/
def defMask (p : Prog) : Nat :=
  p.instrs.foldl (fun m i => orBit m i.defs) (p.params.foldl (fun m x => orBit m (some x)) 0)

/-- per instruction: every variable lies inside the `pts` table, an allocation site lies inside the mask width,
    every variable that is *read* is a parameter or bound by some instruction (`m = defMask p`), and the variable whose
    buffer is *changed* (`write x`, `store x _`, `setattr x _`) has a non-empty points-to set in the candidate (an
    element read out of a container without reference slots legitimately has the empty set; a write target does not) -/
def instrWf (b : SolB) (m : Nat) (i : Instr) : Bool :=
  i.vars.all (fun x => x / b.k < b.pts.length)
  && (match i with | .new _ s => s + 1 < b.w | _ => true)
  && i.uses.all (fun x => m.testBit x)
  && (match i.target with | some x => b.ptsOf x != 0 | none => true)

/-- the tables are non-degenerate and cover every abstract object and every parameter -/
def headWf (p : Prog) (b : SolB) : Bool :=
  0 < b.k && 0 < b.w && (b.w - 1) / b.k < b.cont.length && p.params.all (fun x => x / b.k < b.pts.length)

def wellFormed (p : Prog) (b : SolB) : Bool :=
  headWf p b && p.instrs.all (instrWf b (defMask p))

/-! ## global-state classification -/

def Instr.readsGlobal : Instr → Option GlobalId
  | .readGlobal g => some g
  | _ => none

def Instr.writesGlobal : Instr → Option GlobalId
  | .writeGlobal g => some g
  | _ => none

def Instr.isRng : Instr → Bool
  | .rng => true
  | _ => false

/-- every global read is in `allowedReads`, every global written in `allowedWrites`, and `rng` occurs
    only if `allowRng` -/
def globalsWithin (p : Prog) (allowedReads allowedWrites : List GlobalId) (allowRng : Bool) : Bool :=
  p.instrs.all fun i =>
    (match i.readsGlobal with | some g => allowedReads.contains g | none => true)
    && (match i.writesGlobal with | some g => allowedWrites.contains g | none => true)
    && (allowRng || !i.isRng)

/-! ## an (unverified) solver by bounded iteration -/

def setAt (l : List Nat) (i : Nat) (f : Nat → Nat) : List Nat :=
  (l ++ List.replicate (i + 1 - l.length) 0).modify i f

/-- objects `< n` whose bit is set in `m` -/
def members (n m : Nat) : List Nat := (List.range n).filter fun o => m.testBit o

/-- the solver's working state: masks as lists -/
structure SolL where
  n : Nat
  pts : List Nat
  cont : List Nat
  deriving BEq

def SolL.ptsOf (b : SolL) (x : Nat) : Nat := b.pts.getD x 0
def SolL.contOf (b : SolL) (o : Nat) : Nat := b.cont.getD o 0

def relax (b : SolL) : Instr → SolL
  | .new x s => { b with pts := setAt b.pts x (· ||| (1 <<< (s + 1))) }
  | .copy x y => { b with pts := setAt b.pts x (· ||| b.ptsOf y) }
  | .store y v => { b with cont := (members b.n (b.ptsOf y)).foldl (fun c o => setAt c o (· ||| b.ptsOf v)) b.cont }
  | .setattr y v => { b with cont := (members b.n (b.ptsOf y)).foldl (fun c o => setAt c o (· ||| b.ptsOf v)) b.cont }
  | .elem x y => { b with pts := setAt b.pts x (· ||| (members b.n (b.ptsOf y)).foldl (fun m o => m ||| b.contOf o) 0) }
  | _ => b

def maxSite (is : List Instr) : Nat :=
  is.foldl (fun m i => match i with | .new _ s => max m (s + 1) | _ => m) 0

def pack (w : Nat) (l : List Nat) : Nat :=
  (l.foldl (fun (acc : Nat × Nat) m => (acc.1 ||| (m <<< (acc.2 * w)), acc.2 + 1)) (0, 0)).1

/-- pieces of `k` masks -/
def packPieces (w k : Nat) (l : List Nat) : Nat → List Nat
  | 0 => []
  | fuel + 1 => if l.isEmpty then [] else pack w (l.take k) :: packPieces w k (l.drop k) fuel

/-- iterate `relax` over the whole program `fuel` times (or until nothing changes), then pack the tables -/
def solve (p : Prog) (fuel : Nat := 64) : SolB :=
  let n := maxSite p.instrs + 1
  let b0 : SolL := { n := n, pts := p.params.foldl (fun l x => setAt l x (· ||| 1)) [], cont := [1] }
  let rec go : Nat → SolL → SolL
    | 0, b => b
    | k + 1, b =>
      let b' := p.instrs.foldl relax b
      if b' == b then b else go k b'
  let r := go fuel b0
  { w := n, k := 16, pts := packPieces n 16 r.pts (r.pts.length + 1), cont := packPieces n 16 r.cont (r.cont.length + 1) }

end PersimVerif.IR
