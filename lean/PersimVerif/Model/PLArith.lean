import PersimVerif.Model.PLBase
/-
  Model of the landscape arithmetic of persim (property C09).  No Mathlib, polymorphic over core
  classes: runs at `Rat` in the driver, unfolds to Mathlib notation at a linear ordered field.

  Anchors (line numbers of /repo at 9ea345a):
    persim/landscapes/auxiliary.py   union_vals 9-24, union_crit_pairs 27-53,
                                     pos_to_slope_interp 56-76 (with the zero-width-segment skip),
                                     slope_to_pos_interp 79-97, sum_slopes 100-134
    persim/landscapes/exact.py       __neg__ __add__ __sub__ __mul__ __rmul__ __truediv__ 142-218, ctor 120-137
    persim/landscapes/approximate.py ctor 121-157, __add__ … __truediv__ 252-333
    persim/landscapes/base.py        the checks reached through `super()` 52-76
    persim/landscapes/tools.py       snap_pl 43-84, lc_approx 87-127, average_approx 130-163

  What the code rejects is an `Err`, never a default value:
    homDeg      ValueError  homological degrees differ            (`+`, `-`; exact and grid)
    start/stop/numSteps  ValueError  grids differ                  (grid `+`, `-`; checked in this order)
    divZero     ValueError  "Cannot divide by zero"               (`/ 0`)
    typeError   TypeError   scalar is not a number                (`*`, `/`)
    bothEmpty   ValueError  constructor got neither diagrams nor critical pairs / values
    startGtStop ValueError  constructor of a grid landscape with start > stop
    emptyList   ValueError  `min()`/`max()` of an empty list of landscapes (snap_pl with defaults)
    shape       ValueError  coefficient list cannot be broadcast against the landscape list
    indexError  IndexError  an empty depth list reaches `pos_to_slope_interp` (`l[-1]`)
    notLandscape            `lc_approx` over an empty product list: numpy returns the scalar 0, not a
                            landscape — the only place where the model answers an error although
                            the code does not raise (documented; outside every theorem's guard)
-/
namespace PersimVerif.PLArith
open PersimVerif.PL

inductive Err where
  | homDeg | start | stop | numSteps | divZero | typeError | bothEmpty | startGtStop
  | emptyList | shape | indexError | notLandscape
  deriving DecidableEq, Repr

/-- a Python scalar operand: a real number (int/float) or anything else (str, None, list …) -/
inductive Scalar (α : Type) where
  | num (c : α)
  | other

/-- one depth of an exact landscape: the critical points `(x, y)` -/
abbrev Depth (α : Type) := List (α × α)

/-- `PersLandscapeExact` as far as arithmetic sees it -/
structure Exact (α : Type) where
  homDeg : Nat
  cps : List (Depth α)

/-- `PersLandscapeApprox`: the grid parameters and the `values` array (rows = depths) -/
structure Grid (α : Type) where
  homDeg : Nat
  start : α
  stop : α
  numSteps : Nat
  values : List (List α)

/-- expression trees over shared operands (`leaf i` = the i-th operand), for both classes -/
inductive Expr (α : Type) where
  | leaf (i : Nat)
  | add (e f : Expr α)
  | sub (e f : Expr α)
  | neg (e : Expr α)
  | smul (c : α) (e : Expr α)
  | sdiv (e : Expr α) (c : α)

section
variable {α : Type} [Add α] [Sub α] [Mul α] [Div α] [Neg α] [Zero α] [One α] [LT α] [DecidableLT α]
  [LE α] [DecidableLE α] [Max α] [Min α] [DecidableEq α] [NatCast α]

/-! ## exact landscapes: `auxiliary.py` -/

/-- `pos_to_slope_interp`: `(x_i, slope of the segment starting at x_i)`, zero-width segments
    skipped (`if x1 == x0: continue`), then `(x_last, 0)`.  The code raises IndexError on `[]`
    (`l[-1]`); callers check that first (`Exact.add`). -/
def posToSlope : List (α × α) → List (α × α)
  | [] => []
  | [p] => [(p.1, 0)]
  | p :: tl@(q :: _) =>
    if q.1 = p.1 then posToSlope tl
    else (p.1, (q.2 - p.2) / (q.1 - p.1)) :: posToSlope tl

/-- `pos_to_slope_interp` as it was before /repo 9ea345a (no skip): a zero-width segment divides
    `(y1 - y0) / 0` — ZeroDivisionError for Python floats, a NaN slope (hence NaN ordinates in the
    sum) for numpy floats; both are `none` here.  Kept as the regression witness
    `C09.old_posToSlope_counterexample`. -/
def posToSlopeOld : List (α × α) → Option (List (α × α))
  | [] => some []
  | [p] => some [(p.1, 0)]
  | p :: tl@(q :: _) =>
    if q.1 = p.1 then none
    else (posToSlopeOld tl).map fun r => (p.1, (q.2 - p.2) / (q.1 - p.1)) :: r

/-- the loop of `slope_to_pos_interp`, `y0 = output[-1][1]` carried along -/
def slopeToPosAux (y0 : α) : List (α × α) → List (α × α)
  | [] => []
  | [_] => []
  | p :: tl@(q :: _) =>
    let y1 := y0 + (q.1 - p.1) * p.2
    (q.1, y1) :: slopeToPosAux y1 tl

/-- `slope_to_pos_interp`: `output = [[l[0][0], 0]]`, then one point per consecutive pair -/
def slopeToPos : List (α × α) → List (α × α)
  | [] => []      -- code: IndexError; never reached (`posToSlope` of a non-empty list is non-empty)
  | l@(p :: _) => (p.1, 0) :: slopeToPosAux 0 l

/-- `sum_slopes` with the running slopes `am`, `bm` exactly as the `while` loop keeps them
    (the call site starts with `am = bm = 0`) -/
def sumSlopes : α → α → List (α × α) → List (α × α) → List (α × α)
  | _, _, [], [] => []
  | am, _, [], (bx, bm') :: b => (bx, am + bm') :: sumSlopes am bm' [] b
  | _, bm, (ax, am') :: a, [] => (ax, am' + bm) :: sumSlopes am' bm a []
  | am, bm, (ax, am') :: a, (bx, bm') :: b =>
    if bx < ax then (bx, am + bm') :: sumSlopes am bm' ((ax, am') :: a) b
    else if ax < bx then (ax, am' + bm) :: sumSlopes am' bm a ((bx, bm') :: b)
    else (ax, am' + bm') :: sumSlopes am' bm' a b
termination_by _ _ a b => a.length + b.length

/-- the `else` branch of `union_crit_pairs` for one depth present in both operands -/
def addDepth (a b : List (α × α)) : List (α × α) :=
  slopeToPos (sumSlopes 0 0 (posToSlope a) (posToSlope b))

/-- `union_crit_pairs`: `itertools.zip_longest`; a depth missing in one operand is taken over
    from the other unchanged -/
def unionCritPairs : List (Depth α) → List (Depth α) → List (Depth α)
  | [], bs => bs
  | as, [] => as
  | a :: as, b :: bs => addDepth a b :: unionCritPairs as bs

/-- where `union_crit_pairs` raises: a depth present in both operands with an empty list -/
def hasEmptyDepth : List (Depth α) → List (Depth α) → Bool
  | a :: as, b :: bs => a.isEmpty || b.isEmpty || hasEmptyDepth as bs
  | _, _ => false

/-! ## exact landscapes: `exact.py` -/

/-- the constructor's check `not dgms and not critical_pairs` (operators never pass diagrams) -/
def Exact.mk' (hd : Nat) (cps : List (Depth α)) : Except Err (Exact α) :=
  if cps.isEmpty then .error .bothEmpty else .ok ⟨hd, cps⟩

def negDepth (l : List (α × α)) : List (α × α) := l.map fun p => (p.1, -p.2)
def mulDepth (c : α) (l : List (α × α)) : List (α × α) := l.map fun p => (p.1, c * p.2)

/-- `__neg__` -/
def Exact.neg (p : Exact α) : Except Err (Exact α) := Exact.mk' p.homDeg (p.cps.map negDepth)

/-- `__add__`: degree check, `union_crit_pairs`, constructor -/
def Exact.add (p q : Exact α) : Except Err (Exact α) :=
  if p.homDeg ≠ q.homDeg then .error .homDeg
  else if hasEmptyDepth p.cps q.cps then .error .indexError
  else Exact.mk' p.homDeg (unionCritPairs p.cps q.cps)

/-- `__sub__`: `self + -other` (the negation is evaluated first) -/
def Exact.sub (p q : Exact α) : Except Err (Exact α) := do
  let nq ← q.neg
  p.add nq

/-- `__mul__` / `__rmul__` by a number: `other * b` on every ordinate -/
def Exact.smul (c : α) (p : Exact α) : Except Err (Exact α) :=
  Exact.mk' p.homDeg (p.cps.map (mulDepth c))

/-- `__mul__` by any Python value: a non-number raises TypeError at the first (float) ordinate -/
def Exact.mul (p : Exact α) : Scalar α → Except Err (Exact α)
  | .num c => p.smul c
  | .other => if p.cps.all (·.isEmpty) then Exact.mk' p.homDeg p.cps else .error .typeError

/-- `__truediv__` by a number: zero test, then `self * (1.0 / other)` -/
def Exact.sdiv (p : Exact α) (c : α) : Except Err (Exact α) :=
  if c = 0 then .error .divZero else p.smul (1 / c)

/-- `__truediv__` by any Python value (`"a" == 0.0` is False, then `1.0 / "a"` raises TypeError) -/
def Exact.div (p : Exact α) : Scalar α → Except Err (Exact α)
  | .num c => p.sdiv c
  | .other => .error .typeError

/-- every sequence of operations on shared operands `ρ 0, ρ 1, …` -/
def run (ρ : Nat → Exact α) : Expr α → Except Err (Exact α)
  | .leaf i => .ok (ρ i)
  | .add e f => do let p ← run ρ e; let q ← run ρ f; p.add q
  | .sub e f => do let p ← run ρ e; let q ← run ρ f; p.sub q
  | .neg e => do let p ← run ρ e; p.neg
  | .smul c e => do let p ← run ρ e; p.smul c
  | .sdiv e c => do let p ← run ρ e; p.sdiv c

/-- what the expression means: the pointwise operations on the operands' depth functions -/
def denote (ρ : Nat → Exact α) : Expr α → Nat → α → α
  | .leaf i, k, t => evalDepth (ρ i).cps k t
  | .add e f, k, t => denote ρ e k t + denote ρ f k t
  | .sub e f, k, t => denote ρ e k t - denote ρ f k t
  | .neg e, k, t => -denote ρ e k t
  | .smul c e, k, t => c * denote ρ e k t
  | .sdiv e c, k, t => denote ρ e k t / c

/-- executable guard of the theorems for one depth list: non-empty, first and last ordinate 0,
    abscissae non-decreasing where a zero-width step repeats the *same* point (what a bar of
    zero length produces: `[[1,0],[1,0],[1,0]]`) -/
def chainOk : List (α × α) → Bool
  | [] => true
  | [_] => true
  | p :: tl@(q :: _) => (decide (p.1 < q.1) || (decide (p.1 = q.1) && decide (p.2 = q.2))) && chainOk tl

def wfDepth (l : List (α × α)) : Bool :=
  match l.head?, l.getLast? with
  | some p, some q => decide (p.2 = 0) && decide (q.2 = 0) && chainOk l
  | _, _ => false

/-- guard for a landscape: at least one depth, every depth well-formed -/
def Exact.wf (p : Exact α) : Bool := !p.cps.isEmpty && p.cps.all wfDepth

/-! ## grid landscapes: `auxiliary.union_vals`, `approximate.py` -/

/-- `A.shape[1]` of a 2-d array -/
def width (A : List (List α)) : Nat := (A.head?.map List.length).getD 0

def zeroRows (n w : Nat) : List (List α) := List.replicate n (List.replicate w 0)

/-- `union_vals`: the shallower array is padded with zero rows (`np.pad`) -/
def unionVals (A B : List (List α)) : List (List α) × List (List α) :=
  if A.length < B.length then (A ++ zeroRows (B.length - A.length) (width A), B)
  else if B.length < A.length then (A, B ++ zeroRows (A.length - B.length) (width B))
  else (A, B)

def matAdd (A B : List (List α)) : List (List α) := List.zipWith (List.zipWith (· + ·)) A B

/-- the constructor's checks when `values` is passed: `values.size == 0`, `start > stop` -/
def Grid.mk' (hd : Nat) (s e : α) (n : Nat) (vals : List (List α)) : Except Err (Grid α) :=
  if vals.all (·.isEmpty) then .error .bothEmpty
  else if e < s then .error .startGtStop
  else .ok ⟨hd, s, e, n, vals⟩

/-- `__add__`: the four compatibility checks in the code's order, padding, elementwise sum -/
def Grid.add (p q : Grid α) : Except Err (Grid α) :=
  if p.homDeg ≠ q.homDeg then .error .homDeg
  else if p.start ≠ q.start then .error .start
  else if p.stop ≠ q.stop then .error .stop
  else if p.numSteps ≠ q.numSteps then .error .numSteps
  else
    let AB := unionVals p.values q.values
    Grid.mk' p.homDeg p.start p.stop p.numSteps (matAdd AB.1 AB.2)

/-- `__neg__`: `-1 * depth_array` -/
def Grid.neg (p : Grid α) : Except Err (Grid α) :=
  Grid.mk' p.homDeg p.start p.stop p.numSteps (p.values.map fun row => row.map fun v => (-1 : α) * v)

/-- `__sub__`: `self + -other` -/
def Grid.sub (p q : Grid α) : Except Err (Grid α) := do
  let nq ← q.neg
  p.add nq

def Grid.smul (c : α) (p : Grid α) : Except Err (Grid α) :=
  Grid.mk' p.homDeg p.start p.stop p.numSteps (p.values.map fun row => row.map fun v => c * v)

/-- `__mul__` / `__rmul__`: `isinstance(other, (int, float))` first -/
def Grid.mul (p : Grid α) : Scalar α → Except Err (Grid α)
  | .num c => p.smul c
  | .other => .error .typeError

def Grid.sdiv (p : Grid α) (c : α) : Except Err (Grid α) :=
  if c = 0 then .error .divZero else p.smul (1 / c)

/-- `__truediv__`: zero test (False for a non-number), then `(1.0 / other) * self` -/
def Grid.div (p : Grid α) : Scalar α → Except Err (Grid α)
  | .num c => p.sdiv c
  | .other => .error .typeError

def runG (ρ : Nat → Grid α) : Expr α → Except Err (Grid α)
  | .leaf i => .ok (ρ i)
  | .add e f => do let p ← runG ρ e; let q ← runG ρ f; p.add q
  | .sub e f => do let p ← runG ρ e; let q ← runG ρ f; p.sub q
  | .neg e => do let p ← runG ρ e; p.neg
  | .smul c e => do let p ← runG ρ e; p.smul c
  | .sdiv e c => do let p ← runG ρ e; p.sdiv c

/-- sample `j` of depth `k`; a missing depth (row) counts as the zero function -/
def valAt (vals : List (List α)) (k j : Nat) : α :=
  match vals[k]? with
  | some row => row.getD j 0
  | none => 0

def denoteG (ρ : Nat → Grid α) : Expr α → Nat → Nat → α
  | .leaf i, k, j => valAt (ρ i).values k j
  | .add e f, k, j => denoteG ρ e k j + denoteG ρ f k j
  | .sub e f, k, j => denoteG ρ e k j - denoteG ρ f k j
  | .neg e, k, j => -denoteG ρ e k j
  | .smul c e, k, j => c * denoteG ρ e k j
  | .sdiv e c, k, j => denoteG ρ e k j / c

/-- guard for a grid landscape: at least one row, at least one column, every row has
    `numSteps` samples, `start ≤ stop` (what the constructor and `np.array` guarantee) -/
def Grid.wf (p : Grid α) : Bool :=
  !p.values.isEmpty && decide (0 < p.numSteps) && p.values.all (fun r => r.length == p.numSteps) &&
    decide (p.start ≤ p.stop)

/-! ## `tools.py`: snapping to a common grid, linear combinations, averages -/

/-- `np.linspace(start, stop, num)` in exact arithmetic -/
def linspace (s e : α) (n : Nat) : List α :=
  if n = 1 then [s]
  else (List.range n).map fun (i : Nat) => s + (i : α) * ((e - s) / ((n - 1 : Nat) : α))

/-- `np.interp(x, xp, fp)` for `x ≥ xp[0]`, on the zipped nodes: the last node with abscissa `≤ x`
    decides; beyond the last node the last value; exact hit returns the node's value -/
def interpFrom (x : α) : List (α × α) → α
  | [] => 0
  | [p] => p.2
  | p :: tl@(q :: _) =>
    if q.1 ≤ x then interpFrom x tl
    else if p.1 = x then p.2
    else (q.2 - p.2) / (q.1 - p.1) * (x - p.1) + p.2

/-- `np.interp`: left of the first node the first value.  (`[]`: numpy raises ValueError; not
    reachable for a constructed landscape, whose rows have `numSteps ≥ 1` samples.) -/
def interp (x : α) (pts : List (α × α)) : α :=
  match pts with
  | [] => 0
  | p :: _ => if x < p.1 then p.2 else interpFrom x pts

/-- one landscape of `snap_pl`: every depth interpolated onto the common grid, then the constructor -/
def snapOne (S E : α) (N : Nat) (p : Grid α) : Except Err (Grid α) :=
  let grid := linspace S E N
  let xp := linspace p.start p.stop p.numSteps
  Grid.mk' p.homDeg S E N (p.values.map fun row => grid.map fun g => interp g (xp.zip row))

def minOf (x : α) (xs : List α) : α := xs.foldl (fun m y => if y < m then y else m) x
def maxOf (x : α) (xs : List α) : α := xs.foldl (fun m y => if m < y then y else m) x

/-- the defaults of `snap_pl`: smallest start, largest stop, largest num_steps of the list -/
def snapParams (ls : List (Grid α)) (s? e? : Option α) (n? : Option Nat) : Except Err (α × α × Nat) := do
  let S ← match s?, ls with
    | some s, _ => pure s
    | none, [] => throw Err.emptyList
    | none, p :: r => pure (minOf p.start (r.map (·.start)))
  let E ← match e?, ls with
    | some e, _ => pure e
    | none, [] => throw Err.emptyList
    | none, p :: r => pure (maxOf p.stop (r.map (·.stop)))
  let N ← match n?, ls with
    | some n, _ => pure n
    | none, [] => throw Err.emptyList
    | none, p :: r => pure (r.foldl (fun m q => if m < q.numSteps then q.numSteps else m) p.numSteps)
  pure (S, E, N)

/-- `snap_pl` -/
def snapPl (ls : List (Grid α)) (s? e? : Option α) (n? : Option Nat) : Except Err (List (Grid α)) := do
  let (S, E, N) ← snapParams ls s? e? n?
  ls.mapM (snapOne S E N)

/-- numpy broadcasting of the coefficient vector against the landscape vector -/
def broadcast (cs : List (Scalar α)) (ps : List (Grid α)) : Except Err (List (Scalar α × Grid α)) :=
  if cs.length = ps.length then .ok (cs.zip ps)
  else match cs, ps with
    | [c], _ => .ok (ps.map fun p => (c, p))
    | _, [p] => .ok (cs.map fun c => (c, p))
    | _, _ => .error .shape

/-- `np.sum` of an object array: left fold with `+` starting from the first element -/
def sumGrids : List (Grid α) → Except Err (Grid α)
  | [] => .error .notLandscape
  | p :: r => r.foldlM (fun acc q => acc.add q) p

/-- `lc_approx`: `np.sum(np.array(coeffs) * np.array(snap_pl(...)))` -/
def lcApprox (ls : List (Grid α)) (cs : List (Scalar α)) (s? e? : Option α) (n? : Option Nat) :
    Except Err (Grid α) := do
  let ps ← snapPl ls s? e? n?
  let pairs ← broadcast cs ps
  let prods ← pairs.mapM fun cp => cp.2.mul cp.1
  sumGrids prods

/-- `average_approx`: `lc_approx` with every coefficient `1.0 / len(landscapes)` -/
def averageApprox (ls : List (Grid α)) (s? e? : Option α) (n? : Option Nat) : Except Err (Grid α) :=
  lcApprox ls (ls.map fun _ => Scalar.num (1 / (ls.length : α))) s? e? n?

end
end PersimVerif.PLArith
