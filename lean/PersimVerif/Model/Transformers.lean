import PersimVerif.Model.Imager
/-
  Model of the two scikit-learn style transformers as state machines (C18), import-free.

  * `PersistenceImager.fit / transform / fit_transform` (persim/images.py 604-736) on the geometry
    state of `Model/Imager.lean`.  The pixel content of one image is the abstract parameter
    `img : State → skew → Dgm → ι` (C04/C11 own it); `zeros rx ry` is `np.zeros(resolution)`.
  * `PersistenceLandscaper` (persim/landscapes/transformer.py, after /repo commits 9596bd3, b209c93,
    4d8db3a): `__init__`, the `start/stop` properties with `_start_fixed/_stop_fixed`, `get_params`
    (reports only USER-assigned `start`/`stop`), `fit` (points with a non-finite coordinate are
    ignored: `fin : α → Bool` is `np.isfinite`, a parameter), `transform` (`PersLandscapeApprox(...)`
    is the abstract parameter `approx`), sklearn's `TransformerMixin.fit_transform` =
    `fit(X).transform(X)`, `sklearn.base.clone(obj)` = `type(obj)(**obj.get_params())` and
    `obj.set_params(**obj.get_params())` = one `setattr` per parameter.

  Which model of `_ensure_iterable`/`transform` is used where: `imagerTransform` below (the
  container shape of the output; the per-diagram image is a parameter) is C18's; `Model/Imager.lean`
  (`Input`, `fit`: the geometry a fit learns from single/collection input) is C12's and is reused
  here; `Model/Image.lean` (`Image.transform`, `Image.ensureIterable`: the pixel content of every
  image of the output) is C04/C11's.  `Lemmas/ImageModels.lean` relates the three.

  Neither `transform` contains an assignment to `self`; in the model that is the fact that a
  `transform` call returns the state it was given (`icall`/`lcall`).
-/
namespace PersimVerif.Transformers
open PersimVerif.Imager

/-! ## imager -/

/-- what `transform` returns: a bare image (one diagram, or the empty input) or a list -/
inductive Output (ι : Type) where
  | image (i : ι)
  | images (l : List ι)
  deriving Repr, DecidableEq

section Imager
variable {α ι : Type}

/-- `PersistenceImager.transform` (n_jobs=None; joblib's `Parallel` is an ordered map too):
    `len(pers_dgms) == 0` → zeros; else `_ensure_iterable`, map, unwrap if singular -/
def imagerTransform (img : State α → Bool → Dgm α → ι) (zeros : Int → Int → ι)
    (s : State α) (skew : Bool) (X : Input α) : Output ι :=
  match X with
  | .single [] => .image (zeros s.rx s.ry)
  | .coll [] => .image (zeros s.rx s.ry)
  | .single d => .image (img s skew d)           -- singular: `pers_imgs[0]`
  | .coll ds => .images (ds.map (img s skew))

variable [Add α] [Sub α] [Mul α] [Div α] [Zero α] [OfNat α 2] [IntCast α]
  [LT α] [DecidableLT α] [DecidableEq α]

/-- `PersistenceImager.fit_transform`: `deepcopy`, `fit`, `transform` (on the copy) -/
def imagerFitTransform (ceil : α → Int) (img : State α → Bool → Dgm α → ι) (zeros : Int → Int → ι)
    (copy : Input α → Input α) (s : State α) (skew : Bool) (X : Input α) :
    Except Err (State α × Output ι) :=
  let X' := copy X
  match Imager.fit ceil s skew X' with
  | .error e => .error e
  | .ok s' => .ok (s', imagerTransform img zeros s' skew X')

/-- calls on an imager object: the configuration operations of C12 plus the two transformer calls -/
inductive ICall (α : Type) where
  | cfg (op : Op α)
  | transform (skew : Bool) (X : Input α)
  | fitTransform (skew : Bool) (X : Input α)

/-- one call: new state and what the call returned -/
def icall (ceil : α → Int) (img : State α → Bool → Dgm α → ι) (zeros : Int → Int → ι)
    (copy : Input α → Input α) (s : State α) : ICall α → Except Err (State α × Option (Output ι))
  | .cfg op => match Imager.step ceil s op with
    | .error e => .error e
    | .ok s' => .ok (s', none)
  | .transform skew X => .ok (s, some (imagerTransform img zeros s skew X))
  | .fitTransform skew X => match imagerFitTransform ceil img zeros copy s skew X with
    | .error e => .error e
    | .ok (s', o) => .ok (s', some o)

/-- a history of calls (the first exception ends it) -/
def irun (ceil : α → Int) (img : State α → Bool → Dgm α → ι) (zeros : Int → Int → ι)
    (copy : Input α → Input α) : State α → List (ICall α) → Except Err (State α)
  | s, [] => .ok s
  | s, c :: cs => match icall ceil img zeros copy s c with
    | .error e => .error e
    | .ok (s', _) => irun ceil img zeros copy s' cs

end Imager

/-! ## landscaper -/

structure LState (α : Type) where
  start : Option α            -- `_start`
  stop : Option α             -- `_stop`
  startFixed : Bool           -- `_start_fixed`
  stopFixed : Bool            -- `_stop_fixed`
  numSteps : Int
  flatten : Bool
  homDeg : Int
  deriving Repr, DecidableEq

inductive LErr where
  | indexError                -- `X[self.hom_deg]` out of range
  | valueError                -- `min()`/`max()` of an empty diagram
  deriving DecidableEq, Repr

section Landscaper
variable {α β : Type}

/-- `start.setter` / `stop.setter`: user assignment (constructor, attribute, `set_params`) -/
def setStart (s : LState α) (v : Option α) : LState α :=
  { s with start := v, startFixed := v.isSome }
def setStop (s : LState α) (v : Option α) : LState α :=
  { s with stop := v, stopFixed := v.isSome }

/-- `__init__`: plain attribute assignments; `start`/`stop` go through the property setters -/
def lctor (homDeg : Int) (start stop : Option α) (numSteps : Int) (flatten : Bool) : LState α :=
  setStop (setStart { start := none, stop := none, startFixed := false, stopFixed := false,
                      numSteps := numSteps, flatten := flatten, homDeg := homDeg } start) stop

/-- Python list indexing `X[k]` (negative `k` counts from the end) -/
def pyIndex {γ : Type} (X : List γ) (k : Int) : Option γ :=
  if 0 ≤ k then X[k.toNat]? else if 0 ≤ (X.length : Int) + k then X[((X.length : Int) + k).toNat]? else none

/-- `get_params()["start"]` / `["stop"]` after 4d8db3a: only what the user assigned -/
def getStart (s : LState α) : Option α := if s.startFixed then s.start else none
def getStop (s : LState α) : Option α := if s.stopFixed then s.stop else none

/-- `get_params` before 4d8db3a (sklearn's default): the attribute, learned or not -/
def getStartOld (s : LState α) : Option α := s.start
def getStopOld (s : LState α) : Option α := s.stop

/-- `sklearn.base.clone(obj)`: `klass(**obj.get_params(deep=False))` — a new, unfitted object built
    by `__init__` from the reported parameters (the parameters are plain numbers/`None`, so clone's
    own deep copies of them are equal values and its identity check passes) -/
def lclone (s : LState α) : LState α :=
  lctor s.homDeg (getStart s) (getStop s) s.numSteps s.flatten

def lcloneOld (s : LState α) : LState α :=
  lctor s.homDeg (getStartOld s) (getStopOld s) s.numSteps s.flatten

/-- `obj.set_params(**obj.get_params())`: `setattr(obj, key, value)` for each of the five parameters;
    `hom_deg`/`num_steps`/`flatten` are re-assigned their own values, `start`/`stop` go through the
    property setters with what `get_params` reported -/
def lsetParamsFromGet (s : LState α) : LState α :=
  setStop (setStart s (getStart s)) (getStop s)

def lsetParamsFromGetOld (s : LState α) : LState α :=
  setStop (setStart s (getStartOld s)) (getStopOld s)

/-- `[pt for pt in X[hom_deg] if np.all(np.isfinite(pt))]` -/
def finitePts (fin : α → Bool) (d : Dgm α) : Dgm α := d.filter (fun p => fin p.1 && fin p.2)

variable [LT α] [DecidableLT α]

/-- `min(_dgm, key=itemgetter(0))[0]` (the first minimal element wins; only its value is used) -/
def minBirth : Dgm α → Option α
  | [] => none
  | p :: t => some (t.foldl (fun a q => if q.1 < a then q.1 else a) p.1)

/-- `max(_dgm, key=itemgetter(1))[1]` -/
def maxDeath : Dgm α → Option α
  | [] => none
  | p :: t => some (t.foldl (fun a q => if a < q.2 then q.2 else a) p.2)

/-- one guarded assignment of `fit`: keep `cur` when `keep`, else take the value computed from the
    data (`min()`/`max()` of an empty diagram raise, but only when they are evaluated) -/
def learn (keep : Bool) (cur : Option α) (fromData : Option α) : Except LErr (Option α) :=
  if keep then Except.ok cur else
    match fromData with
    | none => Except.error LErr.valueError
    | some v => Except.ok (some v)

/-- `fit` after the fixes: points with a non-finite coordinate are dropped first (`fin` =
    `np.isfinite`); only values that are not user-fixed are recomputed, from this data alone -/
def lfit (fin : α → Bool) (s : LState α) (X : List (Dgm α)) : Except LErr (LState α) :=
  match pyIndex X s.homDeg with
  | none => Except.error LErr.indexError
  | some d =>
    match learn s.startFixed s.start (minBirth (finitePts fin d)) with
    | Except.error e => Except.error e
    | Except.ok st =>
      match learn s.stopFixed s.stop (maxDeath (finitePts fin d)) with
      | Except.error e => Except.error e
      | Except.ok sp => Except.ok { s with start := st, stop := sp }

/-- `fit` before 9596bd3 (and before b209c93: no finiteness filter): `if self.start is None: self.start = …` -/
def lfitOld (s : LState α) (X : List (Dgm α)) : Except LErr (LState α) :=
  match pyIndex X s.homDeg with
  | none => Except.error LErr.indexError
  | some d =>
    match learn s.start.isSome s.start (minBirth d) with
    | Except.error e => Except.error e
    | Except.ok st =>
      match learn s.stop.isSome s.stop (maxDeath d) with
      | Except.error e => Except.error e
      | Except.ok sp => Except.ok { s with start := st, stop := sp }

/-- `transform`: `PersLandscapeApprox(dgms=X, start, stop, num_steps, hom_deg).values`, flattened on request -/
def ltransform (approx : List (Dgm α) → Option α → Option α → Int → Int → β) (flat : β → β)
    (s : LState α) (X : List (Dgm α)) : β :=
  let r := approx X s.start s.stop s.numSteps s.homDeg
  if s.flatten then flat r else r

/-- sklearn `TransformerMixin.fit_transform`: `self.fit(X).transform(X)` (`fit` returns `self`) -/
def lfitTransform (fin : α → Bool) (approx : List (Dgm α) → Option α → Option α → Int → Int → β) (flat : β → β)
    (s : LState α) (X : List (Dgm α)) : Except LErr (LState α × β) :=
  match lfit fin s X with
  | .error e => .error e
  | .ok s' => .ok (s', ltransform approx flat s' X)

inductive LCall (α : Type) where
  | setStart (v : Option α)
  | setStop (v : Option α)
  | setNumSteps (n : Int)
  | setFlatten (b : Bool)
  | setHomDeg (k : Int)
  | fit (X : List (Dgm α))
  | transform (X : List (Dgm α))
  | fitTransform (X : List (Dgm α))
  | clone                       -- the object is replaced by `sklearn.base.clone(obj)`
  | setParamsFromGet            -- `obj.set_params(**obj.get_params())`

/-- one call: new state and the returned value (`none` for calls returning `self`/nothing).  For
    `clone` the "new state" is the state of the clone, with which the history goes on. -/
def lcall (fin : α → Bool) (approx : List (Dgm α) → Option α → Option α → Int → Int → β) (flat : β → β)
    (s : LState α) : LCall α → Except LErr (LState α × Option β)
  | .setStart v => .ok (setStart s v, none)
  | .setStop v => .ok (setStop s v, none)
  | .setNumSteps n => .ok ({ s with numSteps := n }, none)
  | .setFlatten b => .ok ({ s with flatten := b }, none)
  | .setHomDeg k => .ok ({ s with homDeg := k }, none)
  | .fit X => match lfit fin s X with
    | .error e => .error e
    | .ok s' => .ok (s', none)
  | .transform X => .ok (s, some (ltransform approx flat s X))
  | .fitTransform X => match lfitTransform fin approx flat s X with
    | .error e => .error e
    | .ok (s', o) => .ok (s', some o)
  | .clone => .ok (lclone s, none)
  | .setParamsFromGet => .ok (lsetParamsFromGet s, none)

/-- a history of calls.  A call that raises leaves the object as it was (`fit` assigns `_start`
    only after `min` succeeded, and then `max` cannot fail) and the user may go on. -/
def lrun (fin : α → Bool) (approx : List (Dgm α) → Option α → Option α → Int → Int → β) (flat : β → β) :
    LState α → List (LCall α) → LState α
  | s, [] => s
  | s, c :: cs => match lcall fin approx flat s c with
    | .error _ => lrun fin approx flat s cs
    | .ok (s', _) => lrun fin approx flat s' cs

/-- the same history with the pre-4d8db3a `get_params` (everything else as repaired) -/
def lrunOldParams (fin : α → Bool) : LState α → List (LCall α) → LState α
  | s, [] => s
  | s, .clone :: cs => lrunOldParams fin (lcloneOld s) cs
  | s, .setParamsFromGet :: cs => lrunOldParams fin (lsetParamsFromGetOld s) cs
  | s, c :: cs => match lcall (β := Unit) fin (fun _ _ _ _ _ => ()) id s c with
    | .error _ => lrunOldParams fin s cs
    | .ok (s', _) => lrunOldParams fin s' cs

/-- the same history with the pre-fix `fit` -/
def lrunOld : LState α → List (List (Dgm α)) → LState α
  | s, [] => s
  | s, X :: Xs => match lfitOld s X with
    | .error _ => lrunOld s Xs
    | .ok s' => lrunOld s' Xs

end Landscaper
end PersimVerif.Transformers
