/-
  Model of persim/images_kernels.py — import-free, polymorphic over core classes.

    uniform                 the whole function, per evaluation point (NumPy broadcasts it over arrays)
    normCdf, sbvn, gaussian the product form and the dispatch on `sigma[0][1] == 0.0`
    glRule                  `gauss_legendre_quad` (tables + the thresholds 0.3 / 0.75)
    bvnLo                   `bvn_cdf`, branch |r| < 0.925 (Drezner–Wesolowsky, Gauss–Legendre on Plackett's integral)
    bvnHi                   `bvn_cdf`, branch |r| ≥ 0.925 (Genz's expansion) with its three cut-offs as parameters
    bvn                     the whole `bvn_cdf`, per evaluation point
    bvnOld                  `bvn_cdf` before /repo commit 378a266 (`asr > 100`), kept as a regression witness
    bvnOldTail              `bvn_cdf` before /repo commit 4b6a233 (unmasked `exp` in `ep1`: NaN in far tails), likewise

  `sqrt exp sin asin Φ π` are explicit parameters.  Decimal literals are `OfScientific` literals, so
  the same tables are exact rationals at `Rat` (used by Generated/KernelConsts.lean, which re-checks them
  against the digits extracted from the source on every run) and IEEE doubles at `Float` (used by the driver).

  What the model does not cover: NaN propagation of `np.maximum/np.minimum`; the `len(dh)` call of
  `bvn_cdf` (a scalar `x` raises `TypeError` there: the model is per point of an array argument);
  NumPy's pairwise summation order in `np.sum(axis=1)` (the model folds left; ≤ 1e-15 apart).
-/
namespace PersimVerif.Kernels

/-! ### `uniform` (lines 15-22) -/
section uniform
variable {α : Type} [Sub α] [Mul α] [Div α] [Max α] [Min α] [Zero α] [OfNat α 2]

/-- `uniform(x, y, mu, width, height)` at one point:
    `w1 = maximum(x - (mu[0] - width/2), 0)`, `h1 = …`, `w = minimum(w1, width)`, `h = …`,
    `return w*h / (width*height)` -/
def uniform (x y mu0 mu1 width height : α) : α :=
  let w1 := max (x - (mu0 - width / 2)) 0
  let h1 := max (y - (mu1 - height / 2)) 0
  let w := min w1 width
  let h := min h1 height
  w * h / (width * height)

end uniform

/-! ### `norm_cdf`, `sbvn_cdf`, `gaussian` (lines 25-101) -/
section product
variable {α : Type} [Sub α] [Mul α] [Div α] [Neg α]

/-- `norm_cdf(x) = erfc(-x / sqrt(2.0)) / 2.0` -/
def normCdf [OfScientific α] (erfc sqrt : α → α) (x : α) : α := erfc (-x / sqrt 2.0) / 2.0

/-- `sbvn_cdf`: standardise by the square roots of the *variances*, multiply the marginals -/
def sbvn (Φ sqrt : α → α) (x y mux muy sx sy : α) : α :=
  let x' := (x - mux) / sqrt sx
  let y' := (y - muy) / sqrt sy
  Φ x' * Φ y'

/-- `gaussian`: `if sigma[0][1] == 0.0: sbvn_cdf(…) else: bvn_cdf(…)`; `bvn` is the other branch
    (arguments in the order `x y mu_x mu_y sigma_xx sigma_yy sigma_xy`) -/
def gaussian [BEq α] [Zero α] (Φ sqrt : α → α) (bvn : α → α → α → α → α → α → α → α)
    (x y mu0 mu1 s00 s11 s01 : α) : α :=
  if s01 == 0 then sbvn Φ sqrt x y mu0 mu1 s00 s11
  else bvn x y mu0 mu1 s00 s11 s01

end product

/-! ### `gauss_legendre_quad` (lines 207-242) -/

/-- a rule: the number of points `lg`, the weights and the abscissae -/
structure GLRule (α : Type) where
  lg : Nat
  w : List α
  x : List α

section tables
variable {α : Type} [OfScientific α]

def gl3 : GLRule α where
  lg := 3
  w := [0.1713244923791705, 0.3607615730481384, 0.4679139345726904]
  x := [0.9324695142031522, 0.6612093864662647, 0.2386191860831970]

def gl6 : GLRule α where
  lg := 6
  w := [0.04717533638651177, 0.1069393259953183, 0.1600783285433464,
        0.2031674267230659, 0.2334925365383547, 0.2491470458134029]
  x := [0.9815606342467191, 0.9041172563704750, 0.7699026741943050,
        0.5873179542866171, 0.3678314989981802, 0.1252334085114692]

def gl10 : GLRule α where
  lg := 10
  w := [0.01761400713915212, 0.04060142980038694, 0.06267204833410906,
        0.08327674157670475, 0.1019301198172404, 0.1181945319615184,
        0.1316886384491766, 0.1420961093183821, 0.1491729864726037,
        0.1527533871307259]
  x := [0.9931285991850949, 0.9639719272779138, 0.9122344282513259,
        0.8391169718222188, 0.7463319064601508, 0.6360536807265150,
        0.5108670019508271, 0.3737060887154196, 0.2277858511416451,
        0.07652652113349733]

/-- `np.abs(r) < 0.3` -/
def thrGL3 : α := 0.3
/-- `np.abs(r) < 0.75` -/
def thrGL6 : α := 0.75
/-- `abs(r) < 0.925` : Gauss–Legendre on Plackett's integral below, Genz's expansion at or above -/
def thrBranch : α := 0.925
/-- `asr > -100`, `hk > -100`, `asr1 > -100` -/
def cutAsr [Neg α] : α := -100.0
def cutHk [Neg α] : α := -100.0
def cutAsr1 [Neg α] : α := -100.0
/-- the pre-378a266 value of the first cut-off -/
def cutAsrOld : α := 100.0

end tables

section alg
variable {α : Type} [Add α] [Sub α] [Mul α] [Div α] [Neg α] [LT α] [DecidableLT α] [Max α]
  [OfScientific α]

/-- `abs` -/
def absv (x : α) : α := if x < 0.0 then -x else x

def glRule (r : α) : GLRule α :=
  if absv r < thrGL3 then gl3
  else if absv r < thrGL6 then gl6
  else gl10

/-- left fold of `+` from 0 (the model of `np.sum(…, axis=1)` on one row) -/
def fsum (l : List α) : α := l.foldl (· + ·) 0.0

/-- lines 133-149: `|r| < 0.925`.  `dh dk hk` as computed at lines 122-126, `rule` from line 128. -/
def bvnLo (exp sin asin Φ : α → α) (pi : α) (rule : GLRule α) (dh dk hk r : α) : α :=
  let hs := (dh * dh + dk * dk) / 2.0
  let asr := asin r
  let terms := (rule.w.zip rule.x).map fun (w, x) =>
    let sn1 := sin (asr * (1.0 - x) / 2.0)
    let sn2 := sin (asr * (1.0 + x) / 2.0)
    w * exp ((sn1 * hk - hs) / (1.0 - sn1 * sn1)) + w * exp ((sn2 * hk - hs) / (1.0 - sn2 * sn2))
  asr * fsum terms / (4.0 * pi) + Φ (-dh) * Φ (-dk)

/-- lines 165-203: the body of `if abs(r) < 1:` — `dk hk` already sign-flipped for `r < 0`.
    `cA cH cA1` are the cut-offs of `asr > …`, `hk > …`, `asr1 > …`. -/
def bvnHiCore (exp sqrt Φ : α → α) (pi : α) (cA cH cA1 : α) (maskEp : Bool) (rule : GLRule α)
    (dh dk hk r : α) : α :=
  let opmr := (1.0 - r) * (1.0 + r)
  let sopmr := sqrt opmr
  let xmy2 := (dh - dk) * (dh - dk)
  let xmy := sqrt xmy2
  let rhk8 := (4.0 - hk) / 8.0
  let rhk16 := (12.0 - hk) / 16.0
  let asr := -1.0 * (xmy2 / opmr + hk) / 2.0
  -- `ind = asr > -100; bvn[ind] = …` on the zero-initialised array
  let bvn0 : α :=
    if cA < asr then
      sopmr * (exp asr * (1.0 - (rhk8 * (xmy2 - opmr)) * ((1.0 - rhk16 * xmy2 / 5.0) / 3.0)
                          + rhk8 * rhk16 * opmr * opmr / 5.0))
    else 0.0
  -- `ind = hk > -100; bvn[ind] = bvn[ind] - …`
  let bvn1 : α :=
    if cH < hk then
      let ncdfxmyt := sqrt (2.0 * pi) * Φ (-xmy / sopmr)
      bvn0 - exp (-hk / 2.0) * ncdfxmyt * xmy * (1.0 - (rhk8 * xmy2) * ((1.0 - rhk16 * xmy2 / 5.0) / 3.0))
    else bvn0
  let sopmr2 := sopmr / 2.0
  -- `for ix in [-1, 1]: … bvn = bvn + np.sum(…, axis=1)`
  let pass (bvn : α) (ix : α) : α :=
    let terms := (rule.w.zip rule.x).map fun (w, x) =>
      let t := sopmr2 + sopmr2 * ix * x
      let xs := t * t
      let rs := sqrt (1.0 - xs)
      let asr1 := -1.0 * (xmy2 / xs + hk) / 2.0
      let ind1 : α := if cA1 < asr1 then 1.0 else 0.0
      let sp1 := 1.0 + (rhk8 * xs) * (1.0 + rhk16 * xs)
      -- /repo 4b6a233: the exponent is multiplied by the mask before `exp` (`maskEp = false` is the code before it)
      let ep1 :=
        if maskEp then exp (-(hk * (1.0 - rs)) / (2.0 * (1.0 + rs)) * ind1) / rs
        else exp (-(hk * (1.0 - rs)) / (2.0 * (1.0 + rs))) / rs
      (sopmr2 * w) * exp (asr1 * ind1) * (ep1 * ind1 - sp1 * ind1)
    bvn + fsum terms
  let bvn2 := pass (pass bvn1 (-1.0)) 1.0
  let nbvn := -bvn2          -- `bvn = -bvn / (2.0 * np.pi)`
  nbvn / (2.0 * pi)

/-- lines 150-205: `|r| ≥ 0.925` -/
def bvnHi (exp sqrt Φ : α → α) (pi : α) (cA cH cA1 : α) (maskEp : Bool) (rule : GLRule α)
    (dh dk0 hk0 r : α) : α :=
  let dk := if r < 0.0 then -dk0 else dk0
  let hk := if r < 0.0 then -hk0 else hk0
  let bvn := if absv r < 1.0 then bvnHiCore exp sqrt Φ pi cA cH cA1 maskEp rule dh dk hk r else 0.0
  if 0.0 < r then bvn + Φ (-(max dh dk))
  else if r < 0.0 then -bvn + max 0.0 (Φ (-dh) - Φ (-dk))
  else bvn

/-- `bvn_cdf(x, y, mu_x, mu_y, sigma_xx, sigma_yy, sigma_xy)` at one point, cut-offs as parameters -/
def bvnWith (exp sin asin sqrt Φ : α → α) (pi : α) (cA cH cA1 : α) (maskEp : Bool)
    (x y mux muy sxx syy sxy : α) : α :=
  let dh := -(x - mux) / sqrt sxx
  let dk := -(y - muy) / sqrt syy
  let hk := dh * dk
  let r := sxy / sqrt (sxx * syy)
  let rule := glRule r
  if absv r < thrBranch then bvnLo exp sin asin Φ pi rule dh dk hk r
  else bvnHi exp sqrt Φ pi cA cH cA1 maskEp rule dh dk hk r

/-- the code as it is now -/
def bvn (exp sin asin sqrt Φ : α → α) (pi : α) : α → α → α → α → α → α → α → α :=
  bvnWith exp sin asin sqrt Φ pi cutAsr cutHk cutAsr1 true

/-- the code before 378a266: `ind = asr > 100` -/
def bvnOld (exp sin asin sqrt Φ : α → α) (pi : α) : α → α → α → α → α → α → α → α :=
  bvnWith exp sin asin sqrt Φ pi cutAsrOld cutHk cutAsr1 true

/-- the code before 4b6a233: `ep1 = exp(…)/rs` for every entry, masked only afterwards (`inf*0 = NaN` in far tails) -/
def bvnOldTail (exp sin asin sqrt Φ : α → α) (pi : α) : α → α → α → α → α → α → α → α :=
  bvnWith exp sin asin sqrt Φ pi cutAsr cutHk cutAsr1 false

end alg
end PersimVerif.Kernels
