/-
  Model of persim/visuals.py (`plot_diagrams`, `bottleneck_matching`, `wasserstein_matching`) and of
  the 2-D landscape plots of persim/landscapes/visuals.py, import-free and polymorphic.

  A plotting call is modelled as a PURE function from its arguments to the list of *abstract
  artists* it adds (matplotlib itself is a contract: an artist added to an `Axes` is drawn there):

    * `scatter ax pts label`            — `ax.scatter(xs, ys, size, label=label, edgecolor="none")`
    * `line ax xs ys style label`       — `ax.plot(xs, ys, <style>, label=…)`

  each tagged with the axes it lands on: `given` = the axes the function resolved from its `ax`
  argument (`ax = ax or plt.gca()`), `current` = whatever pyplot's current axes is at that moment
  (`plt.plot`) — they coincide only when `ax` was `None` or happens to be current.  Besides the
  artists the figure records the limits passed to `set_xlim/set_ylim`, the axis labels, the title
  and whether `ax.legend` was called.

  Coordinates: a birth is finite, a death is `Option α` (`none` = +∞, the only non-finite value the
  routine treats specially).  `cast` is `astype(np.float32)` (a parameter: the driver passes the
  real round-to-nearest-even, the theorems hold for every `cast`).  `0.95`, `0.05` are `19/20`, `1/20`.

  The model rejects what the code rejects (`Err.value` = `ValueError`, `Err.index` = `IndexError`).
  Not modelled: `plt.style.use(colormap)`, `size`, `ax_color` (carried by the `Style` tag only),
  `show`, rendering, the 3-D landscape plots.
-/
namespace PersimVerif.Plot

inductive Err where
  | value   -- ValueError  (np.concatenate([]), np.min of an empty array, np.argmax of an empty column)
  | index   -- IndexError  (plot_only / matching index out of range)
  deriving DecidableEq, Repr

/-- which axes an artist lands on -/
inductive Axes where
  | given
  | current
  deriving DecidableEq, Repr

/-- the line styles the code uses (linestyle, width, colour as written in the source) -/
inductive Style where
  | horizon     -- `c=ax_color`                       (lifetime zero line)
  | diagonal    -- `"--", c=ax_color`
  | infLine     -- `"--", c="k"`
  | matchMax    -- `'C3', linewidth=2, linestyle='-'`  (arg-max row of bottleneck_matching)
  | matchOther  -- `'C2', linewidth=1, linestyle='--'`
  | wass        -- `"g"`
  | landscape   -- default cycle colour, `alpha=alpha`
  deriving DecidableEq, Repr

inductive Artist (α : Type) where
  | scatter (ax : Axes) (pts : List (α × α)) (label : String)
  | line (ax : Axes) (xs ys : List α) (style : Style) (label : Option String)
  deriving DecidableEq, Repr

/-- what a diagram-plot call leaves on the axes -/
structure Fig (α : Type) where
  artists : List (Artist α)
  xlim : α × α
  ylim : α × α
  xlabel : Option String
  ylabel : Option String
  title : Option String
  legend : Bool
  deriving DecidableEq, Repr

abbrev Dgm (α : Type) := List (α × Option α)

/-- `diagrams`: an ndarray or a list of ndarrays -/
inductive DgmsArg (α : Type) where
  | single (d : Dgm α)
  | many (ds : List (Dgm α))

/-- `labels`: `None`, a string, or a list of strings -/
inductive Labels where
  | default
  | one (s : String)
  | many (ls : List String)
  deriving DecidableEq, Repr

structure Opts (α : Type) where
  plotOnly : Option (List Int) := none
  title : Option String := none
  xyRange : Option (α × α × α × α) := none
  labels : Labels := .default
  diagonal : Bool := true
  lifetime : Bool := false
  legend : Bool := true

/-- Python list indexing `xs[i]` (negative indices count from the end; `none` = `IndexError`) -/
def pyGet {β : Type} (xs : List β) (i : Int) : Option β :=
  if 0 ≤ i then xs[i.toNat]?
  else if (-i).toNat ≤ xs.length then xs[xs.length - (-i).toNat]?
  else none

/-- `[xs[i] for i in idx]` -/
def getAll {β : Type} (xs : List β) : List Int → Option (List β)
  | [] => some []
  | i :: is =>
    match pyGet xs i, getAll xs is with
    | some x, some r => some (x :: r)
    | _, _ => none

def defaultLabel (i : Nat) : String := "$H_{" ++ toString i ++ "}$"

def infLabel : String := "$\\infty$"

def lambdaLabel (k : Nat) : String := "$\\lambda_{" ++ toString k ++ "}$"

/-- visuals.py:70-72 -/
def asList {α : Type} : DgmsArg α → List (Dgm α)
  | .single d => [d]
  | .many ds => ds

/-- visuals.py:74-80: default labels, then a non-list label is repeated once per diagram -/
def labelList (n : Nat) : Labels → List String
  | .default => (List.range n).map defaultLabel
  | .one s => List.replicate n s
  | .many ls => ls

/-- visuals.py:82-84: `if plot_only:` (a non-empty list) select diagrams and labels by index -/
def select {β : Type} (xs : List β) (labels : List String) :
    Option (List Int) → Except Err (List β × List String)
  | some (i :: is) =>
    match getAll xs (i :: is), getAll labels (i :: is) with
    | some ds, some ls => .ok (ds, ls)
    | _, _ => .error .index
  | _ => .ok (xs, labels)

/-- the order of these two steps BEFORE /repo 59a7acc: selection first, so a single string label was
    indexed character by character -/
def selectOld {β : Type} (xs : List β) (labels : Labels) :
    Option (List Int) → Except Err (List β × List String)
  | some (i :: is) =>
    let ls0 : List String := match labels with
      | .default => (List.range xs.length).map defaultLabel
      | .one s => s.toList.map String.singleton
      | .many ls => ls
    match getAll xs (i :: is), getAll ls0 (i :: is) with
    | some ds, some ls => .ok (ds, ls)
    | _, _ => .error .index
  | _ => .ok (xs, labelList xs.length labels)

section
variable {α : Type}

def castDgm (cast : α → α) (d : Dgm α) : Dgm α := d.map fun p => (cast p.1, p.2.map cast)

/-- `np.concatenate(diagrams).flatten()` restricted to its finite entries -/
def finiteVals (ds : List (Dgm α)) : List α :=
  ds.flatten.flatMap fun p => match p.2 with
    | some d => [p.1, d]
    | none => [p.1]

/-- `np.any(np.isinf(concat_dgms))` -/
def hasInf (ds : List (Dgm α)) : Bool := ds.flatten.any fun p => p.2.isNone

structure Range (α : Type) where
  xDown : α
  xUp : α
  yDown : α
  yUp : α
  deriving DecidableEq, Repr

variable [Add α] [Sub α] [Mul α] [Div α] [Neg α] [Zero α] [OfNat α 1] [OfNat α 2] [OfNat α 5]
  [OfNat α 19] [OfNat α 20] [Min α] [Max α]

/-- visuals.py:98-109: bounds from the finite values, buffer `x_r/5`
    (`buffer = 1 if xy_range == 0 else x_r / 5`: in this branch `xy_range` is `None` or `[]`, never `0`);
    `none` = `np.min` of an empty array -/
def autoRange (vals : List α) : Option (Range α) :=
  match vals.min?, vals.max? with
  | some axMin, some axMax =>
    let xr := axMax - axMin
    let buffer := xr / 5
    let xDown := axMin - buffer / 2
    let xUp := axMax + buffer
    some ⟨xDown, xUp, xDown, xUp⟩
  | _, _ => none

/-- visuals.py:96-111 -/
def rangeOf (xy : Option (α × α × α × α)) (vals : List α) : Option (Range α) :=
  match xy with
  | some (a, b, c, d) => some ⟨a, b, c, d⟩
  | none => autoRange vals

/-- visuals.py:128-129 `dgm[:, 1] -= dgm[:, 0]` (∞ stays ∞) -/
def lifeDgm (d : Dgm α) : Dgm α := d.map fun p => (p.1, p.2.map (· - p.1))

/-- visuals.py:145-146 `dgm[np.isinf(dgm)] = b_inf` -/
def substInf (bInf : α) (d : Dgm α) : List (α × α) :=
  d.map fun p => match p.2 with
    | some e => (p.1, e)
    | none => (p.1, bInf)

def yDownOf (lifetime : Bool) (r : Range α) : α :=
  if lifetime then (-(r.yUp - r.yDown)) * (1 / 20) else r.yDown

def yUpOf (lifetime : Bool) (r : Range α) : α :=
  if lifetime then yDownOf lifetime r + (r.yUp - r.yDown) else r.yUp

/-- visuals.py:141 `b_inf = y_down + yr * 0.95` -/
def bInfOf (lifetime : Bool) (r : Range α) : α :=
  yDownOf lifetime r + (r.yUp - r.yDown) * (19 / 20)

/-- the diagrams as drawn (after the lifetime conversion, before the ∞ substitution) -/
def shown (lifetime : Bool) (ds : List (Dgm α)) : List (Dgm α) :=
  if lifetime then ds.map lifeDgm else ds

/-- the guide lines, in the order the code adds them (visuals.py:131-142) -/
def guideLines (o : Opts α) (inf : Bool) (r : Range α) : List (Artist α) :=
  (if o.lifetime then [.line .given [r.xDown, r.xUp] [0, 0] .horizon none] else []) ++
  (if o.diagonal && !o.lifetime then
     [.line .given [r.xDown, r.xUp] [r.xDown, r.xUp] .diagonal none] else []) ++
  (if inf then
     [.line .given [r.xDown, r.xUp] [bInfOf o.lifetime r, bInfOf o.lifetime r] .infLine (some infLabel)]
   else [])

/-- visuals.py:149-156: one scatter per `zip(diagrams, labels)` entry -/
def scatters (bInf : α) (ds : List (Dgm α)) (labels : List String) : List (Artist α) :=
  (ds.zip labels).map fun dl => .scatter .given (substInf bInf dl.1) dl.2

/-- visuals.py:113-168 once diagrams, labels and range are fixed -/
def draw (o : Opts α) (ds : List (Dgm α)) (labels : List String) (r : Range α) : Fig α :=
  let some_ := !(ds.zip labels).isEmpty
  { artists := guideLines o (hasInf ds) r ++
      scatters (bInfOf o.lifetime r) (shown o.lifetime ds) labels
    xlim := (r.xDown, r.xUp)
    ylim := (yDownOf o.lifetime r, yUpOf o.lifetime r)
    xlabel := if some_ then some "Birth" else none
    ylabel := if some_ then some (if o.lifetime then "Lifetime" else "Death") else none
    title := o.title
    legend := o.legend }

/-- `plot_diagrams(diagrams, plot_only, title, xy_range, labels, …, diagonal, lifetime, legend, ax=ax)` -/
def plotDiagrams (cast : α → α) (arg : DgmsArg α) (o : Opts α) : Except Err (Fig α) :=
  let dgms := asList arg
  match select dgms (labelList dgms.length o.labels) o.plotOnly with
  | .error e => .error e
  | .ok (sel, labels) =>
    if sel.isEmpty then .error .value            -- np.concatenate([])
    else
      let ds := sel.map (castDgm cast)
      match rangeOf o.xyRange (finiteVals ds) with
      | none => .error .value                    -- np.min of an empty array
      | some r => .ok (draw o ds labels r)

/-- the same with the label/plot_only order of the code before /repo 59a7acc -/
def plotDiagramsOld (cast : α → α) (arg : DgmsArg α) (o : Opts α) : Except Err (Fig α) :=
  let dgms := asList arg
  match selectOld dgms o.labels o.plotOnly with
  | .error e => .error e
  | .ok (sel, labels) =>
    if sel.isEmpty then .error .value
    else
      let ds := sel.map (castDgm cast)
      match rangeOf o.xyRange (finiteVals ds) with
      | none => .error .value
      | some r => .ok (draw o ds labels r)

/-! ### matching plots (visuals.py: `bottleneck_matching`, `wasserstein_matching`)

  The diagrams may contain points with infinite death (`Dgm α`).  Since /repo 3ef18e2 both functions
  filter them out before indexing (`dgm[np.isfinite(dgm[:, 1])]`, then the `(0,0)` placeholder if nothing
  is left) while the scatter plot still shows every point.  The wasserstein variant substitutes the
  placeholder for an empty diagram BEFORE the filter, so the placeholder is also what `plot_diagrams`
  shows there (`placeholderD`); `placeholder (finitePart (placeholderD d)) = placeholder (finitePart d)`. -/

/-- a matching row `[i, j, d]` after `int(i)`, `int(j)` -/
abbrev Row (α : Type) := Int × Int × α

abbrev FDgm (α : Type) := List (α × α)

/-- `if dgm.size == 0: dgm = np.array([[0, 0]])` -/
def placeholder (d : FDgm α) : FDgm α := if d.isEmpty then [(0, 0)] else d

/-- one row of `dgm.dot(R)`, `R = [[c, -s], [s, c]]` -/
def rot (c s : α) (p : α × α) : α × α := (p.1 * c + p.2 * s, p.1 * (-s) + p.2 * c)

/-- `np.array([dgmRot[k, 0], 0]).dot(R.T)`, `R.T = [[c, s], [-s, c]]` -/
def foot (c s : α) (p : α × α) : α × α :=
  let x := (rot c s p).1
  (x * c + 0 * (-s), x * s + 0 * c)

/-- the data of the segment drawn for row `(i, j)`: `none` for a `(-1, -1)` row;
    the flag says whether the row took the `i == -1` branch -/
def segment (c s : α) (d1 d2 : FDgm α) (i j : Int) :
    Except Err (Option (Bool × List α × List α)) :=
  if i != -1 || j != -1 then
    if i == -1 then
      match pyGet d2 j with
      | some q => .ok (some (true, [q.1, (foot c s q).1], [q.2, (foot c s q).2]))
      | none => .error .index
    else if j == -1 then
      match pyGet d1 i with
      | some p => .ok (some (false, [p.1, (foot c s p).1], [p.2, (foot c s p).2]))
      | none => .error .index
    else
      match pyGet d1 i, pyGet d2 j with
      | some p, some q => .ok (some (false, [p.1, q.1], [p.2, q.2]))
      | _, _ => .error .index
  else .ok none

/-- the loop over the rows: `styleOf idx` is the style of row `idx`, `axOf fromSecond` the axes -/
def segments (c s : α) (d1 d2 : FDgm α) (styleOf : Nat → Style) (axOf : Bool → Axes) :
    Nat → List (Row α) → Except Err (List (Artist α))
  | _, [] => .ok []
  | idx, (i, j, _) :: rows =>
    match segment c s d1 d2 i j with
    | .error e => .error e
    | .ok seg =>
      match segments c s d1 d2 styleOf axOf (idx + 1) rows with
      | .error e => .error e
      | .ok rest =>
        match seg with
        | some (second, xs, ys) => .ok (.line (axOf second) xs ys (styleOf idx) none :: rest)
        | none => .ok rest

variable [LT α] [DecidableLT α]

def argmaxAux : List α → Nat → Nat → α → Nat
  | [], _, bi, _ => bi
  | x :: xs, k, bi, bv => if bv < x then argmaxAux xs (k + 1) k x else argmaxAux xs (k + 1) bi bv

/-- `np.argmax`: index of the first maximum; `none` on an empty column (ValueError) -/
def argmax? : List α → Option Nat
  | [] => none
  | x :: xs => some (argmaxAux xs 1 0 x)

def asDgm (d : FDgm α) : Dgm α := d.map fun p => (p.1, some p.2)

/-- `dgm[np.isfinite(dgm[:, 1])]`: the points with finite death, in order (/repo 3ef18e2).  These are the
    points the rows of a matching returned by `bottleneck` / `wasserstein` index: both drop the points
    with non-finite death before they number the rest. -/
def finitePart (d : Dgm α) : FDgm α := d.filterMap fun p => p.2.map fun e => (p.1, e)

/-- what the code indexed BEFORE /repo 3ef18e2: the diagram as passed, infinite deaths included
    (`infv` stands for the float `inf` those rows carry) -/
def allPoints (infv : α) (d : Dgm α) : FDgm α := d.map fun p => (p.1, p.2.getD infv)

/-- `if dgm.size == 0: dgm = np.array([[0, 0]])` on a diagram that is handed on to `plot_diagrams` -/
def placeholderD (d : Dgm α) : Dgm α := if d.isEmpty then [(0, some 0)] else d

def matchOpts (labels : List String) : Opts α := { labels := .many labels }

def bnStyle (maxIdx idx : Nat) : Style := if idx = maxIdx then .matchMax else .matchOther

/-- `bottleneck_matching(dgm1, dgm2, matching, labels, ax)`: the scatter plot shows ALL points of the two
    diagrams (infinite deaths on the ∞ line); the segments are drawn between the points `pts dgm` the rows
    index — `finitePart` in the repaired code — with the `(0,0)` placeholder when there is none.
    `axOf` distinguishes the repaired code (everything on the given axes) from the code before
    /repo 64802c3. -/
def bottleneckMatchingWith (pts : Dgm α → FDgm α) (axOf : Bool → Axes) (cast : α → α) (c s : α)
    (d1 d2 : Dgm α) (rows : List (Row α)) (labels : List String) : Except Err (Fig α) :=
  match plotDiagrams cast (.many [d1, d2]) (matchOpts labels) with
  | .error e => .error e
  | .ok fig =>
    match argmax? (rows.map fun r => r.2.2) with
    | none => .error .value
    | some maxIdx =>
      match segments c s (placeholder (pts d1)) (placeholder (pts d2)) (bnStyle maxIdx) axOf 0 rows with
      | .error e => .error e
      | .ok segs => .ok { fig with artists := fig.artists ++ segs }

def bottleneckMatching (cast : α → α) (c s : α) (d1 d2 : Dgm α) (rows : List (Row α))
    (labels : List String) : Except Err (Fig α) :=
  bottleneckMatchingWith finitePart (fun _ => .given) cast c s d1 d2 rows labels

/-- before 64802c3: the `i == -1` branch called `plt.plot` -/
def bottleneckMatchingOld (cast : α → α) (c s : α) (d1 d2 : Dgm α) (rows : List (Row α))
    (labels : List String) : Except Err (Fig α) :=
  bottleneckMatchingWith finitePart (fun second => if second then .current else .given) cast c s d1 d2 rows labels

/-- before 3ef18e2: the rows indexed the diagrams as passed (infinite deaths included) -/
def bottleneckMatchingIdxOld (infv : α) (cast : α → α) (c s : α) (d1 d2 : Dgm α) (rows : List (Row α))
    (labels : List String) : Except Err (Fig α) :=
  bottleneckMatchingWith (allPoints infv) (fun _ => .given) cast c s d1 d2 rows labels

/-- `wasserstein_matching`: segments first (between the points `pts dgm` the rows index, `(0,0)`
    placeholder when there is none), then `plot_diagrams` on the UNFILTERED diagrams (an empty one
    replaced by the placeholder) -/
def wassersteinMatchingWith (pts : Dgm α → FDgm α) (axOf : Bool → Axes) (cast : α → α) (c s : α)
    (d1 d2 : Dgm α) (rows : List (Row α)) (labels : List String) : Except Err (Fig α) :=
  match segments c s (placeholder (pts d1)) (placeholder (pts d2)) (fun _ => .wass) axOf 0 rows with
  | .error e => .error e
  | .ok segs =>
    match plotDiagrams cast (.many [placeholderD d1, placeholderD d2]) (matchOpts labels) with
    | .error e => .error e
    | .ok fig => .ok { fig with artists := segs ++ fig.artists }

def wassersteinMatching (cast : α → α) (c s : α) (d1 d2 : Dgm α) (rows : List (Row α))
    (labels : List String) : Except Err (Fig α) :=
  wassersteinMatchingWith finitePart (fun _ => .given) cast c s d1 d2 rows labels

def wassersteinMatchingOld (cast : α → α) (c s : α) (d1 d2 : Dgm α) (rows : List (Row α))
    (labels : List String) : Except Err (Fig α) :=
  wassersteinMatchingWith finitePart (fun second => if second then .current else .given) cast c s d1 d2 rows labels

/-- before 3ef18e2 -/
def wassersteinMatchingIdxOld (infv : α) (cast : α → α) (c s : α) (d1 d2 : Dgm α) (rows : List (Row α))
    (labels : List String) : Except Err (Fig α) :=
  wassersteinMatchingWith (allPoints infv) (fun _ => .given) cast c s d1 d2 rows labels

end

/-! ### 2-D landscape plots (landscapes/visuals.py:264-318, 417-477) -/
section
variable {α : Type}

/-- one labelled line per depth that is in `depth_range` (`None`/empty = all depths) -/
def landscapeLines (fns : List (List α × List α)) (depthRange : Option (List Nat)) : List (Artist α) :=
  let keep : Nat → Bool := match depthRange with
    | some (k :: ks) => fun d => (k :: ks).contains d
    | _ => fun _ => true
  (List.zip (List.range fns.length) fns).filterMap fun df =>
    if keep df.1 then some (.line .given df.2.1 df.2.2 .landscape (some (lambdaLabel df.1))) else none

variable [Add α] [Sub α] [Mul α] [Div α]

/-- `np.linspace(start, stop, num=n)` -/
def linspace (natCast : Nat → α) (start stop : α) (n : Nat) : List α :=
  if n ≤ 1 then List.replicate n start
  else (List.range n).map fun i => start + natCast i * ((stop - start) / natCast (n - 1))

/-- `plot_landscape_exact_simple`: depth k is drawn through its critical points -/
def landscapeExactSimple (crit : List (List (α × α))) (depthRange : Option (List Nat)) : List (Artist α) :=
  landscapeLines (crit.map fun l => (l.map (·.1), l.map (·.2))) depthRange

/-- `plot_landscape_approx_simple`: depth k is drawn over `linspace(start, stop, len(values[k]))` -/
def landscapeApproxSimple (natCast : Nat → α) (start stop : α) (values : List (List α))
    (depthRange : Option (List Nat)) : List (Artist α) :=
  landscapeLines (values.map fun l => (linspace natCast start stop l.length, l)) depthRange

end
end PersimVerif.Plot
