/-
  C06 — the rows returned under `matching=True` by `persim/bottleneck.py` and `persim/wasserstein.py`.
  Import-free, polymorphic over core classes (runs at `Rat` and `Float` in the driver, unfolds to
  Mathlib notation at a linear ordered field in `Props/C06.lean`).

  Two parts:

  * the **certificate checker** `checkRows`: given the two diagrams, the rows `[i, j, cost]` some
    implementation returned, and the cost rule (pair cost, diagonal cost), decide whether the rows
    are a partial matching of the (placeholder-adjusted) diagrams with the right third entries.
    Nothing in it knows how the rows were produced: any optimal matching is acceptable.
  * a small **model of the two extraction loops** (`extractRowsBn`, `extractRowsWs`): what the code
    does with the augmented matrix `D` and the assignment the external solver selected.

  Anchors.  bottleneck.py: `if M == 0: S = np.array([[0, 0]]); M = 1` (same for `T`), the loop
  `for i in range(M + N): j = matching["{}".format(i)]; d = D[i, j]; if i < M: if j >= N: j = -1
   else: if j >= N: continue; i = -1; matchidx.append([i, j, d])`.
  wasserstein.py: the same placeholder, `ret[:, 0:2] = matchidx; ret[:, 2] = D[matchi, matchj];
  ret[ret[:, 0] >= M, 0] = -1; ret[ret[:, 1] >= N, 1] = -1; ret = ret[ret[:, 0] + ret[:, 1] != -2, :]`.
-/
namespace PersimVerif.Rows

/-- one returned row: index in the first diagram (or −1), index in the second (or −1), cost -/
structure Row (α : Type) where
  i : Int
  j : Int
  cost : α
  deriving Repr, DecidableEq

section
variable {α : Type}

/-- `if M == 0: S = [[0, 0]]` — an empty diagram becomes the one-point diagram made of the
    diagonal point (0,0), which then has index 0. -/
def placeholder [Zero α] : List (α × α) → List (α × α)
  | [] => [(0, 0)]
  | a :: t => a :: t

/-! ### the checker -/

/-- indices in range `[-1, M)` resp. `[-1, N)`, and not the row (−1, −1) -/
def inRange (M N : Nat) (i j : Int) : Bool :=
  decide (-1 ≤ i) && decide (i < (M : Int)) && decide (-1 ≤ j) && decide (j < (N : Int))
    && !(i == -1 && j == -1)

/-- the cost the statement prescribes for a row `(i, j)`; `none` for a malformed row
    (index out of range, or both −1).  `c` pair cost, `u`/`v` diagonal cost of the first/second
    diagram's points, all by index. -/
def expected (M N : Nat) (c : Fin M → Fin N → α) (u : Fin M → α) (v : Fin N → α) (i j : Int) :
    Option α :=
  if hi : 0 ≤ i ∧ i < (M : Int) then
    if hj : 0 ≤ j ∧ j < (N : Int) then some (c ⟨i.toNat, by omega⟩ ⟨j.toNat, by omega⟩)
    else if j = -1 then some (u ⟨i.toNat, by omega⟩) else none
  else if i = -1 then
    if hj : 0 ≤ j ∧ j < (N : Int) then some (v ⟨j.toNat, by omega⟩) else none
  else none

/-- structure: every row well-formed; every `k < M` is the first entry of exactly one row and every
    `k < N` the second entry of exactly one row -/
def structOk (M N : Nat) (rows : List (Row α)) : Bool :=
  rows.all (fun r => inRange M N r.i r.j)
    && (List.range M).all (fun k => rows.countP (fun r => r.i == (k : Int)) == 1)
    && (List.range N).all (fun k => rows.countP (fun r => r.j == (k : Int)) == 1)

/-- third entries: exactly the prescribed cost -/
def costsExact [DecidableEq α] (M N : Nat) (c : Fin M → Fin N → α) (u : Fin M → α) (v : Fin N → α)
    (rows : List (Row α)) : Bool :=
  rows.all (fun r => decide (expected M N c u v r.i r.j = some r.cost))

/-- the checker on index level -/
def checkCore [DecidableEq α] (M N : Nat) (c : Fin M → Fin N → α) (u : Fin M → α) (v : Fin N → α)
    (rows : List (Row α)) : Bool :=
  structOk M N rows && costsExact M N c u v rows

/-- `|x|` with core classes only (`max x (-x)`; this is Mathlib's `|x|` on a linear order) -/
def absM [Max α] [Neg α] (x : α) : α := max x (-x)

/-- deviations `|cost − prescribed cost|` of the well-formed rows (for `Float`, where `==` on third
    entries is too strict for the Euclidean costs) -/
def costDevs [Sub α] [Neg α] [Max α] (M N : Nat) (c : Fin M → Fin N → α) (u : Fin M → α)
    (v : Fin N → α) (rows : List (Row α)) : List α :=
  rows.filterMap fun r => (expected M N c u v r.i r.j).map fun e => absM (r.cost - e)

/-- the largest deviation (0 for no rows) -/
def maxDev [Sub α] [Neg α] [Max α] [Zero α] (M N : Nat) (c : Fin M → Fin N → α) (u : Fin M → α)
    (v : Fin N → α) (rows : List (Row α)) : α :=
  (costDevs M N c u v rows).foldl max 0

/-- the largest third entry; a list without rows has none (never the default 0) -/
def rowsMax [Max α] : List (Row α) → Option α
  | [] => none
  | r :: rs => some (rs.foldl (fun acc x => max acc x.cost) r.cost)

/-- the sum of the third entries -/
def rowsSum [Add α] [Zero α] (rows : List (Row α)) : α := rows.foldl (fun acc r => acc + r.cost) 0

section Diagrams
variable (pairCost : α × α → α × α → α) (diagCost : α × α → α)

/-- index-level cost functions of two diagrams -/
def cOf (S T : List (α × α)) : Fin S.length → Fin T.length → α := fun i j => pairCost S[i] T[j]
def uOf (S : List (α × α)) : Fin S.length → α := fun i => diagCost S[i]

/-- **the certificate checker** (exact version): the rows are a partial matching of the
    placeholder-adjusted diagrams and each third entry is the cost of its pairing. -/
def checkRows [DecidableEq α] [Zero α] (S T : List (α × α)) (rows : List (Row α)) : Bool :=
  checkCore (placeholder S).length (placeholder T).length
    (cOf pairCost (placeholder S) (placeholder T)) (uOf diagCost (placeholder S))
    (uOf diagCost (placeholder T)) rows

/-- structural part only (no arithmetic) -/
def checkRowsStruct [Zero α] (S T : List (α × α)) (rows : List (Row α)) : Bool :=
  structOk (placeholder S).length (placeholder T).length rows

/-- deviation version: the largest `|third entry − prescribed cost|` -/
def checkRowsDev [Sub α] [Neg α] [Max α] [Zero α] (S T : List (α × α)) (rows : List (Row α)) : α :=
  maxDev (placeholder S).length (placeholder T).length
    (cOf pairCost (placeholder S) (placeholder T)) (uOf diagCost (placeholder S))
    (uOf diagCost (placeholder T)) rows

/-- bottleneck certificate: accepted rows whose largest third entry is the reported distance -/
def checkRowsBn [DecidableEq α] [Zero α] [Max α] (S T : List (α × α)) (rows : List (Row α))
    (dist : α) : Bool :=
  checkRows pairCost diagCost S T rows && decide (rowsMax rows = some dist)

/-- Wasserstein certificate (exact arithmetic): accepted rows whose third entries sum to the
    reported distance -/
def checkRowsWs [DecidableEq α] [Zero α] [Add α] (S T : List (α × α)) (rows : List (Row α))
    (dist : α) : Bool :=
  checkRows pairCost diagCost S T rows && decide (rowsSum rows = dist)

end Diagrams

/-! ### the two cost rules, with core classes only -/

/-- L∞ distance of two points: `np.maximum(|Sb - Tb|, |Sd - Td|)` -/
def linfM [Sub α] [Neg α] [Max α] (p q : α × α) : α := max (absM (p.1 - q.1)) (absM (p.2 - q.2))

/-- L∞ distance to the diagonal: `0.5 * (d - b)` -/
def diagInfM [Sub α] [Div α] [OfNat α 2] (p : α × α) : α := (p.2 - p.1) / 2

/-- Euclidean distance of two points (`sqrt` is a parameter) -/
def euclidM [Sub α] [Add α] [Mul α] (sqrt : α → α) (p q : α × α) : α :=
  sqrt ((p.1 - q.1) * (p.1 - q.1) + (p.2 - q.2) * (p.2 - q.2))

/-- Euclidean distance to the diagonal: `(d - b)/√2` -/
def diagL2M [Sub α] [Div α] [OfNat α 2] (sqrt : α → α) (p : α × α) : α := (p.2 - p.1) / sqrt 2

/-- the instance the driver runs for `cert.rows.bn`: exact rationals (every finite float is one),
    L∞ / `(d-b)/2` costs, largest third entry equal to the reported distance -/
def checkBnRat (S T : List (Rat × Rat)) (rows : List (Row Rat)) (dist : Rat) : Bool :=
  checkRowsBn linfM diagInfM S T rows dist

/-! ### the augmented matrix (`none` = `np.inf`) and the two extraction loops -/

/-- the `(M+N) × (M+N)` matrix of both routines for diagrams `S`, `T` (already placeholder-adjusted):
    upper left pair costs; upper right / lower left diagonal costs on the diagonal of the block and ∞
    elsewhere; lower right zeros; `none` outside the matrix. -/
def augD [Zero α] (pairCost : α × α → α × α → α) (diagCost : α × α → α) (S T : List (α × α))
    (i j : Nat) : Option α :=
  if i < S.length then
    if j < T.length then
      match S[i]?, T[j]? with
      | some s, some t => some (pairCost s t)
      | _, _ => none
    else if j = T.length + i then S[i]?.map diagCost else none
  else if i < S.length + T.length then
    if j < T.length then (if i = S.length + j then T[j]?.map diagCost else none)
    else if j < T.length + S.length then some 0 else none
  else none

/-- the entry the assignment selects in row `i`: `D[i, σ[i]]` (`none`: ∞, or `σ` too short) -/
def selected (D : Nat → Nat → Option α) (σ : List Nat) (i : Nat) : Option α := σ[i]?.bind (D i)

/-- one iteration of the bottleneck loop: `none` = the code would fail / produce a non-finite row
    (σ too short, entry ∞); `some []` = the row is skipped (`continue`) -/
def bnStep (M N : Nat) (D : Nat → Nat → Option α) (σ : List Nat) (i : Nat) : Option (List (Row α)) :=
  match σ[i]? with
  | none => none
  | some j =>
    match D i j with
    | none => none
    | some d =>
      if i < M then
        some [⟨(i : Int), if j ≥ N then -1 else (j : Int), d⟩]
      else if j ≥ N then some []
      else some [⟨-1, (j : Int), d⟩]

/-- bottleneck: `for i in range(M+N)` -/
def extractRowsBn (M N : Nat) (D : Nat → Nat → Option α) (σ : List Nat) : Option (List (Row α)) :=
  ((List.range (M + N)).mapM (bnStep M N D σ)).map List.flatten

/-- Wasserstein, first pass, one row: `(i, σ[i], D[i, σ[i]])` -/
def wsStep (D : Nat → Nat → Option α) (σ : List Nat) (i : Nat) : Option (Row α) :=
  match σ[i]? with
  | none => none
  | some j => (D i j).map fun d => (⟨(i : Int), (j : Int), d⟩ : Row α)

/-- Wasserstein, first pass: all rows (`matchi = arange(M+N)` is the contract of
    `linear_sum_assignment` on a square matrix) -/
def wsRaw (M N : Nat) (D : Nat → Nat → Option α) (σ : List Nat) : Option (List (Row α)) :=
  (List.range (M + N)).mapM (wsStep D σ)

/-- second pass: `ret[ret[:,0] >= M, 0] = -1; ret[ret[:,1] >= N, 1] = -1` -/
def wsRewrite (M N : Nat) (r : Row α) : Row α :=
  ⟨if r.i ≥ (M : Int) then -1 else r.i, if r.j ≥ (N : Int) then -1 else r.j, r.cost⟩

/-- Wasserstein: all rows, re-indexed, rows with `i + j = -2` dropped -/
def extractRowsWs (M N : Nat) (D : Nat → Nat → Option α) (σ : List Nat) : Option (List (Row α)) :=
  (wsRaw M N D σ).map fun raw => ((raw.map (wsRewrite M N)).filter fun r => r.i + r.j != -2)

/-- `matchdist = np.sum(D[matchi, matchj])` -/
def selectedSum [Add α] [Zero α] (M N : Nat) (D : Nat → Nat → Option α) (σ : List Nat) : Option α :=
  (wsRaw M N D σ).map rowsSum

/-! ### the two entry points of each routine, as far as C06 is concerned: the distance component is
    computed before (and without looking at) the flag -/

/-- `return bdist, np.array(matchidx)` vs `return bdist` -/
def bnReturn (matching : Bool) (bdist : α) (M N : Nat) (D : Nat → Nat → Option α) (σ : List Nat) :
    α × Option (Option (List (Row α))) :=
  if matching then (bdist, some (extractRowsBn M N D σ)) else (bdist, none)

/-- `return matchdist, ret` vs `return matchdist` -/
def wsReturn [Add α] [Zero α] (matching : Bool) (M N : Nat) (D : Nat → Nat → Option α) (σ : List Nat) :
    Option α × Option (Option (List (Row α))) :=
  let matchdist := selectedSum M N D σ
  if matching then (matchdist, some (extractRowsWs M N D σ)) else (matchdist, none)

end
end PersimVerif.Rows
