import Mathlib.Data.Fintype.Basic
import Mathlib.Data.Fintype.Option
import Mathlib.Algebra.BigOperators.Group.Finset.Basic
import Mathlib.Algebra.Order.Field.Basic
import Mathlib.Order.Lattice

/-!
# Specification shared by C01 / C02 / C06 / C07: partial matchings between two diagrams

A diagram is a list of points `(b, d)`; its index type is `Fin S.length`, so repeated points are
distinct indices (multiplicity is respected).  A *partial matching* pairs some points of `S` with
distinct points of `T`; every unpaired point (of either side) goes to the diagonal.

The specification is independent of any algorithm: no augmented matrix, no search.
-/
namespace PersimVerif.Spec

/-- a partial matching between index types `M` and `N` (an injective partial map with its inverse) -/
structure PM (M N : Type) where
  f : M → Option N
  g : N → Option M
  fg : ∀ i j, f i = some j ↔ g j = some i

namespace PM
variable {M N : Type}

/-- the empty matching: everything goes to the diagonal -/
def empty : PM M N := ⟨fun _ => none, fun _ => none, by simp⟩

/-- the reversed matching -/
def symm (p : PM M N) : PM N M := ⟨p.g, p.f, fun j i => (p.fg i j).symm⟩

variable {K : Type}

/-- cost paid by row `i`: the pair cost if matched, the diagonal cost otherwise -/
def rowCost (p : PM M N) (c : M → N → K) (u : M → K) (i : M) : K :=
  match p.f i with
  | some j => c i j
  | none => u i

/-- cost paid by an *unmatched* column `j` (a matched column is paid for by its row) -/
def colCost [Zero K] (p : PM M N) (v : N → K) (j : N) : K :=
  match p.g j with
  | some _ => 0
  | none => v j

/-- every pairing of the matching costs at most `d` (and `0 ≤ d`: the cost of "no pairing at all",
    which only matters when both diagrams are empty — all costs of proper diagrams are ≥ 0) -/
def MaxLE [LE K] [Zero K] (p : PM M N) (c : M → N → K) (u : M → K) (v : N → K) (d : K) : Prop :=
  0 ≤ d ∧ (∀ i, p.rowCost c u i ≤ d) ∧ (∀ j, p.g j = none → v j ≤ d)

/-- total cost of the matching -/
def sumCost [AddCommMonoid K] [Fintype M] [Fintype N] (p : PM M N) (c : M → N → K) (u : M → K)
    (v : N → K) : K :=
  (∑ i, p.rowCost c u i) + ∑ j, p.colCost v j

end PM

/-- `d` is the bottleneck (min–max) cost: some partial matching has all its pairings within `d`,
    and `d` is the least such bound.  Equivalently `d = min over partial matchings of the largest
    pairing cost` (with the empty maximum read as `0`). -/
structure IsBottleneck {M N K : Type} [LinearOrder K] [Zero K] (c : M → N → K) (u : M → K) (v : N → K)
    (d : K) : Prop where
  attained : ∃ p : PM M N, p.MaxLE c u v d
  least : ∀ (p : PM M N) (d' : K), p.MaxLE c u v d' → d ≤ d'

/-- `w` is the Wasserstein (min–sum) cost -/
structure IsMinSum {M N K : Type} [AddCommMonoid K] [LinearOrder K] [Fintype M] [Fintype N]
    (c : M → N → K) (u : M → K) (v : N → K) (w : K) : Prop where
  attained : ∃ p : PM M N, p.sumCost c u v = w
  least : ∀ p : PM M N, w ≤ p.sumCost c u v

section Costs
variable {K : Type} [Field K] [LinearOrder K]

/-- L∞ distance between two diagram points -/
def linf (p q : K × K) : K := max |p.1 - q.1| |p.2 - q.2|

/-- L∞ distance of `(b,d)` to the diagonal: `(d-b)/2` -/
def diagInf (p : K × K) : K := (p.2 - p.1) / 2

end Costs

/-- index-level cost functions of two diagrams given as lists -/
abbrev Idx {K : Type} (S : List (K × K)) := Fin S.length

end PersimVerif.Spec
