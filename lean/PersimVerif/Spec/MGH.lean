import PersimVerif.Model.MGH
import Mathlib.Data.Nat.Dist
import Mathlib.Data.Fintype.Pi
import Mathlib.Data.Fintype.Prod
import Mathlib.Data.Finset.Lattice.Fold
import Mathlib.Order.Fin.Basic
import Mathlib.Algebra.Order.Field.Rat

/-!
# Specification for C05: distortion, minimum distortion, (twice) the modified Gromov–Hausdorff distance

Independent of the algorithm: a metric space on `n` points is its distance function
`Fin n → Fin n → ℕ`; maps are *all* total functions `Fin n → Fin m`.

  `dis DX DY f   = max_{x,x'} |DX x x' − DY (f x) (f x')|`
  `minDis DX DY  = min_{f : X → Y} dis f`
  `mGH2 DX DY    = max (minDis DX DY) (minDis DY DX)`           ( = 2 · mGH(X, Y) )
  `mGH DX DY     = mGH2 / 2 : ℚ`

`Assignable v u d` is the injective assignment problem of `check_assignment_feasibility`:
an injection `σ` of the index set of `v` into that of `u` with `|v k − u (σ k)| < d` for all `k`.

The only contact with the model is `matFn`, the reading of a `List (List ℕ)` matrix as a function,
and `DistMat`, the statement that such a matrix is the distance matrix of a metric space with
positive integer distances (what BFS on a connected simple graph produces; the triangle inequality
is not needed by any theorem).
-/
namespace PersimVerif.MGHSpec

variable {n m : ℕ}

/-- distortion of a map -/
def dis (DX : Fin n → Fin n → ℕ) (DY : Fin m → Fin m → ℕ) (f : Fin n → Fin m) : ℕ :=
  Finset.univ.sup fun p : Fin n × Fin n => Nat.dist (DX p.1 p.2) (DY (f p.1) (f p.2))

/-- smallest distortion of a map `X → Y` (`Y` non-empty) -/
def minDis [NeZero m] (DX : Fin n → Fin n → ℕ) (DY : Fin m → Fin m → ℕ) : ℕ :=
  Finset.univ.inf' Finset.univ_nonempty (dis DX DY)

/-- twice the modified Gromov–Hausdorff distance -/
def mGH2 [NeZero n] [NeZero m] (DX : Fin n → Fin n → ℕ) (DY : Fin m → Fin m → ℕ) : ℕ :=
  max (minDis DX DY) (minDis DY DX)

/-- the modified Gromov–Hausdorff distance -/
def mGH [NeZero n] [NeZero m] (DX : Fin n → Fin n → ℕ) (DY : Fin m → Fin m → ℕ) : ℚ :=
  (mGH2 DX DY : ℚ) / 2

/-- injective assignment with all differences `< d` -/
def Assignable {ι κ : Type*} (v : ι → ℕ) (u : κ → ℕ) (d : ℕ) : Prop :=
  ∃ σ : ι → κ, Function.Injective σ ∧ ∀ k, Nat.dist (v k) (u (σ k)) < d

/-- the same for vectors given as lists -/
def AssignableList (v u : List ℕ) (d : ℕ) : Prop :=
  Assignable (fun k : Fin v.length => v[k]) (fun l : Fin u.length => u[l]) d

/-- two spaces are isometric (for graphs: the graphs are isomorphic) -/
def Isometric (DX : Fin n → Fin n → ℕ) (DY : Fin m → Fin m → ℕ) : Prop :=
  ∃ e : Fin n ≃ Fin m, ∀ a b, DY (e a) (e b) = DX a b

/-! ### basic API -/

theorem le_dis (DX : Fin n → Fin n → ℕ) (DY : Fin m → Fin m → ℕ) (f : Fin n → Fin m) (a b : Fin n) :
    Nat.dist (DX a b) (DY (f a) (f b)) ≤ dis DX DY f :=
  Finset.le_sup (f := fun p : Fin n × Fin n => Nat.dist (DX p.1 p.2) (DY (f p.1) (f p.2)))
    (Finset.mem_univ (a, b))

theorem dis_le_iff {DX : Fin n → Fin n → ℕ} {DY : Fin m → Fin m → ℕ} {f : Fin n → Fin m} {c : ℕ} :
    dis DX DY f ≤ c ↔ ∀ a b, Nat.dist (DX a b) (DY (f a) (f b)) ≤ c := by
  simp [dis, Finset.sup_le_iff]

theorem minDis_le [NeZero m] (DX : Fin n → Fin n → ℕ) (DY : Fin m → Fin m → ℕ) (f : Fin n → Fin m) :
    minDis DX DY ≤ dis DX DY f :=
  Finset.inf'_le _ (Finset.mem_univ f)

theorem le_minDis_iff [NeZero m] {DX : Fin n → Fin n → ℕ} {DY : Fin m → Fin m → ℕ} {c : ℕ} :
    c ≤ minDis DX DY ↔ ∀ f, c ≤ dis DX DY f := by
  simp [minDis, Finset.le_inf'_iff]

theorem exists_minDis [NeZero m] (DX : Fin n → Fin n → ℕ) (DY : Fin m → Fin m → ℕ) :
    ∃ f, dis DX DY f = minDis DX DY := by
  obtain ⟨f, _, hf⟩ := Finset.exists_mem_eq_inf' (Finset.univ_nonempty (α := Fin n → Fin m)) (dis DX DY)
  exact ⟨f, hf.symm⟩

/-! ### matrices as functions -/

/-- a list-of-rows matrix read as a function on `Fin n` -/
def matFn (D : MGH.Mat) (n : ℕ) : Fin n → Fin n → ℕ := fun i j => MGH.ent D i j

/-- `D` is the distance matrix of an `n`-point metric space with positive integer distances -/
structure DistMat (D : MGH.Mat) (n : ℕ) : Prop where
  len : D.length = n
  row : ∀ r ∈ D, r.length = n
  symm : ∀ i j, i < n → j < n → MGH.ent D i j = MGH.ent D j i
  zero_iff : ∀ i j, i < n → j < n → (MGH.ent D i j = 0 ↔ i = j)

end PersimVerif.MGHSpec
