import PersimVerif.Drv.Util
import PersimVerif.Drv.Imager
import PersimVerif.Model.Transformers
/-!
  driver commands for C18 (models at `Rat`):

    imgT.hist [b0,b1] [p0,p1] ps <calls>
        calls = the C12 ops plus `[tr,<skew>,s|c,<data>]` (transform), `[ft,<skew>,s|c,<data>]` (fit_transform)
        → per call `[ [b0,…,ry], out ]`, out = `none` | `[image,<desc>]` | `[images,[<desc>,…]]`,
          desc = `[zeros,rx,ry]` | `[img,rx,ry,<skew>,<dgm>]` (which diagram, under which geometry, the
          image is the image of — pixel content is abstract here); a rejected call ends the list with `err:Kind`
    lsc.hist homDeg start|none stop|none numSteps flatten <calls>
        calls = `[ss,v|none] [st,v|none] [ns,n] [fl,T|F] [hd,k] [fit,X] [tr,X] [ft,X]`
        → first the constructed state, then per call `[start,stop,startFixed,stopFixed,numSteps,flatten,homDeg,res]`,
          res = `ok` | `err:IndexError` | `err:ValueError` | `[out,start,stop,numSteps,homDeg,flattened]`
          (the arguments PersLandscapeApprox is called with)
    lsc.old <fits>     the pre-fix `fit` on a fresh object: `[start,stop]` after each fit
-/
namespace PersimVerif.Drv.Transformers
open PersimVerif Val PersimVerif.Drv PersimVerif.Imager PersimVerif.Transformers
open PersimVerif.Drv.Imager (errVal stateFields inputOf? opOf? optRatVal)

def imgDesc (s : State Rat) (skew : Bool) (d : Dgm Rat) : Val :=
  .list [.str "img", ofInt s.rx, ofInt s.ry, ofBool skew, ofRatPairs d]

def zerosDesc (rx ry : Int) : Val := .list [.str "zeros", ofInt rx, ofInt ry]

def outVal : Option (Output Val) → Val
  | none => .str "none"
  | some (.image i) => .list [.str "image", i]
  | some (.images l) => .list [.str "images", .list l]

def icallOf? : Val → Option (ICall Rat)
  | .list [.str "tr", sk, kind, data] => do pure (.transform (← asBool? sk) (← inputOf? kind data))
  | .list [.str "ft", sk, kind, data] => do pure (.fitTransform (← asBool? sk) (← inputOf? kind data))
  | v => (opOf? v).map ICall.cfg

def itrajectory (s : State Rat) (cs : List (ICall Rat)) (acc : List Val) : List Val :=
  match cs with
  | [] => acc.reverse
  | c :: rest =>
    match icall Rat.ceil imgDesc zerosDesc id s c with
    | .error e => (errVal e :: acc).reverse
    | .ok (s', o) => itrajectory s' rest (.list [.list (stateFields s'), outVal o] :: acc)

def lstateVal (s : LState Rat) (res : Val) : Val :=
  .list [optRatVal s.start, optRatVal s.stop, ofBool s.startFixed, ofBool s.stopFixed,
         ofInt s.numSteps, ofBool s.flatten, ofInt s.homDeg, res]

def approxDesc (_X : List (Dgm Rat)) (st sp : Option Rat) (n k : Int) : Val :=
  .list [.str "out", optRatVal st, optRatVal sp, ofInt n, ofInt k, ofBool false]

def flatDesc : Val → Val
  | .list [o, st, sp, n, k, _] => .list [o, st, sp, n, k, ofBool true]
  | v => v

def lerrVal : LErr → Val
  | .indexError => err "IndexError"
  | .valueError => err "ValueError"

def dgmsOf? : Val → Option (List (Dgm Rat)) := listOf? ratDgm?

def lcallOf? : Val → Option (LCall Rat)
  | .list [.str "ss", v] => do pure (.setStart (← optOf? asRat? v))
  | .list [.str "st", v] => do pure (.setStop (← optOf? asRat? v))
  | .list [.str "ns", n] => do pure (.setNumSteps (← asInt? n))
  | .list [.str "fl", b] => do pure (.setFlatten (← asBool? b))
  | .list [.str "hd", k] => do pure (.setHomDeg (← asInt? k))
  | .list [.str "fit", X] => do pure (.fit (← dgmsOf? X))
  | .list [.str "tr", X] => do pure (.transform (← dgmsOf? X))
  | .list [.str "ft", X] => do pure (.fitTransform (← dgmsOf? X))
  | _ => none

/-- mirrors `lrun`: a call that raises leaves the state and the history goes on -/
def ltrajectory (s : LState Rat) (cs : List (LCall Rat)) (acc : List Val) : List Val :=
  match cs with
  | [] => acc.reverse
  | c :: rest =>
    match lcall approxDesc flatDesc s c with
    | .error e => ltrajectory s rest (lstateVal s (lerrVal e) :: acc)
    | .ok (s', o) => ltrajectory s' rest (lstateVal s' (o.getD (.str "ok")) :: acc)

def oldTrajectory (s : LState Rat) (Xs : List (List (Dgm Rat))) (acc : List Val) : List Val :=
  match Xs with
  | [] => acc.reverse
  | X :: rest =>
    match lfitOld s X with
    | .error e => oldTrajectory s rest (lerrVal e :: acc)
    | .ok s' => oldTrajectory s' rest (.list [optRatVal s'.start, optRatVal s'.stop] :: acc)

def handle : Handler
  | "imgT.hist", [br, pr, ps, calls] => do
    let (b0, b1) ← pairOf? asRat? br
    let (p0, p1) ← pairOf? asRat? pr
    let ps ← asRat? ps
    let cs ← listOf? icallOf? calls
    match ctor Rat.ceil b0 b1 p0 p1 ps with
    | .error e => pure (.list [errVal e])
    | .ok s => pure (.list (itrajectory s cs [.list [.list (stateFields s), .str "none"]]))
  | "lsc.hist", [hd, st, sp, ns, fl, calls] => do
    let s : LState Rat := lctor (← asInt? hd) (← optOf? asRat? st) (← optOf? asRat? sp) (← asInt? ns) (← asBool? fl)
    let cs ← listOf? lcallOf? calls
    pure (.list (ltrajectory s cs [lstateVal s (.str "ok")]))
  | "lsc.old", [fits] => do
    let Xs ← listOf? dgmsOf? fits
    pure (.list (oldTrajectory (lctor 0 none none 500 false) Xs []))
  | _, _ => none

end PersimVerif.Drv.Transformers
