import PersimVerif.Drv.Util
import PersimVerif.Drv.Imager
import PersimVerif.Model.Transformers
/-!
  driver commands for C18 (models at `Rat`):

    imgT.hist [b0,b1] [p0,p1] ps <calls>
        calls = the C12 ops plus `[tr,<skew>,s|c,<data>]` (transform), `[ft,<skew>,s|c,<data>]` (fit_transform)
        → per call `[ [b0,…,ry], out ]`, out = `none` | `[image,<desc>]` | `[images,[<desc>,…]]`,
          desc = `[zeros,rx,ry]` | `[img,rx,ry,<skew>,<dgm>]` (which diagram, under which geometry, the
          image is the image of — pixel content is abstract here); a rejected call ends the list with `err:Kind`
    lsc.hist homDeg start|none stop|none numSteps flatten <calls>
        calls = `[ss,v|none] [st,v|none] [ns,n] [fl,T|F] [hd,k] [fit,X] [tr,X] [ft,X] [cl] [spg]`
        (`cl` = the object is replaced by `sklearn.base.clone(obj)`, `spg` = `set_params(**get_params())`);
        coordinates of `X` may be `inf`, `-inf`, `nan` (the type `XR` below; `fin` = "is a rational")
        → first the constructed state, then per call `[start,stop,startFixed,stopFixed,numSteps,flatten,homDeg,res]`,
          res = `ok` | `err:IndexError` | `err:ValueError` | `[out,start,stop,numSteps,homDeg,flattened]`
          (the arguments PersLandscapeApprox is called with)
    lsc.old <fits>     the pre-fix `fit` on a fresh object: `[start,stop]` after each fit

  The states of both trajectories are computed by `irun` / `lrun` on the prefixes of the history — the
  functions the C18 theorems are about — and the outputs by `icall` / `lcall` from those states; the
  driver has no loop of its own over the state.
-/
namespace PersimVerif.Drv.Transformers
open PersimVerif Val PersimVerif.Drv PersimVerif.Imager PersimVerif.Transformers
open PersimVerif.Drv.Imager (errVal stateFields inputOf? opOf? optRatVal)

def imgDesc (s : State Rat) (skew : Bool) (d : Dgm Rat) : Val :=
  .list [.str "img", ofInt s.rx, ofInt s.ry, ofBool skew, ofRatPairs d]

def zerosDesc (rx ry : Int) : Val := .list [.str "zeros", ofInt rx, ofInt ry]

def outVal : Option (Output Val) → Val
  | none => .str "none"
  | some (.image i) => .list [.str "image", i]
  | some (.images l) => .list [.str "images", .list l]

def icallOf? : Val → Option (ICall Rat)
  | .list [.str "tr", sk, kind, data] => do pure (.transform (← asBool? sk) (← inputOf? kind data))
  | .list [.str "ft", sk, kind, data] => do pure (.fitTransform (← asBool? sk) (← inputOf? kind data))
  | v => (opOf? v).map ICall.cfg

/-- entry `k+1 …` of the trajectory: the state is `irun … s0 (first k+1 calls)`, the output is what
    `icall` returns from `irun … s0 (first k calls)`; the first exception ends the list -/
def itrajectory (s0 : State Rat) (cs : List (ICall Rat)) : Nat → Nat → List Val → List Val
  | 0, _, acc => acc.reverse
  | fuel + 1, k, acc =>
    match cs[k]?, irun Rat.ceil imgDesc zerosDesc id s0 (cs.take k) with
    | some c, .ok s =>
      match icall Rat.ceil imgDesc zerosDesc id s c, irun Rat.ceil imgDesc zerosDesc id s0 (cs.take (k + 1)) with
      | .ok (_, o), .ok s' => itrajectory s0 cs fuel (k + 1) (.list [.list (stateFields s'), outVal o] :: acc)
      | .error e, _ => (errVal e :: acc).reverse
      | _, .error e => (errVal e :: acc).reverse
    | _, _ => acc.reverse

/-- landscaper coordinates: rationals, ±∞ and NaN as they arrive from NumPy; `<` as IEEE (false with NaN) -/
inductive XR where
  | fin (r : Rat)
  | pinf
  | ninf
  | nan
  deriving DecidableEq

def XR.lt : XR → XR → Bool
  | .fin a, .fin b => decide (a < b)
  | .ninf, .fin _ => true
  | .ninf, .pinf => true
  | .fin _, .pinf => true
  | _, _ => false

instance : LT XR := ⟨fun a b => XR.lt a b = true⟩
instance : DecidableLT XR := fun a b => inferInstanceAs (Decidable (XR.lt a b = true))

/-- `np.isfinite` -/
def XR.isFin : XR → Bool
  | .fin _ => true
  | _ => false

def asXR? : Val → Option XR
  | .num r => some (.fin r)
  | .inf neg => some (if neg then .ninf else .pinf)
  | .nan => some .nan
  | _ => none

def xrVal : XR → Val
  | .fin r => .num r
  | .pinf => .inf false
  | .ninf => .inf true
  | .nan => .nan

def optXRVal : Option XR → Val
  | none => .str "none"
  | some x => xrVal x

def lstateVal (s : LState XR) (res : Val) : Val :=
  .list [optXRVal s.start, optXRVal s.stop, ofBool s.startFixed, ofBool s.stopFixed,
         ofInt s.numSteps, ofBool s.flatten, ofInt s.homDeg, res]

def approxDesc (_X : List (Dgm XR)) (st sp : Option XR) (n k : Int) : Val :=
  .list [.str "out", optXRVal st, optXRVal sp, ofInt n, ofInt k, ofBool false]

def flatDesc : Val → Val
  | .list [o, st, sp, n, k, _] => .list [o, st, sp, n, k, ofBool true]
  | v => v

def lerrVal : LErr → Val
  | .indexError => err "IndexError"
  | .valueError => err "ValueError"

def dgmsOf? : Val → Option (List (Dgm XR)) := listOf? (dgmOf? asXR?)

def lcallOf? : Val → Option (LCall XR)
  | .list [.str "ss", v] => do pure (.setStart (← optOf? asXR? v))
  | .list [.str "st", v] => do pure (.setStop (← optOf? asXR? v))
  | .list [.str "ns", n] => do pure (.setNumSteps (← asInt? n))
  | .list [.str "fl", b] => do pure (.setFlatten (← asBool? b))
  | .list [.str "hd", k] => do pure (.setHomDeg (← asInt? k))
  | .list [.str "fit", X] => do pure (.fit (← dgmsOf? X))
  | .list [.str "tr", X] => do pure (.transform (← dgmsOf? X))
  | .list [.str "ft", X] => do pure (.fitTransform (← dgmsOf? X))
  | .list [.str "cl"] => some .clone
  | .list [.str "spg"] => some .setParamsFromGet
  | _ => none

/-- entry `k+1` of the trajectory: the state is `lrun … s0 (first k+1 calls)` (a call that raises leaves
    the state and the history goes on), the result is what `lcall` returns from `lrun … s0 (first k calls)` -/
def ltrajectory (s0 : LState XR) (cs : List (LCall XR)) : Nat → Nat → List Val → List Val
  | 0, _, acc => acc.reverse
  | fuel + 1, k, acc =>
    match cs[k]? with
    | none => acc.reverse
    | some c =>
      let s' := lrun XR.isFin approxDesc flatDesc s0 (cs.take (k + 1))
      let res := match lcall XR.isFin approxDesc flatDesc (lrun XR.isFin approxDesc flatDesc s0 (cs.take k)) c with
        | .error e => lerrVal e
        | .ok (_, o) => o.getD (.str "ok")
      ltrajectory s0 cs fuel (k + 1) (lstateVal s' res :: acc)

def oldTrajectory (s : LState XR) (Xs : List (List (Dgm XR))) (acc : List Val) : List Val :=
  match Xs with
  | [] => acc.reverse
  | X :: rest =>
    match lfitOld s X with
    | .error e => oldTrajectory s rest (lerrVal e :: acc)
    | .ok s' => oldTrajectory s' rest (.list [optXRVal s'.start, optXRVal s'.stop] :: acc)

def handle : Handler
  | "imgT.hist", [br, pr, ps, calls] => do
    let (b0, b1) ← pairOf? asRat? br
    let (p0, p1) ← pairOf? asRat? pr
    let ps ← asRat? ps
    let cs ← listOf? icallOf? calls
    match ctor Rat.ceil b0 b1 p0 p1 ps with
    | .error e => pure (.list [errVal e])
    | .ok s => pure (.list (itrajectory s cs cs.length 0 [.list [.list (stateFields s), .str "none"]]))
  | "lsc.hist", [hd, st, sp, ns, fl, calls] => do
    let s : LState XR := lctor (← asInt? hd) (← optOf? asXR? st) (← optOf? asXR? sp) (← asInt? ns) (← asBool? fl)
    let cs ← listOf? lcallOf? calls
    pure (.list (ltrajectory s cs cs.length 0 [lstateVal s (.str "ok")]))
  | "lsc.old", [fits] => do
    let Xs ← listOf? dgmsOf? fits
    pure (.list (oldTrajectory (lctor 0 none none 500 false) Xs []))
  | _, _ => none

end PersimVerif.Drv.Transformers
