import PersimVerif.Drv.Util
/-! driver commands: Transformers (stub until the model lands) -/
namespace PersimVerif.Drv.Transformers
open PersimVerif Val PersimVerif.Drv

def handle : Handler
  | _, _ => none

end PersimVerif.Drv.Transformers
