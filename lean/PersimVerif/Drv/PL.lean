import PersimVerif.Drv.Util
import PersimVerif.Drv.PLArith
/-! driver commands: PL — dispatcher.  C09's commands (`pla.*`) live in `Drv/PLArith.lean`; the C10
    handler (norms) is added here by the integrator on merge. -/
namespace PersimVerif.Drv.PL
open PersimVerif Val PersimVerif.Drv

def handle : Handler := fun op args => PLArith.handle op args

end PersimVerif.Drv.PL
