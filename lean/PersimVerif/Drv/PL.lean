import PersimVerif.Drv.Util
import PersimVerif.Drv.PNorm
/-! driver commands: PL (dispatcher; C10's norm operations live in `Drv/PNorm.lean`) -/
namespace PersimVerif.Drv.PL
open PersimVerif Val PersimVerif.Drv

def handle : Handler := fun op args => PNorm.handle op args

end PersimVerif.Drv.PL
