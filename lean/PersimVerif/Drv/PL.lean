import PersimVerif.Drv.Util
import PersimVerif.Drv.PLArith
import PersimVerif.Drv.PNorm
/-! driver commands: PL — dispatcher.  C09's commands (`pla.*`) live in `Drv/PLArith.lean`, C10's norm
    operations (`pl.pnorm*`, `pl.sup*`, …) in `Drv/PNorm.lean`. -/
namespace PersimVerif.Drv.PL
open PersimVerif Val PersimVerif.Drv

def handle : Handler := fun op args =>
  match PLArith.handle op args with
  | some v => some v
  | none => PNorm.handle op args

end PersimVerif.Drv.PL
