import PersimVerif.Drv.Util
/-! driver commands: PL (stub until the model lands) -/
namespace PersimVerif.Drv.PL
open PersimVerif Val PersimVerif.Drv

def handle : Handler
  | _, _ => none

end PersimVerif.Drv.PL
