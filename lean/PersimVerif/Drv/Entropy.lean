import PersimVerif.Drv.Util
import PersimVerif.Model.Entropy
/-! driver commands for C16:  `ent <keep_inf> <val_inf|none> <normalize> <dgms>` (model at `Float`) -/
namespace PersimVerif.Drv.Entropy
open PersimVerif Val PersimVerif.Drv

def handle : Handler
  | "ent", [k, v, n, d] => do
    let keep ← asBool? k
    let vinf ← optOf? asFloat? v
    let norm ← asBool? n
    let dgms ← listOf? (dgmOf? optFloat?) d
    match PersimVerif.Entropy.persistentEntropy Float.log Float.ofNat keep vinf norm dgms with
    | .ok es => pure (ofFloats es)
    | .error _ => pure (err "Exception")
  | _, _ => none

end PersimVerif.Drv.Entropy
