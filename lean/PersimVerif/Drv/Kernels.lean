import PersimVerif.Drv.Util
/-! driver commands: Kernels (stub until the model lands) -/
namespace PersimVerif.Drv.Kernels
open PersimVerif Val PersimVerif.Drv

def handle : Handler
  | _, _ => none

end PersimVerif.Drv.Kernels
