import PersimVerif.Drv.Util
import PersimVerif.Model.Kernels
import PersimVerif.Model.Erfc
/-!
driver commands for C13 (model of persim/images_kernels.py).  `x`, `y` are a number or a list of
numbers of equal length (the code broadcasts over arrays; the model is evaluated per point).

  `ker.uniform  x y mu0 mu1 w h`              model at `Rat`  (exact)
  `ker.uniformf x y mu0 mu1 w h`              model at `Float` (same IEEE operations in the same order)
  `ker.gauss    x y mu0 mu1 sxx syy sxy`      `gaussian` (dispatch + both branches) at `Float`
  `ker.sbvn     x y mu0 mu1 sxx syy`          `sbvn_cdf` at `Float`
  `ker.bvn      x y mu0 mu1 sxx syy sxy`      `bvn_cdf` at `Float`
  `ker.bvn_old  x y mu0 mu1 sxx syy sxy`      `bvn_cdf` before 378a266 (`asr > 100`) at `Float`
  `ker.bvn_oldtail …`                         `bvn_cdf` before 4b6a233 (unmasked `exp` in `ep1`) at `Float`
  `ker.ncdf     x`                            `norm_cdf` at `Float`
  `ker.glq      r`                            `gauss_legendre_quad`: rule chosen at `Float`, `[lg, w, x]` answered at `Rat` (exact digits)
-/
namespace PersimVerif.Drv.Kernels
open PersimVerif Val PersimVerif.Drv PersimVerif.Kernels

def piF : Float := 3.141592653589793

def Φf : Float → Float := PersimVerif.Erfc.normCdf

def bvnF := bvn Float.exp Float.sin Float.asin Float.sqrt Φf piF
def bvnOldF := bvnOld Float.exp Float.sin Float.asin Float.sqrt Φf piF
def bvnOldTailF := bvnOldTail Float.exp Float.sin Float.asin Float.sqrt Φf piF

/-- a scalar or a list of scalars -/
def vec? (f : Val → Option α) : Val → Option (List α × Bool)
  | .list xs => do pure (← xs.mapM f, true)
  | v => do pure ([← f v], false)

/-- evaluate `g` on the zipped points; scalar in → scalar out -/
def pointwise (f : Val → Option α) (out : β → Val) (xv yv : Val) (g : α → α → β) : Option Val := do
  let (xs, lx) ← vec? f xv
  let (ys, ly) ← vec? f yv
  if xs.length != ys.length then none
  else
    let vs := (xs.zip ys).map fun (x, y) => out (g x y)
    match lx || ly, vs with
    | false, [v] => pure v
    | _, _ => pure (.list vs)

def handle : Handler
  | "ker.uniform", [x, y, m0, m1, w, h] => do
    let m0 ← asRat? m0; let m1 ← asRat? m1; let w ← asRat? w; let h ← asRat? h
    if w * h == 0 then pure (err "ZeroDivision") else
    pointwise asRat? Val.num x y fun x y => uniform x y m0 m1 w h
  | "ker.uniformf", [x, y, m0, m1, w, h] => do
    let m0 ← asFloat? m0; let m1 ← asFloat? m1; let w ← asFloat? w; let h ← asFloat? h
    pointwise asFloat? Val.flt x y fun x y => uniform x y m0 m1 w h
  | "ker.gauss", [x, y, m0, m1, a, b, c] => do
    let m0 ← asFloat? m0; let m1 ← asFloat? m1; let a ← asFloat? a; let b ← asFloat? b; let c ← asFloat? c
    pointwise asFloat? Val.flt x y fun x y => gaussian Φf Float.sqrt bvnF x y m0 m1 a b c
  | "ker.sbvn", [x, y, m0, m1, a, b] => do
    let m0 ← asFloat? m0; let m1 ← asFloat? m1; let a ← asFloat? a; let b ← asFloat? b
    pointwise asFloat? Val.flt x y fun x y => sbvn Φf Float.sqrt x y m0 m1 a b
  | "ker.bvn", [x, y, m0, m1, a, b, c] => do
    let m0 ← asFloat? m0; let m1 ← asFloat? m1; let a ← asFloat? a; let b ← asFloat? b; let c ← asFloat? c
    pointwise asFloat? Val.flt x y fun x y => bvnF x y m0 m1 a b c
  | "ker.bvn_old", [x, y, m0, m1, a, b, c] => do
    let m0 ← asFloat? m0; let m1 ← asFloat? m1; let a ← asFloat? a; let b ← asFloat? b; let c ← asFloat? c
    pointwise asFloat? Val.flt x y fun x y => bvnOldF x y m0 m1 a b c
  | "ker.bvn_oldtail", [x, y, m0, m1, a, b, c] => do
    let m0 ← asFloat? m0; let m1 ← asFloat? m1; let a ← asFloat? a; let b ← asFloat? b; let c ← asFloat? c
    pointwise asFloat? Val.flt x y fun x y => bvnOldTailF x y m0 m1 a b c
  | "ker.ncdf", [x] => do
    let (xs, l) ← vec? asFloat? x
    let vs := xs.map fun x => Val.flt (Φf x)
    match l, vs with
    | false, [v] => pure v
    | _, _ => pure (.list vs)
  | "ker.glq", [r] => do
    -- the rule is chosen as the code chooses it (thresholds rounded to double); the tables are answered exactly
    let lg := (glRule (α := Float) (← asFloat? r)).lg
    let rule : GLRule Rat := if lg == 3 then gl3 else if lg == 6 then gl6 else gl10
    pure (.list [Val.ofNat rule.lg, Val.ofRats rule.w, Val.ofRats rule.x])
  | _, _ => none

end PersimVerif.Drv.Kernels
