import PersimVerif.Drv.Util
import PersimVerif.Model.Bottleneck
/-!
  driver commands for C01 (and the row extraction C06 reuses); everything runs at `Rat`.

    bn <dgm1> <dgm2>            → [value, warn1, warn2]     model with the built-in oracle, SELF-CERTIFIED:
                                   the answer is given only if `certOptB` accepts (perfect matching at the
                                   value + vertex cover below it), otherwise `err:Uncertified`
    bn.m <dgm1> <dgm2>          → [value, warn1, warn2, rows]   (`matching=True`)
    spec.bn <dgm1> <dgm2>       → the specification by exhaustive enumeration of partial matchings
                                   (finite parts of the diagrams; refuses M+N > 14 with `err:TooLarge`)
    thr <dgm1> <dgm2> <d>       → threshold graph of the model at `d` (adjacency lists)
    cands <dgm1> <dgm2>         → the candidate list `ds`
    cert.matching <graph> <pairs> <size>   → T iff `pairs` is a matching of `graph` with `size` pairs
    cert.cover <graph> <R> <C> <k>         → T iff (R, C) is a vertex cover of `graph` with |R|+|C| ≤ k
    cert.opt <dgm1> <dgm2> <d> <pairs> <pred|none> <R> <C>  → T iff `certOptB` accepts (see Model/Bottleneck)

  A diagram is `[[b,d],…]`, `d` may be `inf`/`-inf`/`nan` (dropped with the warning flag).
  The built-in oracle (Kuhn's augmenting paths) is NOT verified; that is why `bn` certifies its answer with
  the verified checkers — a wrong oracle can only produce `err:Uncertified`, never a wrong value.
-/
namespace PersimVerif.Drv.Bottleneck
open PersimVerif Val PersimVerif.Drv PersimVerif.Bottleneck

/-! ### built-in maximum matching (Kuhn) and König cover — untrusted, certified per use -/

partial def tryRow (g : Array (List Nat)) (i : Nat) (vis : Array Bool) (mc : Array (Option Nat)) :
    Bool × Array Bool × Array (Option Nat) :=
  go (g.getD i []) vis mc
where
  go : List Nat → Array Bool → Array (Option Nat) → Bool × Array Bool × Array (Option Nat)
    | [], vis, mc => (false, vis, mc)
    | j :: rest, vis, mc =>
      if vis.getD j true then go rest vis mc
      else
        let vis := vis.setIfInBounds j true
        match mc.getD j none with
        | none => (true, vis, mc.setIfInBounds j (some i))
        | some i' =>
          let (ok, vis, mc) := tryRow g i' vis mc
          if ok then (true, vis, mc.setIfInBounds j (some i)) else go rest vis mc

/-- number of columns mentioned by the graph (at least the number of rows) -/
def ncols (g : Graph) : Nat := g.foldl (fun a l => l.foldl (fun b j => max b (j + 1)) a) g.length

/-- column → matched row -/
def kuhnCols (g : Graph) : Array (Option Nat) := Id.run do
  let ga := g.toArray
  let nc := ncols g
  let mut mc : Array (Option Nat) := Array.replicate nc none
  for i in [0:ga.size] do
    let (_, _, mc') := tryRow ga i (Array.replicate nc false) mc
    mc := mc'
  return mc

def pairsOfCols (mc : Array (Option Nat)) : Matching :=
  let ps := (mc.toList.zipIdx).filterMap fun (o, j) => o.map fun i => (i, j)
  ps.mergeSort fun a b => a.1 ≤ b.1

/-- the oracle handed to the model -/
def kuhn (g : Graph) : Matching := pairsOfCols (kuhnCols g)

/-- König: rows not reachable + columns reachable by alternating paths from the unmatched rows -/
partial def koenig (g : Graph) (mc : Array (Option Nat)) : List Nat × List Nat :=
  let ga := g.toArray
  let n := ga.size
  let nc := mc.size
  let matchedRow : Array Bool := mc.foldl (fun a o => match o with | some i => a.setIfInBounds i true | none => a)
    (Array.replicate n false)
  let start := (List.range n).filter fun i => !(matchedRow.getD i false)
  let rec loop (work : List Nat) (zr zc : Array Bool) : Array Bool × Array Bool :=
    match work with
    | [] => (zr, zc)
    | i :: rest =>
      let (work', zr', zc') := (ga.getD i []).foldl (fun (acc : List Nat × Array Bool × Array Bool) j =>
        let (w, zr, zc) := acc
        if zc.getD j true then acc
        else
          let zc := zc.setIfInBounds j true
          match mc.getD j none with
          | some i' => if zr.getD i' true then (w, zr, zc) else (i' :: w, zr.setIfInBounds i' true, zc)
          | none => (w, zr, zc)) (rest, zr, zc)
      loop work' zr' zc'
  let zr0 := start.foldl (fun a i => a.setIfInBounds i true) (Array.replicate n false)
  let (zr, zc) := loop start zr0 (Array.replicate nc false)
  ((List.range n).filter fun i => !(zr.getD i false), (List.range nc).filter fun j => zc.getD j false)

/-! ### parsing / rendering -/

def death? : Val → Option (Option Rat)
  | .inf _ => some none
  | .nan => some none
  | v => (asRat? v).map some

def rawPoint? : Val → Option (Rat × Option Rat)
  | .list (a :: b :: _) => do pure (← asRat? a, ← death? b)
  | _ => none

/-- `[]` and `[[]]` are the empty diagram (`np.array([[]])` has size 0) -/
def rawDgm? : Val → Option (List (Rat × Option Rat))
  | .list [.list []] => some []
  | v => listOf? rawPoint? v

def ext? : Val → Option (Ext Rat)
  | .inf false => some .top
  | v => (asRat? v).map .fin

def ofExt : Ext Rat → Val
  | .fin r => .num r
  | .top => .inf false

def pairs? : Val → Option Matching := listOf? fun v => pairOf? asNat? v
def graph? : Val → Option Graph := listOf? (listOf? asNat?)
def nats? : Val → Option (List Nat) := listOf? asNat?

def ofRows (rows : List (Int × Int × Ext Rat)) : Val :=
  .list (rows.map fun r => .list [ofInt r.1, ofInt r.2.1, ofExt r.2.2])

/-! ### the specification, executable: exhaustive minimum over partial matchings -/

def rabs (x : Rat) : Rat := if x < 0 then -x else x
def specLinf (p q : Rat × Rat) : Rat := max (rabs (p.1 - q.1)) (rabs (p.2 - q.2))
def specDiag (p : Rat × Rat) : Rat := (p.2 - p.1) / 2

/-- all ways of removing one element: (element, rest) -/
def picks : List (Rat × Rat) → List ((Rat × Rat) × List (Rat × Rat))
  | [] => []
  | x :: r => (x, r) :: (picks r).map fun (y, r') => (y, x :: r')

/-- least over all partial matchings of the largest pairing cost (`cur` = largest so far) -/
def specGo : List (Rat × Rat) → List (Rat × Rat) → Rat → Rat
  | [], T, cur => T.foldl (fun a t => max a (specDiag t)) cur
  | s :: S, T, cur =>
    (picks T).foldl (fun best (t, T') => min best (specGo S T' (max cur (specLinf s t))))
      (specGo S T (max cur (specDiag s)))

def finitePart (d : List (Rat × Option Rat)) : List (Rat × Rat) :=
  d.filterMap fun p => p.2.map fun e => (p.1, e)

/-! ### self-certification of the model run -/

/-- the largest candidate strictly below `b` -/
def predOf (ds : List (Ext Rat)) (b : Ext Rat) : Option (Ext Rat) :=
  (ds.filter fun x => !(decide (b ≤ x))).getLast?

def certify (S T : List (Rat × Rat)) (b : Ext Rat) (mt : Matching) : Bool :=
  let S' := withPlaceholder S
  let T' := withPlaceholder T
  let n := S'.length + T'.length
  let D := augD S' T'
  let pred := predOf (candidates n D) b
  let (R, C) := match pred with
    | none => ([], [])
    | some d' => let g := thresholdGraph n D d'; koenig g (kuhnCols g)
  certOptB n D b mt pred R C

def handle : Handler
  | "bn", [a, b] => do
    let d1 ← rawDgm? a
    let d2 ← rawDgm? b
    match bottleneck kuhn d1 d2 with
    | none => pure (err "IndexError")
    | some r =>
      if certify (filterFinite d1).1 (filterFinite d2).1 r.value r.matching then
        pure (.list [ofExt r.value, ofBool r.warn1, ofBool r.warn2])
      else pure (err "Uncertified")
  | "bn.m", [a, b] => do
    let d1 ← rawDgm? a
    let d2 ← rawDgm? b
    match bottleneckWithMatching kuhn d1 d2 with
    | none => pure (err "KeyError")
    | some (r, rows) =>
      if certify (filterFinite d1).1 (filterFinite d2).1 r.value r.matching then
        pure (.list [ofExt r.value, ofBool r.warn1, ofBool r.warn2, ofRows rows])
      else pure (err "Uncertified")
  | "spec.bn", [a, b] => do
    let S := finitePart (← rawDgm? a)
    let T := finitePart (← rawDgm? b)
    if S.length + T.length > 14 then pure (err "TooLarge")
    else pure (.num (specGo S T 0))
  | "thr", [a, b, d] => do
    let S := withPlaceholder (filterFinite (← rawDgm? a)).1
    let T := withPlaceholder (filterFinite (← rawDgm? b)).1
    let d ← ext? d
    pure (.list ((thresholdGraph (S.length + T.length) (augD S T) d).map ofNats))
  | "cands", [a, b] => do
    let S := withPlaceholder (filterFinite (← rawDgm? a)).1
    let T := withPlaceholder (filterFinite (← rawDgm? b)).1
    pure (.list ((candidates (S.length + T.length) (augD S T)).map ofExt))
  | "cert.matching", [g, m, k] => do
    let g ← graph? g
    let m ← pairs? m
    let k ← asNat? k
    pure (ofBool (isMatchingB g m && m.length == k))
  | "cert.cover", [g, r, c, k] => do
    let g ← graph? g
    let R ← nats? r
    let C ← nats? c
    let k ← asNat? k
    pure (ofBool (checkCover g R C && decide (R.length + C.length ≤ k)))
  | "cert.opt", [a, b, d, m, p, r, c] => do
    let S := withPlaceholder (filterFinite (← rawDgm? a)).1
    let T := withPlaceholder (filterFinite (← rawDgm? b)).1
    let d ← ext? d
    let m ← pairs? m
    let pred ← optOf? ext? p
    let R ← nats? r
    let C ← nats? c
    pure (ofBool (certOptB (S.length + T.length) (augD S T) d m pred R C))
  | _, _ => none

end PersimVerif.Drv.Bottleneck
