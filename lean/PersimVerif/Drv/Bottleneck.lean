import PersimVerif.Drv.Util
/-! driver commands: Bottleneck (stub until the model lands) -/
namespace PersimVerif.Drv.Bottleneck
open PersimVerif Val PersimVerif.Drv

def handle : Handler
  | _, _ => none

end PersimVerif.Drv.Bottleneck
