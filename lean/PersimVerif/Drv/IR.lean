import PersimVerif.Drv.Util
/-! driver commands: IR (stub until the model lands) -/
namespace PersimVerif.Drv.IR
open PersimVerif Val PersimVerif.Drv

def handle : Handler
  | _, _ => none

end PersimVerif.Drv.IR
