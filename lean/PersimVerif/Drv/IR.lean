import PersimVerif.Drv.Util
import PersimVerif.Model.IR
/-!
driver commands for C19 (the checker of `Model/IR.lean`, executed on programs produced by `py2ir.py`)

  program   `[[p,…],[[op,a,b],…]]`   op: 0 new x s · 1 copy x y · 2 store y v · 3 elem x y · 4 write x ·
                                       5 setattr y v · 6 readGlobal g · 7 writeGlobal g · 8 rng
  solution  `[w,k,[pts…],[cont…]]`    packed tables: `w` bits per mask (bit 0 = owned, bit s+1 = site s), `k` masks per piece

  `ir.check <program> <solution>`   → T/F   (`safe`: post-fixpoint and no write through a possibly-owned variable)
  `ir.fix   <program> <solution>`   → T/F   (`isPostFixpoint` only)
  `ir.wf    <program> <solution>`   → T/F   (`wellFormed`: tables cover every variable and site, every variable read is bound
                                              by a parameter or an instruction, every write target has a non-empty points-to set)
  `ir.solve <program>`              → the solver's solution (unverified; checked by the two commands above)
  `ir.globals <program> <reads> <writes> <T|F>` → T/F (`globalsWithin`)
-/
namespace PersimVerif.Drv.IR
open PersimVerif Val PersimVerif.Drv PersimVerif.IR

def instrOf? : Val → Option Instr
  | .list [o, a, b] => do
    let o ← asNat? o
    let a ← asNat? a
    let b ← asNat? b
    match o with
    | 0 => some (.new a b)
    | 1 => some (.copy a b)
    | 2 => some (.store a b)
    | 3 => some (.elem a b)
    | 4 => some (.write a)
    | 5 => some (.setattr a b)
    | 6 => some (.readGlobal a)
    | 7 => some (.writeGlobal a)
    | 8 => some .rng
    | _ => none
  | _ => none

def progOf? : Val → Option Prog
  | .list [ps, is] => do
    let ps ← listOf? asNat? ps
    let is ← listOf? instrOf? is
    pure ⟨ps, is⟩
  | _ => none

def solOf? : Val → Option SolB
  | .list [n, k, p, c] => do
    let n ← asNat? n
    let k ← asNat? k
    let p ← listOf? asNat? p
    let c ← listOf? asNat? c
    pure ⟨n, k, p, c⟩
  | _ => none

def ofSol (b : SolB) : Val := .list [Val.ofNat b.w, Val.ofNat b.k, ofNats b.pts, ofNats b.cont]

def handle : Handler
  | "ir.check", [p, s] => do
    let p ← progOf? p
    let s ← solOf? s
    pure (ofBool (safe p s))
  | "ir.fix", [p, s] => do
    let p ← progOf? p
    let s ← solOf? s
    pure (ofBool (isPostFixpoint p s))
  | "ir.wf", [p, s] => do
    let p ← progOf? p
    let s ← solOf? s
    pure (ofBool (wellFormed p s))
  | "ir.solve", [p] => do
    let p ← progOf? p
    pure (ofSol (solve p (p.instrs.length + 2)))
  | "ir.globals", [p, r, w, f] => do
    let p ← progOf? p
    let r ← listOf? asNat? r
    let w ← listOf? asNat? w
    let f ← asBool? f
    pure (ofBool (globalsWithin p r w f))
  | _, _ => none

end PersimVerif.Drv.IR
