import PersimVerif.Drv.Util
/-! driver commands: Sliced (stub until the model lands) -/
namespace PersimVerif.Drv.Sliced
open PersimVerif Val PersimVerif.Drv

def handle : Handler
  | _, _ => none

end PersimVerif.Drv.Sliced
