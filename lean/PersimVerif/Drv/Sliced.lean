import PersimVerif.Drv.Util
import PersimVerif.Model.Sliced
/-! driver commands for C15 (model at `Float`):
    `sw <PD1> <PD2> <dirs> <diag_theta> <sqrt2>`  →  the value, or `err:ZeroDivisionError` for `M = 0`;
    `sw.old …` the same with the projection of the old code.
    `dirs`/`diag_theta` are the (float64) direction vectors of the code as exact rationals. -/
namespace PersimVerif.Drv.Sliced
open PersimVerif Val PersimVerif.Drv

def handle : Handler
  | "sw", [a, b, ds, dd, s] => do
    let p1 ← floatDgm? a
    let p2 ← floatDgm? b
    let dirs ← floatDgm? ds
    let dd ← pointOf? asFloat? dd
    let s ← asFloat? s
    match PersimVerif.Sliced.sw Float.ofNat dd s dirs p1 p2 with
    | .ok v => pure (flt v)
    | .error _ => pure (err "ZeroDivisionError")
  | "sw.old", [a, b, ds, dd] => do
    let p1 ← floatDgm? a
    let p2 ← floatDgm? b
    let dirs ← floatDgm? ds
    let dd ← pointOf? asFloat? dd
    pure (flt (PersimVerif.Sliced.swValOld Float.sqrt Float.ofNat dd dirs p1 p2))
  | _, _ => none

end PersimVerif.Drv.Sliced
