import PersimVerif.Drv.Util
import PersimVerif.Model.Rows
/-!
  driver commands for C06 (certificate checker for the rows returned under `matching=True`):

  * `cert.rows.bn <dgm1> <dgm2> <rows> <dist>` — exact, at `Rat`, costs L∞ / `(d-b)/2`:
      `[structure ok, third entries exact, largest |third entry − cost|, max of rows == dist, max of rows,
       checkBnRat]` — the last flag is the proved checker `Rows.checkBnRat` (= the conjunction of flags 1, 2, 4)
  * `cert.rows.bn.f <dgm1> <dgm2> <rows>` — the same cost rule at `Float`:
      `[structure ok, largest deviation, max of rows]`
  * `cert.rows.ws <dgm1> <dgm2> <rows>` — at `Float` with `sqrt`, costs Euclidean / `(d-b)/√2`:
      `[structure ok, largest deviation, sum of rows]`
  * `rows.bn <dgm1> <dgm2> <sigma>` / `rows.ws <dgm1> <dgm2> <sigma>` — the model of the extraction
      loop run on the model's own augmented matrix and the assignment `sigma` the solver selected
      (`Rat` / `Float`); `err:Infinite` when a selected entry is ∞ or `sigma` is too short.

  rows travel as `[[i,j,cost],…]` with integer `i`, `j`.
-/
namespace PersimVerif.Drv.Rows
open PersimVerif Val PersimVerif.Drv PersimVerif.Rows

def rowOf? (f : Val → Option α) : Val → Option (Row α)
  | .list [a, b, c] => do pure ⟨← asInt? a, ← asInt? b, ← f c⟩
  | _ => none

def ofRows (f : α → Val) (rows : List (Row α)) : Val :=
  .list (rows.map fun r => .list [Val.ofInt r.i, Val.ofInt r.j, f r.cost])

/-- NaN-safe maximum of deviations (core `max` on `Float` forgets a NaN operand) -/
def fmax (xs : List Float) (init : Float) : Float :=
  if xs.any (fun x => x != x) then 0.0 / 0.0 else xs.foldl max init

def floatDevs (pc : Float × Float → Float × Float → Float) (dc : Float × Float → Float)
    (S T : List (Float × Float)) (rows : List (Row Float)) : List Float :=
  costDevs (placeholder S).length (placeholder T).length (cOf pc (placeholder S) (placeholder T))
    (uOf dc (placeholder S)) (uOf dc (placeholder T)) rows

def handle : Handler
  | "cert.rows.bn", [a, b, r, d] => do
    let S ← ratDgm? a
    let T ← ratDgm? b
    let rows ← listOf? (rowOf? asRat?) r
    let dist ← asRat? d
    let st := checkRowsStruct S T rows
    let ex := checkRows (α := Rat) linfM diagInfM S T rows
    let dev := checkRowsDev (α := Rat) linfM diagInfM S T rows
    let mx := rowsMax rows
    -- `st && ex && (mx = some dist)` is `checkRowsBn linfM diagInfM S T rows dist`
    pure (.list [ofBool st, ofBool ex, .num dev, ofBool (decide (mx = some dist)),
                 match mx with | some m => .num m | none => .str "none",
                 ofBool (checkBnRat S T rows dist)])
  | "cert.rows.bn.f", [a, b, r] => do
    let S ← floatDgm? a
    let T ← floatDgm? b
    let rows ← listOf? (rowOf? asFloat?) r
    let st := checkRowsStruct S T rows
    let devs := floatDevs linfM diagInfM S T rows
    pure (.list [ofBool st, .flt (fmax devs 0.0),
                 match rowsMax rows with | some m => .flt m | none => .str "none"])
  | "cert.rows.ws", [a, b, r] => do
    let S ← floatDgm? a
    let T ← floatDgm? b
    let rows ← listOf? (rowOf? asFloat?) r
    let st := checkRowsStruct S T rows
    let devs := floatDevs (euclidM Float.sqrt) (diagL2M Float.sqrt) S T rows
    pure (.list [ofBool st, .flt (fmax devs 0.0), .flt (rowsSum rows)])
  | "rows.bn", [a, b, s] => do
    let S ← ratDgm? a
    let T ← ratDgm? b
    let σ ← listOf? asNat? s
    let S' := placeholder S
    let T' := placeholder T
    match extractRowsBn S'.length T'.length (augD (α := Rat) linfM diagInfM S' T') σ with
    | some rows => pure (ofRows .num rows)
    | none => pure (err "Infinite")
  | "rows.ws", [a, b, s] => do
    let S ← floatDgm? a
    let T ← floatDgm? b
    let σ ← listOf? asNat? s
    let S' := placeholder S
    let T' := placeholder T
    let D := augD (α := Float) (euclidM Float.sqrt) (diagL2M Float.sqrt) S' T'
    match extractRowsWs S'.length T'.length D σ, selectedSum S'.length T'.length D σ with
    | some rows, some tot => pure (.list [ofRows .flt rows, .flt tot])
    | _, _ => pure (err "Infinite")
  | _, _ => none

end PersimVerif.Drv.Rows
