import PersimVerif.Drv.Util
import PersimVerif.Model.MGH
/-!
  driver commands for C05 (model at `Nat`):

    mgh.lb <DX> <DY>                            → double_lb           (`find_lb`)
    mgh.curv <DX> <d>                           → [K, kept row indices] (`find_largest_size_bounded_curvature`)
    mgh.dists <D> <max_d>                       → rows as distributions
    mgh.umax <distributions>                    → `find_unique_max_distributions`
    mgh.feas <v_dist> <u_dist> <d>              → T/F                 (`check_assignment_feasibility`, d ≥ 1)
    mgh.feas.exh <v_dist> <u_dist> <d>          → T/F                 exhaustive injection search on the expanded vectors
    mgh.map <DX> <DY> <pi> <y0>                 → [[images],distortion]   (`construct_mapping`)
    mgh.ubmin <DX> <DY> <perms> <y0s> <goal>    → [ub,mappings built]     (`find_ub_of_min_distortion`)
    mgh.ub <DX> <DY> <pXY> <yXY> <pYX> <yYX> <lb> → [ub,k1,k2]            (`find_ub`)
    mgh.est <DX> <DY> <pXY> <yXY> <pYX> <yYX>   → [double_lb,double_ub]  (`estimate`)
    mgh.spec <DX> <DY>                          → exhaustive 2·mGH for |X|,|Y| ≤ 6

  Shapes are checked here (square matrices, permutation entries and first images in range); anything
  else is `bad-op`, so the model's `getD` defaults are never exercised.
-/
namespace PersimVerif.Drv.MGH
open PersimVerif Val PersimVerif.Drv PersimVerif.MGH

def natMat? (v : Val) : Option Mat := do
  let m ← matOf? asNat? v
  if m.length > 0 && m.all (fun r => r.length == m.length) then pure m else none

def natList? : Val → Option (List Nat) := listOf? asNat?

def permsOk (n : Nat) (perms : List (List Nat)) : Bool :=
  perms.all fun p => p.length == n && p.all (· < n)

def exceptVal : Except Err Val → Val
  | .ok v => v
  | .error .stopIteration => err "StopIteration"
  | .error .index => err "IndexError"
  | .error .overflow => err "OverflowError"

def handle : Handler
  | "mgh.lb", [dx, dy] => do
    let DX ← natMat? dx; let DY ← natMat? dy
    pure (ofNat (findLb exactMul exactMul DX DY))
  | "mgh.curv", [dx, d] => do
    let DX ← natMat? dx; let d ← asNat? d
    let r := largestBoundedCurvature exactMul DX (matMax DX) d
    pure (.list [.list (r.1.map ofNats), ofNats r.2])
  | "mgh.dists", [dm, md] => do
    let D ← matOf? asNat? dm; let maxD ← asNat? md
    if D.any (fun r => r.any (· > maxD)) then none
    pure (.list ((rowsAsDistributions D maxD).map ofNats))
  | "mgh.umax", [ds] => do
    let D ← matOf? asNat? ds
    pure (.list ((uniqueMaxDistributions D).map ofNats))
  | "mgh.feas", [v, u, d] => do
    let v ← natList? v; let u ← natList? u; let d ← asNat? d
    if d == 0 then none
    pure (ofBool (checkAssignmentFeasibility v u d))
  | "mgh.feas.exh", [v, u, d] => do
    let v ← natList? v; let u ← natList? u; let d ← asNat? d
    if d == 0 then none
    pure (ofBool (assignableBrute d (expandDistribution v) (expandDistribution u)))
  | "mgh.map", [dx, dy, pi, y0] => do
    let DX ← natMat? dx; let DY ← natMat? dy
    let pi ← natList? pi; let y0 ← asNat? y0
    if !(permsOk DX.length [pi]) || y0 ≥ DY.length then none
    pure (exceptVal ((constructMapping DX DY pi y0).map fun r =>
      .list [ofNats (r.1.map (·.2)), ofNat r.2]))
  | "mgh.ubmin", [dx, dy, ps, ys, g] => do
    let DX ← natMat? dx; let DY ← natMat? dy
    let perms ← matOf? asNat? ps; let y0s ← natList? ys; let goal ← asNat? g
    if !(permsOk DX.length perms) || y0s.any (· ≥ DY.length) then none
    pure (exceptVal ((findUbOfMinDistortion DX DY perms y0s goal).map fun r => ofNats [r.1, r.2]))
  | "mgh.ub", [dx, dy, p1, y1, p2, y2, lb] => do
    let DX ← natMat? dx; let DY ← natMat? dy
    let perms1 ← matOf? asNat? p1; let y0s1 ← natList? y1
    let perms2 ← matOf? asNat? p2; let y0s2 ← natList? y2
    let lb ← asNat? lb
    if !(permsOk DX.length perms1) || y0s1.any (· ≥ DY.length) then none
    if !(permsOk DY.length perms2) || y0s2.any (· ≥ DX.length) then none
    pure (exceptVal ((findUb DX DY perms1 y0s1 perms2 y0s2 lb).map fun r => ofNats [r.1, r.2.1, r.2.2]))
  | "mgh.est", [dx, dy, p1, y1, p2, y2] => do
    let DX ← natMat? dx; let DY ← natMat? dy
    let perms1 ← matOf? asNat? p1; let y0s1 ← natList? y1
    let perms2 ← matOf? asNat? p2; let y0s2 ← natList? y2
    if !(permsOk DX.length perms1) || y0s1.any (· ≥ DY.length) then none
    if !(permsOk DY.length perms2) || y0s2.any (· ≥ DX.length) then none
    pure (exceptVal ((estimate exactMul exactMul DX DY perms1 y0s1 perms2 y0s2).map
      fun r => ofNats [r.1, r.2]))
  | "mgh.spec", [dx, dy] => do
    let DX ← natMat? dx; let DY ← natMat? dy
    if DX.length > 6 || DY.length > 6 then none
    (mgh2Brute DX DY).map ofNat
  | _, _ => none

end PersimVerif.Drv.MGH
