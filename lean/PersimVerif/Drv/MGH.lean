import PersimVerif.Drv.Util
/-! driver commands: MGH (stub until the model lands) -/
namespace PersimVerif.Drv.MGH
open PersimVerif Val PersimVerif.Drv

def handle : Handler
  | _, _ => none

end PersimVerif.Drv.MGH
