import PersimVerif.Drv.Util
/-! driver commands: Wasserstein (stub until the model lands) -/
namespace PersimVerif.Drv.Wasserstein
open PersimVerif Val PersimVerif.Drv

def handle : Handler
  | _, _ => none

end PersimVerif.Drv.Wasserstein
