import PersimVerif.Drv.Util
import PersimVerif.Model.Wasserstein
/-!
  driver commands for C02 (and the matching rows C06 re-uses):

  * `ws.matrix <dgm1> <dgm2>`   → `[warn1, warn2, D]`  the model's augmented cost matrix at `Float`
                                   (`inf` = an `np.inf` entry), warnings as `T`/`F`
  * `ws.exh <dgm1> <dgm2>`      → `[warn1, warn2, value]`  the model at `Float` with the exhaustive
                                   assignment solver as `lsa`; `err:TooLarge` when `M+N > 8`
  * `ws.exh.m <dgm1> <dgm2>`    → `[warn1, warn2, value, rows]` the same with the `matching=True` rows
  * `cert.dual <D> <cols> <a> <b>` → `[T, w]` when the exact-rational dual certificate checks
                                   (`w` = certified optimum of `D`), `[F]` otherwise
  * `spec.ws <dgm1> <dgm2>`     → `[value]` minimum over all partial matchings of the finite parts,
                                   by exhaustive enumeration at `Float` (`err:TooLarge` when `M+N > 12`)

  A diagram is a list of `[b, d]`; a death that is `inf`, `-inf` or `nan` is "not finite".
-/
namespace PersimVerif.Drv.Wasserstein
open PersimVerif Val PersimVerif.Drv
open PersimVerif.Wasserstein

def death? : Val → Option (Option Float)
  | .inf _ => some none
  | .nan => some none
  | v => (asFloat? v).map some

def point? : Val → Option (Float × Option Float)
  | .list [b, d] => do pure (← asFloat? b, ← death? d)
  | _ => none

def dgm? : Val → Option (Dgm Float) := listOf? point?

def ofOptFloat : Option Float → Val
  | some x => .flt x
  | none => .inf false

def ofOptRat : Option Rat → Val
  | some x => .num x
  | none => .inf false

def optRatE? : Val → Option (Option Rat)
  | .inf false => some none
  | v => (asRat? v).map some

def diagSpec (p : Float × Float) : Float := (p.2 - p.1) / Float.sqrt 2.0

def runExh (d1 d2 : Dgm Float) : Option (Except Err (Out Float)) :=
  let D := matrixOf Float.sqrt d1 d2
  match exhGo D [] with
  | none => none
  | some _ => some (wasserstein Float.sqrt exhLsa d1 d2)

def ofRows (rows : List (Int × Int × Option Float)) : Val :=
  .list (rows.map fun r => .list [Val.ofInt r.1, Val.ofInt r.2.1, ofOptFloat r.2.2])

def handle : Handler
  | "ws.matrix", [a, b] => do
    let d1 ← dgm? a
    let d2 ← dgm? b
    let D := matrixOf Float.sqrt d1 d2
    pure (.list [ofBool (warned d1), ofBool (warned d2), .list (D.map fun r => .list (r.map ofOptFloat))])
  | "ws.exh", [a, b] => do
    let d1 ← dgm? a
    let d2 ← dgm? b
    if (prepared d1).length + (prepared d2).length > 8 then pure (err "TooLarge") else
    match runExh d1 d2 with
    | none => pure (err "ValueError")
    | some (.error _) => pure (err "IndexError")
    | some (.ok o) => pure (.list [ofBool o.warn1, ofBool o.warn2, ofOptFloat o.value])
  | "ws.exh.m", [a, b] => do
    let d1 ← dgm? a
    let d2 ← dgm? b
    if (prepared d1).length + (prepared d2).length > 8 then pure (err "TooLarge") else
    match runExh d1 d2 with
    | none => pure (err "ValueError")
    | some (.error _) => pure (err "IndexError")
    | some (.ok o) => pure (.list [ofBool o.warn1, ofBool o.warn2, ofOptFloat o.value, ofRows o.rows])
  | "cert.dual", [m, c, a, b] => do
    let D ← matOf? optRatE? m
    let cols ← listOf? asNat? c
    let pa ← listOf? asRat? a
    let pb ← listOf? asRat? b
    match dualCheck D cols pa pb with
    | some w => pure (.list [ofBool true, .num w])
    | none => pure (.list [ofBool false])
  | "spec.ws", [a, b] => do
    let d1 ← dgm? a
    let d2 ← dgm? b
    let S := finitePart d1
    let T := finitePart d2
    if S.length + T.length > 12 then pure (err "TooLarge") else
    pure (.list [.flt (specGo (dist Float.sqrt) diagSpec S T)])
  | _, _ => none

end PersimVerif.Drv.Wasserstein
