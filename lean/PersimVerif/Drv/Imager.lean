import PersimVerif.Drv.Util
/-! driver commands: Imager (stub until the model lands) -/
namespace PersimVerif.Drv.Imager
open PersimVerif Val PersimVerif.Drv

def handle : Handler
  | _, _ => none

end PersimVerif.Drv.Imager
