import PersimVerif.Drv.Util
import PersimVerif.Model.Imager
/-!
  driver commands for C12 (model at `Rat`, `ceil := Rat.ceil`):

    img.hist [b0,b1] [p0,p1] ps <ops>          constructor, then the history
    img.from [b0,b1,p0,p1,ps,w,h,rx,ry] <ops>  the history from a given state
    img.old  [b0,b1] [p0,p1] ps                the pre-fix constructor (counterexample replay)

  ops = `[[sb,v0,v1],[sp,v0,v1],[px,v],[fit,<skew>,s,<dgm>],[fit,<skew>,c,[<dgm>,…]],…]`.
  Answer: one entry per reached state (the constructor's first),
    `[b0,b1,p0,p1,ps,w,h,rx,ry,[first,last,count,dev],[first,last,count,dev],qx,qy,shape]`
  where `dev = max |step − ps|` over consecutive mesh points, `qx/qy` = the quotient whose ceiling the
  operation took on that axis (`none` if it took none; for the razor-edge rule of the harness) and
  `shape` = shape of one image of a one-point diagram.  A rejected operation ends the list with `err:Kind`.
-/
namespace PersimVerif.Drv.Imager
open PersimVerif Val PersimVerif.Drv PersimVerif.Imager

def errVal : Err → Val
  | .zeroPixel => err "zeroPixel"
  | .negCount => err "negCount"
  | .emptyData => err "emptyData"

def absR (x : Rat) : Rat := if x < 0 then -x else x

def meshSummary (m : List Rat) (ps : Rat) : Val :=
  match m with
  | [] => .list [.str "none", .str "none", ofNat 0, .num 0]
  | a :: t =>
    let (last, dev) := t.foldl (fun (acc : Rat × Rat) x =>
        let d := absR (x - acc.1 - ps)
        (x, if acc.2 < d then d else acc.2)) (a, 0)
    .list [.num a, .num last, ofNat m.length, .num dev]

def optRatVal : Option Rat → Val
  | none => .str "none"
  | some r => .num r

def stateFields (s : State Rat) : List Val :=
  [.num s.b0, .num s.b1, .num s.p0, .num s.p1, .num s.ps, .num s.w, .num s.h, ofInt s.rx, ofInt s.ry]

def entry (s : State Rat) (qx qy : Option Rat) : Val :=
  let shape := match imageShape s 1 with
    | some (a, b) => Val.list [ofInt a, ofInt b]
    | none => err "shape"
  .list (stateFields s ++ [meshSummary (meshB s) s.ps, meshSummary (meshP s) s.ps,
                           optRatVal qx, optRatVal qy, shape])

def inputOf? (kind data : Val) : Option (Input Rat) :=
  match kind with
  | .str "s" => (ratDgm? data).map Input.single
  | .str "c" => (listOf? ratDgm? data).map Input.coll
  | _ => none

def opOf? : Val → Option (Op Rat)
  | .list [.str "sb", a, b] => do pure (.setBirth (← asRat? a) (← asRat? b))
  | .list [.str "sp", a, b] => do pure (.setPers (← asRat? a) (← asRat? b))
  | .list [.str "px", a] => do pure (.setPixel (← asRat? a))
  | .list [.str "fit", sk, kind, data] => do pure (.fit (← asBool? sk) (← inputOf? kind data))
  | _ => none

/-- the quotients whose ceiling `op` takes on state `s` (driver-side bookkeeping for the razor-edge rule) -/
def quotients (s : State Rat) : Op Rat → Option Rat × Option Rat
  | .setBirth a b => (some ((b - a) / s.ps), none)
  | .setPers a b => (none, some ((b - a) / s.ps))
  | .setPixel v => (some ((s.b1 - s.b0) / v), some ((s.p1 - s.p0) / v))
  | .fit sk X =>
    match scan sk ⟨none, none, none, none⟩ (ensureIterable X).1 with
    | .ok ⟨some a, some b, some c, some d⟩ => (some ((b - a) / s.ps), some ((d - c) / s.ps))
    | _ => (none, none)

def trajectory (s : State Rat) (ops : List (Op Rat)) (acc : List Val) : List Val :=
  match ops with
  | [] => acc.reverse
  | op :: rest =>
    match step Rat.ceil s op with
    | .error e => (errVal e :: acc).reverse
    | .ok s' => let (qx, qy) := quotients s op
                trajectory s' rest (entry s' qx qy :: acc)

def stateOf? : Val → Option (State Rat)
  | .list [b0, b1, p0, p1, ps, w, h, rx, ry] => do
    pure { b0 := ← asRat? b0, b1 := ← asRat? b1, p0 := ← asRat? p0, p1 := ← asRat? p1, ps := ← asRat? ps,
           w := ← asRat? w, h := ← asRat? h, rx := ← asInt? rx, ry := ← asInt? ry }
  | _ => none

def handle : Handler
  | "img.hist", [br, pr, ps, ops] => do
    let (b0, b1) ← pairOf? asRat? br
    let (p0, p1) ← pairOf? asRat? pr
    let ps ← asRat? ps
    let ops ← listOf? opOf? ops
    match ctor Rat.ceil b0 b1 p0 p1 ps with
    | .error e => pure (.list [errVal e])
    | .ok s => pure (.list (trajectory s ops [entry s (some ((b1 - b0) / ps)) (some ((p1 - p0) / ps))]))
  | "img.from", [st, ops] => do
    let s ← stateOf? st
    let ops ← listOf? opOf? ops
    pure (.list (trajectory s ops []))
  | "img.old", [br, pr, ps] => do
    let (b0, b1) ← pairOf? asRat? br
    let (p0, p1) ← pairOf? asRat? pr
    let ps ← asRat? ps
    match ctorOld Rat.floor b0 b1 p0 p1 ps with   -- int() of a non-negative quotient
    | .error e => pure (.list [errVal e])
    | .ok s => pure (.list [entry s none none])
  | _, _ => none

end PersimVerif.Drv.Imager
