import PersimVerif.Drv.Util
import PersimVerif.Model.PNorm
/-!
  driver commands for C10 (model `Model/PNorm.lean`):

  * `pl.pnorm <p> <cps>`        natural `p ≥ 1`, model at `Rat`: the exact p-th **power** of `_p_norm`
  * `pl.pnorm.old <p> <cps>`    the same for the pre-fix formula
  * `pl.pnormf <p> <cps>`       any real `p`, model at `Float` through the public method (validation,
                                `Float.pow`, final root): the norm itself, or `err:<Kind>`
  * `pl.gridpnorm <p> <grid> <values>` / `pl.gridpnormf …`  the same after `values_to_pairs`
  * `pl.sup <cps>` (Rat)  `pl.supf <cps>` (Float)  `pl.gridsup <values>` (Rat)
  * `pl.checkp <p>`             outcome of the argument check of base.py
-/
namespace PersimVerif.Drv.PNorm
open PersimVerif Val PersimVerif.Drv PersimVerif.PNorm

def errVal : Err → Val
  | .valueError => err "ValueError"
  | .zeroDivision => err "ZeroDivisionError"

def cpsRat? : Val → Option (List (List (Rat × Rat))) := listOf? ratDgm?
def cpsFloat? : Val → Option (List (List (Float × Float))) := listOf? floatDgm?

def ratPow (old : Bool) (p : Nat) (cps : List (List (Rat × Rat))) : Val :=
  if hasVerticalSeg cps then errVal .zeroDivision
  else if p == 0 then errVal .zeroDivision
  else .num (if old then pNormPowOld p cps else pNormPow p cps)

/-- `expm1` from `exp` and `log` (Kahan): accurate to a few ulps for every `x` (core `Float` has no `expm1`) -/
def expm1F (x : Float) : Float :=
  let u := Float.exp x
  if u == 1.0 then x
  else if u - 1.0 == -1.0 then -1.0
  else (u - 1.0) * x / Float.log u

/-- the public method at `Float` for real `p` -/
def floatNorm (p : Float) (cps : List (List (Float × Float))) : Val :=
  match pNormMethod (fun r => Float.pow r (1.0 / p)) (fun x => Float.pow x p)
      (fun x => Float.pow x (p + 1)) (fun r => -(expm1F ((p + 1) * Float.log r))) p cps with
  | .ok v => .flt v
  | .error e => errVal e

def checkVal : PCheck → Val
  | .reject => err "ValueError"
  | .sup => .str "sup"
  | .norm => .str "norm"

def handle : Handler
  | "pl.pnorm", [p, c] => do
    let p ← asNat? p
    let cps ← cpsRat? c
    pure (ratPow false p cps)
  | "pl.pnorm.old", [p, c] => do
    let p ← asNat? p
    let cps ← cpsRat? c
    pure (ratPow true p cps)
  | "pl.pnormf", [p, c] => do
    let p ← asFloat? p
    let cps ← cpsFloat? c
    pure (floatNorm p cps)
  | "pl.gridpnorm", [p, g, v] => do
    let p ← asNat? p
    let grid ← listOf? asRat? g
    let vals ← matOf? asRat? v
    pure (ratPow false p (valuesToPairs grid vals))
  | "pl.gridpnormf", [p, g, v] => do
    let p ← asFloat? p
    let grid ← listOf? asFloat? g
    let vals ← matOf? asFloat? v
    pure (floatNorm p (valuesToPairs grid vals))
  | "pl.sup", [c] => do
    let cps ← cpsRat? c
    match supNormExact cps with
    | .ok v => pure (.num v)
    | .error e => pure (errVal e)
  | "pl.supf", [c] => do
    let cps ← cpsFloat? c
    match supNormExact cps with
    | .ok v => pure (.flt v)
    | .error e => pure (errVal e)
  | "pl.gridsup", [v] => do
    let vals ← matOf? asRat? v
    match supNormApprox vals with
    | .ok v => pure (.num v)
    | .error e => pure (errVal e)
  | "pl.checkp", [p] => do
    let p ← asRat? p
    pure (checkVal (checkP p))
  | _, _ => none

end PersimVerif.Drv.PNorm
