import PersimVerif.Drv.Util
/-! driver commands: Plot (stub until the model lands) -/
namespace PersimVerif.Drv.Plot
open PersimVerif Val PersimVerif.Drv

def handle : Handler
  | _, _ => none

end PersimVerif.Drv.Plot
