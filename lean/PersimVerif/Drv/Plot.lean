import PersimVerif.Drv.Util
import PersimVerif.Model.Plot
/-!
  driver commands for C20 (model at `Rat`; `cast` = IEEE round-to-nearest-even to binary32):

  `plot.dgms <single T|F> <dgms> <plot_only|none> <title|none> <xy_range|none> <labels> <diagonal> <lifetime> <legend> [old]`
      `<labels>` = `none` | a string token | a list of string tokens
  `plot.match <bn|ws|bnold|wsold> <c> <s> <dgm1> <dgm2> <rows [[i,j,d],…]> <labels>`   (deaths may be `inf`)
  `plot.land.exact <critical pairs per depth> <depth_range|none>`
  `plot.land.approx <start> <stop> <values per depth> <depth_range|none>`

  answer: `[[artist,…],[xlo,xhi],[ylo,yhi],xlabel|none,ylabel|none,title|none,T|F]`, an artist being
  `[scatter,<ax>,[[x,y],…],label]` or `[line,<ax>,[x,…],[y,…],<style>,label|none]`; `err:ValueError`, `err:IndexError`.
-/
namespace PersimVerif.Drv.Plot
open PersimVerif Val PersimVerif.Drv PersimVerif.Plot

def pow2 (e : Int) : Rat :=
  if 0 ≤ e then ((2 ^ e.toNat : Nat) : Rat) else 1 / ((2 ^ (-e).toNat : Nat) : Rat)

/-- round half to even of a non-negative rational -/
def roundHalfEven (x : Rat) : Int :=
  let f := x.floor
  let rem := x - (f : Rat)
  if rem < 1/2 then f
  else if 1/2 < rem then f + 1
  else if f % 2 == 0 then f else f + 1

/-- IEEE-754 binary32 round-to-nearest-even of a rational (finite range only: the harness never
    sends magnitudes near 2^128) -/
def f32 (r : Rat) : Rat :=
  if r == 0 then 0 else
  let a : Rat := if r < 0 then -r else r
  let e0 : Int := (a.num.natAbs.log2 : Int) - (a.den.log2 : Int)
  let e1 : Int := if a < pow2 e0 then e0 - 1 else if pow2 (e0 + 1) ≤ a then e0 + 1 else e0
  let e : Int := if e1 < -126 then -126 else e1
  let q := pow2 (e - 23)
  let n := roundHalfEven (a / q)
  let v := (n : Rat) * q
  if r < 0 then -v else v

def axName : Axes → String
  | .given => "given"
  | .current => "current"

def styleName : Style → String
  | .horizon => "horizon"
  | .diagonal => "diagonal"
  | .infLine => "infline"
  | .matchMax => "matchmax"
  | .matchOther => "matchother"
  | .wass => "wass"
  | .landscape => "landscape"

def ofArtist : Artist Rat → Val
  | .scatter ax pts label => .list [.str "scatter", .str (axName ax), ofRatPairs pts, .str label]
  | .line ax xs ys st label =>
    .list [.str "line", .str (axName ax), ofRats xs, ofRats ys, .str (styleName st),
           match label with | some l => .str l | none => .str "none"]

def optStr : Option String → Val
  | some s => .str s
  | none => .str "none"

def ofFig (f : Fig Rat) : Val :=
  .list [.list (f.artists.map ofArtist), ofRats [f.xlim.1, f.xlim.2], ofRats [f.ylim.1, f.ylim.2],
         optStr f.xlabel, optStr f.ylabel, optStr f.title, ofBool f.legend]

def ofErr : Err → Val
  | .value => err "ValueError"
  | .index => err "IndexError"

def ofRes : Except Err (Fig Rat) → Val
  | .ok f => ofFig f
  | .error e => ofErr e

def labels? : Val → Option Labels
  | .str "none" => some .default
  | .str s => some (.one s)
  | .list xs => (xs.mapM asStr?).map .many
  | _ => none

def range4? : Val → Option (Option (Rat × Rat × Rat × Rat))
  | .str "none" => some none
  | .list [a, b, c, d] => do pure (some (← asRat? a, ← asRat? b, ← asRat? c, ← asRat? d))
  | _ => none

def row? : Val → Option (Row Rat)
  | .list [i, j, d] => do pure (← asInt? i, ← asInt? j, ← asRat? d)
  | _ => none

/-- a diagram with finite births and deaths that may be `inf` -/
def optDgm? (v : Val) : Option (Dgm Rat) := do
  let d ← dgmOf? optRat? v
  d.mapM fun p => match p.1 with
    | some b => some (b, p.2)
    | none => none

def dgmsOp (old : Bool) (sg ds po ti xy lb dg lf lg : Val) : Option Val := do
  let single ← asBool? sg
  let dgms ← listOf? (dgmOf? optRat?) ds
  -- births are finite in the model
  let dgms ← dgms.mapM fun d => d.mapM fun p => match p.1 with
    | some b => some (b, p.2)
    | none => none
  let arg : DgmsArg Rat ← if single then (match dgms with | [d] => some (.single d) | _ => none)
                          else some (.many dgms)
  let o : Opts Rat := {
    plotOnly := ← optOf? (listOf? asInt?) po
    title := ← optOf? asStr? ti
    xyRange := ← range4? xy
    labels := ← labels? lb
    diagonal := ← asBool? dg
    lifetime := ← asBool? lf
    legend := ← asBool? lg }
  pure (ofRes ((if old then plotDiagramsOld else plotDiagrams) f32 arg o))

def depthRange? (v : Val) : Option (Option (List Nat)) := optOf? (listOf? asNat?) v

def handle : Handler
  | "plot.dgms", [sg, ds, po, ti, xy, lb, dg, lf, lg] => dgmsOp false sg ds po ti xy lb dg lf lg
  | "plot.dgms", [sg, ds, po, ti, xy, lb, dg, lf, lg, .str "old"] => dgmsOp true sg ds po ti xy lb dg lf lg
  | "plot.match", [.str kind, c, s, d1, d2, rows, lb] => do
    let c ← asRat? c
    let s ← asRat? s
    let d1 ← optDgm? d1
    let d2 ← optDgm? d2
    let rows ← listOf? row? rows
    let lb ← listOf? asStr? lb
    match kind with
    | "bn" => pure (ofRes (bottleneckMatching f32 c s d1 d2 rows lb))
    | "bnold" => pure (ofRes (bottleneckMatchingOld f32 c s d1 d2 rows lb))
    | "ws" => pure (ofRes (wassersteinMatching f32 c s d1 d2 rows lb))
    | "wsold" => pure (ofRes (wassersteinMatchingOld f32 c s d1 d2 rows lb))
    | _ => none
  | "plot.land.exact", [crit, dr] => do
    let crit ← listOf? ratDgm? crit
    let dr ← depthRange? dr
    pure (.list ((landscapeExactSimple crit dr).map ofArtist))
  | "plot.land.approx", [a, b, vals, dr] => do
    let a ← asRat? a
    let b ← asRat? b
    let vals ← listOf? (listOf? asRat?) vals
    let dr ← depthRange? dr
    pure (.list ((landscapeApproxSimple (fun n => (n : Rat)) a b vals dr).map ofArtist))
  | "plot.f32", [x] => do
    let x ← asRat? x
    pure (.num (f32 x))
  | _, _ => none

end PersimVerif.Drv.Plot
