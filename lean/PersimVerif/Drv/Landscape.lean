import PersimVerif.Drv.Util
import PersimVerif.Model.Landscape
/-!
  driver commands for C03 (model at `Rat`):

  * `pl.exact <hom_deg> <dgms>`        → `[critical pairs per depth, #shortcut firings]` or `err:<Kind>`
                                         (`dgms` = list of diagrams, a death may be `inf`)
  * `pl.noshortcut <bars>`             → critical pairs of the sweep without the repeated-bar shortcut
  * `pl.certify <eps> <bars> <cps>`    → `[T]`, or `[F,kind,k,t,candidate,definition]` (see `Landscape.witness`)
  * `pl.lambda <bars> <k> <t>`         → the definition `λ_k(t)` (k-th largest tent, `k = 0` outermost)
  * `pl.eval <cps> <k> <t>`            → `evalDepth cps k t`
-/
namespace PersimVerif.Drv.Landscape
open PersimVerif Val PersimVerif.Drv PersimVerif.Landscape

def optPoint? : Val → Option (Rat × Option Rat)
  | .list [a, b] => do pure (← asRat? a, ← optRat? b)
  | _ => none

def ofCps (cps : List (List (Rat × Rat))) : Val := .list (cps.map ofRatPairs)

def errName : Err → String
  | .valueError => "ValueError"
  | .indexError => "IndexError"
  | .nonFinite => "NonFinite"
  | .fuel => "Fuel"

def handle : Handler
  | "pl.exact", [h, d] => do
    let hd ← asInt? h
    let dgms ← listOf? (listOf? optPoint?) d
    match exact dgms hd with
    | .ok o => pure (.list [ofCps o.cps, Val.ofNat o.fired])
    | .error e => pure (err (errName e))
  | "pl.noshortcut", [b] => do
    let bars ← ratDgm? b
    match sweepNoShortcut bars with
    | some L => pure (ofCps L)
    | none => pure (err "Fuel")
  | "pl.certify", [e, b, c] => do
    let eps ← asRat? e
    let bars ← ratDgm? b
    let cps ← listOf? ratDgm? c
    if certifyTol eps bars cps then pure (.list [ofBool true])
    else match witness eps bars cps with
      | some (kind, k, t, a, s) => pure (.list [ofBool false, Val.ofNat kind, Val.ofNat k, .num t, .num a, .num s])
      | none => pure (.list [ofBool false, Val.ofNat 3, Val.ofNat 0, .num 0, .num 0, .num 0])
  | "pl.lambda", [b, k, t] => do
    let bars ← ratDgm? b
    pure (.num (PL.landscape bars (← asNat? k) (← asRat? t)))
  | "pl.eval", [c, k, t] => do
    let cps ← listOf? ratDgm? c
    pure (.num (PL.evalDepth cps (← asNat? k) (← asRat? t)))
  | _, _ => none

end PersimVerif.Drv.Landscape
