import PersimVerif.Drv.Util
/-! driver commands: Landscape (stub until the model lands) -/
namespace PersimVerif.Drv.Landscape
open PersimVerif Val PersimVerif.Drv

def handle : Handler
  | _, _ => none

end PersimVerif.Drv.Landscape
