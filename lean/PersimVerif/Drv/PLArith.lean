import PersimVerif.Drv.Util
import PersimVerif.Model.PLArith
/-!
  driver commands for C09 (model at `Rat`):

  `pla.xhist <leaves> <ops>`   exact landscapes; leaf = `[hom_deg, critical_pairs]`;
        op = `[add,i,j] | [sub,i,j] | [neg,i] | [mul,i,c] | [div,i,c]` over registers (the leaves,
        then every successful result in order); `c` = a number or any other token (non-number).
        Answer: one entry per op, `[hom_deg, critical_pairs]` or `err:<PyKind>:<tag>`.
  `pla.ghist <leaves> <ops>`   grid landscapes; leaf = `[hom_deg, start, stop, num_steps, values]`;
        ops as above plus `[snap,[i…],s,e,n]`, `[lc,[i…],[c…],s,e,n]`, `[avg,[i…],s,e,n]`
        (`s e n` = value or `none`).  Answer entries: `[one, grid]`, `[many, [grid…]]` or an error;
        a `snap` appends all its landscapes to the registers.
  `pla.xexpr <leaves> <expr>`  `run` on an expression tree `[leaf,i] | [add,e,f] | [sub,e,f] | [neg,e] |
        [smul,c,e] | [sdiv,e,c]`;  `pla.gexpr` the same for grids.
  `pla.xdenote <leaves> <expr> <k> <ts>`   `denote` at depth `k` and the abscissae `ts`.
  `pla.gdenote <leaves> <expr> <k> <n>`     `denoteG` at depth `k`, samples `0 … n-1`.
  `pla.eval <depth> <ts>`      `evalPL` of one depth list;   `pla.wf <critical_pairs>` the guard per depth.
-/
namespace PersimVerif.Drv.PLArith
open PersimVerif Val PersimVerif.Drv PersimVerif.PLArith

def errVal : Err → Val
  | .homDeg => err "ValueError:hom_deg"
  | .start => err "ValueError:start"
  | .stop => err "ValueError:stop"
  | .numSteps => err "ValueError:num_steps"
  | .divZero => err "ValueError:div_zero"
  | .typeError => err "TypeError:scalar"
  | .bothEmpty => err "ValueError:both_empty"
  | .startGtStop => err "ValueError:start_gt_stop"
  | .emptyList => err "ValueError:empty_list"
  | .shape => err "ValueError:shape"
  | .indexError => err "IndexError:empty_depth"
  | .notLandscape => err "NotALandscape:scalar_zero"

def exactOf? : Val → Option (Exact Rat)
  | .list [hd, cps] => do pure ⟨← asNat? hd, ← listOf? ratDgm? cps⟩
  | _ => none

def ofExact (p : Exact Rat) : Val := .list [Val.ofNat p.homDeg, .list (p.cps.map ofRatPairs)]

def gridOf? : Val → Option (Grid Rat)
  | .list [hd, s, e, n, vals] => do
    pure ⟨← asNat? hd, ← asRat? s, ← asRat? e, ← asNat? n, ← matOf? asRat? vals⟩
  | _ => none

def ofGrid (p : Grid Rat) : Val :=
  .list [Val.ofNat p.homDeg, .num p.start, .num p.stop, Val.ofNat p.numSteps, ofRatMat p.values]

def scalarOf (v : Val) : Scalar Rat :=
  match v with
  | .num r => .num r
  | _ => .other

partial def exprOf? : Val → Option (Expr Rat)
  | .list [.str "leaf", i] => do pure (.leaf (← asNat? i))
  | .list [.str "add", e, f] => do pure (.add (← exprOf? e) (← exprOf? f))
  | .list [.str "sub", e, f] => do pure (.sub (← exprOf? e) (← exprOf? f))
  | .list [.str "neg", e] => do pure (.neg (← exprOf? e))
  | .list [.str "smul", c, e] => do pure (.smul (← asRat? c) (← exprOf? e))
  | .list [.str "sdiv", e, c] => do pure (.sdiv (← exprOf? e) (← asRat? c))
  | _ => none

def leavesIn : Expr Rat → List Nat
  | .leaf i => [i]
  | .add e f => leavesIn e ++ leavesIn f
  | .sub e f => leavesIn e ++ leavesIn f
  | .neg e => leavesIn e
  | .smul _ e => leavesIn e
  | .sdiv e _ => leavesIn e

/-- one step of an exact history -/
def xstep (regs : Array (Exact Rat)) : Val → Option (Except Err (Exact Rat))
  | .list [.str "add", i, j] => do pure ((← regs[← asNat? i]?).add (← regs[← asNat? j]?))
  | .list [.str "sub", i, j] => do pure ((← regs[← asNat? i]?).sub (← regs[← asNat? j]?))
  | .list [.str "neg", i] => do pure (← regs[← asNat? i]?).neg
  | .list [.str "mul", i, c] => do pure ((← regs[← asNat? i]?).mul (scalarOf c))
  | .list [.str "div", i, c] => do pure ((← regs[← asNat? i]?).div (scalarOf c))
  | _ => none

def xhist (leaves : List (Exact Rat)) (ops : List Val) : Option (List Val) := do
  let mut regs := leaves.toArray
  let mut out : Array Val := #[]
  for op in ops do
    match xstep regs op with
    | some (.ok r) => regs := regs.push r; out := out.push (ofExact r)
    | some (.error e) => out := out.push (errVal e)
    | none => out := out.push (err "Model:no_such_register_or_op")   -- code and model diverged earlier
  pure out.toList

inductive GRes where
  | one (g : Grid Rat)
  | many (gs : List (Grid Rat))

def optRatOf? (v : Val) : Option (Option Rat) := optOf? asRat? v
def optNatOf? (v : Val) : Option (Option Nat) := optOf? asNat? v

def pick (regs : Array (Grid Rat)) (idxs : Val) : Option (List (Grid Rat)) := do
  (← listOf? asNat? idxs).mapM fun i => regs[i]?

def gstep (regs : Array (Grid Rat)) : Val → Option (Except Err GRes)
  | .list [.str "add", i, j] => do pure (GRes.one <$> (← regs[← asNat? i]?).add (← regs[← asNat? j]?))
  | .list [.str "sub", i, j] => do pure (GRes.one <$> (← regs[← asNat? i]?).sub (← regs[← asNat? j]?))
  | .list [.str "neg", i] => do pure (GRes.one <$> (← regs[← asNat? i]?).neg)
  | .list [.str "mul", i, c] => do pure (GRes.one <$> (← regs[← asNat? i]?).mul (scalarOf c))
  | .list [.str "div", i, c] => do pure (GRes.one <$> (← regs[← asNat? i]?).div (scalarOf c))
  | .list [.str "snap", idxs, s, e, n] => do
    pure (GRes.many <$> snapPl (← pick regs idxs) (← optRatOf? s) (← optRatOf? e) (← optNatOf? n))
  | .list [.str "lc", idxs, cs, s, e, n] => do
    let coeffs := (← asList? cs).map scalarOf
    pure (GRes.one <$> lcApprox (← pick regs idxs) coeffs (← optRatOf? s) (← optRatOf? e) (← optNatOf? n))
  | .list [.str "avg", idxs, s, e, n] => do
    pure (GRes.one <$> averageApprox (← pick regs idxs) (← optRatOf? s) (← optRatOf? e) (← optNatOf? n))
  | _ => none

def ghist (leaves : List (Grid Rat)) (ops : List Val) : Option (List Val) := do
  let mut regs := leaves.toArray
  let mut out : Array Val := #[]
  for op in ops do
    match gstep regs op with
    | some (.ok (.one g)) => regs := regs.push g; out := out.push (.list [.str "one", ofGrid g])
    | some (.ok (.many gs)) => regs := regs ++ gs.toArray; out := out.push (.list [.str "many", .list (gs.map ofGrid)])
    | some (.error e) => out := out.push (errVal e)
    | none => out := out.push (err "Model:no_such_register_or_op")
  pure out.toList

def handle : Handler
  | "pla.xhist", [ls, ops] => do
    .list <$> xhist (← listOf? exactOf? ls) (← asList? ops)
  | "pla.ghist", [ls, ops] => do
    .list <$> ghist (← listOf? gridOf? ls) (← asList? ops)
  | "pla.xexpr", [ls, e] => do
    let leaves := (← listOf? exactOf? ls).toArray
    let ex ← exprOf? e
    if (leavesIn ex).any (· ≥ leaves.size) then none else
    match run (fun i => leaves.getD i ⟨0, []⟩) ex with
    | .ok r => pure (ofExact r)
    | .error er => pure (errVal er)
  | "pla.gexpr", [ls, e] => do
    let leaves := (← listOf? gridOf? ls).toArray
    let ex ← exprOf? e
    if (leavesIn ex).any (· ≥ leaves.size) then none else
    match runG (fun i => leaves.getD i ⟨0, 0, 0, 0, []⟩) ex with
    | .ok r => pure (ofGrid r)
    | .error er => pure (errVal er)
  | "pla.xdenote", [ls, e, k, ts] => do
    let leaves := (← listOf? exactOf? ls).toArray
    let ex ← exprOf? e
    if (leavesIn ex).any (· ≥ leaves.size) then none else
    let k ← asNat? k
    pure (ofRats ((← listOf? asRat? ts).map fun t => denote (fun i => leaves.getD i ⟨0, []⟩) ex k t))
  | "pla.gdenote", [ls, e, k, n] => do
    let leaves := (← listOf? gridOf? ls).toArray
    let ex ← exprOf? e
    if (leavesIn ex).any (· ≥ leaves.size) then none else
    let k ← asNat? k
    let n ← asNat? n
    pure (ofRats ((List.range n).map fun j => denoteG (fun i => leaves.getD i ⟨0, 0, 0, 0, []⟩) ex k j))
  | "pla.eval", [d, ts] => do
    let l ← ratDgm? d
    pure (ofRats ((← listOf? asRat? ts).map fun t => PL.evalPL l t))
  | "pla.wf", [cps] => do
    pure (.list ((← listOf? ratDgm? cps).map fun l => ofBool (wfDepth l)))
  | _, _ => none

end PersimVerif.Drv.PLArith
