import PersimVerif.Drv.Util
import PersimVerif.Model.Image
import PersimVerif.Model.Erfc
/-!
  driver commands for C04 / C11 (model `Model/Image.lean`)

    img.mesh     <bpnts> <ppnts>                                   → [bb, pp]   (Rat; the flat arrays handed to the kernel)
    img.assemble <rx> <ry> <bpnts> <ppnts> <dgm> <skew> <wspec> <tables>
                 tables[k] = the REAL kernel's flat output for point k → image (Float; `generalPath`)
    img.fast     <rx> <ry> <bpnts> <ppnts> <dgm> <skew> <wspec> <variance>   → image (Float; `fastPath`, Φ = Erfc.normCdf)
    img.one      <rx> <ry> <bpnts> <ppnts> <dgm> <skew> <wspec> <kspec>      → image (Float; `transformOne` incl. dispatch)
    img.uniform  <rx> <ry> <bpnts> <ppnts> <dgm> <skew> <wspec> <width> <height> → image (Rat, exact; `transformOne`)
    img.dispatch <kspec>                                            → [fast,v] | general   (Float `==`, as the code)
    img.coll     <rx> <ry> <bpnts> <ppnts> <input> <skew> <wspec> <width> <height> <n_jobs|none>
                 input = [dgm,<dgm>] | [coll,[<dgm>,…]]              → [img,M] | [imgs,[M,…]]  (Rat; `transform`, uniform kernel)
    img.ensure   <input>                                            → [number of diagrams, singular]

    wspec = [pers,n] | [ramp,low,high,start,end] | [raw,[w,…]] (raw: `img.assemble` only)
    kspec = [gaussian,[scalar,s]] | [gaussian,[matrix,s00,s01,s10,s11]] | [uniform,width,height] | [other]
  Errors: err:ValueError (shape / reshape), err:IndexError.
-/
namespace PersimVerif.Drv.Image
open PersimVerif Val PersimVerif.Drv PersimVerif.Image

def errVal : Err → Val
  | .shape => err "ValueError"
  | .reshape => err "ValueError"
  | .index => err "IndexError"

def outF : Except Err (Mat Float) → Val
  | .ok m => ofFloatMat m
  | .error e => errVal e

def outR : Except Err (Mat Rat) → Val
  | .ok m => ofRatMat m
  | .error e => errVal e

/-- built-in weight at `Float` -/
def weightF? : Val → Option (Pt Float → Float)
  | .list [.str "pers", n] => do
    let n ← asFloat? n
    pure (persistenceW Float.pow n)
  | .list [.str "ramp", a, b, c, d] => do
    pure (linearRamp (← asFloat? a) (← asFloat? b) (← asFloat? c) (← asFloat? d))
  | _ => none

def ratPow (x : Rat) (n : Rat) : Rat := x ^ n.num.toNat

/-- built-in weight at `Rat` (`pers` with a natural exponent only) -/
def weightR? : Val → Option (Pt Rat → Rat)
  | .list [.str "pers", n] => do
    let n ← asNat? n
    pure (persistenceW ratPow (n : Rat))
  | .list [.str "ramp", a, b, c, d] => do
    pure (linearRamp (← asRat? a) (← asRat? b) (← asRat? c) (← asRat? d))
  | _ => none

def sigmaF? : Val → Option (Sigma Float)
  | .list [.str "scalar", s] => do pure (.scalar (← asFloat? s))
  | .list [.str "matrix", a, b, c, d] => do
    pure (.matrix (← asFloat? a) (← asFloat? b) (← asFloat? c) (← asFloat? d))
  | _ => none

def inputR? : Val → Option (Input Rat)
  | .list [.str "dgm", d] => do pure (.dgm (← ratDgm? d))
  | .list [.str "coll", ds] => do pure (.coll (← listOf? ratDgm? ds))
  | _ => none

def idR : Rat → Rat := fun x => x

def handle : Handler
  | "img.mesh", [b, p] => do
    let bs ← listOf? asRat? b
    let ps ← listOf? asRat? p
    let m := flatMesh bs ps
    pure (.list [ofRats m.1, ofRats m.2])
  | "img.assemble", [rx, ry, b, p, d, sk, ws, tabs] => do
    let rx ← asNat? rx
    let ry ← asNat? ry
    let bs ← listOf? asFloat? b
    let ps ← listOf? asFloat? p
    let dgm ← floatDgm? d
    let sk ← asBool? sk
    let tables ← listOf? (listOf? asFloat?) tabs
    let bp := toBP sk dgm
    let wts ← match ws with
      | .list [.str "raw", l] => listOf? asFloat? l
      | _ => do let w ← weightF? ws; pure (bp.map w)
    if wts.length ≠ bp.length ∨ tables.length ≠ bp.length then none
    else
      let pws := (List.range bp.length).zip wts
      pure (outF (generalPath (fun (k : Nat) _ _ => tables.getD k []) rx ry bs ps pws))
  | "img.fast", [rx, ry, b, p, d, sk, ws, v] => do
    let rx ← asNat? rx
    let ry ← asNat? ry
    let bs ← listOf? asFloat? b
    let ps ← listOf? asFloat? p
    let dgm ← floatDgm? d
    let sk ← asBool? sk
    let w ← weightF? ws
    let v ← asFloat? v
    pure (outF (fastPath Float.sqrt Erfc.normCdf v rx ry bs ps (withWeights w (toBP sk dgm))))
  | "img.one", [rx, ry, b, p, d, sk, ws, ks] => do
    let rx ← asNat? rx
    let ry ← asNat? ry
    let bs ← listOf? asFloat? b
    let ps ← listOf? asFloat? p
    let dgm ← floatDgm? d
    let sk ← asBool? sk
    let w ← weightF? ws
    match ks with
    | .list [.str "gaussian", s] => do
      let σ ← sigmaF? s
      match σ.toMatrix with
      | (s00, s01, _, s11) =>
        -- the correlated kernel (bvn_cdf) is C13's model; here only the zero-covariance product form
        if s01 != 0 then none
        else
          pure (outF (transformOne Float.sqrt Erfc.normCdf w (.gaussian σ)
            (vectorize (prodKernel Float.sqrt Erfc.normCdf s00 s11)) rx ry bs ps sk dgm))
    | .list [.str "uniform", wd, ht] => do
      let wd ← asFloat? wd
      let ht ← asFloat? ht
      pure (outF (transformOne Float.sqrt Erfc.normCdf w .other
        (vectorize (uniformKernel wd ht)) rx ry bs ps sk dgm))
    | _ => none
  | "img.uniform", [rx, ry, b, p, d, sk, ws, wd, ht] => do
    let rx ← asNat? rx
    let ry ← asNat? ry
    let bs ← listOf? asRat? b
    let ps ← listOf? asRat? p
    let dgm ← ratDgm? d
    let sk ← asBool? sk
    let w ← weightR? ws
    let wd ← asRat? wd
    let ht ← asRat? ht
    pure (outR (transformOne idR idR w .other (vectorize (uniformKernel wd ht)) rx ry bs ps sk dgm))
  | "img.dispatch", [ks] =>
    match ks with
    | .list [.str "gaussian", s] => do
      let σ ← sigmaF? s
      match dispatch (.gaussian σ) with
      | .fast v => pure (.list [.str "fast", .flt v])
      | .general => pure (.str "general")
    | .list (.str _ :: _) =>
      match dispatch (KernelChoice.other : KernelChoice Float) with
      | .fast v => pure (.list [.str "fast", .flt v])
      | .general => pure (.str "general")
    | _ => none
  | "img.coll", [rx, ry, b, p, inp, sk, ws, wd, ht, nj] => do
    let rx ← asNat? rx
    let ry ← asNat? ry
    let bs ← listOf? asRat? b
    let ps ← listOf? asRat? p
    let x ← inputR? inp
    let sk ← asBool? sk
    let w ← weightR? ws
    let wd ← asRat? wd
    let ht ← asRat? ht
    let nj ← optOf? asNat? nj
    let one := transformOne idR idR w .other (vectorize (uniformKernel wd ht)) rx ry bs ps sk
    match transform one rx ry nj x with
    | .ok (.img m) => pure (.list [.str "img", ofRatMat m])
    | .ok (.imgs ms) => pure (.list [.str "imgs", .list (ms.map ofRatMat)])
    | .error e => pure (errVal e)
  | "img.ensure", [inp] => do
    let x ← inputR? inp
    let r := ensureIterable x
    pure (.list [Val.ofNat r.1.length, ofBool r.2])
  | _, _ => none

end PersimVerif.Drv.Image
