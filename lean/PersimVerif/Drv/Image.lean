import PersimVerif.Drv.Util
/-! driver commands: Image (stub until the model lands) -/
namespace PersimVerif.Drv.Image
open PersimVerif Val PersimVerif.Drv

def handle : Handler
  | _, _ => none

end PersimVerif.Drv.Image
