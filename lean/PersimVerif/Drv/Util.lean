import PersimVerif.Model.Proto
/-! helpers shared by the driver handlers (import-free) -/
namespace PersimVerif.Drv
open PersimVerif Val

/-- a coordinate that may be +∞ (`none`) -/
def optFloat? : Val → Option (Option Float)
  | .inf false => some none
  | v => (asFloat? v).map some

def optRat? : Val → Option (Option Rat)
  | .inf false => some none
  | v => (asRat? v).map some

def pointOf? (f : Val → Option α) : Val → Option (α × α)
  | .list (a :: b :: _) => do pure (← f a, ← f b)
  | _ => none

def dgmOf? (f : Val → Option α) : Val → Option (List (α × α)) := listOf? (pointOf? f)

def ratDgm? : Val → Option (List (Rat × Rat)) := dgmOf? asRat?
def floatDgm? : Val → Option (List (Float × Float)) := dgmOf? asFloat?

def matOf? (f : Val → Option α) : Val → Option (List (List α)) := listOf? (listOf? f)

def ofRatPairs (xs : List (Rat × Rat)) : Val := .list (xs.map fun p => .list [.num p.1, .num p.2])
def ofFloatPairs (xs : List (Float × Float)) : Val := .list (xs.map fun p => .list [.flt p.1, .flt p.2])
def ofNats (xs : List Nat) : Val := .list (xs.map Val.ofNat)
def ofInts (xs : List Int) : Val := .list (xs.map Val.ofInt)
def ofRatMat (m : List (List Rat)) : Val := .list (m.map Val.ofRats)
def ofFloatMat (m : List (List Float)) : Val := .list (m.map Val.ofFloats)

end PersimVerif.Drv
