import PersimVerif.Drv.Util
import PersimVerif.Model.Heat
/-! driver commands for C14 (model at `Float`):
    `heat <dgm1> <dgm2> <sigma>`  →  `[k(F,F), k(G,G), k(F,G), dist2, heat, heatOld]` -/
namespace PersimVerif.Drv.Heat
open PersimVerif Val PersimVerif.Drv

def piF : Float := 3.141592653589793

def handle : Handler
  | "heat", [a, b, s] => do
    let d1 ← floatDgm? a
    let d2 ← floatDgm? b
    let sigma ← asFloat? s
    let k := fun x y => PersimVerif.Heat.evalHeatKernel Float.exp piF x y sigma
    pure (ofFloats [k d1 d1, k d2 d2, k d1 d2,
      PersimVerif.Heat.dist2 Float.exp piF d1 d2 sigma,
      PersimVerif.Heat.heat Float.exp Float.sqrt piF d1 d2 sigma,
      PersimVerif.Heat.heatOld Float.exp Float.sqrt piF d1 d2 sigma])
  | _, _ => none

end PersimVerif.Drv.Heat
