import PersimVerif.Drv.Util
/-! driver commands: Heat (stub until the model lands) -/
namespace PersimVerif.Drv.Heat
open PersimVerif Val PersimVerif.Drv

def handle : Handler
  | _, _ => none

end PersimVerif.Drv.Heat
