import PersimVerif.Drv.Util
import PersimVerif.Model.Approx
/-!
  driver commands for C08 (model executed at `Rat`, exact):

    pl.approx <dgms> <hom_deg> <start|none> <stop|none> <num_steps>   → values matrix (one zero row when no bar is visible) | err
    pl.transform <dgms> <hom_deg> <start|none> <stop|none> <num_steps> <flatten> <fit>
                                                                      → matrix | flat list | err
    pl.vectorize <cps> <start|none> <stop|none> <num_steps>           → matrix | err
    pl.death <dgms> <hom_deg>                                         → list (with `inf`) | err
    pl.lambda.grid <bars> <start> <stop> <num_steps>                  → TRUE landscape at the nodes
    pl.grid <start> <stop> <num_steps>                                → [step, nodes]
    pl.snap <start> <stop> <num_steps> <xs>                           → snapped indices

  `<dgms>` is a list of diagrams (coordinates may be `inf`), `<bars>` one finite diagram.
-/
namespace PersimVerif.Drv.Approx
open PersimVerif Val PersimVerif.Drv PersimVerif.Approx

def errName : Err → String
  | .noDiagrams => "ValueError"
  | .homDeg => "IndexError"
  | .emptyDiagram => "ValueError"
  | .noSteps => "ValueError"
  | .emptyDepth => "ValueError"
  | .noDepths => "IndexError"
  | .startAfterStop => "ValueError"
  | .notImplemented => "NotImplementedError"
  | .keyError => "KeyError"

def ofValues : Values Rat → Val
  | .mat rows => ofRatMat rows

def optDgms? : Val → Option (List (Dgm Rat)) := listOf? (dgmOf? optRat?)

def ofOptRats (xs : List (Option Rat)) : Val :=
  .list (xs.map fun | none => .inf false | some r => .num r)

def handle : Handler
  | "pl.approx", [d, h, s, e, n] => do
    let dgms ← optDgms? d
    let hd ← asNat? h
    let start ← optOf? asRat? s
    let stop ← optOf? asRat? e
    let n ← asNat? n
    match persLandscapeApprox dgms hd start stop n with
    | .ok v => pure (ofValues v)
    | .error x => pure (err (errName x))
  | "pl.transform", [d, h, s, e, n, fl, ft] => do
    let X ← optDgms? d
    let hd ← asNat? h
    let start ← optOf? asRat? s
    let stop ← optOf? asRat? e
    let n ← asNat? n
    let flatten ← asBool? fl
    let fit ← asBool? ft
    let self : Landscaper Rat := { homDeg := hd, start := start, stop := stop, numSteps := n, flatten := flatten }
    match (if fit then self.fitTransform X else self.transform X) with
    | .ok (.values v) => pure (ofValues v)
    | .ok (.flat xs) => pure (ofRats xs)
    | .error x => pure (err (errName x))
  | "pl.vectorize", [c, s, e, n] => do
    let cps ← listOf? ratDgm? c
    let start ← optOf? asRat? s
    let stop ← optOf? asRat? e
    let n ← asNat? n
    match vectorize npInterp cps start stop n with
    | .ok m => pure (ofRatMat m)
    | .error x => pure (err (errName x))
  | "pl.death", [d, h] => do
    let dgms ← optDgms? d
    let hd ← asNat? h
    match deathVector dgms hd with
    | .ok xs => pure (ofOptRats xs)
    | .error x => pure (err (errName x))
  | "pl.lambda.grid", [b, s, e, n] => do
    let bars ← ratDgm? b
    let start ← asRat? s
    let stop ← asRat? e
    let n ← asNat? n
    pure (ofRatMat (lambdaGrid bars start stop n))
  | "pl.grid", [s, e, n] => do
    let start ← asRat? s
    let stop ← asRat? e
    let n ← asNat? n
    pure (.list [.num (stepOf start stop n), ofRats (linspace start stop n)])
  | "pl.snap", [s, e, n, xs] => do
    let start ← asRat? s
    let stop ← asRat? e
    let n ← asNat? n
    let xs ← listOf? asRat? xs
    pure (ofNats (xs.map (gridIndex (linspace start stop n))))
  | _, _ => none

end PersimVerif.Drv.Approx
