import PersimVerif.Drv.Util
/-! driver commands: Approx (stub until the model lands) -/
namespace PersimVerif.Drv.Approx
open PersimVerif Val PersimVerif.Drv

def handle : Handler
  | _, _ => none

end PersimVerif.Drv.Approx
