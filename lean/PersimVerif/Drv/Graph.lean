import PersimVerif.Drv.Util
import PersimVerif.Model.Graph
/-!
  driver commands for C17 (model `PersimVerif.Graph`, over `Nat`):

    gr.dist <A>            make_distance_matrix_from_adjacency_matrix: `[D, warned, bits]` | err:ValueError
    gr.distold <A>         the same before commit e3ee023 (rows-only fallback)
    gr.components <A>      `[n_components, labels, largest_label, members]` (scipy's labelling, np.unique/argmax)
    gr.inttype <v>         determine_optimal_int_type: bits | err:ValueError
    gr.symm <N> <vals>     np.zeros, upper triangle written in loop order, lower := transpose
    gr.gh <pair|coll> <As> <calls>
        the dispatch with `estimate` replaced by the RECORDED calls of the real run:
        calls = [[DX, DY, lb, ub], …] in call order.  The stub returns the k-th recorded result only if the
        model hands it the k-th recorded pair of distance matrices (else the marker -1), so the answer checks
        order of calls, the matrices passed, and the assembly of the result.  → `[lb, ub, k]` / `[lbs, ubs, k]`

  An entry of an adjacency matrix travels as the number the container holds (or T/F); the model only asks
  whether it is zero, so a rational `p/q` is read as the natural number `|p|`.
-/
namespace PersimVerif.Drv.Graph
open PersimVerif Val PersimVerif.Drv PersimVerif.Graph

def entryOf? : Val → Option Nat
  | .num r => some r.num.natAbs
  | .str "T" => some 1
  | .str "F" => some 0
  | _ => none

def natMat? : Val → Option Mat := matOf? entryOf?

def ofNatMat (m : Mat) : Val := .list (m.map ofNats)

def ofResult : Except Err DistResult → Val
  | .ok r => .list [ofNatMat r.dist, ofBool r.warned, Val.ofNat r.intType.bits]
  | .error _ => err "ValueError"

structure Call where
  dx : Mat
  dy : Mat
  lb : Rat
  ub : Rat

def callOf? : Val → Option Call
  | .list [a, b, l, u] => do pure ⟨← matOf? asNat? a, ← matOf? asNat? b, ← asRat? l, ← asRat? u⟩
  | _ => none

/-- `estimate` replayed from the recorded calls; the state is the number of calls made so far -/
def replayEst (calls : List Call) (k : Nat) (X Y : Mat) : (Rat × Rat) × Nat :=
  match calls[k]? with
  | some c => if c.dx == X && c.dy == Y then ((c.lb, c.ub), k + 1) else ((-1, -1), k + 1)
  | none => ((-2, -2), k + 1)

def handle : Handler
  | "gr.dist", [a] => do
    let A ← natMat? a
    pure (ofResult (makeDist A))
  | "gr.distold", [a] => do
    let A ← natMat? a
    pure (ofResult (makeDistOld A))
  | "gr.components", [a] => do
    let A ← natMat? a
    if isSquare A then
      let D := bfsAll (adjOf A)
      pure (.list [Val.ofNat (numComponents D), ofNats (labels D), Val.ofNat (largestLabel D),
                   ofNats (largestComponent D)])
    else pure (err "ValueError")
  | "gr.inttype", [v] => do
    let n ← asNat? v
    match optimalIntType n with
    | .ok t => pure (Val.ofNat t.bits)
    | .error _ => pure (err "ValueError")
  | "gr.symm", [n, vs] => do
    let N ← asNat? n
    let vals ← listOf? asRat? vs
    pure (ofRatMat (symmetrise N (0 : Rat) (upperVal 0 (pairsOf N) vals)))
  | "gr.gh", [mode, as, cs] => do
    let m ← asStr? mode
    let As ← listOf? natMat? as
    let calls ← listOf? callOf? cs
    let inp ← match m, As with
      | "pair", [G, H] => some (Input.pair G H)
      | "coll", _ => some (Input.coll As)
      | _, _ => none
    match gromovHausdorff (replayEst calls) (0 : Rat) inp 0 with
    | .error _ => pure (err "ValueError")
    | .ok (.pair lb ub, k) => pure (.list [.num lb, .num ub, Val.ofNat k])
    | .ok (.mats lbs ubs, k) => pure (.list [ofRatMat lbs, ofRatMat ubs, Val.ofNat k])
  | _, _ => none

end PersimVerif.Drv.Graph
