import PersimVerif.Lemmas.MatchingLaws
import PersimVerif.Lemmas.PermEquiv
import Mathlib.Analysis.SpecialFunctions.Pow.Real
import Mathlib.Analysis.SpecialFunctions.Sqrt
import Mathlib.Tactic.Linarith
import Mathlib.Tactic.Positivity

/-!
# C07 — metric and invariance laws of the bottleneck / Wasserstein costs, at any size

These are laws of the **specification** (`Spec.IsBottleneck`, `Spec.IsMinSum`: minimum over all
partial matchings) for the two concrete cost systems of persim:

* bottleneck:  pair cost `linf`, diagonal cost `(d-b)/2`;
* Wasserstein: pair cost `euclid`, diagonal cost `(d-b)/√2`.

A diagram is a finite family of points `S : M → ℝ × ℝ` (an index type, so multiplicities are
respected; for a list `l` take `M = Fin l.length`, `S = l.get`).  No size bound anywhere.
Properties C01 / C02 identify the values computed by the code's algorithms with these
specification values; the laws then transfer to the code's values.
-/
namespace PersimVerif.C07
open PersimVerif.Spec

noncomputable section
set_option linter.unusedSectionVars false
set_option linter.unusedSimpArgs false

abbrev Pt := ℝ × ℝ

/-- Euclidean distance between two diagram points -/
def euclid (p q : Pt) : ℝ := Real.sqrt ((p.1 - q.1) ^ 2 + (p.2 - q.2) ^ 2)

/-- perpendicular distance of `(b,d)` to the diagonal -/
def diagL2 (p : Pt) : ℝ := (p.2 - p.1) / Real.sqrt 2

variable {L M N : Type}

/-- bottleneck cost system of two diagrams -/
abbrev cB (S : M → Pt) (T : N → Pt) : M → N → ℝ := fun i j => linf (S i) (T j)
abbrev uB (S : M → Pt) : M → ℝ := fun i => diagInf (S i)
/-- Wasserstein cost system of two diagrams -/
abbrev cW (S : M → Pt) (T : N → Pt) : M → N → ℝ := fun i j => euclid (S i) (T j)
abbrev uW (S : M → Pt) : M → ℝ := fun i => diagL2 (S i)

/-- `d` is the bottleneck distance of the diagrams `S`, `T` -/
abbrev IsBn (S : M → Pt) (T : N → Pt) (d : ℝ) : Prop := IsBottleneck (cB S T) (uB S) (uB T) d
/-- `w` is the Wasserstein distance of the diagrams `S`, `T` -/
abbrev IsWs [Fintype M] [Fintype N] (S : M → Pt) (T : N → Pt) (w : ℝ) : Prop :=
  IsMinSum (cW S T) (uW S) (uW T) w

/-- a proper diagram: every point has `b ≤ d` -/
def Proper (S : M → Pt) : Prop := ∀ i, (S i).1 ≤ (S i).2

/-! ### facts about the two cost systems -/

theorem linf_comm (p q : Pt) : linf p q = linf q p := by
  simp only [linf, abs_sub_comm]

theorem linf_nonneg (p q : Pt) : 0 ≤ linf p q := le_max_of_le_left (abs_nonneg _)

theorem linf_self (p : Pt) : linf p p = 0 := by simp [linf]

theorem linf_triangle (p q r : Pt) : linf p r ≤ linf p q + linf q r := by
  unfold linf
  apply max_le
  · calc |p.1 - r.1| = |(p.1 - q.1) + (q.1 - r.1)| := by ring_nf
      _ ≤ |p.1 - q.1| + |q.1 - r.1| := abs_add_le _ _
      _ ≤ _ := add_le_add (le_max_left _ _) (le_max_left _ _)
  · calc |p.2 - r.2| = |(p.2 - q.2) + (q.2 - r.2)| := by ring_nf
      _ ≤ |p.2 - q.2| + |q.2 - r.2| := abs_add_le _ _
      _ ≤ _ := add_le_add (le_max_right _ _) (le_max_right _ _)

theorem diagInf_nonneg {p : Pt} (h : p.1 ≤ p.2) : 0 ≤ diagInf p := by
  unfold diagInf; linarith

/-- the diagonal cost is 1-Lipschitz for `linf` -/
theorem diagInf_lipschitz (p q : Pt) : diagInf p ≤ linf p q + diagInf q := by
  unfold diagInf linf
  have h1 : p.2 - q.2 ≤ max |p.1 - q.1| |p.2 - q.2| := (le_abs_self _).trans (le_max_right _ _)
  have h2 : q.1 - p.1 ≤ max |p.1 - q.1| |p.2 - q.2| :=
    (neg_le_abs _).trans' (by linarith) |>.trans (le_max_left _ _)
  linarith

theorem diagInf_of_diag {p : Pt} (h : p.1 = p.2) : diagInf p = 0 := by simp [diagInf, h]

theorem linf_translate (p q : Pt) (t : ℝ) : linf (p.1 + t, p.2 + t) (q.1 + t, q.2 + t) = linf p q := by
  simp [linf]

theorem diagInf_translate (p : Pt) (t : ℝ) : diagInf (p.1 + t, p.2 + t) = diagInf p := by
  simp [diagInf]

theorem linf_scale (p q : Pt) {l : ℝ} (hl : 0 ≤ l) :
    linf (l * p.1, l * p.2) (l * q.1, l * q.2) = l * linf p q := by
  simp only [linf, ← mul_sub, abs_mul, abs_of_nonneg hl]
  rw [mul_max_of_nonneg _ _ hl]

theorem diagInf_scale (p : Pt) (l : ℝ) : diagInf (l * p.1, l * p.2) = l * diagInf p := by
  simp only [diagInf]; ring

theorem euclid_comm (p q : Pt) : euclid p q = euclid q p := by
  unfold euclid; congr 1; ring

theorem euclid_nonneg (p q : Pt) : 0 ≤ euclid p q := Real.sqrt_nonneg _

theorem euclid_self (p : Pt) : euclid p p = 0 := by simp [euclid]

theorem euclid_triangle (p q r : Pt) : euclid p r ≤ euclid p q + euclid q r := by
  unfold euclid
  set a := p.1 - q.1 with ha
  set b := p.2 - q.2 with hb
  set c := q.1 - r.1 with hc
  set d := q.2 - r.2 with hd
  have e : (p.1 - r.1) ^ 2 + (p.2 - r.2) ^ 2 = (a + c) ^ 2 + (b + d) ^ 2 := by
    simp only [ha, hb, hc, hd]; ring
  rw [e, Real.sqrt_le_iff]
  have h1 : 0 ≤ a ^ 2 + b ^ 2 := by positivity
  have h2 : 0 ≤ c ^ 2 + d ^ 2 := by positivity
  refine ⟨add_nonneg (Real.sqrt_nonneg _) (Real.sqrt_nonneg _), ?_⟩
  have cs : a * c + b * d ≤ Real.sqrt (a ^ 2 + b ^ 2) * Real.sqrt (c ^ 2 + d ^ 2) := by
    rw [← Real.sqrt_mul h1]
    exact Real.le_sqrt_of_sq_le (by nlinarith [sq_nonneg (a * d - b * c)])
  have s1 := Real.sq_sqrt h1
  have s2 := Real.sq_sqrt h2
  nlinarith

theorem linf_le_euclid (p q : Pt) : linf p q ≤ euclid p q := by
  unfold linf euclid
  apply max_le
  · rw [← Real.sqrt_sq_eq_abs]; exact Real.sqrt_le_sqrt (by nlinarith [sq_nonneg (p.2 - q.2)])
  · rw [← Real.sqrt_sq_eq_abs]; exact Real.sqrt_le_sqrt (by nlinarith [sq_nonneg (p.1 - q.1)])

theorem diagL2_nonneg {p : Pt} (h : p.1 ≤ p.2) : 0 ≤ diagL2 p :=
  div_nonneg (by linarith) (Real.sqrt_nonneg _)

theorem diagInf_le_diagL2 {p : Pt} (h : p.1 ≤ p.2) : diagInf p ≤ diagL2 p := by
  unfold diagInf diagL2
  have h2 : Real.sqrt 2 ≤ 2 := by
    rw [show (2 : ℝ) = Real.sqrt 4 by rw [show (4 : ℝ) = 2 ^ 2 by norm_num, Real.sqrt_sq (by norm_num)]]
    exact Real.sqrt_le_sqrt (by norm_num)
  have hpos : 0 < Real.sqrt 2 := by positivity
  exact div_le_div_of_nonneg_left (by linarith) hpos h2

theorem diagL2_of_diag {p : Pt} (h : p.1 = p.2) : diagL2 p = 0 := by simp [diagL2, h]

/-- the perpendicular distance to the diagonal is 1-Lipschitz for the Euclidean distance -/
theorem diagL2_lipschitz (p q : Pt) : diagL2 p ≤ euclid p q + diagL2 q := by
  unfold diagL2 euclid
  have hpos : 0 < Real.sqrt 2 := by positivity
  have key : ((p.2 - p.1) - (q.2 - q.1)) / Real.sqrt 2 ≤ Real.sqrt ((p.1 - q.1) ^ 2 + (p.2 - q.2) ^ 2) := by
    rw [div_le_iff₀ hpos]
    by_cases hneg : (p.2 - p.1) - (q.2 - q.1) ≤ 0
    · exact hneg.trans (mul_nonneg (Real.sqrt_nonneg _) hpos.le)
    · push Not at hneg
      rw [← Real.sqrt_mul (by positivity), ← Real.sqrt_sq hneg.le]
      apply Real.sqrt_le_sqrt
      nlinarith [sq_nonneg ((p.1 - q.1) + (p.2 - q.2))]
  have : (p.2 - p.1) / Real.sqrt 2 = ((p.2 - p.1) - (q.2 - q.1)) / Real.sqrt 2 + (q.2 - q.1) / Real.sqrt 2 := by
    ring
  linarith

theorem euclid_translate (p q : Pt) (t : ℝ) : euclid (p.1 + t, p.2 + t) (q.1 + t, q.2 + t) = euclid p q := by
  simp [euclid]

theorem diagL2_translate (p : Pt) (t : ℝ) : diagL2 (p.1 + t, p.2 + t) = diagL2 p := by
  simp [diagL2]

theorem euclid_scale (p q : Pt) {l : ℝ} (hl : 0 ≤ l) :
    euclid (l * p.1, l * p.2) (l * q.1, l * q.2) = l * euclid p q := by
  unfold euclid
  have : (l * p.1 - l * q.1) ^ 2 + (l * p.2 - l * q.2) ^ 2 = l ^ 2 * ((p.1 - q.1) ^ 2 + (p.2 - q.2) ^ 2) := by
    ring
  rw [this, Real.sqrt_mul (sq_nonneg l), Real.sqrt_sq hl]

theorem diagL2_scale (p : Pt) (l : ℝ) : diagL2 (l * p.1, l * p.2) = l * diagL2 p := by
  simp only [diagL2]; ring

/-! ### the laws of C07, bottleneck -/

/-- **symmetry** -/
theorem bottleneck_symm (S : M → Pt) (T : N → Pt) {d : ℝ} (h : IsBn S T d) : IsBn T S d := by
  have e : cB T S = fun j i => cB S T i j := by funext j i; exact linf_comm _ _
  show IsBottleneck (cB T S) (uB T) (uB S) d
  rw [e]; exact IsBottleneck.symm h

/-- **non-negativity** -/
theorem bottleneck_nonneg (S : M → Pt) (T : N → Pt) {d : ℝ} (h : IsBn S T d) : 0 ≤ d := h.nonneg

/-- **zero between a diagram and any reordering of itself**: `T = S ∘ e⁻¹` for a bijection `e` of
    the index types (for lists: any permutation of the positions) -/
theorem bottleneck_reorder_zero (S : M → Pt) (e : M ≃ N) : IsBn S (S ∘ e.symm) 0 :=
  isBottleneck_zero_of_equiv _ _ _ e (fun i => by simp [cB, linf_self])

/-- **adding a point on the diagonal changes nothing** -/
theorem bottleneck_add_diagonal (S : M → Pt) (T : N → Pt) (a : ℝ) (d : ℝ) :
    IsBn S (fun o : Option N => o.elim (a, a) T) d ↔ IsBn S T d := by
  have := isBottleneck_option_iff (cB S (fun o : Option N => o.elim (a, a) T)) (uB S)
    (uB (fun o : Option N => o.elim (a, a) T)) (by simp [uB, diagInf]) (fun i => by
      have := diagInf_lipschitz (S i) (a, a)
      simpa [cB, diagInf] using this) d
  simpa [IsBn, cB, uB] using this

/-- **translation along the diagonal changes nothing** -/
theorem bottleneck_translate (S : M → Pt) (T : N → Pt) (t d : ℝ) :
    IsBn (fun i => ((S i).1 + t, (S i).2 + t)) (fun j => ((T j).1 + t, (T j).2 + t)) d ↔ IsBn S T d := by
  have e1 : cB (fun i => ((S i).1 + t, (S i).2 + t)) (fun j => ((T j).1 + t, (T j).2 + t)) = cB S T := by
    funext i j; exact linf_translate _ _ _
  have e2 : uB (fun i => ((S i).1 + t, (S i).2 + t)) = uB S := by funext i; exact diagInf_translate _ _
  have e3 : uB (fun j => ((T j).1 + t, (T j).2 + t)) = uB T := by funext j; exact diagInf_translate _ _
  show IsBottleneck _ _ _ d ↔ IsBottleneck _ _ _ d
  rw [e1, e2, e3]

/-- **linear scaling** (`l > 0`) -/
theorem bottleneck_scale (S : M → Pt) (T : N → Pt) {l d : ℝ} (hl : 0 < l) (h : IsBn S T d) :
    IsBn (fun i => (l * (S i).1, l * (S i).2)) (fun j => (l * (T j).1, l * (T j).2)) (l * d) := by
  have e1 : cB (fun i => (l * (S i).1, l * (S i).2)) (fun j => (l * (T j).1, l * (T j).2))
      = fun i j => l * cB S T i j := by funext i j; exact linf_scale _ _ hl.le
  have e2 : uB (fun i => (l * (S i).1, l * (S i).2)) = fun i => l * uB S i := by
    funext i; exact diagInf_scale _ _
  have e3 : uB (fun j => (l * (T j).1, l * (T j).2)) = fun j => l * uB T j := by
    funext j; exact diagInf_scale _ _
  show IsBottleneck _ _ _ (l * d)
  rw [e1, e2, e3]; exact IsBottleneck.smul hl h

/-- **against the empty diagram: max persistence / 2** (the least `d ≥ 0` above every `(d_i-b_i)/2`) -/
theorem bottleneck_vs_empty [IsEmpty N] (S : M → Pt) (T : N → Pt) (d : ℝ) :
    IsBn S T d ↔ (0 ≤ d ∧ ∀ i, ((S i).2 - (S i).1) / 2 ≤ d) ∧
      ∀ d', 0 ≤ d' → (∀ i, ((S i).2 - (S i).1) / 2 ≤ d') → d ≤ d' :=
  isBottleneck_empty_right _ _ _ d

/-- **triangle inequality** -/
theorem bottleneck_triangle_ineq (R : L → Pt) (S : M → Pt) (T : N → Pt) {d1 d2 d : ℝ}
    (h1 : IsBn R S d1) (h2 : IsBn S T d2) (h : IsBn R T d) : d ≤ d1 + d2 :=
  bottleneck_triangle (cLM := cB R S) (cMN := cB S T) (cLN := cB R T) (uL := uB R) (uM := uB S)
    (uN := uB T) (fun i j k => linf_triangle _ _ _) (fun i j => diagInf_lipschitz _ _)
    (fun j k => by
      have := diagInf_lipschitz (T k) (S j)
      have e := linf_comm (T k) (S j)
      show diagInf (T k) ≤ diagInf (S j) + linf (S j) (T k)
      linarith) h1 h2 h

/-! ### the laws of C07, Wasserstein -/
section Ws
variable [Fintype M] [Fintype N] [DecidableEq M] [DecidableEq N]

/-- **symmetry** -/
theorem wasserstein_symm (S : M → Pt) (T : N → Pt) {w : ℝ} (h : IsWs S T w) : IsWs T S w := by
  have e : cW T S = fun j i => cW S T i j := by funext j i; exact euclid_comm _ _
  show IsMinSum (cW T S) (uW T) (uW S) w
  rw [e]; exact IsMinSum.symm h

/-- **non-negativity** (proper diagrams) -/
theorem wasserstein_nonneg (S : M → Pt) (T : N → Pt) (hS : Proper S) (hT : Proper T) {w : ℝ}
    (h : IsWs S T w) : 0 ≤ w :=
  IsMinSum.nonneg (fun _ _ => euclid_nonneg _ _) (fun i => diagL2_nonneg (hS i)) (fun j => diagL2_nonneg (hT j)) h

/-- **zero between a diagram and any reordering of itself** -/
theorem wasserstein_reorder_zero (S : M → Pt) (hS : Proper S) (e : M ≃ N) : IsWs S (S ∘ e.symm) 0 :=
  isMinSum_zero_of_equiv _ _ _ (fun _ _ => euclid_nonneg _ _) (fun i => diagL2_nonneg (hS i))
    (fun j => diagL2_nonneg (hS _)) e (fun i => by simp [cW, euclid_self])

/-- **adding a point on the diagonal changes nothing** -/
theorem wasserstein_add_diagonal (S : M → Pt) (T : N → Pt) (a : ℝ) (w : ℝ) :
    IsWs S (fun o : Option N => o.elim (a, a) T) w ↔ IsWs S T w := by
  have := isMinSum_option_iff (cW S (fun o : Option N => o.elim (a, a) T)) (uW S)
    (uW (fun o : Option N => o.elim (a, a) T)) (by simp [uW, diagL2]) (fun i => by
      have := diagL2_lipschitz (S i) (a, a)
      simpa [cW, diagL2] using this) w
  simpa [IsWs, cW, uW] using this

/-- **translation along the diagonal changes nothing** -/
theorem wasserstein_translate (S : M → Pt) (T : N → Pt) (t w : ℝ) :
    IsWs (fun i => ((S i).1 + t, (S i).2 + t)) (fun j => ((T j).1 + t, (T j).2 + t)) w ↔ IsWs S T w := by
  have e1 : cW (fun i => ((S i).1 + t, (S i).2 + t)) (fun j => ((T j).1 + t, (T j).2 + t)) = cW S T := by
    funext i j; exact euclid_translate _ _ _
  have e2 : uW (fun i => ((S i).1 + t, (S i).2 + t)) = uW S := by funext i; exact diagL2_translate _ _
  have e3 : uW (fun j => ((T j).1 + t, (T j).2 + t)) = uW T := by funext j; exact diagL2_translate _ _
  show IsMinSum _ _ _ w ↔ IsMinSum _ _ _ w
  rw [e1, e2, e3]

/-- **linear scaling** (`l ≥ 0`) -/
theorem wasserstein_scale (S : M → Pt) (T : N → Pt) {l w : ℝ} (hl : 0 ≤ l) (h : IsWs S T w) :
    IsWs (fun i => (l * (S i).1, l * (S i).2)) (fun j => (l * (T j).1, l * (T j).2)) (l * w) := by
  have e1 : cW (fun i => (l * (S i).1, l * (S i).2)) (fun j => (l * (T j).1, l * (T j).2))
      = fun i j => l * cW S T i j := by funext i j; exact euclid_scale _ _ hl
  have e2 : uW (fun i => (l * (S i).1, l * (S i).2)) = fun i => l * uW S i := by
    funext i; exact diagL2_scale _ _
  have e3 : uW (fun j => (l * (T j).1, l * (T j).2)) = fun j => l * uW T j := by
    funext j; exact diagL2_scale _ _
  show IsMinSum _ _ _ (l * w)
  rw [e1, e2, e3]; exact IsMinSum.smul hl h

/-- **against the empty diagram: total persistence / √2** -/
theorem wasserstein_vs_empty [IsEmpty N] (S : M → Pt) (T : N → Pt) :
    IsWs S T (∑ i, ((S i).2 - (S i).1) / Real.sqrt 2) :=
  isMinSum_empty_right _ _ _

/-- **triangle inequality** (the middle diagram proper) -/
theorem wasserstein_triangle_ineq {L : Type} [Fintype L] [DecidableEq L] (R : L → Pt) (S : M → Pt) (T : N → Pt)
    (hS : Proper S) {w1 w2 w : ℝ} (h1 : IsWs R S w1) (h2 : IsWs S T w2) (h : IsWs R T w) : w ≤ w1 + w2 :=
  minSum_triangle (cLM := cW R S) (cMN := cW S T) (cLN := cW R T) (uL := uW R) (uM := uW S) (uN := uW T)
    (fun i j k => euclid_triangle _ _ _) (fun i j => diagL2_lipschitz _ _)
    (fun j k => by
      have := diagL2_lipschitz (T k) (S j)
      have e := euclid_comm (T k) (S j)
      show diagL2 (T k) ≤ diagL2 (S j) + euclid (S j) (T k)
      linarith)
    (fun _ _ => euclid_nonneg _ _) (fun j => diagL2_nonneg (hS j)) h1 h2 h

/-- **the bottleneck distance never exceeds the Wasserstein distance** (proper diagrams) -/
theorem bottleneck_le_wasserstein (S : M → Pt) (T : N → Pt) (hS : Proper S) (hT : Proper T) {d w : ℝ}
    (hB : IsBn S T d) (hW : IsWs S T w) : d ≤ w :=
  bottleneck_le_minSum (fun _ _ => linf_le_euclid _ _) (fun i => diagInf_le_diagL2 (hS i))
    (fun j => diagInf_le_diagL2 (hT j)) (fun _ _ => euclid_nonneg _ _) (fun i => diagL2_nonneg (hS i))
    (fun j => diagL2_nonneg (hT j)) hB hW

end Ws

/-! ### the same laws for diagrams given as lists (index type `Fin l.length`) -/

/-- **zero between a list diagram and any permutation of it** (bottleneck) -/
theorem bottleneck_perm_zero_list {l l' : List Pt} (h : l.Perm l') : IsBn l.get l'.get 0 := by
  obtain ⟨e, he⟩ := perm_exists_equiv h
  exact isBottleneck_zero_of_equiv _ _ _ e (fun i => by simp only [cB, he i, linf_self])

/-- **zero between a list diagram and any permutation of it** (Wasserstein) -/
theorem wasserstein_perm_zero_list {l l' : List Pt} (h : l.Perm l') (hl : ∀ p ∈ l, p.1 ≤ p.2) :
    IsWs l.get l'.get 0 := by
  obtain ⟨e, he⟩ := perm_exists_equiv h
  have hl' : ∀ p ∈ l', p.1 ≤ p.2 := fun p hp => hl p (h.symm.subset hp)
  exact isMinSum_zero_of_equiv _ _ _ (fun _ _ => euclid_nonneg _ _)
    (fun i => diagL2_nonneg (hl _ (List.get_mem l i))) (fun j => diagL2_nonneg (hl' _ (List.get_mem l' j)))
    e (fun i => by simp only [cW, he i, euclid_self])

/-! ### non-vacuity: the hypotheses are met by concrete diagrams -/

example : Proper (fun i : Fin 2 => if i = 0 then ((0 : ℝ), (3 : ℝ)) else (1, 4)) := by
  intro i; fin_cases i <;> norm_num

/-- a concrete value: one point against the empty diagram -/
example : IsBn (fun _ : Fin 1 => ((1 : ℝ), (5 : ℝ))) (Fin.elim0 : Fin 0 → Pt) 2 := by
  rw [bottleneck_vs_empty]
  refine ⟨⟨by norm_num, fun i => by norm_num⟩, fun d' _ h => ?_⟩
  have := h 0; norm_num at this; linarith

end

end PersimVerif.C07
