import PersimVerif.Model.Approx
import PersimVerif.Lemmas.ApproxKth
import PersimVerif.Lemmas.ApproxSnap
import PersimVerif.Lemmas.ApproxRamps
import PersimVerif.Lemmas.ApproxValues
import PersimVerif.Lemmas.ApproxGlue
import Mathlib.Data.Rat.Defs
import Mathlib.Tactic.NormNum

/-!
# C08 — grid landscapes stay within half a step of the true landscape

All statements are about `PersimVerif.Approx` (the model of `PersLandscapeApprox`,
`ndsnap_regular`, `vectorize`, `PersistenceLandscaper`, `death_vector`) instantiated at an arbitrary
linear ordered field `K` (so in particular at `ℚ`, which contains every finite float, and at `ℝ`).
Nothing here is about floating point.  `landscape bars k t` (Model/PLBase) is the mathematical
landscape: the `k`-th largest tent value at `t`, `0` beyond the number of bars.

All theorems are at full strength (every diagram of every size, every `num_steps ≥ 2`, every
covering grid, every depth and node); none is `_partial`:

* `kth_lipschitz`, `tent_lipschitz`, `snap_error` — the three analytic ingredients;
* `ramps_are_snapped_tents` — what the two ramp loops + sort + padding compute;
* `approx_shape`, `approx_rows`, `computeLandscape_half_step`, `computeLandscape_exact`,
  `approx_half_step`, `approx_half_step_default`, `approx_ok_inv`, `approx_errors`,
  `half_step_attained` — the property for `PersLandscapeApprox`, its glue (degree selection, `+∞`
  rows, default grid, error paths, which rows are returned) and the tightness of the constant `1/2`;
* `transformer_is_approx` (definitional restatement), `transformer_flat_entry`,
  `fit_transform_eq_transform` (diagrams with infinite bars included), `old_fit_inf_counterexample`;
* `vectorize_samples_evalPL` (given the `np.interp` contract) — about the landscape's OWN critical
  pairs: "samples of the true landscape" follows only where C03 certifies those critical pairs;
* `death_vector_sorted`, `death_vector_finite_sorted`, `death_vector_higher_degree`.

Repaired upstream defects mirrored here: /repo 357d745 (a grid on which no bar is visible gives one
zero row instead of the string placeholder `["empty"]` — `approx_rows` says which rows are returned)
and /repo b209c93 (`PersistenceLandscaper.fit` ignores points with an infinite coordinate —
`fit_transform_eq_transform` holds for such diagrams, `old_fit_inf_counterexample` shows the model
of the earlier code failing on `[(0,3),(1,4),(0,∞)]`).
-/
namespace PersimVerif.C08
open PersimVerif.PL PersimVerif.Approx PersimVerif.ApproxLemmas List

set_option linter.unusedSectionVars false

variable {K : Type} [Field K] [LinearOrder K] [IsStrictOrderedRing K]

/-- the node a coordinate is snapped to (`ndsnap_regular` followed by the `dict_grid` lookup) -/
def snapNode (s e : K) (n : Nat) (x : K) : K := node s e n (gridIndex (linspace s e n) x)

/-- the grid covers the diagram: every birth and death lies in `[start, stop]` -/
def Covers (s e : K) (bars : List (K × K)) : Prop :=
  ∀ p ∈ bars, s ≤ p.1 ∧ p.1 ≤ e ∧ s ≤ p.2 ∧ p.2 ≤ e

/-- every birth and death is a grid node -/
def OnGrid (s e : K) (n : Nat) (bars : List (K × K)) : Prop :=
  ∀ p ∈ bars, p.1 ∈ linspace s e n ∧ p.2 ∈ linspace s e n

/-! ### the k-th largest value is 1-Lipschitz -/

/-- **kth_lipschitz**: two lists of equal length whose entries differ by at most `ε` position by
    position have `k`-th largest values (0 beyond the length) that differ by at most `ε`. -/
theorem kth_lipschitz (x y : List K) (ε : K) (hε : 0 ≤ ε) (hlen : x.length = y.length)
    (h : ∀ i (hx : i < x.length) (hy : i < y.length), |x[i] - y[i]| ≤ ε) (k : Nat) :
    |kth x k - kth y k| ≤ ε := by
  apply kth_lipschitz_forall₂ _ hε
  exact forall₂_of_length_eq_of_get hlen (fun i h₁ h₂ => by simpa using h i h₁ h₂)

example : (0 : ℚ) ≤ 1 / 2 ∧ ([1, 5 / 2, 0] : List ℚ).length = ([3 / 2, 2, 1 / 4] : List ℚ).length ∧
    ∀ i (hx : i < 3) (hy : i < 3), |([1, 5 / 2, 0] : List ℚ)[i] - ([3 / 2, 2, 1 / 4] : List ℚ)[i]| ≤ 1 / 2 := by
  refine ⟨by norm_num, rfl, ?_⟩
  intro i hx _
  have : i = 0 ∨ i = 1 ∨ i = 2 := by omega
  rcases this with rfl | rfl | rfl <;> norm_num [abs_le]

/-! ### snapping -/

/-- **snap_error**: for `num_steps ≥ 2` and `start ≤ x ≤ stop` the node `x` is snapped to is within
    half a step of `x`; a coordinate that is a node is snapped to itself; and (`np.argmin`
    tie-break) no earlier node is as close as the chosen one. -/
theorem snap_error (s e : K) (n : Nat) (hn : 2 ≤ n) (x : K) :
    (s ≤ x → x ≤ e → |snapNode s e n x - x| ≤ stepOf s e n / 2) ∧
    (x ∈ linspace s e n → snapNode s e n x = x) ∧
    (snapIdx (linspace s e n) x < n ∧ snapNode s e n x = node s e n (snapIdx (linspace s e n) x) ∧
      ∀ j, j < snapIdx (linspace s e n) x →
        |node s e n (snapIdx (linspace s e n) x) - x| < |node s e n j - x|) := by
  refine ⟨fun hs he => snap_error_node hn x hs he, ?_, snapIdx_lt s e (by omega) x,
    node_gridIndex s e (by omega) x, fun j hj => snapIdx_first s e (by omega) x j hj⟩
  intro hx
  obtain ⟨j, hj, rfl⟩ := mem_linspace.mp hx
  exact snap_fixed_node (by omega) j hj

example : (2 : ℕ) ≤ 5 ∧ (0 : ℚ) ≤ 7 / 3 ∧ (7 / 3 : ℚ) ≤ 4 := by norm_num

/-! ### tents -/

/-- **tent_lipschitz**: moving birth and death by at most `δ` each moves the tent by at most `δ`. -/
theorem tent_lipschitz (b d b' d' δ : K) (hb : |b' - b| ≤ δ) (hd : |d' - d| ≤ δ) (t : K) :
    |tent b' d' t - tent b d t| ≤ δ := tent_lipschitz' hb hd t

example : |(1 : ℚ) - 5 / 4| ≤ 1 / 2 ∧ |(4 : ℚ) - 7 / 2| ≤ 1 / 2 := by
  constructor <;> norm_num [abs_le]

/-! ### the ramp loops write the tents of the snapped bars -/

/-- **ramps_are_snapped_tents**: after the two ramp loops, `W[i]` is — in the order of the bars —
    the list of the *positive* values at node `i` of the tents of the snapped bars; and entry
    `(k, i)` of the values array (after the per-node descending sort and the zero padding to `K`
    rows; `0` for rows that are not returned; one zero row when no bar is visible) is the `k`-th
    largest of the tent values of the snapped bars at node `i`. -/
theorem ramps_are_snapped_tents (bars : List (K × K)) (s e : K) (n : Nat) (hse : s ≤ e) (hn : 2 ≤ n)
    (i : Nat) (hi : i < n) :
    (rampsW bars s e n)[i]? =
      some ((bars.map fun p => tent (snapNode s e n p.1) (snapNode s e n p.2) (node s e n i)).filter
        fun x => decide (0 < x)) ∧
    ∀ k, (computeLandscape bars s e n).entry k i =
      kth (bars.map fun p => tent (snapNode s e n p.1) (snapNode s e n p.2) (node s e n i)) k := by
  have hW : (rampsW bars s e n)[i]? =
      some ((bars.map fun p => tent (snapNode s e n p.1) (snapNode s e n p.2) (node s e n i)).filter
        fun x => decide (0 < x)) := by
    rw [rampsW_getElem? bars s e n i hi, ← flatMap_filter_singleton]
    congr 1
    apply List.flatMap_congr
    intro p _
    apply contrib_eq_tent
    rcases hse.lt_or_eq with hlt | heq
    · exact Or.inl (stepOf_pos hlt hn)
    · subst heq
      right
      rw [gridIndex_const s (by omega), gridIndex_const s (by omega)]
  refine ⟨hW, fun k => ?_⟩
  unfold computeLandscape
  rw [entry_valuesOfW _ k i _ hW]
  apply kth_filter_pos
  intro x hx
  obtain ⟨p, _, rfl⟩ := List.mem_map.mp hx
  exact tent_nonneg _ _ _

example : (0 : ℚ) ≤ 4 ∧ (2 : ℕ) ≤ 5 ∧ (2 : ℕ) < 5 := by norm_num

/-- every returned row has `num_steps` entries -/
theorem approx_shape (bars : List (K × K)) (s e : K) (n : Nat) :
    ∀ row ∈ (computeLandscape bars s e n).rows, row.length = n := by
  intro row hrow
  have := rows_valuesOfW_length (rampsW bars s e n) row hrow
  rwa [rampsW_length] at this

/-- **approx_rows** (which rows are returned).  The values array always has at least one row
    (`max_depth ≥ 1`); the number of rows is `max 1 K` with `K` the largest number of values any node
    received; and if no snapped bar is visible at any node (`K = 0`: every snapped tent vanishes at
    every node — e.g. every bar shorter than a step), the array is exactly ONE ZERO ROW
    `np.zeros((1, num_steps))` — the zero function, as every other statement here reads it. -/
theorem approx_rows (bars : List (K × K)) (s e : K) (n : Nat) :
    (computeLandscape bars s e n).rows ≠ [] ∧
    (computeLandscape bars s e n).rows.length = max 1 (((rampsW bars s e n).map List.length).foldl max 0) ∧
    (s ≤ e → 2 ≤ n →
      (∀ i, i < n → ∀ p ∈ bars, tent (snapNode s e n p.1) (snapNode s e n p.2) (node s e n i) = 0) →
      (computeLandscape bars s e n).rows = [List.replicate n 0]) := by
  refine ⟨rows_valuesOfW_ne_nil _, valuesOfW_rows_length _, fun hse hn h => ?_⟩
  unfold computeLandscape
  have hall : ∀ w ∈ rampsW bars s e n, w = [] := by
    intro w hw
    obtain ⟨i, hi, rfl⟩ := List.getElem_of_mem hw
    have hi' : i < n := by rwa [rampsW_length] at hi
    have h1 := (ramps_are_snapped_tents bars s e n hse hn i hi').1
    rw [List.getElem?_eq_getElem hi] at h1
    rw [Option.some.inj h1, List.filter_eq_nil_iff]
    intro x hx
    obtain ⟨p, hp, rfl⟩ := List.mem_map.mp hx
    rw [h i hi' p hp]
    simp
  rw [valuesOfW_all_nil _ hall, rampsW_length]

/-- non-vacuity of the zero-row clause: the bar `(1, 3/2)` is shorter than the step of the grid
    `0, 2, 4`; both ends snap to node 1 — and the model returns one zero row -/
example : (0 : ℚ) ≤ 4 ∧ (2 : ℕ) ≤ 3 ∧
    (computeLandscape [((1 : ℚ), (3 / 2 : ℚ))] 0 4 3).rows = [[0, 0, 0]] := by
  refine ⟨by norm_num, by norm_num, by decide +kernel⟩

/-! ### the half-step bound -/

/-- the bound for `compute_landscape` on an explicit grid -/
theorem computeLandscape_half_step (bars : List (K × K)) (s e : K) (n : Nat) (hn : 2 ≤ n) (hse : s ≤ e)
    (hcov : Covers s e bars) (k i : Nat) (hi : i < n) :
    |(computeLandscape bars s e n).entry k i - landscape bars k (node s e n i)| ≤ stepOf s e n / 2 := by
  rw [(ramps_are_snapped_tents bars s e n hse hn i hi).2 k]
  unfold landscape
  apply kth_map_lipschitz
  · intro p hp
    obtain ⟨h1, h2, h3, h4⟩ := hcov p hp
    exact tent_lipschitz' (snap_error_node hn p.1 h1 h2) (snap_error_node hn p.2 h3 h4) _
  · exact div_nonneg (stepOf_nonneg hse n) (by norm_num)

/-- exactness when every endpoint is a node -/
theorem computeLandscape_exact (bars : List (K × K)) (s e : K) (n : Nat) (hn : 2 ≤ n) (hse : s ≤ e)
    (hgrid : OnGrid s e n bars) (k i : Nat) (hi : i < n) :
    (computeLandscape bars s e n).entry k i = landscape bars k (node s e n i) := by
  rw [(ramps_are_snapped_tents bars s e n hse hn i hi).2 k]
  unfold landscape
  congr 1
  apply List.map_congr_left
  intro p hp
  obtain ⟨h1, h2⟩ := hgrid p hp
  have e1 : snapNode s e n p.1 = p.1 := ((snap_error s e n hn p.1).2.1) h1
  have e2 : snapNode s e n p.2 = p.2 := ((snap_error s e n hn p.2).2.1) h2
  rw [e1, e2]

/-- **approx_half_step** (the property, for the constructor as called by the user).
    Let `d = dgms[hom_deg]`, `bars` its rows without `+∞`, and `[s, e]` the grid the constructor
    uses (`start`/`stop` as given, else minimum birth / maximum death).  If `num_steps ≥ 2`,
    `s ≤ e` and the grid covers every birth and death, then the constructor succeeds, every returned
    row has `num_steps` entries, there is at least one row (a single zero row when no bar is visible
    on the grid, see `approx_rows`), and every entry `(k, i)` — rows beyond those returned counting
    as zero — is within `step/2` of the true landscape `λ_k(g_i)`; if moreover every endpoint is a
    node, it is equal to it. -/
theorem approx_half_step (dgms : List (Dgm K)) (homDeg : Nat) (d : Dgm K) (hdeg : dgms[homDeg]? = some d)
    (start stop : Option K) (s e : K)
    (hs : resolveStart start (finiteBars d) = some s) (he : resolveStop stop (finiteBars d) = some e)
    (n : Nat) (hn : 2 ≤ n) (hse : s ≤ e) (hcov : Covers s e (finiteBars d)) :
    ∃ v, persLandscapeApprox dgms homDeg start stop n = .ok v ∧
      (∀ row ∈ v.rows, row.length = n) ∧ v.rows ≠ [] ∧
      (∀ k i, i < n →
        |v.entry k i - landscape (finiteBars d) k (node s e n i)| ≤ stepOf s e n / 2) ∧
      (OnGrid s e n (finiteBars d) → ∀ k i, i < n →
        v.entry k i = landscape (finiteBars d) k (node s e n i)) := by
  refine ⟨computeLandscape (finiteBars d) s e n, ?_, approx_shape _ s e n, (approx_rows _ s e n).1,
    fun k i hi => computeLandscape_half_step _ s e n hn hse hcov k i hi,
    fun hg k i hi => computeLandscape_exact _ s e n hn hse hg k i hi⟩
  have hne : dgms.isEmpty = false := by
    cases dgms with
    | nil => simp at hdeg
    | cons _ _ => rfl
  have hn0 : n ≠ 0 := by omega
  simp [persLandscapeApprox, hne, hdeg, hs, he, hn0]

/-- what a successful constructor call computed (`hom_deg` selects the diagram, rows with `+∞` are
    removed, the grid is the one given or the default one, `num_steps ≠ 0`) -/
theorem approx_ok_inv {dgms : List (Dgm K)} {homDeg : Nat} {start stop : Option K} {n : Nat} {v : Values K}
    (h : persLandscapeApprox dgms homDeg start stop n = .ok v) :
    ∃ d s e, dgms[homDeg]? = some d ∧ resolveStart start (finiteBars d) = some s ∧
      resolveStop stop (finiteBars d) = some e ∧ n ≠ 0 ∧ v = computeLandscape (finiteBars d) s e n := by
  unfold persLandscapeApprox at h
  by_cases h0 : dgms.isEmpty = true
  · simp [h0] at h
  · cases h1 : dgms[homDeg]? with
    | none => simp [h0, h1] at h
    | some d =>
      cases h2 : resolveStart start (finiteBars d) with
      | none => simp [h0, h1, h2] at h
      | some s =>
        cases h3 : resolveStop stop (finiteBars d) with
        | none => simp [h0, h1, h2, h3] at h
        | some e =>
          by_cases h4 : n = 0
          · simp [h0, h1, h2, h3, h4] at h
          · simp only [h0, h1, h2, h3, h4, Bool.false_eq_true, ↓reduceIte, Except.ok.injEq] at h
            exact ⟨d, s, e, rfl, h2, h3, h4, h.symm⟩

/-- with the default grid (no `start`/`stop`) a non-empty diagram with `b ≤ d` for every finite bar is
    always covered: the bound holds with `s` = minimum birth and `e` = maximum death. -/
theorem approx_half_step_default (dgms : List (Dgm K)) (homDeg : Nat) (d : Dgm K)
    (hdeg : dgms[homDeg]? = some d) (hne : finiteBars d ≠ []) (hbd : ∀ p ∈ finiteBars d, p.1 ≤ p.2)
    (n : Nat) (hn : 2 ≤ n) :
    ∃ s e v, minBirth (finiteBars d) = some s ∧ maxDeath (finiteBars d) = some e ∧
      persLandscapeApprox dgms homDeg none none n = .ok v ∧
      ∀ k i, i < n → |v.entry k i - landscape (finiteBars d) k (node s e n i)| ≤ stepOf s e n / 2 := by
  obtain ⟨s, hs⟩ : ∃ s, minBirth (finiteBars d) = some s := by
    cases h : finiteBars d with
    | nil => exact absurd h hne
    | cons a t => exact ⟨_, rfl⟩
  obtain ⟨e, he⟩ : ∃ e, maxDeath (finiteBars d) = some e := by
    cases h : finiteBars d with
    | nil => exact absurd h hne
    | cons a t => exact ⟨_, rfl⟩
  obtain ⟨⟨p, hp, hps⟩, hmin⟩ := minBirth_spec _ s hs
  obtain ⟨_, hmax⟩ := maxDeath_spec _ e he
  have hse : s ≤ e := by rw [← hps]; exact le_trans (hbd p hp) (hmax p hp)
  have hcov : Covers s e (finiteBars d) := fun q hq =>
    ⟨hmin q hq, le_trans (hbd q hq) (hmax q hq), le_trans (hmin q hq) (hbd q hq), hmax q hq⟩
  obtain ⟨v, hv, _, _, hb, _⟩ := approx_half_step dgms homDeg d hdeg none none s e hs he n hn hse hcov
  exact ⟨s, e, v, hs, he, hv, hb⟩

/-- what the constructor rejects (the model mirrors the code's error paths): no diagrams at all,
    a missing degree, an empty (after removing `+∞`) diagram without `start` or without `stop`,
    `num_steps = 0`. -/
theorem approx_errors (dgms : List (Dgm K)) (homDeg : Nat) (start stop : Option K) (n : Nat) :
    (dgms = [] → persLandscapeApprox dgms homDeg start stop n = .error .noDiagrams) ∧
    (dgms ≠ [] → dgms[homDeg]? = none → persLandscapeApprox dgms homDeg start stop n = .error .homDeg) ∧
    (∀ d, dgms[homDeg]? = some d → finiteBars d = [] → (start = none ∨ stop = none) →
      persLandscapeApprox dgms homDeg start stop n = .error .emptyDiagram) ∧
    (∀ d s e, dgms[homDeg]? = some d → resolveStart start (finiteBars d) = some s →
      resolveStop stop (finiteBars d) = some e → n = 0 →
      persLandscapeApprox dgms homDeg start stop n = .error .noSteps) := by
  refine ⟨?_, ?_, ?_, ?_⟩
  · intro h; subst h; simp [persLandscapeApprox]
  · intro h1 h2
    have : dgms.isEmpty = false := by cases dgms <;> simp_all
    simp [persLandscapeApprox, this, h2]
  · intro d h1 h2 h3
    have : dgms.isEmpty = false := by cases dgms <;> simp_all
    unfold persLandscapeApprox
    simp only [this, h1, h2, Bool.false_eq_true, ↓reduceIte]
    rcases h3 with rfl | rfl
    · simp [resolveStart, minBirth]
    · cases hs : resolveStart start ([] : List (K × K)) <;> simp [resolveStop, maxDeath]
  · intro d s e h1 h2 h3 h4
    have : dgms.isEmpty = false := by cases dgms <;> simp_all
    simp [persLandscapeApprox, this, h1, h2, h3, h4]

/-- non-vacuity of `approx_half_step`: a diagram with an infinite bar (removed) and a bar whose
    endpoints sit on midpoints between nodes, on the covering grid `[0, 4]` with 5 nodes; the
    constructor's answer, computed by the kernel -/
example : ∃ d, ([[(some (1 / 2 : ℚ), some (7 / 2 : ℚ)), (some 0, none)]] : List (Dgm ℚ))[0]? = some d ∧
    resolveStart (some 0) (finiteBars d) = some 0 ∧ resolveStop (some 4) (finiteBars d) = some 4 ∧
    (2 : ℕ) ≤ 5 ∧ (0 : ℚ) ≤ 4 ∧ Covers 0 4 (finiteBars d) ∧
    persLandscapeApprox [[(some (1 / 2 : ℚ), some (7 / 2 : ℚ)), (some 0, none)]] 0 (some 0) (some 4) 5
      = .ok (.mat [[0, 1, 1, 0, 0]]) := by
  refine ⟨_, rfl, rfl, rfl, by norm_num, by norm_num, ?_, by decide +kernel⟩
  intro p hp
  have : p = ((1 / 2 : ℚ), (7 / 2 : ℚ)) := by simpa [finiteBars] using hp
  subst this; norm_num

/-- non-vacuity of `approx_half_step_default` -/
example : finiteBars [(some (1 / 2 : ℚ), some (7 / 2 : ℚ)), (some 0, none)] ≠ [] ∧
    ∀ p ∈ finiteBars [(some (1 / 2 : ℚ), some (7 / 2 : ℚ)), (some 0, none)], p.1 ≤ p.2 := by
  refine ⟨by simp [finiteBars], ?_⟩
  intro p hp
  have : p = ((1 / 2 : ℚ), (7 / 2 : ℚ)) := by simpa [finiteBars] using hp
  subst this; norm_num

/-- non-vacuity: an off-grid diagram, covered by the grid `[0, 4]` with 5 nodes, with a bar whose
    endpoints sit exactly on midpoints between nodes -/
example : (2 : ℕ) ≤ 5 ∧ (0 : ℚ) ≤ 4 ∧ Covers (0 : ℚ) 4 [(1 / 2, 7 / 2), (1, 4), (5 / 4, 2)] := by
  refine ⟨by norm_num, by norm_num, ?_⟩
  intro p hp
  simp only [List.mem_cons, List.not_mem_nil, or_false] at hp
  rcases hp with rfl | rfl | rfl <;> norm_num

/-- non-vacuity of the on-grid clause -/
example : OnGrid (0 : ℚ) 4 5 [(0, 3), (1, 4)] := by
  intro p hp
  simp only [List.mem_cons, List.not_mem_nil, or_false] at hp
  rcases hp with rfl | rfl <;> constructor <;> rw [mem_linspace]
  · exact ⟨0, by norm_num, by norm_num [node, stepOf]⟩
  · exact ⟨3, by norm_num, by norm_num [node, stepOf]⟩
  · exact ⟨1, by norm_num, by norm_num [node, stepOf]⟩
  · exact ⟨4, by norm_num, by norm_num [node, stepOf]⟩

/-- **the bound is attained**: the bar `(1/2, 7/2)` on the grid `0,1,2,3,4` has both endpoints on
    midpoints; `np.argmin` snaps them to nodes `0` and `3`, the sampled value at node `2` is `1`, the
    true landscape there is `3/2`, and `step/2 = 1/2`. -/
theorem half_step_attained :
    (computeLandscape [((1 / 2 : ℚ), (7 / 2 : ℚ))] 0 4 5).rows = [[0, 1, 1, 0, 0]] ∧
    landscape [((1 / 2 : ℚ), (7 / 2 : ℚ))] 0 (node (0 : ℚ) 4 5 2) = 3 / 2 ∧
    stepOf (0 : ℚ) 4 5 / 2 = 1 / 2 := by
  refine ⟨by decide +kernel, by decide +kernel, by decide +kernel⟩

/-- concrete runs of the model (the docstring example of the class; a second depth; one zero row) -/
example : (computeLandscape [((0 : ℚ), (2 : ℚ)), (2, 4)] 0 4 5).rows = [[0, 1, 0, 1, 0]] := by
  decide +kernel

example : (computeLandscape [((1 : ℚ), (3 : ℚ))] 0 4 2).rows = [[0, 0]] := by decide +kernel

/-! ### the transformer -/

/-- **transformer_is_approx** (a definitional restatement of the model of `transform`, kept so that
    the correspondence of that model with the real `PersistenceLandscaper.transform` has a named
    statement; it carries no property clause of its own): `transform` returns exactly the values of
    `PersLandscapeApprox` with the transformer's parameters — the array itself, or (on request) its
    row-major flattening; errors are passed on. -/
theorem transformer_is_approx (self : Landscaper K) (X : List (Dgm K)) :
    self.transform X =
      match persLandscapeApprox X self.homDeg self.start self.stop self.numSteps with
      | .error err => .error err
      | .ok v =>
        if self.flatten then .ok (.flat v.rows.flatten)
        else .ok (.values v) := by
  unfold Landscaper.transform
  rfl

/-- … and the flattening is row-major: entry `k*num_steps + i` of the flat vector is entry `(k, i)`. -/
theorem transformer_flat_entry (self : Landscaper K) (X : List (Dgm K)) (v : Values K)
    (hv : persLandscapeApprox X self.homDeg self.start self.stop self.numSteps = .ok v)
    (hfl : self.flatten = true) :
    self.transform X = .ok (.flat v.rows.flatten) ∧
    ∀ k i, i < self.numSteps → v.rows.flatten[k * self.numSteps + i]? = (v.rows[k]?).bind (·[i]?) := by
  constructor
  · rw [transformer_is_approx, hv]; simp [hfl]
  · have hrows : ∀ row ∈ v.rows, row.length = self.numSteps := by
      obtain ⟨d, s, e, _, _, _, _, hveq⟩ := approx_ok_inv hv
      intro row hrow
      exact approx_shape (finiteBars d) s e self.numSteps row (by rw [← hveq]; exact hrow)
    intro k i hi
    exact flatten_getElem? v.rows self.numSteps hrows k i hi

/-- non-vacuity of `transformer_flat_entry` (a diagram with an infinite bar) -/
example : persLandscapeApprox [[(some (1 / 2 : ℚ), some (7 / 2 : ℚ)), (some 0, none)]] 0 none none 4
    = .ok (.mat [[0, 1, 1, 0]]) := by decide +kernel

/-- **fit_transform_eq_transform**: `fit_transform` on a fresh transformer is `transform` with the
    grid learnt from the points of `X[hom_deg]` that have finite coordinates — which is the grid the
    constructor itself would choose (it removes the same rows): the two calls agree whenever the
    degree is present, for diagrams WITH infinite bars as well (/repo fix b209c93). -/
theorem fit_transform_eq_transform (self : Landscaper K) (X : List (Dgm K)) (d : Dgm K)
    (hdeg : X[self.homDeg]? = some d) : self.fitTransform X = self.transform X := by
  have hne : X.isEmpty = false := by
    cases X with
    | nil => simp at hdeg
    | cons _ _ => rfl
  unfold Landscaper.fitTransform Landscaper.fit Landscaper.transform persLandscapeApprox
  simp only [hdeg, hne]
  cases h1 : resolveStart self.start (finiteBars d) with
  | none => simp
  | some s =>
    cases h2 : resolveStop self.stop (finiteBars d) with
    | none => simp
    | some e =>
      simp only [hdeg, resolveStart, resolveStop]

/-- non-vacuity: a diagram with an infinite bar, `[(0,2),(2,4),(0,∞)]`, has the degree present; the
    model's `fit_transform` succeeds on it with the grid `[0, 4]` of the finite bars -/
example : ([[(some (0 : ℚ), some (2 : ℚ)), (some 2, some 4), (some 0, none)]] : List (Dgm ℚ))[0]? =
      some [(some 0, some 2), (some 2, some 4), (some 0, none)] ∧
    ({ homDeg := 0, start := none, stop := none, numSteps := 5, flatten := false } : Landscaper ℚ).fitTransform
        [[(some (0 : ℚ), some (2 : ℚ)), (some 2, some 4), (some 0, none)]] =
      .ok (.values (.mat [[0, 1, 0, 1, 0]])) := by
  refine ⟨rfl, ?_⟩
  decide +kernel

/-- **old_fit_inf_counterexample** (regression witness for the model of the code before /repo fix
    b209c93): there `fit` learnt `stop = +∞` from the infinite bar of `[(0,3),(1,4),(0,∞)]` and
    `fit_transform` raised (`KeyError(nan)`), while `transform` with the constructor's own default
    grid succeeds on the same input — the two calls disagreed. -/
theorem old_fit_inf_counterexample :
    let self : Landscaper ℚ := { homDeg := 0, start := none, stop := none, numSteps := 5, flatten := false }
    let X : List (Dgm ℚ) := [[(some 0, some 3), (some 1, some 4), (some 0, none)]]
    self.fitTransformOld X = .error .keyError ∧
    (∃ v, self.transform X = .ok (.values v)) ∧ (∃ v, self.fitTransform X = .ok (.values v)) := by
  refine ⟨rfl, ⟨_, rfl⟩, ⟨_, rfl⟩⟩

/-! ### vectorize -/

/-- **vectorize_samples_evalPL**: let `interp` obey the `np.interp` contract (it computes clamped
    linear interpolation, `npInterp`, whenever the abscissae increase).  For an exact landscape whose
    depths have increasing abscissae and zero first and last values, `vectorize` returns for every
    depth `k` and node `i` the value of the piecewise-linear depth function at that node:
    `evalPL cps[k] g_i`.  This is a statement about the landscape's OWN critical pairs; that these are
    the true landscape `λ_k` is C03's statement (`C03.certify_sound` per diagram), and fails where the
    repeated-bar shortcut of `compute_landscape` fires (known finding, replayed by the C08 check). -/
theorem vectorize_samples_evalPL (interp : List (K × K) → K → K)
    (hinterp : ∀ l t, Increasing l → interp l t = npInterp l t)
    (cps : List (List (K × K))) (hwf : ∀ l ∈ cps, Increasing l ∧ FirstZero l ∧ LastZero l)
    (start stop : Option K) (n : Nat) (m : List (List K))
    (hv : vectorize interp cps start stop n = .ok m) :
    ∃ d0 rest s e, cps = d0 :: rest ∧
      (start = some s ∨ (start = none ∧ minAbscissa d0 = some s)) ∧
      (stop = some e ∨ (stop = none ∧ maxAbscissa d0 = some e)) ∧ s ≤ e ∧ n ≠ 0 ∧
      m = cps.map fun depth => (linspace s e n).map fun t => evalPL depth t := by
  unfold vectorize at hv
  cases cps with
  | nil => simp at hv
  | cons d0 rest =>
    simp only at hv
    have hstart : ∀ s, optOr start (minAbscissa d0) = some s →
        (start = some s ∨ (start = none ∧ minAbscissa d0 = some s)) := by
      intro s h; cases start with
      | none => exact Or.inr ⟨rfl, h⟩
      | some s' => left; simpa [optOr] using h
    have hstop : ∀ e, optOr stop (maxAbscissa d0) = some e →
        (stop = some e ∨ (stop = none ∧ maxAbscissa d0 = some e)) := by
      intro e h; cases stop with
      | none => exact Or.inr ⟨rfl, h⟩
      | some e' => left; simpa [optOr] using h
    cases h1 : optOr start (minAbscissa d0) with
    | none => simp [h1] at hv
    | some s =>
      cases h2 : optOr stop (maxAbscissa d0) with
      | none => simp [h1, h2] at hv
      | some e =>
        simp only [h1, h2] at hv
        by_cases c1 : ((d0 :: rest).any List.isEmpty) = true
        · simp [c1] at hv
        · by_cases c2 : n = 0
          · simp [c1, c2] at hv
          · by_cases c3 : e < s
            · simp [c1, c2, c3] at hv
            · simp only [c1, c2, c3, Bool.false_eq_true, ↓reduceIte, Except.ok.injEq] at hv
              refine ⟨d0, rest, s, e, rfl, hstart s h1, hstop e h2, not_lt.mp c3, c2, ?_⟩
              rw [← hv]
              apply List.map_congr_left
              intro depth hdepth
              apply List.map_congr_left
              intro t _
              obtain ⟨w1, w2, w3⟩ := hwf depth hdepth
              rw [hinterp depth t w1, npInterp_eq_evalPL depth w1 w2 w3 t]

/-- the contract is satisfiable (by the function the driver runs), and a tent-shaped depth meets
    the well-formedness hypotheses -/
example : (∀ (l : List (ℚ × ℚ)) t, Increasing l → npInterp l t = npInterp l t) ∧
    Increasing [((0 : ℚ), (0 : ℚ)), (3 / 2, 3 / 2), (3, 0)] ∧
    FirstZero [((0 : ℚ), (0 : ℚ)), (3 / 2, 3 / 2), (3, 0)] ∧
    LastZero [((0 : ℚ), (0 : ℚ)), (3 / 2, 3 / 2), (3, 0)] := by
  refine ⟨fun _ _ _ => rfl, ?_, ?_, ?_⟩
  · simp only [Increasing, List.pairwise_cons, List.mem_cons, List.not_mem_nil, or_false,
      forall_eq_or_imp, forall_eq, IsEmpty.forall_iff, implies_true, List.Pairwise.nil, and_true]
    norm_num
  · intro p hp; simp at hp; rw [← hp]
  · intro p hp; simp at hp; rw [← hp]

/-- a concrete run of `vectorize` on that depth with the default grid -/
example : vectorize npInterp [[((0 : ℚ), (0 : ℚ)), (3 / 2, 3 / 2), (3, 0)]] none none 3 = .ok [[0, 3 / 2, 0]] := by
  decide +kernel

/-! ### the death vector -/

/-- **death_vector_sorted**: in degree 0 the death vector is a permutation of the deaths of the
    diagram, in non-increasing order (`+∞` first). -/
theorem death_vector_sorted (dgms : List (Dgm K)) (d : Dgm K) (hd : dgms[0]? = some d) :
    ∃ v, deathVector dgms 0 = .ok v ∧ v.Perm (d.map (·.2)) ∧ v.Pairwise (fun a b => geOpt a b = true) := by
  refine ⟨(d.map (·.2)).mergeSort geOpt, by simp [deathVector, hd], List.mergeSort_perm _ _, ?_⟩
  exact List.pairwise_mergeSort geOpt_trans geOpt_total _

/-- for finite deaths the order is the usual one -/
theorem death_vector_finite_sorted (v : List (Option K)) (h : v.Pairwise (fun a b => geOpt a b = true))
    (vals : List K) (hv : v = vals.map some) : vals.Pairwise (· ≥ ·) := by
  subst hv
  rw [List.pairwise_map] at h
  refine h.imp ?_
  intro a b hab
  simpa [geOpt] using hab

/-- other degrees are rejected -/
theorem death_vector_higher_degree (dgms : List (Dgm K)) (h : Nat) (hh : h ≠ 0) :
    deathVector dgms h = .error .notImplemented := by
  simp [deathVector, hh]

end PersimVerif.C08
