import PersimVerif.Model.Approx
/-! # C08 (theorems land here) -/
namespace PersimVerif.C08
end PersimVerif.C08
