import PersimVerif.Model.Imager
/-! # C12 (theorems land in the next commits; this first one is the regression witness) -/
namespace PersimVerif.C12
open PersimVerif.Imager

deriving instance DecidableEq for Except

/-- the constructor before e840b92 on the default ranges with `pixel_size = 3/10`: three pixels,
    width 1 ≠ 3·(3/10), mesh step 13/40 ≠ 3/10 -/
theorem ctor_old_counterexample :
    ctorOld Rat.floor (0 : Rat) 1 0 1 (3/10) = .ok ⟨0, 1, 0, 1, 3/10, 1, 1, 3, 3⟩ ∧
      meshB (⟨0, 1, 0, 1, 3/10, 1, 1, 3, 3⟩ : State Rat) = [0, 13/40, 13/20, 39/40] := by
  constructor <;> decide +kernel

end PersimVerif.C12
