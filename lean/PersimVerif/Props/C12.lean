import PersimVerif.Model.Imager
import PersimVerif.Model.Transformers
import PersimVerif.Lemmas.Imager
import PersimVerif.Lemmas.ImagerFit
import PersimVerif.Lemmas.ImagerMesh
import PersimVerif.Props.C04
import Mathlib.Data.Rat.Floor

/-!
# C12 — the imager's geometry stays self-consistent under any configuration history

All statements are about `PersimVerif.Imager` (the model of `PersistenceImager`'s geometry,
`Model/Imager.lean`) instantiated at an arbitrary linear ordered field `K` with a floor function
(`ℚ` — every finite float is one —, `ℝ`, …) and `ceil := Int.ceil`.  Nothing here is about floating
point: the repaired `int(width/pixel_size)` setter defect was a pure rounding effect and is covered
by the [T] float-stress stream of `harness/props/c12.py`, not by these theorems.

Quantifier of the property = hypotheses used below: constructor ranges of positive extent,
`pixel_size > 0`, assigned ranges of positive extent, fit data with at least one diagram, no empty
diagram and a positive spread in birth and in persistence (`OpValid`).  Outside it the code (and the
model, compared by the harness's malformed stream) behaves as follows: `pixel_size = 0`, a reversed
range and a fit without data raise; a range or data of zero extent is accepted and yields
resolution 0 on that axis (no pixels), so `1 ≤ rx` is exactly what positivity buys.
-/
namespace PersimVerif.C12
open PersimVerif.Imager PersimVerif.Transformers

set_option linter.unusedSectionVars false

variable {K : Type} [Field K] [LinearOrder K] [IsStrictOrderedRing K] [FloorRing K]

/-- the operations the property quantifies over (exactly the stated guard) -/
def OpValid : Op K → Prop
  | .setBirth v0 v1 => v0 < v1
  | .setPers v0 v1 => v0 < v1
  | .setPixel v => 0 < v
  | .fit skew X => FitValid skew X

/-- the driver runs the model with core `Rat.ceil`; at `ℚ` that is the `Int.ceil` of the theorems -/
theorem driver_ceil_is_ceil (q : ℚ) : Rat.ceil q = ⌈q⌉ :=
  le_antisymm (Rat.ceil_le_iff.mpr (Int.le_ceil q)) (Int.ceil_le.mpr Rat.le_ceil)

/-! ## the invariant holds in every reachable state -/

/-- one valid operation on a consistent state does not raise and yields a consistent state -/
theorem step_inv {s : State K} (hs : Inv s) {op : Op K} (hop : OpValid op) :
    ∃ s', step cl s op = .ok s' ∧ Inv s' := by
  cases op with
  | setBirth v0 v1 => exact ⟨_, (setBirth_inv hs hop).1, (setBirth_inv hs hop).2⟩
  | setPers v0 v1 => exact ⟨_, (setPers_inv hs hop).1, (setPers_inv hs hop).2⟩
  | setPixel v => exact ⟨_, (setPixel_inv hs hop).1, (setPixel_inv hs hop).2⟩
  | fit skew X =>
    obtain ⟨a, b, c, d, _, _, _, hfit, hinv⟩ := fit_inv hs (show FitValid skew X from hop)
    exact ⟨_, hfit, hinv⟩

theorem run_inv {s : State K} (hs : Inv s) (ops : List (Op K)) (hops : ∀ op ∈ ops, OpValid op) :
    ∃ s', run cl s ops = .ok s' ∧ Inv s' := by
  induction ops generalizing s with
  | nil => exact ⟨s, rfl, hs⟩
  | cons op ops ih =>
    obtain ⟨s1, h1, i1⟩ := step_inv hs (hops op List.mem_cons_self)
    obtain ⟨s2, h2, i2⟩ := ih i1 (fun o ho => hops o (List.mem_cons_of_mem _ ho))
    exact ⟨s2, by simp only [run, h1, h2], i2⟩

/-- **C12, main theorem.**  For all constructor arguments with ranges of positive extent and a positive
    pixel size and ALL finite lists of valid operations, neither the constructor nor any operation
    raises, and the reached state satisfies: width = resolution·pixel_size on both axes, the ranges are
    exactly that wide, and both resolutions are at least 1. -/
theorem inv_reachable (b0 b1 p0 p1 ps : K) (hb : b0 < b1) (hp : p0 < p1) (hps : 0 < ps)
    (ops : List (Op K)) (hops : ∀ op ∈ ops, OpValid op) :
    ∃ s0 s, ctor cl b0 b1 p0 p1 ps = .ok s0 ∧ run cl s0 ops = .ok s ∧
      s.w = (s.rx : K) * s.ps ∧ s.h = (s.ry : K) * s.ps ∧ s.b1 - s.b0 = s.w ∧ s.p1 - s.p0 = s.h ∧
      1 ≤ s.rx ∧ 1 ≤ s.ry ∧ 0 < s.ps := by
  obtain ⟨h0, i0⟩ := ctor_inv hb hp hps
  obtain ⟨s, hr, ⟨a, b, c, d, e, f, g⟩⟩ := run_inv i0 ops hops
  exact ⟨_, s, h0, hr, a, b, c, d, e, f, g⟩

/-- the same, packaged: every state reached by a valid history satisfies `Inv` -/
theorem inv_reachable_inv (b0 b1 p0 p1 ps : K) (hb : b0 < b1) (hp : p0 < p1) (hps : 0 < ps)
    (ops : List (Op K)) (hops : ∀ op ∈ ops, OpValid op) :
    ∃ s0 s, ctor cl b0 b1 p0 p1 ps = .ok s0 ∧ run cl s0 ops = .ok s ∧ Inv s := by
  obtain ⟨h0, i0⟩ := ctor_inv hb hp hps
  obtain ⟨s, hr, hi⟩ := run_inv i0 ops hops
  exact ⟨_, s, h0, hr, hi⟩

/-- non-vacuity: `PersistenceImager(pixel_size=3/10)`, then `birth_range = (0, 373/10)`,
    `pixel_size = 1/3`, and a fit on two diagrams (birth–death, skewed) — ranges that are not
    multiples of the pixel size and quotients that are not representable -/
example : (0 : ℚ) < 1 ∧ (0 : ℚ) < 3/10 ∧
    ∀ op ∈ ([.setBirth 0 (373/10), .setPixel (1/3),
             .fit true (.coll [[(1/2, 4/5), (7/10, 11/5)], [(1/10, 1/5)]])] : List (Op ℚ)), OpValid op := by
  refine ⟨by norm_num, by norm_num, ?_⟩
  intro op hop
  simp only [List.mem_cons, List.not_mem_nil, or_false] at hop
  rcases hop with rfl | rfl | rfl
  · show (0 : ℚ) < 373/10; norm_num
  · show (0 : ℚ) < 1/3; norm_num
  · refine ⟨by simp [ensureIterable], ?_, ?_, ?_⟩
    · intro d hd; simp [ensureIterable] at hd; rcases hd with rfl | rfl <;> simp
    · exact ⟨(1/10, 1/5 - 1/10), by simp [fitPoints, ensureIterable, skewDgm],
             (1/2, 4/5 - 1/2), by simp [fitPoints, ensureIterable, skewDgm], by norm_num⟩
    · exact ⟨(1/10, 1/5 - 1/10), by simp [fitPoints, ensureIterable, skewDgm],
             (7/10, 11/5 - 7/10), by simp [fitPoints, ensureIterable, skewDgm], by norm_num⟩

/-- … and the same history executed by the model at `Rat` (what the driver does): the constructor pads
    `(0,1)` to `(-1/10, 11/10)` with 4 pixels; the history ends with 2×5 pixels of size `1/3` -/
example :
    (ctor Rat.ceil (0 : Rat) 1 0 1 (3/10) = .ok ⟨-1/10, 11/10, -1/10, 11/10, 3/10, 6/5, 6/5, 4, 4⟩) ∧
    run Rat.ceil (⟨-1/10, 11/10, -1/10, 11/10, 3/10, 6/5, 6/5, 4, 4⟩ : State Rat)
      [.setBirth 0 (373/10), .setPixel (1/3), .fit true (.coll [[(1/2, 4/5), (7/10, 11/5)], [(1/10, 1/5)]])]
      = .ok ⟨1/15, 11/15, -1/30, 49/30, 1/3, 2/3, 5/3, 2, 5⟩ := by
  constructor <;> decide +kernel

/-! ## pixels are squares of exactly the configured size -/

/-- **mesh_is_square.**  Under the invariant the birth mesh `_bpnts` has `rx+1` points, the `i`-th is
    `b0 + i·ps`, consecutive points differ by exactly `ps`, the first is `b0` and the last `b1`;
    the same for the persistence mesh `_ppnts` with `ry, p0, p1`. -/
theorem mesh_is_square {s : State K} (hs : Inv s) :
    ((meshB s).length = s.rx.toNat + 1 ∧
      (∀ i (hi : i < (meshB s).length), (meshB s)[i] = s.b0 + (i : K) * s.ps) ∧
      (∀ i (hi : i + 1 < (meshB s).length), (meshB s)[i + 1] - (meshB s)[i] = s.ps) ∧
      (meshB s).head? = some s.b0 ∧ (meshB s).getLast? = some s.b1) ∧
    ((meshP s).length = s.ry.toNat + 1 ∧
      (∀ i (hi : i < (meshP s).length), (meshP s)[i] = s.p0 + (i : K) * s.ps) ∧
      (∀ i (hi : i + 1 < (meshP s).length), (meshP s)[i + 1] - (meshP s)[i] = s.ps) ∧
      (meshP s).head? = some s.p0 ∧ (meshP s).getLast? = some s.p1) := by
  have hb1 : s.b0 + (s.rx : K) * s.ps = s.b1 := by rw [← hs.w_eq, ← hs.bw]; ring
  have hp1 : s.p0 + (s.ry : K) * s.ps = s.p1 := by rw [← hs.h_eq, ← hs.ph]; ring
  have hrx : 0 ≤ s.rx := by have := hs.rx_pos; omega
  have hry : 0 ≤ s.ry := by have := hs.ry_pos; omega
  constructor
  · simp only [meshB_eq hs]
    exact ⟨grid_length _ _ _, grid_get _ _ _, grid_step _ _ _, grid_head _ _ _, by rw [grid_last _ _ hrx, hb1]⟩
  · simp only [meshP_eq hs]
    exact ⟨grid_length _ _ _, grid_get _ _ _, grid_step _ _ _, grid_head _ _ _, by rw [grid_last _ _ hry, hp1]⟩

/-- non-vacuity of `Inv`: the default constructor's state `(0,1)×(0,1)`, `ps = 1/5`, resolution `5×5` -/
example : Inv (⟨0, 1, 0, 1, 1/5, 1, 1, 5, 5⟩ : State ℚ) := by
  refine ⟨?_, ?_, ?_, ?_, ?_, ?_, ?_⟩ <;> norm_num

/-! ## every operation covers what it was asked to cover, with less than a pixel to spare -/

/-- what "covers the request" means for each operation: `s` before, `s'` after -/
def Covers (s : State K) (op : Op K) (s' : State K) : Prop :=
  match op with
  | .setBirth v0 v1 =>
      s'.b0 ≤ v0 ∧ v1 ≤ s'.b1 ∧ v0 - s'.b0 = s'.b1 - v1 ∧ (s'.b1 - s'.b0) - (v1 - v0) < s'.ps ∧
      s'.p0 = s.p0 ∧ s'.p1 = s.p1
  | .setPers v0 v1 =>
      s'.p0 ≤ v0 ∧ v1 ≤ s'.p1 ∧ v0 - s'.p0 = s'.p1 - v1 ∧ (s'.p1 - s'.p0) - (v1 - v0) < s'.ps ∧
      s'.b0 = s.b0 ∧ s'.b1 = s.b1
  | .setPixel _ =>
      (s'.b0 ≤ s.b0 ∧ s.b1 ≤ s'.b1 ∧ s.b0 - s'.b0 = s'.b1 - s.b1 ∧ (s'.b1 - s'.b0) - (s.b1 - s.b0) < s'.ps) ∧
      (s'.p0 ≤ s.p0 ∧ s.p1 ≤ s'.p1 ∧ s.p0 - s'.p0 = s'.p1 - s.p1 ∧ (s'.p1 - s'.p0) - (s.p1 - s.p0) < s'.ps)
  | .fit skew X =>
      (∀ p ∈ fitPoints skew X, s'.b0 ≤ p.1 ∧ p.1 ≤ s'.b1 ∧ s'.p0 ≤ p.2 ∧ p.2 ≤ s'.p1) ∧
      ∃ a b c d, Hull (fitPoints skew X) a b c d ∧
        a - s'.b0 = s'.b1 - b ∧ (s'.b1 - s'.b0) - (b - a) < s'.ps ∧
        c - s'.p0 = s'.p1 - d ∧ (s'.p1 - s'.p0) - (d - c) < s'.ps

/-- **covers_request** (one operation).  After a valid operation on a consistent state the range(s)
    contain the assigned range / the previously covered ranges / every fitted point, the padding is
    split evenly on both sides and is less than one pixel; the axis an assignment does not name is
    untouched.  (For a fit, `[a,b]×[c,d]` is the exact hull of the data: bounds that are attained.) -/
theorem covers_request {s s' : State K} (hs : Inv s) {op : Op K} (hop : OpValid op)
    (h : step cl s op = .ok s') : Covers s op s' := by
  cases op with
  | setBirth v0 v1 =>
    have e := (setBirth_inv hs hop).1
    simp only [step] at h
    rw [e] at h; cases h
    exact afterBirth_covers hs v0 v1
  | setPers v0 v1 =>
    have e := (setPers_inv hs hop).1
    simp only [step] at h
    rw [e] at h; cases h
    exact afterPers_covers hs v0 v1
  | setPixel v =>
    have e := (setPixel_inv hs hop).1
    simp only [step] at h
    rw [e] at h; cases h
    exact afterPixel_covers s hop
  | fit skew X =>
    obtain ⟨a, b, c, d, hH, hab, hcd, hfit, _⟩ := fit_inv hs (show FitValid skew X from hop)
    simp only [step] at h
    rw [hfit] at h; cases h
    have i1 := inv_afterBirth hs hab
    obtain ⟨c1, c2, c3, c4, _, _⟩ := afterBirth_covers hs a b
    obtain ⟨d1, d2, d3, d4, d5, d6⟩ := afterPers_covers i1 c d
    have hps : (afterPers (afterBirth s a b) c d).ps = (afterBirth s a b).ps := rfl
    refine ⟨fun p hp => ?_, a, b, c, d, hH, ?_, ?_, d3, d4⟩
    · obtain ⟨q1, q2, q3, q4⟩ := hH.bounds p hp
      refine ⟨?_, ?_, d1.trans q3, q4.trans d2⟩
      · rw [d5]; exact c1.trans q1
      · rw [d6]; exact q2.trans c2
    · rw [d5, d6]; exact c3
    · rw [d5, d6, hps]; exact c4

/-- non-vacuity of `covers_request`: on the default state, `birth_range = (0, 373/10)` is a valid
    operation that the model executes (to the state with 187 pixels, padded by `1/20` on each side) -/
example :
    Inv (⟨0, 1, 0, 1, 1/5, 1, 1, 5, 5⟩ : State ℚ) ∧ OpValid (.setBirth (0 : ℚ) (373/10)) ∧
    step Rat.ceil (⟨0, 1, 0, 1, 1/5, 1, 1, 5, 5⟩ : State Rat) (.setBirth 0 (373/10))
      = .ok ⟨-1/20, 747/20, 0, 1, 1/5, 187/5, 1, 187, 5⟩ := by
  refine ⟨⟨?_, ?_, ?_, ?_, ?_, ?_, ?_⟩, ?_, ?_⟩
  all_goals first | (show (0 : ℚ) < 373/10; norm_num) | decide +kernel

/-- the constructor covers its arguments in the same way -/
theorem covers_request_ctor {b0 b1 p0 p1 ps : K} (hb : b0 < b1) (hp : p0 < p1) (hps : 0 < ps)
    {s : State K} (h : ctor cl b0 b1 p0 p1 ps = .ok s) :
    (s.b0 ≤ b0 ∧ b1 ≤ s.b1 ∧ b0 - s.b0 = s.b1 - b1 ∧ (s.b1 - s.b0) - (b1 - b0) < ps) ∧
    (s.p0 ≤ p0 ∧ p1 ≤ s.p1 ∧ p0 - s.p0 = s.p1 - p1 ∧ (s.p1 - s.p0) - (p1 - p0) < ps) := by
  rw [(ctor_inv hb hp hps).1] at h; cases h
  exact afterCtor_covers b0 b1 p0 p1 hps

private theorem run_append (s : State K) (xs ys : List (Op K)) :
    run cl s (xs ++ ys) = match run cl s xs with
      | .error e => .error e
      | .ok s1 => run cl s1 ys := by
  induction xs generalizing s with
  | nil => rfl
  | cons x xs ih =>
    simp only [List.cons_append, run]
    cases step cl s x with
    | error e => rfl
    | ok s1 => exact ih s1

/-- **covers_request** (history form): at *every* position of *every* valid history the operation
    executed there covers its request, in the state the history has reached. -/
theorem covers_request_history (b0 b1 p0 p1 ps : K) (hb : b0 < b1) (hp : p0 < p1) (hps : 0 < ps)
    (pre : List (Op K)) (op : Op K) (post : List (Op K))
    (hops : ∀ o ∈ pre ++ op :: post, OpValid o) :
    ∃ s0 s1 s2, ctor cl b0 b1 p0 p1 ps = .ok s0 ∧ run cl s0 pre = .ok s1 ∧ step cl s1 op = .ok s2 ∧
      Covers s1 op s2 := by
  obtain ⟨h0, i0⟩ := ctor_inv hb hp hps
  obtain ⟨s1, h1, i1⟩ := run_inv i0 pre (fun o ho => hops o (List.mem_append_left _ ho))
  have hop : OpValid op := hops op (List.mem_append_right _ List.mem_cons_self)
  obtain ⟨s2, h2, _⟩ := step_inv i1 hop
  exact ⟨_, s1, s2, h0, h1, h2, covers_request i1 hop h2⟩

/-! ## every image has exactly the reported resolution -/

/-- the images an output consists of -/
def Output.toList {ι : Type} : Output ι → List ι
  | .image i => [i]
  | .images l => l

/-- **shape_is_resolution.**  In a consistent state the increment added per point has exactly the
    shape of the allocation (no broadcasting, no `ValueError`), so one image of a diagram of any
    size has shape `resolution`; and whatever `transform` is given — one diagram, a collection,
    an empty input — every image it returns has shape `(rx, ry)`. -/
theorem shape_is_resolution {s : State K} (hs : Inv s) :
    incShape s = (s.rx, s.ry) ∧ (∀ n, imageShape s n = some (s.rx, s.ry)) ∧
    ∀ (skew : Bool) (X : Input K),
      ∀ sh ∈ Output.toList (imagerTransform (fun s _ d => imageShape s d.length)
                              (fun rx ry => some (rx, ry)) s skew X), sh = some (s.rx, s.ry) := by
  have hrx := hs.rx_pos
  have hry := hs.ry_pos
  have hinc : incShape s = (s.rx, s.ry) := by
    simp only [incShape, meshB_eq hs, meshP_eq hs, grid_length]
    congr 1 <;> omega
  have himg : ∀ n, imageShape s n = some (s.rx, s.ry) := by
    intro n
    have h1 : ¬ (s.rx < 0 ∨ s.ry < 0) := by omega
    simp only [imageShape, h1, if_false, hinc, broadcastsInto]
    split <;> simp
  refine ⟨hinc, himg, fun skew X sh hsh => ?_⟩
  cases X with
  | single d =>
    cases d with
    | nil => simpa [imagerTransform, Output.toList] using hsh
    | cons p t =>
      simp only [imagerTransform, Output.toList, List.mem_singleton] at hsh
      rw [hsh]; exact himg _
  | coll ds =>
    cases ds with
    | nil => simpa [imagerTransform, Output.toList] using hsh
    | cons d ds =>
      simp only [imagerTransform, Output.toList, List.mem_map] at hsh
      obtain ⟨d', _, rfl⟩ := hsh
      exact himg _

/-- non-vacuity / executable instance: on the default state every image is 5×5, for a collection
    with an empty member and for an empty input alike -/
example :
    (Output.toList (imagerTransform (fun s _ d => imageShape s d.length) (fun rx ry => some (rx, ry))
        (⟨0, 1, 0, 1, 1/5, 1, 1, 5, 5⟩ : State Rat) true (.coll [[(0, 1)], [], [(1, 2), (0, 3)]]))
      = [some (5, 5), some (5, 5), some (5, 5)]) ∧
    (Output.toList (imagerTransform (fun s _ d => imageShape s d.length) (fun rx ry => some (rx, ry))
        (⟨0, 1, 0, 1, 1/5, 1, 1, 5, 5⟩ : State Rat) true (.coll [])) = [some (5, 5)]) := by
  constructor <;> decide +kernel

/-! ## … and that is a statement about `_transform` itself (composition with C04)

`shape_is_resolution` speaks about the shape bookkeeping of `Model/Imager.lean`.  The pixel content is C04's model
`Image.transformOne`, whose theorems assume `Image.meshOk` ("the meshes have `resolution + 1` points").  In every
consistent — hence every reachable — state that assumption holds for the imager's own meshes, so C04's
`pixel_is_weighted_mass` applies to them: -/

/-- **reachable_image_shape.**  In a consistent state the meshes `_bpnts/_ppnts` satisfy C04's `meshOk` for the
    reported resolution; therefore `_transform` (C04's model, any weight, any kernel choice, any elementwise kernel,
    any diagram) does not reject, returns an image with exactly `rx` rows of exactly `ry` entries, and its pixel
    `[i][j]` is the weighted corner combination of the kernel over the SQUARE
    `[b0 + i·ps, b0 + (i+1)·ps] × [p0 + j·ps, p0 + (j+1)·ps]` — pixels are squares of the configured size, and the
    image is the one C04's theorems describe. -/
theorem reachable_image_shape [BEq K] {s : State K} (hs : Inv s) (sqrt Φ : K → K) (w : Image.Pt K → K)
    (kc : Image.KernelChoice K) (F : Image.Pt K → K → K → K) (sk : Bool) (dgm : List (Image.Pt K)) :
    Image.meshOk s.rx.toNat s.ry.toNat (meshB s) (meshP s) ∧
    ∃ img, Image.transformOne sqrt Φ w kc (Image.vectorize F) s.rx.toNat s.ry.toNat (meshB s) (meshP s) sk dgm
        = .ok img ∧
      (img.length : Int) = s.rx ∧ (∀ row ∈ img, (row.length : Int) = s.ry) ∧
      ∀ (i j : Nat), i < s.rx.toNat → j < s.ry.toNat →
        Image.pixel? img i j = some (((Image.toBP sk dgm).map fun pt =>
          w pt * Image.rect (Image.effKernel sqrt Φ kc F pt)
            (s.b0 + (i : K) * s.ps, s.b0 + ((i + 1 : Nat) : K) * s.ps)
            (s.p0 + (j : K) * s.ps, s.p0 + ((j + 1 : Nat) : K) * s.ps)).sum) := by
  obtain ⟨⟨hbl, hbg, _, _, _⟩, ⟨hpl, hpg, _, _, _⟩⟩ := mesh_is_square hs
  have hok : Image.meshOk s.rx.toNat s.ry.toNat (meshB s) (meshP s) := ⟨hbl, hpl⟩
  have hrx : ((s.rx.toNat : Nat) : Int) = s.rx := Int.toNat_of_nonneg (by have := hs.rx_pos; omega)
  have hry : ((s.ry.toNat : Nat) : Int) = s.ry := Int.toNat_of_nonneg (by have := hs.ry_pos; omega)
  obtain ⟨img, h1, h2, h3, h4⟩ := C04.pixel_is_weighted_mass sqrt Φ w kc F hok sk dgm
  refine ⟨hok, img, h1, by rw [h2, hrx], fun row hrow => by rw [h3 row hrow, hry], ?_⟩
  intro i j hi hj
  have gb : ∀ k (hk : k < (meshB s).length), (meshB s)[k]? = some (s.b0 + (k : K) * s.ps) := by
    intro k hk; rw [List.getElem?_eq_getElem hk, hbg k hk]
  have gp : ∀ k (hk : k < (meshP s).length), (meshP s)[k]? = some (s.p0 + (k : K) * s.ps) := by
    intro k hk; rw [List.getElem?_eq_getElem hk, hpg k hk]
  rw [h4 i j _ _ _ _ (gb i (by omega)) (gb (i + 1) (by omega)) (gp j (by omega)) (gp (j + 1) (by omega))]
  rfl


/-- the same for every state reached by a valid history -/
theorem reachable_image_shape_history [BEq K] (b0 b1 p0 p1 ps : K) (hb : b0 < b1) (hp : p0 < p1) (hps : 0 < ps)
    (ops : List (Op K)) (hops : ∀ op ∈ ops, OpValid op) (sqrt Φ : K → K) (w : Image.Pt K → K)
    (kc : Image.KernelChoice K) (F : Image.Pt K → K → K → K) (sk : Bool) (dgm : List (Image.Pt K)) :
    ∃ s0 s, ctor cl b0 b1 p0 p1 ps = .ok s0 ∧ run cl s0 ops = .ok s ∧
      ∃ img, Image.transformOne sqrt Φ w kc (Image.vectorize F) s.rx.toNat s.ry.toNat (meshB s) (meshP s) sk dgm
          = .ok img ∧ (img.length : Int) = s.rx ∧ ∀ row ∈ img, (row.length : Int) = s.ry := by
  obtain ⟨s0, s, h0, hr, hi⟩ := inv_reachable_inv b0 b1 p0 p1 ps hb hp hps ops hops
  obtain ⟨_, img, h1, h2, h3, _⟩ := reachable_image_shape hi sqrt Φ w kc F sk dgm
  exact ⟨s0, s, h0, hr, img, h1, h2, h3⟩

/-- non-vacuity: on the default state (5 × 5 pixels of size 1/5) the image of a two-point diagram under the
    kernel `F pt x y = x·y` has 5 rows -/
example : ∃ img, Image.transformOne (fun x => x) (fun x => x) (fun _ => (1 : ℚ)) Image.KernelChoice.other
      (Image.vectorize fun _ x y => x * y) 5 5 (meshB (⟨0, 1, 0, 1, 1/5, 1, 1, 5, 5⟩ : State ℚ))
      (meshP (⟨0, 1, 0, 1, 1/5, 1, 1, 5, 5⟩ : State ℚ)) true [(0, 1), (1/2, 3/4)] = .ok img ∧
      (img.length : Int) = 5 := by
  obtain ⟨_, img, h1, h2, _⟩ := reachable_image_shape (K := ℚ)
    (s := ⟨0, 1, 0, 1, 1/5, 1, 1, 5, 5⟩) (by refine ⟨?_, ?_, ?_, ?_, ?_, ?_, ?_⟩ <;> norm_num)
    (fun x => x) (fun x => x) (fun _ => (1 : ℚ)) Image.KernelChoice.other (fun _ x y => x * y) true [(0, 1), (1/2, 3/4)]
  exact ⟨img, h1, h2⟩

/-! ## the code before e840b92 -/

/-- the constructor before e840b92 on the default ranges with `pixel_size = 3/10`: three pixels,
    width `1 ≠ 3·(3/10)`, mesh step `13/40 ≠ 3/10` — the invariant and `mesh_is_square` both fail.
    (`Rat.floor` is `int()` on the non-negative quotient `10/3`.) -/
theorem ctor_old_counterexample :
    ctorOld Rat.floor (0 : Rat) 1 0 1 (3/10) = .ok ⟨0, 1, 0, 1, 3/10, 1, 1, 3, 3⟩ ∧
      (1 : Rat) ≠ ((3 : Int) : Rat) * (3/10) ∧
      meshB (⟨0, 1, 0, 1, 3/10, 1, 1, 3, 3⟩ : State Rat) = [0, 13/40, 13/20, 39/40] := by
  refine ⟨?_, ?_, ?_⟩ <;> decide +kernel

/-- the repaired constructor on the same input: four pixels, padded range `(-1/10, 11/10)` -/
theorem ctor_new_same_input :
    ctor Rat.ceil (0 : Rat) 1 0 1 (3/10) = .ok ⟨-1/10, 11/10, -1/10, 11/10, 3/10, 6/5, 6/5, 4, 4⟩ ∧
      meshB (⟨-1/10, 11/10, -1/10, 11/10, 3/10, 6/5, 6/5, 4, 4⟩ : State Rat) = [-1/10, 1/5, 1/2, 4/5, 11/10] := by
  constructor <;> decide +kernel

end PersimVerif.C12
