import PersimVerif.Model.Bottleneck
namespace PersimVerif.C01
theorem placeholder : True := trivial
end PersimVerif.C01
