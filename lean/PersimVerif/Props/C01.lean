import PersimVerif.Lemmas.BottleneckSearch
import PersimVerif.Lemmas.BottleneckSpec
import Mathlib.Data.Nat.Find
import Mathlib.Data.Finset.Max
import Mathlib.Tactic.NormNum

/-!
# C01 — the bottleneck distance is the true min–max matching cost

All statements are about `PersimVerif.Bottleneck` (the model of `persim/bottleneck.py`, file
`Model/Bottleneck.lean`) instantiated at an arbitrary linear ordered field `K` (ℚ covers every
finite float input).  The Hopcroft–Karp call is the parameter `oracle`; the only thing assumed about
it is `OracleMax`: it returns a maximum-cardinality matching of the graph it is given.
The specification is `Spec.IsBottleneck` (Spec/Matching.lean): least bound on the pairing costs over
all partial matchings, with `linf` between points and `diagInf` to the diagonal.

Nothing here is about floating point.
-/
set_option linter.unusedSectionVars false
set_option linter.unusedSimpArgs false

namespace PersimVerif.C01
open PersimVerif.Bottleneck PersimVerif.Spec

/-! ## 1. the bisect loop -/

section Loop
variable {K : Type} [LinearOrder K]

/-- the loop's test `len(res) == 2 * D.shape[0]`, for an oracle honouring its contract, decides
    exactly whether the threshold graph has a perfect matching -/
theorem feas_iff_perfect {oracle : Graph → Matching} (ho : OracleMax oracle) (n : ℕ)
    (D : ℕ → ℕ → Ext K) (d : Ext K) :
    perfectB n (oracle (thresholdGraph n D d)) = true ↔ HasPerfect n D d := by
  have := perfectB_oracle_iff ho (thresholdGraph n D d)
  rwa [length_thresholdGraph] at this

/-- **feasibility is monotone**: threshold graphs grow with `d` -/
theorem feas_monotone (n : ℕ) (D : ℕ → ℕ → Ext K) {d d' : Ext K} (h : d ≤ d')
    (hp : HasPerfect n D d) : HasPerfect n D d' := by
  obtain ⟨m, hm, hl⟩ := hp
  exact ⟨m, matching_mono n D h hm, hl⟩

/-- the `while len(ds) >= 1` loop in isolation (any ordered candidate type, any probe): for a
strictly increasing `ds`, a monotone test, and a feasible `best` bounding `ds` from above
(so the guard `d <= bdist` never bites), it ends with the least feasible element of `ds`, or with
`best` if there is none. -/
theorem bsearch_loop_least {β σ : Type} [LinearOrder β] (probe : β → σ) (ok : σ → Bool)
    (hmono : ∀ a b, a ≤ b → ok (probe a) = true → ok (probe b) = true)
    (ds : List β) (best : β) (mt : σ) (hs : ds.Pairwise (· < ·)) (hb : ok (probe best) = true)
    (hle : ∀ x ∈ ds, x ≤ best) :
    ok (probe (bsearch probe ok ds (best, mt)).1) = true ∧
    ((bsearch probe ok ds (best, mt)).1 = best ∨ (bsearch probe ok ds (best, mt)).1 ∈ ds) ∧
    (∀ x ∈ ds, ok (probe x) = true → (bsearch probe ok ds (best, mt)).1 ≤ x) ∧
    (bsearch probe ok ds (best, mt)).1 ≤ best := by
  obtain ⟨h1, h2, h3, h4, -⟩ := bsearch_spec probe ok hmono ds.length ds best mt rfl hs hb hle
  exact ⟨h1, h2, h3, h4⟩

example : (([1, 2, 3, 5, 8] : List ℕ).Pairwise (· < ·)) ∧ (∀ x ∈ ([1, 2, 3, 5, 8] : List ℕ), x ≤ 8) := by
  decide

/-- **`bsearch_least`** — lines 101-118 for any matrix `D` with `n ≥ 1` rows and EVERY oracle
honouring the contract: the loop does not raise, and it ends with `bdist` = the least value
(among all of `Ext K`, not only the candidates) whose threshold graph has a perfect matching;
`bdist` is an entry of `D`, and the stored `matching` is the oracle's answer at `bdist`. -/
theorem bsearch_least {oracle : Graph → Matching} (ho : OracleMax oracle) {n : ℕ} (hn : 0 < n)
    (D : ℕ → ℕ → Ext K) :
    ∃ r mt, searchLoop oracle n D = some (r, mt) ∧ r ∈ candidates n D ∧ HasPerfect n D r ∧
      (∀ d, HasPerfect n D d → r ≤ d) ∧ mt = oracle (thresholdGraph n D r) := by
  have hsorted := sortUnique_pairwise (entries n D)
  have h00 : D 0 0 ∈ candidates n D := (mem_candidates n D _).mpr ⟨0, hn, 0, hn, rfl⟩
  cases hlast : (candidates n D).getLast? with
  | none =>
    rw [List.getLast?_eq_none_iff] at hlast
    rw [hlast] at h00; simp at h00
  | some b =>
    obtain ⟨hbmem, hbmax⟩ := getLast?_max (candidates n D) b hsorted hlast
    -- the largest candidate is feasible: every entry is below it, take the identity matching
    have hbfeas : HasPerfect n D b := by
      refine ⟨(List.range n).map fun i => (i, i), ⟨?_, ?_, ?_⟩, by simp⟩
      · intro p hp
        obtain ⟨i, hi, rfl⟩ := List.mem_map.mp hp
        rw [List.mem_range] at hi
        exact (edge_threshold _ _ _ _ _).mpr
          ⟨hi, hi, hbmax _ ((mem_candidates n D _).mpr ⟨i, hi, i, hi, rfl⟩)⟩
      · simp only [List.map_map]
        exact (List.nodup_range).map (fun a b h => h)
      · simp only [List.map_map]
        exact (List.nodup_range).map (fun a b h => h)
    have hspec := bsearch_spec (fun d => oracle (thresholdGraph n D d)) (perfectB n)
      (fun a b hab ha => (feas_iff_perfect ho n D b).mpr
        (feas_monotone n D hab ((feas_iff_perfect ho n D a).mp ha)))
      (candidates n D).length (candidates n D) b [] rfl hsorted
      ((feas_iff_perfect ho n D b).mpr hbfeas) hbmax
    obtain ⟨h1, h2, h3, -, h5⟩ := hspec
    refine ⟨(bsearch (fun d => oracle (thresholdGraph n D d)) (perfectB n) (candidates n D) (b, [])).1,
      (bsearch (fun d => oracle (thresholdGraph n D d)) (perfectB n) (candidates n D) (b, [])).2,
      ?_, ?_, (feas_iff_perfect ho n D _).mp h1, ?_, ?_⟩
    · simp only [searchLoop, hlast]
    · rcases h2 with h | h
      · rw [h]; exact hbmem
      · exact h
    · intro d hd
      obtain ⟨x, hx, hxd, hxp⟩ := perfect_at_candidate hn D hd
      exact le_trans (h3 x hx ((feas_iff_perfect ho n D x).mpr hxp)) hxd
    · rcases h5 with h | ⟨-, hall⟩
      · exact h
      · have := hall b hbmem
        rw [(feas_iff_perfect ho n D b).mpr hbfeas] at this
        exact absurd this (by simp)

end Loop

/-! ## 2. certificates: what the driver commands `cert.matching`, `cert.cover` decide -/

/-- `cert.matching`: the Boolean check is the definition of a matching -/
theorem matching_cert_sound (g : Graph) (m : Matching) : isMatchingB g m = true ↔ IsMatching g m :=
  isMatchingB_iff g m

/-- **`cover_cert_sound`** — `cert.cover`: a vertex cover accepted by the checker bounds every
matching (weak duality); so a cover as small as a matching certifies that matching maximum … -/
theorem cover_cert_sound {g : Graph} {R C : List ℕ} (h : checkCover g R C = true) {m : Matching}
    (hm : IsMatching g m) : m.length ≤ R.length + C.length :=
  matching_le_cover (fun _ _ he => checkCover_sound h he) hm

/-- … and a cover of fewer than `n` vertices excludes a perfect matching. -/
theorem cover_excludes_perfect {K : Type} [LinearOrder K] {n : ℕ} {D : ℕ → ℕ → Ext K} {d : Ext K}
    {R C : List ℕ} (h : checkCover (thresholdGraph n D d) R C = true) (hlt : R.length + C.length < n) :
    ¬ HasPerfect n D d := by
  rintro ⟨m, hm, hl⟩
  have := cover_cert_sound h hm
  omega

/-- a result checked by `cert.matching` + `cert.cover` with `|R| + |C| ≤ |m|` IS a maximum matching -/
theorem certified_max {g : Graph} {m : Matching} {R C : List ℕ} (hm : isMatchingB g m = true)
    (hc : checkCover g R C = true) (hk : R.length + C.length ≤ m.length) : IsMaxMatching g m :=
  ⟨(isMatchingB_iff g m).mp hm, fun _ hm' => le_trans (cover_cert_sound hc hm') hk⟩

/-- the oracle contract is satisfiable: every graph has a maximum matching (non-vacuity of `OracleMax`) -/
theorem oracleMax_exists : ∃ oracle : Graph → Matching, OracleMax oracle := by
  classical
  have : ∀ g : Graph, ∃ m, IsMaxMatching g m := by
    intro g
    let P : ℕ → Prop := fun k => ∃ m, IsMatching g m ∧ m.length = k
    have h0 : P 0 := ⟨[], ⟨by simp, by simp, by simp⟩, rfl⟩
    obtain ⟨m, hm, hl⟩ := Nat.findGreatest_spec (P := P) (Nat.zero_le g.length) h0
    refine ⟨m, hm, fun m' hm' => ?_⟩
    rw [hl]
    exact Nat.le_findGreatest (P := P) hm'.length_le ⟨m', hm', rfl⟩
  exact ⟨fun g => (this g).choose, fun g => (this g).choose_spec⟩

/-! ## 3. the augmented matrix -/

section Aug
variable {K : Type} [Field K] [LinearOrder K] [IsStrictOrderedRing K]

/-- **`aug_perfect_iff_pm`** — for every `d ≥ 0` and all diagrams `S`, `T` (any sizes, repeated
points are distinct indices): the threshold graph of the augmented matrix at `d` has a perfect
matching iff some partial matching between `S` and `T` has every pairing cost `≤ d`. -/
theorem aug_perfect_iff_pm (S T : List (K × K)) (d : K) (h0 : 0 ≤ d) :
    HasPerfect (S.length + T.length) (augD S T) (.fin d) ↔ Feas (cst S T) (dgc S) (dgc T) d :=
  ⟨fun ⟨m, hm, hl⟩ => pm_of_perfect S T d h0 m hm hl, fun ⟨p, hp⟩ => perfect_of_pm S T d p hp⟩

/-- **core**: lines 76-118 on two non-degenerate lists (`M + N ≥ 1`) under the guard `b ≤ d` -/
theorem core_eq_spec {oracle : Graph → Matching} (ho : OracleMax oracle) (S T : List (K × K))
    (hn : 0 < S.length + T.length) (hS : ∀ p ∈ S, p.1 ≤ p.2) (hT : ∀ p ∈ T, p.1 ≤ p.2) :
    ∃ v mt, searchLoop oracle (S.length + T.length) (augD S T) = some (.fin v, mt) ∧
      IsBottleneck (cst S T) (dgc S) (dgc T) v ∧
      IsMatching (thresholdGraph (S.length + T.length) (augD S T) (.fin v)) mt ∧
      mt.length = S.length + T.length := by
  obtain ⟨r, mt, hrun, hcand, hperf, hleast, hmt⟩ := bsearch_least ho hn (augD S T)
  -- the result is finite: the all-diagonal matching is feasible at some finite bound
  obtain ⟨B, hB⟩ := feas_exists S T
  have hB0 : 0 ≤ B := hB.choose_spec.1
  have hrB := hleast _ ((aug_perfect_iff_pm S T B hB0).mpr hB)
  cases r with
  | top => exact absurd hrB (Ext.top_le_fin B)
  | fin v =>
    -- it is an entry of the matrix, hence ≥ 0
    obtain ⟨i, -, j, -, hij⟩ := (mem_candidates _ _ _).mp hcand
    have hv0 : 0 ≤ v := by
      have := augD_nonneg S T hS hT i j
      rw [← hij] at this
      exact Ext.fin_le_fin.mp this
    refine ⟨v, mt, hrun, (isBottleneck_iff _ _ _ _).mpr ⟨(aug_perfect_iff_pm S T v hv0).mp hperf, ?_⟩, ?_, ?_⟩
    · rintro d' ⟨p, hp⟩
      have := hleast _ ((aug_perfect_iff_pm S T d' hp.1).mpr ⟨p, hp⟩)
      exact Ext.fin_le_fin.mp this
    · rw [hmt]
      exact (ho _).1
    · have := (feas_iff_perfect ho _ (augD S T) (.fin v)).mpr hperf
      rw [← hmt] at this
      simp only [perfectB, beq_iff_eq] at this
      omega

end Aug

/-! ## 4. the main theorem -/

section Main
variable {K : Type} [Field K] [LinearOrder K] [IsStrictOrderedRing K]

/-- the full statement of the property for the model -/
def BottleneckEqSpec (K : Type) [Field K] [LinearOrder K] [IsStrictOrderedRing K] : Prop :=
  ∀ (oracle : Graph → Matching), OracleMax oracle →
  ∀ (dgm1 dgm2 : List (K × Option K)),
    (∀ p ∈ finitePart dgm1, p.1 ≤ p.2) → (∀ p ∈ finitePart dgm2, p.1 ≤ p.2) →
    ∃ r v, bottleneck oracle dgm1 dgm2 = some r ∧ r.value = .fin v ∧
      IsBottleneck (cst (finitePart dgm1) (finitePart dgm2)) (dgc (finitePart dgm1))
        (dgc (finitePart dgm2)) v

/-- lines 69-118 on diagrams of finite points, any sizes including 0 -/
theorem core_with_placeholder {oracle : Graph → Matching} (ho : OracleMax oracle) (S T : List (K × K))
    (hS : ∀ p ∈ S, p.1 ≤ p.2) (hT : ∀ p ∈ T, p.1 ≤ p.2) :
    ∃ v mt, bottleneckCore oracle S T = some (.fin v, mt) ∧ IsBottleneck (cst S T) (dgc S) (dgc T) v := by
  obtain ⟨v, mt, hrun, hb, -, -⟩ := core_eq_spec ho (withPlaceholder S) (withPlaceholder T)
    (Nat.add_pos_left (withPlaceholder_length_pos S) _) (withPlaceholder_guard hS) (withPlaceholder_guard hT)
  refine ⟨v, mt, hrun, ?_⟩
  rw [isBottleneck_iff] at hb ⊢
  exact ⟨(feas_withPlaceholder S T v).mp hb.1, fun d' hd' => hb.2 d' ((feas_withPlaceholder S T d').mpr hd')⟩

/-- **`bottleneck_eq_spec`** — for all diagrams (every size including empty, arbitrary
multiplicities, ties, diagonal points, non-finite deaths anywhere) whose finite points satisfy
`birth ≤ death`, and EVERY oracle that returns a maximum-cardinality matching: the routine does not
raise and the value it returns is finite and is the bottleneck (min–max) cost between the finite
parts — attained by some partial matching and below the cost of every partial matching. -/
theorem bottleneck_eq_spec : BottleneckEqSpec K := by
  intro oracle ho dgm1 dgm2 h1 h2
  obtain ⟨v, mt, hrun, hb⟩ := core_with_placeholder ho (finitePart dgm1) (finitePart dgm2) h1 h2
  refine ⟨⟨.fin v, mt, (filterFinite dgm1).2, (filterFinite dgm2).2⟩, v, ?_, rfl, hb⟩
  simp only [bottleneck, finitePart] at hrun ⊢
  rw [hrun]

/-- the bottleneck cost is unique -/
theorem isBottleneck_unique {M N : Type} {c : M → N → K} {u : M → K} {v : N → K} {d d' : K}
    (h : IsBottleneck c u v d) (h' : IsBottleneck c u v d') : d = d' := by
  obtain ⟨p, hp⟩ := h.attained
  obtain ⟨p', hp'⟩ := h'.attained
  exact le_antisymm (h.least p' d' hp') (h'.least p d hp)

/-- **`oracle_irrelevant`** — the value does not depend on WHICH maximum matching the matching
routine returns; in particular not on the per-process hash seed that fixes its search order. -/
theorem oracle_irrelevant {o₁ o₂ : Graph → Matching} (h₁ : OracleMax o₁) (h₂ : OracleMax o₂)
    (dgm1 dgm2 : List (K × Option K))
    (g1 : ∀ p ∈ finitePart dgm1, p.1 ≤ p.2) (g2 : ∀ p ∈ finitePart dgm2, p.1 ≤ p.2) :
    (bottleneck o₁ dgm1 dgm2).map (·.value) = (bottleneck o₂ dgm1 dgm2).map (·.value) ∧
    (bottleneck o₁ dgm1 dgm2).map (·.warn1) = (bottleneck o₂ dgm1 dgm2).map (·.warn1) ∧
    (bottleneck o₁ dgm1 dgm2).map (·.warn2) = (bottleneck o₂ dgm1 dgm2).map (·.warn2) := by
  obtain ⟨r₁, v₁, e₁, hv₁, hb₁⟩ := bottleneck_eq_spec o₁ h₁ dgm1 dgm2 g1 g2
  obtain ⟨r₂, v₂, e₂, hv₂, hb₂⟩ := bottleneck_eq_spec o₂ h₂ dgm1 dgm2 g1 g2
  have hw₁ : r₁.warn1 = (filterFinite dgm1).2 ∧ r₁.warn2 = (filterFinite dgm2).2 := by
    simp only [bottleneck] at e₁
    split at e₁
    · cases e₁
    · cases e₁; exact ⟨rfl, rfl⟩
  have hw₂ : r₂.warn1 = (filterFinite dgm1).2 ∧ r₂.warn2 = (filterFinite dgm2).2 := by
    simp only [bottleneck] at e₂
    split at e₂
    · cases e₂
    · cases e₂; exact ⟨rfl, rfl⟩
  rw [e₁, e₂]
  simp only [Option.map_some, Option.some.injEq]
  exact ⟨by rw [hv₁, hv₂, isBottleneck_unique hb₁ hb₂], by rw [hw₁.1, hw₂.1], by rw [hw₁.2, hw₂.2]⟩

/-- **`inf_dropped`** — for EVERY oracle (no contract needed): the result is the one computed on
the finite parts alone, so points with non-finite death do not influence the value; and each
warning flag is set iff its diagram had such a point. -/
theorem inf_dropped (oracle : Graph → Matching) (dgm1 dgm2 : List (K × Option K)) :
    (bottleneck oracle dgm1 dgm2).map (·.value) =
      (bottleneck oracle (lift (finitePart dgm1)) (lift (finitePart dgm2))).map (·.value) ∧
    (bottleneck oracle dgm1 dgm2).map (·.matching) =
      (bottleneck oracle (lift (finitePart dgm1)) (lift (finitePart dgm2))).map (·.matching) ∧
    (∀ r, bottleneck oracle dgm1 dgm2 = some r →
      (r.warn1 = true ↔ ∃ p ∈ dgm1, p.2 = none) ∧ (r.warn2 = true ↔ ∃ p ∈ dgm2, p.2 = none)) := by
  refine ⟨?_, ?_, ?_⟩
  · simp only [bottleneck, filterFinite_lift, finitePart]
    cases bottleneckCore oracle (filterFinite dgm1).1 (filterFinite dgm2).1 <;> rfl
  · simp only [bottleneck, filterFinite_lift, finitePart]
    cases bottleneckCore oracle (filterFinite dgm1).1 (filterFinite dgm2).1 <;> rfl
  · intro r hr
    simp only [bottleneck] at hr
    split at hr
    · cases hr
    · cases hr
      exact ⟨filterFinite_length_lt_iff dgm1, filterFinite_length_lt_iff dgm2⟩

/-- `matching=True` returns the same distance (the rows are extra) -/
theorem matching_flag_value (oracle : Graph → Matching) (dgm1 dgm2 : List (K × Option K))
    (r : Result K) (rows) (h : bottleneckWithMatching oracle dgm1 dgm2 = some (r, rows)) :
    bottleneck oracle dgm1 dgm2 = some r := by
  simp only [bottleneckWithMatching] at h
  split at h
  · cases h
  · split at h
    · cases h
    · cases h; assumption

end Main

/-! ## 5. certified optimum (driver command `cert.opt`; also how `bn` certifies its own answer) -/

section CertOpt
variable {K : Type} [Field K] [LinearOrder K] [IsStrictOrderedRing K]

/-- **`cert_opt_sound`** — if the checker accepts `(v, m, pred, R, C)` for the diagrams `S`, `T`
(finite points, `b ≤ d`), then `v` IS their bottleneck cost: `m` is a perfect matching of the
threshold graph at `v`, and below `v` a vertex cover of fewer than `n` vertices (or the absence of
any smaller entry) excludes one.  No oracle, no search: this is a proof about the certificate. -/
theorem cert_opt_sound (S T : List (K × K)) (hS : ∀ p ∈ S, p.1 ≤ p.2) (hT : ∀ p ∈ T, p.1 ≤ p.2)
    (v : K) (m : Matching) (pred : Option (Ext K)) (R C : List ℕ)
    (h : certOptB ((withPlaceholder S).length + (withPlaceholder T).length)
      (augD (withPlaceholder S) (withPlaceholder T)) (.fin v) m pred R C = true) :
    IsBottleneck (cst S T) (dgc S) (dgc T) v := by
  set S' := withPlaceholder S with hS'
  set T' := withPlaceholder T with hT'
  have hn : 0 < S'.length + T'.length := Nat.add_pos_left (withPlaceholder_length_pos S) _
  have gS := withPlaceholder_guard hS
  have gT := withPlaceholder_guard hT
  simp only [certOptB, Bool.and_eq_true, beq_iff_eq] at h
  obtain ⟨⟨hm, hlen⟩, hrest⟩ := h
  have hperf : HasPerfect (S'.length + T'.length) (augD S' T') (.fin v) :=
    ⟨m, (isMatchingB_iff _ _).mp hm, hlen⟩
  -- an edge of a perfect matching exists (n ≥ 1)
  have hedge : ∀ {d : Ext K}, HasPerfect (S'.length + T'.length) (augD S' T') d →
      ∃ i j, i < S'.length + T'.length ∧ j < S'.length + T'.length ∧ augD S' T' i j ≤ d := by
    rintro d ⟨m', hm', hl'⟩
    cases m' with
    | nil => simp at hl'; omega
    | cons a t =>
      have := (edge_threshold _ _ _ _ _).mp (hm'.edges a (by simp))
      exact ⟨a.1, a.2, this⟩
  have hv0 : 0 ≤ v := by
    obtain ⟨i, j, -, -, hij⟩ := hedge hperf
    exact Ext.fin_le_fin.mp (le_trans (augD_nonneg S' T' gS gT i j) hij)
  rw [isBottleneck_iff]
  refine ⟨(feas_withPlaceholder S T v).mp ((aug_perfect_iff_pm S' T' v hv0).mp hperf), ?_⟩
  intro d' hd'
  have hd'' := (feas_withPlaceholder S T d').mpr hd'
  have hd0 : 0 ≤ d' := hd''.choose_spec.1
  have hperf' := (aug_perfect_iff_pm S' T' d' hd0).mpr hd''
  by_contra hlt
  rw [not_le] at hlt
  cases pred with
  | none =>
    simp only [List.all_eq_true, List.mem_range, decide_eq_true_eq] at hrest
    obtain ⟨i, j, hi, hj, hij⟩ := hedge hperf'
    have := le_trans (hrest i hi j hj) hij
    exact absurd (Ext.fin_le_fin.mp this) (not_le.mpr hlt)
  | some dp =>
    simp only [Bool.and_eq_true, decide_eq_true_eq, gapB, List.all_eq_true, List.mem_range,
      Bool.or_eq_true] at hrest
    obtain ⟨⟨hgap, hcover⟩, hsize⟩ := hrest
    obtain ⟨m', hm', hl'⟩ := hperf'
    have : HasPerfect (S'.length + T'.length) (augD S' T') dp := by
      refine ⟨m', ⟨fun p hp => ?_, hm'.rows, hm'.cols⟩, hl'⟩
      have hpe := (edge_threshold _ _ _ _ _).mp (hm'.edges p hp)
      refine (edge_threshold _ _ _ _ _).mpr ⟨hpe.1, hpe.2.1, ?_⟩
      rcases hgap p.1 hpe.1 p.2 hpe.2.1 with hge | hle
      · have h1 : v ≤ d' := Ext.fin_le_fin.mp (le_trans hge hpe.2.2)
        exact absurd h1 (not_le.mpr hlt)
      · exact hle
    exact cover_excludes_perfect hcover hsize this

end CertOpt

/-! ## 6. the guard is needed; non-vacuity -/

/-- without `birth ≤ death` the statement is false: for `S = T = [(1,0)]` the matrix is
`[[0, -1/2], [-1/2, 0]]`, the anti-diagonal is a perfect matching at `-1/2`, so the loop returns a
negative number — whereas no pairing cost bound can be below `0 = linf (1,0) (1,0)` … the
specification (which reads the empty maximum as 0) says 0. -/
theorem guard_needed :
    HasPerfect 2 (augD [((1:ℚ), (0:ℚ))] [((1:ℚ), (0:ℚ))]) (.fin (-1/2)) ∧
    ¬ Feas (cst [((1:ℚ), (0:ℚ))] [((1:ℚ), (0:ℚ))]) (dgc [((1:ℚ), (0:ℚ))]) (dgc [((1:ℚ), (0:ℚ))]) (-1/2) := by
  constructor
  · refine ⟨[(0, 1), (1, 0)], ⟨?_, by decide, by decide⟩, rfl⟩
    intro p hp
    simp only [List.mem_cons, List.mem_nil_iff, or_false] at hp
    rcases hp with rfl | rfl
    · refine (edge_threshold _ _ _ _ _).mpr ⟨by norm_num, by norm_num, ?_⟩
      rw [augD_ur _ _ (by simp) (by simp)]
      simp [diagInf]
    · refine (edge_threshold _ _ _ _ _).mpr ⟨by norm_num, by norm_num, ?_⟩
      rw [augD_ll _ _ (by simp) (by simp)]
      simp [diagInf]
  · rintro ⟨p, h0, -⟩
    norm_num at h0

/-- non-vacuity: the 2×2 "bisect bug" diagrams of the test suite and a tie-heavy 3×4 instance meet
the guard, a contract-honouring oracle exists, so `bottleneck_eq_spec` applies to them -/
example : ∃ oracle : Graph → Matching, OracleMax oracle ∧
    (∀ p ∈ finitePart (lift [((6:ℚ), (9:ℚ)), (6, 8)]), p.1 ≤ p.2) ∧
    (∀ p ∈ finitePart (lift [((4:ℚ), (10:ℚ)), (9, 10)]), p.1 ≤ p.2) := by
  obtain ⟨o, ho⟩ := oracleMax_exists
  refine ⟨o, ho, ?_, ?_⟩ <;> · rw [finitePart, filterFinite_lift]; simp; norm_num

example : (∀ p ∈ finitePart (lift [((0:ℚ), (4:ℚ)), (1, 3), (2, 6)]), p.1 ≤ p.2) ∧
    (∀ p ∈ finitePart (lift [((0:ℚ), (3:ℚ)), (1, 4), (2, 5), (1, 3)]), p.1 ≤ p.2) := by
  constructor <;> · rw [finitePart, filterFinite_lift]; simp; norm_num

/-! ### concrete instances, value pinned by a kernel-checked certificate -/

/-- the 2×2 "bisect bug" diagrams of the test suite (`test_2x2_bisect_bug`): the bottleneck cost is 2 -/
theorem bisect_bug_instance :
    IsBottleneck (cst [((6:ℚ), (9:ℚ)), (6, 8)] [((4:ℚ), (10:ℚ)), (9, 10)]) (dgc [((6:ℚ), (9:ℚ)), (6, 8)])
      (dgc [((4:ℚ), (10:ℚ)), (9, 10)]) 2 :=
  cert_opt_sound _ _ (by simp; norm_num) (by simp; norm_num) 2 [(0, 0), (1, 3), (2, 2), (3, 1)]
    (some (.fin (3/2))) [3] [2, 3] (by decide +kernel)

/-- … so the model returns exactly 2 on them, whichever maximum matchings the oracle picks -/
theorem bisect_bug_value (oracle : Graph → Matching) (ho : OracleMax oracle) :
    (bottleneck oracle (lift [((6:ℚ), (9:ℚ)), (6, 8)]) (lift [((4:ℚ), (10:ℚ)), (9, 10)])).map (·.value)
      = some (.fin 2) := by
  obtain ⟨r, v, hr, hv, hb⟩ := bottleneck_eq_spec oracle ho (lift [((6:ℚ), (9:ℚ)), (6, 8)])
    (lift [((4:ℚ), (10:ℚ)), (9, 10)])
    (by rw [finitePart, filterFinite_lift]; simp; norm_num)
    (by rw [finitePart, filterFinite_lift]; simp; norm_num)
  simp only [finitePart, filterFinite_lift] at hb
  rw [hr, Option.map_some, hv, isBottleneck_unique hb bisect_bug_instance]

/-- a tie-heavy 3×4 instance (seven candidate values for 49 entries): the cost is 1 -/
theorem tie_heavy_instance :
    IsBottleneck (cst [((0:ℚ), (4:ℚ)), (1, 3), (2, 6)] [((0:ℚ), (3:ℚ)), (1, 4), (2, 5), (1, 3)])
      (dgc [((0:ℚ), (4:ℚ)), (1, 3), (2, 6)]) (dgc [((0:ℚ), (3:ℚ)), (1, 4), (2, 5), (1, 3)]) 1 :=
  cert_opt_sound _ _ (by simp; norm_num) (by simp; norm_num) 1
    [(0, 0), (1, 1), (2, 2), (3, 4), (4, 5), (5, 6), (6, 3)] (some (.fin 0)) [1] [4, 5, 6] (by decide +kernel)

/-- an empty first diagram (the `(0,0)` placeholder is used by the code, not by the specification) -/
theorem empty_side_instance :
    IsBottleneck (cst ([] : List (ℚ × ℚ)) [((1:ℚ), (2:ℚ)), (0, 4)]) (dgc []) (dgc [((1:ℚ), (2:ℚ)), (0, 4)]) 2 :=
  cert_opt_sound _ _ (by simp) (by simp) 2 [(0, 0), (1, 2), (2, 1)] (some (.fin (1/2))) [1] [2]
    (by decide +kernel)

/-- a diagram with an infinite death and an empty second diagram also meet the guard -/
example : (∀ p ∈ finitePart [((0:ℚ), (none : Option ℚ)), (1, some 2)], p.1 ≤ p.2) ∧
    (∀ p ∈ finitePart ([] : List (ℚ × Option ℚ)), p.1 ≤ p.2) := by
  constructor
  · simp [finitePart, filterFinite]
  · simp [finitePart, filterFinite]

end PersimVerif.C01
