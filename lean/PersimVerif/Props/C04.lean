import PersimVerif.Lemmas.Image
import PersimVerif.Lemmas.ImageKernels
import PersimVerif.Props.C13
import Mathlib.MeasureTheory.Measure.Prod
import Mathlib.MeasureTheory.Measure.Typeclasses.Finite
import Mathlib.MeasureTheory.Measure.Dirac
import Mathlib.Tactic.NormNum

/-!
# C04 — persistence image pixels are weighted kernel mass over each pixel

All statements are about `PersimVerif.Image` (the model of `persim/images.py:_transform` and of
`persim/images_weights.py`), instantiated at an arbitrary field `R` (so at ℚ — every finite float —
and at ℝ).  The kernel is an *arbitrary* function `F pt x y` (the CDF evaluated by the code at
the pixel corners, centred at the birth-persistence point `pt`); that the built-in Gaussian kernel
*is* the bivariate normal CDF is C13's part and is not claimed here.  Nothing is about floating point.

Index convention proved below: the first matrix index runs over `_bpnts` (birth), the second over
`_ppnts` (persistence).
-/
namespace PersimVerif.C04
open PersimVerif.Image MeasureTheory Set ProbabilityTheory

/-! ### birth–death → birth–persistence, weights -/

/-- the skew conversion is `(b, d) ↦ (b, d − b)` -/
theorem skew_is_bp {α : Type} [Sub α] (b d : α) : skew (b, d) = (b, d - b) := rfl

/-- with `skew = True` every point is converted, with `skew = False` none is; order and multiplicity kept -/
theorem toBP_spec {α : Type} [Sub α] (dgm : List (Pt α)) :
    toBP true dgm = dgm.map (fun p => (p.1, p.2 - p.1)) ∧ toBP false dgm = dgm :=
  ⟨rfl, rfl⟩

/-- the weight is evaluated on the converted point: `persistence` is `p ^ n` of the *persistence* -/
theorem persistence_weight_on_persistence {α : Type} [Sub α] (pow : α → α → α) (n b d : α) :
    (withWeights (persistenceW pow n) (toBP true [(b, d)])) = [((b, d - b), pow (d - b) n)] := rfl

section ramp
variable {R : Type} [Field R] [LinearOrder R]

/-- `linear_ramp`, the three branches.  The middle branch divides by `stop − start`; it is stated under
    `start ≠ stop` (so `start < stop`, given `start ≤ p ≤ stop`), the guard under which the code's value is the
    number the formula denotes.  For `start = stop = p` the code evaluates `0.0 * (high − low) / 0.0 = NaN`
    (NumPy scalar division: a RuntimeWarning, no exception), whereas in a field `x / 0 = 0` would make the model's
    value `low` — a totalisation artefact, not a claim about the code (`linearRamp_degenerate` records it).  The
    `Float` instance of the same definition, which the driver runs, returns NaN like the code. -/
theorem linearRamp_branches (low high start stop b p : R) :
    (p < start → linearRamp low high start stop (b, p) = low) ∧
    (start ≤ p → stop < p → linearRamp low high start stop (b, p) = high) ∧
    (start ≤ p → p ≤ stop → start ≠ stop →
      linearRamp low high start stop (b, p) = (p - start) * (high - low) / (stop - start) + low) := by
  refine ⟨fun h => ?_, fun h1 h2 => ?_, fun h1 h2 _ => ?_⟩
  · simp [linearRamp, h]
  · simp [linearRamp, not_lt.mpr h1, h2]
  · simp [linearRamp, not_lt.mpr h1, not_lt.mpr h2]

/-- the degenerate ramp `start = stop`: below it `low`, above it `high`; AT the single point `p = start = stop` the
    field-level model evaluates to `low` only because `x / 0 = 0` in a field — the code returns NaN there, so no
    statement about the code is made for that input (the generators of the harness use `start < end`) -/
theorem linearRamp_degenerate (low high c b p : R) :
    (p < c → linearRamp low high c c (b, p) = low) ∧ (c < p → linearRamp low high c c (b, p) = high) ∧
    linearRamp low high c c (b, c) = low := by
  refine ⟨fun h => by simp [linearRamp, h], fun h => by simp [linearRamp, h, not_lt.mpr h.le], ?_⟩
  simp [linearRamp]

/-- the ramp is continuous at its two joints when `start < stop` -/
theorem linearRamp_joints (low high start stop b : R) (h : start < stop) :
    linearRamp low high start stop (b, start) = low ∧
    linearRamp low high start stop (b, stop) = high := by
  have hne : stop - start ≠ 0 := sub_ne_zero.mpr (ne_of_gt h)
  constructor
  · simp [linearRamp, not_lt.mpr h.le]
  · simp only [linearRamp, not_lt.mpr h.le, lt_irrefl, if_false]
    field_simp
    ring

example : linearRamp (0 : ℚ) 1 0 2 (5, 1) = 1 / 2 := by norm_num [linearRamp]

end ramp

/-! ### rectangle mass from a 2-D CDF (Mathlib measure theory) -/

/-- **inclusion–exclusion**: for a finite measure `μ` on ℝ² with CDF `F x y = μ (Iic x ×ˢ Iic y)`, the
    corner combination the code computes is the mass of the half-open rectangle `(a,b] × (c,d]`. -/
theorem rect_mass_of_cdf (μ : Measure (ℝ × ℝ)) [IsFiniteMeasure μ] (F : ℝ → ℝ → ℝ)
    (hF : ∀ x y, F x y = (μ (Iic x ×ˢ Iic y)).toReal) (a b c d : ℝ) (hab : a ≤ b) (hcd : c ≤ d) :
    (μ (Ioc a b ×ˢ Ioc c d)).toReal = rect F (a, b) (c, d) := by
  have hx : ∀ (S : Set ℝ), MeasurableSet S →
      (μ (Ioc a b ×ˢ S)).toReal = (μ (Iic b ×ˢ S)).toReal - (μ (Iic a ×ˢ S)).toReal := by
    intro S hS
    have hsub : (Iic a ×ˢ S : Set (ℝ × ℝ)) ⊆ Iic b ×ˢ S :=
      prod_mono (Iic_subset_Iic.mpr hab) le_rfl
    have hd : (Ioc a b ×ˢ S : Set (ℝ × ℝ)) = (Iic b ×ˢ S) \ (Iic a ×ˢ S) := by
      ext ⟨x, y⟩; simp only [mem_prod, mem_Ioc, mem_Iic, mem_sdiff]; constructor
      · rintro ⟨⟨h1, h2⟩, h3⟩; exact ⟨⟨h2, h3⟩, fun h => absurd h.1 (not_le.mpr h1)⟩
      · rintro ⟨⟨h2, h3⟩, h⟩; exact ⟨⟨not_le.mp (fun h' => h ⟨h', h3⟩), h2⟩, h3⟩
    rw [hd, measure_sdiff hsub ((measurableSet_Iic.prod hS).nullMeasurableSet) (measure_ne_top _ _)]
    rw [ENNReal.toReal_sub_of_le (measure_mono hsub) (measure_ne_top _ _)]
  have hy : ∀ (e : ℝ), (μ (Iic e ×ˢ Ioc c d)).toReal
      = (μ (Iic e ×ˢ Iic d)).toReal - (μ (Iic e ×ˢ Iic c)).toReal := by
    intro e
    have hsub : (Iic e ×ˢ Iic c : Set (ℝ × ℝ)) ⊆ Iic e ×ˢ Iic d :=
      prod_mono le_rfl (Iic_subset_Iic.mpr hcd)
    have hd : (Iic e ×ˢ Ioc c d : Set (ℝ × ℝ)) = (Iic e ×ˢ Iic d) \ (Iic e ×ˢ Iic c) := by
      ext ⟨x, y⟩; simp only [mem_prod, mem_Ioc, mem_Iic, mem_sdiff]; constructor
      · rintro ⟨h1, h2, h3⟩; exact ⟨⟨h1, h3⟩, fun h => absurd h.2 (not_le.mpr h2)⟩
      · rintro ⟨⟨h1, h3⟩, h⟩; exact ⟨h1, not_le.mp (fun h' => h ⟨h1, h'⟩), h3⟩
    rw [hd, measure_sdiff hsub ((measurableSet_Iic.prod measurableSet_Iic).nullMeasurableSet)
      (measure_ne_top _ _)]
    rw [ENNReal.toReal_sub_of_le (measure_mono hsub) (measure_ne_top _ _)]
  rw [hx _ measurableSet_Ioc, hy b, hy a]
  simp only [rect, hF]
  ring

/-- non-vacuity: the unit point mass at `(1/2, 1/2)` is such a measure, and `(0,1] × (0,1]` has mass 1 -/
example : ((Measure.dirac ((1 / 2 : ℝ), (1 / 2 : ℝ))) (Ioc 0 1 ×ˢ Ioc 0 1)).toReal
    = rect (fun x y => ((Measure.dirac ((1 / 2 : ℝ), (1 / 2 : ℝ))) (Iic x ×ˢ Iic y)).toReal) (0, 1) (0, 1) :=
  rect_mass_of_cdf _ _ (fun _ _ => rfl) 0 1 0 1 zero_le_one zero_le_one

/-! ### the pixel formula -/

section pixel
variable {R : Type} [Field R] [BEq R]

/-- **every pixel is the weighted corner combination, with `i` indexing birth and `j` persistence.**
    For every mesh with `resolution + 1` points per axis, every diagram (any size, points anywhere),
    every weight function `w`, every kernel choice and every elementwise kernel `F`, `_transform`
    returns an image of shape `resolution` whose entry `[i][j]` is
    `Σ_k w(pt_k) · (K_k(b_{i+1}, p_{j+1}) − K_k(b_i, p_{j+1}) − K_k(b_{i+1}, p_j) + K_k(b_i, p_j))`
    where `pt_k` are the points in birth–persistence coordinates and `K = effKernel …` is the kernel the
    dispatch selects (`F` itself on the general path; the product of normals on the fast path). -/
theorem pixel_is_weighted_mass (sqrt Φ : R → R) (w : Pt R → R) (kc : KernelChoice R)
    (F : Pt R → R → R → R) {rx ry : Nat} {bs ps : List R} (h : meshOk rx ry bs ps)
    (sk : Bool) (dgm : List (Pt R)) :
    ∃ img, transformOne sqrt Φ w kc (vectorize F) rx ry bs ps sk dgm = .ok img ∧
      img.length = rx ∧ (∀ row ∈ img, row.length = ry) ∧
      ∀ (i j : Nat) (b0 b1 p0 p1 : R),
        bs[i]? = some b0 → bs[i + 1]? = some b1 → ps[j]? = some p0 → ps[j + 1]? = some p1 →
        pixel? img i j = some (((toBP sk dgm).map fun pt =>
          w pt * (effKernel sqrt Φ kc F pt b1 p1 - effKernel sqrt Φ kc F pt b0 p1
                  - effKernel sqrt Φ kc F pt b1 p0 + effKernel sqrt Φ kc F pt b0 p0)).sum) := by
  refine ⟨_, transformOne_closed sqrt Φ w kc F h sk dgm, ?_, ?_, ?_⟩
  · rw [imageSum, tabulate_length, length_pairs, h.1]; rfl
  · intro row hrow
    rw [imageSum] at hrow
    rw [tabulate_row_length _ _ _ row hrow, length_pairs, h.2]; rfl
  · intro i j b0 b1 p0 p1 hb0 hb1 hp0 hp1
    have hq := (getElem?_pairs bs i b0 b1).mpr ⟨hb0, hb1⟩
    have hr := (getElem?_pairs ps j p0 p1).mpr ⟨hp0, hp1⟩
    rw [imageSum, pixel?_tabulate _ _ _ i j _ _ hq hr]
    simp only [withWeights, List.map_map, Function.comp_def, rect]

/-- outside that shape condition the model (like `pers_img += …` / `np.reshape`) rejects -/
theorem bad_mesh_rejected (sqrt Φ : R → R) (w : Pt R → R) (kc : KernelChoice R)
    (kvec : Pt R → List R → List R → List R) {rx ry : Nat} {bs ps : List R}
    (h : ¬ meshOk rx ry bs ps) (sk : Bool) (dgm : List (Pt R)) :
    transformOne sqrt Φ w kc kvec rx ry bs ps sk dgm = .error .shape :=
  transformOne_shape sqrt Φ w kc kvec h sk dgm

/-- on the general path the kernel is the caller's `F`, untouched -/
theorem effKernel_general (sqrt Φ : R → R) (F : Pt R → R → R → R) :
    effKernel sqrt Φ (KernelChoice.other : KernelChoice R) F = F := rfl

end pixel

/-- non-vacuity of the shape hypothesis on a NON-square grid (2 birth pixels × 1 persistence pixel), and the
    model evaluated through the theorem's formula: one point at (b,d) = (1/2, 1) with weight `p`,
    kernel `F pt x y = x*y` (corner combination = area) -/
example : meshOk 2 1 [(0 : ℚ), 1, 2] [(0 : ℚ), 1] := ⟨rfl, rfl⟩

example : ∃ img, transformOne (fun x => x) (fun x => x) (persistenceW (fun p _ => p) 1) KernelChoice.other
      (vectorize fun _ x y => x * y) 2 1 [(0 : ℚ), 1, 2] [(0 : ℚ), 1] true [((1 / 2 : ℚ), 1)] = .ok img ∧
      pixel? img 1 0 = some (1 / 2) := by
  obtain ⟨img, h1, _, _, h4⟩ := pixel_is_weighted_mass (R := ℚ) (fun x => x) (fun x => x)
    (persistenceW (fun p _ => p) 1) KernelChoice.other (fun _ x y => x * y)
    (show meshOk 2 1 [(0 : ℚ), 1, 2] [(0 : ℚ), 1] from ⟨rfl, rfl⟩) true [((1 / 2 : ℚ), 1)]
  refine ⟨img, h1, ?_⟩
  rw [h4 1 0 1 2 0 1 rfl rfl rfl rfl]
  norm_num [toBP, skew, persistenceW, effKernel, dispatch]

/-- **a pixel is the weighted kernel mass.**  If for every point `pt` the kernel the code evaluates is the CDF of a
    finite measure `μ pt` on the birth–persistence plane, then on an increasing mesh pixel `[i][j]` equals
    `Σ_k w_k · μ_k((b_i, b_{i+1}] × (p_j, p_{j+1}])`. -/
theorem pixel_is_kernel_mass [BEq ℝ] (sqrt Φ : ℝ → ℝ) (w : Pt ℝ → ℝ) (kc : KernelChoice ℝ)
    (F : Pt ℝ → ℝ → ℝ → ℝ) (μ : Pt ℝ → Measure (ℝ × ℝ)) [∀ pt, IsFiniteMeasure (μ pt)]
    (hcdf : ∀ pt x y, effKernel sqrt Φ kc F pt x y = ((μ pt) (Iic x ×ˢ Iic y)).toReal)
    {rx ry : Nat} {bs ps : List ℝ} (h : meshOk rx ry bs ps) (sk : Bool) (dgm : List (Pt ℝ)) :
    ∃ img, transformOne sqrt Φ w kc (vectorize F) rx ry bs ps sk dgm = .ok img ∧
      ∀ (i j : Nat) (b0 b1 p0 p1 : ℝ),
        bs[i]? = some b0 → bs[i + 1]? = some b1 → ps[j]? = some p0 → ps[j + 1]? = some p1 →
        b0 ≤ b1 → p0 ≤ p1 →
        pixel? img i j = some (((toBP sk dgm).map fun pt =>
          w pt * ((μ pt) (Ioc b0 b1 ×ˢ Ioc p0 p1)).toReal).sum) := by
  obtain ⟨img, h1, _, _, h4⟩ := pixel_is_weighted_mass sqrt Φ w kc F h sk dgm
  refine ⟨img, h1, ?_⟩
  intro i j b0 b1 p0 p1 hb0 hb1 hp0 hp1 hb hp
  rw [h4 i j b0 b1 p0 p1 hb0 hb1 hp0 hp1]
  congr 2
  apply List.map_congr_left
  intro pt _
  rw [rect_mass_of_cdf (μ pt) (effKernel sqrt Φ kc F pt) (hcdf pt) b0 b1 p0 p1 hb hp]
  rfl

/-- non-vacuity of `hcdf`: point masses at the points (the limit of ever sharper kernels) form such a family -/
example [BEq ℝ] : ∀ (pt : Pt ℝ) (x y : ℝ),
    effKernel (fun x => x) (fun x => x) (KernelChoice.other : KernelChoice ℝ)
      (fun pt x y => ((Measure.dirac pt) (Iic x ×ˢ Iic y)).toReal) pt x y
      = ((Measure.dirac pt) (Iic x ×ˢ Iic y)).toReal := fun _ _ _ => rfl

/-! ### composition with C13: the built-in kernels that C13 proves to be CDFs

`pixel_is_kernel_mass` has the hypothesis `hcdf` ("the kernel the code evaluates is the CDF of a finite measure").
For the Gaussian kernel with ZERO covariance — on the isotropic fast path and on the general path — and for the
uniform kernel, C13 proves exactly that (`C13.gaussian_zero_cov_is_bivariate_normal_cdf`, `C13.uniform_is_box_measure`),
with `Φ` = Mathlib's standard normal CDF `C13.Φstd` and `sqrt = Real.sqrt`; `Lemmas/ImageKernels.lean` identifies the
kernels of the two models by `rfl`.  So for these kernels the statement of C04 holds with NO kernel hypothesis:

    pixel[i][j] = Σ_k w_k · (N(b_k, v_b) ⊗ N(p_k, v_p)) ((b_i, b_{i+1}] × (p_j, p_{j+1}])
    pixel[i][j] = Σ_k w_k · λ²(pixel ∩ box_k) / (W·H)

The CORRELATED Gaussian (`sigma[0][1] ≠ 0`, `bvn_cdf`) stays under the hypothesis `hcdf`: that `bvn_cdf` is the
bivariate normal CDF is C13's unproved part (`C13.BvnIsAccurateValidCdf`), tested there and by the [T] density
streams of this check. -/

/-- the product of two real Gaussians centred at the birth–persistence point -/
noncomputable def normalAt (vb vp : ℝ) (pt : Pt ℝ) : Measure (ℝ × ℝ) :=
  (gaussianReal pt.1 vb.toNNReal).prod (gaussianReal pt.2 vp.toNNReal)

instance (vb vp : ℝ) (pt : Pt ℝ) : IsFiniteMeasure (normalAt vb vp pt) := by
  unfold normalAt; infer_instance

theorem pixel_is_normal_mass_isotropic [BEq ℝ] (w : Pt ℝ → ℝ) (kc : KernelChoice ℝ) (F : Pt ℝ → ℝ → ℝ → ℝ)
    {v : ℝ} (hv : 0 < v) (hkc : dispatch kc = .fast v)
    {rx ry : Nat} {bs ps : List ℝ} (h : meshOk rx ry bs ps) (sk : Bool) (dgm : List (Pt ℝ)) :
    ∃ img, transformOne Real.sqrt C13.Φstd w kc (vectorize F) rx ry bs ps sk dgm = .ok img ∧
      ∀ (i j : Nat) (b0 b1 p0 p1 : ℝ),
        bs[i]? = some b0 → bs[i + 1]? = some b1 → ps[j]? = some p0 → ps[j + 1]? = some p1 →
        b0 ≤ b1 → p0 ≤ p1 →
        pixel? img i j = some (((toBP sk dgm).map fun pt =>
          w pt * ((normalAt v v pt) (Ioc b0 b1 ×ˢ Ioc p0 p1)).toReal).sum) := by
  refine pixel_is_kernel_mass Real.sqrt C13.Φstd w kc F (normalAt v v) ?_ h sk dgm
  intro pt x y
  simp only [effKernel, hkc]
  rw [prodKernel_eq_sbvn]
  have := C13.gaussian_zero_cov_is_bivariate_normal_cdf pt.1 pt.2 hv hv (fun _ _ _ _ _ _ _ => 0) x y
  rw [C13.gaussian_zero_cov_is_product] at this
  exact this

theorem pixel_is_normal_mass_diag [BEq ℝ] [LawfulBEq ℝ] (sqrt Φ : ℝ → ℝ) (w : Pt ℝ → ℝ) (kc : KernelChoice ℝ)
    (bvn : ℝ → ℝ → ℝ → ℝ → ℝ → ℝ → ℝ → ℝ) {s00 s11 : ℝ} (h0 : 0 < s00) (h1 : 0 < s11)
    (hkc : dispatch kc = .general)
    {rx ry : Nat} {bs ps : List ℝ} (h : meshOk rx ry bs ps) (sk : Bool) (dgm : List (Pt ℝ)) :
    ∃ img, transformOne sqrt Φ w kc
        (vectorize fun pt x y => Kernels.gaussian C13.Φstd Real.sqrt bvn x y pt.1 pt.2 s00 s11 0)
        rx ry bs ps sk dgm = .ok img ∧
      ∀ (i j : Nat) (b0 b1 p0 p1 : ℝ),
        bs[i]? = some b0 → bs[i + 1]? = some b1 → ps[j]? = some p0 → ps[j + 1]? = some p1 →
        b0 ≤ b1 → p0 ≤ p1 →
        pixel? img i j = some (((toBP sk dgm).map fun pt =>
          w pt * ((normalAt s00 s11 pt) (Ioc b0 b1 ×ˢ Ioc p0 p1)).toReal).sum) := by
  refine pixel_is_kernel_mass sqrt Φ w kc _ (normalAt s00 s11) ?_ h sk dgm
  intro pt x y
  simp only [effKernel, hkc]
  rw [← prodKernel_eq_gaussian (beq_self_eq_true 0), prodKernel_eq_sbvn]
  have := C13.gaussian_zero_cov_is_bivariate_normal_cdf pt.1 pt.2 h0 h1 (fun _ _ _ _ _ _ _ => 0) x y
  rw [C13.gaussian_zero_cov_is_product] at this
  exact this

/-- the box of the uniform kernel centred at the birth–persistence point -/
def boxAt (W H : ℝ) (pt : Pt ℝ) : Set (ℝ × ℝ) :=
  Icc (pt.1 - W / 2) (pt.1 + W / 2) ×ˢ Icc (pt.2 - H / 2) (pt.2 + H / 2)

/-- the uniform distribution on that box (Lebesgue measure restricted to it, over its area) -/
noncomputable def uniformAt (W H : ℝ) (pt : Pt ℝ) : Measure (ℝ × ℝ) :=
  (1 / (W * H)).toNNReal • (volume.restrict (boxAt W H pt))

instance (W H : ℝ) (pt : Pt ℝ) : IsFiniteMeasure (uniformAt W H pt) := by
  have : IsFiniteMeasure (volume.restrict (boxAt W H pt)) := by
    refine ⟨?_⟩
    rw [Measure.restrict_apply_univ, boxAt, Measure.volume_eq_prod, Measure.prod_prod, Real.volume_Icc, Real.volume_Icc]
    exact ENNReal.mul_lt_top ENNReal.ofReal_lt_top ENNReal.ofReal_lt_top
  unfold uniformAt; infer_instance

theorem uniformAt_apply {W H : ℝ} (hW : 0 < W) (hH : 0 < H) (pt : Pt ℝ) {S : Set (ℝ × ℝ)} (hS : MeasurableSet S) :
    ((uniformAt W H pt) S).toReal = (volume (S ∩ boxAt W H pt)).toReal / (W * H) := by
  have hpos : 0 ≤ 1 / (W * H) := by positivity
  rw [uniformAt, Measure.smul_apply, Measure.restrict_apply hS]
  simp only [ENNReal.smul_def, smul_eq_mul, ENNReal.toReal_mul, ENNReal.coe_toReal, Real.coe_toNNReal _ hpos]
  ring

theorem pixel_is_box_mass [BEq ℝ] (sqrt Φ : ℝ → ℝ) (w : Pt ℝ → ℝ) (kc : KernelChoice ℝ)
    {W H : ℝ} (hW : 0 < W) (hH : 0 < H) (hkc : dispatch kc = .general)
    {rx ry : Nat} {bs ps : List ℝ} (h : meshOk rx ry bs ps) (sk : Bool) (dgm : List (Pt ℝ)) :
    ∃ img, transformOne sqrt Φ w kc (vectorize (uniformKernel W H)) rx ry bs ps sk dgm = .ok img ∧
      ∀ (i j : Nat) (b0 b1 p0 p1 : ℝ),
        bs[i]? = some b0 → bs[i + 1]? = some b1 → ps[j]? = some p0 → ps[j + 1]? = some p1 →
        b0 ≤ b1 → p0 ≤ p1 →
        pixel? img i j = some (((toBP sk dgm).map fun pt =>
          w pt * ((volume ((Ioc b0 b1 ×ˢ Ioc p0 p1) ∩ boxAt W H pt)).toReal / (W * H))).sum) := by
  obtain ⟨img, h1, h2⟩ := pixel_is_kernel_mass sqrt Φ w kc (uniformKernel W H) (uniformAt W H) (by
    intro pt x y
    simp only [effKernel, hkc]
    rw [uniformKernel_eq_uniform, C13.uniform_is_box_measure hW hH,
      uniformAt_apply hW hH pt (measurableSet_Iic.prod measurableSet_Iic), Set.inter_comm]
    rfl) h sk dgm
  refine ⟨img, h1, ?_⟩
  intro i j b0 b1 p0 p1 hb0 hb1 hp0 hp1 hb hp
  rw [h2 i j b0 b1 p0 p1 hb0 hb1 hp0 hp1 hb hp]
  congr 2
  apply List.map_congr_left
  intro pt _
  rw [uniformAt_apply hW hH pt (measurableSet_Ioc.prod measurableSet_Ioc)]

/-! ### the isotropic fast path -/

section fast
variable {R : Type} [Field R]

/-- **the outer-product loop equals the general loop** for the product kernel
    `F x y = Φ((x−μ_b)/s)·Φ((y−μ_p)/s)`, `s = sqrt(variance)` — for every mesh and diagram
    (including meshes both reject). -/
theorem fast_path_eq_general (sqrt Φ : R → R) (v : R) (rx ry : Nat) (bs ps : List R)
    (pws : List (Pt R × R)) :
    fastPath sqrt Φ v rx ry bs ps pws
      = generalPath (vectorize (prodKernel sqrt Φ v v)) rx ry bs ps pws := by
  by_cases h : meshOk rx ry bs ps
  · rw [fastPath_closed sqrt Φ v h, generalPath_vectorize _ h, fastKernel_eq_prodKernel]
  · rw [fastPath_shape sqrt Φ v h, generalPath_shape _ h]

/-- on the fast path a pixel is the sum of weighted *products of 1-D differences* of `Φ`,
    standardised by the square root of the variance -/
theorem fast_pixel_outer_product (sqrt Φ : R → R) (v : R) {rx ry : Nat} {bs ps : List R}
    (h : meshOk rx ry bs ps) (pws : List (Pt R × R)) :
    ∃ img, fastPath sqrt Φ v rx ry bs ps pws = .ok img ∧
      ∀ (i j : Nat) (b0 b1 p0 p1 : R),
        bs[i]? = some b0 → bs[i + 1]? = some b1 → ps[j]? = some p0 → ps[j + 1]? = some p1 →
        pixel? img i j = some ((pws.map fun pw => pw.2 *
          ((Φ ((b1 - pw.1.1) / sqrt v) - Φ ((b0 - pw.1.1) / sqrt v)) *
           (Φ ((p1 - pw.1.2) / sqrt v) - Φ ((p0 - pw.1.2) / sqrt v)))).sum) := by
  refine ⟨_, fastPath_closed sqrt Φ v h pws, ?_⟩
  intro i j b0 b1 p0 p1 hb0 hb1 hp0 hp1
  have hq := (getElem?_pairs bs i b0 b1).mpr ⟨hb0, hb1⟩
  have hr := (getElem?_pairs ps j p0 p1).mpr ⟨hp0, hp1⟩
  rw [imageFold_eq_imageSum, imageSum, pixel?_tabulate _ _ _ i j _ _ hq hr]
  congr 2
  apply List.map_congr_left
  intro pw _
  simp only [rect, fastKernel]
  ring

end fast

/-! ### the dispatch of lines 932-954 -/

section dispatch
variable {R : Type} [Zero R] [BEq R] [LawfulBEq R]

/-- **the fast path is taken iff** the kernel is `images_kernels.gaussian` and `sigma` is a single
    variance or a matrix with equal variances and `sigma[0][1] = 0`; the value handed to `sqrt` is the variance. -/
theorem dispatch_fast_iff (kc : KernelChoice R) (v : R) :
    dispatch kc = .fast v ↔
      kc = .gaussian (.scalar v) ∨
      ∃ s01 s10 s11, kc = .gaussian (.matrix v s01 s10 s11) ∧ v = s11 ∧ s01 = 0 := by
  cases kc with
  | other => simp [dispatch]
  | gaussian σ =>
    cases σ with
    | scalar s =>
      simp only [dispatch, Sigma.toMatrix, beq_self_eq_true, Bool.and_self, if_true]
      constructor
      · intro h; injection h with h; subst h; exact Or.inl rfl
      · rintro (h | ⟨_, _, _, h, _⟩)
        · injection h with h; injection h with h; subst h; rfl
        · injection h with h; cases h
    | matrix a b c d =>
      simp only [dispatch, Sigma.toMatrix]
      constructor
      · intro h
        by_cases hc : (a == d && b == 0) = true
        · simp only [hc, if_true] at h
          injection h with h; subst h
          simp only [Bool.and_eq_true, beq_iff_eq] at hc
          exact Or.inr ⟨b, c, d, rfl, hc.1, hc.2⟩
        · simp only [hc] at h; cases h
      · rintro (h | ⟨s01, s10, s11, h, h1, h2⟩)
        · injection h with h; cases h
        · injection h with h; injection h with ha hb hc hd
          subst ha; subst hb; subst hd; subst h1; subst h2
          simp

omit [LawfulBEq R] in
/-- every other configuration goes through the general path with the caller's kernel -/
theorem dispatch_general_iff (kc : KernelChoice R) :
    dispatch kc = .general ↔ ∀ v, dispatch kc ≠ .fast v := by
  cases h : dispatch kc with
  | fast v => simp
  | general => simp

omit [LawfulBEq R] in
/-- `sigma[1][0]` is never read -/
theorem dispatch_ignores_s10 (a b c c' d : R) :
    dispatch (.gaussian (.matrix a b c d)) = dispatch (.gaussian (.matrix a b c' d)) := rfl

end dispatch

/-- non-vacuity: identity covariance (the constructor's default) → fast; equal variances with
    covariance 1/2 → general; unequal variances → general -/
example : dispatch (.gaussian (.matrix (1 : ℚ) 0 0 1)) = .fast 1 :=
  (dispatch_fast_iff _ _).mpr (Or.inr ⟨0, 0, 1, rfl, rfl, rfl⟩)
example : dispatch (.gaussian (.scalar (3 : ℚ))) = .fast 3 :=
  (dispatch_fast_iff _ _).mpr (Or.inl rfl)
example : dispatch (.gaussian (.matrix (1 : ℚ) (1 / 2) (1 / 2) 1)) = .general := by
  norm_num [dispatch, Sigma.toMatrix]
example : dispatch (.gaussian (.matrix (1 : ℚ) 0 0 2)) = .general := by
  norm_num [dispatch, Sigma.toMatrix]

/-- non-vacuity of the hypotheses of `pixel_is_normal_mass_isotropic/_diag`, `pixel_is_box_mass` (canonical `BEq ℝ`, which is lawful): a scalar variance and the constructor's default identity matrix
    take the fast path with a positive variance; unequal variances and any non-Gaussian choice take the general path;
    positive box sides -/
example : dispatch (.gaussian (.scalar (2 : ℝ))) = .fast 2 ∧ (0 : ℝ) < 2 :=
  ⟨(dispatch_fast_iff _ _).mpr (Or.inl rfl), by norm_num⟩
example : dispatch (.gaussian (.matrix (1 : ℝ) 0 0 1)) = .fast 1 :=
  (dispatch_fast_iff _ _).mpr (Or.inr ⟨0, 0, 1, rfl, rfl, rfl⟩)
example : dispatch (.gaussian (.matrix (1 : ℝ) 0 0 2)) = .general ∧ (0 : ℝ) < 1 ∧ (0 : ℝ) < 2 := by
  refine ⟨?_, by norm_num, by norm_num⟩
  simp [dispatch, Sigma.toMatrix]
example : dispatch (KernelChoice.other : KernelChoice ℝ) = .general ∧ (0 : ℝ) < 3 ∧ (0 : ℝ) < 1 / 2 :=
  ⟨rfl, by norm_num, by norm_num⟩

end PersimVerif.C04
