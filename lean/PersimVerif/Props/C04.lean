import PersimVerif.Model.Image
namespace PersimVerif.C04
open PersimVerif.Image

/-- the skew conversion is (b,d) ↦ (b, d−b) -/
theorem skew_is_bp {α : Type} [Sub α] (b d : α) : skew (b, d) = (b, d - b) := rfl

end PersimVerif.C04
