import PersimVerif.Props.C01
import PersimVerif.Props.C03
import PersimVerif.Props.C09
import PersimVerif.Props.C10

/-!
# C10's bottleneck clause at the level of the *models of the code* (C10 ∘ C09 ∘ C03 vs C01)

`Props/C10.lean` ends with `landscape_stability` / `landscape_sup_le_bottleneck`: statements about the
mathematical landscape `PL.landscape` and the specification `Spec.IsBottleneck`.  This file composes them
with the theorems about the models, so that the clause

  "the sup norm of the difference of two diagrams' landscapes never exceeds their bottleneck distance"

is stated about what the models **return**:

* `Landscape.exact dgms h` — the model of `PersLandscapeExact(dgms, hom_deg=h)` (C03), shortcut included;
  hypothesis `fired = 0` (the repeated-bar shortcut, the known finding of C03, did not fire);
* `PLArith.Exact.sub` — the model of `P - Q` (C09) on the two returned landscapes;
* `PNorm.supNormExact` — the model of `.sup_norm()` (C10) on the difference;
* `Bottleneck.bottleneck oracle` — the model of `persim.bottleneck` (C01), for every oracle honouring
  `OracleMax`.

The diagrams are the *same raw inputs* for both sides: the `h`-th diagrams `d1`, `d2` of the two lists, with
`Option` deaths (`none` = non-finite).  The landscape constructor accepts them only if all deaths but a
trailing one are finite, and then sweeps exactly the finite part (`selectBars_eq_finitePart`), which is also
what `bottleneck` keeps.  Guards: bars of positive length (C03's guard; it implies C01's `birth ≤ death`).

Nothing here is about floating point.  The pointwise lemma (`model_sub_landscapes_pointwise`) holds over
every linear ordered field; the sup-norm statements are over `ℝ` (as all of C10's).
-/
set_option linter.unusedSectionVars false

namespace PersimVerif.C10Model
open PersimVerif.PL PersimVerif.Landscape PersimVerif.LandscapeLemmas PersimVerif.PLArith
open PersimVerif.PNorm PersimVerif.PNormLemmas PersimVerif.Bottleneck PersimVerif.Spec

section Field
variable {K : Type} [Field K] [LinearOrder K] [IsStrictOrderedRing K]

/-! ### the sweep returns at least one depth for a non-empty diagram -/

private theorem outer_length_ge : ∀ (fuel : Nat) (A : List (K × K)) (L : List (List (K × K))) (f : Nat) (o : Out K),
    outer fuel A L f = some o → L.length ≤ o.cps.length
  | fuel, [], L, f, o, h => by
    have : o = ⟨L, f⟩ := by cases fuel <;> simpa [outer] using h.symm
    rw [this]
  | 0, _ :: _, _, _, _, h => by simp [outer] at h
  | fuel + 1, (b, d) :: A, L, f, o, h => by
    rw [outer_succ] at h
    split at h
    · simp at h
    · have := outer_length_ge fuel _ _ _ o h
      simp only [List.length_append, List.length_cons] at this
      omega

private theorem insSorted_ne_nil {β : Type} (le : β → β → Bool) (x : β) (l : List β) : insSorted le x l ≠ [] := by
  cases l with
  | nil => simp [insSorted]
  | cons y ys => simp only [insSorted]; split <;> simp

private theorem stableSort_ne_nil {β : Type} (le : β → β → Bool) {l : List β} (h : l ≠ []) : stableSort le l ≠ [] := by
  cases l with
  | nil => exact absurd rfl h
  | cons a t => exact insSorted_ne_nil le a _

/-- the model of `compute_landscape` returns no depth at all on the empty diagram … -/
theorem sweep_nil : sweep ([] : List (K × K)) = some ⟨[], 0⟩ := by
  simp [sweep, stableSort, outer]

/-- … and at least one depth on every non-empty one -/
theorem sweep_cps_ne_nil {bars : List (K × K)} (hne : bars ≠ []) {o : Out K} (h : sweep bars = some o) :
    o.cps ≠ [] := by
  unfold sweep at h
  obtain ⟨⟨b, d⟩, A, hA⟩ := List.exists_cons_of_ne_nil (stableSort_ne_nil keyLe hne)
  rw [hA, outer_succ] at h
  split at h
  · simp at h
  · have := outer_length_ge _ _ _ _ o h
    intro h0
    rw [h0] at this
    simp at this

/-! ### C03 → C09: the sweep's output is an operand of the arithmetic -/

/-- what C03 proves about a run on which the shortcut did not fire, for *this* run -/
private theorem sweep_facts {bars : List (K × K)} (hpos : ∀ p ∈ bars, p.1 < p.2) {o : Out K}
    (h : sweep bars = some o) (hf : o.fired = 0) :
    (∀ c ∈ o.cps, wellFormed c = true) ∧ ∀ k t, evalDepth o.cps k t = landscape bars k t := by
  obtain ⟨o', ho', hc⟩ := C03.sweep_correct_of_not_fired bars hpos
  rw [h] at ho'
  cases ho'
  exact hc hf

/-- **the landscape the C03 model returns is in the class of C09** (`Exact.wf`, the executable guard of
    `sub_pointwise`): for a non-empty diagram of positive-length bars on which the shortcut did not fire,
    there is at least one depth and every depth satisfies `wfDepth` (via `strict_class_contained`). -/
theorem exact_wf_of_sweep {bars : List (K × K)} (hpos : ∀ p ∈ bars, p.1 < p.2) (hne : bars ≠ []) {o : Out K}
    (h : sweep bars = some o) (hf : o.fired = 0) (hd : Nat) : (⟨hd, o.cps⟩ : PLArith.Exact K).wf = true := by
  have hw := (sweep_facts hpos h hf).1
  have hne' := sweep_cps_ne_nil hne h
  simp only [Exact.wf, Bool.and_eq_true, Bool.not_eq_true', List.isEmpty_eq_false_iff, List.all_eq_true]
  exact ⟨hne', fun c hc => C09.strict_class_contained c (hw c hc)⟩

/-- `P - Q` when `P` has no depth (the landscape of a diagram whose only bar was the trailing infinite one):
    `union_crit_pairs([], -Q) = -Q` -/
private theorem sub_of_left_empty (h : Nat) (Q : PLArith.Exact K) (hQ : Q.WF) (hh : Q.homDeg = h) :
    (⟨h, []⟩ : PLArith.Exact K).sub Q = .ok ⟨h, Q.cps.map negDepth⟩ := by
  have hne : Q.cps.map negDepth ≠ [] := by simpa using hQ.1
  have e1 : Q.neg = .ok ⟨Q.homDeg, Q.cps.map negDepth⟩ := by
    unfold Exact.neg; exact Exact.mk'_ok _ _ hne
  unfold Exact.sub
  rw [e1]
  show Exact.add ⟨h, []⟩ ⟨Q.homDeg, Q.cps.map negDepth⟩ = _
  unfold Exact.add
  simp only [hh, ne_eq, not_true_eq_false, if_false]
  have hu : unionCritPairs ([] : List (Depth K)) (Q.cps.map negDepth) = Q.cps.map negDepth := by
    unfold unionCritPairs; rfl
  have he : hasEmptyDepth ([] : List (Depth K)) (Q.cps.map negDepth) = false := by
    unfold hasEmptyDepth; rfl
  rw [hu, he]
  simp only [Bool.false_eq_true, if_false]
  exact Exact.mk'_ok _ _ hne

/-- **`model_sub_landscapes_pointwise`** (C09 ∘ C03, every linear ordered field).  Let `oP`, `oQ` be what the
    model of `compute_landscape` returns on the diagrams `D`, `D'` (bars of positive length), the shortcut
    not fired on either.  Whenever the model of `P - Q` on the two results (as landscapes of one degree `h`)
    returns `R`, then `R` is again in C09's class and its depth-`k` function is the difference of the
    mathematical landscapes, `λ_k(D)(t) − λ_k(D')(t)`, at every depth `k` (beyond the last depth: `0`)
    and every `t`. -/
theorem model_sub_landscapes_pointwise (D D' : List (K × K))
    (hpos : ∀ p ∈ D, p.1 < p.2) (hpos' : ∀ p ∈ D', p.1 < p.2) {oP oQ : Out K}
    (hP : sweep D = some oP) (hQ : sweep D' = some oQ) (hfP : oP.fired = 0) (hfQ : oQ.fired = 0)
    (h : Nat) {R : PLArith.Exact K}
    (hR : (⟨h, oP.cps⟩ : PLArith.Exact K).sub ⟨h, oQ.cps⟩ = .ok R) :
    R.wf = true ∧ R.homDeg = h ∧ ∀ k t, evalDepth R.cps k t = landscape D k t - landscape D' k t := by
  obtain ⟨-, hvP⟩ := sweep_facts hpos hP hfP
  obtain ⟨-, hvQ⟩ := sweep_facts hpos' hQ hfQ
  by_cases hD' : D' = []
  · -- `-Q` raises (the constructor gets no critical pairs), so `P - Q` did not return
    exfalso
    subst hD'
    rw [sweep_nil] at hQ
    cases hQ
    simp [Exact.sub, Exact.neg, Exact.mk', bind, Except.bind] at hR
  · have hQwf := exact_wf_of_sweep hpos' hD' hQ hfQ h
    by_cases hD : D = []
    · subst hD
      rw [sweep_nil] at hP
      cases hP
      have hQW := (Exact.wf_iff _).mp hQwf
      rw [sub_of_left_empty h ⟨h, oQ.cps⟩ hQW rfl] at hR
      cases hR
      obtain ⟨nq, e1, w1, -, -, v1⟩ := Exact.neg_spec ⟨h, oQ.cps⟩ hQW
      have hnq : nq = ⟨h, oQ.cps.map negDepth⟩ := by
        unfold Exact.neg at e1
        rw [Exact.mk'_ok _ _ (by simpa using hQW.1)] at e1
        cases e1; rfl
      subst hnq
      refine ⟨(Exact.wf_iff _).mpr w1, rfl, fun k t => ?_⟩
      rw [v1, hvQ]
      simp [landscape, kth_nil]
    · have hPwf := exact_wf_of_sweep hpos hD hP hfP h
      obtain ⟨r, e, w, hdeg, -, v⟩ := C09.sub_pointwise ⟨h, oP.cps⟩ ⟨h, oQ.cps⟩ hPwf hQwf rfl
      rw [hR] at e
      cases e
      exact ⟨w, hdeg, fun k t => by rw [v, hvP, hvQ]⟩

/-- the hypothesis `P - Q = .ok R` of the statements of this file is met whenever the second diagram is
    non-empty (for an empty one the code raises: `-Q` has no critical pairs) -/
theorem model_sub_succeeds (D D' : List (K × K))
    (hpos : ∀ p ∈ D, p.1 < p.2) (hpos' : ∀ p ∈ D', p.1 < p.2) (hne' : D' ≠ []) {oP oQ : Out K}
    (hP : sweep D = some oP) (hQ : sweep D' = some oQ) (hfP : oP.fired = 0) (hfQ : oQ.fired = 0) (h : Nat) :
    ∃ R, (⟨h, oP.cps⟩ : PLArith.Exact K).sub ⟨h, oQ.cps⟩ = .ok R := by
  have hQwf := exact_wf_of_sweep hpos' hne' hQ hfQ h
  by_cases hD : D = []
  · subst hD
    rw [sweep_nil] at hP
    cases hP
    exact ⟨_, sub_of_left_empty h ⟨h, oQ.cps⟩ ((Exact.wf_iff _).mp hQwf) rfl⟩
  · obtain ⟨r, e, -⟩ := C09.sub_pointwise ⟨h, oP.cps⟩ ⟨h, oQ.cps⟩ (exact_wf_of_sweep hpos hD hP hfP h) hQwf rfl
    exact ⟨r, e⟩

/-! ### the constructor sweeps exactly the points `bottleneck` keeps -/

private theorem finiteBars_ok : ∀ (D : List (K × Option K)) (r : List (K × K)),
    finiteBars D = .ok r → r = finitePart D
  | [], r, h => by cases h; rfl
  | (b, none) :: t, r, h => by simp [finiteBars] at h
  | (b, some e) :: t, r, h => by
    simp only [finiteBars] at h
    cases ht : finiteBars t with
    | error e' => rw [ht] at h; cases h
    | ok r' =>
      rw [ht] at h
      cases h
      rw [finiteBars_ok t r' ht]
      rfl

private theorem dropTrailingInf_ok (D D' : List (K × Option K)) (h : dropTrailingInf D = .ok D') :
    finitePart D' = finitePart D := by
  unfold dropTrailingInf at h
  cases hl : D.getLast? with
  | none => rw [hl] at h; cases h
  | some p =>
    rw [hl] at h
    obtain ⟨b, e⟩ := p
    cases e with
    | some v => cases h; rfl
    | none =>
      cases h
      have hD : D.dropLast ++ [(b, none)] = D := List.dropLast_append_getLast? _ (by rw [hl]; rfl)
      conv_rhs => rw [← hD]
      simp [finitePart, filterFinite, List.filterMap_append]

/-- **the bars the exact-landscape constructor sweeps are the finite part of the selected diagram** — the
    points `persim.bottleneck` keeps of the same input (`finitePart`): a trailing infinite bar is dropped by
    both, any other infinite bar makes the landscape model reject the input (`Err.nonFinite`). -/
theorem selectBars_eq_finitePart (dgms : List (List (K × Option K))) (h : Nat) (d1 : List (K × Option K))
    (hd : dgms[h]? = some d1) (bars : List (K × K)) (hs : selectBars dgms (h : Int) = .ok bars) :
    bars = finitePart d1 := by
  unfold selectBars at hs
  have hh : ¬ ((h : Int) < 0) := by omega
  rw [if_neg hh] at hs
  split at hs
  · cases hs
  · simp only [Int.toNat_natCast, hd] at hs
    cases hdt : dropTrailingInf d1 with
    | error e => rw [hdt] at hs; cases hs
    | ok D' =>
      rw [hdt] at hs
      rw [finiteBars_ok D' bars hs, dropTrailingInf_ok d1 D' hdt]

/-- a successful run of the constructor is a run of the sweep on those bars -/
theorem exact_ok_sweep (dgms : List (List (K × Option K))) (h : Nat) (d1 : List (K × Option K))
    (hd : dgms[h]? = some d1) {o : Out K} (ho : Landscape.exact dgms (h : Int) = .ok o) :
    sweep (finitePart d1) = some o := by
  unfold Landscape.exact at ho
  cases hs : selectBars dgms (h : Int) with
  | error e => rw [hs] at ho; cases ho
  | ok bars =>
    rw [hs] at ho
    dsimp only at ho
    rw [← selectBars_eq_finitePart dgms h d1 hd bars hs]
    cases hw : sweep bars with
    | none => rw [hw] at ho; cases ho
    | some o' => rw [hw] at ho; cases ho; rfl

end Field

/-! ### the clause about what the models return (over `ℝ`) -/

noncomputable section

/-- the model's sup norm of a landscape of C09's class is attained: it is `|λ_k(t)|` for some depth and abscissa,
    and bounds every `|λ_k(t)|` -/
private theorem supNorm_attained {cps : List (List (ℝ × ℝ))} (hwf : ∀ l ∈ cps, PLArith.WF l) {m : ℝ}
    (hm : supNormExact cps = .ok m) :
    (∃ k t, m = |evalDepth cps k t|) ∧ (∀ k t, |evalDepth cps k t| ≤ m) ∧
      (⨆ kt : ℕ × ℝ, |evalDepth cps kt.1 kt.2|) = m := by
  obtain ⟨⟨⟨⟨k, t⟩, hkt⟩, hub⟩, hsup⟩ := C10.supNormExact_eq_wf cps hwf m hm
  exact ⟨⟨k, t, hkt.symm⟩, fun k t => hub ⟨(k, t), rfl⟩, hsup⟩

/-- **the returned sup norm is the supremum of the pointwise differences** (C10 ∘ C09 ∘ C03, level of
    `compute_landscape`).  `D`, `D'`: finite diagrams with bars of positive length; `oP`, `oQ`: what the model
    of the sweep returns on them, shortcut not fired; `R`: what the model of `P - Q` returns on the two;
    `m`: what the model of `sup_norm` returns on `R`.  Then `m = sup_{k,t} |λ_k(D)(t) − λ_k(D')(t)|`, and the
    supremum is attained. -/
theorem sweep_sup_norm_sub_eq_sup (D D' : List (ℝ × ℝ))
    (hpos : ∀ p ∈ D, p.1 < p.2) (hpos' : ∀ p ∈ D', p.1 < p.2) {oP oQ : Out ℝ}
    (hP : sweep D = some oP) (hQ : sweep D' = some oQ) (hfP : oP.fired = 0) (hfQ : oQ.fired = 0)
    (h : ℕ) {R : PLArith.Exact ℝ} (hR : (⟨h, oP.cps⟩ : PLArith.Exact ℝ).sub ⟨h, oQ.cps⟩ = .ok R)
    {m : ℝ} (hm : supNormExact R.cps = .ok m) :
    (⨆ kt : ℕ × ℝ, |landscape D kt.1 kt.2 - landscape D' kt.1 kt.2|) = m ∧
      ∃ k t, m = |landscape D k t - landscape D' k t| := by
  obtain ⟨hRwf, -, hpt⟩ := model_sub_landscapes_pointwise D D' hpos hpos' hP hQ hfP hfQ h hR
  have hW : ∀ l ∈ R.cps, PLArith.WF l := ((Exact.wf_iff R).mp hRwf).2
  obtain ⟨⟨k, t, hkt⟩, -, hsup⟩ := supNorm_attained hW hm
  refine ⟨?_, k, t, by rw [hkt, hpt]⟩
  rw [← hsup]
  congr 1
  funext kt
  rw [hpt]

/-- **the clause at the level of `compute_landscape`**, against the specification of the bottleneck distance:
    that sup norm does not exceed the bottleneck cost `d` of the two diagrams (`landscape_stability` at the
    depth and abscissa where the sup norm is attained). -/
theorem sweep_sup_norm_sub_le_bottleneck (D D' : List (ℝ × ℝ))
    (hpos : ∀ p ∈ D, p.1 < p.2) (hpos' : ∀ p ∈ D', p.1 < p.2) {oP oQ : Out ℝ}
    (hP : sweep D = some oP) (hQ : sweep D' = some oQ) (hfP : oP.fired = 0) (hfQ : oQ.fired = 0)
    (h : ℕ) {R : PLArith.Exact ℝ} (hR : (⟨h, oP.cps⟩ : PLArith.Exact ℝ).sub ⟨h, oQ.cps⟩ = .ok R)
    {m : ℝ} (hm : supNormExact R.cps = .ok m)
    {d : ℝ} (hb : IsBottleneck (cst D D') (dgc D) (dgc D') d) : m ≤ d := by
  obtain ⟨-, k, t, hkt⟩ := sweep_sup_norm_sub_eq_sup D D' hpos hpos' hP hQ hfP hfQ h hR hm
  obtain ⟨p, hp⟩ := hb.attained
  rw [hkt]
  exact C10.landscape_stability D D' d p hp (fun q hq => (hpos q hq).le) (fun q hq => (hpos' q hq).le) k t

/-- **`model_sup_norm_sub_le_model_bottleneck`** — C10's last clause as a user of the library experiences it,
    about what the four models return.

    Let `d1 = dgms[h]`, `d2 = dgms'[h]` be two diagrams (deaths `Option ℝ`, `none` = non-finite) whose finite
    bars have positive length.  If
    * the model of `PersLandscapeExact(dgms, hom_deg=h)` returns `oP` and that of
      `PersLandscapeExact(dgms', hom_deg=h)` returns `oQ`, the repeated-bar shortcut fired on neither
      (`fired = 0`; it cannot be dropped: `C03.shortcut_counterexample`),
    * the model of `P - Q` on the two landscapes returns `R`,
    * the model of `R.sup_norm()` returns `m`,
    * the model of `persim.bottleneck(d1, d2)` — with any oracle returning maximum-cardinality matchings in
      place of Hopcroft–Karp — returns the finite value `d`,
    then `m ≤ d`. -/
theorem model_sup_norm_sub_le_model_bottleneck
    {oracle : Graph → Matching} (ho : OracleMax oracle)
    (dgms dgms' : List (List (ℝ × Option ℝ))) (h : ℕ) (d1 d2 : List (ℝ × Option ℝ))
    (hd1 : dgms[h]? = some d1) (hd2 : dgms'[h]? = some d2)
    (hpos1 : ∀ p ∈ finitePart d1, p.1 < p.2) (hpos2 : ∀ p ∈ finitePart d2, p.1 < p.2)
    {oP oQ : Out ℝ} (hP : Landscape.exact dgms (h : Int) = .ok oP) (hQ : Landscape.exact dgms' (h : Int) = .ok oQ)
    (hfP : oP.fired = 0) (hfQ : oQ.fired = 0)
    {R : PLArith.Exact ℝ} (hR : (⟨h, oP.cps⟩ : PLArith.Exact ℝ).sub ⟨h, oQ.cps⟩ = .ok R)
    {m : ℝ} (hm : supNormExact R.cps = .ok m)
    {r : Result ℝ} {d : ℝ} (hr : bottleneck oracle d1 d2 = some r) (hd : r.value = .fin d) :
    m ≤ d := by
  have hsP := exact_ok_sweep dgms h d1 hd1 hP
  have hsQ := exact_ok_sweep dgms' h d2 hd2 hQ
  obtain ⟨r', v, hr', hv, hb⟩ := C01.bottleneck_eq_spec (K := ℝ) oracle ho d1 d2
    (fun p hp => (hpos1 p hp).le) (fun p hp => (hpos2 p hp).le)
  rw [hr] at hr'
  cases hr'
  rw [hd] at hv
  cases hv
  exact sweep_sup_norm_sub_le_bottleneck _ _ hpos1 hpos2 hsP hsQ hfP hfQ h hR hm hb

/-- under the same hypotheses the returned sup norm is exactly the supremum of the pointwise differences of
    the two mathematical landscapes -/
theorem model_sup_norm_sub_eq_sup
    (dgms dgms' : List (List (ℝ × Option ℝ))) (h : ℕ) (d1 d2 : List (ℝ × Option ℝ))
    (hd1 : dgms[h]? = some d1) (hd2 : dgms'[h]? = some d2)
    (hpos1 : ∀ p ∈ finitePart d1, p.1 < p.2) (hpos2 : ∀ p ∈ finitePart d2, p.1 < p.2)
    {oP oQ : Out ℝ} (hP : Landscape.exact dgms (h : Int) = .ok oP) (hQ : Landscape.exact dgms' (h : Int) = .ok oQ)
    (hfP : oP.fired = 0) (hfQ : oQ.fired = 0)
    {R : PLArith.Exact ℝ} (hR : (⟨h, oP.cps⟩ : PLArith.Exact ℝ).sub ⟨h, oQ.cps⟩ = .ok R)
    {m : ℝ} (hm : supNormExact R.cps = .ok m) :
    (⨆ kt : ℕ × ℝ, |landscape (finitePart d1) kt.1 kt.2 - landscape (finitePart d2) kt.1 kt.2|) = m := by
  have hsP := exact_ok_sweep dgms h d1 hd1 hP
  have hsQ := exact_ok_sweep dgms' h d2 hd2 hQ
  exact (sweep_sup_norm_sub_eq_sup _ _ hpos1 hpos2 hsP hsQ hfP hfQ h hR hm).1

/-- the same for **finite diagrams** `D`, `D'` given as lists of `(birth, death)` with `birth < death`, passed as
    the only diagram (`hom_deg = 0`) to the landscape constructor and as they are to `bottleneck` -/
theorem model_sup_norm_sub_le_model_bottleneck_finite
    {oracle : Graph → Matching} (ho : OracleMax oracle) (D D' : List (ℝ × ℝ))
    (hpos : ∀ p ∈ D, p.1 < p.2) (hpos' : ∀ p ∈ D', p.1 < p.2)
    {oP oQ : Out ℝ} (hP : Landscape.exact [lift D] 0 = .ok oP) (hQ : Landscape.exact [lift D'] 0 = .ok oQ)
    (hfP : oP.fired = 0) (hfQ : oQ.fired = 0)
    {R : PLArith.Exact ℝ} (hR : (⟨0, oP.cps⟩ : PLArith.Exact ℝ).sub ⟨0, oQ.cps⟩ = .ok R)
    {m : ℝ} (hm : supNormExact R.cps = .ok m)
    {r : Result ℝ} {d : ℝ} (hr : bottleneck oracle (lift D) (lift D') = some r) (hd : r.value = .fin d) :
    m ≤ d :=
  model_sup_norm_sub_le_model_bottleneck ho [lift D] [lift D'] 0 (lift D) (lift D') rfl rfl
    (by rw [finitePart, filterFinite_lift]; exact hpos) (by rw [finitePart, filterFinite_lift]; exact hpos')
    hP hQ hfP hfQ hR hm hr hd

/-- **trace-free form**: when the births of the finite bars of each diagram are pairwise distinct (or their
    deaths are), the shortcut cannot fire (`C03.sweep_fired_zero_of_distinct_births` / `_deaths`), so the hypothesis
    about the run disappears: whatever the landscape constructor, `-`, `sup_norm` and `bottleneck` models
    return on such diagrams satisfies `m ≤ d` -/
theorem model_sup_norm_sub_le_model_bottleneck_of_distinct
    {oracle : Graph → Matching} (ho : OracleMax oracle)
    (dgms dgms' : List (List (ℝ × Option ℝ))) (h : ℕ) (d1 d2 : List (ℝ × Option ℝ))
    (hd1 : dgms[h]? = some d1) (hd2 : dgms'[h]? = some d2)
    (hpos1 : ∀ p ∈ finitePart d1, p.1 < p.2) (hpos2 : ∀ p ∈ finitePart d2, p.1 < p.2)
    (hn1 : ((finitePart d1).map Prod.fst).Nodup ∨ ((finitePart d1).map Prod.snd).Nodup)
    (hn2 : ((finitePart d2).map Prod.fst).Nodup ∨ ((finitePart d2).map Prod.snd).Nodup)
    {oP oQ : Out ℝ} (hP : Landscape.exact dgms (h : Int) = .ok oP) (hQ : Landscape.exact dgms' (h : Int) = .ok oQ)
    {R : PLArith.Exact ℝ} (hR : (⟨h, oP.cps⟩ : PLArith.Exact ℝ).sub ⟨h, oQ.cps⟩ = .ok R)
    {m : ℝ} (hm : supNormExact R.cps = .ok m)
    {r : Result ℝ} {d : ℝ} (hr : bottleneck oracle d1 d2 = some r) (hd : r.value = .fin d) :
    m ≤ d := by
  have hsP := exact_ok_sweep dgms h d1 hd1 hP
  have hsQ := exact_ok_sweep dgms' h d2 hd2 hQ
  have hfP : oP.fired = 0 := by
    rcases hn1 with hn | hn
    · exact C03.sweep_fired_zero_of_distinct_births _ hn _ hsP
    · exact C03.sweep_fired_zero_of_distinct_deaths _ hn _ hsP
  have hfQ : oQ.fired = 0 := by
    rcases hn2 with hn | hn
    · exact C03.sweep_fired_zero_of_distinct_births _ hn _ hsQ
    · exact C03.sweep_fired_zero_of_distinct_deaths _ hn _ hsQ
  exact model_sup_norm_sub_le_model_bottleneck ho dgms dgms' h d1 d2 hd1 hd2 hpos1 hpos2 hP hQ hfP hfQ hR hm hr hd

end

/-! ### non-vacuity: every hypothesis is met by concrete, non-trivial diagrams

`exD` = three nested bars with distinct births followed by a trailing infinite bar (dropped by the landscape
constructor and by `bottleneck` alike); `exD'` = four bars with distinct births, three nested and two
crossing.  The two landscapes have 3 and 4 depths (so a missing depth counts as zero), their difference
changes sign, its sup norm is `1` — and the bottleneck distance of the two diagrams is `1` as well (each of
the three nested pairs costs 1, the extra bar `(4,6)` goes to the diagonal at cost 1): the bound is tight on
this input.  The models are evaluated by `norm_num` on their defining equations, over `ℚ` and over `ℝ`. -/

section Examples
variable (K : Type) [Field K] [LinearOrder K] [IsStrictOrderedRing K]

private def exBars : List (K × K) := [(0, 10), (1, 8), (2, 6)]
private def exBars' : List (K × K) := [(0, 9), (2, 8), (3, 5), (4, 6)]
private def exD : List (K × Option K) := [(0, some 10), (1, some 8), (2, some 6), (7, none)]
private def exD' : List (K × Option K) := [(0, some 9), (2, some 8), (3, some 5), (4, some 6)]
private def exP : Out K :=
  ⟨[[(0, 0), (5, 5), (10, 0)], [(1, 0), (9 / 2, 7 / 2), (8, 0)], [(2, 0), (4, 2), (6, 0)]], 0⟩
private def exQ : Out K :=
  ⟨[[(0, 0), (9 / 2, 9 / 2), (9, 0)], [(2, 0), (5, 3), (8, 0)],
    [(3, 0), (4, 1), (9 / 2, 1 / 2), (5, 1), (6, 0)], [(4, 0), (9 / 2, 1 / 2), (5, 0)]], 0⟩
private def exR : PLArith.Exact K :=
  ⟨0, [[(0, 0), (9 / 2, 0), (5, 1), (9, 1), (10, 0)], [(1, 0), (2, 1), (9 / 2, 1), (5, 0), (8, 0)],
    [(2, 0), (3, 1), (4, 1), (9 / 2, 1), (5, 0), (6, 0)], [(4, 0), (9 / 2, -1 / 2), (5, 0)]]⟩

end Examples

/-- the two runs of the sweep and the run of `P - Q`, at `ℚ` (where the driver computes) -/
private theorem ex_runs_rat :
    sweep (exBars ℚ) = some (exP ℚ) ∧ sweep (exBars' ℚ) = some (exQ ℚ) ∧
    (⟨0, (exP ℚ).cps⟩ : PLArith.Exact ℚ).sub ⟨0, (exQ ℚ).cps⟩ = .ok (exR ℚ) := by
  refine ⟨?_, ?_, ?_⟩
  · norm_num [exBars, exP, sweep, stableSort, insSorted, keyLe, outer, dupLoop, Landscape.inner, popFirst,
      insertPos, pyInsert]
  · norm_num [exBars', exQ, sweep, stableSort, insSorted, keyLe, outer, dupLoop, Landscape.inner, popFirst,
      insertPos, pyInsert]
  · norm_num [exP, exQ, exR, Exact.sub, Exact.neg, Exact.add, Exact.mk', negDepth, hasEmptyDepth, unionCritPairs,
      addDepth, posToSlope, sumSlopes, slopeToPos, slopeToPosAux, bind, Except.bind]

/-- hypotheses of `model_sub_landscapes_pointwise` / `model_sub_succeeds`, at `ℚ`: positive-length bars, a
    non-empty second diagram, the two runs of the sweep with the shortcut not fired, and the run of `P - Q` -/
example : (∀ p ∈ exBars ℚ, p.1 < p.2) ∧ (∀ p ∈ exBars' ℚ, p.1 < p.2) ∧ exBars' ℚ ≠ [] ∧
    sweep (exBars ℚ) = some (exP ℚ) ∧ sweep (exBars' ℚ) = some (exQ ℚ) ∧
    (exP ℚ).fired = 0 ∧ (exQ ℚ).fired = 0 ∧
    (⟨0, (exP ℚ).cps⟩ : PLArith.Exact ℚ).sub ⟨0, (exQ ℚ).cps⟩ = .ok (exR ℚ) :=
  ⟨by norm_num [exBars], by norm_num [exBars'], by simp [exBars'], ex_runs_rat.1, ex_runs_rat.2.1, rfl, rfl,
    ex_runs_rat.2.2⟩

/-- the same runs over `ℝ`, through the whole constructor (selection by `hom_deg`, trailing infinite bar) -/
private theorem ex_runs :
    Landscape.exact [exD ℝ] ((0 : ℕ) : Int) = .ok (exP ℝ) ∧ Landscape.exact [exD' ℝ] ((0 : ℕ) : Int) = .ok (exQ ℝ) ∧
    (⟨0, (exP ℝ).cps⟩ : PLArith.Exact ℝ).sub ⟨0, (exQ ℝ).cps⟩ = .ok (exR ℝ) ∧
    supNormExact (exR ℝ).cps = .ok 1 := by
  refine ⟨?_, ?_, ?_, ?_⟩
  · norm_num [exD, exP, Landscape.exact, selectBars, dropTrailingInf, finiteBars, sweep, stableSort, insSorted,
      keyLe, outer, dupLoop, Landscape.inner, popFirst, insertPos, pyInsert]
  · norm_num [exD', exQ, Landscape.exact, selectBars, dropTrailingInf, finiteBars, sweep, stableSort, insSorted,
      keyLe, outer, dupLoop, Landscape.inner, popFirst, insertPos, pyInsert]
  · norm_num [exP, exQ, exR, Exact.sub, Exact.neg, Exact.add, Exact.mk', negDepth, hasEmptyDepth, unionCritPairs,
      addDepth, posToSlope, sumSlopes, slopeToPos, slopeToPosAux, bind, Except.bind]
  · norm_num [exR, supNormExact, pyMax, absA]

private theorem ex_pos : (∀ p ∈ finitePart (exD ℝ), p.1 < p.2) ∧ (∀ p ∈ finitePart (exD' ℝ), p.1 < p.2) := by
  constructor <;> · simp [finitePart, filterFinite, exD, exD']; norm_num

/-- **all hypotheses of `model_sup_norm_sub_le_model_bottleneck` hold simultaneously** on `exD`, `exD'`: an
    oracle honouring the contract exists, the constructor returns on both diagrams with the shortcut not fired,
    `P - Q` returns, its sup norm is `1`, and the bottleneck model returns a finite value -/
example : ∃ (oracle : Graph → Matching) (r : Result ℝ) (d : ℝ), OracleMax oracle ∧
    [exD ℝ][0]? = some (exD ℝ) ∧ [exD' ℝ][0]? = some (exD' ℝ) ∧
    (∀ p ∈ finitePart (exD ℝ), p.1 < p.2) ∧ (∀ p ∈ finitePart (exD' ℝ), p.1 < p.2) ∧
    Landscape.exact [exD ℝ] ((0 : ℕ) : Int) = .ok (exP ℝ) ∧ Landscape.exact [exD' ℝ] ((0 : ℕ) : Int) = .ok (exQ ℝ) ∧
    (exP ℝ).fired = 0 ∧ (exQ ℝ).fired = 0 ∧
    (⟨0, (exP ℝ).cps⟩ : PLArith.Exact ℝ).sub ⟨0, (exQ ℝ).cps⟩ = .ok (exR ℝ) ∧
    supNormExact (exR ℝ).cps = .ok 1 ∧
    bottleneck oracle (exD ℝ) (exD' ℝ) = some r ∧ r.value = .fin d := by
  obtain ⟨o, ho⟩ := C01.oracleMax_exists
  obtain ⟨r, v, hr, hv, -⟩ := C01.bottleneck_eq_spec (K := ℝ) o ho (exD ℝ) (exD' ℝ)
    (fun p hp => (ex_pos.1 p hp).le) (fun p hp => (ex_pos.2 p hp).le)
  exact ⟨o, r, v, ho, rfl, rfl, ex_pos.1, ex_pos.2, ex_runs.1, ex_runs.2.1, rfl, rfl, ex_runs.2.2.1,
    ex_runs.2.2.2, hr, hv⟩

/-- … so whatever maximum matchings the oracle returns, the bottleneck model's value on them is at least `1` -/
example {oracle : Graph → Matching} (ho : OracleMax oracle) {r : Result ℝ} {d : ℝ}
    (hr : bottleneck oracle (exD ℝ) (exD' ℝ) = some r) (hd : r.value = .fin d) : 1 ≤ d :=
  model_sup_norm_sub_le_model_bottleneck ho [exD ℝ] [exD' ℝ] 0 (exD ℝ) (exD' ℝ) rfl rfl ex_pos.1 ex_pos.2
    ex_runs.1 ex_runs.2.1 rfl rfl ex_runs.2.2.1 ex_runs.2.2.2 hr hd

/-- and the pointwise lemma says what the computed difference is, at every depth and abscissa -/
example (k : ℕ) (t : ℚ) : evalDepth (exR ℚ).cps k t = landscape (exBars ℚ) k t - landscape (exBars' ℚ) k t :=
  (model_sub_landscapes_pointwise (exBars ℚ) (exBars' ℚ) (by norm_num [exBars]) (by norm_num [exBars'])
    ex_runs_rat.1 ex_runs_rat.2.1 rfl rfl 0 ex_runs_rat.2.2).2.2 k t

/-- hypotheses of the `…_finite` form (diagrams as lists of finite pairs, lifted), of `selectBars_eq_finitePart` /
    `exact_ok_sweep` (a successful constructor run on the selected diagram — here with a trailing infinite bar),
    and of `sweep_cps_ne_nil` / `exact_wf_of_sweep` (non-empty diagram, positive bars, a run, not fired) -/
example : Landscape.exact [lift (exBars ℝ)] 0 = .ok (exP ℝ) ∧ Landscape.exact [lift (exBars' ℝ)] 0 = .ok (exQ ℝ) ∧
    ([exD ℝ][0]? = some (exD ℝ) ∧ finitePart (exD ℝ) = exBars ℝ ∧ sweep (finitePart (exD ℝ)) = some (exP ℝ)) ∧
    (exBars ℝ ≠ [] ∧ (∀ p ∈ exBars ℝ, p.1 < p.2) ∧ (exP ℝ).fired = 0) := by
  refine ⟨?_, ?_, ⟨rfl, by simp [finitePart, filterFinite, exD, exBars], exact_ok_sweep [exD ℝ] 0 (exD ℝ) rfl ex_runs.1⟩,
    by simp [exBars], by norm_num [exBars], rfl⟩
  · norm_num [lift, exBars, exP, Landscape.exact, selectBars, dropTrailingInf, finiteBars, sweep, stableSort, insSorted,
      keyLe, outer, dupLoop, Landscape.inner, popFirst, insertPos, pyInsert]
  · norm_num [lift, exBars', exQ, Landscape.exact, selectBars, dropTrailingInf, finiteBars, sweep, stableSort, insSorted,
      keyLe, outer, dupLoop, Landscape.inner, popFirst, insertPos, pyInsert]

/-- the extra hypotheses of the trace-free form on the same example: pairwise distinct births on both sides -/
example : ((finitePart (exD ℝ)).map Prod.fst).Nodup ∧ ((finitePart (exD' ℝ)).map Prod.fst).Nodup := by
  constructor <;> simp [finitePart, filterFinite, exD, exD', List.filterMap]

/-- … hence `1 ≤ d` for these diagrams with no hypothesis about the run of the sweep -/
example {oracle : Graph → Matching} (ho : OracleMax oracle) {r : Result ℝ} {d : ℝ}
    (hr : bottleneck oracle (exD ℝ) (exD' ℝ) = some r) (hd : r.value = .fin d) : 1 ≤ d :=
  model_sup_norm_sub_le_model_bottleneck_of_distinct ho [exD ℝ] [exD' ℝ] 0 (exD ℝ) (exD' ℝ) rfl rfl ex_pos.1 ex_pos.2
    (Or.inl (by simp [finitePart, filterFinite, exD, List.filterMap])) (Or.inl (by simp [finitePart, filterFinite, exD', List.filterMap]))
    ex_runs.1 ex_runs.2.1 ex_runs.2.2.1 ex_runs.2.2.2 hr hd

end PersimVerif.C10Model
