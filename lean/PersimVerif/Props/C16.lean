import PersimVerif.Model.Entropy
import Mathlib.Analysis.SpecialFunctions.Log.NegMulLog
import Mathlib.Algebra.Order.BigOperators.Group.List
import Mathlib.Tactic.Linarith
import Mathlib.Tactic.FieldSimp
import Mathlib.Tactic.Ring

/-!
# C16 — persistent entropy is the Shannon entropy of normalised bar lengths

All statements are about `PersimVerif.Entropy` (the model of `persim/persistent_entropy.py`)
instantiated at `ℝ` with `log := Real.log`.  Nothing here is about floating point.
-/
namespace PersimVerif.C16
open PersimVerif.Entropy Real

noncomputable section

/-- the model's Shannon sum at the reals -/
abbrev H (l : List ℝ) : ℝ := shannon Real.log l

/-- the whole routine at the reals -/
abbrev PE := persistentEntropy (α := ℝ) Real.log (fun n => (n : ℝ))

abbrev E1 := entropyOne (α := ℝ) Real.log (fun n => (n : ℝ))

/-- one diagram with `keep_inf = False`: filter on the death, then `E1` -/
abbrev ED := entropyDrop (α := ℝ) Real.log (fun n => (n : ℝ))

/-- a diagram all of whose coordinates are finite, as the routine receives it -/
abbrev fin (d : List (ℝ × ℝ)) : Dgm ℝ := d.map fun p => (some p.1, some p.2)

/-! ### helper facts about list sums -/

private lemma sum_pos_of_pos : ∀ (l : List ℝ), l ≠ [] → (∀ x ∈ l, 0 < x) → 0 < l.sum
  | [], h, _ => absurd rfl h
  | [a], _, hp => by simpa using hp a (by simp)
  | a :: b :: t, _, hp => by
    have h1 : 0 < a := hp a (by simp)
    have h2 : 0 < (b :: t).sum := sum_pos_of_pos (b :: t) (by simp) (fun x hx => hp x (by simp [hx]))
    simp only [List.sum_cons] at h2 ⊢
    linarith

private lemma le_sum_of_mem : ∀ (l : List ℝ), (∀ x ∈ l, 0 ≤ x) → ∀ x ∈ l, x ≤ l.sum
  | [], _, x, hx => by simp at hx
  | a :: t, hp, x, hx => by
    have ht : 0 ≤ t.sum := List.sum_nonneg (fun y hy => hp y (by simp [hy]))
    have ha : 0 ≤ a := hp a (by simp)
    simp only [List.sum_cons]
    rcases List.mem_cons.mp hx with rfl | hx
    · linarith
    · have := le_sum_of_mem t (fun y hy => hp y (by simp [hy])) x hx
      linarith

private lemma sum_map_div (l : List ℝ) (L : ℝ) : (l.map (· / L)).sum = l.sum / L := by
  induction l with
  | nil => simp
  | cons a t ih => simp only [List.map_cons, List.sum_cons, ih]; ring

private lemma sum_map_affine (l : List ℝ) (c d : ℝ) :
    (l.map fun p => p * c + d - p).sum = l.sum * c + l.length * d - l.sum := by
  induction l with
  | nil => simp
  | cons a t ih => simp only [List.map_cons, List.sum_cons, ih, List.length_cons]; push_cast; ring

/-- `shannon` is the sum of `negMulLog` over the normalised lengths -/
theorem H_eq_sum_negMulLog (l : List ℝ) :
    H l = ((l.map (· / l.sum)).map negMulLog).sum := by
  simp only [H, shannon, List.map_map]
  generalize l.sum = L
  induction l with
  | nil => simp
  | cons a t ih =>
    simp only [List.map_cons, List.sum_cons, neg_add, ih]
    simp [negMulLog, Function.comp]

/-- the normalised lengths of a non-empty positive list are in (0,1] and sum to one -/
private lemma probs_facts (l : List ℝ) (hne : l ≠ []) (hp : ∀ x ∈ l, 0 < x) :
    (∀ p ∈ l.map (· / l.sum), 0 < p ∧ p ≤ 1) ∧ (l.map (· / l.sum)).sum = 1 := by
  have hL := sum_pos_of_pos l hne hp
  refine ⟨?_, ?_⟩
  · intro p hpm
    obtain ⟨x, hx, rfl⟩ := List.mem_map.mp hpm
    refine ⟨div_pos (hp x hx) hL, ?_⟩
    rw [div_le_one hL]
    exact le_sum_of_mem l (fun y hy => (hp y hy).le) x hx
  · rw [sum_map_div, div_self hL.ne']

/-- **0 ≤ H** for every barcode with bars of positive length. -/
theorem H_nonneg (l : List ℝ) (hp : ∀ x ∈ l, 0 < x) : 0 ≤ H l := by
  rw [H_eq_sum_negMulLog]
  by_cases hne : l = []
  · subst hne; simp
  apply List.sum_nonneg
  intro y hy
  obtain ⟨p, hpm, rfl⟩ := List.mem_map.mp hy
  obtain ⟨h0, h1⟩ := (probs_facts l hne hp).1 p hpm
  exact negMulLog_nonneg h0.le h1

/-- Gibbs' inequality on a list: probabilities summing to one have entropy ≤ log n -/
private lemma gibbs (ps : List ℝ) (hne : ps ≠ []) (hpos : ∀ p ∈ ps, 0 < p) (hsum : ps.sum = 1) :
    (ps.map negMulLog).sum ≤ Real.log ps.length := by
  have hn : (0 : ℝ) < ps.length := by
    have : 0 < ps.length := List.length_pos_iff.mpr hne
    exact_mod_cast this
  have hpt : ∀ p ∈ ps, negMulLog p ≤ p * Real.log ps.length + (1 / (ps.length : ℝ)) - p := by
    intro p hp
    have h0 := hpos p hp
    have hx : 0 < 1 / ((ps.length : ℝ) * p) := by positivity
    have hlog := Real.log_le_sub_one_of_pos hx
    have : Real.log (1 / ((ps.length : ℝ) * p)) = -(Real.log ps.length + Real.log p) := by
      rw [one_div, Real.log_inv, Real.log_mul hn.ne' h0.ne']
    rw [this] at hlog
    have hmul := mul_le_mul_of_nonneg_left hlog h0.le
    have e : p * (1 / ((ps.length : ℝ) * p) - 1) = 1 / (ps.length : ℝ) - p := by
      field_simp
    rw [e] at hmul
    simp only [negMulLog]
    nlinarith
  calc (ps.map negMulLog).sum
      ≤ (ps.map fun p => p * Real.log ps.length + (1 / (ps.length : ℝ)) - p).sum :=
        List.sum_le_sum hpt
    _ = Real.log ps.length := by
        rw [sum_map_affine, hsum]; field_simp; ring

/-- **H ≤ log n**. -/
theorem H_le_log_n (l : List ℝ) (hp : ∀ x ∈ l, 0 < x) : H l ≤ Real.log l.length := by
  by_cases hne : l = []
  · subst hne; simp [H, shannon]
  rw [H_eq_sum_negMulLog]
  obtain ⟨h1, h2⟩ := probs_facts l hne hp
  have := gibbs (l.map (· / l.sum)) (by simpa using hne) (fun p hp' => (h1 p hp').1) h2
  simpa using this

/-- **equal lengths give exactly log n**. -/
theorem H_equal_lengths (n : ℕ) (c : ℝ) (hc : 0 < c) (hn : 0 < n) :
    H (List.replicate n c) = Real.log n := by
  have hn' : (n : ℝ) ≠ 0 := by exact_mod_cast hn.ne'
  simp only [H, shannon, List.sum_replicate, List.map_replicate, nsmul_eq_mul]
  have e : c / ((n : ℝ) * c) = 1 / n := by field_simp
  rw [e, one_div, Real.log_inv]
  field_simp

/-- **invariance under reordering**. -/
theorem H_perm {l l' : List ℝ} (h : l.Perm l') : H l = H l' := by
  simp only [H, shannon, h.sum_eq]
  rw [(h.map _).sum_eq]

/-- **invariance under uniform rescaling** by `c ≠ 0` (in particular every `c > 0`). -/
theorem H_scale (l : List ℝ) (c : ℝ) (hc : c ≠ 0) : H (l.map (c * ·)) = H l := by
  have hs : (l.map (c * ·)).sum = c * l.sum := by
    induction l with
    | nil => simp
    | cons a t ih => simp only [List.map_cons, List.sum_cons, ih]; ring
  simp only [H, shannon, hs, List.map_map]
  congr 2
  apply List.map_congr_left
  intro x _
  simp only [Function.comp]
  rw [mul_div_mul_left _ _ hc]

/-- **invariance under translation**: the lengths, hence everything computed from them, are unchanged. -/
theorem lengths_translate (d : List (ℝ × ℝ)) (t : ℝ) :
    lengths (d.map fun p => (p.1 + t, p.2 + t)) = lengths d := by
  simp only [lengths, List.map_map]
  apply List.map_congr_left
  intro p _
  simp

theorem E1_translate (norm : Bool) (d : List (ℝ × ℝ)) (t : ℝ) :
    E1 norm (d.map fun p => (p.1 + t, p.2 + t)) = E1 norm d := by
  simp only [E1, entropyOne, lengths_translate]

/-- scaling the bars scales the lengths -/
theorem lengths_scale (d : List (ℝ × ℝ)) (c : ℝ) :
    lengths (d.map fun p => (c * p.1, c * p.2)) = (lengths d).map (c * ·) := by
  simp only [lengths, List.map_map]
  apply List.map_congr_left
  intro p _
  simp [mul_sub]

/-- reordering the bars reorders the lengths -/
theorem lengths_perm {d d' : List (ℝ × ℝ)} (h : d.Perm d') : (lengths d).Perm (lengths d') := h.map _

/-- **the normalised variant lies in [0,1] for n ≥ 2**. -/
theorem H_norm_in_unit (l : List ℝ) (hp : ∀ x ∈ l, 0 < x) (hn : 2 ≤ l.length) :
    0 ≤ H l / Real.log l.length ∧ H l / Real.log l.length ≤ 1 := by
  have hlog : 0 < Real.log l.length := by
    apply Real.log_pos
    have : (2 : ℝ) ≤ l.length := by exact_mod_cast hn
    linarith
  exact ⟨div_nonneg (H_nonneg l hp) hlog.le, (div_le_one hlog).mpr (H_le_log_n l hp)⟩

/-- what the routine returns for one diagram whose bars all have positive length -/
theorem E1_ok (norm : Bool) (d : List (ℝ × ℝ)) (hp : ∀ x ∈ lengths d, 0 < x) :
    E1 norm d = .ok (if norm then H (lengths d) / Real.log (lengths d).length else H (lengths d)) := by
  have : (lengths d).all (fun x => decide (0 < x)) = true := by
    simpa [List.all_eq_true] using hp
  simp [E1, entropyOne, this]

/-- **a bar of non-positive length raises** instead of yielding a number. -/
theorem nonpositive_raises (norm : Bool) (d : List (ℝ × ℝ)) (h : ∃ p ∈ d, p.2 - p.1 ≤ 0) :
    E1 norm d = .error .bornAfterDying := by
  obtain ⟨p, hp, hle⟩ := h
  have : (lengths d).all (fun x => decide (0 < x)) = false := by
    rw [List.all_eq_false]
    exact ⟨p.2 - p.1, List.mem_map.mpr ⟨p, hp, rfl⟩, by simpa using hle⟩
  simp [E1, entropyOne, this]

/-- **entry-point form of reordering**: what the routine returns for one diagram (value *or*
    error, normalised or not) does not depend on the order of the bars. -/
theorem E1_perm (norm : Bool) {d d' : List (ℝ × ℝ)} (h : d.Perm d') : E1 norm d = E1 norm d' := by
  have hl := lengths_perm h
  simp only [E1, entropyOne, hl.all_eq, hl.length_eq, H_perm hl]

/-- **entry-point form of rescaling** by `c > 0`: value *or* error unchanged (a negative factor
    would turn every bar round and make the routine raise, so `0 < c` is the guard here). -/
theorem E1_scale (norm : Bool) (d : List (ℝ × ℝ)) (c : ℝ) (hc : 0 < c) :
    E1 norm (d.map fun p => (c * p.1, c * p.2)) = E1 norm d := by
  have hall : ((lengths d).map (c * ·)).all (fun x => decide (0 < x))
      = (lengths d).all (fun x => decide (0 < x)) := by
    rw [List.all_map]
    apply List.all_congr rfl
    intro x
    simp [Function.comp, mul_pos_iff_of_pos_left hc]
  simp only [E1, entropyOne, lengths_scale, hall, H_scale _ c hc.ne', List.length_map]

/-- **a list of diagrams yields the vector of individual entropies** (same length, same order),
    with infinite bars dropped when `keep_inf = False` … -/
theorem list_is_map_drop (vinf : Option ℝ) (norm : Bool) (dgms : List (Dgm ℝ)) :
    PE false vinf norm dgms = dgms.mapM (ED norm) := by
  simp [PE, persistentEntropy]

/-- … and replaced by the supplied value when `keep_inf = True`. -/
theorem list_is_map_subst (v : ℝ) (norm : Bool) (dgms : List (Dgm ℝ)) :
    PE true (some v) norm dgms = (dgms.map (substInf v)).mapM (E1 norm) := by
  simp [PE, persistentEntropy]

theorem keep_without_value_raises (norm : Bool) (dgms : List (Dgm ℝ)) :
    PE true none norm dgms = .error .needValInf := by
  simp [PE, persistentEntropy]

/-- **infinite bars are dropped**: `dropInf` removes exactly the bars whose *death* is infinite
    (whatever their birth), anywhere in the diagram, and keeps every other bar, in order -/
theorem inf_dropped (d1 d2 : Dgm ℝ) (b : Option ℝ) (e : ℝ) :
    dropInf (d1 ++ [(b, none)] ++ d2) = dropInf d1 ++ dropInf d2 ∧
    dropInf (d1 ++ [(b, some e)] ++ d2) = dropInf d1 ++ [(b, e)] ++ dropInf d2 := by
  simp [dropInf, List.filterMap_append]

theorem dropInf_fin (d : List (ℝ × ℝ)) : dropInf (fin d) = d.map fun p => (some p.1, p.2) := by
  induction d with
  | nil => rfl
  | cons p t ih =>
    simp only [fin, List.map_cons] at ih ⊢
    simp only [dropInf, List.filterMap_cons] at ih ⊢
    rw [ih]

theorem finiteBirths_some (d : List (ℝ × ℝ)) : finiteBirths (d.map fun p => (some p.1, p.2)) = some d := by
  induction d with
  | nil => rfl
  | cons p t ih => simp only [List.map_cons, finiteBirths, ih, Option.map_some]

private lemma finiteBirths_none (l1 l2 : List (Option ℝ × ℝ)) (e : ℝ) :
    finiteBirths (l1 ++ (none, e) :: l2) = none := by
  induction l1 with
  | nil => rfl
  | cons p t ih =>
    obtain ⟨b, e'⟩ := p
    cases b with
    | none => rfl
    | some b => simp only [List.cons_append, finiteBirths, ih, Option.map_none]

/-- **entry-point form of "infinite bars are dropped"**: with `keep_inf = False` a bar with an
    infinite death anywhere among finite bars does not change what the routine returns. -/
theorem ED_inf_dropped (norm : Bool) (d1 d2 : List (ℝ × ℝ)) (b : Option ℝ) :
    ED norm (fin d1 ++ [(b, none)] ++ fin d2) = E1 norm (d1 ++ d2) := by
  have h : dropInf (fin d1 ++ [(b, none)] ++ fin d2) = (d1 ++ d2).map fun p => (some p.1, p.2) := by
    rw [(inf_dropped _ _ b 0).1, dropInf_fin, dropInf_fin, List.map_append]
  simp only [ED, entropyDrop, h, finiteBirths_some]

theorem ED_fin (norm : Bool) (d : List (ℝ × ℝ)) : ED norm (fin d) = E1 norm d := by
  simp only [ED, entropyDrop, dropInf_fin, finiteBirths_some]

/-- **the filter looks at the death only**: a bar with an infinite *birth* and a finite death is
    not dropped; its length is `-∞`, and the routine raises (`[inf, 1.0]` → "born after dying"). -/
theorem inf_birth_raises (norm : Bool) (d1 d2 : Dgm ℝ) (e : ℝ) :
    ED norm (d1 ++ [(none, some e)] ++ d2) = .error .bornAfterDying := by
  have h : dropInf (d1 ++ [(none, some e)] ++ d2) = dropInf d1 ++ (none, e) :: dropInf d2 := by
    rw [(inf_dropped d1 d2 none e).2]; simp
  simp only [ED, entropyDrop, h, finiteBirths_none]

/-- **infinite entries are replaced by the supplied value** (`np.where(dgm == inf, val_inf, dgm)`:
    births and deaths alike), anywhere in the diagram -/
theorem inf_substituted (v : ℝ) (d1 d2 : Dgm ℝ) (p : Option ℝ × Option ℝ) :
    substInf v (d1 ++ [p] ++ d2) = substInf v d1 ++ [(p.1.getD v, p.2.getD v)] ++ substInf v d2 := by
  simp [substInf]

/-- the usual case: an essential bar `(b, ∞)` becomes `(b, v)` -/
theorem inf_substituted_death (v : ℝ) (d1 d2 : Dgm ℝ) (b : ℝ) :
    substInf v (d1 ++ [(some b, none)] ++ d2) = substInf v d1 ++ [(b, v)] ++ substInf v d2 := by
  simp [substInf]

theorem substInf_fin (v : ℝ) (d : List (ℝ × ℝ)) : substInf v (fin d) = d := by
  induction d with
  | nil => rfl
  | cons p t ih =>
    simp only [substInf, fin, List.map_cons, Option.getD_some] at ih ⊢
    rw [ih]

/-! ### the two ends of the range are told apart: one bar gives 0, two or more give a positive value -/

/-- **one bar has entropy exactly 0** (the lower end of `[0, log n]` at `n = 1`). -/
theorem H_single (c : ℝ) (hc : 0 < c) : H [c] = 0 := by
  have h := H_equal_lengths 1 c hc Nat.one_pos
  simpa using h

/-- **two or more bars of positive length have strictly positive entropy**: the value `0` is taken
    only by a single bar, so a formula that loses the normalisation or drops all bars but one is
    separated from the Shannon entropy on every barcode with `n ≥ 2`. -/
theorem H_pos_of_two (l : List ℝ) (hp : ∀ x ∈ l, 0 < x) (hn : 2 ≤ l.length) : 0 < H l := by
  match l, hp, hn with
  | a :: b :: t, hp, _ =>
    have hne : (a :: b :: t) ≠ [] := by simp
    rw [H_eq_sum_negMulLog]
    obtain ⟨h1, _⟩ := probs_facts (a :: b :: t) hne hp
    have ha : 0 < a := hp a (by simp)
    have hb : 0 < b := hp b (by simp)
    have ht : 0 ≤ t.sum := List.sum_nonneg fun y hy => (hp y (by simp [hy])).le
    have hL : 0 < (a :: b :: t).sum := sum_pos_of_pos _ hne hp
    have hlt : a / (a :: b :: t).sum < 1 := by
      rw [div_lt_one hL]; simp only [List.sum_cons]; linarith
    have hpa : 0 < a / (a :: b :: t).sum := div_pos ha hL
    have hhead : 0 < negMulLog (a / (a :: b :: t).sum) := by
      unfold negMulLog
      have := Real.log_neg hpa hlt
      nlinarith
    have hrest : 0 ≤ (((b :: t).map (· / (a :: b :: t).sum)).map negMulLog).sum := by
      apply List.sum_nonneg
      intro y hy
      obtain ⟨p, hpm, rfl⟩ := List.mem_map.mp hy
      obtain ⟨h0, h1'⟩ := h1 p (List.mem_cons_of_mem _ hpm)
      exact negMulLog_nonneg h0.le h1'
    rw [List.map_cons, List.map_cons, List.sum_cons]
    linarith

/-- the normalised variant is strictly positive as well for `n ≥ 2` -/
theorem H_norm_pos (l : List ℝ) (hp : ∀ x ∈ l, 0 < x) (hn : 2 ≤ l.length) :
    0 < H l / Real.log l.length := by
  have hlog : 0 < Real.log l.length := by
    apply Real.log_pos
    have : (2 : ℝ) ≤ l.length := by exact_mod_cast hn
    linarith
  exact div_pos (H_pos_of_two l hp hn) hlog

/-! ### non-vacuity: the hypotheses are met by concrete non-trivial barcodes -/

example : (∀ x ∈ lengths [((0:ℝ), (1:ℝ)), (1, 3), (2, 7)], 0 < x) ∧ 2 ≤ (lengths [((0:ℝ), (1:ℝ)), (1, 3), (2, 7)]).length := by
  simp [lengths]; norm_num

example : ∃ p ∈ [((0:ℝ), (1:ℝ)), (2, 2)], p.2 - p.1 ≤ 0 := ⟨(2, 2), by simp, by norm_num⟩

/-- `E1_perm` / `E1_scale` are used on barcodes with several different bars -/
example : [((0:ℝ), (1:ℝ)), (1, 3), (2, 7)].Perm [((2:ℝ), (7:ℝ)), (0, 1), (1, 3)] :=
  (List.perm_append_comm (l₁ := [((0:ℝ), (1:ℝ)), (1, 3)]) (l₂ := [((2:ℝ), (7:ℝ))]))

/-- the death-only filter on a concrete diagram: `[[0,1],[inf,1],[2,inf]]` keeps `[inf,1]` -/
example : dropInf [(some (0:ℝ), some (1:ℝ)), (none, some 1), (some 2, none)] = [(some 0, 1), (none, 1)] := by
  simp [dropInf]

end

end PersimVerif.C16
