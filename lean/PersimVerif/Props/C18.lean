import PersimVerif.Model.Transformers
import PersimVerif.Lemmas.ImagerForget
import PersimVerif.Lemmas.ImagerTransformers
import PersimVerif.Lemmas.ImageModels

/-!
# C18 — transformers: fit+transform = fit_transform, and refits forget the past

Statements about `PersimVerif.Transformers` (`Model/Transformers.lean`): the imager on the geometry
state of C12 over an arbitrary linear ordered floor field `K` (`ceil := Int.ceil`), the landscaper
over an arbitrary linear order `L`.  The per-diagram image `img`, `zeros`, `PersLandscapeApprox`
(`approx`) and `flat` are universally quantified parameters: the theorems hold for every
implementation of the pixel content (that is C04/C11's and C08's business).

The models are small, so most proofs are short; the content is in the quantifiers — every state,
every pair of histories, every history of calls — and in the tie of the model to the code.

`imagerTransform` here is the third model of `PersistenceImager.transform` (container shape only); it agrees with
C04/C11's `Image.transform` and C12's `Imager.ensureIterable` by `ImageModels.transform_agree` /
`ImageModels.ensureIterable_agree` (`Lemmas/ImageModels.lean`).

**What holds by construction of the model.**  `imager_transform_pure`, `imager_transform_pure_history`,
`landscaper_transform_pure`, `landscaper_fit_then_transform(_history)` and the first component of
`imager_fit_then_transform` are true because the model was *written* that way: a `transform` call
returns the state it was given (`icall`/`lcall`), and `lfitTransform` is defined as `lfit` followed by
`ltransform` (sklearn's `TransformerMixin`).  Their proofs are `rfl`/a list induction and carry no
information about the code by themselves; what ties them to the code is the harness, which on every
run compares the object's whole `__dict__` before and after every `transform`/`repr`/`get_params` call
of every generated history, and every output of `fit_transform` with `transform` after `fit`
(streams `*_transform_pure_in_histories`, `*_laws`).  The theorems with content of their own are
`imager_fit_forgets(_histories)` (through `Lemmas/ImagerForget.lean`), `imager_map_in_order`,
`landscaper_fit_forgets`, `landscaper_clone_is_unfitted`, `landscaper_fit_rejects` and the refuted
old models.
-/
namespace PersimVerif.C18
open PersimVerif.Imager PersimVerif.Transformers
set_option linter.unusedSectionVars false

variable {K : Type} [Field K] [LinearOrder K] [IsStrictOrderedRing K] [FloorRing K]
variable {ι : Type}

/-! ## imager -/

/-- a history of imager calls that ran without raising ends in a state whose resolutions passed
    `_create_mesh` (helper for `imager_fit_forgets_histories`) -/
private theorem irun_counts (img : State K → Bool → Dgm K → ι) (zeros : Int → Int → ι)
    (copy : Input K → Input K) (cs : List (ICall K)) (s s' : State K)
    (hs : 0 ≤ s.rx + 1 ∧ 0 ≤ s.ry + 1) (h : irun cl img zeros copy s cs = .ok s') :
    0 ≤ s'.rx + 1 ∧ 0 ≤ s'.ry + 1 := by
  induction cs generalizing s with
  | nil => simp only [irun] at h; cases h; exact hs
  | cons c cs ih =>
    simp only [irun] at h
    split at h
    · cases h
    · rename_i s1 o hc
      refine ih s1 ?_ h
      cases c with
      | cfg op =>
        simp only [icall] at hc
        split at hc
        · cases hc
        · rename_i s2 hstep
          cases hc; exact step_counts hstep
      | transform skew X => simp only [icall] at hc; cases hc; exact hs
      | fitTransform skew X =>
        simp only [icall, imagerFitTransform] at hc
        split at hc
        · cases hc
        · rename_i s2 o2 hft
          split at hft
          · cases hft
          · rename_i s3 hfit
            cases hft; cases hc
            exact step_counts (op := .fit skew (copy X)) hfit

/-- **imager_fit_forgets** (state form).  From any two states with the same pixel size — whatever
    their ranges, widths and resolutions (as long as `np.linspace` had accepted the latter, which
    holds for every state an operation returned) — `fit` on the same data returns the same thing:
    the same state in *every* field, or the same rejection.  What a fit learns is a function of the
    pixel size and of this fit's data alone. -/
theorem imager_fit_forgets (s s' : State K) (skew : Bool) (X : Input K) (hps : s.ps = s'.ps)
    (hy : 0 ≤ s.ry + 1) (hy' : 0 ≤ s'.ry + 1) : fit cl s skew X = fit cl s' skew X :=
  fit_forgets s s' skew X hps hy hy'

/-- **imager_fit_forgets** (for every pair of histories).  Take any two objects — any constructor
    arguments, any two finite sequences of range/pixel-size assignments, fits, transforms and
    fit_transforms that did not raise.  If they end with the same pixel size, a `fit` on the same data
    puts both into the same state. -/
theorem imager_fit_forgets_histories (img : State K → Bool → Dgm K → ι) (zeros : Int → Int → ι)
    (copy : Input K → Input K)
    (b0 b1 p0 p1 ps b0' b1' p0' p1' ps' : K) (cs cs' : List (ICall K)) (s0 s0' s s' : State K)
    (h0 : ctor cl b0 b1 p0 p1 ps = .ok s0) (h0' : ctor cl b0' b1' p0' p1' ps' = .ok s0')
    (h : irun cl img zeros copy s0 cs = .ok s) (h' : irun cl img zeros copy s0' cs' = .ok s')
    (hps : s.ps = s'.ps) (skew : Bool) (X : Input K) :
    fit cl s skew X = fit cl s' skew X :=
  fit_forgets s s' skew X hps
    (irun_counts img zeros copy cs s0 s (ctor_counts h0) h).2
    (irun_counts img zeros copy cs' s0' s' (ctor_counts h0') h').2

/-- non-vacuity: two different histories at `ℚ` that end with pixel size `1/2`, one of them through
    an earlier fit on other data, and the fit both then agree on -/
example :
    (ctor Rat.ceil (0 : Rat) 1 0 1 (1/2) = .ok ⟨0, 1, 0, 1, 1/2, 1, 1, 2, 2⟩) ∧
    (ctor Rat.ceil (-3 : Rat) 7 2 9 (1/5) = .ok ⟨-3, 7, 2, 9, 1/5, 10, 7, 50, 35⟩) ∧
    (run Rat.ceil (⟨-3, 7, 2, 9, 1/5, 10, 7, 50, 35⟩ : State Rat)
        [.fit true (.single [(0, 4), (1, 9)]), .setPixel (1/2)] = .ok ⟨0, 1, 4, 8, 1/2, 1, 4, 2, 8⟩) ∧
    fit Rat.ceil (⟨0, 1, 0, 1, 1/2, 1, 1, 2, 2⟩ : State Rat) true (.coll [[(1, 2), (2, 5)]])
      = .ok ⟨1, 2, 1, 3, 1/2, 1, 2, 2, 4⟩ ∧
    fit Rat.ceil (⟨0, 1, 4, 8, 1/2, 1, 4, 2, 8⟩ : State Rat) true (.coll [[(1, 2), (2, 5)]])
      = .ok ⟨1, 2, 1, 3, 1/2, 1, 2, 2, 4⟩ := by
  refine ⟨?_, ?_, ?_, ?_, ?_⟩ <;> decide +kernel

/-- **imager_fit_then_transform.**  `fit_transform(X)` is `fit(X)` followed by `transform(X)` on the
    fitted object: same final state, same output, same rejection — for every implementation of
    `deepcopy` that returns an equal value (the copy is irrelevant). -/
theorem imager_fit_then_transform (img : State K → Bool → Dgm K → ι) (zeros : Int → Int → ι)
    (copy : Input K → Input K) (hcopy : ∀ X, copy X = X) (s : State K) (skew : Bool) (X : Input K) :
    imagerFitTransform cl img zeros copy s skew X =
      match fit cl s skew X with
      | .error e => .error e
      | .ok s' => .ok (s', imagerTransform img zeros s' skew X) := by
  simp only [imagerFitTransform, hcopy]
  cases fit cl s skew X <;> rfl

/-- non-vacuity: `deepcopy` modelled as the identity meets the contract -/
example : ∀ X : Input ℚ, id X = X := fun _ => rfl

/-- the same as a statement about call histories: replacing any `fit_transform(X)` call by the two
    calls `fit(X); transform(X)` changes neither whether the history raises nor the state it reaches -/
theorem imager_fit_then_transform_history (img : State K → Bool → Dgm K → ι) (zeros : Int → Int → ι)
    (copy : Input K → Input K) (hcopy : ∀ X, copy X = X) (s : State K) (skew : Bool) (X : Input K)
    (pre post : List (ICall K)) :
    irun cl img zeros copy s (pre ++ .fitTransform skew X :: post) =
      irun cl img zeros copy s (pre ++ .cfg (.fit skew X) :: .transform skew X :: post) := by
  induction pre generalizing s with
  | nil =>
    simp only [List.nil_append, irun, icall, imagerFitTransform, hcopy, step]
    cases fit cl s skew X <;> rfl
  | cons c pre ih =>
    simp only [List.cons_append, irun]
    cases icall cl img zeros copy s c with
    | error e => rfl
    | ok r => exact ih r.1

/-- **imager_transform_pure.**  A `transform` call returns the state it was given (no attribute of the
    object is assigned), so a second call on the same input returns the same output … -/
theorem imager_transform_pure (img : State K → Bool → Dgm K → ι) (zeros : Int → Int → ι)
    (copy : Input K → Input K) (s : State K) (skew : Bool) (X : Input K) :
    icall cl img zeros copy s (.transform skew X) = .ok (s, some (imagerTransform img zeros s skew X)) ∧
    irun cl img zeros copy s [.transform skew X, .transform skew X] = .ok s := by
  constructor <;> rfl

/-- every call except `transform` -/
def notTransformI : ICall K → Bool
  | .transform _ _ => false
  | _ => true

/-- … and transforms are invisible to the rest of a history: deleting every `transform` call from
    any history changes neither whether it raises nor the state it reaches. -/
theorem imager_transform_pure_history (img : State K → Bool → Dgm K → ι) (zeros : Int → Int → ι)
    (copy : Input K → Input K) (s : State K) (cs : List (ICall K)) :
    irun cl img zeros copy s (cs.filter notTransformI) = irun cl img zeros copy s cs := by
  induction cs generalizing s with
  | nil => rfl
  | cons c cs ih =>
    cases c with
    | transform skew X =>
      rw [List.filter_cons_of_neg (by simp [notTransformI])]
      simp only [irun, icall]; exact ih s
    | cfg op =>
      rw [List.filter_cons_of_pos (by rfl)]
      simp only [irun]
      cases icall cl img zeros copy s (.cfg op) with
      | error e => rfl
      | ok r => exact ih r.1
    | fitTransform skew X =>
      rw [List.filter_cons_of_pos (by rfl)]
      simp only [irun]
      cases icall cl img zeros copy s (.fitTransform skew X) with
      | error e => rfl
      | ok r => exact ih r.1

/-- **imager_map_in_order.**  A non-empty collection maps to the list of the per-diagram images, in
    order and of the same length; its `i`-th image is what `transform` returns for the `i`-th diagram
    alone (when that diagram is non-empty; the image of an empty member is `img s skew []`, which is
    C11's `empty_is_zero`); one non-empty diagram maps to the bare image; an empty input (no
    diagram, or one empty diagram) maps to zeros of the configured resolution. -/
theorem imager_map_in_order (img : State K → Bool → Dgm K → ι) (zeros : Int → Int → ι)
    (s : State K) (skew : Bool) :
    (∀ ds : List (Dgm K), ds ≠ [] →
        imagerTransform img zeros s skew (.coll ds) = .images (ds.map (img s skew))) ∧
    (∀ (ds : List (Dgm K)) (i : Nat) (hi : i < ds.length), ds[i] ≠ [] →
        ∃ l, imagerTransform img zeros s skew (.coll ds) = .images l ∧ ∃ hl : i < l.length,
          imagerTransform img zeros s skew (.single ds[i]) = .image l[i]) ∧
    (∀ d : Dgm K, d ≠ [] → imagerTransform img zeros s skew (.single d) = .image (img s skew d)) ∧
    imagerTransform img zeros s skew (.coll []) = .image (zeros s.rx s.ry) ∧
    imagerTransform img zeros s skew (.single []) = .image (zeros s.rx s.ry) := by
  refine ⟨?_, ?_, ?_, rfl, rfl⟩
  · intro ds hds
    cases ds with
    | nil => exact absurd rfl hds
    | cons d ds => rfl
  · intro ds i hi hne
    cases ds with
    | nil => simp at hi
    | cons d ds =>
      refine ⟨(d :: ds).map (img s skew), rfl, by simpa using hi, ?_⟩
      rw [List.getElem_map]
      cases hd : (d :: ds)[i] with
      | nil => exact absurd hd hne
      | cons p t => rfl
  · intro d hd
    cases d with
    | nil => exact absurd rfl hd
    | cons p t => rfl

/-! ## landscaper -/

variable {L β : Type} [LinearOrder L]

/-- **landscaper_fit_forgets.**  For every constructor call and every history of calls (user
    assignments of `start`/`stop` to a value or to `None`, of `num_steps`, `flatten`, `hom_deg`, fits,
    transforms, fit_transforms, `sklearn.base.clone` (the history goes on with the clone),
    `set_params(**get_params())`, including calls that raised), a `fit` on data `X` whose diagram of
    the current degree `d = X[hom_deg]` has at least one point with finite coordinates (`fin` is
    `np.isfinite`, any predicate) succeeds and leaves

      `start` = the user's last assignment if it was a value, else the minimum birth `m`,
      `stop`  = the user's last assignment if it was a value, else the maximum death `M`

    of the points of `d` with finite coordinates (`m`, `M` are attained there, so they are finite).
    `userStart/userStop` are read off the call list alone: `clone` and `set_params(**get_params())` do
    not appear in them, i.e. they neither fix a learned value nor lose a user-fixed one.  Nothing
    learned by an earlier fit survives. -/
theorem landscaper_fit_forgets (fin : L → Bool)
    (approx : List (Dgm L) → Option L → Option L → Int → Int → β) (flat : β → β)
    (homDeg : Int) (start stop : Option L) (numSteps : Int) (flatten : Bool) (cs : List (LCall L))
    (X : List (Dgm L)) (d : Dgm L)
    (hX : pyIndex X (lrun fin approx flat (lctor homDeg start stop numSteps flatten) cs).homDeg = some d)
    (hd : ∃ p ∈ d, fin p.1 = true ∧ fin p.2 = true) :
    ∃ m M s', (∃ p ∈ d, fin p.1 = true ∧ fin p.2 = true ∧ p.1 = m) ∧
      (∀ p ∈ d, fin p.1 = true → fin p.2 = true → m ≤ p.1) ∧
      (∃ p ∈ d, fin p.1 = true ∧ fin p.2 = true ∧ p.2 = M) ∧
      (∀ p ∈ d, fin p.1 = true → fin p.2 = true → p.2 ≤ M) ∧
      lfit fin (lrun fin approx flat (lctor homDeg start stop numSteps flatten) cs) X = .ok s' ∧
      s'.start = some (match userStart start cs with | some v => v | none => m) ∧
      s'.stop = some (match userStop stop cs with | some v => v | none => M) := by
  have hmem : ∀ p, p ∈ finitePts fin d ↔ p ∈ d ∧ fin p.1 = true ∧ fin p.2 = true := by
    intro p; simp [finitePts, List.mem_filter]
  have hne : finitePts fin d ≠ [] := by
    obtain ⟨p, hp, h1, h2⟩ := hd
    exact List.ne_nil_of_mem ((hmem p).2 ⟨hp, h1, h2⟩)
  obtain ⟨m, hm, ⟨pm, hpm, hpm'⟩, hm2⟩ := minBirth_spec hne
  obtain ⟨M, hM, ⟨pM, hpM, hpM'⟩, hM2⟩ := maxDeath_spec hne
  have hinv := lrun_linv fin approx flat cs start stop _ (lctor_linv homDeg start stop numSteps flatten)
  generalize lrun fin approx flat (lctor homDeg start stop numSteps flatten) cs = s at hX hinv
  have hfit : lfit fin s X = .ok { s with start := if s.startFixed then s.start else some m,
                                          stop := if s.stopFixed then s.stop else some M } := by
    simp only [lfit, hX, hm, hM, learn]
    split_ifs <;> rfl
  refine ⟨m, M, _, ?_, ?_, ?_, ?_, hfit, ?_, ?_⟩
  · obtain ⟨a, b, c⟩ := (hmem pm).1 hpm; exact ⟨pm, a, b, c, hpm'⟩
  · intro p hp h1 h2; exact hm2 p ((hmem p).2 ⟨hp, h1, h2⟩)
  · obtain ⟨a, b, c⟩ := (hmem pM).1 hpM; exact ⟨pM, a, b, c, hpM'⟩
  · intro p hp h1 h2; exact hM2 p ((hmem p).2 ⟨hp, h1, h2⟩)
  · cases hu : userStart start cs with
    | none =>
      have : s.startFixed = false := by rw [hinv.sf, hu]; rfl
      simp [this]
    | some v =>
      have h1 : s.startFixed = true := by rw [hinv.sf, hu]; rfl
      have h2 : s.start = some v := by rw [hinv.sv (by rw [hu]; rfl), hu]
      simp [h1, h2]
  · cases hu : userStop stop cs with
    | none =>
      have : s.stopFixed = false := by rw [hinv.tf, hu]; rfl
      simp [this]
    | some v =>
      have h1 : s.stopFixed = true := by rw [hinv.tf, hu]; rfl
      have h2 : s.stop = some v := by rw [hinv.tv (by rw [hu]; rfl), hu]
      simp [h1, h2]

/-- non-vacuity: start fixed by the constructor, un-fixed by `start = None`, stop fixed later; an
    earlier fit on other data, a `clone` and a `set_params(**get_params())` in between; the data of the
    last fit contains an "infinite" bar (coordinates ≥ 1000 play the role of ±∞ here) -/
example :
    let fin : Int → Bool := fun x => decide (x < 1000)
    let cs : List (LCall Int) := [.fit [[(0, 4)]], .setStart none, .clone, .setStop (some 12), .fit [[(5, 6)]],
                                  .setParamsFromGet, .transform [[(1, 2)]], .clone]
    let s := lrun (β := Unit) fin (fun _ _ _ _ _ => ()) id (lctor 0 (some 1) none 10 false) cs
    pyIndex [[(2, 10), (3, 7), (1, 1000)]] s.homDeg = some [(2, 10), (3, 7), (1, 1000)] ∧
    userStart (some 1) cs = none ∧ userStop none cs = some 12 ∧
    (lfit fin s [[(2, 10), (3, 7), (1, 1000)]]).toOption.map (fun s' => (s'.start, s'.stop)) = some (some 2, some 12) := by
  decide

/-- **landscaper_clone_is_unfitted.**  After any history, `sklearn.base.clone(obj)` is the object the
    constructor builds from the *user's* `start`/`stop` (their last assignments, `None` if the user
    fixed nothing) and the current `hom_deg`, `num_steps`, `flatten`: nothing that a `fit` learned is
    carried into the clone, and nothing the user fixed is lost.  The same values are what
    `get_params` reports. -/
theorem landscaper_clone_is_unfitted (fin : L → Bool)
    (approx : List (Dgm L) → Option L → Option L → Int → Int → β) (flat : β → β)
    (homDeg : Int) (start stop : Option L) (numSteps : Int) (flatten : Bool) (cs : List (LCall L)) :
    let s := lrun fin approx flat (lctor homDeg start stop numSteps flatten) cs
    getStart s = userStart start cs ∧ getStop s = userStop stop cs ∧
    lclone s = lctor s.homDeg (userStart start cs) (userStop stop cs) s.numSteps s.flatten := by
  have hinv := lrun_linv fin approx flat cs start stop _ (lctor_linv homDeg start stop numSteps flatten)
  exact ⟨getStart_eq hinv, getStop_eq hinv, lclone_eq hinv⟩

/-- the rejections of `fit` (the model rejects what the code rejects): a degree outside `X` is an
    `IndexError`; a diagram without a point of finite coordinates (empty, or all bars infinite) is a
    `ValueError` unless both ends are user-fixed — and then the object is returned unchanged -/
theorem landscaper_fit_rejects (fin : L → Bool) (s : LState L) (X : List (Dgm L)) :
    (pyIndex X s.homDeg = none → lfit fin s X = .error .indexError) ∧
    (∀ d, pyIndex X s.homDeg = some d → finitePts fin d = [] → (s.startFixed = false ∨ s.stopFixed = false) →
        lfit fin s X = .error .valueError) ∧
    (∀ d, pyIndex X s.homDeg = some d → finitePts fin d = [] → s.startFixed = true → s.stopFixed = true →
        lfit fin s X = .ok s) := by
  refine ⟨fun h => by simp only [lfit, h], fun d h he hf => ?_, fun d h he h1 h2 => ?_⟩
  · simp only [lfit, h, he, learn, minBirth, maxDeath]
    rcases hf with hf | hf
    · simp [hf]
    · cases hs : s.startFixed <;> simp [hf]
  · simp only [lfit, h, he, learn, h1, h2, if_true]
    cases s; simp_all

/-- non-vacuity: an all-infinite diagram is rejected like an empty one -/
example : lfit (fun x : Int => decide (x < 1000)) (lctor 0 none (some 5) 10 false) [[(0, 1000), (1000, 1000)]]
    = .error .valueError := by decide

/-- **landscaper_fit_then_transform.**  sklearn's `fit_transform(X)` = `fit(X).transform(X)`: same
    state, same output, same rejection (true by construction of `lfitTransform`; the harness compares
    the real `fit_transform` with `fit` + `transform` on every generated history). -/
theorem landscaper_fit_then_transform (fin : L → Bool)
    (approx : List (Dgm L) → Option L → Option L → Int → Int → β)
    (flat : β → β) (s : LState L) (X : List (Dgm L)) :
    lfitTransform fin approx flat s X =
      match lfit fin s X with
      | .error e => .error e
      | .ok s' => .ok (s', ltransform approx flat s' X) := rfl

/-- as a statement about histories: `fit_transform(X)` can be replaced by `fit(X); transform(X)`
    anywhere in any history without changing the state reached -/
theorem landscaper_fit_then_transform_history (fin : L → Bool)
    (approx : List (Dgm L) → Option L → Option L → Int → Int → β)
    (flat : β → β) (s : LState L) (X : List (Dgm L)) (pre post : List (LCall L)) :
    lrun fin approx flat s (pre ++ .fitTransform X :: post) =
      lrun fin approx flat s (pre ++ .fit X :: .transform X :: post) := by
  induction pre generalizing s with
  | nil =>
    simp only [List.nil_append, lrun, lcall, lfitTransform]
    cases lfit fin s X <;> rfl
  | cons c pre ih =>
    simp only [List.cons_append, lrun]
    cases lcall fin approx flat s c with
    | error e => exact ih s
    | ok r => exact ih r.1

/-- every call except `transform` -/
def notTransformL : LCall L → Bool
  | .transform _ => false
  | _ => true

/-- **landscaper_transform_pure.**  `transform` returns the state it was given, twice the same output,
    and deleting every `transform` from any history does not change the state it reaches. -/
theorem landscaper_transform_pure (fin : L → Bool)
    (approx : List (Dgm L) → Option L → Option L → Int → Int → β)
    (flat : β → β) (s : LState L) (X : List (Dgm L)) (cs : List (LCall L)) :
    lcall fin approx flat s (.transform X) = .ok (s, some (ltransform approx flat s X)) ∧
    lrun fin approx flat s [.transform X, .transform X] = s ∧
    lrun fin approx flat s (cs.filter notTransformL) = lrun fin approx flat s cs := by
  refine ⟨rfl, rfl, ?_⟩
  induction cs generalizing s with
  | nil => rfl
  | cons c cs ih =>
    cases c with
    | transform X' =>
      rw [List.filter_cons_of_neg (by simp [notTransformL])]
      simp only [lrun, lcall]; exact ih s
    | setStart v => rw [List.filter_cons_of_pos (by rfl)]; simp only [lrun, lcall]; exact ih _
    | setStop v => rw [List.filter_cons_of_pos (by rfl)]; simp only [lrun, lcall]; exact ih _
    | setNumSteps n => rw [List.filter_cons_of_pos (by rfl)]; simp only [lrun, lcall]; exact ih _
    | setFlatten b => rw [List.filter_cons_of_pos (by rfl)]; simp only [lrun, lcall]; exact ih _
    | setHomDeg k => rw [List.filter_cons_of_pos (by rfl)]; simp only [lrun, lcall]; exact ih _
    | clone => rw [List.filter_cons_of_pos (by rfl)]; simp only [lrun, lcall]; exact ih _
    | setParamsFromGet => rw [List.filter_cons_of_pos (by rfl)]; simp only [lrun, lcall]; exact ih _
    | fit X' =>
      rw [List.filter_cons_of_pos (by rfl)]
      simp only [lrun]
      cases lcall fin approx flat s (.fit X') with
      | error e => exact ih s
      | ok r => exact ih r.1
    | fitTransform X' =>
      rw [List.filter_cons_of_pos (by rfl)]
      simp only [lrun]
      cases lcall fin approx flat s (.fitTransform X') with
      | error e => exact ih s
      | ok r => exact ih r.1

/-- `fit` before 9596bd3: `fit([[0,4]]); fit([[2,10]])` leaves `(start, stop) = (0, 4)`; the repaired
    `fit` on the same history gives `(2, 10)` -/
theorem landscaper_old_counterexample :
    (let s := lrunOld (lctor (α := Int) 0 none none 500 false) [[[(0, 4)]], [[(2, 10)]]]
     (s.start, s.stop) = (some 0, some 4)) ∧
    (let s := lrun (β := Unit) (fun _ => true) (fun _ _ _ _ _ => ()) id (lctor (α := Int) 0 none none 500 false)
                [.fit [[(0, 4)]], .fit [[(2, 10)]]]
     (s.start, s.stop) = (some 2, some 10)) := by
  decide

/-- `get_params` before 4d8db3a (sklearn's default, which reports the attribute whether the user or a
    fit assigned it): `clone(PL().fit([[0,4]])).fit([[2,10]])` and
    `t.fit([[0,4]]); t.set_params(**t.get_params()); t.fit([[2,10]])` both leave `(0, 4)` — the clone /
    the round trip turned the learned values into user-fixed ones, against `landscaper_fit_forgets`
    (`userStart = userStop = none` for both histories).  The repaired `get_params` gives `(2, 10)`. -/
theorem landscaper_clone_old_counterexample :
    let fin : Int → Bool := fun _ => true
    let s0 := lctor (α := Int) 0 none none 500 false
    let h1 : List (LCall Int) := [.fit [[(0, 4)]], .clone, .fit [[(2, 10)]]]
    let h2 : List (LCall Int) := [.fit [[(0, 4)]], .setParamsFromGet, .fit [[(2, 10)]]]
    (userStart none h1, userStop none h1, userStart none h2, userStop none h2) = (none, none, none, none) ∧
    ((lrunOldParams fin s0 h1).start, (lrunOldParams fin s0 h1).stop) = (some 0, some 4) ∧
    ((lrunOldParams fin s0 h2).start, (lrunOldParams fin s0 h2).stop) = (some 0, some 4) ∧
    (let s := lrun (β := Unit) fin (fun _ _ _ _ _ => ()) id s0 h1; (s.start, s.stop) = (some 2, some 10)) ∧
    (let s := lrun (β := Unit) fin (fun _ _ _ _ _ => ()) id s0 h2; (s.start, s.stop) = (some 2, some 10)) := by
  decide

/-- `fit` before b209c93 had no finiteness filter (`fin := fun _ => true` in the model): with an
    "infinite" bar (1000 plays ∞) it learns `stop = ∞`, which `PersLandscapeApprox` cannot grid; the
    repaired `fit` learns the largest finite death -/
theorem landscaper_nofilter_old_counterexample :
    let X : List (Dgm Int) := [[(0, 3), (1, 4), (0, 1000)]]
    let s0 := lctor (α := Int) 0 none none 500 false
    (lfit (fun _ => true) s0 X).toOption.map (fun s => (s.start, s.stop)) = some (some 0, some 1000) ∧
    (lfit (fun x => decide (x < 1000)) s0 X).toOption.map (fun s => (s.start, s.stop)) = some (some 0, some 4) := by
  decide

end PersimVerif.C18
