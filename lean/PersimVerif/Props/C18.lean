import PersimVerif.Model.Transformers
/-! # C18 (theorems land in the next commits; this first one is the regression witness) -/
namespace PersimVerif.C18
open PersimVerif.Imager PersimVerif.Transformers

/-- `fit` before 9596bd3: `fit([[0,4]]); fit([[2,10]])` leaves `(start, stop) = (0, 4)` -/
theorem landscaper_old_counterexample :
    let s := lrunOld (lctor (α := Int) 0 none none 500 false) [[[(0, 4)]], [[(2, 10)]]]
    (s.start, s.stop) = (some 0, some 4) ∧ (s.start, s.stop) ≠ (some 2, some 10) := by
  decide

end PersimVerif.C18
