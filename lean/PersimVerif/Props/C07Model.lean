import PersimVerif.Props.C01
import PersimVerif.Props.C02
import PersimVerif.Props.C07

/-!
# C07 at the level of the *models of the code* (C01 ∘ C07, C02 ∘ C07)

`Props/C07.lean` proves the laws for the specification values.  `Props/C01.lean` / `Props/C02.lean`
prove that the models of `persim.bottleneck` / `persim.wasserstein` return exactly those values, for
every oracle / assignment solver honouring its contract.  Composing the two gives the laws for what
the models return — for diagrams of any size and, in the bottleneck case, for any two oracles (so
in particular across hash seeds).
-/
namespace PersimVerif.C07
open PersimVerif.Spec

noncomputable section

/-- the bottleneck model returned the finite value `v` -/
def BnReturns (oracle : Bottleneck.Graph → Bottleneck.Matching) (d1 d2 : List (ℝ × Option ℝ)) (v : ℝ) : Prop :=
  ∃ r, Bottleneck.bottleneck oracle d1 d2 = some r ∧ r.value = .fin v

/-- every finite point of the diagram has `birth ≤ death` -/
def ProperDgm (d : List (ℝ × Option ℝ)) : Prop := ∀ p ∈ Bottleneck.finitePart d, p.1 ≤ p.2

theorem isBn_of_cst {S T : List (ℝ × ℝ)} {v : ℝ}
    (h : IsBottleneck (Bottleneck.cst S T) (Bottleneck.dgc S) (Bottleneck.dgc T) v) : IsBn S.get T.get v := h

/-- **C01 restated**: the model returns a finite value and it is the bottleneck distance of the
    finite parts, whatever maximum matchings the oracle returns. -/
theorem model_bn_is_spec {oracle : Bottleneck.Graph → Bottleneck.Matching} (ho : Bottleneck.OracleMax oracle)
    {d1 d2 : List (ℝ × Option ℝ)} (h1 : ProperDgm d1) (h2 : ProperDgm d2) :
    ∃ v, BnReturns oracle d1 d2 v ∧
      IsBn (Bottleneck.finitePart d1).get (Bottleneck.finitePart d2).get v := by
  obtain ⟨r, v, hr, hv, hb⟩ := C01.bottleneck_eq_spec (K := ℝ) oracle ho d1 d2 h1 h2
  exact ⟨v, ⟨r, hr, hv⟩, isBn_of_cst hb⟩

theorem bnReturns_unique {oracle : Bottleneck.Graph → Bottleneck.Matching} {d1 d2 : List (ℝ × Option ℝ)} {v v' : ℝ}
    (h : BnReturns oracle d1 d2 v) (h' : BnReturns oracle d1 d2 v') : v = v' := by
  obtain ⟨r, hr, hv⟩ := h
  obtain ⟨r', hr', hv'⟩ := h'
  rw [hr] at hr'; cases hr'
  rw [hv] at hv'; cases hv'; rfl

/-- what the model returned is the specification value -/
theorem bnReturns_isBn {oracle : Bottleneck.Graph → Bottleneck.Matching} (ho : Bottleneck.OracleMax oracle)
    {d1 d2 : List (ℝ × Option ℝ)} (h1 : ProperDgm d1) (h2 : ProperDgm d2) {v : ℝ}
    (h : BnReturns oracle d1 d2 v) :
    IsBn (Bottleneck.finitePart d1).get (Bottleneck.finitePart d2).get v := by
  obtain ⟨v', hv', hb⟩ := model_bn_is_spec ho h1 h2
  rwa [bnReturns_unique h hv']

/-- **symmetry of what the code's model returns**, even across two different oracles (hash seeds) -/
theorem model_bn_symm {o o' : Bottleneck.Graph → Bottleneck.Matching} (ho : Bottleneck.OracleMax o) (ho' : Bottleneck.OracleMax o')
    {d1 d2 : List (ℝ × Option ℝ)} (h1 : ProperDgm d1) (h2 : ProperDgm d2) {v v' : ℝ}
    (h : BnReturns o d1 d2 v) (h' : BnReturns o' d2 d1 v') : v = v' :=
  IsBottleneck.unique (bottleneck_symm _ _ (bnReturns_isBn ho h1 h2 h)) (bnReturns_isBn ho' h2 h1 h')

/-- **the returned value does not depend on the oracle** (hence not on the hash seed) -/
theorem model_bn_oracle_irrelevant {o o' : Bottleneck.Graph → Bottleneck.Matching} (ho : Bottleneck.OracleMax o)
    (ho' : Bottleneck.OracleMax o') {d1 d2 : List (ℝ × Option ℝ)} (h1 : ProperDgm d1) (h2 : ProperDgm d2) {v v' : ℝ}
    (h : BnReturns o d1 d2 v) (h' : BnReturns o' d1 d2 v') : v = v' :=
  IsBottleneck.unique (bnReturns_isBn ho h1 h2 h) (bnReturns_isBn ho' h1 h2 h')

/-- **triangle inequality of what the code's model returns** -/
theorem model_bn_triangle {o : Bottleneck.Graph → Bottleneck.Matching} (ho : Bottleneck.OracleMax o)
    {d1 d2 d3 : List (ℝ × Option ℝ)} (h1 : ProperDgm d1) (h2 : ProperDgm d2) (h3 : ProperDgm d3)
    {v12 v23 v13 : ℝ} (h12 : BnReturns o d1 d2 v12) (h23 : BnReturns o d2 d3 v23) (h13 : BnReturns o d1 d3 v13) :
    v13 ≤ v12 + v23 :=
  bottleneck_triangle_ineq _ _ _ (bnReturns_isBn ho h1 h2 h12) (bnReturns_isBn ho h2 h3 h23)
    (bnReturns_isBn ho h1 h3 h13)

/-- **non-negativity** -/
theorem model_bn_nonneg {o : Bottleneck.Graph → Bottleneck.Matching} (ho : Bottleneck.OracleMax o)
    {d1 d2 : List (ℝ × Option ℝ)} (h1 : ProperDgm d1) (h2 : ProperDgm d2) {v : ℝ} (h : BnReturns o d1 d2 v) :
    0 ≤ v := (bnReturns_isBn ho h1 h2 h).nonneg

/-! ### Wasserstein -/

/-- the Wasserstein model (with `Real.sqrt`, `cos (π/4)`, `sin (π/4)`) returned the value `w` -/
def WsReturns (lsa : Wasserstein.Mat ℝ → List (Nat × Nat)) (d1 d2 : Wasserstein.Dgm ℝ) (w : ℝ) : Prop :=
  ∃ rows, Wasserstein.wasserstein Real.sqrt (Real.cos (Real.pi / 4)) (Real.sin (Real.pi / 4)) lsa d1 d2
    = .ok ⟨some w, Wasserstein.warned d1, Wasserstein.warned d2, rows⟩

/-- **C02 restated**: the model returns the Wasserstein distance of the finite parts, for every
    assignment solver honouring its contract -/
theorem model_ws_is_spec {lsa : Wasserstein.Mat ℝ → List (Nat × Nat)} (hl : WsLemmas.LsaContract lsa)
    (d1 d2 : Wasserstein.Dgm ℝ) :
    ∃ w, WsReturns lsa d1 d2 w ∧
      IsWs (Wasserstein.finitePart d1).get (Wasserstein.finitePart d2).get w := by
  obtain ⟨w, rows, hr, hs⟩ := C02.wasserstein_eq_spec_real lsa hl d1 d2
  exact ⟨w, ⟨rows, hr⟩, hs⟩

theorem wsReturns_unique {lsa : Wasserstein.Mat ℝ → List (Nat × Nat)} {d1 d2 : Wasserstein.Dgm ℝ} {w w' : ℝ}
    (h : WsReturns lsa d1 d2 w) (h' : WsReturns lsa d1 d2 w') : w = w' := by
  obtain ⟨r, hr⟩ := h
  obtain ⟨r', hr'⟩ := h'
  rw [hr] at hr'
  injection hr' with e
  injection e with e1
  injection e1

theorem wsReturns_isWs {lsa : Wasserstein.Mat ℝ → List (Nat × Nat)} (hl : WsLemmas.LsaContract lsa)
    {d1 d2 : Wasserstein.Dgm ℝ} {w : ℝ} (h : WsReturns lsa d1 d2 w) :
    IsWs (Wasserstein.finitePart d1).get (Wasserstein.finitePart d2).get w := by
  obtain ⟨w', hw', hs⟩ := model_ws_is_spec hl d1 d2
  rwa [wsReturns_unique h hw']

/-- **symmetry of what the code's model returns**, even across two different solvers -/
theorem model_ws_symm {l l' : Wasserstein.Mat ℝ → List (Nat × Nat)} (hl : WsLemmas.LsaContract l)
    (hl' : WsLemmas.LsaContract l') {d1 d2 : Wasserstein.Dgm ℝ} {w w' : ℝ}
    (h : WsReturns l d1 d2 w) (h' : WsReturns l' d2 d1 w') : w = w' :=
  IsMinSum.unique (wasserstein_symm _ _ (wsReturns_isWs hl h)) (wsReturns_isWs hl' h')

/-- **triangle inequality of what the code's model returns** (middle diagram proper) -/
theorem model_ws_triangle {l : Wasserstein.Mat ℝ → List (Nat × Nat)} (hl : WsLemmas.LsaContract l)
    {d1 d2 d3 : Wasserstein.Dgm ℝ} (h2 : ∀ p ∈ Wasserstein.finitePart d2, p.1 ≤ p.2)
    {w12 w23 w13 : ℝ} (h12 : WsReturns l d1 d2 w12) (h23 : WsReturns l d2 d3 w23) (h13 : WsReturns l d1 d3 w13) :
    w13 ≤ w12 + w23 :=
  wasserstein_triangle_ineq _ _ _ (fun j => h2 _ (List.get_mem _ j)) (wsReturns_isWs hl h12)
    (wsReturns_isWs hl h23) (wsReturns_isWs hl h13)

end

end PersimVerif.C07
