import PersimVerif.Props.C01
import PersimVerif.Props.C02
import PersimVerif.Props.C07
import PersimVerif.Lemmas.MatchingReindex

/-!
# C07 at the level of the *models of the code* (C01 ∘ C07, C02 ∘ C07)

`Props/C07.lean` proves the laws for the specification values.  `Props/C01.lean` / `Props/C02.lean`
prove that the models of `persim.bottleneck` / `persim.wasserstein` return exactly those values, for
every oracle / assignment solver honouring its contract.  Composing the two gives the laws for what
the models return — for diagrams of any size and, in the bottleneck case, for any two oracles (so
in particular across hash seeds).
-/
namespace PersimVerif.C07
open PersimVerif.Spec

noncomputable section

/-- the bottleneck model returned the finite value `v` -/
def BnReturns (oracle : Bottleneck.Graph → Bottleneck.Matching) (d1 d2 : List (ℝ × Option ℝ)) (v : ℝ) : Prop :=
  ∃ r, Bottleneck.bottleneck oracle d1 d2 = some r ∧ r.value = .fin v

/-- every finite point of the diagram has `birth ≤ death` -/
def ProperDgm (d : List (ℝ × Option ℝ)) : Prop := ∀ p ∈ Bottleneck.finitePart d, p.1 ≤ p.2

theorem isBn_of_cst {S T : List (ℝ × ℝ)} {v : ℝ}
    (h : IsBottleneck (Bottleneck.cst S T) (Bottleneck.dgc S) (Bottleneck.dgc T) v) : IsBn S.get T.get v := h

/-- **C01 restated**: the model returns a finite value and it is the bottleneck distance of the
    finite parts, whatever maximum matchings the oracle returns. -/
theorem model_bn_is_spec {oracle : Bottleneck.Graph → Bottleneck.Matching} (ho : Bottleneck.OracleMax oracle)
    {d1 d2 : List (ℝ × Option ℝ)} (h1 : ProperDgm d1) (h2 : ProperDgm d2) :
    ∃ v, BnReturns oracle d1 d2 v ∧
      IsBn (Bottleneck.finitePart d1).get (Bottleneck.finitePart d2).get v := by
  obtain ⟨r, v, hr, hv, hb⟩ := C01.bottleneck_eq_spec (K := ℝ) oracle ho d1 d2 h1 h2
  exact ⟨v, ⟨r, hr, hv⟩, isBn_of_cst hb⟩

theorem bnReturns_unique {oracle : Bottleneck.Graph → Bottleneck.Matching} {d1 d2 : List (ℝ × Option ℝ)} {v v' : ℝ}
    (h : BnReturns oracle d1 d2 v) (h' : BnReturns oracle d1 d2 v') : v = v' := by
  obtain ⟨r, hr, hv⟩ := h
  obtain ⟨r', hr', hv'⟩ := h'
  rw [hr] at hr'; cases hr'
  rw [hv] at hv'; cases hv'; rfl

/-- what the model returned is the specification value -/
theorem bnReturns_isBn {oracle : Bottleneck.Graph → Bottleneck.Matching} (ho : Bottleneck.OracleMax oracle)
    {d1 d2 : List (ℝ × Option ℝ)} (h1 : ProperDgm d1) (h2 : ProperDgm d2) {v : ℝ}
    (h : BnReturns oracle d1 d2 v) :
    IsBn (Bottleneck.finitePart d1).get (Bottleneck.finitePart d2).get v := by
  obtain ⟨v', hv', hb⟩ := model_bn_is_spec ho h1 h2
  rwa [bnReturns_unique h hv']

/-- **symmetry of what the code's model returns**, even across two different oracles (hash seeds) -/
theorem model_bn_symm {o o' : Bottleneck.Graph → Bottleneck.Matching} (ho : Bottleneck.OracleMax o) (ho' : Bottleneck.OracleMax o')
    {d1 d2 : List (ℝ × Option ℝ)} (h1 : ProperDgm d1) (h2 : ProperDgm d2) {v v' : ℝ}
    (h : BnReturns o d1 d2 v) (h' : BnReturns o' d2 d1 v') : v = v' :=
  IsBottleneck.unique (bottleneck_symm _ _ (bnReturns_isBn ho h1 h2 h)) (bnReturns_isBn ho' h2 h1 h')

/-- **the returned value does not depend on the oracle** (hence not on the hash seed) -/
theorem model_bn_oracle_irrelevant {o o' : Bottleneck.Graph → Bottleneck.Matching} (ho : Bottleneck.OracleMax o)
    (ho' : Bottleneck.OracleMax o') {d1 d2 : List (ℝ × Option ℝ)} (h1 : ProperDgm d1) (h2 : ProperDgm d2) {v v' : ℝ}
    (h : BnReturns o d1 d2 v) (h' : BnReturns o' d1 d2 v') : v = v' :=
  IsBottleneck.unique (bnReturns_isBn ho h1 h2 h) (bnReturns_isBn ho' h1 h2 h')

/-- **triangle inequality of what the code's model returns** -/
theorem model_bn_triangle {o : Bottleneck.Graph → Bottleneck.Matching} (ho : Bottleneck.OracleMax o)
    {d1 d2 d3 : List (ℝ × Option ℝ)} (h1 : ProperDgm d1) (h2 : ProperDgm d2) (h3 : ProperDgm d3)
    {v12 v23 v13 : ℝ} (h12 : BnReturns o d1 d2 v12) (h23 : BnReturns o d2 d3 v23) (h13 : BnReturns o d1 d3 v13) :
    v13 ≤ v12 + v23 :=
  bottleneck_triangle_ineq _ _ _ (bnReturns_isBn ho h1 h2 h12) (bnReturns_isBn ho h2 h3 h23)
    (bnReturns_isBn ho h1 h3 h13)

/-- **non-negativity** -/
theorem model_bn_nonneg {o : Bottleneck.Graph → Bottleneck.Matching} (ho : Bottleneck.OracleMax o)
    {d1 d2 : List (ℝ × Option ℝ)} (h1 : ProperDgm d1) (h2 : ProperDgm d2) {v : ℝ} (h : BnReturns o d1 d2 v) :
    0 ≤ v := (bnReturns_isBn ho h1 h2 h).nonneg

/-! ### Wasserstein -/

/-- the Wasserstein model (with `Real.sqrt`, `cos (π/4)`, `sin (π/4)`) returned the value `w` -/
def WsReturns (lsa : Wasserstein.Mat ℝ → List (Nat × Nat)) (d1 d2 : Wasserstein.Dgm ℝ) (w : ℝ) : Prop :=
  ∃ rows, Wasserstein.wasserstein Real.sqrt (Real.cos (Real.pi / 4)) (Real.sin (Real.pi / 4)) lsa d1 d2
    = .ok ⟨some w, Wasserstein.warned d1, Wasserstein.warned d2, rows⟩

/-- **C02 restated**: the model returns the Wasserstein distance of the finite parts, for every
    assignment solver honouring its contract -/
theorem model_ws_is_spec {lsa : Wasserstein.Mat ℝ → List (Nat × Nat)} (hl : WsLemmas.LsaContract lsa)
    (d1 d2 : Wasserstein.Dgm ℝ) :
    ∃ w, WsReturns lsa d1 d2 w ∧
      IsWs (Wasserstein.finitePart d1).get (Wasserstein.finitePart d2).get w := by
  obtain ⟨w, rows, hr, hs⟩ := C02.wasserstein_eq_spec_real lsa hl d1 d2
  exact ⟨w, ⟨rows, hr⟩, hs⟩

theorem wsReturns_unique {lsa : Wasserstein.Mat ℝ → List (Nat × Nat)} {d1 d2 : Wasserstein.Dgm ℝ} {w w' : ℝ}
    (h : WsReturns lsa d1 d2 w) (h' : WsReturns lsa d1 d2 w') : w = w' := by
  obtain ⟨r, hr⟩ := h
  obtain ⟨r', hr'⟩ := h'
  rw [hr] at hr'
  injection hr' with e
  injection e with e1
  injection e1

theorem wsReturns_isWs {lsa : Wasserstein.Mat ℝ → List (Nat × Nat)} (hl : WsLemmas.LsaContract lsa)
    {d1 d2 : Wasserstein.Dgm ℝ} {w : ℝ} (h : WsReturns lsa d1 d2 w) :
    IsWs (Wasserstein.finitePart d1).get (Wasserstein.finitePart d2).get w := by
  obtain ⟨w', hw', hs⟩ := model_ws_is_spec hl d1 d2
  rwa [wsReturns_unique h hw']

/-- **symmetry of what the code's model returns**, even across two different solvers -/
theorem model_ws_symm {l l' : Wasserstein.Mat ℝ → List (Nat × Nat)} (hl : WsLemmas.LsaContract l)
    (hl' : WsLemmas.LsaContract l') {d1 d2 : Wasserstein.Dgm ℝ} {w w' : ℝ}
    (h : WsReturns l d1 d2 w) (h' : WsReturns l' d2 d1 w') : w = w' :=
  IsMinSum.unique (wasserstein_symm _ _ (wsReturns_isWs hl h)) (wsReturns_isWs hl' h')

/-- **triangle inequality of what the code's model returns** (middle diagram proper) -/
theorem model_ws_triangle {l : Wasserstein.Mat ℝ → List (Nat × Nat)} (hl : WsLemmas.LsaContract l)
    {d1 d2 d3 : Wasserstein.Dgm ℝ} (h2 : ∀ p ∈ Wasserstein.finitePart d2, p.1 ≤ p.2)
    {w12 w23 w13 : ℝ} (h12 : WsReturns l d1 d2 w12) (h23 : WsReturns l d2 d3 w23) (h13 : WsReturns l d1 d3 w13) :
    w13 ≤ w12 + w23 :=
  wasserstein_triangle_ineq _ _ _ (fun j => h2 _ (List.get_mem _ j)) (wsReturns_isWs hl h12)
    (wsReturns_isWs hl h23) (wsReturns_isWs hl h13)

/-! ## The remaining laws of the statement, for what the MODELS return

`Props/C07.lean` states the laws for diagrams indexed by arbitrary types (`Option N` = one more point,
`S ∘ e.symm` = reordered).  The models consume *lists* of raw points `(b, some d)` / `(b, none)`; the
bridge is `Lemmas/MatchingReindex.lean` (the specification value does not depend on the indexing).
Each law below is a corollary of `bnReturns_isBn` / `wsReturns_isWs` and holds for diagrams of any
size, for any oracles / solvers honouring their contracts (two different ones where two runs occur).
Points with a non-finite death (`none`) may be present everywhere: they are dropped by both runs. -/

/-! ### list-level bridges -/

theorem isBn_reindex {M M' N N' : Type} (eM : M ≃ M') (eN : N ≃ N') {S : M → Pt} {S' : M' → Pt}
    {T : N → Pt} {T' : N' → Pt} (hS : ∀ i, S' (eM i) = S i) (hT : ∀ j, T' (eN j) = T j) (d : ℝ) :
    IsBn S' T' d ↔ IsBn S T d :=
  isBottleneck_reindex_iff eM eN
    (fun i j => by show linf (S' (eM i)) (T' (eN j)) = linf (S i) (T j); rw [hS, hT])
    (fun i => by show diagInf (S' (eM i)) = diagInf (S i); rw [hS])
    (fun j => by show diagInf (T' (eN j)) = diagInf (T j); rw [hT]) d

theorem isWs_reindex {M M' N N' : Type} [Fintype M] [Fintype M'] [Fintype N] [Fintype N']
    (eM : M ≃ M') (eN : N ≃ N') {S : M → Pt} {S' : M' → Pt}
    {T : N → Pt} {T' : N' → Pt} (hS : ∀ i, S' (eM i) = S i) (hT : ∀ j, T' (eN j) = T j) (w : ℝ) :
    IsWs S' T' w ↔ IsWs S T w :=
  isMinSum_reindex_iff eM eN
    (fun i j => by show euclid (S' (eM i)) (T' (eN j)) = euclid (S i) (T j); rw [hS, hT])
    (fun i => by show diagL2 (S' (eM i)) = diagL2 (S i); rw [hS])
    (fun j => by show diagL2 (T' (eN j)) = diagL2 (T j); rw [hT]) w

theorem isBn_congr_list {l1 l1' l2 l2' : List Pt} (h1 : l1 = l1') (h2 : l2 = l2') (d : ℝ) :
    IsBn l1.get l2.get d ↔ IsBn l1'.get l2'.get d := by subst h1; subst h2; rfl

theorem isWs_congr_list {l1 l1' l2 l2' : List Pt} (h1 : l1 = l1') (h2 : l2 = l2') (w : ℝ) :
    IsWs l1.get l2.get w ↔ IsWs l1'.get l2'.get w := by subst h1; subst h2; rfl

/-- reordering either list does not change the bottleneck value -/
theorem isBn_perm {l1 l1' l2 l2' : List Pt} (h1 : l1.Perm l1') (h2 : l2.Perm l2') (d : ℝ) :
    IsBn l1'.get l2'.get d ↔ IsBn l1.get l2.get d := by
  obtain ⟨e1, he1⟩ := perm_exists_equiv h1
  obtain ⟨e2, he2⟩ := perm_exists_equiv h2
  exact isBn_reindex e1 e2 he1 he2 d

/-- reordering either list does not change the Wasserstein value -/
theorem isWs_perm {l1 l1' l2 l2' : List Pt} (h1 : l1.Perm l1') (h2 : l2.Perm l2') (w : ℝ) :
    IsWs l1'.get l2'.get w ↔ IsWs l1.get l2.get w := by
  obtain ⟨e1, he1⟩ := perm_exists_equiv h1
  obtain ⟨e2, he2⟩ := perm_exists_equiv h2
  exact isWs_reindex e1 e2 he1 he2 w

theorem isBn_cons_diag {M : Type} (S : M → Pt) (T : List Pt) (a d : ℝ) :
    IsBn S ((a, a) :: T).get d ↔ IsBn S T.get d := by
  rw [← bottleneck_add_diagonal S T.get a d]
  exact isBn_reindex (Equiv.refl M) (consIdx (a, a) T) (fun _ => rfl) (get_consIdx (a, a) T) d

theorem isWs_cons_diag {M : Type} [Fintype M] [DecidableEq M] (S : M → Pt) (T : List Pt) (a w : ℝ) :
    IsWs S ((a, a) :: T).get w ↔ IsWs S T.get w := by
  rw [← wasserstein_add_diagonal S T.get a w]
  exact isWs_reindex (Equiv.refl M) (consIdx (a, a) T) (fun _ => rfl) (get_consIdx (a, a) T) w

theorem isBn_map (f : Pt → Pt) (l1 l2 : List Pt) (d : ℝ) :
    IsBn (l1.map f).get (l2.map f).get d ↔ IsBn (fun i => f (l1.get i)) (fun j => f (l2.get j)) d :=
  isBn_reindex (mapIdx f l1) (mapIdx f l2) (get_mapIdx f l1) (get_mapIdx f l2) d

theorem isWs_map (f : Pt → Pt) (l1 l2 : List Pt) (w : ℝ) :
    IsWs (l1.map f).get (l2.map f).get w ↔ IsWs (fun i => f (l1.get i)) (fun j => f (l2.get j)) w :=
  isWs_reindex (mapIdx f l1) (mapIdx f l2) (get_mapIdx f l1) (get_mapIdx f l2) w

/-! ### raw diagrams: finite parts of reordered / extended / transformed inputs -/

/-- the two models keep the same points -/
theorem finitePart_eq (d : List (ℝ × Option ℝ)) : Bottleneck.finitePart d = Wasserstein.finitePart d := by
  show List.filterMap _ d = List.filterMap _ d
  congr 1

theorem finitePart_perm {d d' : List (ℝ × Option ℝ)} (h : d.Perm d') :
    (Wasserstein.finitePart d).Perm (Wasserstein.finitePart d') := h.filterMap _

theorem finitePart_cons_some (b e : ℝ) (d : List (ℝ × Option ℝ)) :
    Wasserstein.finitePart ((b, some e) :: d) = (b, e) :: Wasserstein.finitePart d := rfl

/-- apply `f` to every coordinate of a raw diagram (a non-finite death stays non-finite) -/
def mapDgm (f : ℝ → ℝ) (d : List (ℝ × Option ℝ)) : List (ℝ × Option ℝ) :=
  d.map fun p => (f p.1, p.2.map f)

/-- the diagram translated along the diagonal: `dgm + t` -/
def shiftDgm (t : ℝ) : List (ℝ × Option ℝ) → List (ℝ × Option ℝ) := mapDgm (· + t)
/-- the diagram scaled: `l * dgm` -/
def scaleDgm (l : ℝ) : List (ℝ × Option ℝ) → List (ℝ × Option ℝ) := mapDgm (l * ·)

theorem finitePart_mapDgm (f : ℝ → ℝ) (d : List (ℝ × Option ℝ)) :
    Wasserstein.finitePart (mapDgm f d) = (Wasserstein.finitePart d).map fun p => (f p.1, f p.2) := by
  induction d with
  | nil => rfl
  | cons p d ih =>
    rcases p with ⟨b, _ | e⟩
    · simpa [mapDgm, Wasserstein.finitePart] using ih
    · simpa [mapDgm, Wasserstein.finitePart] using ih

theorem properDgm_iff (d : List (ℝ × Option ℝ)) : ProperDgm d ↔ ∀ p ∈ Wasserstein.finitePart d, p.1 ≤ p.2 := by
  unfold ProperDgm; rw [finitePart_eq]

theorem ProperDgm.perm {d d' : List (ℝ × Option ℝ)} (h : ProperDgm d) (hp : d'.Perm d) : ProperDgm d' := by
  rw [properDgm_iff] at h ⊢
  exact fun p hp' => h p ((finitePart_perm hp).subset hp')

theorem ProperDgm.cons_diag {d : List (ℝ × Option ℝ)} (h : ProperDgm d) (a : ℝ) : ProperDgm ((a, some a) :: d) := by
  rw [properDgm_iff] at h ⊢
  intro p hp
  rw [finitePart_cons_some, List.mem_cons] at hp
  rcases hp with rfl | hp
  · exact le_refl _
  · exact h p hp

theorem ProperDgm.shift {d : List (ℝ × Option ℝ)} (h : ProperDgm d) (t : ℝ) : ProperDgm (shiftDgm t d) := by
  rw [properDgm_iff] at h ⊢
  intro p hp
  rw [shiftDgm, finitePart_mapDgm, List.mem_map] at hp
  obtain ⟨q, hq, rfl⟩ := hp
  have := h q hq
  show q.1 + t ≤ q.2 + t
  linarith

theorem ProperDgm.scale {d : List (ℝ × Option ℝ)} (h : ProperDgm d) {l : ℝ} (hl : 0 ≤ l) : ProperDgm (scaleDgm l d) := by
  rw [properDgm_iff] at h ⊢
  intro p hp
  rw [scaleDgm, finitePart_mapDgm, List.mem_map] at hp
  obtain ⟨q, hq, rfl⟩ := hp
  exact mul_le_mul_of_nonneg_left (h q hq) hl

/-- `bnReturns_isBn` phrased with the finite part both models share -/
theorem bnReturns_isBn' {oracle : Bottleneck.Graph → Bottleneck.Matching} (ho : Bottleneck.OracleMax oracle)
    {d1 d2 : List (ℝ × Option ℝ)} (h1 : ProperDgm d1) (h2 : ProperDgm d2) {v : ℝ}
    (h : BnReturns oracle d1 d2 v) :
    IsBn (Wasserstein.finitePart d1).get (Wasserstein.finitePart d2).get v :=
  (isBn_congr_list (finitePart_eq d1) (finitePart_eq d2) v).mp (bnReturns_isBn ho h1 h2 h)

/-! ### bottleneck -/

/-- **reordering the inputs does not change the value** (any two oracles) -/
theorem model_bn_perm_invariant {o o' : Bottleneck.Graph → Bottleneck.Matching} (ho : Bottleneck.OracleMax o)
    (ho' : Bottleneck.OracleMax o') {d1 d2 d1' d2' : List (ℝ × Option ℝ)} (h1 : ProperDgm d1) (h2 : ProperDgm d2)
    (p1 : d1'.Perm d1) (p2 : d2'.Perm d2) {v v' : ℝ}
    (h : BnReturns o d1 d2 v) (h' : BnReturns o' d1' d2' v') : v' = v := by
  have a := bnReturns_isBn' ho h1 h2 h
  have b := bnReturns_isBn' ho' (h1.perm p1) (h2.perm p2) h'
  exact IsBottleneck.unique ((isBn_perm (finitePart_perm p1) (finitePart_perm p2) v').mpr b) a

/-- **zero between a diagram and any reordering of itself** (`List.Perm` form) -/
theorem model_bn_reorder_zero {o : Bottleneck.Graph → Bottleneck.Matching} (ho : Bottleneck.OracleMax o)
    {d1 d2 : List (ℝ × Option ℝ)} (h1 : ProperDgm d1) (hp : d1.Perm d2) {v : ℝ}
    (h : BnReturns o d1 d2 v) : v = 0 :=
  IsBottleneck.unique (bnReturns_isBn' ho h1 (h1.perm hp.symm) h) (bottleneck_perm_zero_list (finitePart_perm hp))

/-- **a point on the diagonal added anywhere to the second diagram changes nothing** -/
theorem model_bn_add_diagonal {o o' : Bottleneck.Graph → Bottleneck.Matching} (ho : Bottleneck.OracleMax o)
    (ho' : Bottleneck.OracleMax o') {d1 d2 d2' : List (ℝ × Option ℝ)} (h1 : ProperDgm d1) (h2 : ProperDgm d2)
    (a : ℝ) (hp : d2'.Perm ((a, some a) :: d2)) {v v' : ℝ}
    (h : BnReturns o d1 d2 v) (h' : BnReturns o' d1 d2' v') : v' = v := by
  have a1 := bnReturns_isBn' ho h1 h2 h
  have b := bnReturns_isBn' ho' h1 ((h2.cons_diag a).perm hp) h'
  have b' := (isBn_perm (List.Perm.refl _) (finitePart_perm hp) v').mpr b
  rw [finitePart_cons_some, isBn_cons_diag] at b'
  exact IsBottleneck.unique b' a1

/-- … and to the first diagram -/
theorem model_bn_add_diagonal_left {o o' : Bottleneck.Graph → Bottleneck.Matching} (ho : Bottleneck.OracleMax o)
    (ho' : Bottleneck.OracleMax o') {d1 d1' d2 : List (ℝ × Option ℝ)} (h1 : ProperDgm d1) (h2 : ProperDgm d2)
    (a : ℝ) (hp : d1'.Perm ((a, some a) :: d1)) {v v' : ℝ}
    (h : BnReturns o d1 d2 v) (h' : BnReturns o' d1' d2 v') : v' = v := by
  have a1 := bottleneck_symm _ _ (bnReturns_isBn' ho h1 h2 h)
  have b := bottleneck_symm _ _ (bnReturns_isBn' ho' ((h1.cons_diag a).perm hp) h2 h')
  have b' := (isBn_perm (List.Perm.refl _) (finitePart_perm hp) v').mpr b
  rw [finitePart_cons_some, isBn_cons_diag] at b'
  exact IsBottleneck.unique b' a1

/-- **translating both diagrams along the diagonal changes nothing** -/
theorem model_bn_translate {o o' : Bottleneck.Graph → Bottleneck.Matching} (ho : Bottleneck.OracleMax o)
    (ho' : Bottleneck.OracleMax o') {d1 d2 : List (ℝ × Option ℝ)} (h1 : ProperDgm d1) (h2 : ProperDgm d2)
    (t : ℝ) {v v' : ℝ} (h : BnReturns o d1 d2 v) (h' : BnReturns o' (shiftDgm t d1) (shiftDgm t d2) v') :
    v' = v := by
  have a := bnReturns_isBn' ho h1 h2 h
  have b := bnReturns_isBn' ho' (h1.shift t) (h2.shift t) h'
  rw [shiftDgm, finitePart_mapDgm, finitePart_mapDgm, isBn_map] at b
  exact IsBottleneck.unique ((bottleneck_translate _ _ t v').mp b) a

/-- **scaling both diagrams by `l > 0` scales the value by `l`** -/
theorem model_bn_scale {o o' : Bottleneck.Graph → Bottleneck.Matching} (ho : Bottleneck.OracleMax o)
    (ho' : Bottleneck.OracleMax o') {d1 d2 : List (ℝ × Option ℝ)} (h1 : ProperDgm d1) (h2 : ProperDgm d2)
    {l : ℝ} (hl : 0 < l) {v v' : ℝ} (h : BnReturns o d1 d2 v) (h' : BnReturns o' (scaleDgm l d1) (scaleDgm l d2) v') :
    v' = l * v := by
  have a := bottleneck_scale _ _ hl (bnReturns_isBn' ho h1 h2 h)
  have b := bnReturns_isBn' ho' (h1.scale hl.le) (h2.scale hl.le) h'
  rw [scaleDgm, finitePart_mapDgm, finitePart_mapDgm, isBn_map] at b
  exact IsBottleneck.unique b a

/-- **against a diagram without finite points** (empty, or only non-finite deaths): the value is the
    least `v ≥ 0` above every `(d - b)/2`, i.e. `max(0, max persistence / 2)` -/
theorem model_bn_vs_empty {o : Bottleneck.Graph → Bottleneck.Matching} (ho : Bottleneck.OracleMax o)
    {d1 d2 : List (ℝ × Option ℝ)} (h1 : ProperDgm d1) (hE : Wasserstein.finitePart d2 = []) {v : ℝ}
    (h : BnReturns o d1 d2 v) :
    (0 ≤ v ∧ ∀ p ∈ Wasserstein.finitePart d1, (p.2 - p.1) / 2 ≤ v) ∧
      ∀ v', 0 ≤ v' → (∀ p ∈ Wasserstein.finitePart d1, (p.2 - p.1) / 2 ≤ v') → v ≤ v' := by
  have h2 : ProperDgm d2 := by rw [properDgm_iff, hE]; intro p hp; cases hp
  have a := bnReturns_isBn' ho h1 h2 h
  have a' := (isBn_congr_list rfl hE v).mp a
  have : IsEmpty (Fin ([] : List Pt).length) := inferInstanceAs (IsEmpty (Fin 0))
  rw [bottleneck_vs_empty] at a'
  obtain ⟨⟨h0, hub⟩, hl⟩ := a'
  refine ⟨⟨h0, fun p hp => ?_⟩, fun v' hv0 hv' => hl v' hv0 fun i => hv' _ (List.get_mem _ i)⟩
  obtain ⟨i, rfl⟩ := List.get_of_mem hp
  exact hub i

/-! ### Wasserstein -/

theorem wsReturns_proper {d : Wasserstein.Dgm ℝ} (h : ∀ p ∈ Wasserstein.finitePart d, p.1 ≤ p.2) :
    Proper (Wasserstein.finitePart d).get := fun i => h _ (List.get_mem _ i)

/-- **non-negativity** -/
theorem model_ws_nonneg {l : Wasserstein.Mat ℝ → List (Nat × Nat)} (hl : WsLemmas.LsaContract l)
    {d1 d2 : Wasserstein.Dgm ℝ} (h1 : ProperDgm d1) (h2 : ProperDgm d2) {w : ℝ} (h : WsReturns l d1 d2 w) :
    0 ≤ w :=
  wasserstein_nonneg _ _ (wsReturns_proper ((properDgm_iff d1).mp h1)) (wsReturns_proper ((properDgm_iff d2).mp h2))
    (wsReturns_isWs hl h)

/-- **reordering the inputs does not change the value** (any two solvers) -/
theorem model_ws_perm_invariant {l l' : Wasserstein.Mat ℝ → List (Nat × Nat)} (hl : WsLemmas.LsaContract l)
    (hl' : WsLemmas.LsaContract l') {d1 d2 d1' d2' : Wasserstein.Dgm ℝ}
    (p1 : d1'.Perm d1) (p2 : d2'.Perm d2) {w w' : ℝ}
    (h : WsReturns l d1 d2 w) (h' : WsReturns l' d1' d2' w') : w' = w :=
  IsMinSum.unique ((isWs_perm (finitePart_perm p1) (finitePart_perm p2) w').mpr (wsReturns_isWs hl' h'))
    (wsReturns_isWs hl h)

/-- **zero between a diagram and any reordering of itself** (`List.Perm` form) -/
theorem model_ws_reorder_zero {l : Wasserstein.Mat ℝ → List (Nat × Nat)} (hl : WsLemmas.LsaContract l)
    {d1 d2 : Wasserstein.Dgm ℝ} (h1 : ProperDgm d1) (hp : d1.Perm d2) {w : ℝ}
    (h : WsReturns l d1 d2 w) : w = 0 :=
  IsMinSum.unique (wsReturns_isWs hl h)
    (wasserstein_perm_zero_list (finitePart_perm hp) ((properDgm_iff d1).mp h1))

/-- **a point on the diagonal added anywhere to the second diagram changes nothing** -/
theorem model_ws_add_diagonal {l l' : Wasserstein.Mat ℝ → List (Nat × Nat)} (hl : WsLemmas.LsaContract l)
    (hl' : WsLemmas.LsaContract l') {d1 d2 d2' : Wasserstein.Dgm ℝ}
    (a : ℝ) (hp : d2'.Perm ((a, some a) :: d2)) {w w' : ℝ}
    (h : WsReturns l d1 d2 w) (h' : WsReturns l' d1 d2' w') : w' = w := by
  have b' := (isWs_perm (List.Perm.refl _) (finitePart_perm hp) w').mpr (wsReturns_isWs hl' h')
  rw [finitePart_cons_some, isWs_cons_diag] at b'
  exact IsMinSum.unique b' (wsReturns_isWs hl h)

/-- … and to the first diagram -/
theorem model_ws_add_diagonal_left {l l' : Wasserstein.Mat ℝ → List (Nat × Nat)} (hl : WsLemmas.LsaContract l)
    (hl' : WsLemmas.LsaContract l') {d1 d1' d2 : Wasserstein.Dgm ℝ}
    (a : ℝ) (hp : d1'.Perm ((a, some a) :: d1)) {w w' : ℝ}
    (h : WsReturns l d1 d2 w) (h' : WsReturns l' d1' d2 w') : w' = w := by
  have b' := (isWs_perm (List.Perm.refl _) (finitePart_perm hp) w').mpr
    (wasserstein_symm _ _ (wsReturns_isWs hl' h'))
  rw [finitePart_cons_some, isWs_cons_diag] at b'
  exact IsMinSum.unique b' (wasserstein_symm _ _ (wsReturns_isWs hl h))

/-- **translating both diagrams along the diagonal changes nothing** -/
theorem model_ws_translate {l l' : Wasserstein.Mat ℝ → List (Nat × Nat)} (hl : WsLemmas.LsaContract l)
    (hl' : WsLemmas.LsaContract l') {d1 d2 : Wasserstein.Dgm ℝ}
    (t : ℝ) {w w' : ℝ} (h : WsReturns l d1 d2 w) (h' : WsReturns l' (shiftDgm t d1) (shiftDgm t d2) w') :
    w' = w := by
  have b := wsReturns_isWs hl' h'
  rw [shiftDgm, finitePart_mapDgm, finitePart_mapDgm, isWs_map] at b
  exact IsMinSum.unique ((wasserstein_translate _ _ t w').mp b) (wsReturns_isWs hl h)

/-- **scaling both diagrams by `c ≥ 0` scales the value by `c`** -/
theorem model_ws_scale {l l' : Wasserstein.Mat ℝ → List (Nat × Nat)} (hl : WsLemmas.LsaContract l)
    (hl' : WsLemmas.LsaContract l') {d1 d2 : Wasserstein.Dgm ℝ}
    {c : ℝ} (hc : 0 ≤ c) {w w' : ℝ} (h : WsReturns l d1 d2 w) (h' : WsReturns l' (scaleDgm c d1) (scaleDgm c d2) w') :
    w' = c * w := by
  have b := wsReturns_isWs hl' h'
  rw [scaleDgm, finitePart_mapDgm, finitePart_mapDgm, isWs_map] at b
  exact IsMinSum.unique b (wasserstein_scale _ _ hc (wsReturns_isWs hl h))

/-- **against a diagram without finite points: total persistence / √2** -/
theorem model_ws_vs_empty {l : Wasserstein.Mat ℝ → List (Nat × Nat)} (hl : WsLemmas.LsaContract l)
    {d1 d2 : Wasserstein.Dgm ℝ} (hE : Wasserstein.finitePart d2 = []) {w : ℝ}
    (h : WsReturns l d1 d2 w) :
    w = ((Wasserstein.finitePart d1).map fun p => (p.2 - p.1) / Real.sqrt 2).sum := by
  have a := (isWs_congr_list rfl hE w).mp (wsReturns_isWs hl h)
  have : IsEmpty (Fin ([] : List Pt).length) := inferInstanceAs (IsEmpty (Fin 0))
  have e := IsMinSum.unique a (wasserstein_vs_empty (Wasserstein.finitePart d1).get ([] : List Pt).get)
  rw [e]
  simp only [List.get_eq_getElem]
  exact Fin.sum_univ_fun_getElem (Wasserstein.finitePart d1) fun p => (p.2 - p.1) / Real.sqrt 2

/-- **the bottleneck value never exceeds the Wasserstein value** (same inputs, any oracle / solver) -/
theorem model_bn_le_ws {o : Bottleneck.Graph → Bottleneck.Matching} (ho : Bottleneck.OracleMax o)
    {l : Wasserstein.Mat ℝ → List (Nat × Nat)} (hl : WsLemmas.LsaContract l)
    {d1 d2 : List (ℝ × Option ℝ)} (h1 : ProperDgm d1) (h2 : ProperDgm d2) {v w : ℝ}
    (hb : BnReturns o d1 d2 v) (hw : WsReturns l d1 d2 w) : v ≤ w :=
  bottleneck_le_wasserstein _ _ (wsReturns_proper ((properDgm_iff d1).mp h1)) (wsReturns_proper ((properDgm_iff d2).mp h2))
    (bnReturns_isBn' ho h1 h2 hb) (wsReturns_isWs hl hw)

/-! ### non-vacuity: the hypotheses are met by concrete non-trivial inputs, and the runs exist -/

/-- two proper points and a point of infinite death -/
def dgmA : List (ℝ × Option ℝ) := [(0, some 3), (1, some 4), (2, none)]
/-- a proper point -/
def dgmB : List (ℝ × Option ℝ) := [(1, some 2)]

theorem dgmA_proper : ProperDgm dgmA := by
  rw [properDgm_iff]; intro p hp
  simp [dgmA, Wasserstein.finitePart] at hp
  rcases hp with rfl | rfl <;> norm_num

theorem dgmB_proper : ProperDgm dgmB := by
  rw [properDgm_iff]; intro p hp
  simp [dgmB, Wasserstein.finitePart] at hp
  subst hp; norm_num

-- reorder: a genuinely different order of `dgmA`; the run exists and returns 0
example : ∃ (o : Bottleneck.Graph → Bottleneck.Matching) (v : ℝ), Bottleneck.OracleMax o ∧ ProperDgm dgmA ∧
    dgmA.Perm dgmA.reverse ∧ BnReturns o dgmA dgmA.reverse v ∧ v = 0 := by
  obtain ⟨o, ho⟩ := C01.oracleMax_exists
  have hp : dgmA.Perm dgmA.reverse := (List.reverse_perm dgmA).symm
  obtain ⟨v, hv, -⟩ := model_bn_is_spec ho dgmA_proper (dgmA_proper.perm hp.symm)
  exact ⟨o, v, ho, dgmA_proper, hp, hv, model_bn_reorder_zero ho dgmA_proper hp hv⟩

-- added diagonal point (inserted in the middle), translation, scaling: all runs exist
example : ∃ (o : Bottleneck.Graph → Bottleneck.Matching) (v v1 v2 v3 : ℝ), Bottleneck.OracleMax o ∧
    BnReturns o dgmA dgmB v ∧ BnReturns o dgmA ((1, some 2) :: (5, some 5) :: []) v1 ∧
    BnReturns o (shiftDgm 7 dgmA) (shiftDgm 7 dgmB) v2 ∧ BnReturns o (scaleDgm 3 dgmA) (scaleDgm 3 dgmB) v3 ∧
    v1 = v ∧ v2 = v ∧ v3 = 3 * v := by
  obtain ⟨o, ho⟩ := C01.oracleMax_exists
  have hp : ((1, some 2) :: (5, some 5) :: [] : List (ℝ × Option ℝ)).Perm ((5, some 5) :: dgmB) := List.Perm.swap _ _ _
  obtain ⟨v, hv, -⟩ := model_bn_is_spec ho dgmA_proper dgmB_proper
  obtain ⟨v1, hv1, -⟩ := model_bn_is_spec ho dgmA_proper ((dgmB_proper.cons_diag 5).perm hp)
  obtain ⟨v2, hv2, -⟩ := model_bn_is_spec ho (dgmA_proper.shift 7) (dgmB_proper.shift 7)
  obtain ⟨v3, hv3, -⟩ := model_bn_is_spec ho (dgmA_proper.scale (l := 3) (by norm_num)) (dgmB_proper.scale (l := 3) (by norm_num))
  exact ⟨o, v, v1, v2, v3, ho, hv, hv1, hv2, hv3,
    model_bn_add_diagonal ho ho dgmA_proper dgmB_proper 5 hp hv hv1,
    model_bn_translate ho ho dgmA_proper dgmB_proper 7 hv hv2,
    model_bn_scale ho ho dgmA_proper dgmB_proper (by norm_num) hv hv3⟩

-- against a side that is emptied by the filter, and bottleneck ≤ Wasserstein, with existing runs
example : ∃ (o : Bottleneck.Graph → Bottleneck.Matching) (l : Wasserstein.Mat ℝ → List (Nat × Nat)) (v w v0 w0 : ℝ),
    BnReturns o dgmA dgmB v ∧ WsReturns l dgmA dgmB w ∧ v ≤ w ∧
    BnReturns o dgmA [(9, none)] v0 ∧ WsReturns l dgmA [(9, none)] w0 ∧
    w0 = (3 - 0) / Real.sqrt 2 + ((4 - 1) / Real.sqrt 2 + 0) := by
  obtain ⟨o, ho⟩ := C01.oracleMax_exists
  obtain ⟨l, hl⟩ := C02.lsaContract_satisfiable (K := ℝ)
  have hE : ProperDgm [((9 : ℝ), (none : Option ℝ))] := by
    rw [properDgm_iff]; intro p hp; simp [Wasserstein.finitePart] at hp
  obtain ⟨v, hv, -⟩ := model_bn_is_spec ho dgmA_proper dgmB_proper
  obtain ⟨w, hw, -⟩ := model_ws_is_spec hl dgmA dgmB
  obtain ⟨v0, hv0, -⟩ := model_bn_is_spec ho dgmA_proper hE
  obtain ⟨w0, hw0, -⟩ := model_ws_is_spec hl dgmA [(9, none)]
  refine ⟨o, l, v, w, v0, w0, hv, hw, model_bn_le_ws ho hl dgmA_proper dgmB_proper hv hw, hv0, hw0, ?_⟩
  rw [model_ws_vs_empty hl (d2 := [(9, none)]) rfl hw0]
  simp [dgmA, Wasserstein.finitePart]

end

end PersimVerif.C07
