import PersimVerif.Props.C01
import PersimVerif.Props.C02
import PersimVerif.Props.C07
import PersimVerif.Lemmas.MatchingReindex

/-!
# C07 at the level of the *models of the code* (C01 ∘ C07, C02 ∘ C07)

`Props/C07.lean` proves the laws for the specification values.  `Props/C01.lean` / `Props/C02.lean`
prove that the models of `persim.bottleneck` / `persim.wasserstein` return exactly those values, for
every oracle / assignment solver honouring its contract.  Composing the two gives the laws for what
the models return — for diagrams of any size and for any oracles / solvers: wherever a law compares
two or three runs, each run may use a *different* oracle (solver) honouring the contract (so in
particular the laws hold across hash seeds); the three-run laws have a one-oracle form
(`model_bn_triangle`, `model_ws_triangle`) and a three-oracle form (`model_bn_triangle_oracles`,
`model_ws_triangle_solvers`).

## The domain restriction `ProperDgm` (every finite point has `birth ≤ death`) is NECESSARY

`ProperDgm` is a hypothesis of every bottleneck law (C01 identifies the model's value with the
specification value only under it) and of `model_ws_nonneg`, `model_ws_reorder_zero`,
`model_ws_triangle` (middle diagram) and `model_bn_le_ws`.  It is not an artefact of the proofs: the
laws are FALSE for the models — and for the real code — without it.  The real code returns
`bottleneck([[1,0]], [[1,0]]) = -0.5` and `wasserstein([[1,0]], [[1,0]]) = -1.414…` (both diagonal
costs `(d-b)/2`, `(d-b)/√2` are negative, and matching both points to the diagonal beats matching them
to each other at cost 0).  The theorems at the end of this file say so about the MODELS, for every
oracle / solver honouring its contract:

* `improper_bn_negative` — the bottleneck model returns `-1/2` on `[(1,0)]` vs `[(1,0)]`: non-negativity
  (`model_bn_nonneg`) and zero-on-reordering (`model_bn_reorder_zero`) fail without the guard;
* `improper_ws_negative` — the Wasserstein model returns `-2/√2 = -√2` there: `model_ws_nonneg` and
  `model_ws_reorder_zero` fail without the guard;
* `improper_bn_le_ws_fails` — on the same input the bottleneck value exceeds the Wasserstein value;
* `improper_ws_triangle_fails` — with the improper `[(1,0)]` as the MIDDLE diagram between two empty
  diagrams the triangle inequality fails (`0 ≤ -1/√2 - 1/√2` is false).

The Wasserstein laws that carry no `ProperDgm` hypothesis (symmetry, reordering invariance, added
diagonal points, translation, scaling, the value against an empty side) hold for improper inputs too.

Other remarks: `model_bn_scale` asks `0 < l` (as `C07.bottleneck_scale` does); `model_bn_scale_nonneg`
extends it to `0 ≤ l` (at `l = 0` both scaled diagrams consist of diagonal points), matching
`model_ws_scale`.  The added-diagonal-point laws have a one-point form and a list form
(`…_add_diagonal_list`, any list of diagonal points, inserted anywhere); the against-an-empty-side laws
have a right and a left form.
-/
namespace PersimVerif.C07
open PersimVerif.Spec

noncomputable section

/-- the bottleneck model returned the finite value `v` -/
def BnReturns (oracle : Bottleneck.Graph → Bottleneck.Matching) (d1 d2 : List (ℝ × Option ℝ)) (v : ℝ) : Prop :=
  ∃ r, Bottleneck.bottleneck oracle d1 d2 = some r ∧ r.value = .fin v

/-- every finite point of the diagram has `birth ≤ death` -/
def ProperDgm (d : List (ℝ × Option ℝ)) : Prop := ∀ p ∈ Bottleneck.finitePart d, p.1 ≤ p.2

theorem isBn_of_cst {S T : List (ℝ × ℝ)} {v : ℝ}
    (h : IsBottleneck (Bottleneck.cst S T) (Bottleneck.dgc S) (Bottleneck.dgc T) v) : IsBn S.get T.get v := h

/-- **C01 restated**: the model returns a finite value and it is the bottleneck distance of the
    finite parts, whatever maximum matchings the oracle returns. -/
theorem model_bn_is_spec {oracle : Bottleneck.Graph → Bottleneck.Matching} (ho : Bottleneck.OracleMax oracle)
    {d1 d2 : List (ℝ × Option ℝ)} (h1 : ProperDgm d1) (h2 : ProperDgm d2) :
    ∃ v, BnReturns oracle d1 d2 v ∧
      IsBn (Bottleneck.finitePart d1).get (Bottleneck.finitePart d2).get v := by
  obtain ⟨r, v, hr, hv, hb⟩ := C01.bottleneck_eq_spec (K := ℝ) oracle ho d1 d2 h1 h2
  exact ⟨v, ⟨r, hr, hv⟩, isBn_of_cst hb⟩

theorem bnReturns_unique {oracle : Bottleneck.Graph → Bottleneck.Matching} {d1 d2 : List (ℝ × Option ℝ)} {v v' : ℝ}
    (h : BnReturns oracle d1 d2 v) (h' : BnReturns oracle d1 d2 v') : v = v' := by
  obtain ⟨r, hr, hv⟩ := h
  obtain ⟨r', hr', hv'⟩ := h'
  rw [hr] at hr'; cases hr'
  rw [hv] at hv'; cases hv'; rfl

/-- what the model returned is the specification value -/
theorem bnReturns_isBn {oracle : Bottleneck.Graph → Bottleneck.Matching} (ho : Bottleneck.OracleMax oracle)
    {d1 d2 : List (ℝ × Option ℝ)} (h1 : ProperDgm d1) (h2 : ProperDgm d2) {v : ℝ}
    (h : BnReturns oracle d1 d2 v) :
    IsBn (Bottleneck.finitePart d1).get (Bottleneck.finitePart d2).get v := by
  obtain ⟨v', hv', hb⟩ := model_bn_is_spec ho h1 h2
  rwa [bnReturns_unique h hv']

/-- **symmetry of what the code's model returns**, even across two different oracles (hash seeds) -/
theorem model_bn_symm {o o' : Bottleneck.Graph → Bottleneck.Matching} (ho : Bottleneck.OracleMax o) (ho' : Bottleneck.OracleMax o')
    {d1 d2 : List (ℝ × Option ℝ)} (h1 : ProperDgm d1) (h2 : ProperDgm d2) {v v' : ℝ}
    (h : BnReturns o d1 d2 v) (h' : BnReturns o' d2 d1 v') : v = v' :=
  IsBottleneck.unique (bottleneck_symm _ _ (bnReturns_isBn ho h1 h2 h)) (bnReturns_isBn ho' h2 h1 h')

/-- **the returned value does not depend on the oracle** (hence not on the hash seed) -/
theorem model_bn_oracle_irrelevant {o o' : Bottleneck.Graph → Bottleneck.Matching} (ho : Bottleneck.OracleMax o)
    (ho' : Bottleneck.OracleMax o') {d1 d2 : List (ℝ × Option ℝ)} (h1 : ProperDgm d1) (h2 : ProperDgm d2) {v v' : ℝ}
    (h : BnReturns o d1 d2 v) (h' : BnReturns o' d1 d2 v') : v = v' :=
  IsBottleneck.unique (bnReturns_isBn ho h1 h2 h) (bnReturns_isBn ho' h1 h2 h')

/-- **triangle inequality of what the code's model returns** -/
theorem model_bn_triangle {o : Bottleneck.Graph → Bottleneck.Matching} (ho : Bottleneck.OracleMax o)
    {d1 d2 d3 : List (ℝ × Option ℝ)} (h1 : ProperDgm d1) (h2 : ProperDgm d2) (h3 : ProperDgm d3)
    {v12 v23 v13 : ℝ} (h12 : BnReturns o d1 d2 v12) (h23 : BnReturns o d2 d3 v23) (h13 : BnReturns o d1 d3 v13) :
    v13 ≤ v12 + v23 :=
  bottleneck_triangle_ineq _ _ _ (bnReturns_isBn ho h1 h2 h12) (bnReturns_isBn ho h2 h3 h23)
    (bnReturns_isBn ho h1 h3 h13)

/-- **triangle inequality, each of the three runs with its own oracle** (three hash seeds): by uniqueness
    of the returned value (`model_bn_oracle_irrelevant`) the runs may be brought to one oracle -/
theorem model_bn_triangle_oracles {o12 o23 o13 : Bottleneck.Graph → Bottleneck.Matching}
    (ho12 : Bottleneck.OracleMax o12) (ho23 : Bottleneck.OracleMax o23) (ho13 : Bottleneck.OracleMax o13)
    {d1 d2 d3 : List (ℝ × Option ℝ)} (h1 : ProperDgm d1) (h2 : ProperDgm d2) (h3 : ProperDgm d3)
    {v12 v23 v13 : ℝ} (h12 : BnReturns o12 d1 d2 v12) (h23 : BnReturns o23 d2 d3 v23)
    (h13 : BnReturns o13 d1 d3 v13) : v13 ≤ v12 + v23 := by
  obtain ⟨w23, hw23, -⟩ := model_bn_is_spec ho12 h2 h3
  obtain ⟨w13, hw13, -⟩ := model_bn_is_spec ho12 h1 h3
  rw [model_bn_oracle_irrelevant ho23 ho12 h2 h3 h23 hw23, model_bn_oracle_irrelevant ho13 ho12 h1 h3 h13 hw13]
  exact model_bn_triangle ho12 h1 h2 h3 h12 hw23 hw13

/-- **non-negativity** -/
theorem model_bn_nonneg {o : Bottleneck.Graph → Bottleneck.Matching} (ho : Bottleneck.OracleMax o)
    {d1 d2 : List (ℝ × Option ℝ)} (h1 : ProperDgm d1) (h2 : ProperDgm d2) {v : ℝ} (h : BnReturns o d1 d2 v) :
    0 ≤ v := (bnReturns_isBn ho h1 h2 h).nonneg

/-! ### Wasserstein -/

/-- the Wasserstein model (with `Real.sqrt`) returned the value `w` -/
def WsReturns (lsa : Wasserstein.Mat ℝ → List (Nat × Nat)) (d1 d2 : Wasserstein.Dgm ℝ) (w : ℝ) : Prop :=
  ∃ rows, Wasserstein.wasserstein Real.sqrt lsa d1 d2
    = .ok ⟨some w, Wasserstein.warned d1, Wasserstein.warned d2, rows⟩

/-- **C02 restated**: the model returns the Wasserstein distance of the finite parts, for every
    assignment solver honouring its contract -/
theorem model_ws_is_spec {lsa : Wasserstein.Mat ℝ → List (Nat × Nat)} (hl : WsLemmas.LsaContract lsa)
    (d1 d2 : Wasserstein.Dgm ℝ) :
    ∃ w, WsReturns lsa d1 d2 w ∧
      IsWs (Wasserstein.finitePart d1).get (Wasserstein.finitePart d2).get w := by
  obtain ⟨w, rows, hr, hs⟩ := C02.wasserstein_eq_spec_real lsa hl d1 d2
  exact ⟨w, ⟨rows, hr⟩, hs⟩

theorem wsReturns_unique {lsa : Wasserstein.Mat ℝ → List (Nat × Nat)} {d1 d2 : Wasserstein.Dgm ℝ} {w w' : ℝ}
    (h : WsReturns lsa d1 d2 w) (h' : WsReturns lsa d1 d2 w') : w = w' := by
  obtain ⟨r, hr⟩ := h
  obtain ⟨r', hr'⟩ := h'
  rw [hr] at hr'
  injection hr' with e
  injection e with e1
  injection e1

theorem wsReturns_isWs {lsa : Wasserstein.Mat ℝ → List (Nat × Nat)} (hl : WsLemmas.LsaContract lsa)
    {d1 d2 : Wasserstein.Dgm ℝ} {w : ℝ} (h : WsReturns lsa d1 d2 w) :
    IsWs (Wasserstein.finitePart d1).get (Wasserstein.finitePart d2).get w := by
  obtain ⟨w', hw', hs⟩ := model_ws_is_spec hl d1 d2
  rwa [wsReturns_unique h hw']

/-- **symmetry of what the code's model returns**, even across two different solvers -/
theorem model_ws_symm {l l' : Wasserstein.Mat ℝ → List (Nat × Nat)} (hl : WsLemmas.LsaContract l)
    (hl' : WsLemmas.LsaContract l') {d1 d2 : Wasserstein.Dgm ℝ} {w w' : ℝ}
    (h : WsReturns l d1 d2 w) (h' : WsReturns l' d2 d1 w') : w = w' :=
  IsMinSum.unique (wasserstein_symm _ _ (wsReturns_isWs hl h)) (wsReturns_isWs hl' h')

/-- **triangle inequality of what the code's model returns** (middle diagram proper) -/
theorem model_ws_triangle {l : Wasserstein.Mat ℝ → List (Nat × Nat)} (hl : WsLemmas.LsaContract l)
    {d1 d2 d3 : Wasserstein.Dgm ℝ} (h2 : ∀ p ∈ Wasserstein.finitePart d2, p.1 ≤ p.2)
    {w12 w23 w13 : ℝ} (h12 : WsReturns l d1 d2 w12) (h23 : WsReturns l d2 d3 w23) (h13 : WsReturns l d1 d3 w13) :
    w13 ≤ w12 + w23 :=
  wasserstein_triangle_ineq _ _ _ (fun j => h2 _ (List.get_mem _ j)) (wsReturns_isWs hl h12)
    (wsReturns_isWs hl h23) (wsReturns_isWs hl h13)

/-- **the returned value does not depend on the assignment solver** -/
theorem model_ws_solver_irrelevant {l l' : Wasserstein.Mat ℝ → List (Nat × Nat)} (hl : WsLemmas.LsaContract l)
    (hl' : WsLemmas.LsaContract l') {d1 d2 : Wasserstein.Dgm ℝ} {w w' : ℝ}
    (h : WsReturns l d1 d2 w) (h' : WsReturns l' d1 d2 w') : w = w' :=
  IsMinSum.unique (wsReturns_isWs hl h) (wsReturns_isWs hl' h')

/-- **triangle inequality, each of the three runs with its own solver** (middle diagram proper): by
    uniqueness of the returned value (`model_ws_solver_irrelevant`) the runs may be brought to one solver -/
theorem model_ws_triangle_solvers {l12 l23 l13 : Wasserstein.Mat ℝ → List (Nat × Nat)}
    (hl12 : WsLemmas.LsaContract l12) (hl23 : WsLemmas.LsaContract l23) (hl13 : WsLemmas.LsaContract l13)
    {d1 d2 d3 : Wasserstein.Dgm ℝ} (h2 : ∀ p ∈ Wasserstein.finitePart d2, p.1 ≤ p.2)
    {w12 w23 w13 : ℝ} (h12 : WsReturns l12 d1 d2 w12) (h23 : WsReturns l23 d2 d3 w23)
    (h13 : WsReturns l13 d1 d3 w13) : w13 ≤ w12 + w23 := by
  obtain ⟨u23, hu23, -⟩ := model_ws_is_spec hl12 d2 d3
  obtain ⟨u13, hu13, -⟩ := model_ws_is_spec hl12 d1 d3
  rw [model_ws_solver_irrelevant hl23 hl12 h23 hu23, model_ws_solver_irrelevant hl13 hl12 h13 hu13]
  exact model_ws_triangle hl12 h2 h12 hu23 hu13

/-! ## The remaining laws of the statement, for what the MODELS return

`Props/C07.lean` states the laws for diagrams indexed by arbitrary types (`Option N` = one more point,
`S ∘ e.symm` = reordered).  The models consume *lists* of raw points `(b, some d)` / `(b, none)`; the
bridge is `Lemmas/MatchingReindex.lean` (the specification value does not depend on the indexing).
Each law below is a corollary of `bnReturns_isBn` / `wsReturns_isWs` and holds for diagrams of any
size, for any oracles / solvers honouring their contracts (two different ones where two runs occur).
Points with a non-finite death (`none`) may be present everywhere: they are dropped by both runs. -/

/-! ### list-level bridges -/

theorem isBn_reindex {M M' N N' : Type} (eM : M ≃ M') (eN : N ≃ N') {S : M → Pt} {S' : M' → Pt}
    {T : N → Pt} {T' : N' → Pt} (hS : ∀ i, S' (eM i) = S i) (hT : ∀ j, T' (eN j) = T j) (d : ℝ) :
    IsBn S' T' d ↔ IsBn S T d :=
  isBottleneck_reindex_iff eM eN
    (fun i j => by show linf (S' (eM i)) (T' (eN j)) = linf (S i) (T j); rw [hS, hT])
    (fun i => by show diagInf (S' (eM i)) = diagInf (S i); rw [hS])
    (fun j => by show diagInf (T' (eN j)) = diagInf (T j); rw [hT]) d

theorem isWs_reindex {M M' N N' : Type} [Fintype M] [Fintype M'] [Fintype N] [Fintype N']
    (eM : M ≃ M') (eN : N ≃ N') {S : M → Pt} {S' : M' → Pt}
    {T : N → Pt} {T' : N' → Pt} (hS : ∀ i, S' (eM i) = S i) (hT : ∀ j, T' (eN j) = T j) (w : ℝ) :
    IsWs S' T' w ↔ IsWs S T w :=
  isMinSum_reindex_iff eM eN
    (fun i j => by show euclid (S' (eM i)) (T' (eN j)) = euclid (S i) (T j); rw [hS, hT])
    (fun i => by show diagL2 (S' (eM i)) = diagL2 (S i); rw [hS])
    (fun j => by show diagL2 (T' (eN j)) = diagL2 (T j); rw [hT]) w

theorem isBn_congr_list {l1 l1' l2 l2' : List Pt} (h1 : l1 = l1') (h2 : l2 = l2') (d : ℝ) :
    IsBn l1.get l2.get d ↔ IsBn l1'.get l2'.get d := by subst h1; subst h2; rfl

theorem isWs_congr_list {l1 l1' l2 l2' : List Pt} (h1 : l1 = l1') (h2 : l2 = l2') (w : ℝ) :
    IsWs l1.get l2.get w ↔ IsWs l1'.get l2'.get w := by subst h1; subst h2; rfl

/-- reordering either list does not change the bottleneck value -/
theorem isBn_perm {l1 l1' l2 l2' : List Pt} (h1 : l1.Perm l1') (h2 : l2.Perm l2') (d : ℝ) :
    IsBn l1'.get l2'.get d ↔ IsBn l1.get l2.get d := by
  obtain ⟨e1, he1⟩ := perm_exists_equiv h1
  obtain ⟨e2, he2⟩ := perm_exists_equiv h2
  exact isBn_reindex e1 e2 he1 he2 d

/-- reordering either list does not change the Wasserstein value -/
theorem isWs_perm {l1 l1' l2 l2' : List Pt} (h1 : l1.Perm l1') (h2 : l2.Perm l2') (w : ℝ) :
    IsWs l1'.get l2'.get w ↔ IsWs l1.get l2.get w := by
  obtain ⟨e1, he1⟩ := perm_exists_equiv h1
  obtain ⟨e2, he2⟩ := perm_exists_equiv h2
  exact isWs_reindex e1 e2 he1 he2 w

theorem isBn_cons_diag {M : Type} (S : M → Pt) (T : List Pt) (a d : ℝ) :
    IsBn S ((a, a) :: T).get d ↔ IsBn S T.get d := by
  rw [← bottleneck_add_diagonal S T.get a d]
  exact isBn_reindex (Equiv.refl M) (consIdx (a, a) T) (fun _ => rfl) (get_consIdx (a, a) T) d

theorem isWs_cons_diag {M : Type} [Fintype M] [DecidableEq M] (S : M → Pt) (T : List Pt) (a w : ℝ) :
    IsWs S ((a, a) :: T).get w ↔ IsWs S T.get w := by
  rw [← wasserstein_add_diagonal S T.get a w]
  exact isWs_reindex (Equiv.refl M) (consIdx (a, a) T) (fun _ => rfl) (get_consIdx (a, a) T) w

/-- any list of diagonal points in front of the second diagram changes nothing (induction on the list) -/
theorem isBn_diag_append {M : Type} (S : M → Pt) (D T : List Pt) (hD : ∀ p ∈ D, p.1 = p.2) (d : ℝ) :
    IsBn S (D ++ T).get d ↔ IsBn S T.get d := by
  induction D with
  | nil => exact Iff.rfl
  | cons p D ih =>
    obtain ⟨a, b⟩ := p
    have hab : a = b := hD (a, b) (by simp)
    subst hab
    rw [List.cons_append, isBn_cons_diag]
    exact ih fun q hq => hD q (List.mem_cons_of_mem _ hq)

theorem isWs_diag_append {M : Type} [Fintype M] [DecidableEq M] (S : M → Pt) (D T : List Pt)
    (hD : ∀ p ∈ D, p.1 = p.2) (w : ℝ) : IsWs S (D ++ T).get w ↔ IsWs S T.get w := by
  induction D with
  | nil => exact Iff.rfl
  | cons p D ih =>
    obtain ⟨a, b⟩ := p
    have hab : a = b := hD (a, b) (by simp)
    subst hab
    rw [List.cons_append, isWs_cons_diag]
    exact ih fun q hq => hD q (List.mem_cons_of_mem _ hq)

/-- two diagrams made of diagonal points only are at bottleneck distance `0` -/
theorem isBn_all_diag {l1 l2 : List Pt} (h1 : ∀ p ∈ l1, p.1 = p.2) (h2 : ∀ p ∈ l2, p.1 = p.2) :
    IsBn l1.get l2.get 0 := by
  have e : IsBn ([] : List Pt).get ([] : List Pt).get 0 := bottleneck_perm_zero_list (List.Perm.refl _)
  have a : IsBn ([] : List Pt).get l1.get 0 :=
    (isBn_congr_list rfl (List.append_nil l1) 0).mp ((isBn_diag_append _ l1 [] h1 0).mpr e)
  have b : IsBn l1.get ([] : List Pt).get 0 := bottleneck_symm _ _ a
  exact (isBn_congr_list rfl (List.append_nil l2) 0).mp ((isBn_diag_append _ l2 [] h2 0).mpr b)

theorem isBn_map (f : Pt → Pt) (l1 l2 : List Pt) (d : ℝ) :
    IsBn (l1.map f).get (l2.map f).get d ↔ IsBn (fun i => f (l1.get i)) (fun j => f (l2.get j)) d :=
  isBn_reindex (mapIdx f l1) (mapIdx f l2) (get_mapIdx f l1) (get_mapIdx f l2) d

theorem isWs_map (f : Pt → Pt) (l1 l2 : List Pt) (w : ℝ) :
    IsWs (l1.map f).get (l2.map f).get w ↔ IsWs (fun i => f (l1.get i)) (fun j => f (l2.get j)) w :=
  isWs_reindex (mapIdx f l1) (mapIdx f l2) (get_mapIdx f l1) (get_mapIdx f l2) w

/-! ### raw diagrams: finite parts of reordered / extended / transformed inputs -/

/-- the two models keep the same points -/
theorem finitePart_eq (d : List (ℝ × Option ℝ)) : Bottleneck.finitePart d = Wasserstein.finitePart d := by
  show List.filterMap _ d = List.filterMap _ d
  congr 1

theorem finitePart_perm {d d' : List (ℝ × Option ℝ)} (h : d.Perm d') :
    (Wasserstein.finitePart d).Perm (Wasserstein.finitePart d') := h.filterMap _

theorem finitePart_cons_some (b e : ℝ) (d : List (ℝ × Option ℝ)) :
    Wasserstein.finitePart ((b, some e) :: d) = (b, e) :: Wasserstein.finitePart d := rfl

/-- apply `f` to every coordinate of a raw diagram (a non-finite death stays non-finite) -/
def mapDgm (f : ℝ → ℝ) (d : List (ℝ × Option ℝ)) : List (ℝ × Option ℝ) :=
  d.map fun p => (f p.1, p.2.map f)

/-- the diagram translated along the diagonal: `dgm + t` -/
def shiftDgm (t : ℝ) : List (ℝ × Option ℝ) → List (ℝ × Option ℝ) := mapDgm (· + t)
/-- the diagram scaled: `l * dgm` -/
def scaleDgm (l : ℝ) : List (ℝ × Option ℝ) → List (ℝ × Option ℝ) := mapDgm (l * ·)

theorem finitePart_mapDgm (f : ℝ → ℝ) (d : List (ℝ × Option ℝ)) :
    Wasserstein.finitePart (mapDgm f d) = (Wasserstein.finitePart d).map fun p => (f p.1, f p.2) := by
  induction d with
  | nil => rfl
  | cons p d ih =>
    rcases p with ⟨b, _ | e⟩
    · simpa [mapDgm, Wasserstein.finitePart] using ih
    · simpa [mapDgm, Wasserstein.finitePart] using ih

theorem properDgm_iff (d : List (ℝ × Option ℝ)) : ProperDgm d ↔ ∀ p ∈ Wasserstein.finitePart d, p.1 ≤ p.2 := by
  unfold ProperDgm; rw [finitePart_eq]

theorem ProperDgm.perm {d d' : List (ℝ × Option ℝ)} (h : ProperDgm d) (hp : d'.Perm d) : ProperDgm d' := by
  rw [properDgm_iff] at h ⊢
  exact fun p hp' => h p ((finitePart_perm hp).subset hp')

theorem ProperDgm.cons_diag {d : List (ℝ × Option ℝ)} (h : ProperDgm d) (a : ℝ) : ProperDgm ((a, some a) :: d) := by
  rw [properDgm_iff] at h ⊢
  intro p hp
  rw [finitePart_cons_some, List.mem_cons] at hp
  rcases hp with rfl | hp
  · exact le_refl _
  · exact h p hp

/-- the raw diagonal points `(a, a)`, `a` in `as` -/
def diagDgm (as : List ℝ) : List (ℝ × Option ℝ) := as.map fun a => (a, some a)

theorem finitePart_diagDgm_append (as : List ℝ) (d : List (ℝ × Option ℝ)) :
    Wasserstein.finitePart (diagDgm as ++ d) = as.map (fun a => (a, a)) ++ Wasserstein.finitePart d := by
  induction as with
  | nil => rfl
  | cons a as ih =>
    show Wasserstein.finitePart ((a, some a) :: (diagDgm as ++ d)) = _
    rw [finitePart_cons_some, ih]
    rfl

theorem diag_map_diag (as : List ℝ) : ∀ p ∈ as.map (fun a => ((a, a) : Pt)), p.1 = p.2 := by
  intro p hp
  obtain ⟨a, -, rfl⟩ := List.mem_map.mp hp
  rfl

theorem ProperDgm.append_diag {d : List (ℝ × Option ℝ)} (h : ProperDgm d) (as : List ℝ) :
    ProperDgm (diagDgm as ++ d) := by
  induction as with
  | nil => exact h
  | cons a as ih => exact ih.cons_diag a

theorem ProperDgm.shift {d : List (ℝ × Option ℝ)} (h : ProperDgm d) (t : ℝ) : ProperDgm (shiftDgm t d) := by
  rw [properDgm_iff] at h ⊢
  intro p hp
  rw [shiftDgm, finitePart_mapDgm, List.mem_map] at hp
  obtain ⟨q, hq, rfl⟩ := hp
  have := h q hq
  show q.1 + t ≤ q.2 + t
  linarith

theorem ProperDgm.scale {d : List (ℝ × Option ℝ)} (h : ProperDgm d) {l : ℝ} (hl : 0 ≤ l) : ProperDgm (scaleDgm l d) := by
  rw [properDgm_iff] at h ⊢
  intro p hp
  rw [scaleDgm, finitePart_mapDgm, List.mem_map] at hp
  obtain ⟨q, hq, rfl⟩ := hp
  exact mul_le_mul_of_nonneg_left (h q hq) hl

/-- `bnReturns_isBn` phrased with the finite part both models share -/
theorem bnReturns_isBn' {oracle : Bottleneck.Graph → Bottleneck.Matching} (ho : Bottleneck.OracleMax oracle)
    {d1 d2 : List (ℝ × Option ℝ)} (h1 : ProperDgm d1) (h2 : ProperDgm d2) {v : ℝ}
    (h : BnReturns oracle d1 d2 v) :
    IsBn (Wasserstein.finitePart d1).get (Wasserstein.finitePart d2).get v :=
  (isBn_congr_list (finitePart_eq d1) (finitePart_eq d2) v).mp (bnReturns_isBn ho h1 h2 h)

/-! ### bottleneck -/

/-- **reordering the inputs does not change the value** (any two oracles) -/
theorem model_bn_perm_invariant {o o' : Bottleneck.Graph → Bottleneck.Matching} (ho : Bottleneck.OracleMax o)
    (ho' : Bottleneck.OracleMax o') {d1 d2 d1' d2' : List (ℝ × Option ℝ)} (h1 : ProperDgm d1) (h2 : ProperDgm d2)
    (p1 : d1'.Perm d1) (p2 : d2'.Perm d2) {v v' : ℝ}
    (h : BnReturns o d1 d2 v) (h' : BnReturns o' d1' d2' v') : v' = v := by
  have a := bnReturns_isBn' ho h1 h2 h
  have b := bnReturns_isBn' ho' (h1.perm p1) (h2.perm p2) h'
  exact IsBottleneck.unique ((isBn_perm (finitePart_perm p1) (finitePart_perm p2) v').mpr b) a

/-- **zero between a diagram and any reordering of itself** (`List.Perm` form) -/
theorem model_bn_reorder_zero {o : Bottleneck.Graph → Bottleneck.Matching} (ho : Bottleneck.OracleMax o)
    {d1 d2 : List (ℝ × Option ℝ)} (h1 : ProperDgm d1) (hp : d1.Perm d2) {v : ℝ}
    (h : BnReturns o d1 d2 v) : v = 0 :=
  IsBottleneck.unique (bnReturns_isBn' ho h1 (h1.perm hp.symm) h) (bottleneck_perm_zero_list (finitePart_perm hp))

/-- **a point on the diagonal added anywhere to the second diagram changes nothing** -/
theorem model_bn_add_diagonal {o o' : Bottleneck.Graph → Bottleneck.Matching} (ho : Bottleneck.OracleMax o)
    (ho' : Bottleneck.OracleMax o') {d1 d2 d2' : List (ℝ × Option ℝ)} (h1 : ProperDgm d1) (h2 : ProperDgm d2)
    (a : ℝ) (hp : d2'.Perm ((a, some a) :: d2)) {v v' : ℝ}
    (h : BnReturns o d1 d2 v) (h' : BnReturns o' d1 d2' v') : v' = v := by
  have a1 := bnReturns_isBn' ho h1 h2 h
  have b := bnReturns_isBn' ho' h1 ((h2.cons_diag a).perm hp) h'
  have b' := (isBn_perm (List.Perm.refl _) (finitePart_perm hp) v').mpr b
  rw [finitePart_cons_some, isBn_cons_diag] at b'
  exact IsBottleneck.unique b' a1

/-- … and to the first diagram -/
theorem model_bn_add_diagonal_left {o o' : Bottleneck.Graph → Bottleneck.Matching} (ho : Bottleneck.OracleMax o)
    (ho' : Bottleneck.OracleMax o') {d1 d1' d2 : List (ℝ × Option ℝ)} (h1 : ProperDgm d1) (h2 : ProperDgm d2)
    (a : ℝ) (hp : d1'.Perm ((a, some a) :: d1)) {v v' : ℝ}
    (h : BnReturns o d1 d2 v) (h' : BnReturns o' d1' d2 v') : v' = v := by
  have a1 := bottleneck_symm _ _ (bnReturns_isBn' ho h1 h2 h)
  have b := bottleneck_symm _ _ (bnReturns_isBn' ho' ((h1.cons_diag a).perm hp) h2 h')
  have b' := (isBn_perm (List.Perm.refl _) (finitePart_perm hp) v').mpr b
  rw [finitePart_cons_some, isBn_cons_diag] at b'
  exact IsBottleneck.unique b' a1

/-- **any list of points on the diagonal added anywhere to the second diagram changes nothing**
    (`d2'` is any reordering of `d2` with the points `(a, a)`, `a ∈ as`, added) -/
theorem model_bn_add_diagonal_list {o o' : Bottleneck.Graph → Bottleneck.Matching} (ho : Bottleneck.OracleMax o)
    (ho' : Bottleneck.OracleMax o') {d1 d2 d2' : List (ℝ × Option ℝ)} (h1 : ProperDgm d1) (h2 : ProperDgm d2)
    (as : List ℝ) (hp : d2'.Perm (diagDgm as ++ d2)) {v v' : ℝ}
    (h : BnReturns o d1 d2 v) (h' : BnReturns o' d1 d2' v') : v' = v := by
  have a1 := bnReturns_isBn' ho h1 h2 h
  have b := bnReturns_isBn' ho' h1 ((h2.append_diag as).perm hp) h'
  have b' := (isBn_perm (List.Perm.refl _) (finitePart_perm hp) v').mpr b
  rw [finitePart_diagDgm_append, isBn_diag_append _ _ _ (diag_map_diag as)] at b'
  exact IsBottleneck.unique b' a1

/-- … and to the first diagram -/
theorem model_bn_add_diagonal_list_left {o o' : Bottleneck.Graph → Bottleneck.Matching} (ho : Bottleneck.OracleMax o)
    (ho' : Bottleneck.OracleMax o') {d1 d1' d2 : List (ℝ × Option ℝ)} (h1 : ProperDgm d1) (h2 : ProperDgm d2)
    (as : List ℝ) (hp : d1'.Perm (diagDgm as ++ d1)) {v v' : ℝ}
    (h : BnReturns o d1 d2 v) (h' : BnReturns o' d1' d2 v') : v' = v := by
  have a1 := bottleneck_symm _ _ (bnReturns_isBn' ho h1 h2 h)
  have b := bottleneck_symm _ _ (bnReturns_isBn' ho' ((h1.append_diag as).perm hp) h2 h')
  have b' := (isBn_perm (List.Perm.refl _) (finitePart_perm hp) v').mpr b
  rw [finitePart_diagDgm_append, isBn_diag_append _ _ _ (diag_map_diag as)] at b'
  exact IsBottleneck.unique b' a1

/-- **translating both diagrams along the diagonal changes nothing** -/
theorem model_bn_translate {o o' : Bottleneck.Graph → Bottleneck.Matching} (ho : Bottleneck.OracleMax o)
    (ho' : Bottleneck.OracleMax o') {d1 d2 : List (ℝ × Option ℝ)} (h1 : ProperDgm d1) (h2 : ProperDgm d2)
    (t : ℝ) {v v' : ℝ} (h : BnReturns o d1 d2 v) (h' : BnReturns o' (shiftDgm t d1) (shiftDgm t d2) v') :
    v' = v := by
  have a := bnReturns_isBn' ho h1 h2 h
  have b := bnReturns_isBn' ho' (h1.shift t) (h2.shift t) h'
  rw [shiftDgm, finitePart_mapDgm, finitePart_mapDgm, isBn_map] at b
  exact IsBottleneck.unique ((bottleneck_translate _ _ t v').mp b) a

/-- **scaling both diagrams by `l > 0` scales the value by `l`** (`C07.bottleneck_scale` asks `0 < l`; the case
    `l = 0` is covered by `model_bn_scale_nonneg` below, which has the `0 ≤ l` guard of `model_ws_scale`) -/
theorem model_bn_scale {o o' : Bottleneck.Graph → Bottleneck.Matching} (ho : Bottleneck.OracleMax o)
    (ho' : Bottleneck.OracleMax o') {d1 d2 : List (ℝ × Option ℝ)} (h1 : ProperDgm d1) (h2 : ProperDgm d2)
    {l : ℝ} (hl : 0 < l) {v v' : ℝ} (h : BnReturns o d1 d2 v) (h' : BnReturns o' (scaleDgm l d1) (scaleDgm l d2) v') :
    v' = l * v := by
  have a := bottleneck_scale _ _ hl (bnReturns_isBn' ho h1 h2 h)
  have b := bnReturns_isBn' ho' (h1.scale hl.le) (h2.scale hl.le) h'
  rw [scaleDgm, finitePart_mapDgm, finitePart_mapDgm, isBn_map] at b
  exact IsBottleneck.unique b a

/-- **against a diagram without finite points** (empty, or only non-finite deaths): the value is the
    least `v ≥ 0` above every `(d - b)/2`, i.e. `max(0, max persistence / 2)` -/
theorem model_bn_vs_empty {o : Bottleneck.Graph → Bottleneck.Matching} (ho : Bottleneck.OracleMax o)
    {d1 d2 : List (ℝ × Option ℝ)} (h1 : ProperDgm d1) (hE : Wasserstein.finitePart d2 = []) {v : ℝ}
    (h : BnReturns o d1 d2 v) :
    (0 ≤ v ∧ ∀ p ∈ Wasserstein.finitePart d1, (p.2 - p.1) / 2 ≤ v) ∧
      ∀ v', 0 ≤ v' → (∀ p ∈ Wasserstein.finitePart d1, (p.2 - p.1) / 2 ≤ v') → v ≤ v' := by
  have h2 : ProperDgm d2 := by rw [properDgm_iff, hE]; intro p hp; cases hp
  have a := bnReturns_isBn' ho h1 h2 h
  have a' := (isBn_congr_list rfl hE v).mp a
  have : IsEmpty (Fin ([] : List Pt).length) := inferInstanceAs (IsEmpty (Fin 0))
  rw [bottleneck_vs_empty] at a'
  obtain ⟨⟨h0, hub⟩, hl⟩ := a'
  refine ⟨⟨h0, fun p hp => ?_⟩, fun v' hv0 hv' => hl v' hv0 fun i => hv' _ (List.get_mem _ i)⟩
  obtain ⟨i, rfl⟩ := List.get_of_mem hp
  exact hub i

/-- **scaling both diagrams by `l ≥ 0` scales the value by `l`**: `model_bn_scale` extended to `l = 0`, where
    both scaled diagrams consist of the diagonal point `(0, 0)` repeated and the model returns `0` -/
theorem model_bn_scale_nonneg {o o' : Bottleneck.Graph → Bottleneck.Matching} (ho : Bottleneck.OracleMax o)
    (ho' : Bottleneck.OracleMax o') {d1 d2 : List (ℝ × Option ℝ)} (h1 : ProperDgm d1) (h2 : ProperDgm d2)
    {l : ℝ} (hl : 0 ≤ l) {v v' : ℝ} (h : BnReturns o d1 d2 v) (h' : BnReturns o' (scaleDgm l d1) (scaleDgm l d2) v') :
    v' = l * v := by
  rcases hl.lt_or_eq with hpos | hzero
  · exact model_bn_scale ho ho' h1 h2 hpos h h'
  · subst hzero
    have b := bnReturns_isBn' ho' (h1.scale le_rfl) (h2.scale le_rfl) h'
    rw [scaleDgm, finitePart_mapDgm, finitePart_mapDgm] at b
    have hd : ∀ (l0 : List Pt), ∀ p ∈ l0.map (fun p => (((0 : ℝ) * p.1, (0 : ℝ) * p.2) : Pt)), p.1 = p.2 := by
      intro l0 p hp
      obtain ⟨q, -, rfl⟩ := List.mem_map.mp hp
      simp
    rw [zero_mul]
    exact IsBottleneck.unique b (isBn_all_diag (hd _) (hd _))

/-- **against a first diagram without finite points** (the left-side form of `model_bn_vs_empty`, by symmetry) -/
theorem model_bn_vs_empty_left {o : Bottleneck.Graph → Bottleneck.Matching} (ho : Bottleneck.OracleMax o)
    {d1 d2 : List (ℝ × Option ℝ)} (h2 : ProperDgm d2) (hE : Wasserstein.finitePart d1 = []) {v : ℝ}
    (h : BnReturns o d1 d2 v) :
    (0 ≤ v ∧ ∀ p ∈ Wasserstein.finitePart d2, (p.2 - p.1) / 2 ≤ v) ∧
      ∀ v', 0 ≤ v' → (∀ p ∈ Wasserstein.finitePart d2, (p.2 - p.1) / 2 ≤ v') → v ≤ v' := by
  have h1 : ProperDgm d1 := by rw [properDgm_iff, hE]; intro p hp; cases hp
  have a := bottleneck_symm _ _ (bnReturns_isBn' ho h1 h2 h)
  have a' := (isBn_congr_list rfl hE v).mp a
  have : IsEmpty (Fin ([] : List Pt).length) := inferInstanceAs (IsEmpty (Fin 0))
  rw [bottleneck_vs_empty] at a'
  obtain ⟨⟨h0, hub⟩, hl⟩ := a'
  refine ⟨⟨h0, fun p hp => ?_⟩, fun v' hv0 hv' => hl v' hv0 fun i => hv' _ (List.get_mem _ i)⟩
  obtain ⟨i, rfl⟩ := List.get_of_mem hp
  exact hub i

/-! ### Wasserstein -/

theorem wsReturns_proper {d : Wasserstein.Dgm ℝ} (h : ∀ p ∈ Wasserstein.finitePart d, p.1 ≤ p.2) :
    Proper (Wasserstein.finitePart d).get := fun i => h _ (List.get_mem _ i)

/-- **non-negativity** -/
theorem model_ws_nonneg {l : Wasserstein.Mat ℝ → List (Nat × Nat)} (hl : WsLemmas.LsaContract l)
    {d1 d2 : Wasserstein.Dgm ℝ} (h1 : ProperDgm d1) (h2 : ProperDgm d2) {w : ℝ} (h : WsReturns l d1 d2 w) :
    0 ≤ w :=
  wasserstein_nonneg _ _ (wsReturns_proper ((properDgm_iff d1).mp h1)) (wsReturns_proper ((properDgm_iff d2).mp h2))
    (wsReturns_isWs hl h)

/-- **reordering the inputs does not change the value** (any two solvers) -/
theorem model_ws_perm_invariant {l l' : Wasserstein.Mat ℝ → List (Nat × Nat)} (hl : WsLemmas.LsaContract l)
    (hl' : WsLemmas.LsaContract l') {d1 d2 d1' d2' : Wasserstein.Dgm ℝ}
    (p1 : d1'.Perm d1) (p2 : d2'.Perm d2) {w w' : ℝ}
    (h : WsReturns l d1 d2 w) (h' : WsReturns l' d1' d2' w') : w' = w :=
  IsMinSum.unique ((isWs_perm (finitePart_perm p1) (finitePart_perm p2) w').mpr (wsReturns_isWs hl' h'))
    (wsReturns_isWs hl h)

/-- **zero between a diagram and any reordering of itself** (`List.Perm` form) -/
theorem model_ws_reorder_zero {l : Wasserstein.Mat ℝ → List (Nat × Nat)} (hl : WsLemmas.LsaContract l)
    {d1 d2 : Wasserstein.Dgm ℝ} (h1 : ProperDgm d1) (hp : d1.Perm d2) {w : ℝ}
    (h : WsReturns l d1 d2 w) : w = 0 :=
  IsMinSum.unique (wsReturns_isWs hl h)
    (wasserstein_perm_zero_list (finitePart_perm hp) ((properDgm_iff d1).mp h1))

/-- **a point on the diagonal added anywhere to the second diagram changes nothing** -/
theorem model_ws_add_diagonal {l l' : Wasserstein.Mat ℝ → List (Nat × Nat)} (hl : WsLemmas.LsaContract l)
    (hl' : WsLemmas.LsaContract l') {d1 d2 d2' : Wasserstein.Dgm ℝ}
    (a : ℝ) (hp : d2'.Perm ((a, some a) :: d2)) {w w' : ℝ}
    (h : WsReturns l d1 d2 w) (h' : WsReturns l' d1 d2' w') : w' = w := by
  have b' := (isWs_perm (List.Perm.refl _) (finitePart_perm hp) w').mpr (wsReturns_isWs hl' h')
  rw [finitePart_cons_some, isWs_cons_diag] at b'
  exact IsMinSum.unique b' (wsReturns_isWs hl h)

/-- … and to the first diagram -/
theorem model_ws_add_diagonal_left {l l' : Wasserstein.Mat ℝ → List (Nat × Nat)} (hl : WsLemmas.LsaContract l)
    (hl' : WsLemmas.LsaContract l') {d1 d1' d2 : Wasserstein.Dgm ℝ}
    (a : ℝ) (hp : d1'.Perm ((a, some a) :: d1)) {w w' : ℝ}
    (h : WsReturns l d1 d2 w) (h' : WsReturns l' d1' d2 w') : w' = w := by
  have b' := (isWs_perm (List.Perm.refl _) (finitePart_perm hp) w').mpr
    (wasserstein_symm _ _ (wsReturns_isWs hl' h'))
  rw [finitePart_cons_some, isWs_cons_diag] at b'
  exact IsMinSum.unique b' (wasserstein_symm _ _ (wsReturns_isWs hl h))

/-- **any list of points on the diagonal added anywhere to the second diagram changes nothing** -/
theorem model_ws_add_diagonal_list {l l' : Wasserstein.Mat ℝ → List (Nat × Nat)} (hl : WsLemmas.LsaContract l)
    (hl' : WsLemmas.LsaContract l') {d1 d2 d2' : Wasserstein.Dgm ℝ}
    (as : List ℝ) (hp : d2'.Perm (diagDgm as ++ d2)) {w w' : ℝ}
    (h : WsReturns l d1 d2 w) (h' : WsReturns l' d1 d2' w') : w' = w := by
  have b' := (isWs_perm (List.Perm.refl _) (finitePart_perm hp) w').mpr (wsReturns_isWs hl' h')
  rw [finitePart_diagDgm_append, isWs_diag_append _ _ _ (diag_map_diag as)] at b'
  exact IsMinSum.unique b' (wsReturns_isWs hl h)

/-- … and to the first diagram -/
theorem model_ws_add_diagonal_list_left {l l' : Wasserstein.Mat ℝ → List (Nat × Nat)} (hl : WsLemmas.LsaContract l)
    (hl' : WsLemmas.LsaContract l') {d1 d1' d2 : Wasserstein.Dgm ℝ}
    (as : List ℝ) (hp : d1'.Perm (diagDgm as ++ d1)) {w w' : ℝ}
    (h : WsReturns l d1 d2 w) (h' : WsReturns l' d1' d2 w') : w' = w := by
  have b' := (isWs_perm (List.Perm.refl _) (finitePart_perm hp) w').mpr
    (wasserstein_symm _ _ (wsReturns_isWs hl' h'))
  rw [finitePart_diagDgm_append, isWs_diag_append _ _ _ (diag_map_diag as)] at b'
  exact IsMinSum.unique b' (wasserstein_symm _ _ (wsReturns_isWs hl h))

/-- **translating both diagrams along the diagonal changes nothing** -/
theorem model_ws_translate {l l' : Wasserstein.Mat ℝ → List (Nat × Nat)} (hl : WsLemmas.LsaContract l)
    (hl' : WsLemmas.LsaContract l') {d1 d2 : Wasserstein.Dgm ℝ}
    (t : ℝ) {w w' : ℝ} (h : WsReturns l d1 d2 w) (h' : WsReturns l' (shiftDgm t d1) (shiftDgm t d2) w') :
    w' = w := by
  have b := wsReturns_isWs hl' h'
  rw [shiftDgm, finitePart_mapDgm, finitePart_mapDgm, isWs_map] at b
  exact IsMinSum.unique ((wasserstein_translate _ _ t w').mp b) (wsReturns_isWs hl h)

/-- **scaling both diagrams by `c ≥ 0` scales the value by `c`** -/
theorem model_ws_scale {l l' : Wasserstein.Mat ℝ → List (Nat × Nat)} (hl : WsLemmas.LsaContract l)
    (hl' : WsLemmas.LsaContract l') {d1 d2 : Wasserstein.Dgm ℝ}
    {c : ℝ} (hc : 0 ≤ c) {w w' : ℝ} (h : WsReturns l d1 d2 w) (h' : WsReturns l' (scaleDgm c d1) (scaleDgm c d2) w') :
    w' = c * w := by
  have b := wsReturns_isWs hl' h'
  rw [scaleDgm, finitePart_mapDgm, finitePart_mapDgm, isWs_map] at b
  exact IsMinSum.unique b (wasserstein_scale _ _ hc (wsReturns_isWs hl h))

/-- **against a diagram without finite points: total persistence / √2** -/
theorem model_ws_vs_empty {l : Wasserstein.Mat ℝ → List (Nat × Nat)} (hl : WsLemmas.LsaContract l)
    {d1 d2 : Wasserstein.Dgm ℝ} (hE : Wasserstein.finitePart d2 = []) {w : ℝ}
    (h : WsReturns l d1 d2 w) :
    w = ((Wasserstein.finitePart d1).map fun p => (p.2 - p.1) / Real.sqrt 2).sum := by
  have a := (isWs_congr_list rfl hE w).mp (wsReturns_isWs hl h)
  have : IsEmpty (Fin ([] : List Pt).length) := inferInstanceAs (IsEmpty (Fin 0))
  have e := IsMinSum.unique a (wasserstein_vs_empty (Wasserstein.finitePart d1).get ([] : List Pt).get)
  rw [e]
  simp only [List.get_eq_getElem]
  exact Fin.sum_univ_fun_getElem (Wasserstein.finitePart d1) fun p => (p.2 - p.1) / Real.sqrt 2

/-- **against a first diagram without finite points** (the left-side form of `model_ws_vs_empty`, by symmetry) -/
theorem model_ws_vs_empty_left {l : Wasserstein.Mat ℝ → List (Nat × Nat)} (hl : WsLemmas.LsaContract l)
    {d1 d2 : Wasserstein.Dgm ℝ} (hE : Wasserstein.finitePart d1 = []) {w : ℝ}
    (h : WsReturns l d1 d2 w) :
    w = ((Wasserstein.finitePart d2).map fun p => (p.2 - p.1) / Real.sqrt 2).sum := by
  have a := (isWs_congr_list rfl hE w).mp (wasserstein_symm _ _ (wsReturns_isWs hl h))
  have : IsEmpty (Fin ([] : List Pt).length) := inferInstanceAs (IsEmpty (Fin 0))
  have e := IsMinSum.unique a (wasserstein_vs_empty (Wasserstein.finitePart d2).get ([] : List Pt).get)
  rw [e]
  simp only [List.get_eq_getElem]
  exact Fin.sum_univ_fun_getElem (Wasserstein.finitePart d2) fun p => (p.2 - p.1) / Real.sqrt 2

/-- **the bottleneck value never exceeds the Wasserstein value** (same inputs, any oracle / solver) -/
theorem model_bn_le_ws {o : Bottleneck.Graph → Bottleneck.Matching} (ho : Bottleneck.OracleMax o)
    {l : Wasserstein.Mat ℝ → List (Nat × Nat)} (hl : WsLemmas.LsaContract l)
    {d1 d2 : List (ℝ × Option ℝ)} (h1 : ProperDgm d1) (h2 : ProperDgm d2) {v w : ℝ}
    (hb : BnReturns o d1 d2 v) (hw : WsReturns l d1 d2 w) : v ≤ w :=
  bottleneck_le_wasserstein _ _ (wsReturns_proper ((properDgm_iff d1).mp h1)) (wsReturns_proper ((properDgm_iff d2).mp h2))
    (bnReturns_isBn' ho h1 h2 hb) (wsReturns_isWs hl hw)

/-! ### non-vacuity: every law is applied to concrete non-trivial inputs whose runs exist

Each `example` below obtains an oracle / a solver honouring the contract (`C01.oracleMax_exists`,
`C02.lsaContract_satisfiable`), obtains the runs of the models on concrete diagrams
(`model_bn_is_spec` / `model_ws_is_spec`: the runs exist), and applies the laws to them — so every hypothesis
of every law is seen to be satisfiable together with the others, on diagrams with several points, a point of
infinite death, reorderings that move points, and added diagonal points placed in the middle. -/

/-- two proper points and a point of infinite death -/
def dgmA : List (ℝ × Option ℝ) := [(0, some 3), (1, some 4), (2, none)]
/-- a proper point -/
def dgmB : List (ℝ × Option ℝ) := [(1, some 2)]
/-- two proper points around a point of infinite death -/
def dgmC : List (ℝ × Option ℝ) := [(0, some 1), (7, none), (2, some 5)]
/-- no finite point at all (emptied by the `isfinite` filter) -/
def dgmE : List (ℝ × Option ℝ) := [(9, none)]
/-- `dgmB` with the diagonal point `(5,5)` behind it -/
def dgmB1 : List (ℝ × Option ℝ) := [(1, some 2), (5, some 5)]
/-- `dgmB` between the diagonal points `(6,6)` and `(5,5)` -/
def dgmB2 : List (ℝ × Option ℝ) := [(6, some 6), (1, some 2), (5, some 5)]
/-- `dgmA` with the diagonal point `(5,5)` in the middle -/
def dgmA1 : List (ℝ × Option ℝ) := [(0, some 3), (5, some 5), (1, some 4), (2, none)]
/-- `dgmA` with the diagonal points `(5,5)`, `(6,6)` in the middle -/
def dgmA2 : List (ℝ × Option ℝ) := [(0, some 3), (5, some 5), (1, some 4), (6, some 6), (2, none)]

theorem dgmA_proper : ProperDgm dgmA := by
  rw [properDgm_iff]; intro p hp
  simp [dgmA, Wasserstein.finitePart] at hp
  rcases hp with rfl | rfl <;> norm_num

theorem dgmB_proper : ProperDgm dgmB := by
  rw [properDgm_iff]; intro p hp
  simp [dgmB, Wasserstein.finitePart] at hp
  subst hp; norm_num

theorem dgmC_proper : ProperDgm dgmC := by
  rw [properDgm_iff]; intro p hp
  simp [dgmC, Wasserstein.finitePart] at hp
  rcases hp with rfl | rfl <;> norm_num

theorem dgmE_proper : ProperDgm dgmE := by
  rw [properDgm_iff]; intro p hp; simp [dgmE, Wasserstein.finitePart] at hp

theorem dgmE_finitePart : Wasserstein.finitePart dgmE = [] := rfl

theorem dgmB1_perm : dgmB1.Perm ((5, some 5) :: dgmB) := List.Perm.swap _ _ _

theorem dgmA1_perm : dgmA1.Perm ((5, some 5) :: dgmA) := List.Perm.swap _ _ _

theorem dgmB2_perm : dgmB2.Perm (diagDgm [5, 6] ++ dgmB) :=
  ((List.Perm.swap ((5 : ℝ), some (5 : ℝ)) (1, some 2) []).cons (6, some 6)).trans (List.Perm.swap _ _ _)

theorem dgmA2_perm : dgmA2.Perm (diagDgm [5, 6] ++ dgmA) :=
  (List.perm_middle (l₁ := [((0 : ℝ), some (3 : ℝ))]) (a := (5, some 5)) (l₂ := [(1, some 4), (6, some 6), (2, none)])).trans
    ((List.perm_middle (l₁ := [((0 : ℝ), some (3 : ℝ)), (1, some 4)]) (a := (6, some 6)) (l₂ := [(2, none)])).cons (5, some 5))

theorem dgmA_reverse_perm : dgmA.reverse.Perm dgmA := List.reverse_perm dgmA

theorem dgmA_reverse_ne : dgmA.reverse ≠ dgmA := by simp [dgmA]

-- `model_bn_is_spec`, `model_bn_symm`, `model_bn_oracle_irrelevant`, `model_bn_triangle`,
-- `model_bn_triangle_oracles`, `model_bn_nonneg`: the metric laws on three different diagrams
example : ∃ (o : Bottleneck.Graph → Bottleneck.Matching) (vAB vBA vBC vAC : ℝ), Bottleneck.OracleMax o ∧
    ProperDgm dgmA ∧ ProperDgm dgmB ∧ ProperDgm dgmC ∧
    BnReturns o dgmA dgmB vAB ∧ BnReturns o dgmB dgmA vBA ∧ BnReturns o dgmB dgmC vBC ∧ BnReturns o dgmA dgmC vAC ∧
    vAB = vBA ∧ vAC ≤ vAB + vBC ∧ 0 ≤ vAB := by
  obtain ⟨o, ho⟩ := C01.oracleMax_exists
  obtain ⟨vAB, hAB, -⟩ := model_bn_is_spec ho dgmA_proper dgmB_proper
  obtain ⟨vBA, hBA, -⟩ := model_bn_is_spec ho dgmB_proper dgmA_proper
  obtain ⟨vBC, hBC, -⟩ := model_bn_is_spec ho dgmB_proper dgmC_proper
  obtain ⟨vAC, hAC, -⟩ := model_bn_is_spec ho dgmA_proper dgmC_proper
  have _h1 : vAB = vAB := model_bn_oracle_irrelevant ho ho dgmA_proper dgmB_proper hAB hAB
  have _h2 : vAC ≤ vAB + vBC := model_bn_triangle_oracles ho ho ho dgmA_proper dgmB_proper dgmC_proper hAB hBC hAC
  exact ⟨o, vAB, vBA, vBC, vAC, ho, dgmA_proper, dgmB_proper, dgmC_proper, hAB, hBA, hBC, hAC,
    model_bn_symm ho ho dgmA_proper dgmB_proper hAB hBA,
    model_bn_triangle ho dgmA_proper dgmB_proper dgmC_proper hAB hBC hAC,
    model_bn_nonneg ho dgmA_proper dgmB_proper hAB⟩

-- `model_bn_reorder_zero`, `model_bn_perm_invariant`: a genuinely different order of `dgmA`; the runs exist
example : ∃ (o : Bottleneck.Graph → Bottleneck.Matching) (v vAB vAB' : ℝ), Bottleneck.OracleMax o ∧ ProperDgm dgmA ∧
    dgmA.Perm dgmA.reverse ∧ dgmA.reverse ≠ dgmA ∧ BnReturns o dgmA dgmA.reverse v ∧ v = 0 ∧
    BnReturns o dgmA dgmB vAB ∧ BnReturns o dgmA.reverse dgmB vAB' ∧ vAB' = vAB := by
  obtain ⟨o, ho⟩ := C01.oracleMax_exists
  have hp : dgmA.Perm dgmA.reverse := dgmA_reverse_perm.symm
  obtain ⟨v, hv, -⟩ := model_bn_is_spec ho dgmA_proper (dgmA_proper.perm hp.symm)
  obtain ⟨vAB, hAB, -⟩ := model_bn_is_spec ho dgmA_proper dgmB_proper
  obtain ⟨vAB', hAB', -⟩ := model_bn_is_spec ho (dgmA_proper.perm hp.symm) dgmB_proper
  exact ⟨o, v, vAB, vAB', ho, dgmA_proper, hp, dgmA_reverse_ne, hv, model_bn_reorder_zero ho dgmA_proper hp hv, hAB,
    hAB', model_bn_perm_invariant ho ho dgmA_proper dgmB_proper hp.symm (List.Perm.refl _) hAB hAB'⟩

-- `model_bn_add_diagonal`, `_left`, `_list`, `_list_left` (the diagonal points inserted in the middle),
-- `model_bn_translate`, `model_bn_scale`, `model_bn_scale_nonneg` at `l = 0`: all runs exist
example : ∃ (o : Bottleneck.Graph → Bottleneck.Matching) (v v1 v1' v1l v1l' v2 v3 v4 : ℝ), Bottleneck.OracleMax o ∧
    BnReturns o dgmA dgmB v ∧ BnReturns o dgmA dgmB1 v1 ∧ BnReturns o dgmA1 dgmB v1' ∧
    BnReturns o dgmA dgmB2 v1l ∧ BnReturns o dgmA2 dgmB v1l' ∧
    BnReturns o (shiftDgm 7 dgmA) (shiftDgm 7 dgmB) v2 ∧ BnReturns o (scaleDgm 3 dgmA) (scaleDgm 3 dgmB) v3 ∧
    BnReturns o (scaleDgm 0 dgmA) (scaleDgm 0 dgmB) v4 ∧
    v1 = v ∧ v1' = v ∧ v1l = v ∧ v1l' = v ∧ v2 = v ∧ v3 = 3 * v ∧ v4 = 0 * v := by
  obtain ⟨o, ho⟩ := C01.oracleMax_exists
  obtain ⟨v, hv, -⟩ := model_bn_is_spec ho dgmA_proper dgmB_proper
  obtain ⟨v1, hv1, -⟩ := model_bn_is_spec ho dgmA_proper ((dgmB_proper.cons_diag 5).perm dgmB1_perm)
  obtain ⟨v1', hv1', -⟩ := model_bn_is_spec ho ((dgmA_proper.cons_diag 5).perm dgmA1_perm) dgmB_proper
  obtain ⟨v1l, hv1l, -⟩ := model_bn_is_spec ho dgmA_proper ((dgmB_proper.append_diag [5, 6]).perm dgmB2_perm)
  obtain ⟨v1l', hv1l', -⟩ := model_bn_is_spec ho ((dgmA_proper.append_diag [5, 6]).perm dgmA2_perm) dgmB_proper
  obtain ⟨v2, hv2, -⟩ := model_bn_is_spec ho (dgmA_proper.shift 7) (dgmB_proper.shift 7)
  obtain ⟨v3, hv3, -⟩ := model_bn_is_spec ho (dgmA_proper.scale (l := 3) (by norm_num)) (dgmB_proper.scale (l := 3) (by norm_num))
  obtain ⟨v4, hv4, -⟩ := model_bn_is_spec ho (dgmA_proper.scale (l := 0) le_rfl) (dgmB_proper.scale (l := 0) le_rfl)
  exact ⟨o, v, v1, v1', v1l, v1l', v2, v3, v4, ho, hv, hv1, hv1', hv1l, hv1l', hv2, hv3, hv4,
    model_bn_add_diagonal ho ho dgmA_proper dgmB_proper 5 dgmB1_perm hv hv1,
    model_bn_add_diagonal_left ho ho dgmA_proper dgmB_proper 5 dgmA1_perm hv hv1',
    model_bn_add_diagonal_list ho ho dgmA_proper dgmB_proper [5, 6] dgmB2_perm hv hv1l,
    model_bn_add_diagonal_list_left ho ho dgmA_proper dgmB_proper [5, 6] dgmA2_perm hv hv1l',
    model_bn_translate ho ho dgmA_proper dgmB_proper 7 hv hv2,
    model_bn_scale ho ho dgmA_proper dgmB_proper (by norm_num) hv hv3,
    model_bn_scale_nonneg ho ho dgmA_proper dgmB_proper le_rfl hv hv4⟩

-- `model_bn_vs_empty`, `model_bn_vs_empty_left`: against a side emptied by the filter the model returns exactly
-- `max persistence / 2 = 3/2`, on either side
example : ∃ (o : Bottleneck.Graph → Bottleneck.Matching) (v0 v0' : ℝ), Bottleneck.OracleMax o ∧
    Wasserstein.finitePart dgmE = [] ∧ BnReturns o dgmA dgmE v0 ∧ BnReturns o dgmE dgmA v0' ∧
    v0 = 3 / 2 ∧ v0' = 3 / 2 := by
  obtain ⟨o, ho⟩ := C01.oracleMax_exists
  obtain ⟨v0, hv0, -⟩ := model_bn_is_spec ho dgmA_proper dgmE_proper
  obtain ⟨v0', hv0', -⟩ := model_bn_is_spec ho dgmE_proper dgmA_proper
  have hfin : ∀ (x : ℝ), (∀ p ∈ Wasserstein.finitePart dgmA, (p.2 - p.1) / 2 ≤ x) ↔ (3 / 2 ≤ x) := by
    intro x
    simp only [dgmA, Wasserstein.finitePart, List.filterMap_cons, List.filterMap_nil, List.mem_cons,
      List.not_mem_nil, or_false, forall_eq_or_imp, forall_eq]
    norm_num
  have key : ∀ v : ℝ, ((0 ≤ v ∧ ∀ p ∈ Wasserstein.finitePart dgmA, (p.2 - p.1) / 2 ≤ v) ∧
      ∀ v', 0 ≤ v' → (∀ p ∈ Wasserstein.finitePart dgmA, (p.2 - p.1) / 2 ≤ v') → v ≤ v') → v = 3 / 2 := by
    rintro v ⟨⟨-, hub⟩, hleast⟩
    exact le_antisymm (hleast (3 / 2) (by norm_num) ((hfin _).mpr le_rfl)) ((hfin v).mp hub)
  exact ⟨o, v0, v0', ho, dgmE_finitePart, hv0, hv0',
    key v0 (model_bn_vs_empty ho dgmA_proper dgmE_finitePart hv0),
    key v0' (model_bn_vs_empty_left ho dgmA_proper dgmE_finitePart hv0')⟩

-- `model_ws_is_spec`, `model_ws_symm`, `model_ws_solver_irrelevant`, `model_ws_triangle`,
-- `model_ws_triangle_solvers` (proper middle diagram `dgmB`), `model_ws_nonneg`, `model_ws_reorder_zero`,
-- `model_ws_perm_invariant`
example : ∃ (l : Wasserstein.Mat ℝ → List (Nat × Nat)) (wAB wBA wBC wAC wAA wAB' : ℝ), WsLemmas.LsaContract l ∧
    WsReturns l dgmA dgmB wAB ∧ WsReturns l dgmB dgmA wBA ∧ WsReturns l dgmB dgmC wBC ∧ WsReturns l dgmA dgmC wAC ∧
    WsReturns l dgmA dgmA.reverse wAA ∧ WsReturns l dgmA.reverse dgmB wAB' ∧
    wAB = wBA ∧ wAC ≤ wAB + wBC ∧ 0 ≤ wAB ∧ wAA = 0 ∧ wAB' = wAB := by
  obtain ⟨l, hl⟩ := C02.lsaContract_satisfiable (K := ℝ)
  obtain ⟨wAB, hAB, -⟩ := model_ws_is_spec hl dgmA dgmB
  obtain ⟨wBA, hBA, -⟩ := model_ws_is_spec hl dgmB dgmA
  obtain ⟨wBC, hBC, -⟩ := model_ws_is_spec hl dgmB dgmC
  obtain ⟨wAC, hAC, -⟩ := model_ws_is_spec hl dgmA dgmC
  obtain ⟨wAA, hAA, -⟩ := model_ws_is_spec hl dgmA dgmA.reverse
  obtain ⟨wAB', hAB', -⟩ := model_ws_is_spec hl dgmA.reverse dgmB
  have hB : ∀ p ∈ Wasserstein.finitePart dgmB, p.1 ≤ p.2 := (properDgm_iff dgmB).mp dgmB_proper
  have _h1 : wAB = wAB := model_ws_solver_irrelevant hl hl hAB hAB
  have _h2 : wAC ≤ wAB + wBC := model_ws_triangle_solvers hl hl hl hB hAB hBC hAC
  exact ⟨l, wAB, wBA, wBC, wAC, wAA, wAB', hl, hAB, hBA, hBC, hAC, hAA, hAB',
    model_ws_symm hl hl hAB hBA, model_ws_triangle hl hB hAB hBC hAC,
    model_ws_nonneg hl dgmA_proper dgmB_proper hAB,
    model_ws_reorder_zero hl dgmA_proper dgmA_reverse_perm.symm hAA,
    model_ws_perm_invariant hl hl dgmA_reverse_perm (List.Perm.refl _) hAB hAB'⟩

-- `model_ws_add_diagonal`, `_left`, `_list`, `_list_left`, `model_ws_translate`, `model_ws_scale` (at `c = 3` and `c = 0`)
example : ∃ (l : Wasserstein.Mat ℝ → List (Nat × Nat)) (w w1 w1' w1l w1l' w2 w3 w4 : ℝ), WsLemmas.LsaContract l ∧
    WsReturns l dgmA dgmB w ∧ WsReturns l dgmA dgmB1 w1 ∧ WsReturns l dgmA1 dgmB w1' ∧
    WsReturns l dgmA dgmB2 w1l ∧ WsReturns l dgmA2 dgmB w1l' ∧
    WsReturns l (shiftDgm 7 dgmA) (shiftDgm 7 dgmB) w2 ∧ WsReturns l (scaleDgm 3 dgmA) (scaleDgm 3 dgmB) w3 ∧
    WsReturns l (scaleDgm 0 dgmA) (scaleDgm 0 dgmB) w4 ∧
    w1 = w ∧ w1' = w ∧ w1l = w ∧ w1l' = w ∧ w2 = w ∧ w3 = 3 * w ∧ w4 = 0 * w := by
  obtain ⟨l, hl⟩ := C02.lsaContract_satisfiable (K := ℝ)
  obtain ⟨w, hw, -⟩ := model_ws_is_spec hl dgmA dgmB
  obtain ⟨w1, hw1, -⟩ := model_ws_is_spec hl dgmA dgmB1
  obtain ⟨w1', hw1', -⟩ := model_ws_is_spec hl dgmA1 dgmB
  obtain ⟨w1l, hw1l, -⟩ := model_ws_is_spec hl dgmA dgmB2
  obtain ⟨w1l', hw1l', -⟩ := model_ws_is_spec hl dgmA2 dgmB
  obtain ⟨w2, hw2, -⟩ := model_ws_is_spec hl (shiftDgm 7 dgmA) (shiftDgm 7 dgmB)
  obtain ⟨w3, hw3, -⟩ := model_ws_is_spec hl (scaleDgm 3 dgmA) (scaleDgm 3 dgmB)
  obtain ⟨w4, hw4, -⟩ := model_ws_is_spec hl (scaleDgm 0 dgmA) (scaleDgm 0 dgmB)
  exact ⟨l, w, w1, w1', w1l, w1l', w2, w3, w4, hl, hw, hw1, hw1', hw1l, hw1l', hw2, hw3, hw4,
    model_ws_add_diagonal hl hl 5 dgmB1_perm hw hw1,
    model_ws_add_diagonal_left hl hl 5 dgmA1_perm hw hw1',
    model_ws_add_diagonal_list hl hl [5, 6] dgmB2_perm hw hw1l,
    model_ws_add_diagonal_list_left hl hl [5, 6] dgmA2_perm hw hw1l',
    model_ws_translate hl hl 7 hw hw2,
    model_ws_scale hl hl (by norm_num) hw hw3,
    model_ws_scale hl hl le_rfl hw hw4⟩

-- `model_bn_le_ws`, `model_ws_vs_empty`, `model_ws_vs_empty_left`: against a side that is emptied by the filter,
-- and bottleneck ≤ Wasserstein, with existing runs
example : ∃ (o : Bottleneck.Graph → Bottleneck.Matching) (l : Wasserstein.Mat ℝ → List (Nat × Nat)) (v w w0 w0' : ℝ),
    BnReturns o dgmA dgmB v ∧ WsReturns l dgmA dgmB w ∧ v ≤ w ∧
    WsReturns l dgmA dgmE w0 ∧ WsReturns l dgmE dgmA w0' ∧
    w0 = (3 - 0) / Real.sqrt 2 + ((4 - 1) / Real.sqrt 2 + 0) ∧
    w0' = (3 - 0) / Real.sqrt 2 + ((4 - 1) / Real.sqrt 2 + 0) := by
  obtain ⟨o, ho⟩ := C01.oracleMax_exists
  obtain ⟨l, hl⟩ := C02.lsaContract_satisfiable (K := ℝ)
  obtain ⟨v, hv, -⟩ := model_bn_is_spec ho dgmA_proper dgmB_proper
  obtain ⟨w, hw, -⟩ := model_ws_is_spec hl dgmA dgmB
  obtain ⟨w0, hw0, -⟩ := model_ws_is_spec hl dgmA dgmE
  obtain ⟨w0', hw0', -⟩ := model_ws_is_spec hl dgmE dgmA
  refine ⟨o, l, v, w, w0, w0', hv, hw, model_bn_le_ws ho hl dgmA_proper dgmB_proper hv hw, hw0, hw0', ?_, ?_⟩
  · rw [model_ws_vs_empty hl dgmE_finitePart hw0]
    simp [dgmA, Wasserstein.finitePart]
  · rw [model_ws_vs_empty_left hl dgmE_finitePart hw0']
    simp [dgmA, Wasserstein.finitePart]

/-! ### `ProperDgm` is necessary: the laws that carry it FAIL for the models on improper inputs

The real code returns `bottleneck([[1,0]],[[1,0]]) = -0.5` and `wasserstein([[1,0]],[[1,0]]) = -1.414…`.  So do
the models, for every oracle / solver honouring its contract. -/

/-- the improper one-point diagram `[(1, 0)]` (birth `1` > death `0`) -/
def dgmImproper : List (ℝ × Option ℝ) := [(1, some 0)]

theorem dgmImproper_not_proper : ¬ ProperDgm dgmImproper := by
  intro h
  have := h (1, 0) (by simp [dgmImproper, Bottleneck.finitePart, Bottleneck.filterFinite])
  norm_num at this

open PersimVerif.Bottleneck in
/-- the anti-diagonal of the augmented matrix `[[0, -1/2], [-1/2, 0]]` is a perfect matching at threshold `-1/2`
    (`C01.guard_needed`, over `ℝ`) -/
private theorem improper_hasPerfect :
    HasPerfect 2 (augD [((1 : ℝ), (0 : ℝ))] [((1 : ℝ), (0 : ℝ))]) (.fin (-1 / 2)) := by
  refine ⟨[(0, 1), (1, 0)], ⟨?_, by decide, by decide⟩, rfl⟩
  intro p hp
  simp only [List.mem_cons, List.mem_nil_iff, or_false] at hp
  rcases hp with rfl | rfl
  · refine (edge_threshold _ _ _ _ _).mpr ⟨by norm_num, by norm_num, ?_⟩
    rw [augD_ur _ _ (by simp) (by simp)]
    simp [diagInf]
  · refine (edge_threshold _ _ _ _ _).mpr ⟨by norm_num, by norm_num, ?_⟩
    rw [augD_ll _ _ (by simp) (by simp)]
    simp [diagInf]

open PersimVerif.Bottleneck in
/-- **`improper_bn_negative`**: on the improper diagram `[(1,0)]` against itself the bottleneck model returns
    `-1/2`, for EVERY oracle honouring the contract (the bisect loop ends at the least candidate whose threshold
    graph has a perfect matching, `C01.bsearch_least`; at `-1/2` the anti-diagonal is one).  So without
    `ProperDgm` non-negativity (`model_bn_nonneg`) fails, and so does zero-on-reordering
    (`model_bn_reorder_zero`: the diagram is a reordering of itself). -/
theorem improper_bn_negative {o : Graph → Matching} (ho : OracleMax o) :
    ¬ ProperDgm dgmImproper ∧ dgmImproper.Perm dgmImproper ∧
      BnReturns o dgmImproper dgmImproper (-1 / 2) ∧ ¬ (0 : ℝ) ≤ -1 / 2 ∧ (-1 / 2 : ℝ) ≠ 0 := by
  refine ⟨dgmImproper_not_proper, List.Perm.refl _, ?_, by norm_num, by norm_num⟩
  obtain ⟨r, mt, hs, hmem, -, hleast, -⟩ := C01.bsearch_least (K := ℝ) ho (n := 2) (by norm_num)
    (augD [((1 : ℝ), (0 : ℝ))] [((1 : ℝ), (0 : ℝ))])
  have hle := hleast _ improper_hasPerfect
  obtain ⟨i, hi, j, hj, hij⟩ := (mem_candidates _ _ _).mp hmem
  have hr : r = .fin (-1 / 2) := by
    have hi' : i = 0 ∨ i = 1 := by omega
    have hj' : j = 0 ∨ j = 1 := by omega
    rcases hi' with rfl | rfl <;> rcases hj' with rfl | rfl
    · rw [augD_ul _ _ (by simp) (by simp)] at hij
      rw [hij] at hle
      have := Ext.fin_le_fin.mp hle
      norm_num [linf] at this
    · rw [augD_ur _ _ (by simp) (by simp)] at hij
      rw [hij]; simp [diagInf]
    · rw [augD_ll _ _ (by simp) (by simp)] at hij
      rw [hij]; simp [diagInf]
    · rw [augD_lr _ _ (by simp) (by simp)] at hij
      rw [hij] at hle
      have := Ext.fin_le_fin.mp hle
      norm_num at this
  subst hr
  refine ⟨⟨.fin (-1 / 2), mt, false, false⟩, ?_, rfl⟩
  have hf : filterFinite dgmImproper = ([((1 : ℝ), (0 : ℝ))], false) := filterFinite_lift [((1 : ℝ), (0 : ℝ))]
  simp only [bottleneck, hf, bottleneckCore, withPlaceholder]
  simp only [List.isEmpty_cons, Bool.false_eq_true, ↓reduceIte, List.length_cons, List.length_nil]
  rw [hs]

/-- two one-point diagrams for which sending both points to the diagonal is at most as expensive as pairing them:
    the Wasserstein value is the sum of the two diagonal costs -/
private theorem isWs_one_one (S T : Fin 1 → Pt) (h : diagL2 (S 0) + diagL2 (T 0) ≤ euclid (S 0) (T 0)) :
    IsWs S T (diagL2 (S 0) + diagL2 (T 0)) := by
  constructor
  · refine ⟨PM.empty, ?_⟩
    simp [PM.sumCost, PM.rowCost, PM.colCost, PM.empty, uW]
  · intro p
    simp only [PM.sumCost, Fin.sum_univ_one, PM.rowCost, PM.colCost]
    cases hf : p.f 0 with
    | none =>
      have hg : p.g 0 = none := by
        cases hg : p.g 0 with
        | none => rfl
        | some i =>
          have hi : i = 0 := Subsingleton.elim _ _
          subst hi
          have := (p.fg 0 0).mpr hg
          rw [hf] at this; cases this
      simp [hg, uW]
    | some j =>
      have hj : j = 0 := Subsingleton.elim _ _
      subst hj
      have hg : p.g 0 = some 0 := (p.fg 0 0).mp hf
      simp only [hg, add_zero]
      exact h

/-- **`improper_ws_negative`**: on the improper diagram `[(1,0)]` against itself the Wasserstein model returns
    `-2/√2 = -√2 ≈ -1.414`, for EVERY solver honouring the contract.  So without `ProperDgm` non-negativity
    (`model_ws_nonneg`) fails, and so does zero-on-reordering (`model_ws_reorder_zero`). -/
theorem improper_ws_negative {l : Wasserstein.Mat ℝ → List (Nat × Nat)} (hl : WsLemmas.LsaContract l) :
    ¬ ProperDgm dgmImproper ∧ dgmImproper.Perm dgmImproper ∧
      ∃ w, WsReturns l dgmImproper dgmImproper w ∧ w = -2 / Real.sqrt 2 ∧ w = -Real.sqrt 2 ∧ w < 0 := by
  refine ⟨dgmImproper_not_proper, List.Perm.refl _, ?_⟩
  obtain ⟨w, hw, hs⟩ := model_ws_is_spec hl dgmImproper dgmImproper
  have hsq : (0 : ℝ) < Real.sqrt 2 := Real.sqrt_pos.mpr (by norm_num)
  have key : IsWs (Wasserstein.finitePart dgmImproper).get (Wasserstein.finitePart dgmImproper).get
      (diagL2 (1, 0) + diagL2 (1, 0)) := by
    refine isWs_one_one (Wasserstein.finitePart dgmImproper).get (Wasserstein.finitePart dgmImproper).get ?_
    show diagL2 (1, 0) + diagL2 (1, 0) ≤ euclid (1, 0) (1, 0)
    rw [euclid_self]
    have : diagL2 (1, 0) < 0 := by
      unfold diagL2
      apply div_neg_of_neg_of_pos _ hsq
      norm_num
    linarith
  have e : w = diagL2 (1, 0) + diagL2 (1, 0) := IsMinSum.unique hs key
  have e2 : w = -2 / Real.sqrt 2 := by rw [e]; unfold diagL2; ring
  refine ⟨w, hw, e2, ?_, ?_⟩
  · rw [e2]
    have := Real.mul_self_sqrt (show (0 : ℝ) ≤ 2 by norm_num)
    field_simp
    linarith
  · rw [e2]; exact div_neg_of_neg_of_pos (by norm_num) hsq

/-- **`improper_bn_le_ws_fails`**: on `[(1,0)]` against itself the bottleneck model returns `-1/2` and the
    Wasserstein model `-√2 < -1/2`: `model_bn_le_ws` fails without `ProperDgm` -/
theorem improper_bn_le_ws_fails {o : Bottleneck.Graph → Bottleneck.Matching} (ho : Bottleneck.OracleMax o)
    {l : Wasserstein.Mat ℝ → List (Nat × Nat)} (hl : WsLemmas.LsaContract l) :
    ∃ v w, BnReturns o dgmImproper dgmImproper v ∧ WsReturns l dgmImproper dgmImproper w ∧ ¬ v ≤ w := by
  obtain ⟨-, -, hv, -, -⟩ := improper_bn_negative ho
  obtain ⟨-, -, w, hw, -, e, -⟩ := improper_ws_negative hl
  refine ⟨_, w, hv, hw, ?_⟩
  rw [e, not_le]
  have h1 : (1 : ℝ) ≤ Real.sqrt 2 := by
    rw [show (1 : ℝ) = Real.sqrt 1 by simp]
    exact Real.sqrt_le_sqrt (by norm_num)
  linarith

/-- **`improper_ws_triangle_fails`**: with the improper `[(1,0)]` as the MIDDLE diagram between two empty
    diagrams, the Wasserstein model returns `0` for the outer pair and `-1/√2` for each leg:
    `model_ws_triangle` fails without properness of the middle diagram -/
theorem improper_ws_triangle_fails {l : Wasserstein.Mat ℝ → List (Nat × Nat)} (hl : WsLemmas.LsaContract l) :
    ∃ w12 w23 w13, WsReturns l [] dgmImproper w12 ∧ WsReturns l dgmImproper [] w23 ∧ WsReturns l [] [] w13 ∧
      ¬ w13 ≤ w12 + w23 := by
  obtain ⟨w12, h12, -⟩ := model_ws_is_spec hl [] dgmImproper
  obtain ⟨w23, h23, -⟩ := model_ws_is_spec hl dgmImproper []
  obtain ⟨w13, h13, -⟩ := model_ws_is_spec hl [] []
  refine ⟨w12, w23, w13, h12, h23, h13, ?_⟩
  have hsq : (0 : ℝ) < Real.sqrt 2 := Real.sqrt_pos.mpr (by norm_num)
  have e12 := model_ws_vs_empty_left hl (d1 := []) (d2 := dgmImproper) rfl h12
  have e23 := model_ws_vs_empty hl (d1 := dgmImproper) (d2 := []) rfl h23
  have e13 := model_ws_vs_empty hl (d1 := []) (d2 := []) rfl h13
  have hneg : ((0 : ℝ) - 1) / Real.sqrt 2 < 0 := div_neg_of_neg_of_pos (by norm_num) hsq
  simp only [dgmImproper, Wasserstein.finitePart, List.filterMap_cons, List.filterMap_nil, List.map_cons,
    List.map_nil, List.sum_cons, List.sum_nil, add_zero] at e12 e23 e13
  rw [e12, e23, e13, not_le]
  linarith

end

end PersimVerif.C07
