import PersimVerif.Model.PNorm
import PersimVerif.Model.PLBase

namespace PersimVerif.C10
open PersimVerif.PNorm

/-- regression witness (exact rationals): the pre-fix formula gives 2/3, the fixed one 4/3 -/
theorem old_crossing_counterexample_rat :
    pNormPowOld (α := Rat) 2 [[(0,0),(1,1),(3,-1),(4,0)]] = 2/3 ∧
    pNormPow (α := Rat) 2 [[(0,0),(1,1),(3,-1),(4,0)]] = 4/3 := by
  decide +kernel

end PersimVerif.C10
