import PersimVerif.Lemmas.PNormSup
import Mathlib.Analysis.SpecialFunctions.Pow.Real
import Mathlib.Tactic.NormNum

/-!
# C10 — landscape p-norms and sup-norm equal the integrals they name

All statements are about `PersimVerif.PNorm` (the model of `_p_norm`, `p_norm`, `sup_norm` of
`persim/landscapes/{auxiliary,base,exact,approximate}.py`) instantiated at `ℝ`, with `evalPL` of
`Model/PLBase.lean` as the piecewise-linear function a list of critical points represents.
Natural `p` only; nothing here is about floating point.  Guard used throughout: strictly increasing
abscissae (`StrictAbsc`), the class invariant of both landscape classes (`wellFormed` implies it).
-/
namespace PersimVerif.C10
open PersimVerif.PNorm PersimVerif.PL PersimVerif.PNormLemmas intervalIntegral MeasureTheory

noncomputable section

/-! ### one segment -/

/-- **segment_integral**: for `x0 < x1` the term the model adds for the segment `(x0,y0)–(x1,y1)` is
    `∫ |line|^p` over it — whichever of the three branches (flat / sign-crossing / one-signed of either
    sign) computes it. -/
theorem segment_integral (p : ℕ) (x0 y0 x1 y1 : ℝ) (hx : x0 < x1) :
    segTermNat p x0 y0 x1 y1 = ∫ t in x0..x1, |y0 + (y1 - y0) * (t - x0) / (x1 - x0)| ^ p :=
  segTermNat_eq_integral p x0 y0 x1 y1 hx

/-- flat branch in closed form -/
theorem segment_integral_flat (p : ℕ) (x0 y x1 : ℝ) :
    segTermNat p x0 y x1 y = |y| ^ p * (x1 - x0) := segTermNat_flat p x0 y x1

/-- sign-crossing branch in closed form (`y0 y1 < 0`): both triangles are added -/
theorem segment_integral_crossing (p : ℕ) (x0 y0 x1 y1 : ℝ) (hx : x0 < x1) (hc : y0 * y1 < 0) :
    segTermNat p x0 y0 x1 y1
      = (x1 - x0) * (|y0| ^ (p + 1) + |y1| ^ (p + 1)) / ((|y0| + |y1|) * (p + 1)) := by
  have hcr : crossing y0 y1 := by
    rcases mul_neg_iff.mp hc with ⟨h0, h1⟩ | ⟨h0, h1⟩
    · exact Or.inr ⟨h0, h1⟩
    · exact Or.inl ⟨h0, h1⟩
  have hd : 0 < x1 - x0 := sub_pos.mpr hx
  rw [segTermNat_cross p x0 y0 x1 y1 hx.ne hcr, abs_div, abs_of_pos hd]
  have hsum : |y1 - y0| = |y0| + |y1| := by
    rcases hcr with ⟨h0, h1⟩ | ⟨h0, h1⟩
    · rw [abs_of_neg h0, abs_of_pos h1, abs_of_pos (by linarith)]; ring
    · rw [abs_of_pos h0, abs_of_neg h1, abs_of_neg (by linarith)]; ring
  have hpos : 0 < |y0| + |y1| := by
    have : y0 ≠ 0 := by rintro rfl; simp at hc
    have := abs_pos.mpr this
    have := abs_nonneg y1
    linarith
  rw [hsum]
  field_simp
  ring

/-- one-signed, non-flat branch in closed form (either sign) -/
theorem segment_integral_one_signed (p : ℕ) (x0 y0 x1 y1 : ℝ) (hy : y0 ≠ y1) (hs : 0 ≤ y0 * y1) :
    segTermNat p x0 y0 x1 y1
      = (x1 - x0) * ((|y1| ^ (p + 1) - |y0| ^ (p + 1)) / (|y1| - |y0|)) / (p + 1) := by
  apply segTermNat_oneSigned p x0 y0 x1 y1 hy
  rintro (⟨h0, h1⟩ | ⟨h0, h1⟩)
  · have := mul_neg_of_neg_of_pos h0 h1; linarith
  · have := mul_neg_of_pos_of_neg h0 h1; linarith

/-- how the code's `-expm1((p+1)·log r)` enters the natural-`p` model: it is `1 − r^(p+1)` for `r > 0` -/
theorem expm1_log_eq (p : ℕ) (r : ℝ) (hr : 0 < r) :
    -(Real.exp (((p + 1 : ℕ) : ℝ) * Real.log r) - 1) = 1 - r ^ (p + 1) := by
  rw [mul_comm, Real.exp_mul, Real.exp_log hr, Real.rpow_natCast]; ring

/-! ### a landscape -/

/-- **pnorm_pow_eq_integral** (support form, every natural `p`): the value `_p_norm` accumulates is the
    sum over depths of `∫ |λ_k|^p` between the first and the last critical abscissa. -/
theorem pnorm_pow_eq_interval_integral (p : ℕ) (cps : List (List (ℝ × ℝ)))
    (hs : ∀ l ∈ cps, StrictAbsc l) :
    pNormPow p cps = (cps.map fun l => ∫ t in firstX l..lastX l, |evalPL l t| ^ p).sum := by
  rw [pNormPow_eq_sum_segSum]
  congr 1
  apply List.map_congr_left
  intro l hl
  exact (segSum_eq_integral p l (hs l hl)).2

/-- **pnorm_pow_eq_integral**: for `p ≥ 1` the accumulated value is `Σ_k ∫_ℝ |λ_k(t)|^p dt`
    (`evalPL` vanishes outside the support).  Hence the norm the code returns is its `p`-th root. -/
theorem pnorm_pow_eq_integral (p : ℕ) (hp : 1 ≤ p) (cps : List (List (ℝ × ℝ)))
    (hs : ∀ l ∈ cps, StrictAbsc l) :
    pNormPow p cps = (cps.map fun l => ∫ t, |evalPL l t| ^ p).sum := by
  rw [pnorm_pow_eq_interval_integral p cps hs]
  congr 1
  apply List.map_congr_left
  intro l hl
  exact integral_absPow_eq p hp l (hs l hl)

/-- the same, indexed by depth -/
theorem pnorm_pow_eq_sum_depths (p : ℕ) (hp : 1 ≤ p) (cps : List (List (ℝ × ℝ)))
    (hs : ∀ l ∈ cps, StrictAbsc l) :
    pNormPow p cps = ∑ k ∈ Finset.range cps.length, ∫ t, |evalDepth cps k t| ^ p := by
  rw [pnorm_pow_eq_integral p hp cps hs]
  clear hs
  induction cps with
  | nil => simp
  | cons l r ih =>
    rw [List.length_cons, Finset.sum_range_succ', List.map_cons, List.sum_cons, ih, add_comm]
    simp [evalDepth]

/-- the value `_p_norm` returns (`root` instantiated with `x ↦ x^(1/p)`) -/
theorem pnorm_eq_root (p : ℕ) (hp : 1 ≤ p) (cps : List (List (ℝ × ℝ)))
    (hs : ∀ l ∈ cps, StrictAbsc l) :
    pNorm (fun r : ℝ => r ^ ((1 : ℝ) / p)) p cps
      = ((cps.map fun l => ∫ t, |evalPL l t| ^ p).sum) ^ ((1 : ℝ) / p) := by
  simp only [pNorm, pnorm_pow_eq_integral p hp cps hs]

/-- finiteness/positivity: the accumulated value is a non-negative real -/
theorem pnorm_pow_nonneg (p : ℕ) (cps : List (List (ℝ × ℝ))) (hs : ∀ l ∈ cps, StrictAbsc l) :
    0 ≤ pNormPow p cps := by
  rw [pnorm_pow_eq_interval_integral p cps hs]
  apply List.sum_nonneg
  intro x hx
  obtain ⟨l, hl, rfl⟩ := List.mem_map.mp hx
  have hle : firstX l ≤ lastX l := by
    cases l with
    | nil => simp [firstX, lastX]
    | cons a r => exact (hs _ hl).le_lastX
  exact integral_nonneg hle (fun _ _ => pow_nonneg (abs_nonneg _) _)

end
end PersimVerif.C10
