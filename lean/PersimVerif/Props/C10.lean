import PersimVerif.Lemmas.PNormSup
import PersimVerif.Lemmas.PNormStab
import PersimVerif.Lemmas.PNormMink
import PersimVerif.Lemmas.PNormReal
import PersimVerif.Lemmas.PNormWf
import Mathlib.Analysis.SpecialFunctions.Pow.Real
import Mathlib.Tactic.NormNum

/-!
# C10 — landscape p-norms and sup-norm equal the integrals they name

All statements are about `PersimVerif.PNorm` (the model of `_p_norm`, `p_norm`, `sup_norm` of
`persim/landscapes/{auxiliary,base,exact,approximate}.py`) instantiated at `ℝ`, with `evalPL` of
`Model/PLBase.lean` as the piecewise-linear function a list of critical points represents.
Nothing here is about floating point.  Guards: the basic statements are proved for strictly increasing
abscissae (`StrictAbsc`; `wellFormed` implies it); the section "the class of C09" at the end restates
them (`…_wf`) for the class `PLArith.WF` = C09's executable guard `wfDepth` — non-empty, zero first and
last ordinate, abscissae non-decreasing where a zero-width step repeats the same point — which is what
C09's operations produce and preserve: it contains `[[b,0],[b,0],[b,0]]` (a bar of zero length) and the
single point `[(x,0)]` (sum of two such depths), both representations of the zero function.  There a
zero-width flat segment contributes `|y|^p · 0 = 0` and the `2 ≤ length` hypothesis of the sup norm is
not needed.
-/
namespace PersimVerif.C10
open PersimVerif.PNorm PersimVerif.PL PersimVerif.PNormLemmas intervalIntegral MeasureTheory

noncomputable section

/-! ### one segment -/

/-- **segment_integral**: for `x0 < x1` the term the model adds for the segment `(x0,y0)–(x1,y1)` is
    `∫ |line|^p` over it — whichever of the three branches (flat / sign-crossing / one-signed of either
    sign) computes it. -/
theorem segment_integral (p : ℕ) (x0 y0 x1 y1 : ℝ) (hx : x0 < x1) :
    segTermNat p x0 y0 x1 y1 = ∫ t in x0..x1, |y0 + (y1 - y0) * (t - x0) / (x1 - x0)| ^ p :=
  segTermNat_eq_integral p x0 y0 x1 y1 hx

/-- flat branch in closed form -/
theorem segment_integral_flat (p : ℕ) (x0 y x1 : ℝ) :
    segTermNat p x0 y x1 y = |y| ^ p * (x1 - x0) := segTermNat_flat p x0 y x1

/-- sign-crossing branch in closed form (`y0 y1 < 0`): both triangles are added -/
theorem segment_integral_crossing (p : ℕ) (x0 y0 x1 y1 : ℝ) (hx : x0 < x1) (hc : y0 * y1 < 0) :
    segTermNat p x0 y0 x1 y1
      = (x1 - x0) * (|y0| ^ (p + 1) + |y1| ^ (p + 1)) / ((|y0| + |y1|) * (p + 1)) := by
  have hcr : crossing y0 y1 := by
    rcases mul_neg_iff.mp hc with ⟨h0, h1⟩ | ⟨h0, h1⟩
    · exact Or.inr ⟨h0, h1⟩
    · exact Or.inl ⟨h0, h1⟩
  have hd : 0 < x1 - x0 := sub_pos.mpr hx
  rw [segTermNat_cross p x0 y0 x1 y1 hx.ne hcr, abs_div, abs_of_pos hd]
  have hsum : |y1 - y0| = |y0| + |y1| := by
    rcases hcr with ⟨h0, h1⟩ | ⟨h0, h1⟩
    · rw [abs_of_neg h0, abs_of_pos h1, abs_of_pos (by linarith)]; ring
    · rw [abs_of_pos h0, abs_of_neg h1, abs_of_neg (by linarith)]; ring
  have hpos : 0 < |y0| + |y1| := by
    have : y0 ≠ 0 := by rintro rfl; simp at hc
    have := abs_pos.mpr this
    have := abs_nonneg y1
    linarith
  rw [hsum]
  field_simp
  ring

/-- one-signed, non-flat branch in closed form (either sign) -/
theorem segment_integral_one_signed (p : ℕ) (x0 y0 x1 y1 : ℝ) (hy : y0 ≠ y1) (hs : 0 ≤ y0 * y1) :
    segTermNat p x0 y0 x1 y1
      = (x1 - x0) * ((|y1| ^ (p + 1) - |y0| ^ (p + 1)) / (|y1| - |y0|)) / (p + 1) := by
  apply segTermNat_oneSigned p x0 y0 x1 y1 hy
  rintro (⟨h0, h1⟩ | ⟨h0, h1⟩)
  · have := mul_neg_of_neg_of_pos h0 h1; linarith
  · have := mul_neg_of_pos_of_neg h0 h1; linarith

/-- how the code's `-expm1((p+1)·log r)` enters the natural-`p` model: it is `1 − r^(p+1)` for `r > 0` -/
theorem expm1_log_eq (p : ℕ) (r : ℝ) (hr : 0 < r) :
    -(Real.exp (((p + 1 : ℕ) : ℝ) * Real.log r) - 1) = 1 - r ^ (p + 1) := by
  rw [mul_comm, Real.exp_mul, Real.exp_log hr, Real.rpow_natCast]; ring

/-! ### a landscape -/

/-- **pnorm_pow_eq_integral** (support form, every natural `p`): the value `_p_norm` accumulates is the
    sum over depths of `∫ |λ_k|^p` between the first and the last critical abscissa. -/
theorem pnorm_pow_eq_interval_integral (p : ℕ) (cps : List (List (ℝ × ℝ)))
    (hs : ∀ l ∈ cps, StrictAbsc l) :
    pNormPow p cps = (cps.map fun l => ∫ t in firstX l..lastX l, |evalPL l t| ^ p).sum := by
  rw [pNormPow_eq_sum_segSum]
  congr 1
  apply List.map_congr_left
  intro l hl
  exact (segSum_eq_integral p l (hs l hl)).2

/-- **pnorm_pow_eq_integral**: for `p ≥ 1` the accumulated value is `Σ_k ∫_ℝ |λ_k(t)|^p dt`
    (`evalPL` vanishes outside the support).  Hence the norm the code returns is its `p`-th root. -/
theorem pnorm_pow_eq_integral (p : ℕ) (hp : 1 ≤ p) (cps : List (List (ℝ × ℝ)))
    (hs : ∀ l ∈ cps, StrictAbsc l) :
    pNormPow p cps = (cps.map fun l => ∫ t, |evalPL l t| ^ p).sum := by
  rw [pnorm_pow_eq_interval_integral p cps hs]
  congr 1
  apply List.map_congr_left
  intro l hl
  exact integral_absPow_eq p hp l (hs l hl)

/-- the same, indexed by depth -/
theorem pnorm_pow_eq_sum_depths (p : ℕ) (hp : 1 ≤ p) (cps : List (List (ℝ × ℝ)))
    (hs : ∀ l ∈ cps, StrictAbsc l) :
    pNormPow p cps = ∑ k ∈ Finset.range cps.length, ∫ t, |evalDepth cps k t| ^ p := by
  rw [pnorm_pow_eq_integral p hp cps hs]
  clear hs
  induction cps with
  | nil => simp
  | cons l r ih =>
    rw [List.length_cons, Finset.sum_range_succ', List.map_cons, List.sum_cons, ih, add_comm]
    simp [evalDepth]

/-- the value `_p_norm` returns (`root` instantiated with `x ↦ x^(1/p)`) -/
theorem pnorm_eq_root (p : ℕ) (hp : 1 ≤ p) (cps : List (List (ℝ × ℝ)))
    (hs : ∀ l ∈ cps, StrictAbsc l) :
    pNorm (fun r : ℝ => r ^ ((1 : ℝ) / p)) p cps
      = ((cps.map fun l => ∫ t, |evalPL l t| ^ p).sum) ^ ((1 : ℝ) / p) := by
  simp only [pNorm, pnorm_pow_eq_integral p hp cps hs]

/-- finiteness/positivity: the accumulated value is a non-negative real -/
theorem pnorm_pow_nonneg (p : ℕ) (cps : List (List (ℝ × ℝ))) (hs : ∀ l ∈ cps, StrictAbsc l) :
    0 ≤ pNormPow p cps := by
  rw [pnorm_pow_eq_interval_integral p cps hs]
  apply List.sum_nonneg
  intro x hx
  obtain ⟨l, hl, rfl⟩ := List.mem_map.mp hx
  have hle : firstX l ≤ lastX l := by
    cases l with
    | nil => simp [firstX, lastX]
    | cons a r => exact (hs _ hl).le_lastX
  exact integral_nonneg hle (fun _ _ => pow_nonneg (abs_nonneg _) _)

/-! ### the guard -/

private theorem strictAbsc_cons_cons {a b : ℝ × ℝ} {r : List (ℝ × ℝ)} (hab : a.1 < b.1)
    (h : StrictAbsc (b :: r)) : StrictAbsc (a :: b :: r) := by
  refine List.pairwise_cons.mpr ⟨?_, h⟩
  intro c hc
  rcases List.mem_cons.mp hc with rfl | hc
  · exact hab
  · exact hab.trans ((List.pairwise_cons.mp h).1 c hc)

/-- the shared well-formedness predicate of `Model/PLBase.lean` implies the guard used here -/
theorem strictAbsc_of_wellFormed (l : List (ℝ × ℝ)) (h : wellFormed l = true) : StrictAbsc l := by
  have hz : (l.zip l.tail).all (fun (p, q) => decide (p.1 < q.1)) = true := by
    match l, h with
    | a :: b :: r, h =>
      simp only [wellFormed, Bool.and_eq_true] at h
      exact h.2
  clear h
  induction l with
  | nil => exact List.Pairwise.nil
  | cons a r ih =>
    cases r with
    | nil => exact List.pairwise_singleton _ _
    | cons b r' =>
      simp only [List.tail_cons, List.zip_cons_cons, List.all_cons, Bool.and_eq_true,
        decide_eq_true_eq] at hz
      exact strictAbsc_cons_cons hz.1 (ih (by simpa using hz.2))

/-- non-vacuity: the regression input of fix 5bfdf8b (a sign-changing function) is well-formed -/
example : wellFormed ([(0, 0), (1, 1), (3, -1), (4, 0)] : List (ℝ × ℝ)) = true := by
  simp [wellFormed]; norm_num

example : StrictAbsc [(0, 0), (1, 1), (3, -1), (4, 0)] :=
  strictAbsc_of_wellFormed _ (by simp [wellFormed]; norm_num)

/-! ### sup norm -/

/-- **sup_eq_max_abs** (one depth function): with at least two critical points and strictly increasing
    abscissae, the largest magnitude `m` of the critical values is the greatest value of `|evalPL l|`;
    it is attained at a breakpoint, and `⨆ t, |evalPL l t| = m`. -/
theorem sup_eq_max_abs (l : List (ℝ × ℝ)) (hs : StrictAbsc l) (h2 : 2 ≤ l.length) (m : ℝ)
    (hm : IsGreatest {v | ∃ pt ∈ l, v = |pt.2|} m) :
    IsGreatest (Set.range fun t => |evalPL l t|) m ∧ (⨆ t, |evalPL l t|) = m ∧
      ∃ pt ∈ l, |evalPL l pt.1| = m := by
  obtain ⟨⟨pt, hpt, rfl⟩, hub⟩ := hm
  have hG : IsGreatest (Set.range fun t => |evalPL l t|) |pt.2| := by
    constructor
    · exact ⟨pt.1, by simp only [evalPL_at_breakpoint l hs h2 pt hpt]⟩
    · rintro v ⟨t, rfl⟩
      exact evalPL_abs_le l hs _ (abs_nonneg _) (fun q hq => hub ⟨q, hq, rfl⟩) t
  exact ⟨hG, hG.csSup_eq, pt, hpt, by rw [evalPL_at_breakpoint l hs h2 pt hpt]⟩

/-- **`PersLandscapeExact.sup_norm`**: whenever the model returns `m`, `m` is the greatest value of
    `|λ_k(t)|` over all depths `k` and all real `t` (so it equals `⨆ k t, |λ_k(t)|`). -/
theorem supNormExact_eq (cps : List (List (ℝ × ℝ))) (hwf : ∀ l ∈ cps, StrictAbsc l ∧ 2 ≤ l.length)
    (m : ℝ) (h : supNormExact cps = .ok m) :
    IsGreatest (absValues cps) m ∧ (⨆ kt : ℕ × ℝ, |evalDepth cps kt.1 kt.2|) = m := by
  have hspec : m ∈ (cps.flatten.map fun pt => |pt.2|) ∧ ∀ x ∈ (cps.flatten.map fun pt => |pt.2|), x ≤ m := by
    unfold supNormExact at h
    have e : (cps.flatten.map fun pt => absA pt.2) = cps.flatten.map fun pt => |pt.2| := by
      simp only [absA_eq_abs]
    rw [e] at h
    cases hp : pyMax (cps.flatten.map fun pt => |pt.2|) with
    | none => rw [hp] at h; cases h
    | some m' =>
      rw [hp] at h
      injection h with h
      subst h
      exact pyMax_spec _ _ hp
  have hG := isGreatest_absValues cps hwf m hspec.1 hspec.2
  exact ⟨hG, hG.csSup_eq⟩

/-- the exact sup norm raises exactly on a landscape without critical points -/
theorem supNormExact_error (cps : List (List (ℝ × ℝ))) :
    supNormExact cps = .error .valueError ↔ cps.flatten = [] := by
  unfold supNormExact
  cases hf : cps.flatten with
  | nil => simp [pyMax]
  | cons a r => simp [pyMax]

/-- **`PersLandscapeApprox.sup_norm`** (`np.max(np.abs(values))`): for a strictly increasing grid with
    at least two nodes and rows as long as the grid, the returned value is the greatest value of the
    interpolated functions `values_to_pairs` represents. -/
theorem supNormApprox_eq (grid : List ℝ) (vals : List (List ℝ)) (hg : grid.Pairwise (· < ·))
    (hg2 : 2 ≤ grid.length) (hrows : ∀ row ∈ vals, row.length = grid.length)
    (m : ℝ) (h : supNormApprox vals = .ok m) :
    IsGreatest (absValues (valuesToPairs grid vals)) m := by
  have hflat : ((valuesToPairs grid vals).flatten.map fun pt => |pt.2|) = vals.flatten.map absA := by
    unfold valuesToPairs
    clear h
    induction vals with
    | nil => simp
    | cons row r ih =>
      simp only [List.map_cons, List.flatten_cons, List.map_append]
      rw [ih (fun row' h' => hrows row' (List.mem_cons_of_mem _ h'))]
      congr 1
      have hl : row.length ≤ grid.length := (hrows row (by simp)).le
      have : (grid.zip row).map (fun pt => |pt.2|) = ((grid.zip row).map Prod.snd).map absA := by
        simp [absA_eq_abs, Function.comp_def]
      rw [this, List.map_snd_zip hl]
  have hwf : ∀ l ∈ valuesToPairs grid vals, StrictAbsc l ∧ 2 ≤ l.length := by
    intro l hl
    obtain ⟨row, hrow, rfl⟩ := List.mem_map.mp hl
    have hlen := hrows row hrow
    refine ⟨?_, by simp [List.length_zip, hlen]; exact hg2⟩
    unfold StrictAbsc
    have : ((grid.zip row).map Prod.fst).Pairwise (· < ·) := by
      rw [List.map_fst_zip (by omega)]; exact hg
    exact List.pairwise_map.mp this
  unfold supNormApprox at h
  cases hv : vals.flatten.map absA with
  | nil => rw [hv] at h; cases h
  | cons a rest =>
    rw [hv] at h
    injection h with h
    subst h
    have hspec := foldl_max_spec rest a
    exact isGreatest_absValues _ hwf _ (by rw [hflat, hv]; exact hspec.1) (by rw [hflat, hv]; exact hspec.2)

/-- non-vacuity: the model's exact sup norm on the sign-changing regression input -/
example : supNormExact ([[(0, 0), (1, 1), (3, -3/2), (4, 0)]] : List (List (ℝ × ℝ))) = .ok (3/2) := by
  simp [supNormExact, pyMax, absA]; norm_num

/-! ### consequences: homogeneity, `‖P − P‖ = 0` -/

theorem evalPL_scale (c : ℝ) (l : List (ℝ × ℝ)) (t : ℝ) :
    evalPL (l.map fun pt => (pt.1, c * pt.2)) t = c * evalPL l t := by
  induction l with
  | nil => simp [evalPL]
  | cons a r ih =>
    cases r with
    | nil => simp [evalPL]
    | cons b r' =>
      obtain ⟨x0, y0⟩ := a
      obtain ⟨x1, y1⟩ := b
      simp only [List.map_cons] at ih ⊢
      rw [evalPL_cons_cons, evalPL_cons_cons, ih]
      split_ifs
      · simp
      · simp only [segLine]; ring
      · rfl

private theorem firstX_scale (c : ℝ) (l : List (ℝ × ℝ)) :
    firstX (l.map fun pt => (pt.1, c * pt.2)) = firstX l := by
  cases l <;> rfl

private theorem lastX_scale (c : ℝ) (l : List (ℝ × ℝ)) :
    lastX (l.map fun pt => (pt.1, c * pt.2)) = lastX l := by
  induction l with
  | nil => rfl
  | cons a r ih =>
    cases r with
    | nil => rfl
    | cons b r' => simpa [lastX] using ih

theorem strictAbsc_scale (c : ℝ) (l : List (ℝ × ℝ)) (h : StrictAbsc l) :
    StrictAbsc (l.map fun pt => (pt.1, c * pt.2)) := by
  unfold StrictAbsc at h ⊢
  exact List.pairwise_map.mpr h

/-- **pnorm_homogeneous**: multiplying a landscape by `c` (as `__mul__` does: every critical value is
    multiplied) multiplies the accumulated value by `|c|^p`, i.e. the norm by `|c|` — for every real `c`,
    negative and zero included. -/
theorem pnorm_homogeneous (p : ℕ) (c : ℝ) (cps : List (List (ℝ × ℝ))) (hs : ∀ l ∈ cps, StrictAbsc l) :
    pNormPow p (scaleCps c cps) = |c| ^ p * pNormPow p cps := by
  have hs' : ∀ l ∈ scaleCps c cps, StrictAbsc l := by
    intro l hl
    obtain ⟨l0, hl0, rfl⟩ := List.mem_map.mp hl
    exact strictAbsc_scale c l0 (hs l0 hl0)
  rw [pnorm_pow_eq_interval_integral p _ hs', pnorm_pow_eq_interval_integral p cps hs]
  unfold scaleCps
  rw [List.map_map, ← List.sum_map_mul_left]
  congr 1
  apply List.map_congr_left
  intro l _
  simp only [Function.comp, firstX_scale, lastX_scale, evalPL_scale, abs_mul, mul_pow]
  rw [intervalIntegral.integral_const_mul]

/-- the sup norm is absolutely homogeneous as well -/
theorem supNorm_homogeneous (c : ℝ) (cps : List (List (ℝ × ℝ))) (m : ℝ) (h : supNormExact cps = .ok m) :
    supNormExact (scaleCps c cps) = .ok (|c| * m) := by
  have key : ∀ cps' : List (List (ℝ × ℝ)), ∀ m', supNormExact cps' = .ok m' →
      m' ∈ (cps'.flatten.map fun pt => |pt.2|) ∧ ∀ x ∈ (cps'.flatten.map fun pt => |pt.2|), x ≤ m' := by
    intro cps' m' h'
    unfold supNormExact at h'
    have e : (cps'.flatten.map fun pt => absA pt.2) = cps'.flatten.map fun pt => |pt.2| := by
      simp only [absA_eq_abs]
    rw [e] at h'
    cases hp : pyMax (cps'.flatten.map fun pt => |pt.2|) with
    | none => rw [hp] at h'; cases h'
    | some m'' => rw [hp] at h'; injection h' with h'; subst h'; exact pyMax_spec _ _ hp
  have hlist : ((scaleCps c cps).flatten.map fun pt => |pt.2|)
      = (cps.flatten.map fun pt => |pt.2|).map (|c| * ·) := by
    unfold scaleCps
    induction cps with
    | nil => simp
    | cons l r ih => simp [abs_mul, Function.comp_def]
  obtain ⟨hm, hub⟩ := key cps m h
  cases hsc : supNormExact (scaleCps c cps) with
  | error e =>
    exfalso
    unfold supNormExact at hsc
    have e' : ((scaleCps c cps).flatten.map fun pt => absA pt.2)
        = (scaleCps c cps).flatten.map fun pt => |pt.2| := by simp only [absA_eq_abs]
    rw [e', hlist] at hsc
    obtain ⟨x, hx, _⟩ := List.mem_map.mp (List.mem_map.mpr ⟨m, hm, rfl⟩ : |c| * m ∈ _)
    cases hl : (cps.flatten.map fun pt => |pt.2|) with
    | nil => rw [hl] at hx; cases hx
    | cons a r => rw [hl] at hsc; simp [pyMax] at hsc
  | ok m' =>
    obtain ⟨hm', hub'⟩ := key _ m' hsc
    rw [hlist] at hm' hub'
    obtain ⟨x, hx, rfl⟩ := List.mem_map.mp hm'
    have h1 : |c| * x ≤ |c| * m := mul_le_mul_of_nonneg_left (hub x hx) (abs_nonneg c)
    have h2 : |c| * m ≤ |c| * x := hub' _ (List.mem_map.mpr ⟨m, hm, rfl⟩)
    rw [le_antisymm h1 h2]

private theorem mem_segs {l : List (ℝ × ℝ)} {s : (ℝ × ℝ) × (ℝ × ℝ)} (h : s ∈ segs l) :
    s.1 ∈ l ∧ s.2 ∈ l := by
  induction l with
  | nil => simp [segs] at h
  | cons a r ih =>
    cases r with
    | nil => simp [segs] at h
    | cons b r' =>
      simp only [segs, List.mem_cons] at h
      rcases h with rfl | h
      · simp
      · have := ih h
        exact ⟨List.mem_cons_of_mem _ this.1, List.mem_cons_of_mem _ this.2⟩

/-- **pnorm_self_sub_zero**: on the landscape `P − P` (every critical value is `0`) the accumulated
    value, hence the norm, is `0` for every `p ≥ 1`. -/
theorem pnorm_self_sub_zero (p : ℕ) (hp : 1 ≤ p) (cps : List (List (ℝ × ℝ)))
    (hz : ∀ l ∈ cps, ∀ pt ∈ l, pt.2 = 0) : pNormPow p cps = 0 := by
  rw [pNormPow_eq_sum_segSum]
  apply List.sum_eq_zero
  intro x hx
  obtain ⟨l, hl, rfl⟩ := List.mem_map.mp hx
  unfold segSum
  apply List.sum_eq_zero
  intro y hy
  obtain ⟨s, hs, rfl⟩ := List.mem_map.mp hy
  obtain ⟨h1, h2⟩ := mem_segs hs
  rw [hz l hl s.1 h1, hz l hl s.2 h2, segTermNat_flat]
  have : p ≠ 0 := by omega
  simp [this]

/-- the same from the function's point of view: a landscape whose depth functions all vanish has norm 0 -/
theorem pnorm_zero_of_eval_zero (p : ℕ) (hp : 1 ≤ p) (cps : List (List (ℝ × ℝ)))
    (hs : ∀ l ∈ cps, StrictAbsc l) (hz : ∀ l ∈ cps, ∀ t, evalPL l t = 0) : pNormPow p cps = 0 := by
  rw [pnorm_pow_eq_integral p hp cps hs]
  apply List.sum_eq_zero
  intro x hx
  obtain ⟨l, hl, rfl⟩ := List.mem_map.mp hx
  have : p ≠ 0 := by omega
  simp [hz l hl, this]

/-- and its sup norm is `0` -/
theorem supNorm_self_sub_zero (cps : List (List (ℝ × ℝ))) (hz : ∀ l ∈ cps, ∀ pt ∈ l, pt.2 = 0)
    (m : ℝ) (h : supNormExact cps = .ok m) : m = 0 := by
  unfold supNormExact at h
  cases hp : pyMax (cps.flatten.map fun pt => absA pt.2) with
  | none => rw [hp] at h; cases h
  | some m' =>
    rw [hp] at h; injection h with h; subst h
    obtain ⟨pt, hpt, rfl⟩ := List.mem_map.mp (pyMax_spec _ _ hp).1
    obtain ⟨l, hl, hptl⟩ := List.mem_flatten.mp hpt
    simp [absA_eq_abs, hz l hl pt hptl]

/-! ### regression witness for the code before fix 5bfdf8b -/

/-- **old_crossing_counterexample**: on `[(0,0),(1,1),(3,−1),(4,0)]`, `p = 2`, the pre-fix formula
    accumulates `2/3` (the crossing segment contributes `|1/3 − 1/3| = 0`), the fixed one `4/3`, and
    `4/3` is the integral of `|f|²`. -/
theorem old_crossing_counterexample :
    pNormPowOld 2 ([[(0, 0), (1, 1), (3, -1), (4, 0)]] : List (List (ℝ × ℝ))) = 2 / 3 ∧
    pNormPow 2 ([[(0, 0), (1, 1), (3, -1), (4, 0)]] : List (List (ℝ × ℝ))) = 4 / 3 ∧
    ∫ t, |evalPL ([(0, 0), (1, 1), (3, -1), (4, 0)] : List (ℝ × ℝ)) t| ^ 2 = 4 / 3 := by
  have h2 : pNormPow 2 ([[(0, 0), (1, 1), (3, -1), (4, 0)]] : List (List (ℝ × ℝ))) = 4 / 3 := by
    simp only [pNormPow, pNormPowGen, accumulate, segTerms, segs, segTerm, sortedAbs, absA, List.flatMap_cons,
      List.flatMap_nil, List.map_cons, List.map_nil, List.append_nil, List.foldl_cons, List.foldl_nil]
    norm_num
  refine ⟨?_, h2, ?_⟩
  · simp only [pNormPowOld, pNormPowOldGen, accumulate, segTerms, segs, segTermOld, absA, List.flatMap_cons,
      List.flatMap_nil, List.map_cons, List.map_nil, List.append_nil, List.foldl_cons, List.foldl_nil]
    norm_num
  · have hs : ∀ l ∈ ([[(0, 0), (1, 1), (3, -1), (4, 0)]] : List (List (ℝ × ℝ))), StrictAbsc l := by
      intro l hl
      rw [List.mem_singleton.mp hl]
      exact strictAbsc_of_wellFormed _ (by simp [wellFormed]; norm_num)
    have := pnorm_pow_eq_integral 2 (by norm_num) _ hs
    rw [h2] at this
    simpa using this.symm

/-- the same witness over the exact rationals the driver computes with (kernel evaluation) -/
theorem old_crossing_counterexample_rat :
    pNormPowOld (α := Rat) 2 [[(0, 0), (1, 1), (3, -1), (4, 0)]] = 2 / 3 ∧
    pNormPow (α := Rat) 2 [[(0, 0), (1, 1), (3, -1), (4, 0)]] = 4 / 3 := by
  decide +kernel

/-! ### argument validation (base.py:41-45) -/

/-- **p_validation**: exactly `p < −1` and `−1 < p < 0` are rejected; `p = −1` selects the sup-norm
    branch of the base class; every `p ≥ 0` (in particular every `p ≥ 1`) is a norm exponent. -/
theorem p_validation (p : ℝ) :
    (checkP p = .reject ↔ p < -1 ∨ (-1 < p ∧ p < 0)) ∧ (checkP p = .sup ↔ p = -1) ∧
      (checkP p = .norm ↔ 0 ≤ p) := by
  unfold checkP
  by_cases h1 : p < -1 ∨ (-1 < p ∧ p < 0)
  · rw [if_pos h1]
    refine ⟨by simp [h1], ?_, ?_⟩
    · constructor
      · intro h; cases h
      · rintro rfl; rcases h1 with h | ⟨h, _⟩ <;> exact absurd h (lt_irrefl _)
    · constructor
      · intro h; cases h
      · intro h0; rcases h1 with h | ⟨_, h⟩ <;> linarith
  · rw [if_neg h1]
    push Not at h1
    by_cases h2 : p = -1
    · subst h2
      simp
    · have hb : ¬ ((p == -1) = true) := by simpa using h2
      rw [if_neg hb]
      have h0 : 0 ≤ p := by
        rcases lt_or_gt_of_ne h2 with h | h
        · linarith [h1.1]
        · exact h1.2 h
      refine ⟨?_, by simp [h2], by simp [h0]⟩
      constructor
      · intro h; cases h
      · rintro (h | ⟨_, h⟩) <;> linarith

/-- the public method raises `ValueError` exactly on the rejected exponents … -/
theorem pNormMethod_rejects (root powP powP1 osp : ℝ → ℝ) (p : ℝ) (cps : List (List (ℝ × ℝ))) :
    pNormMethod root powP powP1 osp p cps = .error .valueError ↔ p < -1 ∨ (-1 < p ∧ p < 0) := by
  rw [← (p_validation p).1]
  unfold pNormMethod
  cases hc : checkP p <;> simp <;> split_ifs <;> simp

/-- … and for `p ≥ 1` on a landscape without vertical segments it returns the root of the accumulated value -/
theorem pNormMethod_accepts (root powP powP1 osp : ℝ → ℝ) (p : ℝ) (hp : 1 ≤ p)
    (cps : List (List (ℝ × ℝ))) (hv : hasVerticalSeg cps = false) :
    pNormMethod root powP powP1 osp p cps = .ok (root (pNormPowGen powP powP1 osp (p + 1) cps)) := by
  have hn : checkP p = .norm := (p_validation p).2.2.mpr (by linarith)
  have h0 : ¬ ((p == 0) = true) := by
    have : p ≠ 0 := by linarith
    simpa using this
  simp [pNormMethod, hn, hv, h0, pNormGen]

/-- strictly increasing abscissae exclude the `ZeroDivisionError` of a vertical segment -/
theorem no_vertical_of_strict (cps : List (List (ℝ × ℝ))) (hs : ∀ l ∈ cps, StrictAbsc l) :
    hasVerticalSeg cps = false := by
  unfold hasVerticalSeg
  rw [List.any_eq_false]
  intro l hl
  have key : ∀ l : List (ℝ × ℝ), StrictAbsc l → ∀ s ∈ segs l, s.1.1 < s.2.1 := by
    intro l
    induction l with
    | nil => intro _ s h; simp [segs] at h
    | cons a r ih =>
      cases r with
      | nil => intro _ s h; simp [segs] at h
      | cons b r' =>
        intro hs s h
        simp only [segs, List.mem_cons] at h
        rcases h with rfl | h
        · exact hs.head_lt
        · exact ih hs.tail s h
  simp only [Bool.not_eq_true, List.any_eq_false, Bool.and_eq_true, beq_iff_eq, Bool.not_eq_eq_eq_not,
    Bool.not_true, beq_eq_false_iff_ne, ne_eq, not_and, Decidable.not_not]
  intro s hsg heq
  exact absurd heq (key l (hs l hl) s hsg).ne

/-! ### non-vacuity of the hypotheses used above -/

/-- a crossing segment meets `segment_integral`'s hypothesis and takes the crossing branch -/
example : segTermNat 2 (1 : ℝ) 1 3 (-1) = ∫ t in (1:ℝ)..3, |1 + (-1 - 1) * (t - 1) / (3 - 1)| ^ 2 :=
  segment_integral 2 1 1 3 (-1) (by norm_num)

example : (1 : ℝ) * (-1) < 0 := by norm_num          -- `segment_integral_crossing`
example : (-2 : ℝ) ≠ -1 ∧ 0 ≤ (-2 : ℝ) * (-1) := by norm_num   -- `segment_integral_one_signed`, negative side

/-- a two-depth landscape with a sign change meets the guard of `pnorm_pow_eq_integral`,
    `pnorm_homogeneous`, `supNormExact_eq` -/
example : ∀ l ∈ ([[(0, 0), (1, 1), (3, -1), (4, 0)], [(1, 0), (2, 1/2), (3, 0)]] : List (List (ℝ × ℝ))),
    StrictAbsc l ∧ 2 ≤ l.length := by
  intro l hl
  simp only [List.mem_cons, List.not_mem_nil, or_false] at hl
  rcases hl with rfl | rfl
  · exact ⟨strictAbsc_of_wellFormed _ (by simp [wellFormed]; norm_num), by simp⟩
  · exact ⟨strictAbsc_of_wellFormed _ (by simp [wellFormed]; norm_num), by simp⟩

/-- `sup_eq_max_abs`: the hypothesis `IsGreatest {|y_i|} m` is met by `m = 3/2` on a sign-changing function -/
example : IsGreatest {v | ∃ pt ∈ ([(0, 0), (1, 1), (3, -3/2), (4, 0)] : List (ℝ × ℝ)), v = |pt.2|} (3/2) := by
  constructor
  · exact ⟨(3, -3/2), by simp, by norm_num [abs_of_neg]⟩
  · rintro v ⟨pt, hpt, rfl⟩
    simp only [List.mem_cons, List.not_mem_nil, or_false] at hpt
    rcases hpt with rfl | rfl | rfl | rfl <;> norm_num [abs_of_neg]

/-- `supNormApprox_eq`: a 3-node grid with two rows (one negative) meets the hypotheses -/
example : ([0, 1, 2] : List ℝ).Pairwise (· < ·) ∧ 2 ≤ ([0, 1, 2] : List ℝ).length ∧
    (∀ row ∈ ([[0, 1, 0], [0, -2, 0]] : List (List ℝ)), row.length = ([0, 1, 2] : List ℝ).length) ∧
    supNormApprox ([[0, 1, 0], [0, -2, 0]] : List (List ℝ)) = .ok 2 := by
  refine ⟨by simp, by simp, by simp, ?_⟩
  simp [supNormApprox, absA]; norm_num

/-- `pnorm_self_sub_zero`: the critical points of a difference `P − P` (all values zero, several depths) -/
example : ∀ l ∈ ([[(0, 0), (2, 0), (4, 0)], [(1, 0), (3, 0)]] : List (List (ℝ × ℝ))), ∀ pt ∈ l, pt.2 = 0 := by
  intro l hl pt hpt
  simp only [List.mem_cons, List.not_mem_nil, or_false] at hl
  rcases hl with rfl | rfl <;> simp only [List.mem_cons, List.not_mem_nil, or_false] at hpt <;>
    rcases hpt with rfl | rfl | rfl <;> rfl

/-- `pNormMethod_accepts` / `no_vertical_of_strict` are not vacuous: `p = 5/2 ≥ 1` is accepted -/
example : checkP (5/2 : ℝ) = .norm := (p_validation _).2.2.mpr (by norm_num)
example : checkP (-1/2 : ℝ) = .reject := (p_validation _).1.mpr (Or.inr ⟨by norm_num, by norm_num⟩)

/-! ### triangle inequality (Minkowski) -/

/-- **pnorm_triangle**: if the landscape `h` represents the depth-wise sum of `f` and `g`
    (what `__add__` produces, C09), then `‖h‖_p ≤ ‖f‖_p + ‖g‖_p` for every natural `p ≥ 1`
    (Minkowski in `L^p(ℝ)` for each depth, then in `ℓ^p` over the depths). -/
theorem pnorm_triangle (p : ℕ) (hp : 1 ≤ p) (f g h : List (List (ℝ × ℝ)))
    (hf : ∀ l ∈ f, StrictAbsc l) (hg : ∀ l ∈ g, StrictAbsc l) (hh : ∀ l ∈ h, StrictAbsc l)
    (hsum : ∀ k t, evalDepth h k t = evalDepth f k t + evalDepth g k t) :
    (pNormPow p h) ^ ((1 : ℝ) / p) ≤ (pNormPow p f) ^ ((1 : ℝ) / p) + (pNormPow p g) ^ ((1 : ℝ) / p) := by
  have hp1 : (1 : ℝ) ≤ (p : ℝ) := by exact_mod_cast hp
  have e : ∀ x : List (List (ℝ × ℝ)), (∀ l ∈ x, StrictAbsc l) →
      pNormPow p x = (x.map fun l => ∫ t, |evalPL l t| ^ (p : ℝ)).sum := by
    intro x hx
    rw [pnorm_pow_eq_integral p hp x hx]
    simp only [Real.rpow_natCast]
  rw [e f hf, e g hg, e h hh]
  exact integral_norm_triangle (p : ℝ) hp1 f g h hf hg hh hsum

theorem evalDepth_scale (c : ℝ) (cps : List (List (ℝ × ℝ))) (k : ℕ) (t : ℝ) :
    evalDepth (scaleCps c cps) k t = c * evalDepth cps k t := by
  unfold evalDepth scaleCps
  rw [List.getElem?_map]
  cases cps[k]? with
  | none => simp
  | some l => simp [evalPL_scale]

/-- non-vacuity of `pnorm_triangle`: for every well-formed `f`, the triple `f`, `2·f`, `3·f` meets the
    hypotheses (and so do sign-changing combinations such as `f`, `−2·f`, `−f`) -/
example (f : List (List (ℝ × ℝ))) (hf : ∀ l ∈ f, StrictAbsc l) :
    (∀ l ∈ scaleCps 2 f, StrictAbsc l) ∧ (∀ l ∈ scaleCps 3 f, StrictAbsc l) ∧
    ∀ k t, evalDepth (scaleCps 3 f) k t = evalDepth f k t + evalDepth (scaleCps 2 f) k t := by
  refine ⟨?_, ?_, ?_⟩
  · intro l hl
    obtain ⟨l0, hl0, rfl⟩ := List.mem_map.mp hl
    exact strictAbsc_scale 2 l0 (hf l0 hl0)
  · intro l hl
    obtain ⟨l0, hl0, rfl⟩ := List.mem_map.mp hl
    exact strictAbsc_scale 3 l0 (hf l0 hl0)
  · intro k t
    rw [evalDepth_scale, evalDepth_scale]; ring

/-! ### real exponents `p ≥ 1` (the model instantiated with `Real.rpow` and the code's `expm1 ∘ log`) -/

/-- **segment_integral_real**: the segment term of the model for a real exponent `p ≥ 0`, with
    `x ** p := Real.rpow` and the one-signed branch written with `-(exp((p+1)·log r) − 1)` exactly as
    the code writes it, is `∫ |line|^p` over the segment. -/
theorem segment_integral_real (p : ℝ) (hp : 0 ≤ p) (x0 y0 x1 y1 : ℝ) (hx : x0 < x1) :
    segTerm (fun x => x ^ p) (fun x => x ^ (p + 1)) (fun r => -(Real.exp ((p + 1) * Real.log r) - 1))
        (p + 1) x0 y0 x1 y1
      = ∫ t in x0..x1, |y0 + (y1 - y0) * (t - x0) / (x1 - x0)| ^ p :=
  segTermReal_eq_integral p hp x0 y0 x1 y1 hx

/-- **pnorm_real_pow_eq_integral**: for every real `p ≥ 1` the accumulated value is `Σ_k ∫_ℝ |λ_k|^p`. -/
theorem pnorm_real_pow_eq_integral (p : ℝ) (hp : 1 ≤ p) (cps : List (List (ℝ × ℝ)))
    (hs : ∀ l ∈ cps, StrictAbsc l) :
    pNormPowGen (fun x => x ^ p) (fun x => x ^ (p + 1)) (fun r => -(Real.exp ((p + 1) * Real.log r) - 1))
        (p + 1) cps
      = (cps.map fun l => ∫ t, |evalPL l t| ^ p).sum :=
  pNormPowReal_eq_integral p hp cps hs

/-- **the public method for real `p ≥ 1`** on a well-formed landscape: validation passes, no error is
    raised, and the value is the `p`-th root of `Σ_k ∫ |λ_k|^p`. -/
theorem pNormMethod_real (p : ℝ) (hp : 1 ≤ p) (cps : List (List (ℝ × ℝ))) (hs : ∀ l ∈ cps, StrictAbsc l) :
    pNormMethod (fun r => r ^ (1 / p)) (fun x => x ^ p) (fun x => x ^ (p + 1))
        (fun r => -(Real.exp ((p + 1) * Real.log r) - 1)) p cps
      = .ok (((cps.map fun l => ∫ t, |evalPL l t| ^ p).sum) ^ (1 / p)) := by
  rw [pNormMethod_accepts _ _ _ _ p hp cps (no_vertical_of_strict cps hs),
    pnorm_real_pow_eq_integral p hp cps hs]

/-- natural exponents are the special case: both instantiations of the model agree -/
theorem pnorm_real_natCast (p : ℕ) (hp : 1 ≤ p) (cps : List (List (ℝ × ℝ))) (hs : ∀ l ∈ cps, StrictAbsc l) :
    pNormPowReal (p : ℝ) cps = pNormPow p cps := by
  rw [pNormPowReal_eq_integral (p : ℝ) (by exact_mod_cast hp) cps hs, pnorm_pow_eq_integral p hp cps hs]
  simp only [Real.rpow_natCast]

/-- homogeneity for real exponents -/
theorem pnorm_real_homogeneous (p : ℝ) (hp : 0 ≤ p) (c : ℝ) (cps : List (List (ℝ × ℝ)))
    (hs : ∀ l ∈ cps, StrictAbsc l) :
    pNormPowReal p (scaleCps c cps) = |c| ^ p * pNormPowReal p cps := by
  have hs' : ∀ l ∈ scaleCps c cps, StrictAbsc l := by
    intro l hl
    obtain ⟨l0, hl0, rfl⟩ := List.mem_map.mp hl
    exact strictAbsc_scale c l0 (hs l0 hl0)
  rw [pNormPowReal_eq_interval p hp _ hs', pNormPowReal_eq_interval p hp cps hs]
  unfold scaleCps
  rw [List.map_map, ← List.sum_map_mul_left]
  congr 1
  apply List.map_congr_left
  intro l _
  simp only [Function.comp, firstX_scale, lastX_scale, evalPL_scale, abs_mul,
    Real.mul_rpow (abs_nonneg _) (abs_nonneg _)]
  rw [intervalIntegral.integral_const_mul]

/-- triangle inequality for real exponents -/
theorem pnorm_real_triangle (p : ℝ) (hp : 1 ≤ p) (f g h : List (List (ℝ × ℝ)))
    (hf : ∀ l ∈ f, StrictAbsc l) (hg : ∀ l ∈ g, StrictAbsc l) (hh : ∀ l ∈ h, StrictAbsc l)
    (hsum : ∀ k t, evalDepth h k t = evalDepth f k t + evalDepth g k t) :
    (pNormPowReal p h) ^ (1 / p) ≤ (pNormPowReal p f) ^ (1 / p) + (pNormPowReal p g) ^ (1 / p) := by
  rw [pNormPowReal_eq_integral p hp f hf, pNormPowReal_eq_integral p hp g hg,
    pNormPowReal_eq_integral p hp h hh]
  exact integral_norm_triangle p hp f g h hf hg hh hsum

/-- non-vacuity: `p = 5/2` meets `1 ≤ p` -/
example : (1 : ℝ) ≤ 5 / 2 := by norm_num

/-! ### the class of C09 (`wfDepth`): repeated points and single points -/

open PersimVerif.PLArith in
/-- C09's executable guard decides the class used below -/
theorem wf_of_wfDepth (l : List (ℝ × ℝ)) (h : wfDepth l = true) : PLArith.WF l := (wfDepth_iff l).mp h

open PersimVerif.PLArith in
/-- … and the strict class (`≥ 2` points, strictly increasing abscissae, zero ends) is contained in it -/
theorem wf_of_wellFormed' (l : List (ℝ × ℝ)) (h : wellFormed l = true) : PLArith.WF l := wf_of_wellFormed l h


/-- dropping the repeated points of a list of the class gives strictly increasing abscissae -/
theorem strictAbsc_of_wf_dedup (l : List (ℝ × ℝ)) (h : PLArith.WF l) : StrictAbsc (dedup l) :=
  strictAbsc_dedup l h.chain

/-- **pnorm_pow_eq_integral** for C09's class: for natural `p ≥ 1` the accumulated value is
    `Σ_k ∫_ℝ |λ_k(t)|^p dt` — zero-width segments (repeated points) contribute 0, a single point is the
    zero function. -/
theorem pnorm_pow_eq_integral_wf (p : ℕ) (hp : 1 ≤ p) (cps : List (List (ℝ × ℝ)))
    (hs : ∀ l ∈ cps, PLArith.WF l) :
    pNormPow p cps = (cps.map fun l => ∫ t, |evalPL l t| ^ p).sum := by
  rw [← pNormPow_map_dedup, pnorm_pow_eq_integral p hp _ (strict_map_dedup cps hs)]
  exact sum_integral_map_dedup (fun x => x ^ p) cps hs

/-- the same for every real `p ≥ 1` -/
theorem pnorm_real_pow_eq_integral_wf (p : ℝ) (hp : 1 ≤ p) (cps : List (List (ℝ × ℝ)))
    (hs : ∀ l ∈ cps, PLArith.WF l) :
    pNormPowReal p cps = (cps.map fun l => ∫ t, |evalPL l t| ^ p).sum := by
  rw [← pNormPowReal_map_dedup, pNormPowReal_eq_integral p hp _ (strict_map_dedup cps hs)]
  exact sum_integral_map_dedup (fun x => x ^ p) cps hs

/-- **the public method for real `p ≥ 1`** on a landscape of C09's class: validation passes, no
    `ZeroDivisionError` (a zero-width step repeats the same point, so it takes the flat branch), and the
    value is the `p`-th root of `Σ_k ∫ |λ_k|^p`. -/
theorem pNormMethod_real_wf (p : ℝ) (hp : 1 ≤ p) (cps : List (List (ℝ × ℝ))) (hs : ∀ l ∈ cps, PLArith.WF l) :
    pNormMethod (fun r => r ^ (1 / p)) (fun x => x ^ p) (fun x => x ^ (p + 1))
        (fun r => -(Real.exp ((p + 1) * Real.log r) - 1)) p cps
      = .ok (((cps.map fun l => ∫ t, |evalPL l t| ^ p).sum) ^ (1 / p)) := by
  rw [pNormMethod_accepts _ _ _ _ p hp cps (no_vertical_of_wf cps hs)]
  have := pnorm_real_pow_eq_integral_wf p hp cps hs
  unfold pNormPowReal oneSubPowReal at this
  rw [this]

/-- **`PersLandscapeExact.sup_norm`** for C09's class — no `2 ≤ length` hypothesis: a single point of the
    class has ordinate 0 and represents the zero function, whose values `{0}` it reproduces. -/
theorem supNormExact_eq_wf (cps : List (List (ℝ × ℝ))) (hwf : ∀ l ∈ cps, PLArith.WF l)
    (m : ℝ) (h : supNormExact cps = .ok m) :
    IsGreatest (absValues cps) m ∧ (⨆ kt : ℕ × ℝ, |evalDepth cps kt.1 kt.2|) = m := by
  have hspec : m ∈ (cps.flatten.map fun pt => |pt.2|) ∧ ∀ x ∈ (cps.flatten.map fun pt => |pt.2|), x ≤ m := by
    unfold supNormExact at h
    have e : (cps.flatten.map fun pt => absA pt.2) = cps.flatten.map fun pt => |pt.2| := by
      simp only [absA_eq_abs]
    rw [e] at h
    cases hp : pyMax (cps.flatten.map fun pt => |pt.2|) with
    | none => rw [hp] at h; cases h
    | some m' =>
      rw [hp] at h
      injection h with h
      subst h
      exact pyMax_spec _ _ hp
  have hG := isGreatest_absValues_wf cps hwf m hspec.1 hspec.2
  exact ⟨hG, hG.csSup_eq⟩

/-- triangle inequality for C09's class (natural `p ≥ 1`) -/
theorem pnorm_triangle_wf (p : ℕ) (hp : 1 ≤ p) (f g h : List (List (ℝ × ℝ)))
    (hf : ∀ l ∈ f, PLArith.WF l) (hg : ∀ l ∈ g, PLArith.WF l) (hh : ∀ l ∈ h, PLArith.WF l)
    (hsum : ∀ k t, evalDepth h k t = evalDepth f k t + evalDepth g k t) :
    (pNormPow p h) ^ ((1 : ℝ) / p) ≤ (pNormPow p f) ^ ((1 : ℝ) / p) + (pNormPow p g) ^ ((1 : ℝ) / p) := by
  rw [← pNormPow_map_dedup p f, ← pNormPow_map_dedup p g, ← pNormPow_map_dedup p h]
  apply pnorm_triangle p hp _ _ _ (strict_map_dedup f hf) (strict_map_dedup g hg) (strict_map_dedup h hh)
  intro k t
  rw [evalDepth_map_dedup h hh, evalDepth_map_dedup f hf, evalDepth_map_dedup g hg, hsum]

/-- triangle inequality for C09's class (real `p ≥ 1`) -/
theorem pnorm_real_triangle_wf (p : ℝ) (hp : 1 ≤ p) (f g h : List (List (ℝ × ℝ)))
    (hf : ∀ l ∈ f, PLArith.WF l) (hg : ∀ l ∈ g, PLArith.WF l) (hh : ∀ l ∈ h, PLArith.WF l)
    (hsum : ∀ k t, evalDepth h k t = evalDepth f k t + evalDepth g k t) :
    (pNormPowReal p h) ^ (1 / p) ≤ (pNormPowReal p f) ^ (1 / p) + (pNormPowReal p g) ^ (1 / p) := by
  rw [← pNormPowReal_map_dedup p f, ← pNormPowReal_map_dedup p g, ← pNormPowReal_map_dedup p h]
  apply pnorm_real_triangle p hp _ _ _ (strict_map_dedup f hf) (strict_map_dedup g hg) (strict_map_dedup h hh)
  intro k t
  rw [evalDepth_map_dedup h hh, evalDepth_map_dedup f hf, evalDepth_map_dedup g hg, hsum]

/-- absolute homogeneity for C09's class (natural `p ≥ 1`; `__mul__` keeps the class) -/
theorem pnorm_homogeneous_wf (p : ℕ) (hp : 1 ≤ p) (c : ℝ) (cps : List (List (ℝ × ℝ)))
    (hs : ∀ l ∈ cps, PLArith.WF l) :
    pNormPow p (scaleCps c cps) = |c| ^ p * pNormPow p cps := by
  have hs' : ∀ l ∈ scaleCps c cps, PLArith.WF l := by
    intro l hl
    obtain ⟨l0, hl0, rfl⟩ := List.mem_map.mp hl
    exact PLArith.wf_mulDepth c l0 (hs l0 hl0)
  rw [pnorm_pow_eq_integral_wf p hp _ hs', pnorm_pow_eq_integral_wf p hp cps hs]
  unfold scaleCps
  rw [List.map_map, ← List.sum_map_mul_left]
  congr 1
  apply List.map_congr_left
  intro l _
  simp only [Function.comp, evalPL_scale, abs_mul, mul_pow]
  rw [MeasureTheory.integral_const_mul]


/-- non-vacuity of the `…_wf` statements: the depth a bar of zero length produces, the single point two
    such depths add up to, and an ordinary sign-changing depth all belong to the class — and the first
    two are NOT in `StrictAbsc ∧ 2 ≤ length` -/
example : (∀ l ∈ ([[(1, 0), (1, 0), (1, 0)], [(2, 0)], [(0, 0), (1, 1), (3, -1), (4, 0)]] : List (List (ℝ × ℝ))),
      PLArith.WF l) ∧ ¬ StrictAbsc ([(1, 0), (1, 0), (1, 0)] : List (ℝ × ℝ)) ∧ ¬ 2 ≤ ([(2, 0)] : List (ℝ × ℝ)).length := by
  refine ⟨?_, ?_, by simp⟩
  · intro l hl
    simp only [List.mem_cons, List.not_mem_nil, or_false] at hl
    rcases hl with rfl | rfl | rfl
    · exact ⟨by simp, by intro p hp; simp at hp; rw [← hp], by intro q hq; simp at hq; rw [← hq], by simp⟩
    · exact ⟨by simp, by intro p hp; simp at hp; rw [← hp], by intro q hq; simp at hq; rw [← hq], by simp⟩
    · exact ⟨by simp, by intro p hp; simp at hp; rw [← hp], by intro q hq; simp at hq; rw [← hq], by norm_num⟩
  · intro h
    have := (List.pairwise_cons.mp h).1 (1, 0) (by simp)
    simp at this

/-- the model's values on those depths: `_p_norm` accumulates `0` on the two degenerate depths and the
    exact sup norm is the largest `|y|` -/
example : pNormPow 2 ([[(1, 0), (1, 0), (1, 0)], [(2, 0)]] : List (List (ℝ × ℝ))) = 0 ∧
    supNormExact ([[(1, 0), (1, 0), (1, 0)], [(2, 0)], [(0, 0), (1, 1), (3, -3/2), (4, 0)]] : List (List (ℝ × ℝ)))
      = .ok (3/2) := by
  constructor
  · simp [pNormPow, pNormPowGen, accumulate, segTerms, segs, segTerm]
  · simp [supNormExact, pyMax, absA]; norm_num

/-- non-vacuity of `pnorm_triangle_wf` / `pnorm_real_triangle_wf`: `f` = the depth of a zero-length bar (the zero
    function, not strictly increasing), `g = h` = a tent: all three are in the class and `h = f + g` pointwise -/
example : let f : List (List (ℝ × ℝ)) := [[(1, 0), (1, 0), (1, 0)]]
    let g : List (List (ℝ × ℝ)) := [[(0, 0), (1, 1), (2, 0)]]
    ∀ k t, evalDepth g k t = evalDepth f k t + evalDepth g k t := by
  intro f g k t
  have hf : evalDepth f k t = 0 := by
    match k with
    | 0 =>
      simp only [f, evalDepth, List.getElem?_cons_zero, evalPL]
      split_ifs <;> simp
    | k + 1 => simp [f, evalDepth]
  rw [hf, zero_add]

/-! ### stability of the landscape under a partial matching (the bottleneck clause) -/

open PersimVerif.Spec in
/-- **landscape_stability**: if some partial matching between the diagrams `D` and `D'` pairs points
    within L∞ distance `ε` and sends the unpaired points of either side to the diagonal at cost `≤ ε`,
    then the mathematical landscapes (`λ_k(t)` = k-th largest tent) differ by at most `ε` at every
    depth `k` and every abscissa `t`.  (About `PL.landscape`, the function the exact class represents
    by C03 and whose differences the arithmetic represents by C09 — not about the sweep itself.) -/
theorem landscape_stability (D D' : List (ℝ × ℝ)) (ε : ℝ)
    (p : PM (Fin D.length) (Fin D'.length))
    (hp : p.MaxLE (fun i j => linf D[i] D'[j]) (fun i => diagInf D[i]) (fun j => diagInf D'[j]) ε)
    (hD : ∀ q ∈ D, q.1 ≤ q.2) (hD' : ∀ q ∈ D', q.1 ≤ q.2) (k : ℕ) (t : ℝ) :
    |landscape D k t - landscape D' k t| ≤ ε := by
  have hsymm : p.symm.MaxLE (fun j i => linf D'[j] D[i]) (fun j => diagInf D'[j])
      (fun i => diagInf D[i]) ε := by
    obtain ⟨h0, hrow, hcol⟩ := hp
    refine ⟨h0, ?_, ?_⟩
    · intro j
      unfold PM.rowCost PM.symm
      simp only
      cases hg : p.g j with
      | none => exact hcol j hg
      | some i =>
        have hf : p.f i = some j := (p.fg i j).mpr hg
        have := hrow i
        unfold PM.rowCost at this
        rw [hf] at this
        simpa [linf, abs_sub_comm] using this
    · intro i hi
      have := hrow i
      unfold PM.rowCost at this
      have hi' : p.f i = none := hi
      rw [hi'] at this
      exact this
  rw [abs_sub_le_iff]
  constructor
  · have := landscape_le_add D D' ε p hp hD k t; linarith
  · have := landscape_le_add D' D ε p.symm hsymm hD' k t; linarith

open PersimVerif.Spec in
/-- hence the sup norm of the difference of the two landscapes never exceeds the bottleneck distance -/
theorem landscape_sup_le_bottleneck (D D' : List (ℝ × ℝ)) (d : ℝ)
    (hb : IsBottleneck (M := Fin D.length) (N := Fin D'.length)
      (fun i j => linf D[i] D'[j]) (fun i => diagInf D[i]) (fun j => diagInf D'[j]) d)
    (hD : ∀ q ∈ D, q.1 ≤ q.2) (hD' : ∀ q ∈ D', q.1 ≤ q.2) :
    (⨆ kt : ℕ × ℝ, |landscape D kt.1 kt.2 - landscape D' kt.1 kt.2|) ≤ d := by
  obtain ⟨p, hp⟩ := hb.attained
  exact ciSup_le fun kt => landscape_stability D D' d p hp hD hD' kt.1 kt.2

open PersimVerif.Spec in
/-- non-vacuity: `[(0,4),(5,6)]` against `[(1,4)]`, first bars paired (cost 1), `(5,6)` to the diagonal (cost 1/2) -/
example : ∃ p : PM (Fin ([(0, 4), (5, 6)] : List (ℝ × ℝ)).length) (Fin ([(1, 4)] : List (ℝ × ℝ)).length),
    p.MaxLE (fun i j => linf ([(0, 4), (5, 6)] : List (ℝ × ℝ))[i] ([(1, 4)] : List (ℝ × ℝ))[j])
      (fun i => diagInf ([(0, 4), (5, 6)] : List (ℝ × ℝ))[i]) (fun j => diagInf ([(1, 4)] : List (ℝ × ℝ))[j]) 1 := by
  refine ⟨⟨fun i => if i.val = 0 then some ⟨0, by simp⟩ else none, fun _ => some ⟨0, by simp⟩, ?_⟩, ?_⟩
  · intro i j
    have hj1 : (j : ℕ) < 1 := j.isLt
    have hj : j = ⟨0, by simp⟩ := Fin.ext (by show (j : ℕ) = 0; omega)
    subst hj
    constructor
    · intro h
      split_ifs at h with h0
      · exact congrArg some (Fin.ext h0.symm)
    · intro h
      have h' : i = ⟨0, by simp⟩ := (Option.some.inj h).symm
      subst h'
      simp
  · refine ⟨by norm_num, ?_, ?_⟩
    · intro i
      unfold PM.rowCost
      match i with
      | ⟨0, _⟩ => simp [linf]
      | ⟨1, _⟩ => simp [diagInf]; norm_num
    · intro j hj
      simp at hj

end
end PersimVerif.C10
