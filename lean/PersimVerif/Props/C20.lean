import PersimVerif.Lemmas.PlotDraw
import PersimVerif.Lemmas.PlotTotal
import PersimVerif.Lemmas.PlotTrig

/-!
# C20 — plots draw exactly the data and matchings they are given

All statements are about `PersimVerif.Plot` (the model of `persim/visuals.py`: a pure function from the
arguments to the list of abstract artists, each tagged with the axes it lands on) over an arbitrary
linear ordered field `K`, for diagrams / lists of diagrams / matchings of every size, every option
combination, and an arbitrary `cast` (the `astype(np.float32)` rounding).  Matplotlib itself is a
contract (an artist added to an `Axes` is drawn there); rendering, colormap/style side effects and the
3-D landscape plots are not modelled.

`scattersOf`/`linesOf`/`labelsOf` are the observations the harness reads back (`ax.collections`,
`ax.lines`, legend texts).  `Selected arg o sel labels` says that `sel`/`labels` are what `plot_only`
leaves of the diagrams and of the defaulted / broadcast labels; `selected_spec` spells that out.
-/
set_option linter.unusedSectionVars false
namespace PersimVerif.C20
open PersimVerif.Plot

variable {K : Type} [Field K] [LinearOrder K] [IsStrictOrderedRing K]

/-- `sel`, `labels`: the plotted diagrams and their labels after `labels`-defaulting, broadcasting of a
    single string and the `plot_only` selection (visuals.py:70-84) -/
def Selected (arg : DgmsArg K) (o : Opts K) (sel : List (Dgm K)) (labels : List String) : Prop :=
  select (asList arg) (labelList (asList arg).length o.labels) o.plotOnly = .ok (sel, labels)

/-- `i` is a valid Python index of position `k` in a list of length `n` -/
def PyIdx (n : Nat) (i : Int) (k : Nat) : Prop := k < n ∧ (i = (k : Int) ∨ i = (k : Int) - n)

/-- the label requested for the diagram at position `k` -/
def RequestedLabel (lb : Labels) (k : Nat) (lab : String) : Prop :=
  match lb with
  | .default => lab = defaultLabel k
  | .one s => lab = s
  | .many ls => ls[k]? = some lab

/-- **what is plotted**: without `plot_only` (or with `[]`) every diagram, with the default / repeated /
    given labels; with `plot_only = l` the diagrams `diagrams[i]`, `i ∈ l` (Python indexing), each with
    the label requested for *that diagram* — a single string is used for every one of them. -/
theorem selected_spec {arg : DgmsArg K} {o : Opts K} {sel : List (Dgm K)} {labels : List String}
    (h : Selected arg o sel labels) :
    ((o.plotOnly = none ∨ o.plotOnly = some []) ∧ sel = asList arg ∧
        labels = labelList (asList arg).length o.labels) ∨
    (∃ l, o.plotOnly = some l ∧ l ≠ [] ∧
      List.Forall₂ (fun i d => ∃ k, PyIdx (asList arg).length i k ∧ (asList arg)[k]? = some d) l sel ∧
      List.Forall₂ (fun i lab => ∃ k, (match o.labels with
          | .many ls => PyIdx ls.length i k
          | _ => PyIdx (asList arg).length i k) ∧ RequestedLabel o.labels k lab) l labels) := by
  rcases select_ok h with ⟨hpo, h1, h2⟩ | ⟨l, hpo, hne, h1, h2⟩
  · exact Or.inl ⟨hpo, h1, h2⟩
  · refine Or.inr ⟨l, hpo, hne, h1.imp ?_, h2.imp ?_⟩
    · intro i d hd
      obtain ⟨k, hk, hx, hi⟩ := pyGet_some hd
      exact ⟨k, ⟨hk, hi⟩, by rw [List.getElem?_eq_getElem hk, hx]⟩
    · intro i lab hl
      obtain ⟨k, hk, hx, hi⟩ := pyGet_some hl
      cases hlb : o.labels with
      | default =>
        simp only [hlb, labelList, List.length_map, List.length_range] at hk hi hx
        refine ⟨k, ⟨hk, hi⟩, ?_⟩
        simp only [RequestedLabel]
        rw [← hx]; simp
      | one s =>
        simp only [hlb, labelList, List.length_replicate] at hk hi hx
        refine ⟨k, ⟨hk, hi⟩, ?_⟩
        simp only [RequestedLabel]
        rw [← hx]; simp
      | many ls =>
        simp only [hlb, labelList] at hk hi hx
        exact ⟨k, ⟨hk, hi⟩, by simp only [RequestedLabel]; rw [List.getElem?_eq_getElem hk, hx]⟩

/-- with one label per diagram (`None`, a string, or a list as long as `diagrams`) the selection keeps
    diagrams and labels aligned -/
theorem selected_aligned {arg : DgmsArg K} {o : Opts K} {sel : List (Dgm K)} {labels : List String}
    (h : Selected arg o sel labels)
    (hl : ∀ ls, o.labels = .many ls → ls.length = (asList arg).length) :
    labels.length = sel.length :=
  select_lengths h (labelList_length _ _ hl)

/-! ## diagram plots -/

/-- the scatter collections are exactly the zipped (plotted diagram, label) pairs, in order, all on the
    given axes, with coordinates `(b, d)`, `(b, d − b)` in lifetime mode, and `(b, b_inf)` for `d = ∞`
    (all of them `cast` to single precision first).  This is the unconditional form: `zip` truncates to
    the shorter of diagrams / labels. -/
theorem scatters_eq {cast : K → K} {arg : DgmsArg K} {o : Opts K} {fig : Fig K}
    (h : plotDiagrams cast arg o = .ok fig) :
    ∃ sel labels r, Selected arg o sel labels ∧ sel ≠ [] ∧
      rangeOf o.xyRange (finiteVals (sel.map (castDgm cast))) = some r ∧
      scattersOf fig.artists = (sel.zip labels).map fun dl =>
        (Axes.given, (castDgm cast dl.1).map (drawPt o.lifetime (bInfOf o.lifetime r)), dl.2) := by
  obtain ⟨sel, labels, r, hsel, hne, hr, rfl⟩ := plotDiagrams_ok h
  refine ⟨sel, labels, r, hsel, hne, hr, ?_⟩
  rw [scattersOf_draw, List.zip_map_left, List.map_map]
  rfl

/-- **one scatter per plotted diagram** (guard: one label per diagram — `labels` is `None`, a string, or
    a list as long as `diagrams`; the code does not check this and `zip` would silently drop diagrams,
    see `scatters_eq` for the unconditional statement): exactly `sel.length` collections, the `k`-th one
    holding the `k`-th plotted diagram's points under its label. -/
theorem one_scatter_per_diagram {cast : K → K} {arg : DgmsArg K} {o : Opts K} {fig : Fig K}
    (h : plotDiagrams cast arg o = .ok fig)
    (hl : ∀ ls, o.labels = .many ls → ls.length = (asList arg).length) :
    ∃ sel labels r, Selected arg o sel labels ∧ sel ≠ [] ∧
      rangeOf o.xyRange (finiteVals (sel.map (castDgm cast))) = some r ∧
      labels.length = sel.length ∧ (scattersOf fig.artists).length = sel.length ∧
      ∀ k (hk : k < sel.length) (hk' : k < labels.length),
        (scattersOf fig.artists)[k]? =
          some (Axes.given, (castDgm cast sel[k]).map (drawPt o.lifetime (bInfOf o.lifetime r)), labels[k]) := by
  obtain ⟨sel, labels, r, hsel, hne, hr, hsc⟩ := scatters_eq h
  have hlen := selected_aligned hsel hl
  refine ⟨sel, labels, r, hsel, hne, hr, hlen, ?_, ?_⟩
  · rw [hsc, List.length_map, List.length_zip, hlen, Nat.min_self]
  · intro k hk hk'
    rw [hsc, List.getElem?_map, (List.getElem?_zip_eq_some (z := (sel[k], labels[k]))).mpr
      ⟨List.getElem?_eq_getElem hk, List.getElem?_eq_getElem hk'⟩]
    rfl

/-- non-vacuity: a list of three diagrams with an infinite death, `plot_only=[2, -3]`, one label per
    diagram, lifetime mode — the call succeeds and the label guard holds -/
example : (∃ fig, plotDiagrams (α := ℚ) id
      (.many [[(0, some 1), (1, none)], [], [(1 / 2, some 3), (2, some (5 / 2))]])
      { plotOnly := some [2, -3], labels := .many ["a", "b", "c"], lifetime := true } = .ok fig) ∧
    (∀ ls, Labels.many ["a", "b", "c"] = .many ls → ls.length =
      (asList (DgmsArg.many [[((0 : ℚ), some 1), (1, none)], [], [(1 / 2, some 3), (2, some (5 / 2))]])).length) :=
  ⟨⟨_, rfl⟩, by intro ls h; cases h; rfl⟩

/-- an infinite death is drawn at `(cast b, b_inf)`, a finite one at `(cast b, cast d)` or
    `(cast b, cast d − cast b)` -/
theorem drawPt_cases (cast : K → K) (life : Bool) (bInf b : K) :
    drawPt life bInf (cast b, (none : Option K)) = (cast b, bInf) ∧
    ∀ d, drawPt life bInf (cast b, some (cast d)) = (cast b, if life then cast d - cast b else cast d) :=
  ⟨rfl, fun _ => rfl⟩

/-- **the infinity line**: `y_down < b_inf < y_up` whenever the y-limits have positive height, and the
    line `[x_down, x_up] × {b_inf}` (dashed, black, labelled `∞`, on the given axes) is among the lines
    exactly once if some plotted diagram has an infinite death and not at all otherwise.  (`∞` entries
    are drawn at that same `b_inf`: `scatters_eq`/`drawPt_cases`.) -/
theorem inf_line_inside {cast : K → K} {arg : DgmsArg K} {o : Opts K} {fig : Fig K}
    (h : plotDiagrams cast arg o = .ok fig) :
    ∃ sel labels r, Selected arg o sel labels ∧
      rangeOf o.xyRange (finiteVals (sel.map (castDgm cast))) = some r ∧
      (fig.ylim.1 < fig.ylim.2 →
        fig.ylim.1 < bInfOf o.lifetime r ∧ bInfOf o.lifetime r < fig.ylim.2) ∧
      (linesOf fig.artists).filter (fun l => decide (l.2.2.2.1 = Style.infLine)) =
        (if hasInf sel then
          [(Axes.given, [fig.xlim.1, fig.xlim.2], [bInfOf o.lifetime r, bInfOf o.lifetime r],
            Style.infLine, some infLabel)]
         else []) ∧
      (hasInf sel = true ↔ ∃ d ∈ sel, ∃ p ∈ d, p.2 = none) := by
  obtain ⟨sel, labels, r, hsel, hne, hr, rfl⟩ := plotDiagrams_ok h
  refine ⟨sel, labels, r, hsel, hr, ?_, ?_, hasInf_iff⟩
  · simp only [draw, bInfOf, yDownOf, yUpOf]
    cases o.lifetime with
    | false =>
      simp only [Bool.false_eq_true, if_false]
      intro hlt
      constructor <;> nlinarith
    | true =>
      simp only [if_true]
      intro hlt
      constructor <;> nlinarith
  · rw [linesOf_draw, hasInf_castDgm]
    simp only [guideLines, draw]
    cases o.lifetime <;> cases o.diagonal <;> cases hasInf sel <;> simp [linesOf]

/-- **limits contain the points** (no `xy_range`): the birth of every plotted point lies within the
    x-limits, and every plotted point with a finite death is drawn within the y-limits.  In lifetime mode
    the guard is exactly `b ≤ d` on the plotted (cast) point — a persistence pair; the code does not
    check it, and `lifetime_guard_needed` shows a point with `d < b` falling below `y_down`. -/
theorem limits_contain_points {cast : K → K} {arg : DgmsArg K} {o : Opts K} {fig : Fig K}
    (h : plotDiagrams cast arg o = .ok fig) (hxy : o.xyRange = none) :
    ∃ sel labels r, Selected arg o sel labels ∧
      rangeOf o.xyRange (finiteVals (sel.map (castDgm cast))) = some r ∧
      ∀ d ∈ sel, ∀ p ∈ castDgm cast d,
        (fig.xlim.1 ≤ p.1 ∧ p.1 ≤ fig.xlim.2) ∧
        ∀ e, p.2 = some e → (o.lifetime = true → p.1 ≤ e) →
          (drawPt o.lifetime (bInfOf o.lifetime r) p).1 = p.1 ∧
          fig.ylim.1 ≤ (drawPt o.lifetime (bInfOf o.lifetime r) p).2 ∧
          (drawPt o.lifetime (bInfOf o.lifetime r) p).2 ≤ fig.ylim.2 := by
  obtain ⟨sel, labels, r, hsel, hne, hr, rfl⟩ := plotDiagrams_ok h
  refine ⟨sel, labels, r, hsel, hr, ?_⟩
  rw [hxy] at hr
  obtain ⟨m, M, hb, hmM, rfl⟩ := autoRange_some hr
  intro d hd p hp
  have hd' : castDgm cast d ∈ sel.map (castDgm cast) := List.mem_map_of_mem hd
  obtain ⟨hb1, hb2⟩ := hb p.1 (birth_mem_finiteVals hd' hp)
  refine ⟨⟨?_, ?_⟩, ?_⟩
  · simp only [draw]; linarith
  · simp only [draw]; linarith
  · intro e he hguard
    obtain ⟨he1, he2⟩ := hb e (death_mem_finiteVals hd' hp he)
    simp only [draw, drawPt, he, yDownOf, yUpOf]
    cases hlife : o.lifetime with
    | false =>
      simp only [Bool.false_eq_true, if_false]
      refine ⟨trivial, ?_, ?_⟩ <;> linarith
    | true =>
      have hg := hguard hlife
      simp only [if_true]
      refine ⟨trivial, ?_, ?_⟩ <;> linarith

/-- the lifetime guard is needed: the "pair" `(1, 1/4)` (death before birth) is drawn at `(1, −3/4)`,
    below `y_down = −39/800` -/
theorem lifetime_guard_needed :
    (match plotDiagrams (α := ℚ) id (.single [(1, some (1 / 4))]) { lifetime := true } with
      | .ok fig => (scattersOf fig.artists).any fun s => s.2.1.any fun q => decide (q.2 < fig.ylim.1)
      | .error _ => false) = true := by decide +kernel

/-- non-vacuity of `limits_contain_points`: no `xy_range`, lifetime mode, every pair has `b ≤ d` -/
example : (∃ fig, plotDiagrams (α := ℚ) id (.many [[(0, some 1), (1, none)], [(1 / 2, some 3)]])
      { lifetime := true } = .ok fig) ∧ ({ lifetime := true } : Opts ℚ).xyRange = none ∧
    ∀ d ∈ [[((0 : ℚ), some (1 : ℚ)), (1, none)], [(1 / 2, some 3)]], ∀ p ∈ castDgm id d, ∀ e, p.2 = some e → p.1 ≤ e :=
  ⟨⟨_, rfl⟩, rfl, by decide +kernel⟩

/-- **an explicit range is respected**: the x-limits are the requested ones; the y-limits are the requested
    ones, except in lifetime mode where the code keeps the requested HEIGHT and moves the bottom to
    `−height/20` (visuals.py:121-122). -/
theorem xy_range_respected {cast : K → K} {arg : DgmsArg K} {o : Opts K} {fig : Fig K} {a b c d : K}
    (h : plotDiagrams cast arg o = .ok fig) (hxy : o.xyRange = some (a, b, c, d)) :
    fig.xlim = (a, b) ∧
    (o.lifetime = false → fig.ylim = (c, d)) ∧
    (o.lifetime = true → fig.ylim = (-(d - c) * (1 / 20), -(d - c) * (1 / 20) + (d - c))) ∧
    fig.ylim.2 - fig.ylim.1 = d - c := by
  obtain ⟨sel, labels, r, hsel, hne, hr, rfl⟩ := plotDiagrams_ok h
  rw [hxy] at hr
  simp only [rangeOf, Option.some.injEq] at hr
  subst hr
  simp only [draw, yDownOf, yUpOf]
  cases o.lifetime <;> simp

/-- non-vacuity of `xy_range_respected` -/
example : ∃ fig, plotDiagrams (α := ℚ) id (.single [(0, some 1), (1, none)])
    { xyRange := some (-1, 5, -2, 6), lifetime := true } = .ok fig := ⟨_, rfl⟩

/-- **title, axis labels, legend as requested**: the title is the requested one (none if `None`); the
    legend is drawn iff `legend=True`; its entries are `∞` (iff some plotted death is infinite) followed by
    one entry per scatter, the label requested for that diagram (`selected_spec`); the axis labels are
    `Birth` and `Death` / `Lifetime`. -/
theorem labels_title_legend {cast : K → K} {arg : DgmsArg K} {o : Opts K} {fig : Fig K}
    (h : plotDiagrams cast arg o = .ok fig) :
    fig.title = o.title ∧ fig.legend = o.legend ∧
    ∃ sel labels, Selected arg o sel labels ∧
      (scattersOf fig.artists).map (fun s => s.2.2) = ((sel.zip labels).map fun dl => dl.2) ∧
      labelsOf fig.artists =
        (if hasInf sel then [infLabel] else []) ++ ((sel.zip labels).map fun dl => dl.2) ∧
      (labels ≠ [] → fig.xlabel = some "Birth" ∧
        fig.ylabel = some (if o.lifetime then "Lifetime" else "Death")) := by
  obtain ⟨sel, labels, r, hsel, hne, hr, rfl⟩ := plotDiagrams_ok h
  refine ⟨rfl, rfl, sel, labels, hsel, ?_, ?_, ?_⟩
  · rw [scattersOf_draw, List.zip_map_left, List.map_map, List.map_map]
    rfl
  · have hs : ∀ (bInf : K) (l : List (Dgm K × String)),
        labelsOf (l.map fun dl => Artist.scatter Axes.given (substInf bInf dl.1) dl.2) = l.map fun dl => dl.2 := by
      intro bInf l
      induction l with
      | nil => rfl
      | cons x t ih => simp [labelsOf, ih]
    have hz : ∀ (life : Bool), ((shown life (sel.map (castDgm cast))).zip labels).map (fun dl => dl.2) =
        (sel.zip labels).map fun dl => dl.2 := by
      intro life
      cases life <;> simp [shown, List.zip_map_left, List.map_map, Function.comp_def]
    simp only [draw, labelsOf_append, scatters, hs, hz, hasInf_castDgm, guideLines]
    cases o.lifetime <;> cases o.diagonal <;> cases hasInf sel <;> simp [labelsOf]
  · intro hl
    have : ((sel.map (castDgm cast)).zip labels).isEmpty = false := by
      cases sel with
      | nil => exact absurd rfl hne
      | cons d t =>
        cases labels with
        | nil => exact absurd rfl hl
        | cons l t' => rfl
    simp [draw, this]

/-- every artist of a diagram plot lands on the given axes -/
theorem diagram_plot_on_given_axes {cast : K → K} {arg : DgmsArg K} {o : Opts K} {fig : Fig K}
    (h : plotDiagrams cast arg o = .ok fig) : ∀ a ∈ fig.artists, axesOf a = .given := by
  obtain ⟨sel, labels, r, _, _, _, rfl⟩ := plotDiagrams_ok h
  exact axesOf_draw _ _ _ _

/-! ## matching plots -/

/-- the row-by-row content of a matching plot: one line per row that is not `(-1, -1)`, in row order, on
    the axes `ax`, styled `styleOf idx`, joining `dgm1[i]`–`dgm2[j]`, or a point and its perpendicular
    foot `((b+d)/2, (b+d)/2)` on the diagonal -/
def SegmentsMatchRows (d1 d2 : FDgm K) (styleOf : Nat → Style) (rows : List (Row K))
    (segs : List (Artist K)) : Prop :=
  List.Forall₂ (fun (ir : Nat × Row K) a => ∃ xs ys,
      a = Artist.line Axes.given xs ys (styleOf ir.1) none ∧ Joins d1 d2 ir.2.1 ir.2.2.1 xs ys)
    ((indexed 0 rows).filter drawn) segs

/-- the points with finite death, in order: an infinite point is skipped, a finite one kept -/
theorem finitePart_cons (b : K) (d : Dgm K) :
    finitePart ((b, none) :: d) = finitePart d ∧
    ∀ e, finitePart ((b, some e) :: d) = (b, e) :: finitePart d :=
  ⟨rfl, fun _ => rfl⟩

theorem mem_finitePart (d : Dgm K) (q : K × K) : q ∈ finitePart d ↔ (q.1, some q.2) ∈ d := by
  unfold finitePart
  rw [List.mem_filterMap]
  constructor
  · rintro ⟨p, hp, h⟩
    obtain ⟨b, e⟩ := p
    cases e with
    | none => simp at h
    | some e => simp only [Option.map_some, Option.some.injEq] at h; subst h; exact hp
  · intro h
    exact ⟨(q.1, some q.2), h, rfl⟩

/-- a diagram without infinite points is its own finite part (the case the theorems covered before) -/
theorem finitePart_asDgm (d : FDgm K) : finitePart (asDgm d) = d := by
  induction d with
  | nil => rfl
  | cons p t ih =>
    simp only [asDgm, finitePart, List.map_cons, List.filterMap_cons, Option.map_some] at ih ⊢
    rw [ih]

/-- **bottleneck matching plot** (`c = s = cos π/4`, i.e. `c·c = 1/2`), for diagrams WITH or without
    points of infinite death: the figure is the diagram plot of `[dgm1, dgm2]` — all points, infinite
    deaths on the ∞ line — on the same axes, followed by one segment per row that is not `(-1,-1)`,
    joining points of the FINITE-DEATH sub-diagrams (what the rows returned by `bottleneck` index; the
    `(0,0)` placeholder when a diagram has no such point); ALL artists
    are on the GIVEN axes; the row at `np.argmax` of the distance column (the first maximum) is styled
    `matchMax` (solid, width 2, C3), every other row `matchOther` (dashed, width 1, C2). -/
theorem segments_match_rows {cast : K → K} {c s : K} {d1 d2 : Dgm K} {rows : List (Row K)}
    {labels : List String} {fig : Fig K} (hc : c * c = 1 / 2) (hs : s = c)
    (h : bottleneckMatching cast c s d1 d2 rows labels = .ok fig) :
    ∃ pd segs maxIdx v,
      plotDiagrams cast (.many [d1, d2]) (matchOpts labels) = .ok pd ∧
      fig = { pd with artists := pd.artists ++ segs } ∧
      (∀ a ∈ fig.artists, axesOf a = .given) ∧
      ((rows.map fun r => r.2.2)[maxIdx]? = some v ∧ (∀ x ∈ rows.map fun r => r.2.2, x ≤ v) ∧
        ∀ k, k < maxIdx → ∀ x, (rows.map fun r => r.2.2)[k]? = some x → x < v) ∧
      SegmentsMatchRows (placeholder (finitePart d1)) (placeholder (finitePart d2))
        (fun idx => if idx = maxIdx then .matchMax else .matchOther) rows segs ∧
      segs.length = ((indexed 0 rows).filter drawn).length := by
  unfold bottleneckMatching bottleneckMatchingWith at h
  split at h
  · cases h
  · rename_i pd hpd
    split at h
    · cases h
    · rename_i maxIdx hmax
      split at h
      · cases h
      · rename_i segs hsegs
        simp only [Except.ok.injEq] at h
        obtain ⟨v, hv1, hv2, hv3⟩ := argmax?_spec hmax
        have hf := segments_ok hc hs (bnStyle maxIdx) (fun _ => Axes.given) rows 0 segs hsegs
        refine ⟨pd, segs, maxIdx, v, hpd, h.symm, ?_, ⟨hv1, hv2, hv3⟩, ?_, hf.length_eq.symm⟩
        · subst h
          intro a ha
          rcases List.mem_append.mp ha with ha | ha
          · exact diagram_plot_on_given_axes hpd a ha
          · obtain ⟨ir, _, xs, ys, rfl, _⟩ := forall₂_mem_right hf a ha
            rfl
        · exact hf

/-- **Wasserstein matching plot**, for diagrams WITH or without points of infinite death: the segments
    (all green, all on the GIVEN axes, one per row that is not `(-1,-1)`, joining points of the
    FINITE-DEATH sub-diagrams) followed by the diagram plot of the UNFILTERED diagrams (an empty one replaced
    by the `(0,0)` placeholder) on the same axes. -/
theorem segments_match_rows_wasserstein {cast : K → K} {c s : K} {d1 d2 : Dgm K}
    {rows : List (Row K)} {labels : List String} {fig : Fig K} (hc : c * c = 1 / 2) (hs : s = c)
    (h : wassersteinMatching cast c s d1 d2 rows labels = .ok fig) :
    ∃ pd segs,
      plotDiagrams cast (.many [placeholderD d1, placeholderD d2]) (matchOpts labels) = .ok pd ∧
      fig = { pd with artists := segs ++ pd.artists } ∧
      (∀ a ∈ fig.artists, axesOf a = .given) ∧
      SegmentsMatchRows (placeholder (finitePart d1)) (placeholder (finitePart d2)) (fun _ => .wass) rows segs ∧
      segs.length = ((indexed 0 rows).filter drawn).length := by
  unfold wassersteinMatching wassersteinMatchingWith at h
  split at h
  · cases h
  · rename_i segs hsegs
    split at h
    · cases h
    · rename_i pd hpd
      simp only [Except.ok.injEq] at h
      have hf := segments_ok hc hs (fun _ => Style.wass) (fun _ => Axes.given) rows 0 segs hsegs
      refine ⟨pd, segs, hpd, h.symm, ?_, hf, hf.length_eq.symm⟩
      subst h
      intro a ha
      rcases List.mem_append.mp ha with ha | ha
      · obtain ⟨ir, _, xs, ys, rfl, _⟩ := forall₂_mem_right hf a ha
        rfl
      · exact diagram_plot_on_given_axes hpd a ha

/-- the drawn rows are exactly the rows `(idx, (i, j, d))` of the matching with `i ≠ -1 ∨ j ≠ -1` -/
theorem drawn_rows_spec (rows : List (Row K)) (ir : Nat × Row K) :
    ir ∈ (indexed 0 rows).filter drawn ↔ rows[ir.1]? = some ir.2 ∧ (ir.2.1 ≠ -1 ∨ ir.2.2.1 ≠ -1) := by
  rw [List.mem_filter, indexed_mem]
  simp [drawn]

/-- the placeholder: an empty diagram is replaced by the single point `(0, 0)` (whose foot is itself) -/
theorem placeholder_spec (d : FDgm K) :
    (d = [] → placeholder d = [(0, 0)]) ∧ (d ≠ [] → placeholder d = d) := by
  constructor
  · rintro rfl; rfl
  · intro h; cases d with
    | nil => exact absurd rfl h
    | cons a t => rfl

/-- the placeholder shown by the Wasserstein plot, and why filtering after it changes nothing -/
theorem placeholderD_spec (d : Dgm K) :
    (d = [] → placeholderD d = [(0, some 0)]) ∧ (d ≠ [] → placeholderD d = d) ∧
    placeholder (finitePart (placeholderD d)) = placeholder (finitePart d) := by
  refine ⟨?_, ?_, ?_⟩
  · rintro rfl; rfl
  · intro h; cases d with
    | nil => exact absurd rfl h
    | cons a t => rfl
  · cases d with
    | nil => rfl
    | cons a t => rfl

/-- the real constants: `c = cos (π/4)`, `s = sin (π/4)` satisfy the hypotheses of the two theorems above -/
theorem real_constants :
    Real.cos (Real.pi / 4) * Real.cos (Real.pi / 4) = 1 / 2 ∧
    Real.sin (Real.pi / 4) = Real.cos (Real.pi / 4) :=
  ⟨cos_pi_div_four_mul_self, sin_pi_div_four_eq_cos⟩

/-! ## 2-D landscape plots -/

private lemma filterMap_if {β γ : Type} (q : β → Bool) (f : β → γ) (l : List β) :
    (l.filterMap fun x => if q x = true then some (f x) else none) = (l.filter q).map f := by
  induction l with
  | nil => rfl
  | cons x t ih =>
    simp only [List.filterMap_cons, List.filter_cons]
    cases hq : q x <;> simp [ih]

/-- is depth `d` kept by `depth_range` (`None` / an empty range keep every depth) -/
def keepDepth (dr : Option (List Nat)) (d : Nat) : Bool :=
  match dr with
  | some (k :: ks) => (k :: ks).contains d
  | _ => true

/-- **one line per kept depth**: the 2-D landscape plots add nothing but lines, all on the given axes;
    there is exactly one per depth `k < number of depths` that `depth_range` keeps, in increasing order of
    `k`, drawn through that depth's abscissae / ordinates and labelled `λ_k`. -/
theorem landscape_lines_spec (fns : List (List K × List K)) (dr : Option (List Nat)) :
    scattersOf (landscapeLines fns dr) = [] ∧
    linesOf (landscapeLines fns dr) =
      ((List.zip (List.range fns.length) fns).filter fun df => keepDepth dr df.1).map
        (fun df => (Axes.given, df.2.1, df.2.2, Style.landscape, some (lambdaLabel df.1))) ∧
    (linesOf (landscapeLines fns dr)).length = ((List.range fns.length).filter (keepDepth dr)).length ∧
    ∀ k (hk : k < fns.length), keepDepth dr k = true →
      (Axes.given, fns[k].1, fns[k].2, Style.landscape, some (lambdaLabel k)) ∈ linesOf (landscapeLines fns dr) := by
  have hl : ∀ (l : List (Nat × (List K × List K))),
      linesOf (l.map fun df => Artist.line Axes.given df.2.1 df.2.2 Style.landscape (some (lambdaLabel df.1)))
        = l.map (fun df => (Axes.given, df.2.1, df.2.2, Style.landscape, some (lambdaLabel df.1))) ∧
      scattersOf (l.map fun df => Artist.line Axes.given df.2.1 df.2.2 Style.landscape (some (lambdaLabel df.1))) = [] := by
    intro l
    induction l with
    | nil => exact ⟨rfl, rfl⟩
    | cons x t ih => simp [linesOf, scattersOf, ih.1, ih.2]
  have heq : landscapeLines fns dr = ((List.zip (List.range fns.length) fns).filter fun df => keepDepth dr df.1).map
      fun df => Artist.line Axes.given df.2.1 df.2.2 Style.landscape (some (lambdaLabel df.1)) := by
    cases dr with
    | none => exact filterMap_if _ _ _
    | some l =>
      cases l with
      | nil => exact filterMap_if _ _ _
      | cons k ks => exact filterMap_if _ _ _
  have hlines := (hl ((List.zip (List.range fns.length) fns).filter fun df => keepDepth dr df.1)).1
  refine ⟨by rw [heq]; exact (hl _).2, by rw [heq]; exact hlines, ?_, ?_⟩
  · rw [heq, hlines, List.length_map]
    have : ((List.zip (List.range fns.length) fns).filter fun df => keepDepth dr df.1)
        = (List.zip ((List.range fns.length)) fns).filter ((keepDepth dr) ∘ Prod.fst) := rfl
    rw [this, ← List.length_map (f := Prod.fst), ← List.filter_map, List.map_fst_zip (by simp)]
  · intro k hk hkeepk
    rw [heq, hlines, List.mem_map]
    refine ⟨(k, fns[k]), List.mem_filter.2 ⟨?_, hkeepk⟩, rfl⟩
    rw [List.mem_iff_getElem]
    exact ⟨k, by simpa using hk, by simp⟩

/-- the exact and the grid-sampled plots are instances: depth `k` of `plot_landscape_simple` for an exact
    landscape goes through its critical points, for a grid landscape through
    `linspace(start, stop, len(values[k]))` × `values[k]` -/
theorem landscape_simple_instances (crit : List (List (K × K))) (natCast : Nat → K) (start stop : K)
    (values : List (List K)) (dr : Option (List Nat)) :
    landscapeExactSimple crit dr = landscapeLines (crit.map fun l => (l.map (·.1), l.map (·.2))) dr ∧
    landscapeApproxSimple natCast start stop values dr =
      landscapeLines (values.map fun l => (linspace natCast start stop l.length, l)) dr :=
  ⟨rfl, rfl⟩

/-- non-vacuity: three depths, `depth_range = [0, 2]` keeps two of them -/
example : linesOf (landscapeExactSimple (α := ℚ) [[(0, 0), (1, 1), (2, 0)], [(0, 0), (2, 0)], [(1, 0)]] (some [0, 2])) =
    [(Axes.given, [0, 1, 2], [0, 1, 0], Style.landscape, some (lambdaLabel 0)),
     (Axes.given, [1], [0], Style.landscape, some (lambdaLabel 2))] := by decide

/-! ## the model rejects only what the code rejects -/

/-- **the model rejects only what the code rejects** (diagram plot): with `plot_only` indices that Python
    accepts for the diagrams and for the label list, at least one plotted diagram, and a range to draw in
    (an explicit `xy_range`, or some plotted diagram with a point) the call succeeds. -/
theorem plotDiagrams_succeeds {cast : K → K} {arg : DgmsArg K} {o : Opts K}
    (hidx : ∀ l, o.plotOnly = some l → ∀ i ∈ l, InRange (asList arg).length i ∧
      InRange (labelList (asList arg).length o.labels).length i)
    (hne : asList arg ≠ [])
    (hrange : o.xyRange ≠ none ∨ ∀ d ∈ asList arg, d ≠ []) :
    ∃ fig, plotDiagrams cast arg o = .ok fig := by
  -- the selection succeeds
  have hsel : ∃ sel labels, Selected arg o sel labels ∧ sel ≠ [] ∧ ∀ d ∈ sel, d ∈ asList arg := by
    unfold Selected select
    match hpo : o.plotOnly with
    | none => exact ⟨_, _, rfl, hne, fun d hd => hd⟩
    | some [] => exact ⟨_, _, rfl, hne, fun d hd => hd⟩
    | some (i :: is) =>
      obtain ⟨ds, hds⟩ := getAll_of_inRange (xs := asList arg) (l := i :: is)
        (fun j hj => (hidx _ hpo j hj).1)
      obtain ⟨ls, hls⟩ := getAll_of_inRange (xs := labelList (asList arg).length o.labels) (l := i :: is)
        (fun j hj => (hidx _ hpo j hj).2)
      refine ⟨ds, ls, by simp only [hds, hls], ?_, ?_⟩
      · intro he
        have := getAll_length hds
        rw [he] at this; simp at this
      · intro d hd
        obtain ⟨j, _, hj⟩ := forall₂_mem_right (getAll_some hds) d hd
        obtain ⟨k, hk, hx, _⟩ := pyGet_some hj
        exact hx ▸ List.getElem_mem hk
  obtain ⟨sel, labels, hs, hsne, hsub⟩ := hsel
  -- a range exists
  have hr : ∃ r, rangeOf o.xyRange (finiteVals (sel.map (castDgm cast))) = some r := by
    match hxy : o.xyRange with
    | some (a, b, c, d) => exact ⟨_, rfl⟩
    | none =>
      have hall : ∀ d ∈ asList arg, d ≠ [] := by
        rcases hrange with h | h
        · exact absurd hxy h
        · exact h
      simp only [rangeOf]
      rw [← Option.isSome_iff_exists, autoRange_isSome]
      cases sel with
      | nil => exact absurd rfl hsne
      | cons d t =>
        have hd : d ≠ [] := hall d (hsub d (by simp))
        cases d with
        | nil => exact absurd rfl hd
        | cons p t' =>
          have : (cast p.1) ∈ finiteVals (((p :: t') :: t).map (castDgm cast)) :=
            birth_mem_finiteVals (d := castDgm cast (p :: t')) (p := (cast p.1, p.2.map cast))
              (by simp) (by simp [castDgm])
          cases hfv : finiteVals (((p :: t') :: t).map (castDgm cast)) with
          | nil => rw [hfv] at this; cases this
          | cons _ _ => rfl
  obtain ⟨r, hr⟩ := hr
  exact ⟨_, plotDiagrams_of hs hsne hr⟩

private lemma range_of_two {cast : K → K} {labels : List String} (d1 d2 : Dgm K) (hd : d1 ≠ [] ∨ d2 ≠ []) :
    ∃ r, rangeOf (matchOpts (α := K) labels).xyRange (finiteVals ([d1, d2].map (castDgm cast))) = some r := by
  simp only [matchOpts, rangeOf]
  rw [← Option.isSome_iff_exists, autoRange_isSome]
  have key : ∀ (d : Dgm K), d ∈ [d1, d2] → d ≠ [] → finiteVals ([d1, d2].map (castDgm cast)) ≠ [] := by
    intro d hd' hne
    cases d with
    | nil => exact absurd rfl hne
    | cons p t =>
      have : cast p.1 ∈ finiteVals ([d1, d2].map (castDgm cast)) :=
        birth_mem_finiteVals (d := castDgm cast (p :: t)) (p := (cast p.1, p.2.map cast))
          (List.mem_map_of_mem hd') (by simp [castDgm])
      intro hnil; rw [hnil] at this; cases this
  have hne : finiteVals ([d1, d2].map (castDgm cast)) ≠ [] := by
    rcases hd with h | h
    · exact key d1 (by simp) h
    · exact key d2 (by simp) h
  cases hfv : finiteVals ([d1, d2].map (castDgm cast)) with
  | nil => exact absurd hfv hne
  | cons _ _ => rfl

/-- **the bottleneck matching plot succeeds on every valid request**: a non-empty matching whose indices
    Python accepts for the finite-death sub-diagrams (placeholder-substituted), not both diagrams empty.
    (`-1` is always accepted.)  Both-empty diagrams are rejected by the code (`np.min` of nothing in
    `plot_diagrams`).  Infinite points are welcome: their births give the range. -/
theorem bottleneckMatching_succeeds {cast : K → K} {c s : K} {d1 d2 : Dgm K} {rows : List (Row K)}
    {labels : List String} (hrows : rows ≠ []) (hd : d1 ≠ [] ∨ d2 ≠ [])
    (hidx : ∀ r ∈ rows, InRange (placeholder (finitePart d1)).length r.1 ∧
      InRange (placeholder (finitePart d2)).length r.2.1) :
    ∃ fig, bottleneckMatching cast c s d1 d2 rows labels = .ok fig := by
  have hpd : ∃ pd, plotDiagrams cast (.many [d1, d2]) (matchOpts labels) = .ok pd := by
    have hs : Selected (K := K) (.many [d1, d2]) (matchOpts labels) [d1, d2] labels := rfl
    obtain ⟨r, hr⟩ := range_of_two (cast := cast) (labels := labels) d1 d2 hd
    exact ⟨_, plotDiagrams_of hs (by simp) hr⟩
  obtain ⟨pd, hpd⟩ := hpd
  obtain ⟨m, hm⟩ : ∃ m, argmax? (rows.map fun r => r.2.2) = some m := by
    rw [← Option.isSome_iff_exists, argmax?_isSome]
    cases rows with
    | nil => exact absurd rfl hrows
    | cons _ _ => rfl
  obtain ⟨segs, hsegs⟩ := segments_succeeds (c := c) (s := s) (bnStyle m) (fun _ => Axes.given) rows 0 hidx
  exact ⟨_, by simp only [bottleneckMatching, bottleneckMatchingWith, hpd, hm, hsegs]; rfl⟩

/-- **the Wasserstein matching plot succeeds** on every matching (even an empty one, even two empty
    diagrams) whose indices Python accepts for the finite-death sub-diagrams (placeholder-substituted). -/
theorem wassersteinMatching_succeeds {cast : K → K} {c s : K} {d1 d2 : Dgm K} {rows : List (Row K)}
    {labels : List String}
    (hidx : ∀ r ∈ rows, InRange (placeholder (finitePart d1)).length r.1 ∧
      InRange (placeholder (finitePart d2)).length r.2.1) :
    ∃ fig, wassersteinMatching cast c s d1 d2 rows labels = .ok fig := by
  obtain ⟨segs, hsegs⟩ := segments_succeeds (c := c) (s := s) (fun _ => Style.wass) (fun _ => Axes.given) rows 0 hidx
  have hpd : ∃ pd, plotDiagrams cast (.many [placeholderD d1, placeholderD d2]) (matchOpts labels) = .ok pd := by
    have hs : Selected (K := K) (.many [placeholderD d1, placeholderD d2]) (matchOpts labels)
        [placeholderD d1, placeholderD d2] labels := rfl
    have hne : placeholderD d1 ≠ [] := by cases d1 <;> simp [placeholderD]
    obtain ⟨r, hr⟩ := range_of_two (cast := cast) (labels := labels) (placeholderD d1) (placeholderD d2) (Or.inl hne)
    exact ⟨_, plotDiagrams_of hs (by simp) hr⟩
  obtain ⟨pd, hpd⟩ := hpd
  exact ⟨_, by simp only [wassersteinMatching, wassersteinMatchingWith, hsegs, hpd]; rfl⟩


/-- non-vacuity of the two matching theorems at `ℝ` with the real constants: diagrams WITH points of
    infinite death, rows of all three kinds and a `(-1,-1)` row (indices refer to the finite-death points) -/
example : (∃ fig, bottleneckMatching (α := ℝ) id (Real.cos (Real.pi / 4)) (Real.sin (Real.pi / 4))
      [(0, none), (0, some 1), (2, some 5)] [(1, some 3), (7, none)]
      [(0, -1, 1 / 2), (-1, 0, 1), (-1, -1, 0), (1, 0, 2)] ["a", "b"] = .ok fig) ∧
    (∃ fig, wassersteinMatching (α := ℝ) id (Real.cos (Real.pi / 4)) (Real.sin (Real.pi / 4))
      [(4, none)] [(1, some 3)] [(0, -1, 0), (-1, 0, 1)] ["a", "b"] = .ok fig) := by
  refine ⟨bottleneckMatching_succeeds (by simp) (Or.inl (by simp)) ?_, wassersteinMatching_succeeds ?_⟩
  · simp [InRange, placeholder, finitePart]
  · simp [InRange, placeholder, finitePart]

/-- non-vacuity of the three `_succeeds` theorems (at `ℝ`, with the real constants) -/
example : (∃ fig, plotDiagrams (α := ℝ) id (.many [[(0, some 1), (1, none)], [(1 / 2, some 3)]])
      { plotOnly := some [-1, 0], labels := .one "abc" } = .ok fig) ∧
    (∃ fig, bottleneckMatching (α := ℝ) id (Real.cos (Real.pi / 4)) (Real.sin (Real.pi / 4))
      [(5, none)] [(1, some 3), (2, none)] [(0, -1, 0), (-1, 0, 1), (-1, -1, 0)] ["a", "b"] = .ok fig) ∧
    (∃ fig, wassersteinMatching (α := ℝ) id (Real.cos (Real.pi / 4)) (Real.sin (Real.pi / 4))
      [] [(3, none)] [(0, 0, 0)] ["a", "b"] = .ok fig) := by
  refine ⟨plotDiagrams_succeeds ?_ (by simp [asList]) (Or.inr (by simp [asList])),
    bottleneckMatching_succeeds (by simp) (Or.inr (by simp)) ?_, wassersteinMatching_succeeds ?_⟩
  · intro l hl i hi
    simp only [Option.some.injEq] at hl
    subst hl
    simp only [List.mem_cons, List.not_mem_nil, or_false] at hi
    rcases hi with rfl | rfl <;> simp [InRange, asList, labelList]
  · simp [InRange, placeholder, finitePart]
  · simp [InRange, placeholder, finitePart]

/-! ## the code before the fixes (regression witnesses) -/

/-- before /repo 64802c3 (`plt.plot` in the `i == -1` branch): a row with `i = −1` lands on pyplot's
    CURRENT axes, not on the given one -/
theorem old_axes_counterexample :
    (match bottleneckMatchingOld (α := Int) id 1 1 [(0, some 1)] [(1, some 3)] [(0, -1, 1), (-1, 0, 2)] ["a", "b"] with
      | .ok fig => fig.artists.any fun a => decide (axesOf a = .current)
      | .error _ => false) = true ∧
    (match wassersteinMatchingOld (α := Int) id 1 1 [(0, some 1)] [(1, some 3)] [(0, -1, 1), (-1, 0, 2)] ["a", "b"] with
      | .ok fig => fig.artists.any fun a => decide (axesOf a = .current)
      | .error _ => false) = true ∧
    (match bottleneckMatching (α := Int) id 1 1 [(0, some 1)] [(1, some 3)] [(0, -1, 1), (-1, 0, 2)] ["a", "b"] with
      | .ok fig => fig.artists.all fun a => decide (axesOf a = .given)
      | .error _ => false) = true := by decide

/-- before /repo 3ef18e2 the rows indexed the diagrams AS PASSED although `bottleneck` / `wasserstein`
    number only the points with finite death: for `dgm1 = [(0,∞), (1,2)]`, `dgm2 = [(1,3)]` and the row
    `(0, 0)` returned for them, the segment must join `(1,2)` and `(1,3)`; the old code drew it from
    `(0, ∞)` (the stand-in `1000` plays the float `inf`).  The scatter plots are the same. -/
theorem old_matching_index_counterexample :
    (match bottleneckMatching (α := Int) id 1 1 [(0, none), (1, some 2)] [(1, some 3)] [(0, 0, 1)] ["a", "b"] with
      | .ok fig => decide ((linesOf fig.artists).filter (fun l => decide (l.2.2.2.1 = Style.matchMax))
          = [(Axes.given, [1, 1], [2, 3], Style.matchMax, none)])
      | .error _ => false) = true ∧
    (match bottleneckMatchingIdxOld (α := Int) 1000 id 1 1 [(0, none), (1, some 2)] [(1, some 3)] [(0, 0, 1)] ["a", "b"] with
      | .ok fig => decide ((linesOf fig.artists).filter (fun l => decide (l.2.2.2.1 = Style.matchMax))
          = [(Axes.given, [0, 1], [1000, 3], Style.matchMax, none)])
      | .error _ => false) = true ∧
    (match wassersteinMatching (α := Int) id 1 1 [(0, none), (1, some 2)] [(1, some 3)] [(0, 0, 1)] ["a", "b"] with
      | .ok fig => decide ((linesOf fig.artists).filter (fun l => decide (l.2.2.2.1 = Style.wass))
          = [(Axes.given, [1, 1], [2, 3], Style.wass, none)])
      | .error _ => false) = true ∧
    (match wassersteinMatchingIdxOld (α := Int) 1000 id 1 1 [(0, none), (1, some 2)] [(1, some 3)] [(0, 0, 1)] ["a", "b"] with
      | .ok fig => decide ((linesOf fig.artists).filter (fun l => decide (l.2.2.2.1 = Style.wass))
          = [(Axes.given, [0, 1], [1000, 3], Style.wass, none)])
      | .error _ => false) = true ∧
    (match bottleneckMatching (α := Int) id 1 1 [(0, none), (1, some 2)] [(1, some 3)] [(0, 0, 1)] ["a", "b"],
           bottleneckMatchingIdxOld (α := Int) 1000 id 1 1 [(0, none), (1, some 2)] [(1, some 3)] [(0, 0, 1)] ["a", "b"] with
      | .ok f, .ok g => decide (scattersOf f.artists = scattersOf g.artists)
      | _, _ => false) = true := by decide

/-- before /repo 59a7acc (`plot_only` applied before a single string label is broadcast):
    `labels="abc", plot_only=[1]` labels the scatter `"b"`, and `labels="a"` raises `IndexError` -/
theorem old_label_chars_counterexample :
    (match plotDiagramsOld (α := Int) id (.many [[(0, some 1)], [(0, some 2)]])
        { labels := .one "abc", plotOnly := some [1] } with
      | .ok fig => (scattersOf fig.artists).map fun s => s.2.2
      | .error _ => []) = ["b"] ∧
    (match plotDiagrams (α := Int) id (.many [[(0, some 1)], [(0, some 2)]])
        { labels := .one "abc", plotOnly := some [1] } with
      | .ok fig => (scattersOf fig.artists).map fun s => s.2.2
      | .error _ => []) = ["abc"] ∧
    (match plotDiagramsOld (α := Int) id (.many [[(0, some 1)], [(0, some 2)]])
        { labels := .one "a", plotOnly := some [1] } with
      | .ok _ => false
      | .error e => decide (e = .index)) = true := by decide

end PersimVerif.C20
