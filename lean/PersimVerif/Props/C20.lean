import PersimVerif.Model.Plot

/-! # C20 — plots draw exactly the data and matchings they are given (theorems follow) -/
namespace PersimVerif.C20
open PersimVerif.Plot

end PersimVerif.C20
