import PersimVerif.Model.Wasserstein
namespace PersimVerif.C02
end PersimVerif.C02
