import PersimVerif.Lemmas.WassersteinModel
import PersimVerif.Lemmas.WassersteinDual
import PersimVerif.Lemmas.WassersteinExh
import Mathlib.Analysis.SpecialFunctions.Trigonometric.Basic
import Mathlib.Tactic.Choose
import Mathlib.Tactic.NormNum

/-!
# C02 — the Wasserstein distance returned is the true min-sum matching cost

Model: `PersimVerif.Wasserstein.wasserstein` (`Model/Wasserstein.lean`, a line-by-line model of
`persim/wasserstein.py`).  Specification: `PersimVerif.Spec.IsMinSum` over partial matchings
(`Spec/Matching.lean`, no matrix, no algorithm) with the costs `euclid` (Euclidean distance of two
points) and `diagL2` (`(d-b)/√2`, the perpendicular distance to the diagonal).

Parameters of the theorems, each with an explicit contract:
* `sqrt`  — `SqrtSpec sqrt`: `0 ≤ sqrt x` and `sqrt x * sqrt x = x` for `0 ≤ x`;
* `lsa = scipy.optimize.linear_sum_assignment` — `LsaContract lsa`: on a square matrix that has an
  assignment of finite cost it returns `zip(arange n, σ)` for a permutation `σ` of minimum cost.
  Its optimality is *not* proved here; the harness certifies it on every run (`dualCheck_sound`).

The statements hold over every ordered field; `…_real` instantiates them at `ℝ` with `Real.sqrt`
(since the /repo fix of the diagonal cost the code has no `cos(π/4)`, `sin(π/4)` any more: the cost is
`(d-b)/np.sqrt(2)` as written, and the former parameter `c` with its contract `CosSpec` is gone).  Nothing here is about floating point.

Remark on `b ≤ d`: the identity "value = min-sum cost" needs no ordering of the coordinates (for
`d < b` both the code's and the specification's diagonal cost `(d-b)/√2` are the same negative
number); `b ≤ d` is what makes `diagL2` the *distance* to the diagonal (`diag_cost_is_distance`) and
every cost non-negative (`costs_nonneg`).
-/
namespace PersimVerif.C02
open PersimVerif.Wasserstein PersimVerif.Spec PersimVerif.Aug PersimVerif.WsLemmas

/-! ### 1. augmented matrix = partial matchings -/

section aug
variable {M N K : Type} [Fintype M] [Fintype N] [DecidableEq M] [DecidableEq N]
  [AddCommMonoid K] [LinearOrder K]

/-- **[P] `aug_minsum_eq_pm`.**  `w` is the minimum of `PM.sumCost` over all partial matchings iff
    `w` is the minimum cost of a perfect assignment (rows `M ⊕ N` → columns `N ⊕ M`) of the augmented
    matrix with entries in `WithTop K`: the two minima coincide.  (`toEquiv` / `ofEquiv` are the two
    directions; an assignment through a `⊤` entry costs `⊤`; the zero block contributes `0`.) -/
theorem aug_minsum_eq_pm (c : M → N → K) (u : M → K) (v : N → K) (w : K) :
    IsMinSum c u v w ↔
      ((∃ σ : M ⊕ N ≃ N ⊕ M, ∑ x, augD c u v x (σ x) = (w : WithTop K)) ∧
        ∀ σ : M ⊕ N ≃ N ⊕ M, (w : WithTop K) ≤ ∑ x, augD c u v x (σ x)) :=
  isMinSum_iff_aug c u v w

omit [LinearOrder K] in
/-- the partial matching ↦ perfect assignment direction, cost-preserving -/
theorem pm_to_assignment_cost (c : M → N → K) (u : M → K) (v : N → K) (p : PM M N) :
    ∑ x, augD c u v x (toEquiv p x) = (p.sumCost c u v : K) :=
  sum_aug_toEquiv c u v p

omit [LinearOrder K] in
/-- the perfect assignment ↦ partial matching direction, cost-preserving when all selected entries
    are finite -/
theorem assignment_to_pm_cost (c : M → N → K) (u : M → K) (v : N → K) (σ : M ⊕ N ≃ N ⊕ M)
    (hfin : ∀ x, augD c u v x (σ x) ≠ ⊤) :
    ∑ x, augD c u v x (σ x) = ((ofEquiv σ).sumCost c u v : K) :=
  sum_aug_ofEquiv c u v σ hfin

/-- the minimum exists (so "the min-sum matching cost" denotes a number) … -/
theorem minsum_exists (c : M → N → K) (u : M → K) (v : N → K) : ∃ w, IsMinSum c u v w :=
  exists_isMinSum c u v

omit [DecidableEq M] [DecidableEq N] in
/-- … and is unique -/
theorem minsum_unique (c : M → N → K) (u : M → K) (v : N → K) (w w' : K)
    (h : IsMinSum c u v w) (h' : IsMinSum c u v w') : w = w' := by
  obtain ⟨⟨p, hp⟩, hle⟩ := h
  obtain ⟨⟨p', hp'⟩, hle'⟩ := h'
  exact le_antisymm (hp' ▸ hle p') (hp ▸ hle' p)

end aug

-- non-vacuity: a 2 + 1 instance over ℚ whose optimum pairs one point and sends the other to the diagonal
example : IsMinSum (M := Fin 2) (N := Fin 1) (fun i _ => if i = 0 then (1 : ℚ) else 5)
    (fun i => if i = 0 then 3 else 2) (fun _ => 4) 3 := by
  rw [aug_minsum_eq_pm]
  refine ⟨⟨toEquiv ⟨fun i => if i = 0 then some 0 else none, fun _ => some 0, by decide⟩, by decide +kernel⟩, ?_⟩
  decide +kernel

/-! ### 2. the diagonal cost -/

section rot
variable {K : Type} [Field K] [LinearOrder K] [IsStrictOrderedRing K]

omit [LinearOrder K] [IsStrictOrderedRing K] in
/-- **[P] `diag_cost_entry`.**  The entry the code puts on the diagonal of the `UR` / `UL` blocks for the
    point `(b,d)`, `(S[:, 1] - S[:, 0]) / np.sqrt(2)`, is `(d−b)/√2` — the specification's `diagL2` as
    written, for every `sqrt` (until the /repo fix of the diagonal cost this was the second coordinate
    of `(b,d)` rotated by `π/4`, `c·d − c·b`, equal to `(d−b)/√2` only through `c·c = 1/2`, `c ≥ 0`). -/
theorem diag_cost_entry (sqrt : K → K) (b d : K) :
    diagc sqrt (b, d) = (d - b) / sqrt 2 ∧ diagc sqrt (b, d) = diagL2 sqrt (b, d) := ⟨rfl, rfl⟩

omit [LinearOrder K] [IsStrictOrderedRing K] in
/-- … and that is what stands in the model's matrix: row `i` of `S` against its own diagonal column,
    column `j` of `T` against its own diagonal row -/
theorem augEntry_diag (sqrt : K → K) (S T : List (K × K)) :
    (∀ i (hi : i < S.length), augEntry sqrt S T i (T.length + i) = some ((S[i].2 - S[i].1) / sqrt 2)) ∧
    (∀ j (hj : j < T.length), augEntry sqrt S T (S.length + j) j = some ((T[j].2 - T[j].1) / sqrt 2)) := by
  refine ⟨fun i hi => ?_, fun j hj => ?_⟩
  · have h1 : ¬ (T.length + i < T.length) := by omega
    simp [augEntry, hi, h1, diagc]
  · have h1 : ¬ (S.length + j < S.length) := by omega
    simp [augEntry, hj, h1, diagc]

theorem sqrtSpec_real : SqrtSpec Real.sqrt :=
  ⟨fun x _ => Real.sqrt_nonneg x, fun _ hx => Real.mul_self_sqrt hx⟩

/-- over `ℝ` with `Real.sqrt`: the entry put on the diagonal of the `UR`/`UL` blocks is `(d−b)/√2` -/
theorem diag_cost_entry_real (b d : ℝ) : diagc Real.sqrt (b, d) = (d - b) / Real.sqrt 2 := rfl

/-- for `b ≤ d` the diagonal cost is the Euclidean distance to the nearest diagonal point (the foot
    of the perpendicular), and no diagonal point is nearer -/
theorem diag_cost_is_distance (sqrt : K → K) (hs : SqrtSpec sqrt) (p : K × K) (h : p.1 ≤ p.2) :
    euclid sqrt p ((p.1 + p.2) / 2, (p.1 + p.2) / 2) = diagL2 sqrt p ∧
      ∀ x, diagL2 sqrt p ≤ euclid sqrt p (x, x) :=
  ⟨euclid_foot hs p h, fun x => diagL2_le_euclid_diag' hs p x⟩

/-- for diagrams with `b ≤ d` every cost of the specification is non-negative -/
theorem costs_nonneg (sqrt : K → K) (hs : SqrtSpec sqrt) (S T : List (K × K))
    (hS : ∀ p ∈ S, p.1 ≤ p.2) :
    (∀ i j, 0 ≤ pairCost sqrt S T i j) ∧ ∀ i, 0 ≤ diagCost sqrt S i :=
  ⟨fun _ _ => euclid_nonneg hs _ _, fun i => diagL2_nonneg hs _ (hS _ (List.get_mem S i))⟩

end rot

example : diagc Real.sqrt ((1 : ℝ), 3) = 2 / Real.sqrt 2 := by
  rw [diag_cost_entry_real]; norm_num

/-! ### 3. weak duality: the certificate checked by `cert.dual` -/

section dual
variable {R C K : Type} [Fintype R] [Fintype C] [AddCommMonoid K] [LinearOrder K] [IsOrderedAddMonoid K]

/-- **[P] `dual_cert_sound`.**  Potentials with `a i + b j ≤ D i j` everywhere and
    `Σ a + Σ b = cost σ` make `σ` a minimum-cost assignment. -/
theorem dual_cert_sound (D : R → C → WithTop K) (a : R → K) (b : C → K) (σ : R ≃ C)
    (hfeas : ∀ i j, ((a i + b j : K) : WithTop K) ≤ D i j)
    (hcost : ∑ i, D i (σ i) = (((∑ i, a i) + ∑ j, b j : K) : WithTop K)) (τ : R ≃ C) :
    ∑ i, D i (σ i) ≤ ∑ i, D i (τ i) :=
  hcost ▸ weak_duality D a b hfeas τ

end dual

section dualcheck
variable {K : Type} [Field K] [LinearOrder K] [IsStrictOrderedRing K]

/-- **the executable checker is sound**: when `dualCheck D cols a b` (what the driver runs at `Rat`
    for `cert.dual`) answers `some w`, then `D` is a square `n × n` matrix, `cols` is a permutation
    `σ` of `0..n-1` whose assignment costs exactly `w`, and no permutation is cheaper — `w` is the
    optimum of the linear sum assignment problem on `D`. -/
theorem dualCheck_sound (D : Mat K) (cols : List Nat) (a b : List K) (w : K)
    (h : dualCheck D cols a b = some w) :
    ∃ σ : Equiv.Perm (Fin D.length), (∀ i : Fin D.length, cols[i.val]? = some (σ i).val) ∧
      ∑ i, matFn D i (σ i) = (w : WithTop K) ∧
      ∀ τ : Equiv.Perm (Fin D.length), (w : WithTop K) ≤ ∑ i, matFn D i (τ i) :=
  dualCheck_sound' D cols a b w h

end dualcheck

-- non-vacuity: a certificate that the checker accepts, and a wrong one it rejects (evaluated at ℤ)
example : dualCheck (α := ℤ) [[some 1, some 2], [some 2, none]] [1, 0] [0, 1] [1, 2] = some 4 := by
  decide
example : dualCheck (α := ℤ) [[some 1, some 2], [some 2, none]] [1, 0] [0, 0] [2, 2] = none := by
  decide

/-! ### 4. the contract of `linear_sum_assignment` is satisfiable -/

section lsa
variable {K : Type} [AddCommMonoid K] [LinearOrder K]

/-- non-vacuity of the hypothesis `LsaContract lsa`: an assignment solver meeting the contract
    exists (finitely many permutations, so a cheapest one exists) -/
theorem lsaContract_satisfiable : ∃ lsa : Mat K → List (Nat × Nat), LsaContract lsa := by
  classical
  have key : ∀ L : Mat K, ∃ out : List (Nat × Nat),
      ∀ (n : Nat) (D : Fin n → Fin n → Option K),
        L = (List.ofFn fun i => List.ofFn fun j => D i j) →
        (∃ σ : Equiv.Perm (Fin n), ∀ i, D i (σ i) ≠ none) →
        ∃ σ : Equiv.Perm (Fin n), out = List.ofFn (fun i => (i.val, (σ i).val)) ∧
          ∀ τ : Equiv.Perm (Fin n), ∑ i, toTop (D i (σ i)) ≤ ∑ i, toTop (D i (τ i)) := by
    intro L
    by_cases hL : ∃ (n : Nat) (D : Fin n → Fin n → Option K),
        L = (List.ofFn fun i => List.ofFn fun j => D i j)
    · obtain ⟨n, D, rfl⟩ := hL
      obtain ⟨σ, -, hσ⟩ := Finset.exists_min_image (Finset.univ : Finset (Equiv.Perm (Fin n)))
        (fun σ => ∑ i, toTop (D i (σ i))) ⟨1, Finset.mem_univ _⟩
      refine ⟨List.ofFn (fun i => (i.val, (σ i).val)), fun n' D' hEq _ => ?_⟩
      have hn : n = n' := by simpa using congrArg List.length hEq
      subst hn
      have hD : D = D' := by
        funext i j
        have h1 := congrFun (List.ofFn_injective hEq) i
        exact congrFun (List.ofFn_injective h1) j
      subst hD
      exact ⟨σ, rfl, fun τ => hσ τ (Finset.mem_univ _)⟩
    · exact ⟨[], fun n D hEq _ => absurd ⟨n, D, hEq⟩ hL⟩
  choose lsa hlsa using key
  exact ⟨lsa, fun n D hfeas => hlsa _ n D rfl hfeas⟩

/-- a *computable* solver meeting the contract: the exhaustive search `exhLsa` that the driver runs
    for `ws.exh` (it returns a valid assignment whenever a finite one exists and none is cheaper) -/
theorem exhLsa_contract [IsOrderedAddMonoid K] : LsaContract (K := K) exhLsa :=
  exhLsa_contract'

end lsa

-- the exhaustive solver on a concrete matrix with an `np.inf` entry (evaluated at ℤ)
example : exhLsa (α := ℤ) [[some 1, some 2], [some 2, none]] = [(0, 1), (1, 0)] := by decide
example : exhLsa (α := ℤ) [[some 5, some 1, none], [some 1, some 5, some 2], [none, some 1, some 0]]
    = [(0, 1), (1, 0), (2, 2)] := by decide

/-! ### 5. the main theorem -/

section main
variable {K : Type} [Field K] [LinearOrder K] [IsStrictOrderedRing K]

/-- `w` is the min-sum matching cost between the finite diagrams `S` and `T`: the minimum, over all
    ways of pairing points of `S` with points of `T` or with the diagonal, of
    Σ Euclidean distances of the pairs + Σ `(d-b)/√2` of the unpaired points of both sides -/
def SpecW (sqrt : K → K) (S T : List (K × K)) (w : K) : Prop :=
  IsMinSum (pairCost sqrt S T) (diagCost sqrt S) (diagCost sqrt T) w

/-- **the `(0,0)` placeholder of an empty side never changes the min-sum cost** (lines 67-72) -/
theorem placeholder_irrelevant (sqrt : K → K) (hs : SqrtSpec sqrt) (S T : List (K × K)) (w : K) :
    SpecW sqrt (orPlaceholder S) (orPlaceholder T) w ↔ SpecW sqrt S T w := by
  have h0 : ∀ i : Fin 1, diagCost sqrt [((0 : K), (0 : K))] i = 0 := fun i => by
    have : i = 0 := Subsingleton.elim _ _
    subst this; simp [diagCost, diagL2]
  have hg : ∀ i : Fin 1, ([((0 : K), (0 : K))] : List (K × K)).get i = (0, 0) := fun i => by
    have : i = 0 := Subsingleton.elim _ _
    subst this; rfl
  have hU : Unique (Fin ([((0 : K), (0 : K))] : List (K × K)).length) := inferInstanceAs (Unique (Fin 1))
  have hE : IsEmpty (Fin ([] : List (K × K)).length) := inferInstanceAs (IsEmpty (Fin 0))
  rcases S with _ | ⟨p, S⟩ <;> rcases T with _ | ⟨q, T⟩
  · -- both empty: `[(0,0)]` against `[(0,0)]`
    change SpecW sqrt [((0 : K), (0 : K))] [((0 : K), (0 : K))] w ↔ SpecW sqrt [] [] w
    unfold SpecW
    rw [isMinSum_unique_left _ _ _ (h0 _) (fun j => by rw [h0]; exact euclid_nonneg hs _ _),
      isMinSum_isEmpty_left]
    simp [h0]
  · -- left side empty
    change SpecW sqrt [((0 : K), (0 : K))] (q :: T) w ↔ SpecW sqrt [] (q :: T) w
    unfold SpecW
    rw [isMinSum_unique_left _ _ _ (h0 _) (fun j => by
        unfold diagCost pairCost; rw [hg]; exact diagL2_le_euclid_diag hs _ 0),
      isMinSum_isEmpty_left]
  · -- right side empty
    change SpecW sqrt (p :: S) [((0 : K), (0 : K))] w ↔ SpecW sqrt (p :: S) [] w
    unfold SpecW
    rw [isMinSum_unique_right _ _ _ (h0 _) (fun i => by
        unfold diagCost pairCost; rw [hg]; exact diagL2_le_euclid_diag' hs _ 0),
      isMinSum_isEmpty_right]
  · rfl

/-- **[P] `wasserstein_eq_spec` (general form).**  For all diagrams `d1 d2` of every size (including
    0, with arbitrary multiplicities, diagonal points and points with non-finite death), every
    square-root function and EVERY assignment solver `lsa` meeting its contract, the
    routine returns a finite value `w`, `w` is the min-sum matching cost of the finite parts of the
    two diagrams, and the warning flags say exactly whether something was dropped. -/
theorem wasserstein_eq_spec_dgm (sqrt : K → K) (hs : SqrtSpec sqrt)
    (lsa : Mat K → List (Nat × Nat)) (hl : LsaContract lsa) (d1 d2 : Dgm K) :
    ∃ w rows, wasserstein sqrt lsa d1 d2 = .ok ⟨some w, warned d1, warned d2, rows⟩ ∧
      SpecW sqrt (finitePart d1) (finitePart d2) w := by
  obtain ⟨sel, w, hsel, hsum, hmin⟩ := model_value (prepared d1) (prepared d2) hs lsa hl
  refine ⟨w, rowsOf (prepared d1).length (prepared d2).length
    (lsa (augMatrix sqrt (prepared d1) (prepared d2))) sel, ?_, ?_⟩
  · simp only [wasserstein, hsel, hsum]
  · exact (placeholder_irrelevant sqrt hs _ _ w).mp hmin

/-- **[P] `wasserstein_eq_spec`.**  For all finite diagrams `S`, `T` — all sizes including 0,
    repeated and diagonal points, every numeric scale — and EVERY `lsa` satisfying the contract:
    the returned value is the min-sum matching cost with the costs `euclid`, `diagL2`, `diagL2`,
    and no warning is emitted. -/
theorem wasserstein_eq_spec (sqrt : K → K) (hs : SqrtSpec sqrt)
    (lsa : Mat K → List (Nat × Nat)) (hl : LsaContract lsa) (S T : List (K × K)) :
    ∃ w rows, wasserstein sqrt lsa (lift S) (lift T) = .ok ⟨some w, false, false, rows⟩ ∧
      IsMinSum (fun (i : Idx S) (j : Idx T) => euclid sqrt (S.get i) (T.get j))
        (fun i => diagL2 sqrt (S.get i)) (fun j => diagL2 sqrt (T.get j)) w := by
  obtain ⟨w, rows, h1, h2⟩ := wasserstein_eq_spec_dgm sqrt hs lsa hl (lift S) (lift T)
  rw [warned_lift, warned_lift] at h1
  rw [finitePart_lift, finitePart_lift] at h2
  exact ⟨w, rows, h1, h2⟩

/-- the statement of the task for diagrams with `b ≤ d` (the hypothesis is not needed, see the
    remark in the header; kept as the form in which the property is usually quoted) -/
theorem wasserstein_eq_spec_of_le (sqrt : K → K) (hs : SqrtSpec sqrt)
    (lsa : Mat K → List (Nat × Nat)) (hl : LsaContract lsa) (S T : List (K × K))
    (_hS : ∀ p ∈ S, p.1 ≤ p.2) (_hT : ∀ p ∈ T, p.1 ≤ p.2) :
    ∃ w rows, wasserstein sqrt lsa (lift S) (lift T) = .ok ⟨some w, false, false, rows⟩ ∧
      SpecW sqrt S T w ∧ 0 ≤ w := by
  obtain ⟨w, rows, h1, h2⟩ := wasserstein_eq_spec sqrt hs lsa hl S T
  refine ⟨w, rows, h1, h2, ?_⟩
  obtain ⟨⟨p, hp⟩, -⟩ := h2
  rw [← hp]
  have hS := costs_nonneg sqrt hs S T _hS
  have hT := costs_nonneg sqrt hs T S _hT
  refine add_nonneg (Finset.sum_nonneg fun i _ => ?_) (Finset.sum_nonneg fun j _ => ?_)
  · unfold PM.rowCost; split
    · exact euclid_nonneg hs _ _
    · exact hS.2 i
  · unfold PM.colCost; split
    · exact le_rfl
    · exact hT.2 j

/-- the model run with the exhaustive solver — exactly what the driver command `ws.exh` executes (at
    `Float`) — returns the min-sum matching cost: instance `lsa := exhLsa` of the main theorem -/
theorem exhaustive_model_eq_spec (sqrt : K → K) (hs : SqrtSpec sqrt)
    (d1 d2 : Dgm K) :
    ∃ w rows, wasserstein sqrt exhLsa d1 d2 = .ok ⟨some w, warned d1, warned d2, rows⟩ ∧
      SpecW sqrt (finitePart d1) (finitePart d2) w :=
  wasserstein_eq_spec_dgm sqrt hs exhLsa exhLsa_contract d1 d2

/-- corollary: the value does not depend on which optimal assignment the solver returns -/
theorem value_independent_of_solver (sqrt : K → K) (hs : SqrtSpec sqrt)
    (lsa lsa' : Mat K → List (Nat × Nat)) (hl : LsaContract lsa) (hl' : LsaContract lsa')
    (d1 d2 : Dgm K) :
    (wasserstein sqrt lsa d1 d2).map (·.value) = (wasserstein sqrt lsa' d1 d2).map (·.value) := by
  obtain ⟨w, rows, h1, h2⟩ := wasserstein_eq_spec_dgm sqrt hs lsa hl d1 d2
  obtain ⟨w', rows', h1', h2'⟩ := wasserstein_eq_spec_dgm sqrt hs lsa' hl' d1 d2
  rw [h1, h1', minsum_unique _ _ _ w w' h2 h2']
  rfl

omit [LinearOrder K] [IsStrictOrderedRing K] in
/-- **[P] `inf_dropped`.**  Points with non-finite death are dropped: the result on `d1, d2` is the
    result on their finite parts (for every solver, no contract needed), and each warning flag is
    set iff the corresponding diagram has such a point. -/
theorem inf_dropped (sqrt : K → K) (lsa : Mat K → List (Nat × Nat)) (d1 d2 : Dgm K) :
    ((wasserstein sqrt lsa d1 d2).map fun o => (o.value, o.rows))
        = ((wasserstein sqrt lsa (lift (finitePart d1)) (lift (finitePart d2))).map
            fun o => (o.value, o.rows)) ∧
      ∀ o, wasserstein sqrt lsa d1 d2 = .ok o →
        (o.warn1 = true ↔ ∃ p ∈ d1, p.2 = none) ∧ (o.warn2 = true ↔ ∃ p ∈ d2, p.2 = none) := by
  constructor
  · simp only [wasserstein, prepared, finitePart_lift]
    split <;> rfl
  · intro o ho
    simp only [wasserstein] at ho
    split at ho
    · cases ho
    · cases ho
      exact ⟨warned_iff d1, warned_iff d2⟩

end main

/-! ### 6. at the reals -/

/-- **`wasserstein_eq_spec` at `ℝ`**, with `Real.sqrt`: the value is the minimum over all partial matchings of
    Σ ‖s − t‖₂ over matched pairs + Σ (d−b)/√2 over unmatched points. -/
theorem wasserstein_eq_spec_real (lsa : Mat ℝ → List (Nat × Nat)) (hl : LsaContract lsa)
    (d1 d2 : Dgm ℝ) :
    ∃ w rows, wasserstein Real.sqrt lsa d1 d2
        = .ok ⟨some w, warned d1, warned d2, rows⟩ ∧
      IsMinSum
        (fun (i : Idx (finitePart d1)) (j : Idx (finitePart d2)) =>
          Real.sqrt ((((finitePart d1).get i).1 - ((finitePart d2).get j).1) ^ 2
            + (((finitePart d1).get i).2 - ((finitePart d2).get j).2) ^ 2))
        (fun i => (((finitePart d1).get i).2 - ((finitePart d1).get i).1) / Real.sqrt 2)
        (fun j => (((finitePart d2).get j).2 - ((finitePart d2).get j).1) / Real.sqrt 2) w := by
  exact wasserstein_eq_spec_dgm Real.sqrt sqrtSpec_real lsa hl d1 d2

-- non-vacuity of the main theorem: all hypotheses are met by ℝ, Real.sqrt, some solver, and
-- concrete diagrams with a repeated point, a diagonal point, a point of infinite death and an empty side
example : ∃ (lsa : Mat ℝ → List (Nat × Nat)) (w : ℝ) (rows : _),
    wasserstein Real.sqrt lsa
        [(0, some 1), (0, some 1), (2, some 2), (3, none)] [] = .ok ⟨some w, true, false, rows⟩ := by
  obtain ⟨lsa, hl⟩ := lsaContract_satisfiable (K := ℝ)
  obtain ⟨w, rows, h, -⟩ := wasserstein_eq_spec_real lsa hl [(0, some 1), (0, some 1), (2, some 2), (3, none)] []
  exact ⟨lsa, w, rows, by rw [h]; simp [warned, finitePart]⟩

-- … and with the computable solver the value can be read off: two copies of (0,1) and the diagonal
-- point (2,2) against the empty diagram cost 1/√2 + 1/√2 + 0
example : ∃ rows, wasserstein Real.sqrt exhLsa
    [(0, some 1), (0, some 1), (2, some 2), (3, none)] [] = .ok ⟨some (2 / Real.sqrt 2), true, false, rows⟩ := by
  obtain ⟨w, rows, h, hmin⟩ := wasserstein_eq_spec_real exhLsa exhLsa_contract
    [(0, some 1), (0, some 1), (2, some 2), (3, none)] []
  have hE : IsEmpty (Idx (finitePart ([] : Dgm ℝ))) := inferInstanceAs (IsEmpty (Fin 0))
  have hw := (isMinSum_isEmpty_right _ _ _ w).mp hmin
  have hsum : (∑ i : Fin 3, ((([(0, 1), (0, 1), (2, 2)] : List (ℝ × ℝ)).get i).2
      - (([(0, 1), (0, 1), (2, 2)] : List (ℝ × ℝ)).get i).1) / Real.sqrt 2) = 2 / Real.sqrt 2 := by
    rw [Fin.sum_univ_three]
    show ((1 : ℝ) - 0) / Real.sqrt 2 + (1 - 0) / Real.sqrt 2 + (2 - 2) / Real.sqrt 2 = 2 / Real.sqrt 2
    ring
  have hw' : w = 2 / Real.sqrt 2 := hw.trans hsum
  refine ⟨rows, ?_⟩
  rw [h, hw']
  simp [warned, finitePart]

end PersimVerif.C02
