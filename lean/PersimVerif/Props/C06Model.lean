import PersimVerif.Props.C06
import PersimVerif.Props.C01
import PersimVerif.Props.C02
import PersimVerif.Props.C07Model
import PersimVerif.Lemmas.RowsBridge

/-!
# C06 at the level of the *models of the code* (C06 ∘ C01, C06 ∘ C02)

`Props/C06.lean` proves (1) the certificate checker `Rows.checkRows` sound and (2) that C06's OWN small
model of the two extraction loops, applied to C06's own copy of the augmented matrix and an abstract
perfect matching `σ`, produces rows the checker accepts.  `Props/C01.lean` / `Props/C02.lean` prove
that the models of `persim.bottleneck` / `persim.wasserstein` return the specification value.

This file closes the gap between them, for the functions `Bottleneck.bottleneckWithMatching`
(`Model/Bottleneck.lean`) and `Wasserstein.wasserstein` (its `rows` component, `Model/Wasserstein.lean`)
THEMSELVES: for EVERY oracle honouring `OracleMax` / every solver honouring `LsaContract` and every pair
of diagrams of every size (empty sides, repeated points, diagonal points, non-finite deaths),

* the `matching=True` entry point does not raise (no `KeyError` on `matching[str(i)]`) and its distance
  component is what the `matching=False` entry point returns;
* the rows it returns ARE — up to the representation of the third entry (`Ext.fin`/`some` of a finite
  number; an infinite third entry never occurs) — rows accepted by `Rows.checkRows` with the L∞ rule
  resp. the Euclidean rule on the finite parts of the diagrams (placeholder-adjusted), every index
  occurs exactly once, and `rowsMax rows = some v` resp. `rowsSum rows = w` for the returned distance;
* hence (C06's soundness theorems) the rows are a partial matching of cost exactly the returned
  distance, and (C01/C02) an OPTIMAL one;
* the certified value is the same for any two oracles / solvers (the rows may differ).

Route: the matrices of the two models satisfy C06's `IsAug` (`bnAug_isAug`, `wsAug_isAug`); the dict
of the bisect loop read through `List.lookup` / the pairs of `linear_sum_assignment` are a permutation
list (`sigmaOf_perm`, `permList_perm`); the models' extraction functions equal C06's
`extractRowsBn` / `extractRowsWs` on it (`extractRows_refines`, `rowsOf_refines`); `LeastFeasible`
comes from `C01.bsearch_least`; then `extractRows_bn_accepted` / `extractRows_ws_accepted` and the
soundness theorems apply.  Helper lemmas: `Lemmas/RowsBridge.lean`.

Exact arithmetic over any linear ordered field (bottleneck) / any ordered field with a square root
(`SqrtSpec`), then instantiated at `ℝ`.  Nothing here is about floats.
-/
set_option linter.unusedSectionVars false

namespace PersimVerif.C06
open PersimVerif.Rows PersimVerif.Spec PersimVerif.RowsBridge

/-! ## 1. bottleneck -/

section Bn
variable {K : Type} [Field K] [LinearOrder K] [IsStrictOrderedRing K]

/-- **"the rows certify `v`"** for finite diagrams `S`, `T` (property C06, bottleneck half):
    the checker accepts them with the L∞ / `(d−b)/2` cost rule and their largest third entry is `v`;
    spelled out: every row is well-formed, every index of either (placeholder-adjusted) diagram occurs
    in exactly one row; `v` is the bottleneck cost of `S`, `T` in the sense of the specification
    (`IsBottleneck`, no placeholder); and the rows ARE a partial matching all of whose pairings cost
    `≤ v`, one exactly `v`, and no partial matching has all pairings `< v`. -/
structure BnCertified (S T : List (K × K)) (v : K) (rows : List (Row K)) : Prop where
  accepted : checkRowsBn linfM diagInfM S T rows v = true
  wellformed : ∀ r ∈ rows, -1 ≤ r.i ∧ r.i < ((placeholder S).length : Int) ∧ -1 ≤ r.j
    ∧ r.j < ((placeholder T).length : Int) ∧ ¬ (r.i = -1 ∧ r.j = -1)
  left_once : ∀ k < (placeholder S).length, rows.countP (fun r => r.i == ((k : Nat) : Int)) = 1
  right_once : ∀ k < (placeholder T).length, rows.countP (fun r => r.j == ((k : Nat) : Int)) = 1
  value_is_spec : IsBottleneck (Bottleneck.cst S T) (Bottleneck.dgc S) (Bottleneck.dgc T) v
  optimal : ∃ p : PM (PIdx S) (PIdx T), p.MaxLE (cP linf S T) (uP diagInf S) (uP diagInf T) v
    ∧ AttainsMax p (cP linf S T) (uP diagInf S) (uP diagInf T) v
    ∧ ∀ (q : PM (PIdx S) (PIdx T)) (d' : K), q.MaxLE (cP linf S T) (uP diagInf S) (uP diagInf T) d' → ¬ d' < v

/-- lines 69-133 on two diagrams of finite points: the loop's result, the rows of the model's own
    extraction function, their identification with C06's `extractRowsBn` on the list view of the
    dict, and the certificate. -/
theorem model_bn_core {oracle : Bottleneck.Graph → Bottleneck.Matching} (ho : Bottleneck.OracleMax oracle)
    (S T : List (K × K)) (hS : ∀ p ∈ S, p.1 ≤ p.2) (hT : ∀ p ∈ T, p.1 ≤ p.2) :
    ∃ (v : K) (mt : Bottleneck.Matching) (rows : List (Row K)),
      Bottleneck.bottleneckCore oracle S T = some (.fin v, mt)
      ∧ Bottleneck.extractRows (Bottleneck.withPlaceholder S).length (Bottleneck.withPlaceholder T).length
          (Bottleneck.augD (Bottleneck.withPlaceholder S) (Bottleneck.withPlaceholder T)) mt
          = some (rows.map rowExt)
      ∧ extractRowsBn (placeholder S).length (placeholder T).length
          (optD (Bottleneck.augD (placeholder S) (placeholder T)))
          (sigmaOf ((placeholder S).length + (placeholder T).length) mt) = some rows
      ∧ BnCertified S T v rows := by
  have hn : 0 < (placeholder S).length + (placeholder T).length := by
    rw [← withPlaceholder_eq S]; exact Nat.add_pos_left (Bottleneck.withPlaceholder_length_pos S) _
  have gS : ∀ p ∈ placeholder S, p.1 ≤ p.2 := by
    rw [← withPlaceholder_eq S]; exact Bottleneck.withPlaceholder_guard hS
  have gT : ∀ p ∈ placeholder T, p.1 ≤ p.2 := by
    rw [← withPlaceholder_eq T]; exact Bottleneck.withPlaceholder_guard hT
  -- the loop: least feasible threshold (C01.bsearch_least), finite, the stored matching is perfect
  obtain ⟨r, mt, hrun, -, -, hleast, -⟩ :=
    C01.bsearch_least ho hn (Bottleneck.augD (placeholder S) (placeholder T))
  obtain ⟨v, mt', hrun', hb, hm, hlen⟩ := C01.core_eq_spec ho (placeholder S) (placeholder T) hn gS gT
  rw [hrun] at hrun'
  cases hrun'
  -- the specification value without the placeholder
  obtain ⟨v', mt'', hcore, hspec⟩ := C01.core_with_placeholder ho S T hS hT
  have hcore' : Bottleneck.bottleneckCore oracle S T = some (.fin v, mt) := by
    simp only [Bottleneck.bottleneckCore, withPlaceholder_eq]; exact hrun
  rw [hcore'] at hcore
  cases hcore
  -- the dict as a permutation list; the selected entries
  have hσ := sigmaOf_perm hm hlen
  have hsp := fun i (hi : i < (placeholder S).length + (placeholder T).length) => sigmaOf_spec hm hlen hi
  have hD := bnAug_isAug (placeholder S) (placeholder T)
  have hfin : AllFinite (placeholder S).length (placeholder T).length
      (optD (Bottleneck.augD (placeholder S) (placeholder T)))
      (sigmaOf ((placeholder S).length + (placeholder T).length) mt) := by
    intro i hi
    obtain ⟨j, e, -, hs, hDe, -⟩ := hsp i hi
    rw [selected_optD hs hDe]; rfl
  have hle : ∀ i < (placeholder S).length + (placeholder T).length, ∀ e,
      selected (optD (Bottleneck.augD (placeholder S) (placeholder T)))
        (sigmaOf ((placeholder S).length + (placeholder T).length) mt) i = some e → e ≤ v := by
    intro i hi e he
    obtain ⟨j, e', -, hs, hDe, hev⟩ := hsp i hi
    rw [selected_optD hs hDe] at he
    cases he; exact hev
  have hleastF : LeastFeasible (placeholder S).length (placeholder T).length
      (optD (Bottleneck.augD (placeholder S) (placeholder T))) v :=
    fun τ hτ hτfin => least_of_hasPerfect_least hn _ v hleast τ hτ hτfin
  have hc0 : ∀ i j, 0 ≤ cOf linfM (placeholder S) (placeholder T) i j := fun i j => by
    show 0 ≤ linfM _ _
    rw [linfM_eq]; exact Bottleneck.linf_nonneg _ _
  have hu0 : ∀ i, 0 ≤ uOf diagInfM (placeholder S) i := fun i =>
    Bottleneck.diagInf_nonneg (gS _ (List.getElem_mem i.2))
  have hv0 : ∀ j, 0 ≤ uOf diagInfM (placeholder T) j := fun j =>
    Bottleneck.diagInf_nonneg (gT _ (List.getElem_mem j.2))
  -- C06: the extraction is accepted, its maximum is the least feasible threshold
  obtain ⟨rows, he, hc, hmaxf⟩ := extractRows_bn_accepted hD hσ hfin
  have hmax := hmaxf v hn hc0 hu0 hv0 hle hleastF
  have hrows : rows = (List.range ((placeholder S).length + (placeholder T).length)).flatMap
      (bnG (placeholder S).length (placeholder T).length
        (optD (Bottleneck.augD (placeholder S) (placeholder T)))
        (sigmaOf ((placeholder S).length + (placeholder T).length) mt)) :=
    Option.some.inj (he.symm.trans (extractRowsBn_eq hfin))
  -- the model's own extraction function returns the same rows
  have hext := extractRows_refines (placeholder S).length (placeholder T).length
    (Bottleneck.augD (placeholder S) (placeholder T)) mt
    (sigmaOf ((placeholder S).length + (placeholder T).length) mt)
    (fun i hi => by obtain ⟨j, e, a, b, c, -⟩ := hsp i hi; exact ⟨j, e, a, b, c⟩)
  rw [← hrows] at hext
  have hacc : checkRowsBn linfM diagInfM S T rows v = true := by
    simp only [checkRowsBn, checkRows, Bool.and_eq_true, decide_eq_true_eq]
    exact ⟨hc, hmax⟩
  obtain ⟨hwf, hl1, hr1⟩ := (structOk_iff rows).mp (by
    simp only [checkCore, Bool.and_eq_true] at hc; exact hc.1)
  obtain ⟨p, hp, hatt, hopt⟩ := bottleneck_rows_certify S T hS hT rows v hacc
  refine ⟨v, mt, rows, hcore', ?_, he, ⟨hacc, fun r hr => (inRange_iff _ _ _ _).mp (hwf r hr), hl1, hr1,
    hspec, p, hp, hatt, hopt hb⟩⟩
  rw [withPlaceholder_eq, withPlaceholder_eq]; exact hext

/-- the bottleneck model returned the distance `v` and the rows `rows` (C06 representation; the
    model's third entries are `Ext.fin` of these) under `matching=True` -/
def BnRowsReturned (oracle : Bottleneck.Graph → Bottleneck.Matching) (d1 d2 : List (K × Option K))
    (v : K) (rows : List (Row K)) : Prop :=
  ∃ r, Bottleneck.bottleneckWithMatching oracle d1 d2 = some (r, rows.map rowExt) ∧ r.value = .fin v

/-- **totality and certificate** — for every oracle honouring `OracleMax` and all diagrams whose
    finite points satisfy `b ≤ d`: the `matching=True` entry point of the model returns (it does not
    raise), the `matching=False` entry point returns the same `Result`, the rows are the rows of C06's
    extraction model on the list view of the returned dict, and they certify the returned distance. -/
theorem model_bn_rows_total {oracle : Bottleneck.Graph → Bottleneck.Matching} (ho : Bottleneck.OracleMax oracle)
    (d1 d2 : List (K × Option K))
    (h1 : ∀ p ∈ Bottleneck.finitePart d1, p.1 ≤ p.2) (h2 : ∀ p ∈ Bottleneck.finitePart d2, p.1 ≤ p.2) :
    ∃ (r : Bottleneck.Result K) (v : K) (rows : List (Row K)),
      Bottleneck.bottleneckWithMatching oracle d1 d2 = some (r, rows.map rowExt)
      ∧ Bottleneck.bottleneck oracle d1 d2 = some r ∧ r.value = .fin v
      ∧ extractRowsBn (placeholder (Bottleneck.finitePart d1)).length (placeholder (Bottleneck.finitePart d2)).length
          (optD (Bottleneck.augD (placeholder (Bottleneck.finitePart d1)) (placeholder (Bottleneck.finitePart d2))))
          (sigmaOf ((placeholder (Bottleneck.finitePart d1)).length + (placeholder (Bottleneck.finitePart d2)).length)
            r.matching) = some rows
      ∧ BnCertified (Bottleneck.finitePart d1) (Bottleneck.finitePart d2) v rows := by
  obtain ⟨v, mt, rows, hcore, hext, he, hcert⟩ :=
    model_bn_core ho (Bottleneck.finitePart d1) (Bottleneck.finitePart d2) h1 h2
  have hbn : Bottleneck.bottleneck oracle d1 d2
      = some ⟨.fin v, mt, (Bottleneck.filterFinite d1).2, (Bottleneck.filterFinite d2).2⟩ := by
    simp only [Bottleneck.bottleneck, Bottleneck.finitePart] at hcore ⊢
    rw [hcore]
  refine ⟨_, v, rows, ?_, hbn, rfl, he, hcert⟩
  simp only [Bottleneck.bottleneckWithMatching, hbn]
  simp only [Bottleneck.finitePart] at hext
  rw [hext]

/-- **(a) `model_bn_rows_certify`** — property C06 for the model of `persim.bottleneck`.
    If `bottleneckWithMatching oracle d1 d2 = some (r, rowsE)` (EVERY oracle with `OracleMax`, all
    diagrams with `b ≤ d` on their finite points, every size) then
    * `bottleneck oracle d1 d2 = some r`: the flag does not change the distance component;
    * `r.value = .fin v` is finite and `rowsE = rows.map rowExt`: every third entry is finite;
    * `rows` are accepted by `checkRows` with the L∞ rule on the finite parts (placeholder-adjusted),
      every index appears exactly once, `rowsMax rows = some v` — all in `BnCertified`, together with
      "`rows` is a partial matching of cost exactly `v`, an optimal one, and `v` is the bottleneck
      cost of the specification". -/
theorem model_bn_rows_certify {oracle : Bottleneck.Graph → Bottleneck.Matching} (ho : Bottleneck.OracleMax oracle)
    (d1 d2 : List (K × Option K))
    (h1 : ∀ p ∈ Bottleneck.finitePart d1, p.1 ≤ p.2) (h2 : ∀ p ∈ Bottleneck.finitePart d2, p.1 ≤ p.2)
    (r : Bottleneck.Result K) (rowsE : List (Int × Int × Bottleneck.Ext K))
    (h : Bottleneck.bottleneckWithMatching oracle d1 d2 = some (r, rowsE)) :
    Bottleneck.bottleneck oracle d1 d2 = some r
    ∧ ∃ (v : K) (rows : List (Row K)), r.value = .fin v ∧ rowsE = rows.map rowExt
      ∧ checkRows linfM diagInfM (Bottleneck.finitePart d1) (Bottleneck.finitePart d2) rows = true
      ∧ rowsMax rows = some v
      ∧ BnCertified (Bottleneck.finitePart d1) (Bottleneck.finitePart d2) v rows := by
  obtain ⟨r', v, rows, hwm, hbn, hv, -, hcert⟩ := model_bn_rows_total ho d1 d2 h1 h2
  rw [hwm] at h
  cases h
  have hacc := hcert.accepted
  simp only [checkRowsBn, Bool.and_eq_true, decide_eq_true_eq] at hacc
  exact ⟨C01.matching_flag_value oracle d1 d2 _ _ hwm, v, rows, hv, rfl, hacc.1, hacc.2, hcert⟩

/-- the same in the `Returns` vocabulary of `C07Model`: whenever the model returned `(v, rows)` under
    `matching=True`, the rows certify `v` -/
theorem bnRowsReturned_certified {oracle : Bottleneck.Graph → Bottleneck.Matching} (ho : Bottleneck.OracleMax oracle)
    {d1 d2 : List (K × Option K)}
    (h1 : ∀ p ∈ Bottleneck.finitePart d1, p.1 ≤ p.2) (h2 : ∀ p ∈ Bottleneck.finitePart d2, p.1 ≤ p.2)
    {v : K} {rows : List (Row K)} (h : BnRowsReturned oracle d1 d2 v rows) :
    BnCertified (Bottleneck.finitePart d1) (Bottleneck.finitePart d2) v rows := by
  obtain ⟨r, hr, hv⟩ := h
  obtain ⟨-, v', rows', hv', hrows, -, -, hcert⟩ := model_bn_rows_certify ho d1 d2 h1 h2 r _ hr
  rw [hv] at hv'
  cases hv'
  rw [rowExt_injective.list_map hrows]
  exact hcert

/-- **(c) `model_rows_independent_of_oracle_value`** (bottleneck): two oracles honouring the contract
    (two hash seeds) may return different rows, but both sets of rows are accepted by the checker and
    certify the SAME value: the distance components agree and both row maxima equal it. -/
theorem model_rows_independent_of_oracle_value {o₁ o₂ : Bottleneck.Graph → Bottleneck.Matching}
    (ho₁ : Bottleneck.OracleMax o₁) (ho₂ : Bottleneck.OracleMax o₂) (d1 d2 : List (K × Option K))
    (h1 : ∀ p ∈ Bottleneck.finitePart d1, p.1 ≤ p.2) (h2 : ∀ p ∈ Bottleneck.finitePart d2, p.1 ≤ p.2)
    {r₁ r₂ : Bottleneck.Result K} {rowsE₁ rowsE₂ : List (Int × Int × Bottleneck.Ext K)}
    (e₁ : Bottleneck.bottleneckWithMatching o₁ d1 d2 = some (r₁, rowsE₁))
    (e₂ : Bottleneck.bottleneckWithMatching o₂ d1 d2 = some (r₂, rowsE₂)) :
    r₁.value = r₂.value
    ∧ ∃ (v : K) (rows₁ rows₂ : List (Row K)), r₁.value = .fin v
      ∧ rowsE₁ = rows₁.map rowExt ∧ rowsE₂ = rows₂.map rowExt
      ∧ checkRowsBn linfM diagInfM (Bottleneck.finitePart d1) (Bottleneck.finitePart d2) rows₁ v = true
      ∧ checkRowsBn linfM diagInfM (Bottleneck.finitePart d1) (Bottleneck.finitePart d2) rows₂ v = true := by
  obtain ⟨-, v₁, rows₁, hv₁, hr₁, -, -, c₁⟩ := model_bn_rows_certify ho₁ d1 d2 h1 h2 r₁ rowsE₁ e₁
  obtain ⟨-, v₂, rows₂, hv₂, hr₂, -, -, c₂⟩ := model_bn_rows_certify ho₂ d1 d2 h1 h2 r₂ rowsE₂ e₂
  have hv : v₁ = v₂ := IsBottleneck.unique c₁.value_is_spec c₂.value_is_spec
  subst hv
  exact ⟨hv₁.trans hv₂.symm, v₁, rows₁, rows₂, hv₁, hr₁, hr₂, c₁.accepted, c₂.accepted⟩

end Bn

/-! ## 2. Wasserstein -/

section Ws
open PersimVerif.Wasserstein PersimVerif.WsLemmas
variable {K : Type} [Field K] [LinearOrder K] [IsStrictOrderedRing K]

/-- the Euclidean cost rule of `Model/Rows.lean` is the cost system of C02's specification -/
private theorem pairCost_eq_cP (sqrt : K → K) (S T : List (K × K)) :
    pairCost sqrt (placeholder S) (placeholder T) = cP (euclidM sqrt) S T := by
  funext i j
  simp only [pairCost, euclid, cOf, euclidM, pow_two, List.get_eq_getElem, Fin.getElem_fin]

private theorem diagCost_eq_uP (sqrt : K → K) (S : List (K × K)) :
    diagCost sqrt (placeholder S) = uP (diagL2M sqrt) S := rfl

/-- **"the rows certify `w`"** for finite diagrams `S`, `T` (property C06, Wasserstein half): the
    checker accepts them with the Euclidean / `(d−b)/√2` cost rule and their third entries sum to
    `w`; spelled out as in `BnCertified`; `w` is the min-sum cost of `S`, `T` in the sense of C02's
    specification (`SpecW`, no placeholder); and the rows ARE a partial matching of total cost
    exactly `w`, and no partial matching is cheaper. -/
structure WsCertified (sqrt : K → K) (S T : List (K × K)) (w : K) (rows : List (Row K)) : Prop where
  accepted : checkRowsWs (euclidM sqrt) (diagL2M sqrt) S T rows w = true
  wellformed : ∀ r ∈ rows, -1 ≤ r.i ∧ r.i < ((placeholder S).length : Int) ∧ -1 ≤ r.j
    ∧ r.j < ((placeholder T).length : Int) ∧ ¬ (r.i = -1 ∧ r.j = -1)
  left_once : ∀ k < (placeholder S).length, rows.countP (fun r => r.i == ((k : Nat) : Int)) = 1
  right_once : ∀ k < (placeholder T).length, rows.countP (fun r => r.j == ((k : Nat) : Int)) = 1
  value_is_spec : C02.SpecW sqrt S T w
  optimal : ∃ p : PM (PIdx S) (PIdx T),
    p.sumCost (cP (euclidM sqrt) S T) (uP (diagL2M sqrt) S) (uP (diagL2M sqrt) T) = w
    ∧ ∀ q : PM (PIdx S) (PIdx T),
        p.sumCost (cP (euclidM sqrt) S T) (uP (diagL2M sqrt) S) (uP (diagL2M sqrt) T)
          ≤ q.sumCost (cP (euclidM sqrt) S T) (uP (diagL2M sqrt) S) (uP (diagL2M sqrt) T)

/-- **(b) `model_ws_rows_certify`** — property C06 for the model of `persim.wasserstein`.
    For every square-root function, EVERY assignment solver honouring `LsaContract`
    and all diagrams of every size (no ordering of the coordinates is needed): the model returns
    `.ok` with a finite value `w`; its `rows` component is `rows.map rowOpt` (every third entry
    finite) where `rows` are exactly the rows of C06's extraction model `extractRowsWs` on the
    solver's permutation `σ`; `checkRows` accepts them with the Euclidean rule on the finite parts
    (placeholder-adjusted), every index appears exactly once, `rowsSum rows = w`; hence they are a
    partial matching of total cost exactly `w`, an optimal one, and `w` is the specification value. -/
theorem model_ws_rows_certify (sqrt : K → K) (hs : SqrtSpec sqrt)
    (lsa : Mat K → List (Nat × Nat)) (hl : LsaContract lsa) (d1 d2 : Dgm K) :
    ∃ (w : K) (rows : List (Row K)),
      wasserstein sqrt lsa d1 d2 = .ok ⟨some w, warned d1, warned d2, rows.map rowOpt⟩
      ∧ (∃ σ : Equiv.Perm (Fin ((placeholder (finitePart d1)).length + (placeholder (finitePart d2)).length)),
          lsa (matrixOf sqrt d1 d2) = List.ofFn (fun i => (i.val, (σ i).val))
          ∧ extractRowsWs (placeholder (finitePart d1)).length (placeholder (finitePart d2)).length
              (augEntry sqrt (placeholder (finitePart d1)) (placeholder (finitePart d2))) (permList σ)
            = some rows)
      ∧ checkRows (euclidM sqrt) (diagL2M sqrt) (finitePart d1) (finitePart d2) rows = true
      ∧ rowsSum rows = w
      ∧ WsCertified sqrt (finitePart d1) (finitePart d2) w rows := by
  -- C02: the value
  obtain ⟨w, rowsE, hrun, hspec⟩ := C02.wasserstein_eq_spec_dgm sqrt hs lsa hl d1 d2
  -- what the solver returned on the model's matrix
  obtain ⟨σ, hσ, hfin, hsel⟩ := lsa_selects hs lsa hl (placeholder (finitePart d1)) (placeholder (finitePart d2))
  have hD := wsAug_isAug (sqrt := sqrt) (placeholder (finitePart d1)) (placeholder (finitePart d2))
  have hperm : (colsOf σ).Perm
      (List.range ((placeholder (finitePart d1)).length + (placeholder (finitePart d2)).length)) :=
    permList_perm σ
  have hAll : AllFinite (placeholder (finitePart d1)).length (placeholder (finitePart d2)).length
      (augEntry sqrt (placeholder (finitePart d1)) (placeholder (finitePart d2))) (colsOf σ) := by
    intro i hi
    obtain ⟨e, he⟩ := Option.ne_none_iff_exists'.mp (hfin ⟨i, hi⟩)
    have := colsOf_get σ ⟨i, hi⟩
    simp only at this he
    simp [selected, this, he]
  -- C06: extraction accepted, sum of the rows = sum of the selected entries
  obtain ⟨rows, he, hcheck, hsum⟩ := extractRows_ws_accepted hD hperm hAll
  -- the model's own `rowsOf` / `optSum` on the solver's answer
  have hrowsOf := rowsOf_refines (placeholder (finitePart d1)).length (placeholder (finitePart d2)).length
    (augEntry sqrt (placeholder (finitePart d1)) (placeholder (finitePart d2))) σ hfin
  have hraw := wsRaw_eq hAll
  have he' : extractRowsWs (placeholder (finitePart d1)).length (placeholder (finitePart d2)).length
      (augEntry sqrt (placeholder (finitePart d1)) (placeholder (finitePart d2))) (colsOf σ)
      = some ((((List.range ((placeholder (finitePart d1)).length + (placeholder (finitePart d2)).length)).map
          (wsR (augEntry sqrt (placeholder (finitePart d1)) (placeholder (finitePart d2))) (colsOf σ))).map
          (wsRewrite (placeholder (finitePart d1)).length (placeholder (finitePart d2)).length)).filter
            fun r => r.i + r.j != -2) := by
    unfold extractRowsWs; rw [hraw]; rfl
  rw [he] at he'
  rw [← Option.some.inj he'] at hrowsOf
  have hval := optSum_selected (augEntry sqrt (placeholder (finitePart d1)) (placeholder (finitePart d2))) σ hfin
  have hsum' : some (rowsSum ((List.range ((placeholder (finitePart d1)).length + (placeholder (finitePart d2)).length)).map
      (wsR (augEntry sqrt (placeholder (finitePart d1)) (placeholder (finitePart d2))) (colsOf σ))))
      = some (rowsSum rows) := by
    rw [← hsum]; unfold selectedSum; rw [hraw]; rfl
  rw [hsum'] at hval
  -- the run of the model, computed
  have hrun' : wasserstein sqrt lsa d1 d2
      = .ok ⟨some (rowsSum rows), warned d1, warned d2, rows.map rowOpt⟩ := by
    simp only [wasserstein, prepared, orPlaceholder_eq, hsel, hval]
    rw [hσ, hrowsOf]
  rw [hrun'] at hrun
  have hw : rowsSum rows = w := by
    injection hrun with h; injection h with h1; exact Option.some.inj h1
  -- the specification value of the placeholder-adjusted diagrams (for the optimality clause)
  have hW : IsMinSum (cP (euclidM sqrt) (finitePart d1) (finitePart d2)) (uP (diagL2M sqrt) (finitePart d1))
      (uP (diagL2M sqrt) (finitePart d2)) w := by
    have := (C02.placeholder_irrelevant sqrt hs (finitePart d1) (finitePart d2) w).mpr hspec
    unfold C02.SpecW at this
    rw [orPlaceholder_eq, orPlaceholder_eq, pairCost_eq_cP, diagCost_eq_uP, diagCost_eq_uP] at this
    exact this
  have hcheck' : checkRows (euclidM sqrt) (diagL2M sqrt) (finitePart d1) (finitePart d2) rows = true := hcheck
  have hacc : checkRowsWs (euclidM sqrt) (diagL2M sqrt) (finitePart d1) (finitePart d2) rows w = true := by
    simp only [checkRowsWs, Bool.and_eq_true, decide_eq_true_eq]
    exact ⟨hcheck', hw⟩
  obtain ⟨hwf, hl1, hr1⟩ := (structOk_iff rows).mp (by
    simp only [checkCore, Bool.and_eq_true] at hcheck; exact hcheck.1)
  refine ⟨w, rows, by rw [hrun', hw], ⟨σ, ?_, he⟩, hcheck', hw,
    ⟨hacc, fun r hr => (inRange_iff _ _ _ _).mp (hwf r hr), hl1, hr1, hspec,
      certificate_is_optimal_ws _ _ _ _ rows w hacc hW⟩⟩
  simp only [matrixOf, prepared, orPlaceholder_eq]; exact hσ

/-- the solver-independent part of the conclusion: whenever the model returned `.ok out`, its value is
    finite and its rows certify it (the "if it returned … then" form, as for the bottleneck) -/
theorem model_ws_rows_certify_of_ok (sqrt : K → K) (hs : SqrtSpec sqrt)
    (lsa : Mat K → List (Nat × Nat)) (hl : LsaContract lsa) (d1 d2 : Dgm K) (out : Out K)
    (h : wasserstein sqrt lsa d1 d2 = .ok out) :
    ∃ (w : K) (rows : List (Row K)), out.value = some w ∧ out.rows = rows.map rowOpt
      ∧ checkRows (euclidM sqrt) (diagL2M sqrt) (finitePart d1) (finitePart d2) rows = true
      ∧ rowsSum rows = w
      ∧ WsCertified sqrt (finitePart d1) (finitePart d2) w rows := by
  obtain ⟨w, rows, hrun, -, hc1, hc2, hc3⟩ := model_ws_rows_certify sqrt hs lsa hl d1 d2
  rw [hrun] at h
  injection h with h
  subst h
  exact ⟨w, rows, rfl, rfl, hc1, hc2, hc3⟩

/-- **(c) `model_rows_independent_of_solver_value`** (Wasserstein): two solvers honouring the contract
    may return different optimal assignments, hence different rows, but both sets of rows are accepted
    by the checker and certify the SAME value. -/
theorem model_rows_independent_of_solver_value (sqrt : K → K) (hs : SqrtSpec sqrt)
    (l₁ l₂ : Mat K → List (Nat × Nat)) (hl₁ : LsaContract l₁) (hl₂ : LsaContract l₂) (d1 d2 : Dgm K) :
    ∃ (w : K) (rows₁ rows₂ : List (Row K)),
      wasserstein sqrt l₁ d1 d2 = .ok ⟨some w, warned d1, warned d2, rows₁.map rowOpt⟩
      ∧ wasserstein sqrt l₂ d1 d2 = .ok ⟨some w, warned d1, warned d2, rows₂.map rowOpt⟩
      ∧ checkRowsWs (euclidM sqrt) (diagL2M sqrt) (finitePart d1) (finitePart d2) rows₁ w = true
      ∧ checkRowsWs (euclidM sqrt) (diagL2M sqrt) (finitePart d1) (finitePart d2) rows₂ w = true := by
  obtain ⟨w₁, rows₁, hrun₁, -, -, -, c₁⟩ := model_ws_rows_certify sqrt hs l₁ hl₁ d1 d2
  obtain ⟨w₂, rows₂, hrun₂, -, -, -, c₂⟩ := model_ws_rows_certify sqrt hs l₂ hl₂ d1 d2
  have hw : w₁ = w₂ := C02.minsum_unique _ _ _ w₁ w₂ c₁.value_is_spec c₂.value_is_spec
  subst hw
  exact ⟨w₁, rows₁, rows₂, hrun₁, hrun₂, c₁.accepted, c₂.accepted⟩

end Ws

/-! ## 3. the property as one statement per routine (what sections 1 and 2 prove) -/

/-- **C06 for the model of `persim.bottleneck`**, as a single statement over a linear ordered field -/
def ModelBnRowsCertify (K : Type) [Field K] [LinearOrder K] [IsStrictOrderedRing K] : Prop :=
  ∀ (oracle : Bottleneck.Graph → Bottleneck.Matching), Bottleneck.OracleMax oracle →
  ∀ (d1 d2 : List (K × Option K)),
    (∀ p ∈ Bottleneck.finitePart d1, p.1 ≤ p.2) → (∀ p ∈ Bottleneck.finitePart d2, p.1 ≤ p.2) →
    ∃ (r : Bottleneck.Result K) (v : K) (rows : List (Row K)),
      Bottleneck.bottleneckWithMatching oracle d1 d2 = some (r, rows.map rowExt)
      ∧ Bottleneck.bottleneck oracle d1 d2 = some r ∧ r.value = .fin v
      ∧ BnCertified (Bottleneck.finitePart d1) (Bottleneck.finitePart d2) v rows

theorem modelBnRowsCertify {K : Type} [Field K] [LinearOrder K] [IsStrictOrderedRing K] :
    ModelBnRowsCertify K := by
  intro oracle ho d1 d2 h1 h2
  obtain ⟨r, v, rows, a, b, c, -, d⟩ := model_bn_rows_total ho d1 d2 h1 h2
  exact ⟨r, v, rows, a, b, c, d⟩

/-- **C06 for the model of `persim.wasserstein`**, as a single statement -/
def ModelWsRowsCertify (K : Type) [Field K] [LinearOrder K] [IsStrictOrderedRing K] : Prop :=
  ∀ (sqrt : K → K), SqrtSpec sqrt →
  ∀ (lsa : Wasserstein.Mat K → List (Nat × Nat)), WsLemmas.LsaContract lsa →
  ∀ (d1 d2 : Wasserstein.Dgm K),
    ∃ (w : K) (rows : List (Row K)),
      Wasserstein.wasserstein sqrt lsa d1 d2
        = .ok ⟨some w, Wasserstein.warned d1, Wasserstein.warned d2, rows.map rowOpt⟩
      ∧ WsCertified sqrt (Wasserstein.finitePart d1) (Wasserstein.finitePart d2) w rows

theorem modelWsRowsCertify {K : Type} [Field K] [LinearOrder K] [IsStrictOrderedRing K] :
    ModelWsRowsCertify K := by
  intro sqrt hs lsa hl d1 d2
  obtain ⟨w, rows, a, -, -, -, b⟩ := model_ws_rows_certify sqrt hs lsa hl d1 d2
  exact ⟨w, rows, a, b⟩

/-! ## 4. at the reals, in the vocabulary of C07 / C07Model -/

section Reals
open PersimVerif.C07

/-- **the bottleneck model over `ℝ`**: whatever `bottleneckWithMatching` returns (any oracle with
    `OracleMax`, proper diagrams), the distance component is what `bottleneck` returns (`BnReturns`),
    it is the bottleneck distance `IsBn` of the finite parts, and the rows are accepted by the checker
    with maximum `v` and are an optimal matching for C07's cost system `(cB, uB)`. -/
theorem model_bn_rows_certify_real {oracle : Bottleneck.Graph → Bottleneck.Matching}
    (ho : Bottleneck.OracleMax oracle) {d1 d2 : List (ℝ × Option ℝ)} (h1 : ProperDgm d1) (h2 : ProperDgm d2)
    (r : Bottleneck.Result ℝ) (rowsE : List (Int × Int × Bottleneck.Ext ℝ))
    (h : Bottleneck.bottleneckWithMatching oracle d1 d2 = some (r, rowsE)) :
    ∃ (v : ℝ) (rows : List (Row ℝ)), BnReturns oracle d1 d2 v ∧ r.value = .fin v ∧ rowsE = rows.map rowExt
      ∧ checkRowsBn linfM diagInfM (Bottleneck.finitePart d1) (Bottleneck.finitePart d2) rows v = true
      ∧ IsBn (Bottleneck.finitePart d1).get (Bottleneck.finitePart d2).get v
      ∧ ∃ p : PM (PIdx (Bottleneck.finitePart d1)) (PIdx (Bottleneck.finitePart d2)),
          p.MaxLE (cB (pts (Bottleneck.finitePart d1)) (pts (Bottleneck.finitePart d2)))
            (uB (pts (Bottleneck.finitePart d1))) (uB (pts (Bottleneck.finitePart d2))) v
          ∧ AttainsMax p (cB (pts (Bottleneck.finitePart d1)) (pts (Bottleneck.finitePart d2)))
            (uB (pts (Bottleneck.finitePart d1))) (uB (pts (Bottleneck.finitePart d2))) v
          ∧ ∀ (q : PM (PIdx (Bottleneck.finitePart d1)) (PIdx (Bottleneck.finitePart d2))) (d' : ℝ),
              q.MaxLE (cB (pts (Bottleneck.finitePart d1)) (pts (Bottleneck.finitePart d2)))
                (uB (pts (Bottleneck.finitePart d1))) (uB (pts (Bottleneck.finitePart d2))) d' → ¬ d' < v := by
  obtain ⟨hbn, v, rows, hv, hrows, -, -, hcert⟩ := model_bn_rows_certify ho d1 d2 h1 h2 r rowsE h
  exact ⟨v, rows, ⟨r, hbn, hv⟩, hv, hrows, hcert.accepted, isBn_of_cst hcert.value_is_spec, hcert.optimal⟩

/-- **the Wasserstein model over `ℝ`** with `Real.sqrt`:
    for every solver honouring `LsaContract` the model returns `w` (`WsReturns`), `w` is the
    Wasserstein distance `IsWs` of the finite parts, the rows are accepted by the checker with sum `w`
    and are an optimal matching for C07's cost system `(cW, uW)`. -/
theorem model_ws_rows_certify_real (lsa : Wasserstein.Mat ℝ → List (Nat × Nat)) (hl : WsLemmas.LsaContract lsa)
    (d1 d2 : Wasserstein.Dgm ℝ) :
    ∃ (w : ℝ) (rows : List (Row ℝ)),
      Wasserstein.wasserstein Real.sqrt lsa d1 d2
        = .ok ⟨some w, Wasserstein.warned d1, Wasserstein.warned d2, rows.map rowOpt⟩
      ∧ WsReturns lsa d1 d2 w
      ∧ checkRowsWs (euclidM Real.sqrt) (diagL2M Real.sqrt) (Wasserstein.finitePart d1)
          (Wasserstein.finitePart d2) rows w = true
      ∧ IsWs (Wasserstein.finitePart d1).get (Wasserstein.finitePart d2).get w
      ∧ ∃ p : PM (PIdx (Wasserstein.finitePart d1)) (PIdx (Wasserstein.finitePart d2)),
          p.sumCost (cW (pts (Wasserstein.finitePart d1)) (pts (Wasserstein.finitePart d2)))
            (uW (pts (Wasserstein.finitePart d1))) (uW (pts (Wasserstein.finitePart d2))) = w
          ∧ ∀ q : PM (PIdx (Wasserstein.finitePart d1)) (PIdx (Wasserstein.finitePart d2)),
              p.sumCost (cW (pts (Wasserstein.finitePart d1)) (pts (Wasserstein.finitePart d2)))
                (uW (pts (Wasserstein.finitePart d1))) (uW (pts (Wasserstein.finitePart d2)))
              ≤ q.sumCost (cW (pts (Wasserstein.finitePart d1)) (pts (Wasserstein.finitePart d2)))
                (uW (pts (Wasserstein.finitePart d1))) (uW (pts (Wasserstein.finitePart d2))) := by
  obtain ⟨w, rows, hrun, -, -, -, hcert⟩ := model_ws_rows_certify Real.sqrt C02.sqrtSpec_real lsa hl d1 d2
  have hW : IsWs (Wasserstein.finitePart d1).get (Wasserstein.finitePart d2).get w := hcert.value_is_spec
  have hacc := hcert.accepted
  refine ⟨w, rows, hrun, ⟨_, hrun⟩, hacc, hW, ?_⟩
  have hWp : IsWs (pts (Wasserstein.finitePart d1)) (pts (Wasserstein.finitePart d2)) w := by
    obtain ⟨p, hp, hmin⟩ := hcert.optimal
    rw [euclidM_eq, diagL2M_eq] at hp hmin
    exact ⟨⟨p, hp⟩, fun q => hp ▸ hmin q⟩
  exact wasserstein_matching_certifies _ _ rows w hacc hWp

end Reals

/-! ## 5. non-vacuity -/

section Examples

-- the 2×2 "bisect bug" diagrams of the test suite (C01: their bottleneck cost is 2): the hypotheses
-- hold for a contract-honouring oracle, so the model returns rows, the checker accepts them with
-- maximum exactly 2, whichever maximum matchings the oracle picks
example : ∃ oracle : Bottleneck.Graph → Bottleneck.Matching, Bottleneck.OracleMax oracle ∧
    ∃ (r : Bottleneck.Result ℚ) (rows : List (Row ℚ)),
      Bottleneck.bottleneckWithMatching oracle (Bottleneck.lift [((6:ℚ), (9:ℚ)), (6, 8)])
        (Bottleneck.lift [((4:ℚ), (10:ℚ)), (9, 10)]) = some (r, rows.map rowExt)
      ∧ r.value = .fin 2
      ∧ checkRowsBn linfM diagInfM [((6:ℚ), (9:ℚ)), (6, 8)] [((4:ℚ), (10:ℚ)), (9, 10)] rows 2 = true := by
  obtain ⟨o, ho⟩ := C01.oracleMax_exists
  obtain ⟨r, v, rows, hwm, -, hv, -, hcert⟩ := model_bn_rows_total ho
    (Bottleneck.lift [((6:ℚ), (9:ℚ)), (6, 8)]) (Bottleneck.lift [((4:ℚ), (10:ℚ)), (9, 10)])
    (by rw [Bottleneck.finitePart, Bottleneck.filterFinite_lift]; simp; norm_num)
    (by rw [Bottleneck.finitePart, Bottleneck.filterFinite_lift]; simp; norm_num)
  have hspec := hcert.value_is_spec
  have hacc := hcert.accepted
  simp only [Bottleneck.finitePart, Bottleneck.filterFinite_lift] at hspec hacc
  have h2 : v = 2 := C01.isBottleneck_unique hspec C01.bisect_bug_instance
  subst h2
  exact ⟨o, ho, r, rows, hwm, hv, hacc⟩

-- an empty side, a point of infinite death, a diagonal point: the guard holds
example : (∀ p ∈ Bottleneck.finitePart [((0:ℚ), (none : Option ℚ)), (1, some 2), (3, some 3)], p.1 ≤ p.2) ∧
    (∀ p ∈ Bottleneck.finitePart ([] : List (ℚ × Option ℚ)), p.1 ≤ p.2) := by
  constructor <;> simp [Bottleneck.finitePart, Bottleneck.filterFinite]

private def S0 : List (Rat × Rat) := [(0, 2), (1, 4)]
private def T0 : List (Rat × Rat) := [(0, 3)]

/-- inverse of `rowExt` (only to let the kernel compare the model's rows in the examples below) -/
private def unRowExt : Int × Int × Bottleneck.Ext Rat → Option (Row Rat)
  | (i, j, .fin c) => some ⟨i, j, c⟩
  | (_, _, .top) => none

-- the two extraction functions, executed by the kernel on the matrix of S0, T0 and the dict
-- {2:1, 0:0, 1:2}: the C01 model's loop (reads the dict with `lookup`) …
example : (Bottleneck.extractRows 2 1 (Bottleneck.augD S0 T0) [(2, 1), (0, 0), (1, 2)]).bind
    (fun rows => rows.mapM unRowExt) = some [⟨0, 0, 1⟩, ⟨1, -1, 3/2⟩] := by decide +kernel
-- … C06's loop on the list view of the same dict: the same rows (`extractRows_refines`) …
example : sigmaOf 3 [(2, 1), (0, 0), (1, 2)] = [0, 2, 1] := by decide +kernel
example : extractRowsBn 2 1 (optD (Bottleneck.augD S0 T0)) (sigmaOf 3 [(2, 1), (0, 0), (1, 2)])
    = some [⟨0, 0, 1⟩, ⟨1, -1, 3/2⟩] := by decide +kernel
-- … accepted by the checker
example : checkRowsBn linfM diagInfM S0 T0 [⟨0, 0, 1⟩, ⟨1, -1, 3/2⟩] (3/2) = true := by decide +kernel
-- a dict without an entry for row 1 is a `KeyError`, not a default
example : Bottleneck.extractRows 2 1 (Bottleneck.augD S0 T0) [(2, 1), (0, 0)] = none := by decide +kernel
-- the two matrices agree entry by entry on this instance (`bnAug_isAug` is the general statement)
example : (List.range 3).all (fun i => (List.range 3).all fun j =>
    optD (Bottleneck.augD S0 T0) i j == Rows.augD linfM diagInfM S0 T0 i j) = true := by decide +kernel

-- the C02 model's `rowsOf` on `zip(arange 3, [0, 2, 1])` and the selected entries: C06's rows
example : Wasserstein.rowsOf 2 1 [(0, 0), (1, 2), (2, 1)] [some (1 : Rat), some (3/2), some 0]
    = List.map rowOpt [⟨0, 0, 1⟩, ⟨1, -1, 3/2⟩] := by decide +kernel

-- the Wasserstein theorem applies to ℝ, `Real.sqrt`, the verified exhaustive solver and
-- diagrams with a repeated point, a diagonal point, a point of infinite death (warning flag set):
-- the model returns, and the checker accepts its rows with sum = the returned value
example : ∃ (w : ℝ) (rows : List (Row ℝ)),
    Wasserstein.wasserstein Real.sqrt Wasserstein.exhLsa
      [(0, some 1), (0, some 1), (2, some 2), (3, none)] [(0, some 2)]
      = .ok ⟨some w, true, false, rows.map rowOpt⟩
    ∧ checkRowsWs (euclidM Real.sqrt) (diagL2M Real.sqrt) [(0, 1), (0, 1), (2, 2)] [(0, 2)] rows w = true := by
  obtain ⟨w, rows, hrun, -, hacc, -, -⟩ := model_ws_rows_certify_real Wasserstein.exhLsa C02.exhLsa_contract
    [(0, some 1), (0, some 1), (2, some 2), (3, none)] [(0, some 2)]
  refine ⟨w, rows, ?_, hacc⟩
  rw [hrun]; simp [Wasserstein.warned, Wasserstein.finitePart]

end Examples

end PersimVerif.C06
