import PersimVerif.Model.MGH
namespace PersimVerif.C05
open PersimVerif.MGH

theorem smoke : findLb (wrapMul 8) (wrapMul 8) [[0,1,2],[1,0,1],[2,1,0]] [[0,1,2,1],[1,0,1,2],[2,1,0,1],[1,2,1,0]] = 1 := by decide

end PersimVerif.C05
