import PersimVerif.Lemmas.MGHUb
import PersimVerif.Lemmas.MGHLbSound
import PersimVerif.Lemmas.MGHGreedy
import PersimVerif.Lemmas.MGHBrute

/-!
# C05 — the mGH estimates always bracket the true modified Gromov–Hausdorff distance

Model: `PersimVerif.MGH` (`Model/MGH.lean`, a transcription of `persim/gromov_hausdorff.py` from
`estimate` downwards, the NumPy generator an explicit input).  Specification: `PersimVerif.MGHSpec`
(`Spec/MGH.lean`): `dis`, `minDis`, `mGH2 = max (min_f dis f) (min_g dis g)`, `mGH = mGH2 / 2`.

Every theorem is for distance matrices of every size (`DistMat D n`: square, symmetric, zero exactly
on the diagonal — what BFS on a connected simple graph yields), every value of the wrapped key
product `keyMul`, every list of permutations and first images, hence every state of the random
generator and every `mapping_sample_size_order`.
-/
namespace PersimVerif.C05
open PersimVerif.MGH PersimVerif.MGHSpec

/-! ### a decidable check of `DistMat`, for the concrete examples -/

/-- executable check of `DistMat` -/
def distMatB (D : Mat) (n : ℕ) : Bool :=
  D.length == n && D.all (fun r => r.length == n) &&
    (List.range n).all fun i => (List.range n).all fun j =>
      ent D i j == ent D j i && ((ent D i j == 0) == (i == j))

private theorem distMat_of_check {D : Mat} {n : ℕ} (h : distMatB D n = true) : DistMat D n := by
  unfold distMatB at h
  simp only [Bool.and_eq_true, beq_iff_eq, List.all_eq_true, List.mem_range] at h
  obtain ⟨⟨h1, h2⟩, h3⟩ := h
  refine ⟨h1, h2, fun i j hi hj => (h3 i hi j hj).1, fun i j hi hj => ?_⟩
  have := (h3 i hi j hj).2
  by_cases e : i = j
  · simp [e] at this ⊢; simpa [e] using this
  · simp [e] at this ⊢; exact this

/-- path on 3 vertices, 4-cycle, triangle, 4-clique (shortest-path metrics) -/
def P3 : Mat := [[0, 1, 2], [1, 0, 1], [2, 1, 0]]
def C4 : Mat := [[0, 1, 2, 1], [1, 0, 1, 2], [2, 1, 0, 1], [1, 2, 1, 0]]
def K3 : Mat := [[0, 1, 1], [1, 0, 1], [1, 1, 0]]
def K4 : Mat := [[0, 1, 1, 1], [1, 0, 1, 1], [1, 1, 0, 1], [1, 1, 1, 0]]
/-- path on 5 vertices and the star with 4 leaves: the curvature/assignment step is what separates them -/
def P5 : Mat := [[0, 1, 2, 3, 4], [1, 0, 1, 2, 3], [2, 1, 0, 1, 2], [3, 2, 1, 0, 1], [4, 3, 2, 1, 0]]
def S5 : Mat := [[0, 1, 1, 1, 1], [1, 0, 2, 2, 2], [1, 2, 0, 2, 2], [1, 2, 2, 0, 2], [1, 2, 2, 2, 0]]

/-- a tree on 5 vertices of diameter 3 (a path 0-3-1-2 with a second leaf 4 at vertex 1) -/
def T5 : Mat := [[0, 2, 3, 1, 3], [2, 0, 1, 1, 1], [3, 1, 0, 2, 2], [1, 1, 2, 0, 2], [3, 1, 2, 2, 0]]

/-- `C4` relabelled by the permutation `(0 2 1 3)` -/
def C4' : Mat := [[0, 2, 1, 1], [2, 0, 1, 1], [1, 1, 0, 2], [1, 1, 2, 0]]

/-- the concrete matrices are distance matrices (non-vacuity of the `DistMat` hypotheses) -/
example : DistMat P3 3 ∧ DistMat C4 4 ∧ DistMat K3 3 ∧ DistMat K4 4 ∧ DistMat P5 5 ∧ DistMat S5 5 ∧
    DistMat T5 5 :=
  ⟨distMat_of_check (by decide), distMat_of_check (by decide), distMat_of_check (by decide),
    distMat_of_check (by decide), distMat_of_check (by decide), distMat_of_check (by decide),
    distMat_of_check (by decide)⟩

section
variable {DX DY : Mat} {n m : ℕ} [NeZero n] [NeZero m]

/-! ### lower bound -/

/-- **trivial bound**: `|diam X − diam Y| ≤ 2·mGH`, and spaces of different size are at `2·mGH ≥ 1`
    (the larger one has two points at distance ≥ 1 that some map must merge). -/
theorem trivial_lb_sound (hX : DistMat DX n) (hY : DistMat DY m) :
    trivialLb DX DY ≤ mGH2 (matFn DX n) (matFn DY m) :=
  trivialLb_le_mGH2 hX hY

example : trivialLb P3 C4 = 1 ∧ trivialLb K3 K4 = 1 ∧ trivialLb P5 S5 = 2 := by decide

omit [NeZero n] [NeZero m] in
/-- **the curvature loop keeps a principal submatrix**: whatever the sort keys (`keyMul` arbitrary)
    and `diam` are, for a square matrix `D` the returned `K` is the principal submatrix of `D` on a
    sub-list of `0..n-1` (distinct, increasing indices) whose pairwise distances are all `≥ d`. -/
theorem curvature_is_principal (keyMul : ℕ → ℕ → ℤ) {D : Mat} (hlen : D.length = n)
    (hrow : ∀ r ∈ D, r.length = n) (diam d : ℕ) :
    (largestBoundedCurvatureIdx keyMul D diam d).Sublist (List.range n) ∧
      ((largestBoundedCurvatureIdx keyMul D diam d).Pairwise fun i j => d ≤ ent D i j) ∧
      (largestBoundedCurvature keyMul D diam d).1 = sub D (largestBoundedCurvatureIdx keyMul D diam d) :=
  largestBoundedCurvature_spec keyMul hlen hrow diam d

omit [NeZero n] [NeZero m] in
/-- the recursion bound of the model's curvature loop (the number of kept rows) is never exhausted:
    one more unit changes nothing, so the model's `0` case is reached only with no rows left -/
theorem curvature_fuel_irrelevant (keyMul : ℕ → ℕ → ℤ) (diam d fuel : ℕ) (K : Mat) (idx : List ℕ)
    (h : K.length ≤ fuel) (hidx : idx.length = K.length) :
    curvLoop keyMul diam d (fuel + 1) K idx = curvLoop keyMul diam d fuel K idx :=
  curvLoop_fuel_succ keyMul diam d fuel K idx h hidx

example : largestBoundedCurvatureIdx exactMul P5 4 2 = [0, 4] ∧
    largestBoundedCurvatureIdx exactMul S5 2 2 = [1, 2, 3, 4] := by decide

omit [NeZero n] [NeZero m] in
/-- **Theorem A**: if more than `|Y|` points of `X` are pairwise at distance `≥ d`, every map
    `X → Y` has distortion `≥ d`. -/
theorem thmA (hY : DistMat DY m) {S : List ℕ} {d : ℕ} (hS : S.Sublist (List.range n))
    (hP : S.Pairwise fun i j => d ≤ ent DX i j) (hlen : m < S.length) :
    ∀ f : Fin n → Fin m, d ≤ dis (matFn DX n) (matFn DY m) f :=
  thmA_core hY hS hP hlen

/-- four pairwise distinct points of `K4` against the three points of `K3` (`d = 1`) -/
example : ([0, 1, 2, 3] : List ℕ).Sublist (List.range 4) ∧
    ([0, 1, 2, 3] : List ℕ).Pairwise (fun i j => 1 ≤ ent K4 i j) ∧ 3 < [0, 1, 2, 3].length := by
  decide

omit [NeZero n] [NeZero m] in
/-- **Theorem B, one row**: let `S` be points of `X` pairwise at distance `≥ d` and `i ∈ S`.  If for
    every row `j` of `DY` there is *no* injective assignment of the off-diagonal entries of row `i`
    of the curvature to off-diagonal entries of row `j` of `DY` with all differences `< d`, then
    every map `X → Y` has distortion `≥ d`. -/
theorem thmB_row (hY : DistMat DY m) {S : List ℕ} {d : ℕ}
    (hP : S.Pairwise fun i j => d ≤ ent DX i j) {i : Fin n} (hi : i.val ∈ S)
    (hno : ∀ j : Fin m, ¬ Assignable (ι := {s : Fin n // s.val ∈ S ∧ s ≠ i}) (κ := {y : Fin m // y ≠ j})
      (fun s => ent DX i s.val) (fun y => ent DY j y.val) d) :
    ∀ f : Fin n → Fin m, d ≤ dis (matFn DX n) (matFn DY m) f := by
  intro f
  by_contra h
  exact hno (f i) (thmB_core hY hP hi (Nat.lt_of_not_le h))

omit [NeZero n] [NeZero m] in
/-- **[P2] `greedy_complete`** (exchange-free proof by a Hall violator, `Lemmas/MGHGreedy.lean`):
    for vectors `v`, `u` with entries in `1..maxD`, indexed by any finite types, if
    `checkAssignmentFeasibility` answers `false` on their frequency distributions then there is no
    injective assignment `σ` with `|v k − u (σ k)| < d` for all `k`. -/
theorem greedy_complete {ι κ : Type} [Finite ι] [Finite κ] (v : ι → ℕ) (u : κ → ℕ) (maxD d : ℕ)
    (hd : 1 ≤ d) (hv : ∀ k, 1 ≤ v k ∧ v k ≤ maxD) (hu : ∀ l, 1 ≤ u l ∧ u l ≤ maxD)
    (h : checkAssignmentFeasibility (distOf v maxD) (distOf u maxD) d = false) :
    ¬ Assignable v u d :=
  greedyComplete v u maxD d hd hv hu h

omit [NeZero n] [NeZero m] in
/-- the same for vectors given as lists and the list-level `rowDistribution` the model uses -/
theorem greedy_complete_list (v u : List ℕ) (maxD d : ℕ) (hd : 1 ≤ d)
    (hv : ∀ x ∈ v, 1 ≤ x ∧ x ≤ maxD) (hu : ∀ x ∈ u, 1 ≤ x ∧ x ≤ maxD)
    (h : checkAssignmentFeasibility (rowDistribution maxD v) (rowDistribution maxD u) d = false) :
    ¬ AssignableList v u d := by
  rw [← distOf_list v maxD, ← distOf_list u maxD] at h
  exact greedyComplete _ _ maxD d hd (fun k => hv _ (List.getElem_mem k.isLt))
    (fun l => hu _ (List.getElem_mem l.isLt)) h

/-- `v = (3)`, `u = (1)`, `d = 2`: the greedy says infeasible -/
example : checkAssignmentFeasibility (rowDistribution 3 [3]) (rowDistribution 3 [1]) 2 = false ∧
    checkAssignmentFeasibility (rowDistribution 3 [3, 3, 1]) (rowDistribution 3 [3, 1, 1, 1]) 2 = false ∧
    checkAssignmentFeasibility (rowDistribution 3 [3, 1, 1]) (rowDistribution 3 [2, 2, 3, 1]) 2 = true := by
  decide

omit [NeZero n] [NeZero m] in
/-- the recursion bound of the model's feasibility loop is never exhausted: any bound above
    `(len rv − i) + (len ru − j)` gives the same answer (the model's `0` case is unreachable) -/
theorem feasibility_fuel_irrelevant (w f1 f2 : ℕ) (rv ru : List ℕ) (i j : ℕ)
    (h1 : (rv.length - i) + (ru.length - j) < f1) (h2 : (rv.length - i) + (ru.length - j) < f2) :
    feasLoop w f1 rv ru i j = feasLoop w f2 rv ru i j :=
  feasLoop_fuel_irrelevant w f1 f2 rv ru i j h1 h2

/-- **`find_lb` is sound**: for all distance matrices of all sizes and every `keyMul`,
    `find_lb ≤ 2·mGH`. -/
theorem find_lb_sound (hX : DistMat DX n) (hY : DistMat DY m) (kmX kmY : ℕ → ℕ → ℤ) :
    findLb kmX kmY DX DY ≤ mGH2 (matFn DX n) (matFn DY m) :=
  findLb_le_mGH2 greedyComplete hX hY kmX kmY

example : findLb exactMul exactMul P3 C4 = 1 ∧ findLb exactMul exactMul K3 K4 = 1 ∧
    findLb exactMul exactMul P5 S5 = 2 := by decide

/-- Theorem A at work: the four leaves of the star are pairwise at distance 2 and `K3` has three
    points — the bound 2 beats the trivial bound 1 -/
example : trivialLb S5 K3 = 1 ∧ findLb exactMul exactMul S5 K3 = 2 := by decide

/-- Theorem B at work (sizes 3 and 5, so Theorem A does not apply): the bound 2 beats the trivial 1 -/
example : trivialLb P3 T5 = 1 ∧ findLb exactMul exactMul P3 T5 = 2 ∧
    confirmRow 2 (largestBoundedCurvature exactMul T5 3 2).1 P3 3 = true := by decide

/-! ### the unrepaired code (regression witnesses; repaired in /repo by a42e80a) -/

/-- path on 14 vertices -/
def P14 : Mat := (List.range 14).map fun i => (List.range 14).map fun j => (i - j) + (j - i)

omit [NeZero n] [NeZero m] in
/-- **the old sort-key product**: `len(K) * diam_X` was `Python int * np.int8`.  Under NumPy 2 it is an
    `OverflowError` for 128 or more rows (no bounds are returned at all for graphs with ≥ 128 vertices
    and diameter ≤ 127), and below that it wraps modulo 256: on the 14-vertex path (`14·13 = 182 ↦ −74`)
    the wrapped keys keep 4 rows at `d = 2` where the exact keys keep 7 — still a principal submatrix
    with entries ≥ d (`curvature_is_principal`), but a weaker bound. -/
theorem old_key_product_counterexample :
    keyMulOld 128 2 = .error .overflow ∧ keyMulOld 14 13 = .ok (-74) ∧
      (largestBoundedCurvatureIdx (wrapMul 8) P14 13 2).length = 4 ∧
      (largestBoundedCurvatureIdx (wrapMul 64) P14 13 2).length = 7 := by
  decide

/-- the distribution (over values `100, …, 1`) of the one-entry vector `(100)` -/
def oneAt100 : List ℕ := 1 :: List.replicate 99 0

omit [NeZero n] [NeZero m] in
/-- **the old feasibility test was incomplete, hence the old lower bound unsound**: with `d` an int8
    scalar, `i + (d − 1) = 99 + 39` wrapped to `−118`, the window was empty and the vector `(100)` was
    declared *not* assignable to itself within `< 40` — although the identity is such an assignment.
    (On isomorphic 100-vertex paths the old code returned lower bounds > 0.)  The repaired test
    answers `true`, and `greedy_complete` shows it can never err in this direction. -/
theorem old_feasibility_counterexample :
    checkAssignmentFeasibilityOld oneAt100 oneAt100 40 = false ∧
      checkAssignmentFeasibility oneAt100 oneAt100 40 = true ∧ AssignableList [100] [100] 40 := by
  refine ⟨by decide, by decide, ⟨id, fun _ _ h => h, fun k => ?_⟩⟩
  simp [Nat.dist_self]

/-! ### upper bound -/

omit [NeZero m] in
/-- **`construct_mapping` returns an actual map and its exact distortion**: for a permutation `pi`
    of the points of `X` and a valid first image, the returned pairs are the graph of a total map
    `f : X → Y` (listed in the order of `pi`) and the returned number is `dis f`. -/
theorem mapping_distortion_exact (hX : DistMat DX n) (hY : DistMat DY m) {pi : List ℕ} {y0 : ℕ}
    (hpi : pi.Perm (List.range n)) (hy0 : y0 < m) :
    ∃ mapped dist, constructMapping DX DY pi y0 = .ok (mapped, dist) ∧ mapped.map Prod.fst = pi ∧
      ∃ f : Fin n → Fin m, (∀ x : Fin n, (x.val, (f x).val) ∈ mapped) ∧
        dis (matFn DX n) (matFn DY m) f = dist := by
  have hne : pi ≠ [] := by
    intro e; subst e
    have := hpi.length_eq; simp at this
    exact NeZero.ne n this.symm
  obtain ⟨⟨mapped, dist⟩, hr⟩ := constructMapping_ok DX DY y0 hne
  obtain ⟨h1, f, h2, _, h3⟩ := constructMapping_exact hX hY hpi hy0 hr
  exact ⟨mapped, dist, hr, h1, f, h2, h3⟩

example : constructMapping P3 C4 [2, 0, 1] 3 = .ok ([(2, 3), (0, 1), (1, 0)], 0) := by decide
example : ([2, 0, 1] : List ℕ).Perm (List.range 3) := by decide

omit [NeZero n] in
/-- **`find_ub_of_min_distortion` never goes below the minimum distortion**, for every list of
    permutations, every list of first images and every goal. -/
theorem find_ub_of_min_distortion_sound (hX : DistMat DX n) (hY : DistMat DY m)
    (perms : List (List ℕ)) (y0s : List ℕ) (goal : ℕ)
    (hperms : ∀ pi ∈ perms, pi.Perm (List.range n)) (hy0s : ∀ y ∈ y0s, y < m)
    {ub k : ℕ} (h : findUbOfMinDistortion DX DY perms y0s goal = .ok (ub, k)) :
    minDis (matFn DX n) (matFn DY m) ≤ ub :=
  findUbOfMinDistortion_sound hX hY perms y0s goal hperms hy0s h

/-- **`find_ub` is sound**: for every list of permutations and first images in either direction
    (every state of the generator, every sample size) and every `double_lb`, `2·mGH ≤ find_ub`. -/
theorem find_ub_sound (hX : DistMat DX n) (hY : DistMat DY m)
    (pXY : List (List ℕ)) (yXY : List ℕ) (pYX : List (List ℕ)) (yYX : List ℕ) (lb : ℕ)
    (hpXY : ∀ pi ∈ pXY, pi.Perm (List.range n)) (hyXY : ∀ y ∈ yXY, y < m)
    (hpYX : ∀ pi ∈ pYX, pi.Perm (List.range m)) (hyYX : ∀ y ∈ yYX, y < n)
    {ub k1 k2 : ℕ} (h : findUb DX DY pXY yXY pYX yYX lb = .ok (ub, k1, k2)) :
    mGH2 (matFn DX n) (matFn DY m) ≤ ub := by
  unfold findUb at h
  rcases h1 : findUbOfMinDistortion DX DY pXY yXY lb with e | ⟨u1, c1⟩
  · simp [h1] at h
  · rcases h2 : findUbOfMinDistortion DY DX pYX yYX u1 with e | ⟨u2, c2⟩
    · simp [h1, h2] at h
    · simp only [h1, h2, Except.ok.injEq, Prod.mk.injEq] at h
      obtain ⟨rfl, _, _⟩ := h
      have a1 := findUbOfMinDistortion_sound hX hY pXY yXY lb hpXY hyXY h1
      have a2 := findUbOfMinDistortion_sound hY hX pYX yYX u1 hpYX hyYX h2
      exact max_le_max a1 a2

/-- the sampling never fails when each direction has at least one permutation (the sample size
    `ceil(|X|^a · log(|X|+1)^b)` is at least 1) and a first image for each -/
theorem find_ub_total (pXY : List (List ℕ)) (yXY : List ℕ) (pYX : List (List ℕ)) (yYX : List ℕ)
    (lb : ℕ) (h1 : pXY ≠ []) (h2 : pYX ≠ []) (hp1 : ∀ pi ∈ pXY, pi ≠ []) (hp2 : ∀ pi ∈ pYX, pi ≠ [])
    (hl1 : pXY.length ≤ yXY.length) (hl2 : pYX.length ≤ yYX.length) :
    ∃ r, findUb DX DY pXY yXY pYX yYX lb = .ok r := by
  unfold findUb findUbOfMinDistortion
  obtain ⟨r1, e1⟩ := ubLoop_ok DX DY lb pXY yXY none 0 (Or.inl h1) hp1 hl1
  obtain ⟨r2, e2⟩ := ubLoop_ok DY DX r1.1 pYX yYX none 0 (Or.inl h2) hp2 hl2
  exact ⟨_, by rw [e1]; simp only; rw [e2]⟩

example : findUb P3 C4 [[2, 0, 1], [0, 1, 2]] [3, 0] [[3, 1, 0, 2]] [1] 1 = .ok (1, 1, 1) := by decide

/-! ### the bracket -/

/-- what `estimate` returns: `(0.5 * double_lb, 0.5 * double_ub)` -/
def estimateHalf (kmX kmY : ℕ → ℕ → ℤ) (DX DY : Mat) (pXY : List (List ℕ)) (yXY : List ℕ)
    (pYX : List (List ℕ)) (yYX : List ℕ) : Except Err (ℚ × ℚ) :=
  (estimate kmX kmY DX DY pXY yXY pYX yYX).map fun r => ((r.1 : ℚ) / 2, (r.2 : ℚ) / 2)

/-- **upper half of the bracket** (unconditional): `mGH ≤ upper`, both estimates in `½ℕ`. -/
theorem brackets_upper (hX : DistMat DX n) (hY : DistMat DY m)
    (kmX kmY : ℕ → ℕ → ℤ) (pXY : List (List ℕ)) (yXY : List ℕ) (pYX : List (List ℕ)) (yYX : List ℕ)
    (hpXY : ∀ pi ∈ pXY, pi.Perm (List.range n)) (hyXY : ∀ y ∈ yXY, y < m)
    (hpYX : ∀ pi ∈ pYX, pi.Perm (List.range m)) (hyYX : ∀ y ∈ yYX, y < n)
    {lo hi : ℚ} (h : estimateHalf kmX kmY DX DY pXY yXY pYX yYX = .ok (lo, hi)) :
    mGH (matFn DX n) (matFn DY m) ≤ hi ∧ lo = ((findLb kmX kmY DX DY : ℕ) : ℚ) / 2 ∧
      ∃ b : ℕ, hi = (b : ℚ) / 2 := by
  unfold estimateHalf estimate at h
  rcases hu : findUb DX DY pXY yXY pYX yYX (findLb kmX kmY DX DY) with e | ⟨ub, k1, k2⟩
  · simp [hu, Except.map] at h
  · simp only [hu, Except.map, Except.ok.injEq, Prod.mk.injEq] at h
    obtain ⟨rfl, rfl⟩ := h
    have := find_ub_sound hX hY pXY yXY pYX yYX _ hpXY hyXY hpYX hyYX hu
    refine ⟨?_, rfl, ub, rfl⟩
    unfold mGH
    have : (mGH2 (matFn DX n) (matFn DY m) : ℚ) ≤ (ub : ℚ) := by exact_mod_cast this
    linarith

/-- **the bracket**: whatever permutations and first images the generator yields, in whatever
    number, `lower ≤ mGH ≤ upper`, and both returned values are non-negative multiples of 1/2. -/
theorem brackets (hX : DistMat DX n) (hY : DistMat DY m)
    (kmX kmY : ℕ → ℕ → ℤ) (pXY : List (List ℕ)) (yXY : List ℕ) (pYX : List (List ℕ)) (yYX : List ℕ)
    (hpXY : ∀ pi ∈ pXY, pi.Perm (List.range n)) (hyXY : ∀ y ∈ yXY, y < m)
    (hpYX : ∀ pi ∈ pYX, pi.Perm (List.range m)) (hyYX : ∀ y ∈ yYX, y < n)
    {lo hi : ℚ} (h : estimateHalf kmX kmY DX DY pXY yXY pYX yYX = .ok (lo, hi)) :
    lo ≤ mGH (matFn DX n) (matFn DY m) ∧ mGH (matFn DX n) (matFn DY m) ≤ hi ∧
      ∃ a b : ℕ, lo = (a : ℚ) / 2 ∧ hi = (b : ℚ) / 2 := by
  obtain ⟨h1, h2, b, h3⟩ := brackets_upper hX hY kmX kmY pXY yXY pYX yYX hpXY hyXY hpYX hyYX h
  refine ⟨?_, h1, _, b, h2, h3⟩
  rw [h2]
  unfold mGH
  have : ((findLb kmX kmY DX DY : ℕ) : ℚ) ≤ (mGH2 (matFn DX n) (matFn DY m) : ℚ) := by
    exact_mod_cast find_lb_sound hX hY kmX kmY
  linarith

/-- the estimate never fails when each direction has a permutation and a first image for each -/
theorem estimate_total (kmX kmY : ℕ → ℕ → ℤ) (pXY : List (List ℕ)) (yXY : List ℕ)
    (pYX : List (List ℕ)) (yYX : List ℕ) (h1 : pXY ≠ []) (h2 : pYX ≠ [])
    (hp1 : ∀ pi ∈ pXY, pi ≠ []) (hp2 : ∀ pi ∈ pYX, pi ≠ [])
    (hl1 : pXY.length ≤ yXY.length) (hl2 : pYX.length ≤ yYX.length) :
    ∃ r, estimateHalf kmX kmY DX DY pXY yXY pYX yYX = .ok r := by
  obtain ⟨r, hr⟩ := find_ub_total (DX := DX) (DY := DY) pXY yXY pYX yYX (findLb kmX kmY DX DY)
    h1 h2 hp1 hp2 hl1 hl2
  exact ⟨(((findLb kmX kmY DX DY : ℕ) : ℚ) / 2, ((r.1 : ℕ) : ℚ) / 2),
    by simp only [estimateHalf, estimate, hr, Except.map]⟩

example : estimate exactMul exactMul P3 C4 [[2, 0, 1]] [3] [[3, 1, 0, 2]] [1] = .ok (1, 1) := by
  decide

/-! ### the search oracle of the harness -/

/-- **the exhaustive search behind the driver command `mgh.spec` computes the specification**:
    enumerating all `|Y|^|X|` and `|X|^|Y|` image lists gives exactly `2·mGH`. -/
theorem exhaustive_oracle_correct (hn : DX.length = n) (hm : DY.length = m) :
    mgh2Brute DX DY = some (mGH2 (matFn DX n) (matFn DY m)) :=
  mgh2Brute_eq hn hm

example : mgh2Brute P3 C4 = some 1 ∧ mgh2Brute K3 K3 = some 0 := by
  decide +kernel

/-! ### isomorphic graphs -/

/-- isometric spaces are at distance 0 -/
theorem mGH2_eq_zero_of_isometric (h : Isometric (matFn DX n) (matFn DY m)) :
    mGH2 (matFn DX n) (matFn DY m) = 0 := by
  obtain ⟨e, he⟩ := h
  have h1 : minDis (matFn DX n) (matFn DY m) = 0 := by
    apply Nat.le_zero.1
    refine le_trans (minDis_le _ _ e) ?_
    rw [dis_le_iff]; intro a b; rw [he]; simp [Nat.dist_self]
  have h2 : minDis (matFn DY m) (matFn DX n) = 0 := by
    apply Nat.le_zero.1
    refine le_trans (minDis_le _ _ e.symm) ?_
    rw [dis_le_iff]; intro a b
    have := he (e.symm a) (e.symm b)
    simp only [Equiv.apply_symm_apply] at this
    rw [this]; simp [Nat.dist_self]
  simp [mGH2, h1, h2]

/-- **isomorphic graphs always receive lower bound 0** (every labelling, every `keyMul`). -/
theorem iso_lb_zero (hX : DistMat DX n) (hY : DistMat DY m)
    (hiso : Isometric (matFn DX n) (matFn DY m)) (kmX kmY : ℕ → ℕ → ℤ) :
    findLb kmX kmY DX DY = 0 := by
  have := find_lb_sound hX hY kmX kmY
  rw [mGH2_eq_zero_of_isometric hiso] at this
  exact Nat.le_zero.1 this

/-- the transposition `(1 2)` of the vertices -/
def swap12 : Fin 4 ≃ Fin 4 where
  toFun i := if i = 1 then 2 else if i = 2 then 1 else i
  invFun i := if i = 1 then 2 else if i = 2 then 1 else i
  left_inv := by decide
  right_inv := by decide

example : Isometric (matFn C4 4) (matFn C4' 4) := ⟨swap12, by decide⟩

example : findLb exactMul exactMul C4 C4' = 0 := by decide

end

end PersimVerif.C05
