import PersimVerif.Props.C14
import PersimVerif.Props.C15
import PersimVerif.Props.C07Model
import Mathlib.Data.List.Iterate
import Mathlib.Algebra.Group.Basic

/-!
# C15 / C14 against C02: the Wasserstein comparisons for what the MODELS return

`Props/C15.lean` (`sw_le_two_w1_min`) and `Props/C14.lean` (`w1_stability`) end with a comparison against the
1-Wasserstein distance, stated against a SPECIFICATION of W1 (`Spec.IsMinSum`).  `Props/C02.lean` proves that
the model of `persim.wasserstein` returns a specification value.  This file composes them: the clauses become
statements about two model runs on the same pair of diagrams, as a user calling
`sliced_wasserstein(D1, D2, M)` / `heat(D1, D2, sigma)` and `wasserstein(D1, D2)` sees them.

**The two W1 notions and the bridge.**
* C15 / C14: `IsMinSum` over partial matchings `Spec.PM (Fin D1.length) (Fin D2.length)` with pair cost the
  Euclidean (L2) distance `√((b−b')² + (d−d')²)` and diagonal cost `|d − b| / √2` (`C15.euclid`, `C15.toDiag`;
  `C14.euclid`, `C14.toDiag` are the same expressions) — `IsW1` below.
* C02 (`wasserstein_eq_spec_real`, through `C07.WsReturns` / `C07.wsReturns_isWs`): `IsMinSum` over the same
  matchings with the same Euclidean pair cost and the SIGNED diagonal cost `(d − b) / √2` (what the rotation of
  the code computes, `C02.rot_diag_cost_real`).
The ground metric is the same (L2 / L2-to-the-diagonal): no norm comparison and no loss in the constants.  The
only difference is the absolute value, and it disappears exactly under the guard `birth ≤ death` on every
point (`wsReturns_isW1`).  The guard is necessary, not a convenience: for `D1 = [(1, 0)]`, `D2 = []` the
Wasserstein model returns `−1/√2 < 0` while the sliced value and the heat distance are `≥ 0`.

**Constants.**  (A) `2`, the constant of the property ("never exceeds twice the 1-Wasserstein distance");
(B) `1 / (4 σ √π)`, the constant of `C14.w1_stability`.  Both unchanged by the composition.

**Scope.**  Exact arithmetic over `ℝ` (`Real.sqrt`, `Real.cos`, `Real.sin`, `Real.exp`, `Real.pi`), every
size including 0, repeated and diagonal points, every solver honouring `WsLemmas.LsaContract`
(`scipy.optimize.linear_sum_assignment`'s contract; `Wasserstein.exhLsa` is a computable instance), every
`M ≥ 1` (for `M = 0` the sliced model raises like the code and nothing is claimed), every `σ > 0`.
Floating-point rounding is outside, as in C02 / C14 / C15.
-/
namespace PersimVerif.C15C14Model
open PersimVerif.Spec

noncomputable section

abbrev Dgm := List (ℝ × ℝ)

/-- every point has `birth ≤ death` -/
def ProperList (D : Dgm) : Prop := ∀ p ∈ D, p.1 ≤ p.2

/-- **the 1-Wasserstein distance of C15 and C14**: `w` is the least total cost of a partial matching between
    the points of `D1` and of `D2` (by index, so multiplicities count), a matched pair costing its Euclidean
    distance and an unmatched point of either side `|d − b| / √2`, its Euclidean distance to the diagonal -/
def IsW1 (D1 D2 : Dgm) (w : ℝ) : Prop :=
  IsMinSum (M := Fin D1.length) (N := Fin D2.length)
    (fun i j => Real.sqrt (((D1.get i).1 - (D2.get j).1) ^ 2 + ((D1.get i).2 - (D2.get j).2) ^ 2))
    (fun i => |(D1.get i).2 - (D1.get i).1| / Real.sqrt 2)
    (fun j => |(D2.get j).2 - (D2.get j).1| / Real.sqrt 2) w

/-- `IsW1` is literally the hypothesis of `C15.sw_le_two_w1_min` … -/
theorem isW1_iff_c15 (D1 D2 : Dgm) (w : ℝ) :
    IsW1 D1 D2 w ↔ IsMinSum (M := Fin D1.length) (N := Fin D2.length)
      (fun i j => C15.euclid (D1.get i) (D2.get j)) (fun i => C15.toDiag (D1.get i))
      (fun j => C15.toDiag (D2.get j)) w := Iff.rfl

/-- … and of `C14.w1_stability` -/
theorem isW1_iff_c14 (D1 D2 : Dgm) (w : ℝ) :
    IsW1 D1 D2 w ↔ IsMinSum (M := Fin D1.length) (N := Fin D2.length)
      (fun i j => C14.euclid (D1.get i) (D2.get j)) (fun i => C14.toDiag (D1.get i))
      (fun j => C14.toDiag (D2.get j)) w := Iff.rfl

/-! ### the bridge: what the Wasserstein model returns is the W1 of C15 / C14 -/

/-- on a point with `b ≤ d` the signed diagonal cost of C02 is the distance to the diagonal of C15 / C14 -/
private lemma diag_cost_eq {D : Dgm} (h : ProperList D) :
    (fun i : Fin D.length => C07.diagL2 (D.get i)) = fun i => |(D.get i).2 - (D.get i).1| / Real.sqrt 2 :=
  funext fun i => by
    unfold C07.diagL2
    rw [abs_of_nonneg (sub_nonneg.mpr (h _ (List.get_mem D i)))]

/-- **the value returned by the model of `persim.wasserstein(D1, D2)` is the 1-Wasserstein distance that C15
    and C14 compare against**, for diagrams with `birth ≤ death` and every solver honouring the contract -/
theorem wsReturns_isW1 {lsa : Wasserstein.Mat ℝ → List (Nat × Nat)} (hl : WsLemmas.LsaContract lsa)
    {D1 D2 : Dgm} (h1 : ProperList D1) (h2 : ProperList D2) {w : ℝ}
    (hw : C07.WsReturns lsa (Wasserstein.lift D1) (Wasserstein.lift D2) w) : IsW1 D1 D2 w := by
  have h : C07.IsWs D1.get D2.get w :=
    (C07.isWs_congr_list (WsLemmas.finitePart_lift D1) (WsLemmas.finitePart_lift D2) w).mp
      (C07.wsReturns_isWs hl hw)
  have h' : IsMinSum (M := Fin D1.length) (N := Fin D2.length)
      (fun i j => C07.euclid (D1.get i) (D2.get j)) (fun i => C07.diagL2 (D1.get i))
      (fun j => C07.diagL2 (D2.get j)) w := h
  rw [diag_cost_eq h1, diag_cost_eq h2] at h'
  exact h'

/-- the Wasserstein model does return a value on every pair of finite diagrams (C02), so the hypothesis
    `WsReturns … w` of the theorems below is met by exactly one `w` -/
theorem wsReturns_exists {lsa : Wasserstein.Mat ℝ → List (Nat × Nat)} (hl : WsLemmas.LsaContract lsa)
    (D1 D2 : Dgm) : ∃ w, C07.WsReturns lsa (Wasserstein.lift D1) (Wasserstein.lift D2) w := by
  obtain ⟨w, hw, -⟩ := C07.model_ws_is_spec hl (Wasserstein.lift D1) (Wasserstein.lift D2)
  exact ⟨w, hw⟩

/-! ### (A) sliced Wasserstein ≤ 2 · Wasserstein, both as returned by the models -/

/-- **(A), for every list of unit directions.**  If the model of `wasserstein(D1, D2)` returns `w` and the
    model of `sliced_wasserstein(D1, D2, M)` (exact diagonal projection `Diag`, any list `dirs` of `M` unit
    vectors) returns `v`, then `v ≤ 2 w`.  The constant is the `2` of the property.  (`sw … = .ok v` already
    says `dirs ≠ []`, i.e. `M ≥ 1`.) -/
theorem model_sw_le_two_model_wasserstein_dirs
    {lsa : Wasserstein.Mat ℝ → List (Nat × Nat)} (hl : WsLemmas.LsaContract lsa)
    {dd : ℝ × ℝ} {s c : ℝ} (hd : C15.Diag dd s c)
    (dirs : List (ℝ × ℝ)) (hunit : ∀ d ∈ dirs, d.1 * d.1 + d.2 * d.2 = 1)
    {D1 D2 : Dgm} (h1 : ProperList D1) (h2 : ProperList D2) {w v : ℝ}
    (hw : C07.WsReturns lsa (Wasserstein.lift D1) (Wasserstein.lift D2) w)
    (hv : Sliced.sw C15.natCast dd s dirs D1 D2 = .ok v) : v ≤ 2 * w := by
  have hne : dirs ≠ [] := by
    rintro rfl
    simp [Sliced.sw] at hv
  have e := (C15.sw_ok_iff dd s dirs D1 D2).1 hne
  rw [e] at hv
  injection hv with hv
  rw [← hv]
  exact C15.sw_le_two_w1_min hd dirs hne hunit D1 D2 w (wsReturns_isW1 hl h1 h2 hw)

/-! the directions and constants of the code, in exact arithmetic -/

/-- the angles (in units of `π`) of the loop of `sliced_wasserstein`:
    `theta = 0.5; step = 1.0 / M; for i in range(M): …use theta…; theta += step` -/
def thetas (M : ℕ) : List ℝ := List.iterate (· + 1 / (M : ℝ)) (1 / 2) M

/-- the `M` direction vectors `l_theta = (cos(theta·π), sin(theta·π))` of the loop -/
def codeDirs (M : ℕ) : List (ℝ × ℝ) :=
  (thetas M).map fun θ => (Real.cos (θ * Real.pi), Real.sin (θ * Real.pi))

/-- closed form: the `i`-th angle is `(1/2 + i/M) π`, `i < M` — `M` equally spaced directions of the half circle -/
theorem thetas_eq (M : ℕ) : thetas M = (List.range M).map fun (i : ℕ) => 1 / 2 + (i : ℝ) * (1 / (M : ℝ)) := by
  unfold thetas
  rw [← List.range_map_iterate]
  refine List.map_congr_left fun i _ => ?_
  rw [add_right_iterate, nsmul_eq_mul]

theorem codeDirs_length (M : ℕ) : (codeDirs M).length = M := by
  simp [codeDirs, thetas]

theorem codeDirs_unit (M : ℕ) : ∀ d ∈ codeDirs M, d.1 * d.1 + d.2 * d.2 = 1 := by
  intro d hd
  obtain ⟨θ, -, rfl⟩ := List.mem_map.mp hd
  have := Real.cos_sq_add_sin_sq (θ * Real.pi)
  simpa [sq] using this

/-- `diag_theta = (cos(π/4), sin(π/4))` and the divisor `sqrt(2.0)` of the code satisfy `C15.Diag` -/
theorem diag_code :
    C15.Diag (Real.cos (Real.pi / 4), Real.sin (Real.pi / 4)) (Real.sqrt 2) (Real.sqrt 2 / 2) := by
  rw [Real.cos_pi_div_four, Real.sin_pi_div_four]
  refine ⟨rfl, by ring, ?_⟩
  have h : Real.sqrt 2 * Real.sqrt 2 = 2 := Real.mul_self_sqrt (by norm_num)
  rw [div_mul_div_comm, h]; norm_num

/-- **the model of `sliced_wasserstein(D1, D2, M)`** with the code's own constants and directions:
    `Sliced.sw` at `ℝ`, `diag_theta = (cos(π/4), sin(π/4))`, divisor `√2`, directions `codeDirs M` -/
def swCode (M : ℕ) (D1 D2 : Dgm) : Except Sliced.Err ℝ :=
  Sliced.sw C15.natCast (Real.cos (Real.pi / 4), Real.sin (Real.pi / 4)) (Real.sqrt 2) (codeDirs M) D1 D2

/-- it returns a value exactly for `M ≥ 1` (`1.0 / M` raises for `M = 0`) -/
theorem swCode_ok (M : ℕ) (hM : 1 ≤ M) (D1 D2 : Dgm) : ∃ v, swCode M D1 D2 = .ok v := by
  have hne : codeDirs M ≠ [] := by
    intro h
    have := codeDirs_length M
    rw [h] at this
    simp at this
    omega
  exact ⟨_, (C15.sw_ok_iff _ _ (codeDirs M) D1 D2).1 hne⟩

theorem swCode_zero (D1 D2 : Dgm) : swCode 0 D1 D2 = .error .zeroDivision := rfl

/-- **(A) `sliced_wasserstein(D1, D2, M) ≤ 2 · wasserstein(D1, D2)`, for what the two models return.**
    `D1`, `D2` finite diagrams of every size with `birth ≤ death`; `M` the number of directions of the call (the
    model uses the code's `M` equally spaced directions `(cos((1/2 + i/M)π), sin((1/2 + i/M)π))` and its
    `diag_theta`, `sqrt(2.0)`); `lsa` any assignment solver honouring `LsaContract`.  If the Wasserstein model
    returns `w` and the sliced model returns `v` (so `M ≥ 1`), then `v ≤ 2 w` — the property's
    "never exceeds twice the 1-Wasserstein distance" with its own constant `2`, the 1-Wasserstein distance being
    the value of `persim.wasserstein` itself. -/
theorem model_sw_le_two_model_wasserstein
    {lsa : Wasserstein.Mat ℝ → List (Nat × Nat)} (hl : WsLemmas.LsaContract lsa)
    {D1 D2 : Dgm} (h1 : ProperList D1) (h2 : ProperList D2) (M : ℕ) {w v : ℝ}
    (hw : C07.WsReturns lsa (Wasserstein.lift D1) (Wasserstein.lift D2) w)
    (hv : swCode M D1 D2 = .ok v) : v ≤ 2 * w :=
  model_sw_le_two_model_wasserstein_dirs hl diag_code (codeDirs M) (codeDirs_unit M) h1 h2 hw hv

/-! ### (B) heat ≤ Wasserstein / (4 σ √π), both as returned by the models -/

/-- **(B) `heat(D1, D2, sigma) ≤ wasserstein(D1, D2) / (4 σ √π)`, for what the two models return.**
    `D1`, `D2` finite diagrams of every size with `birth ≤ death`, `σ > 0`, `lsa` any assignment solver honouring
    `LsaContract`.  If the Wasserstein model returns `w`, the value of the heat model (`Heat.heat` at `ℝ` with
    `Real.exp`, `Real.sqrt`, `Real.pi`; total, there is nothing to raise) is at most `w / (4 σ √π)` — the constant
    of `C14.w1_stability`, unchanged. -/
theorem model_heat_le_model_wasserstein
    {lsa : Wasserstein.Mat ℝ → List (Nat × Nat)} (hl : WsLemmas.LsaContract lsa)
    {D1 D2 : Dgm} (h1 : ProperList D1) (h2 : ProperList D2) (σ : ℝ) (hσ : 0 < σ) {w : ℝ}
    (hw : C07.WsReturns lsa (Wasserstein.lift D1) (Wasserstein.lift D2) w) :
    Heat.heat Real.exp Real.sqrt Real.pi D1 D2 σ ≤ w / (4 * σ * Real.sqrt Real.pi) :=
  C14.w1_stability D1 D2 σ hσ w (wsReturns_isW1 hl h1 h2 hw)

/-- the three values of one pair of diagrams in one chain: `heat · 4σ√π ≤ wasserstein`, `sliced ≤ 2 · wasserstein` -/
theorem model_heat_sw_vs_model_wasserstein
    {lsa : Wasserstein.Mat ℝ → List (Nat × Nat)} (hl : WsLemmas.LsaContract lsa)
    {D1 D2 : Dgm} (h1 : ProperList D1) (h2 : ProperList D2) (M : ℕ) (σ : ℝ) (hσ : 0 < σ) {w v : ℝ}
    (hw : C07.WsReturns lsa (Wasserstein.lift D1) (Wasserstein.lift D2) w)
    (hv : swCode M D1 D2 = .ok v) :
    4 * σ * Real.sqrt Real.pi * Heat.heat Real.exp Real.sqrt Real.pi D1 D2 σ ≤ w ∧ v ≤ 2 * w := by
  refine ⟨?_, model_sw_le_two_model_wasserstein hl h1 h2 M hw hv⟩
  have hpos : 0 < 4 * σ * Real.sqrt Real.pi := by
    have := Real.sqrt_pos.mpr Real.pi_pos
    positivity
  have h := model_heat_le_model_wasserstein hl h1 h2 σ hσ hw
  rw [le_div_iff₀ hpos] at h
  linarith

/-! ### the guard `birth ≤ death` cannot be dropped -/

/-- for the (improper) one-point diagram `[(1, 0)]` against the empty diagram the Wasserstein model returns the
    negative number `(0 − 1)/√2`, so neither bound can hold there (both left-hand sides are `≥ 0`:
    `C15.sw_nonneg`, `C14.heat_real_nonneg`) -/
theorem guard_needed {lsa : Wasserstein.Mat ℝ → List (Nat × Nat)} (hl : WsLemmas.LsaContract lsa) {w : ℝ}
    (hw : C07.WsReturns lsa (Wasserstein.lift [(1, 0)]) (Wasserstein.lift []) w) :
    w < 0 ∧ ∀ M v, swCode M [(1, 0)] [] = .ok v → ¬ v ≤ 2 * w := by
  have e := C07.model_ws_vs_empty hl (d1 := Wasserstein.lift [(1, 0)]) (d2 := Wasserstein.lift []) rfl hw
  have hw0 : w < 0 := by
    rw [e]
    have h2 : 0 < Real.sqrt 2 := Real.sqrt_pos.mpr (by norm_num)
    simp only [Wasserstein.lift, Wasserstein.finitePart, List.map_cons, List.map_nil, List.filterMap_cons,
      List.filterMap_nil, List.sum_cons, List.sum_nil, add_zero]
    exact div_neg_of_neg_of_pos (by norm_num) h2
  refine ⟨hw0, fun M v hv hle => ?_⟩
  have hne : codeDirs M ≠ [] := by
    intro h
    simp [swCode, h, Sliced.sw] at hv
  have e' := (C15.sw_ok_iff (Real.cos (Real.pi / 4), Real.sin (Real.pi / 4)) (Real.sqrt 2) (codeDirs M)
    [(1, 0)] []).1 hne
  unfold swCode at hv
  rw [e'] at hv
  injection hv with hv
  have := C15.sw_nonneg (Real.cos (Real.pi / 4), Real.sin (Real.pi / 4)) (Real.sqrt 2) (codeDirs M) [(1, 0)] []
  linarith

/-! ### non-vacuity: every hypothesis is met by concrete non-trivial inputs, and the runs exist -/

/-- two off-diagonal points each -/
def dgmP : Dgm := [(0, 3), (1, 4)]
def dgmQ : Dgm := [(0, 2), (2, 5)]

theorem dgmP_proper : ProperList dgmP := by
  intro p hp
  simp [dgmP] at hp
  rcases hp with rfl | rfl <;> norm_num

theorem dgmQ_proper : ProperList dgmQ := by
  intro p hp
  simp [dgmQ] at hp
  rcases hp with rfl | rfl <;> norm_num

/-- (A): with the computable exhaustive solver (`C02.exhLsa_contract`) and `M = 3` directions, both models
    return a value on `dgmP`, `dgmQ`, and the bound holds between the two returned values -/
example : ∃ w v : ℝ, WsLemmas.LsaContract (K := ℝ) Wasserstein.exhLsa ∧ ProperList dgmP ∧ ProperList dgmQ ∧
    C07.WsReturns Wasserstein.exhLsa (Wasserstein.lift dgmP) (Wasserstein.lift dgmQ) w ∧
    swCode 3 dgmP dgmQ = .ok v ∧ v ≤ 2 * w := by
  obtain ⟨w, hw⟩ := wsReturns_exists (C02.exhLsa_contract (K := ℝ)) dgmP dgmQ
  obtain ⟨v, hv⟩ := swCode_ok 3 (by norm_num) dgmP dgmQ
  exact ⟨w, v, C02.exhLsa_contract, dgmP_proper, dgmQ_proper, hw, hv,
    model_sw_le_two_model_wasserstein C02.exhLsa_contract dgmP_proper dgmQ_proper 3 hw hv⟩

/-- (B): the same pair, `σ = 0.4` (the default of `heat`) -/
example : ∃ w : ℝ, C07.WsReturns Wasserstein.exhLsa (Wasserstein.lift dgmP) (Wasserstein.lift dgmQ) w ∧
    (0 : ℝ) < 0.4 ∧
    Heat.heat Real.exp Real.sqrt Real.pi dgmP dgmQ 0.4 ≤ w / (4 * 0.4 * Real.sqrt Real.pi) := by
  obtain ⟨w, hw⟩ := wsReturns_exists (C02.exhLsa_contract (K := ℝ)) dgmP dgmQ
  exact ⟨w, hw, by norm_num,
    model_heat_le_model_wasserstein C02.exhLsa_contract dgmP_proper dgmQ_proper 0.4 (by norm_num) hw⟩

/-- the directions of the code for `M = 2`: `θ = π/2` and `θ = π`, i.e. `(0, 1)` and `(−1, 0)` -/
theorem codeDirs_two : codeDirs 2 = [(0, 1), (-1, 0)] := by
  have e : thetas 2 = [1 / 2, 1] := by
    rw [thetas_eq]
    simp [List.range_succ]
    norm_num
  simp only [codeDirs, e, List.map_cons, List.map_nil, one_mul]
  rw [show (1 / 2 : ℝ) * Real.pi = Real.pi / 2 by ring]
  simp

/-- the bounds are not trivially true: the Wasserstein value of `[(0,1)]` against the empty diagram is
    `1/√2`, and the sliced value for `M = 2` is `1/2 > 0` — a positive number bounded by `2/√2` -/
example : ∃ w v : ℝ, C07.WsReturns Wasserstein.exhLsa (Wasserstein.lift [(0, 1)]) (Wasserstein.lift []) w ∧
    swCode 2 [(0, 1)] [] = .ok v ∧ w = 1 / Real.sqrt 2 ∧ 0 < v ∧ v ≤ 2 * w := by
  have hl := C02.exhLsa_contract (K := ℝ)
  have hP : ProperList [((0 : ℝ), (1 : ℝ))] := by
    intro p hp; simp at hp; subst hp; norm_num
  have hE : ProperList ([] : Dgm) := by intro p hp; cases hp
  obtain ⟨w, hw⟩ := wsReturns_exists hl [(0, 1)] []
  obtain ⟨v, hv⟩ := swCode_ok 2 (by norm_num) [(0, 1)] []
  have ew : w = 1 / Real.sqrt 2 := by
    rw [C07.model_ws_vs_empty hl (d1 := Wasserstein.lift [(0, 1)]) (d2 := Wasserstein.lift []) rfl hw]
    simp [Wasserstein.lift, Wasserstein.finitePart]
  refine ⟨w, v, hw, hv, ew, ?_, model_sw_le_two_model_wasserstein hl hP hE 2 hw hv⟩
  -- the value is the average over the two directions; the direction `(0,1)` alone contributes `1/2 · 1/2`
  have hne : codeDirs 2 ≠ [] := by
    intro h; have := codeDirs_length 2; rw [h] at this; simp at this
  have e' := (C15.sw_ok_iff (Real.cos (Real.pi / 4), Real.sin (Real.pi / 4)) (Real.sqrt 2) (codeDirs 2)
    [(0, 1)] []).1 hne
  unfold swCode at hv
  rw [e'] at hv
  injection hv with hv
  rw [← hv]
  rw [codeDirs_two, C15.sw_eq_average]
  simp only [List.map_cons, List.map_nil, C15.diagProj_eq_midpoint diag_code, Sliced.slice, Sliced.dot,
    Lemmas.SortedL1.sortedCost, Sliced.sort, List.nil_append, List.append_nil, List.mergeSort_singleton,
    Lemmas.SortedL1.cb_cons, Lemmas.SortedL1.cb_nil_left, List.sum_cons, List.sum_nil, List.length_cons,
    List.length_nil]
  norm_num

end

end PersimVerif.C15C14Model
