import PersimVerif.Lemmas.LandscapeCell
import PersimVerif.Lemmas.LandscapeSweepTotal
import PersimVerif.Lemmas.SweepDistinct
import Mathlib.Algebra.Order.Field.Rat
import Mathlib.Algebra.Order.Ring.Abs

/-!
# C03 — the exact landscape equals the k-th-largest-tent definition, everywhere

Objects (all from `PersimVerif/Model/PLBase.lean` and `PersimVerif/Model/Landscape.lean`):

* `landscape bars k t` — the mathematical landscape: the `k`-th largest (`k = 0` outermost) of the tent
  values `max 0 (min (t-b) (d-t))` over the bars, with multiplicity; `0` beyond the number of bars;
* `evalDepth cps k t` — what a list of critical-point lists denotes: linear interpolation of depth `k`,
  `0` outside the first/last abscissa, and the zero function for `k` beyond the last depth returned;
* `certify bars cps : Bool` — the executable checker the harness runs (compiled, at `Rat`) on the
  real code's own output for every generated diagram;
* `sweep` / `exact` — the line-by-line model of `compute_landscape` / the constructor, shortcut included.

`certify_sound` turns every `T` answered by the checker into "equal at **every** `t` and **every** depth".
The statements hold over any linear ordered field `K` (in particular ℚ, where the driver computes on the
exact rational values of the floats, and ℝ).  Nothing here is about floating point.

Theorems (all full strength, none `_partial`):
* checker: `certifyTol_sound`, `certify_sound` (+ `_pos`), `certify_beyond_last`, `certify_ordered_vanishing`;
* constructor glue: `hom_deg_selects`, `hom_deg_ignores_others`, `constructor_rejects`,
  `trailing_inf_removed`, `trailing_inf_same_landscape`, `inner_inf_not_removed`, `exact_never_fuel`;
* known finding: `shortcut_model_output`, `known_landscape_value`, `shortcut_counterexample`,
  `certify_rejects_shortcut_output`, `noShortcut_on_known`;
* the sweep for every diagram: `sweep_returns`, `sweepNoShortcut_correct`, `sweep_correct_of_not_fired`,
  `exact_correct_of_not_fired`;
* trace-free conditions on the INPUT under which the shortcut cannot fire, hence unconditional correctness of
  the model of the current code there: `sweep_fired_zero_of_distinct_births`, `sweep_correct_of_distinct_births`,
  `exact_correct_of_distinct_births`, `sweep_fired_zero_of_distinct_deaths`, `sweep_correct_of_distinct_deaths`,
  `exact_correct_of_distinct_deaths`; and `distinct_bars_not_enough` (pairwise distinct *bars* do not suffice).
What is *not* a theorem: that the real Python code equals the model (sampled correspondence, every run),
and anything about float rounding.
-/
set_option linter.unusedSectionVars false

namespace PersimVerif.C03
open PersimVerif.PL PersimVerif.Landscape PersimVerif.LandscapeLemmas

section Field
variable {K : Type} [Field K] [LinearOrder K] [IsStrictOrderedRing K]

/-- what an accepted run of the checker establishes about its input (unpacked `certifyTol`) -/
private theorem certifyTol_unpack {eps : K} {bars : List (K × K)} {cps : List (List (K × K))}
    (h : certifyTol eps bars cps = true) :
    (∀ c ∈ cps, wellFormed c = true) ∧ 0 ≤ eps ∧ (cuts bars cps).Pairwise (· < ·) ∧
      ∀ lr ∈ (cuts bars cps).zip (cuts bars cps).tail,
        cellOK eps bars cps (max bars.length cps.length) lr.1 lr.2 = true := by
  simp only [certifyTol, Bool.and_eq_true, List.all_eq_true, decide_eq_true_eq] at h
  obtain ⟨⟨⟨h1, h2⟩, h3⟩, h4⟩ := h
  exact ⟨h1, h2, strictAsc_pairwise h3, h4⟩

/-- **Soundness of the checker with tolerance.**  For all bars and all candidate critical-point
    lists: if `certifyTol eps bars cps` answers `true`, the candidate is within `eps` of the landscape at
    every real `t` and every depth `k` (depths beyond `cps.length` read as `0`).
    No hypothesis on the bars is needed (a bar with `d ≤ b` has the zero tent). -/
theorem certifyTol_sound {eps : K} {bars : List (K × K)} {cps : List (List (K × K))}
    (h : certifyTol eps bars cps = true) (k : Nat) (t : K) :
    |evalDepth cps k t - landscape bars k t| ≤ eps := by
  obtain ⟨hwf, heps, hE, hcells⟩ := certifyTol_unpack h
  rw [abs_le]
  suffices hs : evalDepth cps k t - landscape bars k t ≤ eps ∧ landscape bars k t - evalDepth cps k t ≤ eps by
    constructor <;> linarith [hs.1, hs.2]
  have hzero : landscape bars k t = 0 → evalDepth cps k t = 0 →
      evalDepth cps k t - landscape bars k t ≤ eps ∧ landscape bars k t - evalDepth cps k t ≤ eps := by
    intro e1 e2; rw [e1, e2]; simp [heps]
  rcases cells_cover hE t with hl | hr | ⟨lr, hmem, h1, h2, hlt, hin⟩
  · -- left of every event: both sides vanish
    apply hzero
    · apply landscape_zero_of_all_zero
      intro p hp
      exact tent_zero_left (hl _ (bar_events_mem cps hp).1)
    · cases hk : cps[k]? with
      | none => exact evalDepth_none hk t
      | some c =>
        have hc : c ∈ cps := List.mem_of_getElem? hk
        rw [evalDepth_some hk]
        exact evalPL_le_all (hwf c hc) (fun q hq => hl _ (crit_events_mem bars hc hq))
  · -- right of every event
    apply hzero
    · apply landscape_zero_of_all_zero
      intro p hp
      exact tent_zero_right (hr _ (bar_events_mem cps hp).2.2)
    · cases hk : cps[k]? with
      | none => exact evalDepth_none hk t
      | some c =>
        have hc : c ∈ cps := List.mem_of_getElem? hk
        rw [evalDepth_some hk]
        exact evalPL_ge_all' (hwf c hc) (fun q hq => hr _ (crit_events_mem bars hc hq))
  · -- inside an accepted cell
    exact cell_sound heps le_rfl hwf hlt hin (hcells lr hmem) h1 h2 k

/-- **`certify_sound`** (the committed obligation of C03).  For all bars and all candidate critical-point
    lists `cps`: if the executable `certify bars cps` answers `true`, then the piecewise-linear functions
    given by `cps` coincide with the mathematical landscape at **every** `t` and **every** depth `k`
    (`k = 0` is the outermost function; depths beyond `cps.length` read as the zero function). -/
theorem certify_sound {bars : List (K × K)} {cps : List (List (K × K))}
    (h : certify bars cps = true) (k : Nat) (t : K) : evalDepth cps k t = landscape bars k t := by
  have := certifyTol_sound (eps := 0) h k t
  exact sub_eq_zero.mp (abs_nonpos_iff.mp this)

/-- the form the property is usually quoted in: bars of positive length (the hypothesis is not needed) -/
theorem certify_sound_pos {bars : List (K × K)} {cps : List (List (K × K))}
    (_hpos : ∀ p ∈ bars, p.1 < p.2) (h : certify bars cps = true) :
    ∀ k t, evalDepth cps k t = landscape bars k t := fun k t => certify_sound h k t

/-- **every depth beyond the last one returned is identically zero** — on the candidate's side by
    definition, hence (by soundness) on the definition's side too -/
theorem certify_beyond_last {bars : List (K × K)} {cps : List (List (K × K))}
    (h : certify bars cps = true) {k : Nat} (hk : cps.length ≤ k) (t : K) :
    evalDepth cps k t = 0 ∧ landscape bars k t = 0 := by
  have e : evalDepth cps k t = 0 := evalDepth_none (List.getElem?_eq_none hk) t
  exact ⟨e, by rw [← certify_sound h k t, e]⟩

/-- **critical points are ordered by abscissa and the functions vanish outside them**: an accepted
    candidate has, at every depth, at least two points, strictly increasing abscissae, zero first and last
    ordinate, and its function is `0` at and beyond both ends -/
theorem certify_ordered_vanishing {bars : List (K × K)} {cps : List (List (K × K))}
    (h : certify bars cps = true) {c : List (K × K)} (hc : c ∈ cps) :
    2 ≤ c.length ∧ (c.map Prod.fst).Pairwise (· < ·) ∧
      (∀ p ∈ c.head?, p.2 = 0) ∧ (∀ p ∈ c.getLast?, p.2 = 0) ∧
      (∀ t, (∀ p ∈ c, t ≤ p.1) → evalPL c t = 0) ∧ (∀ t, (∀ p ∈ c, p.1 ≤ t) → evalPL c t = 0) := by
  have hwf : wellFormed c = true := (certifyTol_unpack h).1 c hc
  refine ⟨?_, ?_, ?_, ?_, fun t ht => evalPL_le_all hwf ht, fun t ht => evalPL_ge_all' hwf ht⟩
  · obtain ⟨x0, q, rest, rfl, _⟩ := good_of_wellFormed hwf
    simp
  · obtain ⟨x0, q, rest, rfl, hg⟩ := good_of_wellFormed hwf
    exact good_pairwise hg
  · obtain ⟨x0, q, rest, rfl, _⟩ := good_of_wellFormed hwf
    simp
  · obtain ⟨x0, q, rest, rfl, hg⟩ := good_of_wellFormed hwf
    exact good_last hg

/-! ### model glue: `hom_deg` selection and the trailing infinite bar -/

/-- **the requested homological degree selects the diagram used**: the constructor's result depends only
    on `dgms[hom_deg]` — it is the result for that diagram alone -/
theorem hom_deg_selects (dgms : List (List (K × Option K))) (h : Nat) (D : List (K × Option K))
    (hD : dgms[h]? = some D) : exact dgms (h : Int) = exact [D] 0 := by
  have hne : dgms.isEmpty = false := by
    cases dgms with
    | nil => simp at hD
    | cons _ _ => rfl
  have hh : ¬ ((h : Int) < 0) := by omega
  simp [exact, selectBars, hD, hne, hh]

/-- the other diagrams are irrelevant -/
theorem hom_deg_ignores_others (dgms dgms' : List (List (K × Option K))) (h : Nat) (D : List (K × Option K))
    (hD : dgms[h]? = some D) (hD' : dgms'[h]? = some D) : exact dgms (h : Int) = exact dgms' (h : Int) := by
  rw [hom_deg_selects dgms h D hD, hom_deg_selects dgms' h D hD']

/-- a negative degree or an empty list of diagrams is rejected (`ValueError`), a degree beyond the
    list and an empty selected diagram raise `IndexError` -/
theorem constructor_rejects (dgms : List (List (K × Option K))) (h : Int) :
    (h < 0 → exact dgms h = .error .valueError) ∧
    (dgms = [] → exact dgms h = .error .valueError) ∧
    (0 ≤ h → dgms ≠ [] → dgms[h.toNat]? = none → exact dgms h = .error .indexError) ∧
    (0 ≤ h → dgms[h.toNat]? = some [] → exact dgms h = .error .indexError) := by
  refine ⟨?_, ?_, ?_, ?_⟩
  · intro hh; simp [exact, selectBars, hh]
  · intro hd; subst hd; simp [exact, selectBars]
  · intro hh hd hn
    have : dgms.isEmpty = false := by cases dgms with | nil => exact absurd rfl hd | cons _ _ => rfl
    simp [exact, selectBars, not_lt.mpr hh, this, hn]
  · intro hh hs
    have : dgms.isEmpty = false := by cases dgms with | nil => simp at hs | cons _ _ => rfl
    simp [exact, selectBars, not_lt.mpr hh, this, hs, dropTrailingInf]

/-- **a trailing infinite bar is removed**: the bars swept for `D ++ [(b, ∞)]` are the finite bars of `D` … -/
theorem trailing_inf_removed (D : List (K × Option K)) (b : K) :
    selectBars [D ++ [(b, none)]] 0 = finiteBars D := by
  simp [selectBars, dropTrailingInf]

/-- … which are also the bars swept for `D` itself when `D` is non-empty and ends in a finite bar, so the
    two landscapes coincide -/
theorem trailing_inf_same_landscape (D : List (K × Option K)) (b : K) (p : K × Option K) (d : K)
    (hlast : D.getLast? = some p) (hp : p.2 = some d) :
    exact [D ++ [(b, none)]] 0 = exact [D] 0 := by
  have e : selectBars [D] 0 = finiteBars D := by
    obtain ⟨p1, p2⟩ := p
    simp only at hp
    subst hp
    simp [selectBars, dropTrailingInf, hlast]
  simp only [exact, trailing_inf_removed, e]

/-- only the LAST row is looked at: an infinite bar elsewhere is not removed (the model leaves such
    diagrams outside its domain instead of computing with `inf` as the code does) -/
theorem inner_inf_not_removed (D : List (K × Option K)) (p : K × Option K) (d : K)
    (hlast : D.getLast? = some p) (hp : p.2 = some d) (hinf : ∃ q ∈ D, q.2 = none) :
    exact [D] 0 = .error .nonFinite := by
  obtain ⟨p1, p2⟩ := p
  simp only at hp
  subst hp
  obtain ⟨q, hq, hq2⟩ := hinf
  have hfb : finiteBars D = .error .nonFinite := by
    clear hlast
    induction D with
    | nil => simp at hq
    | cons a t ih =>
      obtain ⟨a1, a2⟩ := a
      cases a2 with
      | none => rfl
      | some v =>
        rcases List.mem_cons.mp hq with rfl | hq'
        · simp at hq2
        · simp [finiteBars, ih hq']
  simp [exact, selectBars, dropTrailingInf, hlast, hfb]

end Field

/-! ### the known finding, as theorems about the model of the *current* code -/

/-- the diagram of the known finding -/
def knownBars : List (ℚ × ℚ) := [(1, 5), (1, 5), (3, 6)]

/-- what the model of the current code returns for it (this is also what the test suite pins) -/
def knownOutput : List (List (ℚ × ℚ)) :=
  [[(1, 0), (3, 2), (4, 1), (9/2, 3/2), (6, 0)], [(1, 0), (3, 2), (4, 1), (9/2, 3/2), (6, 0)], [(3, 0), (4, 1), (5, 0)]]

/-- the model of `compute_landscape` on `[(1,5),(1,5),(3,6)]`: the shortcut fires once and the second
    function is a copy of the first -/
theorem shortcut_model_output :
    (sweep knownBars).map (fun o => (o.cps, o.fired)) = some (knownOutput, 1) := by decide +kernel

/-- the true second function at `t = 9/2` is `1/2` (the tent of `(1,5)`) -/
theorem known_landscape_value : landscape knownBars 1 (9/2) = 1/2 := by
  have hp : [((3:ℚ), (6:ℚ)), (1, 5), (1, 5)].Perm knownBars := by decide
  rw [landscape_eq_of_order hp (9/2) (by decide +kernel) 1]
  decide +kernel

/-- **`shortcut_counterexample`**: the model of the current code on `[(1,5),(1,5),(3,6)]` has the shortcut
    fired and differs from the mathematical landscape at depth index 1 (the second function), `t = 9/2`:
    it returns `3/2`, the definition gives `1/2` -/
theorem shortcut_counterexample :
    ∃ o, sweep knownBars = some o ∧ 0 < o.fired ∧
      evalDepth o.cps 1 (9/2) = 3/2 ∧ landscape knownBars 1 (9/2) = 1/2 ∧
      evalDepth o.cps 1 (9/2) ≠ landscape knownBars 1 (9/2) := by
  have h := shortcut_model_output
  cases hs : sweep knownBars with
  | none => rw [hs] at h; simp at h
  | some o =>
    rw [hs] at h
    simp only [Option.map_some, Option.some.injEq, Prod.mk.injEq] at h
    obtain ⟨h1, h2⟩ := h
    have e : evalDepth o.cps 1 (9/2) = 3/2 := by rw [h1]; decide +kernel
    refine ⟨o, rfl, by omega, e, known_landscape_value, ?_⟩
    rw [known_landscape_value, e]
    decide +kernel

/-- the checker rejects that output (so the harness sees the finding through the same verified path) … -/
theorem certify_rejects_shortcut_output : certify knownBars knownOutput = false := by decide +kernel

/-- … and accepts the sweep's output without the shortcut, which therefore *is* the landscape, for all `t`, `k` -/
theorem noShortcut_on_known :
    ∃ L, sweepNoShortcut knownBars = some L ∧ certify knownBars L = true ∧
      ∀ k t, evalDepth L k t = landscape knownBars k t := by
  refine ⟨[[(1, 0), (3, 2), (4, 1), (9/2, 3/2), (6, 0)], [(1, 0), (3, 2), (5, 0)], [(3, 0), (4, 1), (5, 0)]],
    by decide +kernel, by decide +kernel, fun k t => certify_sound (by decide +kernel) k t⟩

/-! ### non-vacuity: the hypotheses are met by concrete non-trivial inputs -/

/-- `certify … = true` is met by the 5-bar example of Bubenik–Dlotko's paper with the critical pairs
    the real code returns (so `certify_sound` says something about it) -/
example : certify (α := ℚ) [(1, 5), (2, 8), (3, 4), (5, 9), (6, 7)]
    [[(1, 0), (3, 2), (7/2, 3/2), (5, 3), (13/2, 3/2), (7, 2), (9, 0)],
     [(2, 0), (7/2, 3/2), (5, 0), (13/2, 3/2), (8, 0)],
     [(3, 0), (7/2, 1/2), (4, 0), (6, 0), (13/2, 1/2), (7, 0)]] = true := by decide +kernel

/-- the tolerance version accepts a perturbed candidate and rejects it at `eps = 0` -/
example : certifyTol (α := ℚ) (1/100) [(0, 2)] [[(0, 0), (1, 101/100), (2, 0)]] = true
    ∧ certify (α := ℚ) [(0, 2)] [[(0, 0), (1, 101/100), (2, 0)]] = false := by decide +kernel

/-- touching, nested, equal-birth, equal-death and duplicate bars, through the model and the checker -/
example : (sweep (α := ℚ) [(0, 2), (2, 4), (0, 4), (1, 4), (0, 4)]).map (fun o => certify [(0, 2), (2, 4), (0, 4), (1, 4), (0, 4)] o.cps)
    = some true := by decide +kernel

/-- hypotheses of the glue theorems -/
example : ([[((0:ℚ), some (3:ℚ)), (1, some 4)], [(1, some 4)]] : List (List (ℚ × Option ℚ)))[1]? = some [(1, some 4)] := rfl
example : ([((0:ℚ), some (3:ℚ)), (1, some 4)] : List (ℚ × Option ℚ)).getLast? = some (1, some 4) := rfl

/-! ### the sweep itself, for every diagram (the design's stretch goal — proved)

The proof (in `Lemmas/LandscapeSweep*.lean`) follows one level of the Bubenik–Dlotko sweep with an
invariant: the work list stays sorted by `(b ↑, d ↓)` under the code's re-insertion index logic; the
function built so far is the pointwise maximum of the bars used so far; its pointwise minimum with the next
bar is the tent of the residual bar `(b',d)` (Case III) or `0` (Cases I, II), so the multiset of tent values
at every `t` is preserved up to zeros; every remaining bar that dies before the current one is dominated. -/

section Sweep
variable {K : Type} [Field K] [LinearOrder K] [IsStrictOrderedRing K]

/-- **the model of `compute_landscape` always returns** (its fuel never runs out), with and without the
    shortcut; so `Err.fuel` is never the constructor's answer -/
theorem sweep_returns (bars : List (K × K)) :
    (∃ o, sweep bars = some o) ∧ (∃ L, sweepNoShortcut bars = some L) :=
  ⟨sweep_total bars, sweepNoShortcut_total bars⟩

theorem exact_never_fuel (dgms : List (List (K × Option K))) (h : Int) : exact dgms h ≠ .error .fuel := by
  unfold exact
  cases hs : selectBars dgms h with
  | error e =>
    simp only
    intro he
    have : e = .fuel := by simpa using he
    exact selectBars_ne_fuel dgms h (by rw [hs, this])
  | ok bars =>
    obtain ⟨o, ho⟩ := sweep_total bars
    simp [ho]

/-- **`sweepNoShortcut_correct`**: for every finite diagram with bars of positive length (any number of
    bars, any order, nested / touching / equal births / equal deaths / repeated bars), the sweep *without*
    the repeated-bar shortcut returns critical points that are well formed (≥ 2 points per depth, strictly
    increasing abscissae, zero end values), at most one depth per bar, and whose piecewise-linear
    functions equal the landscape at every `t` and every depth `k` -/
theorem sweepNoShortcut_correct (bars : List (K × K)) (hpos : ∀ p ∈ bars, p.1 < p.2) :
    ∃ L, sweepNoShortcut bars = some L ∧ (∀ c ∈ L, wellFormed c = true) ∧ L.length ≤ bars.length ∧
      ∀ k t, evalDepth L k t = landscape bars k t := by
  obtain ⟨L, hL⟩ := sweepNoShortcut_total bars
  obtain ⟨hwf, hlen⟩ := sweepNoShortcut_wellFormed hpos hL
  exact ⟨L, hL, hwf, hlen, fun k t => sweepNoShortcut_sound hpos hL k t⟩

/-- **`sweep_correct_of_not_fired`**: for every finite diagram with bars of positive length, the model of the
    *current* code (shortcut included) returns, and whenever its repeated-bar shortcut did not fire its
    critical points are well formed and equal the landscape at every `t` and every depth `k` -/
theorem sweep_correct_of_not_fired (bars : List (K × K)) (hpos : ∀ p ∈ bars, p.1 < p.2) :
    ∃ o, sweep bars = some o ∧
      (o.fired = 0 → (∀ c ∈ o.cps, wellFormed c = true) ∧ ∀ k t, evalDepth o.cps k t = landscape bars k t) := by
  obtain ⟨o, ho⟩ := sweep_total bars
  refine ⟨o, ho, fun hf => ?_⟩
  have h2 : sweepNoShortcut bars = some o.cps := by
    unfold sweep at ho
    unfold sweepNoShortcut
    exact outer_not_fired _ _ _ _ o ho hf
  exact ⟨(sweepNoShortcut_wellFormed hpos h2).1, fun k t => sweepNoShortcut_sound hpos h2 k t⟩

/-- the same for the whole constructor: selection by `hom_deg`, trailing infinite bar removed, sweep -/
theorem exact_correct_of_not_fired (dgms : List (List (K × Option K))) (h : Int) (bars : List (K × K))
    (hsel : selectBars dgms h = .ok bars) (hpos : ∀ p ∈ bars, p.1 < p.2) :
    ∃ o, exact dgms h = .ok o ∧
      (o.fired = 0 → ∀ k t, evalDepth o.cps k t = landscape bars k t) := by
  obtain ⟨o, ho, hc⟩ := sweep_correct_of_not_fired bars hpos
  refine ⟨o, ?_, fun hf => (hc hf).2⟩
  simp [exact, hsel, ho]

/-! #### inputs on which the shortcut cannot fire (conditions on the diagram, not on the trace)

`sweep_correct_of_not_fired` is conditional on the run (`o.fired = 0`).  The two conditions below are on the
input alone.  Births: the births of the work list never gain a value (the sort permutes, pops remove, Case III
re-inserts `(b', d)` with the birth of the bar it has just popped), so they stay pairwise distinct and the bar
at the front of the list never equals the bar just popped.  Deaths: the same for the deaths of
`current bar :: work list` (Case III swaps the two deaths involved).  Proofs: `Lemmas/SweepDistinct.lean`. -/

/-- **`sweep_fired_zero_of_distinct_births`**: for every finite diagram whose births are pairwise distinct
    (any number of bars, any order, nested / touching / equal deaths; positive length is not needed here), the
    repeated-bar shortcut of the model of the *current* code never fires -/
theorem sweep_fired_zero_of_distinct_births (bars : List (K × K)) (hb : (bars.map Prod.fst).Nodup) :
    ∀ o, sweep bars = some o → o.fired = 0 :=
  fun _ ho => sweep_fired_of_births_nodup hb ho

/-- **`sweep_correct_of_distinct_births`**: for every finite diagram with bars of positive length and pairwise
    distinct births, the model of the *current* code (shortcut included) returns, its shortcut does not fire,
    and its critical points are well formed and equal the landscape at every `t` and every depth `k` —
    no condition on the trace -/
theorem sweep_correct_of_distinct_births (bars : List (K × K)) (hpos : ∀ p ∈ bars, p.1 < p.2)
    (hb : (bars.map Prod.fst).Nodup) :
    ∃ o, sweep bars = some o ∧ o.fired = 0 ∧ (∀ c ∈ o.cps, wellFormed c = true) ∧
      ∀ k t, evalDepth o.cps k t = landscape bars k t := by
  obtain ⟨o, ho, hc⟩ := sweep_correct_of_not_fired bars hpos
  have hf := sweep_fired_zero_of_distinct_births bars hb o ho
  exact ⟨o, ho, hf, (hc hf).1, (hc hf).2⟩

/-- the same for the whole constructor: selection by `hom_deg`, trailing infinite bar removed, sweep -/
theorem exact_correct_of_distinct_births (dgms : List (List (K × Option K))) (h : Int) (bars : List (K × K))
    (hsel : selectBars dgms h = .ok bars) (hpos : ∀ p ∈ bars, p.1 < p.2) (hb : (bars.map Prod.fst).Nodup) :
    ∃ o, exact dgms h = .ok o ∧ o.fired = 0 ∧ (∀ c ∈ o.cps, wellFormed c = true) ∧
      ∀ k t, evalDepth o.cps k t = landscape bars k t := by
  obtain ⟨o, ho, hf, hwf, hc⟩ := sweep_correct_of_distinct_births bars hpos hb
  refine ⟨o, ?_, hf, hwf, hc⟩
  simp [exact, hsel, ho]

/-- **`sweep_fired_zero_of_distinct_deaths`**: for every finite diagram whose deaths are pairwise distinct
    (any number of bars, any order, nested / touching / equal births; positive length is not needed here), the
    repeated-bar shortcut of the model of the *current* code never fires -/
theorem sweep_fired_zero_of_distinct_deaths (bars : List (K × K)) (hd : (bars.map Prod.snd).Nodup) :
    ∀ o, sweep bars = some o → o.fired = 0 :=
  fun _ ho => sweep_fired_of_deaths_nodup hd ho

/-- **`sweep_correct_of_distinct_deaths`**: for every finite diagram with bars of positive length and pairwise
    distinct deaths, the model of the *current* code (shortcut included) returns, its shortcut does not fire,
    and its critical points are well formed and equal the landscape at every `t` and every depth `k` -/
theorem sweep_correct_of_distinct_deaths (bars : List (K × K)) (hpos : ∀ p ∈ bars, p.1 < p.2)
    (hd : (bars.map Prod.snd).Nodup) :
    ∃ o, sweep bars = some o ∧ o.fired = 0 ∧ (∀ c ∈ o.cps, wellFormed c = true) ∧
      ∀ k t, evalDepth o.cps k t = landscape bars k t := by
  obtain ⟨o, ho, hc⟩ := sweep_correct_of_not_fired bars hpos
  have hf := sweep_fired_zero_of_distinct_deaths bars hd o ho
  exact ⟨o, ho, hf, (hc hf).1, (hc hf).2⟩

/-- the same for the whole constructor -/
theorem exact_correct_of_distinct_deaths (dgms : List (List (K × Option K))) (h : Int) (bars : List (K × K))
    (hsel : selectBars dgms h = .ok bars) (hpos : ∀ p ∈ bars, p.1 < p.2) (hd : (bars.map Prod.snd).Nodup) :
    ∃ o, exact dgms h = .ok o ∧ o.fired = 0 ∧ (∀ c ∈ o.cps, wellFormed c = true) ∧
      ∀ k t, evalDepth o.cps k t = landscape bars k t := by
  obtain ⟨o, ho, hf, hwf, hc⟩ := sweep_correct_of_distinct_deaths bars hpos hd
  refine ⟨o, ?_, hf, hwf, hc⟩
  simp [exact, hsel, ho]

end Sweep

/-- non-vacuity: bars of positive length … -/
example : ∀ p ∈ ([(0, 6), (0, 4), (2, 6), (1, 5), (6, 8)] : List (ℚ × ℚ)), p.1 < p.2 := by decide

/-- … selected by the constructor from several diagrams, with a trailing infinite bar … -/
example : selectBars (α := ℚ) [[(9, some 10)], [(0, some 6), (0, some 4), (2, some 6), (1, some 5), (6, some 8), (0, none)]] 1
    = .ok [(0, 6), (0, 4), (2, 6), (1, 5), (6, 8)] := by decide +kernel

/-- … nested, touching, equal-birth and equal-death bars on which the shortcut does not fire -/
example : (sweep (α := ℚ) [(0, 6), (0, 4), (2, 6), (1, 5), (6, 8)]).map (fun o => o.fired) = some 0 := by
  decide +kernel

/-! ### non-vacuity and necessity of the distinct-births / distinct-deaths conditions -/

/-- hypotheses of `sweep_correct_of_distinct_births`: six bars, nested (`(1,4)` in `(0,6)`, `(3,5)` in `(2,6)`),
    touching (`(0,6)`, `(6,8)`), equal deaths (`6` twice, `8` twice), births pairwise distinct … -/
example : (∀ p ∈ ([(0, 6), (1, 4), (2, 6), (3, 5), (6, 8), (4, 8)] : List (ℚ × ℚ)), p.1 < p.2) ∧
    (([(0, 6), (1, 4), (2, 6), (3, 5), (6, 8), (4, 8)] : List (ℚ × ℚ)).map Prod.fst).Nodup ∧
    ¬ (([(0, 6), (1, 4), (2, 6), (3, 5), (6, 8), (4, 8)] : List (ℚ × ℚ)).map Prod.snd).Nodup := by decide

/-- … and the conclusion seen on it through the executable model and the checker -/
example : (sweep (α := ℚ) [(0, 6), (1, 4), (2, 6), (3, 5), (6, 8), (4, 8)]).map
    (fun o => (o.fired, certify [(0, 6), (1, 4), (2, 6), (3, 5), (6, 8), (4, 8)] o.cps)) = some (0, true) := by
  decide +kernel

/-- hypotheses of `sweep_correct_of_distinct_deaths`: six bars, nested, touching, equal births (`0` twice, `2`
    twice), deaths pairwise distinct … -/
example : (∀ p ∈ ([(0, 6), (0, 4), (2, 7), (1, 5), (6, 8), (2, 3)] : List (ℚ × ℚ)), p.1 < p.2) ∧
    (([(0, 6), (0, 4), (2, 7), (1, 5), (6, 8), (2, 3)] : List (ℚ × ℚ)).map Prod.snd).Nodup ∧
    ¬ (([(0, 6), (0, 4), (2, 7), (1, 5), (6, 8), (2, 3)] : List (ℚ × ℚ)).map Prod.fst).Nodup := by decide

example : (sweep (α := ℚ) [(0, 6), (0, 4), (2, 7), (1, 5), (6, 8), (2, 3)]).map
    (fun o => (o.fired, certify [(0, 6), (0, 4), (2, 7), (1, 5), (6, 8), (2, 3)] o.cps)) = some (0, true) := by
  decide +kernel

/-- the hypotheses are needed: the diagram of the known finding (`shortcut_counterexample`) has a repeated
    bar, hence neither births nor deaths pairwise distinct -/
example : ¬ (knownBars.map Prod.fst).Nodup ∧ ¬ (knownBars.map Prod.snd).Nodup := by decide

/-- a diagram with pairwise distinct *bars* but a repeated birth (and a repeated death) -/
def repeatedBirthBars : List (ℚ × ℚ) := [(0, 4), (2, 6), (2, 4), (3, 5)]

/-- **`distinct_bars_not_enough`**: pairwise distinct *bars* do not exclude the shortcut.  On
    `[(0,4),(2,6),(2,4),(3,5)]` the Case-III residual `(2,4)` of `(2,6)` under `(0,4)` duplicates the original bar
    `(2,4)`; the shortcut fires once, `(3,5)` is processed only once although two passes are copied, and the
    model of the current code returns `1` at depth index 2, `t = 4`, where the landscape is `0` -/
theorem distinct_bars_not_enough :
    repeatedBirthBars.Nodup ∧ (∀ p ∈ repeatedBirthBars, p.1 < p.2) ∧
      ∃ o, sweep repeatedBirthBars = some o ∧ o.fired = 1 ∧
        evalDepth o.cps 2 4 = 1 ∧ landscape repeatedBirthBars 2 4 = 0 := by
  refine ⟨by decide, by decide, ?_⟩
  have h : (sweep repeatedBirthBars).map (fun o => (o.fired, evalDepth o.cps 2 4)) = some (1, 1) := by
    decide +kernel
  have hl : landscape repeatedBirthBars 2 4 = 0 := by
    have hp : [((2:ℚ), (6:ℚ)), (3, 5), (0, 4), (2, 4)].Perm repeatedBirthBars := by decide
    rw [landscape_eq_of_order hp 4 (by decide +kernel) 2]
    decide +kernel
  cases hs : sweep repeatedBirthBars with
  | none => rw [hs] at h; simp at h
  | some o =>
    rw [hs] at h
    simp only [Option.map_some, Option.some.injEq, Prod.mk.injEq] at h
    exact ⟨o, rfl, h.1, h.2, hl⟩

end PersimVerif.C03
