import PersimVerif.Model.Landscape

namespace PersimVerif.C03
open PersimVerif.PL PersimVerif.Landscape

/-- the known finding as a theorem about the model of the current code (placeholder, completed below) -/
theorem shortcut_model_value :
    (sweep (α := Rat) [(1, 5), (1, 5), (3, 6)]).map (fun o => (decide (0 < o.fired), evalDepth o.cps 1 (9/2))) = some (true, 3/2) := by
  decide +kernel

end PersimVerif.C03
