import PersimVerif.Lemmas.LandscapeCell
import Mathlib.Algebra.Order.Field.Rat
import Mathlib.Algebra.Order.Ring.Abs

/-!
# C03 — the exact landscape equals the k-th-largest-tent definition, everywhere

Objects (all from `PersimVerif/Model/PLBase.lean` and `PersimVerif/Model/Landscape.lean`):

* `landscape bars k t` — the mathematical landscape: the `k`-th largest (`k = 0` outermost) of the tent
  values `max 0 (min (t-b) (d-t))` over the bars, with multiplicity; `0` beyond the number of bars;
* `evalDepth cps k t` — what a list of critical-point lists denotes: linear interpolation of depth `k`,
  `0` outside the first/last abscissa, and the zero function for `k` beyond the last depth returned;
* `certify bars cps : Bool` — the executable checker the harness runs (compiled, at `Rat`) on the
  real code's own output for every generated diagram;
* `sweep` / `exact` — the line-by-line model of `compute_landscape` / the constructor, shortcut included.

`certify_sound` turns every `T` answered by the checker into "equal at **every** `t` and **every** depth".
The statements hold over any linear ordered field `K` (in particular ℚ, where the driver computes on the
exact rational values of the floats, and ℝ).  Nothing here is about floating point.
-/
set_option linter.unusedSectionVars false

namespace PersimVerif.C03
open PersimVerif.PL PersimVerif.Landscape PersimVerif.LandscapeLemmas

section Field
variable {K : Type} [Field K] [LinearOrder K] [IsStrictOrderedRing K]

/-- what an accepted run of the checker establishes about its input (unpacked `certifyTol`) -/
private theorem certifyTol_unpack {eps : K} {bars : List (K × K)} {cps : List (List (K × K))}
    (h : certifyTol eps bars cps = true) :
    (∀ c ∈ cps, wellFormed c = true) ∧ 0 ≤ eps ∧ (cuts bars cps).Pairwise (· < ·) ∧
      ∀ lr ∈ (cuts bars cps).zip (cuts bars cps).tail,
        cellOK eps bars cps (max bars.length cps.length) lr.1 lr.2 = true := by
  simp only [certifyTol, Bool.and_eq_true, List.all_eq_true, decide_eq_true_eq] at h
  obtain ⟨⟨⟨h1, h2⟩, h3⟩, h4⟩ := h
  exact ⟨h1, h2, strictAsc_pairwise h3, h4⟩

/-- **Soundness of the checker with tolerance.**  For all bars and all candidate critical-point
    lists: if `certifyTol eps bars cps` answers `true`, the candidate is within `eps` of the landscape at
    every real `t` and every depth `k` (depths beyond `cps.length` read as `0`).
    No hypothesis on the bars is needed (a bar with `d ≤ b` has the zero tent). -/
theorem certifyTol_sound {eps : K} {bars : List (K × K)} {cps : List (List (K × K))}
    (h : certifyTol eps bars cps = true) (k : Nat) (t : K) :
    |evalDepth cps k t - landscape bars k t| ≤ eps := by
  obtain ⟨hwf, heps, hE, hcells⟩ := certifyTol_unpack h
  rw [abs_le]
  suffices hs : evalDepth cps k t - landscape bars k t ≤ eps ∧ landscape bars k t - evalDepth cps k t ≤ eps by
    constructor <;> linarith [hs.1, hs.2]
  have hzero : landscape bars k t = 0 → evalDepth cps k t = 0 →
      evalDepth cps k t - landscape bars k t ≤ eps ∧ landscape bars k t - evalDepth cps k t ≤ eps := by
    intro e1 e2; rw [e1, e2]; simp [heps]
  rcases cells_cover hE t with hl | hr | ⟨lr, hmem, h1, h2, hlt, hin⟩
  · -- left of every event: both sides vanish
    apply hzero
    · apply landscape_zero_of_all_zero
      intro p hp
      exact tent_zero_left (hl _ (bar_events_mem cps hp).1)
    · cases hk : cps[k]? with
      | none => exact evalDepth_none hk t
      | some c =>
        have hc : c ∈ cps := List.mem_of_getElem? hk
        rw [evalDepth_some hk]
        exact evalPL_le_all (hwf c hc) (fun q hq => hl _ (crit_events_mem bars hc hq))
  · -- right of every event
    apply hzero
    · apply landscape_zero_of_all_zero
      intro p hp
      exact tent_zero_right (hr _ (bar_events_mem cps hp).2.2)
    · cases hk : cps[k]? with
      | none => exact evalDepth_none hk t
      | some c =>
        have hc : c ∈ cps := List.mem_of_getElem? hk
        rw [evalDepth_some hk]
        exact evalPL_ge_all' (hwf c hc) (fun q hq => hr _ (crit_events_mem bars hc hq))
  · -- inside an accepted cell
    exact cell_sound heps le_rfl hwf hlt hin (hcells lr hmem) h1 h2 k

/-- **`certify_sound`** (the committed obligation of C03).  For all bars and all candidate critical-point
    lists `cps`: if the executable `certify bars cps` answers `true`, then the piecewise-linear functions
    given by `cps` coincide with the mathematical landscape at **every** `t` and **every** depth `k`
    (`k = 0` is the outermost function; depths beyond `cps.length` read as the zero function). -/
theorem certify_sound {bars : List (K × K)} {cps : List (List (K × K))}
    (h : certify bars cps = true) (k : Nat) (t : K) : evalDepth cps k t = landscape bars k t := by
  have := certifyTol_sound (eps := 0) h k t
  exact sub_eq_zero.mp (abs_nonpos_iff.mp this)

/-- the form the property is usually quoted in: bars of positive length (the hypothesis is not needed) -/
theorem certify_sound_pos {bars : List (K × K)} {cps : List (List (K × K))}
    (_hpos : ∀ p ∈ bars, p.1 < p.2) (h : certify bars cps = true) :
    ∀ k t, evalDepth cps k t = landscape bars k t := fun k t => certify_sound h k t

/-- **every depth beyond the last one returned is identically zero** — on the candidate's side by
    definition, hence (by soundness) on the definition's side too -/
theorem certify_beyond_last {bars : List (K × K)} {cps : List (List (K × K))}
    (h : certify bars cps = true) {k : Nat} (hk : cps.length ≤ k) (t : K) :
    evalDepth cps k t = 0 ∧ landscape bars k t = 0 := by
  have e : evalDepth cps k t = 0 := evalDepth_none (List.getElem?_eq_none hk) t
  exact ⟨e, by rw [← certify_sound h k t, e]⟩

/-- **critical points are ordered by abscissa and the functions vanish outside them**: an accepted
    candidate has, at every depth, at least two points, strictly increasing abscissae, zero first and last
    ordinate, and its function is `0` at and beyond both ends -/
theorem certify_ordered_vanishing {bars : List (K × K)} {cps : List (List (K × K))}
    (h : certify bars cps = true) {c : List (K × K)} (hc : c ∈ cps) :
    2 ≤ c.length ∧ (c.map Prod.fst).Pairwise (· < ·) ∧
      (∀ p ∈ c.head?, p.2 = 0) ∧ (∀ p ∈ c.getLast?, p.2 = 0) ∧
      (∀ t, (∀ p ∈ c, t ≤ p.1) → evalPL c t = 0) ∧ (∀ t, (∀ p ∈ c, p.1 ≤ t) → evalPL c t = 0) := by
  have hwf : wellFormed c = true := (certifyTol_unpack h).1 c hc
  refine ⟨?_, ?_, ?_, ?_, fun t ht => evalPL_le_all hwf ht, fun t ht => evalPL_ge_all' hwf ht⟩
  · obtain ⟨x0, q, rest, rfl, _⟩ := good_of_wellFormed hwf
    simp
  · obtain ⟨x0, q, rest, rfl, hg⟩ := good_of_wellFormed hwf
    exact good_pairwise hg
  · obtain ⟨x0, q, rest, rfl, _⟩ := good_of_wellFormed hwf
    simp
  · obtain ⟨x0, q, rest, rfl, hg⟩ := good_of_wellFormed hwf
    exact good_last hg

end Field

end PersimVerif.C03
