import PersimVerif.Props.C03
import PersimVerif.Props.C08

/-!
# C08's sampling clause at the level of the *models of the code* (C08 ∘ C03)

  "Sampling an exact landscape onto a grid reproduces the true values at the grid points."

`Props/C08.lean` proves `vectorize_samples_evalPL`: the model of `tools.vectorize` samples the piecewise-linear
function *of the critical points it is given*.  `Props/C03.lean` proves that the critical points the model of
`PersLandscapeExact(dgms, hom_deg)` returns *are* the landscape `landscape bars k t` at every depth and every
`t` — whenever the repeated-bar shortcut of `compute_landscape` did not fire (`fired = 0`), in particular for
every diagram whose births, or whose deaths, are pairwise distinct.  This file composes the two, so that the
clause is a statement about what the composed model

  `vectorizeExact interp dgms hom_deg start stop num_steps`
      — the model of `vectorize(PersLandscapeExact(dgms, hom_deg), start, stop, num_steps).values`

**returns**: the matrix with one row per depth the exact landscape has (at most one per bar, none beyond), row
`k` being `[λ_k(g_0), …, λ_k(g_{n-1})]` with `g_i = i*step + s` the nodes of `np.linspace(s, e, num_steps)` and
`λ_k = landscape bars k`; every depth `k` that has no row is the zero function (so reading a missing row as
zeros, as `Values.entry` does, is still the landscape).

Guards (exactly those of the two ingredients):
* C03: the diagram selected by `hom_deg` (trailing infinite bar removed) has bars of positive length, and
  `fired = 0` / pairwise distinct births / pairwise distinct deaths.  Without it the clause is false for the
  model of the current code (C03's `shortcut_counterexample`; known finding, not repaired upstream).
* C08: `interp` obeys the contract of `np.interp` on strictly increasing abscissae.  It is stated here
  *without reference to the model's `npInterp`* (`LinearInterp`: first ordinate to the left, last ordinate to the
  right, the straight line through two consecutive points between them — only for non-empty lists, which is
  all `np.interp` accepts); `npInterp_linearInterp` shows the clamped linear interpolation the driver runs
  satisfies it and `LinearInterp.eq_npInterp` that it determines the function, which is the form
  `vectorize_samples_evalPL` consumes.
* the grid: the run returned (`= .ok m`), which is the case exactly when there is at least one depth, no empty
  depth, `num_steps ≠ 0` and `s ≤ e` for the resolved `s`, `e` (`start`/`stop` as given, else the smallest /
  largest abscissa of the first depth).  `model_vectorize_of_exact_returns` gives sufficient conditions on the
  INPUT for that: a non-empty diagram, `num_steps ≠ 0`, and `start ≤ stop` both given or both omitted.

Nothing here is about floating point; all statements hold over every linear ordered field.
-/
set_option linter.unusedSectionVars false

namespace PersimVerif.C08Model
open PersimVerif.PL PersimVerif.ApproxLemmas PersimVerif.LandscapeLemmas
open PersimVerif.Approx (vectorize npInterp linspace node stepOf minAbscissa maxAbscissa optOr Values)
open PersimVerif.Landscape (exact sweep selectBars sweepNoShortcut)

/-- what the composed call rejects: an error of the constructor / `compute_landscape`, or one of `vectorize` -/
inductive Err where
  | exact (e : Landscape.Err)
  | vectorize (e : Approx.Err)
  deriving DecidableEq, Repr

section Model
variable {α : Type} [Add α] [Sub α] [Mul α] [Div α] [Neg α] [Zero α] [OfNat α 2] [NatCast α] [LT α]
  [DecidableLT α] [LE α] [DecidableLE α] [Max α] [Min α] [DecidableEq α]

/-- the model of `vectorize(PersLandscapeExact(dgms, hom_deg), start, stop, num_steps).values`:
    the C03 model of the constructor followed by `compute_landscape` (which `vectorize` calls first), then the
    C08 model of `vectorize` on the critical pairs it returned.  Core classes only, so it runs at `Rat`. -/
def vectorizeExact (interp : List (α × α) → α → α) (dgms : List (List (α × Option α))) (homDeg : Int)
    (start stop : Option α) (n : Nat) : Except Err (List (List α)) :=
  match exact dgms homDeg with
  | .error e => .error (.exact e)
  | .ok o =>
    match vectorize interp o.cps start stop n with
    | .error e => .error (.vectorize e)
    | .ok m => .ok m

end Model

variable {K : Type} [Field K] [LinearOrder K] [IsStrictOrderedRing K]

/-! ### the contract of `np.interp` -/

/-- **the contract of `np.interp(t, xs, ys)` for strictly increasing `xs`** (`l` is `zip(xs, ys)`), stated
    independently of the model's `npInterp`: to the left of the first abscissa the first ordinate, to the right
    of the last abscissa the last ordinate, and between two consecutive points the straight line through them.
    Every clause is about a non-empty list (`np.interp` raises on an empty one; `vectorize` never calls it
    there: `zip(*depth)` has failed before). -/
structure LinearInterp (interp : List (K × K) → K → K) : Prop where
  left : ∀ (x0 y0 : K) (rest : List (K × K)) (t : K), Increasing ((x0, y0) :: rest) → t ≤ x0 →
    interp ((x0, y0) :: rest) t = y0
  right : ∀ (pre : List (K × K)) (xn yn t : K), Increasing (pre ++ [(xn, yn)]) → xn ≤ t →
    interp (pre ++ [(xn, yn)]) t = yn
  segment : ∀ (pre : List (K × K)) (x0 y0 x1 y1 : K) (post : List (K × K)) (t : K),
    Increasing (pre ++ (x0, y0) :: (x1, y1) :: post) → x0 ≤ t → t ≤ x1 →
    interp (pre ++ (x0, y0) :: (x1, y1) :: post) t = y0 + (y1 - y0) / (x1 - x0) * (t - x0)

private theorem increasing_tail {a : K × K} {l : List (K × K)} (h : Increasing (a :: l)) : Increasing l :=
  (List.pairwise_cons.mp h).2

private theorem increasing_head_lt {a : K × K} {l : List (K × K)} (h : Increasing (a :: l)) :
    ∀ q ∈ l, a.1 < q.1 := (List.pairwise_cons.mp h).1

private theorem increasing_of_append_right {pre l : List (K × K)} (h : Increasing (pre ++ l)) : Increasing l :=
  (List.pairwise_append.mp h).2.1

private theorem npInterp_right : ∀ (pre : List (K × K)) (xn yn t : K), Increasing (pre ++ [(xn, yn)]) → xn ≤ t →
    npInterp (pre ++ [(xn, yn)]) t = yn
  | [], xn, yn, t, _, _ => by simp [npInterp]
  | [(a, b)], xn, yn, t, hinc, ht => by
    have hlt : a < xn := increasing_head_lt hinc (xn, yn) (by simp)
    have h1 : ¬ t ≤ a := not_le.mpr (lt_of_lt_of_le hlt ht)
    have h2 : ¬ t < xn := not_lt.mpr ht
    simp [npInterp, h1, h2]
  | (a, b) :: (c, d) :: pre, xn, yn, t, hinc, ht => by
    have hc : c < xn := by
      have := increasing_head_lt (increasing_tail hinc) (xn, yn) (by simp)
      exact this
    have ha : a < c := increasing_head_lt hinc (c, d) (by simp)
    have h1 : ¬ t ≤ a := not_le.mpr (lt_of_lt_of_le (lt_trans ha hc) ht)
    have h2 : ¬ t < c := not_lt.mpr (le_trans hc.le ht)
    have ih := npInterp_right ((c, d) :: pre) xn yn t (increasing_tail hinc) ht
    simp only [List.cons_append] at ih ⊢
    simp only [npInterp, h1, h2, ↓reduceIte]
    exact ih

private theorem npInterp_segment : ∀ (pre : List (K × K)) (x0 y0 x1 y1 : K) (post : List (K × K)) (t : K),
    Increasing (pre ++ (x0, y0) :: (x1, y1) :: post) → x0 ≤ t → t ≤ x1 →
    npInterp (pre ++ (x0, y0) :: (x1, y1) :: post) t = y0 + (y1 - y0) / (x1 - x0) * (t - x0)
  | [], x0, y0, x1, y1, post, t, hinc, h0, h1 => by
    have hx : x0 < x1 := increasing_head_lt hinc (x1, y1) (by simp)
    simp only [List.nil_append]
    rcases h0.lt_or_eq with hlt | heq
    · rcases h1.lt_or_eq with hlt1 | heq1
      · simp only [npInterp, not_le.mpr hlt, hlt1, ↓reduceIte]
        ring
      · subst heq1
        simp only [npInterp, not_le.mpr hlt, lt_irrefl, ↓reduceIte]
        rw [npInterp_at_head _ _ _ _ le_rfl]
        have hne : t - x0 ≠ 0 := by linarith
        field_simp
        ring
    · subst heq
      simp [npInterp]
  | [(a, b)], x0, y0, x1, y1, post, t, hinc, h0, h1 => by
    have ha : a < x0 := increasing_head_lt hinc (x0, y0) (by simp)
    have ih := npInterp_segment [] x0 y0 x1 y1 post t (increasing_tail hinc) h0 h1
    simp only [List.cons_append, List.nil_append] at ih ⊢
    rcases h0.lt_or_eq with hlt | heq
    · simp only [npInterp, not_le.mpr (lt_of_lt_of_le ha h0), not_lt.mpr h0, ↓reduceIte] at ih ⊢
      exact ih
    · subst heq
      have hx : x0 < x1 := increasing_head_lt (increasing_tail hinc) (x1, y1) (by simp)
      simp only [npInterp, not_le.mpr ha, lt_irrefl, le_refl, ↓reduceIte]
      simp
  | (a, b) :: (c, d) :: pre, x0, y0, x1, y1, post, t, hinc, h0, h1 => by
    have hc : c < x0 := increasing_head_lt (increasing_tail hinc) (x0, y0) (by simp)
    have ha : a < c := increasing_head_lt hinc (c, d) (by simp)
    have ih := npInterp_segment ((c, d) :: pre) x0 y0 x1 y1 post t (increasing_tail hinc) h0 h1
    simp only [List.cons_append] at ih ⊢
    simp only [npInterp, not_le.mpr (lt_of_lt_of_le (lt_trans ha hc) h0), not_lt.mpr (le_trans hc.le h0),
      ↓reduceIte]
    exact ih

/-- **the contract is satisfiable, by clamped linear interpolation**: the model's `npInterp` (which the driver
    runs, and which `C08.vectorize_samples_evalPL` is phrased with) meets `LinearInterp` -/
theorem npInterp_linearInterp : LinearInterp (npInterp : List (K × K) → K → K) :=
  ⟨fun x0 y0 rest t _ ht => npInterp_at_head x0 y0 rest t ht, npInterp_right, npInterp_segment⟩

private theorem eq_npInterp_aux {interp : List (K × K) → K → K} (hi : LinearInterp interp) (t : K) :
    ∀ (l pre : List (K × K)), l ≠ [] → Increasing (pre ++ l) → (pre = [] ∨ ∀ p, l.head? = some p → p.1 ≤ t) →
      interp (pre ++ l) t = npInterp l t
  | [], _, h, _, _ => absurd rfl h
  | [(x0, y0)], pre, _, hinc, hpre => by
    by_cases hx : x0 ≤ t
    · rw [hi.right pre x0 y0 t hinc hx]; simp [npInterp]
    · rcases hpre with rfl | hpre
      · rw [List.nil_append, hi.left x0 y0 [] t hinc (not_le.mp hx).le]; simp [npInterp]
      · exact absurd (hpre (x0, y0) rfl) hx
  | (x0, y0) :: (x1, y1) :: rest, pre, _, hinc, hpre => by
    have hx01 : x0 < x1 := increasing_head_lt (increasing_of_append_right hinc) (x1, y1) (by simp)
    by_cases h0 : t ≤ x0
    · rw [npInterp_at_head _ _ _ _ h0]
      by_cases hx : x0 ≤ t
      · have : t = x0 := le_antisymm h0 hx
        subst this
        rw [hi.segment pre t y0 x1 y1 rest t hinc le_rfl hx01.le]
        simp
      · rcases hpre with rfl | hpre
        · rw [List.nil_append, hi.left x0 y0 _ t hinc h0]
        · exact absurd (hpre (x0, y0) rfl) hx
    · have h0' : x0 ≤ t := (not_le.mp h0).le
      by_cases h1 : t < x1
      · rw [hi.segment pre x0 y0 x1 y1 rest t hinc h0' h1.le]
        simp only [npInterp, h0, h1, ↓reduceIte]
        ring
      · have ih := eq_npInterp_aux hi t ((x1, y1) :: rest) (pre ++ [(x0, y0)]) (by simp)
          (by rw [List.append_assoc]; exact hinc)
          (Or.inr fun p hp => by
            simp only [List.head?_cons, Option.some.injEq] at hp
            subst hp
            exact not_lt.mp h1)
        rw [List.append_assoc] at ih
        simp only [List.cons_append, List.nil_append] at ih
        rw [ih]
        simp only [npInterp, h0, h1, ↓reduceIte]

/-- **the contract determines the function**: every `interp` meeting `LinearInterp` agrees with the model's
    `npInterp` on every non-empty list with strictly increasing abscissae -/
theorem LinearInterp.eq_npInterp {interp : List (K × K) → K → K} (hi : LinearInterp interp)
    (l : List (K × K)) (hne : l ≠ []) (hinc : Increasing l) (t : K) : interp l t = npInterp l t := by
  have := eq_npInterp_aux hi t l [] hne (by simpa using hinc) (Or.inl rfl)
  simpa using this

/-! ### bridges -/

/-- C03's `wellFormed` is what `vectorize_samples_evalPL` asks of every depth -/
private theorem wf_bridge {c : List (K × K)} (h : wellFormed c = true) :
    c ≠ [] ∧ Increasing c ∧ FirstZero c ∧ LastZero c := by
  obtain ⟨x0, q, rest, rfl, hg⟩ := good_of_wellFormed h
  refine ⟨by simp, ?_, ?_, ?_⟩
  · have := good_pairwise hg
    rwa [List.pairwise_map] at this
  · intro p hp
    simp only [List.head?_cons, Option.some.injEq] at hp
    rw [← hp]
  · intro p hp
    exact good_last hg p hp

/-- `vectorize` never applies `interp` to an empty depth: replacing it there changes nothing -/
private theorem vectorize_congr_nonempty (interp interp' : List (K × K) → K → K)
    (h : ∀ l, l ≠ [] → interp' l = interp l) (cps : List (List (K × K))) (start stop : Option K) (n : Nat) :
    vectorize interp' cps start stop n = vectorize interp cps start stop n := by
  unfold vectorize
  cases cps with
  | nil => rfl
  | cons d0 rest =>
    simp only
    cases optOr start (minAbscissa d0) with
    | none => rfl
    | some s =>
      cases optOr stop (maxAbscissa d0) with
      | none => rfl
      | some e =>
        simp only
        by_cases c1 : ((d0 :: rest).any List.isEmpty) = true
        · simp only [c1, ↓reduceIte]
        · simp only [c1, Bool.false_eq_true, ↓reduceIte]
          by_cases c2 : n = 0
          · simp only [c2, ↓reduceIte]
          · simp only [c2, ↓reduceIte]
            by_cases c3 : e < s
            · simp only [c3, ↓reduceIte]
            · simp only [c3, ↓reduceIte]
              congr 1
              apply List.map_congr_left
              intro depth hd
              have hne : depth ≠ [] := by
                intro h0
                apply c1
                rw [List.any_eq_true]
                exact ⟨depth, hd, by rw [h0]; rfl⟩
              rw [h depth hne]

private theorem foldl_min_le (t : List (K × K)) (m : K) :
    t.foldl (fun m q => if q.1 < m then q.1 else m) m ≤ m := by
  induction t generalizing m with
  | nil => exact le_rfl
  | cons a t ih =>
    simp only [List.foldl_cons]
    refine le_trans (ih _) ?_
    split
    · exact le_of_lt ‹_›
    · exact le_rfl

private theorem le_foldl_max (t : List (K × K)) (m : K) :
    m ≤ t.foldl (fun m q => if m < q.1 then q.1 else m) m := by
  induction t generalizing m with
  | nil => exact le_rfl
  | cons a t ih =>
    simp only [List.foldl_cons]
    refine le_trans ?_ (ih _)
    split
    · exact le_of_lt ‹_›
    · exact le_rfl

/-- the default grid of a non-empty depth is never reversed -/
private theorem minAbscissa_le_maxAbscissa {d0 : List (K × K)} (hne : d0 ≠ []) :
    ∃ s e, minAbscissa d0 = some s ∧ maxAbscissa d0 = some e ∧ s ≤ e := by
  cases d0 with
  | nil => exact absurd rfl hne
  | cons p t => exact ⟨_, _, rfl, rfl, le_trans (foldl_min_le t p.1) (le_foldl_max t p.1)⟩

/-- the model of `compute_landscape` returns at least one depth on a non-empty diagram (as `C10Model.sweep_cps_ne_nil`;
    repeated here to keep this file's imports to C03 and C08) -/
private theorem outer_length_ge : ∀ (fuel : Nat) (A : List (K × K)) (L : List (List (K × K))) (f : Nat)
    (o : Landscape.Out K), Landscape.outer fuel A L f = some o → L.length ≤ o.cps.length
  | fuel, [], L, f, o, h => by
    have : o = ⟨L, f⟩ := by cases fuel <;> simpa [Landscape.outer] using h.symm
    rw [this]
  | 0, _ :: _, _, _, _, h => by simp [Landscape.outer] at h
  | fuel + 1, (b, d) :: A, L, f, o, h => by
    rw [outer_succ] at h
    split at h
    · simp at h
    · have := outer_length_ge fuel _ _ _ o h
      simp only [List.length_append, List.length_cons] at this
      omega

private theorem insSorted_ne_nil {β : Type} (le : β → β → Bool) (x : β) (l : List β) :
    Landscape.insSorted le x l ≠ [] := by
  cases l with
  | nil => simp [Landscape.insSorted]
  | cons y ys => simp only [Landscape.insSorted]; split <;> simp

private theorem sweep_cps_ne_nil {bars : List (K × K)} (hne : bars ≠ []) {o : Landscape.Out K}
    (h : sweep bars = some o) : o.cps ≠ [] := by
  unfold sweep at h
  have hs : Landscape.stableSort Landscape.keyLe bars ≠ [] := by
    cases bars with
    | nil => exact absurd rfl hne
    | cons a t => exact insSorted_ne_nil _ a _
  obtain ⟨⟨b, d⟩, A, hA⟩ := List.exists_cons_of_ne_nil hs
  rw [hA, outer_succ] at h
  split at h
  · simp at h
  · have := outer_length_ge _ _ _ _ o h
    intro h0
    rw [h0] at this
    simp at this

/-! ### what the composed model returns -/

/-- **`m` is the landscape of `bars` sampled on `np.linspace(s, e, n)`**, with `D = m.length` depths:
    * `rows_le` — at most one row per bar;
    * `closed` — the whole matrix: row `k` (`k < D`) is `[λ_k(g_0), …, λ_k(g_{n-1})]`, `g_i = i*step + s`;
    * `row_length` — every row has `n` entries;
    * `value` — the same, entry by entry (no default value involved: the entry exists);
    * `beyond` — a depth `k ≥ D` has **no row**, and the landscape at that depth is the zero function, at
      every `t` (not only at the nodes);
    * `entry` — hence reading a missing row as zeros (`Values.entry`, the convention of every C08 statement)
      gives the landscape at every depth and every node. -/
structure IsLandscapeSamples (bars : List (K × K)) (s e : K) (n : Nat) (m : List (List K)) : Prop where
  rows_le : m.length ≤ bars.length
  closed : m = (List.range m.length).map fun k => (linspace s e n).map fun t => landscape bars k t
  row_length : ∀ row ∈ m, row.length = n
  value : ∀ k i, k < m.length → i < n → (m[k]?).bind (·[i]?) = some (landscape bars k (node s e n i))
  beyond : ∀ k, m.length ≤ k → m[k]? = none ∧ ∀ t, landscape bars k t = 0
  entry : ∀ k i, i < n → (Values.mat m).entry k i = landscape bars k (node s e n i)

private theorem linspace_length (s e : K) (n : Nat) : (linspace s e n).length = n := by
  simp [linspace]

private theorem linspace_getElem? (s e : K) (n i : Nat) (hi : i < n) : (linspace s e n)[i]? = some (node s e n i) := by
  simp [linspace, hi]

/-- the closed form gives everything else -/
private theorem isLandscapeSamples_of_closed {bars : List (K × K)} {s e : K} {n : Nat} {m : List (List K)}
    (hle : m.length ≤ bars.length)
    (hclosed : m = (List.range m.length).map fun k => (linspace s e n).map fun t => landscape bars k t)
    (hbeyond : ∀ k, m.length ≤ k → ∀ t, landscape bars k t = 0) : IsLandscapeSamples bars s e n m := by
  have hrow : ∀ k, k < m.length → m[k]? = some ((linspace s e n).map fun t => landscape bars k t) := by
    intro k hk
    conv_lhs => rw [hclosed]
    simp [hk]
  have hval : ∀ k i, k < m.length → i < n → (m[k]?).bind (·[i]?) = some (landscape bars k (node s e n i)) := by
    intro k i hk hi
    rw [hrow k hk]
    simp [linspace_getElem? s e n i hi]
  refine ⟨hle, hclosed, ?_, hval, fun k hk => ⟨List.getElem?_eq_none hk, hbeyond k hk⟩, ?_⟩
  · intro row hrow'
    obtain ⟨k, hk, rfl⟩ := List.getElem_of_mem hrow'
    have := hrow k hk
    rw [List.getElem?_eq_getElem hk, Option.some.injEq] at this
    rw [this, List.length_map, linspace_length]
  · intro k i hi
    unfold Values.entry
    by_cases hk : k < m.length
    · simp only [Values.rows, hrow k hk]
      simp [List.getD_eq_getElem?_getD, linspace_getElem? s e n i hi]
    · have hk' : m.length ≤ k := not_lt.mp hk
      simp only [Values.rows, List.getElem?_eq_none hk']
      exact (hbeyond k hk' _).symm

/-- the core of the composition, for one run of the sweep whose critical points are the landscape -/
private theorem samples_of_correct_cps {interp : List (K × K) → K → K} (hi : LinearInterp interp)
    {bars : List (K × K)} {cps : List (List (K × K))} (hlen : cps.length ≤ bars.length)
    (hwf : ∀ c ∈ cps, wellFormed c = true) (hc : ∀ k t, evalDepth cps k t = landscape bars k t)
    {start stop : Option K} {n : Nat} {m : List (List K)} (hv : vectorize interp cps start stop n = .ok m) :
    ∃ d0 rest s e, cps = d0 :: rest ∧
      (start = some s ∨ (start = none ∧ minAbscissa d0 = some s)) ∧
      (stop = some e ∨ (stop = none ∧ maxAbscissa d0 = some e)) ∧ s ≤ e ∧ n ≠ 0 ∧
      m.length = cps.length ∧ IsLandscapeSamples bars s e n m := by
  -- an `interp'` meeting the (total) contract of `vectorize_samples_evalPL`, equal to `interp` where it is used
  let interp' : List (K × K) → K → K := fun l => if l = [] then npInterp l else interp l
  have hcontract : ∀ l t, Increasing l → interp' l t = npInterp l t := by
    intro l t hl
    by_cases h0 : l = []
    · simp [interp', h0]
    · simp only [interp', h0, ↓reduceIte]
      exact hi.eq_npInterp l h0 hl t
  have hsame : vectorize interp' cps start stop n = vectorize interp cps start stop n :=
    vectorize_congr_nonempty interp interp' (fun l hl => by simp [interp', hl]) cps start stop n
  obtain ⟨d0, rest, s, e, hcps, hs, he, hse, hn, hm⟩ :=
    C08.vectorize_samples_evalPL interp' hcontract cps (fun l hl => (wf_bridge (hwf l hl)).2) start stop n m
      (by rw [hsame]; exact hv)
  have hmlen : m.length = cps.length := by rw [hm, List.length_map]
  refine ⟨d0, rest, s, e, hcps, hs, he, hse, hn, hmlen, ?_⟩
  apply isLandscapeSamples_of_closed (by rw [hmlen]; exact hlen)
  · rw [hmlen]
    conv_lhs => rw [hm]
    apply List.ext_getElem
    · simp
    · intro k h1 h2
      simp only [List.getElem_map, List.getElem_range]
      apply List.map_congr_left
      intro t _
      have hk : k < cps.length := by simpa using h1
      rw [← hc k t, evalDepth_some (List.getElem?_eq_getElem hk)]
  · intro k hk t
    rw [← hc k t]
    exact evalDepth_none (List.getElem?_eq_none (by rw [← hmlen]; exact hk)) t

/-- what C03 gives for a run on which the shortcut did not fire, with the bound on the number of depths -/
private theorem sweep_facts {bars : List (K × K)} (hpos : ∀ p ∈ bars, p.1 < p.2) {o : Landscape.Out K}
    (ho : sweep bars = some o) (hf : o.fired = 0) :
    o.cps.length ≤ bars.length ∧ (∀ c ∈ o.cps, wellFormed c = true) ∧
      ∀ k t, evalDepth o.cps k t = landscape bars k t := by
  have h2 : sweepNoShortcut bars = some o.cps := by
    unfold sweep at ho
    unfold sweepNoShortcut
    exact outer_not_fired _ _ _ _ o ho hf
  obtain ⟨hwf, hlen⟩ := sweepNoShortcut_wellFormed hpos h2
  exact ⟨hlen, hwf, fun k t => sweepNoShortcut_sound hpos h2 k t⟩

private theorem exact_inv {dgms : List (List (K × Option K))} {h : Int} {bars : List (K × K)}
    (hsel : selectBars dgms h = .ok bars) {o : Landscape.Out K} (ho : exact dgms h = .ok o) :
    sweep bars = some o := by
  unfold exact at ho
  rw [hsel] at ho
  simp only at ho
  cases hs : sweep bars with
  | none => rw [hs] at ho; simp at ho
  | some o' => rw [hs] at ho; simp only [Except.ok.injEq] at ho; rw [ho]

/-- **`model_vectorize_of_exact_not_fired`** (the general form, conditional on the run).  Let `bars` be the
    diagram the constructor selects from `dgms` by `hom_deg` (trailing infinite bar removed), all of positive
    length, and let `interp` obey the contract of `np.interp`.  Then the model of
    `PersLandscapeExact(dgms, hom_deg)` returns some `o`, and if its repeated-bar shortcut did not fire, then
    **whenever** the model of `vectorize(PersLandscapeExact(dgms, hom_deg), start, stop, num_steps)` returns a
    matrix `m`: the exact landscape has a first depth `d0`; the grid is `np.linspace(s, e, num_steps)` with `s`
    (`e`) the given `start` (`stop`) or else the smallest (largest) abscissa of `d0`; `s ≤ e`, `num_steps ≠ 0`;
    `m` has exactly one row per depth of the exact landscape; and `m` is the landscape of `bars` sampled at the
    grid nodes (`IsLandscapeSamples`: entry `(k, i)` is `landscape bars k (node s e n i)`, rows exist for
    `k < m.length ≤ bars.length` only, and beyond them the landscape is identically zero). -/
theorem model_vectorize_of_exact_not_fired (interp : List (K × K) → K → K) (hi : LinearInterp interp)
    (dgms : List (List (K × Option K))) (h : Int) (bars : List (K × K))
    (hsel : selectBars dgms h = .ok bars) (hpos : ∀ p ∈ bars, p.1 < p.2) (start stop : Option K) (n : Nat) :
    ∃ o, exact dgms h = .ok o ∧
      (o.fired = 0 → ∀ m, vectorizeExact interp dgms h start stop n = .ok m →
        ∃ d0 rest s e, o.cps = d0 :: rest ∧
          (start = some s ∨ (start = none ∧ minAbscissa d0 = some s)) ∧
          (stop = some e ∨ (stop = none ∧ maxAbscissa d0 = some e)) ∧ s ≤ e ∧ n ≠ 0 ∧
          m.length = o.cps.length ∧ IsLandscapeSamples bars s e n m) := by
  obtain ⟨o, ho, -⟩ := C03.exact_correct_of_not_fired dgms h bars hsel hpos
  refine ⟨o, ho, fun hf m hm => ?_⟩
  obtain ⟨hlen, hwf, hc⟩ := sweep_facts hpos (exact_inv hsel ho) hf
  have hv : vectorize interp o.cps start stop n = .ok m := by
    unfold vectorizeExact at hm
    rw [ho] at hm
    simp only at hm
    cases hv : vectorize interp o.cps start stop n with
    | error err => rw [hv] at hm; simp at hm
    | ok m' => rw [hv] at hm; simp only [Except.ok.injEq] at hm; rw [hm]
  exact samples_of_correct_cps hi hlen hwf hc hv

/-- **`model_vectorize_of_exact_returns`**: conditions on the INPUT under which the composed model does
    return a matrix (so the statements above are not about an empty set of runs): the selected diagram is
    non-empty with bars of positive length, the shortcut did not fire, `num_steps ≠ 0`, and `start`, `stop` are
    either both given with `start ≤ stop` or both omitted. -/
theorem model_vectorize_of_exact_returns (interp : List (K × K) → K → K)
    (dgms : List (List (K × Option K))) (h : Int) (bars : List (K × K))
    (hsel : selectBars dgms h = .ok bars) (hpos : ∀ p ∈ bars, p.1 < p.2) (hne : bars ≠ [])
    (start stop : Option K) (n : Nat) (hn : n ≠ 0)
    (hgrid : (∃ s e, start = some s ∧ stop = some e ∧ s ≤ e) ∨ (start = none ∧ stop = none)) :
    ∃ o, exact dgms h = .ok o ∧
      (o.fired = 0 → ∃ m, vectorizeExact interp dgms h start stop n = .ok m) := by
  obtain ⟨o, ho, -⟩ := C03.exact_correct_of_not_fired dgms h bars hsel hpos
  refine ⟨o, ho, fun hf => ?_⟩
  obtain ⟨-, hwf, -⟩ := sweep_facts hpos (exact_inv hsel ho) hf
  obtain ⟨d0, rest, hcps⟩ := List.exists_cons_of_ne_nil (sweep_cps_ne_nil hne (exact_inv hsel ho))
  have hd0 : d0 ≠ [] := (wf_bridge (hwf d0 (by rw [hcps]; simp))).1
  have hany : ((d0 :: rest).any List.isEmpty) = false := by
    rw [Bool.eq_false_iff]
    intro hc
    rw [List.any_eq_true] at hc
    obtain ⟨c, hcm, hce⟩ := hc
    have := (wf_bridge (hwf c (by rw [hcps]; exact hcm))).1
    cases c with
    | nil => exact this rfl
    | cons _ _ => simp at hce
  obtain ⟨s, e, hs, he, hse⟩ : ∃ s e, optOr start (minAbscissa d0) = some s ∧
      optOr stop (maxAbscissa d0) = some e ∧ s ≤ e := by
    rcases hgrid with ⟨s, e, rfl, rfl, hse⟩ | ⟨rfl, rfl⟩
    · exact ⟨s, e, rfl, rfl, hse⟩
    · obtain ⟨s, e, h1, h2, h3⟩ := minAbscissa_le_maxAbscissa hd0
      exact ⟨s, e, by simpa [optOr] using h1, by simpa [optOr] using h2, h3⟩
  refine ⟨(d0 :: rest).map fun depth => (linspace s e n).map (interp depth), ?_⟩
  unfold vectorizeExact
  rw [ho]
  simp only [hcps]
  unfold vectorize
  simp only [hs, he, hany, hn, not_lt.mpr hse, Bool.false_eq_true, ↓reduceIte]

/-- **`model_vectorize_of_exact_is_landscape`** (pairwise distinct births — a condition on the input, not on
    the trace).  For a diagram with bars of positive length and pairwise distinct births, and `interp` obeying
    the contract of `np.interp`: the model of `PersLandscapeExact(dgms, hom_deg)` returns, its shortcut does not
    fire, and **every** matrix `m` the model of
    `vectorize(PersLandscapeExact(dgms, hom_deg), start, stop, num_steps)` returns is the landscape of the
    diagram sampled at the nodes of `np.linspace(s, e, num_steps)`:
    `m[k][i] = landscape bars k (node s e n i)` for every depth `k < m.length` and every node `i < n`;
    `m.length` is the number of depths of the exact landscape, at most the number of bars; for `k ≥ m.length`
    there is no row and `landscape bars k` is the zero function.  If moreover the diagram is non-empty,
    `num_steps ≠ 0` and `start ≤ stop` are both given or both omitted, the model does return a matrix. -/
theorem model_vectorize_of_exact_is_landscape (interp : List (K × K) → K → K) (hi : LinearInterp interp)
    (dgms : List (List (K × Option K))) (h : Int) (bars : List (K × K))
    (hsel : selectBars dgms h = .ok bars) (hpos : ∀ p ∈ bars, p.1 < p.2) (hb : (bars.map Prod.fst).Nodup)
    (start stop : Option K) (n : Nat) :
    ∃ o, exact dgms h = .ok o ∧ o.fired = 0 ∧
      (∀ m, vectorizeExact interp dgms h start stop n = .ok m →
        ∃ d0 rest s e, o.cps = d0 :: rest ∧
          (start = some s ∨ (start = none ∧ minAbscissa d0 = some s)) ∧
          (stop = some e ∨ (stop = none ∧ maxAbscissa d0 = some e)) ∧ s ≤ e ∧ n ≠ 0 ∧
          m.length = o.cps.length ∧ IsLandscapeSamples bars s e n m) ∧
      (bars ≠ [] → n ≠ 0 →
        ((∃ s e, start = some s ∧ stop = some e ∧ s ≤ e) ∨ (start = none ∧ stop = none)) →
        ∃ m, vectorizeExact interp dgms h start stop n = .ok m) := by
  obtain ⟨o, ho, hsamp⟩ := model_vectorize_of_exact_not_fired interp hi dgms h bars hsel hpos start stop n
  have hf : o.fired = 0 := C03.sweep_fired_zero_of_distinct_births bars hb o (exact_inv hsel ho)
  refine ⟨o, ho, hf, hsamp hf, fun hne hn hgrid => ?_⟩
  obtain ⟨o', ho', hret⟩ := model_vectorize_of_exact_returns interp dgms h bars hsel hpos hne start stop n hn hgrid
  rw [ho] at ho'
  cases ho'
  exact hret hf

/-- **`model_vectorize_of_exact_is_landscape_of_distinct_deaths`**: the same for a diagram with bars of
    positive length and pairwise distinct deaths. -/
theorem model_vectorize_of_exact_is_landscape_of_distinct_deaths (interp : List (K × K) → K → K)
    (hi : LinearInterp interp) (dgms : List (List (K × Option K))) (h : Int) (bars : List (K × K))
    (hsel : selectBars dgms h = .ok bars) (hpos : ∀ p ∈ bars, p.1 < p.2) (hd : (bars.map Prod.snd).Nodup)
    (start stop : Option K) (n : Nat) :
    ∃ o, exact dgms h = .ok o ∧ o.fired = 0 ∧
      (∀ m, vectorizeExact interp dgms h start stop n = .ok m →
        ∃ d0 rest s e, o.cps = d0 :: rest ∧
          (start = some s ∨ (start = none ∧ minAbscissa d0 = some s)) ∧
          (stop = some e ∨ (stop = none ∧ maxAbscissa d0 = some e)) ∧ s ≤ e ∧ n ≠ 0 ∧
          m.length = o.cps.length ∧ IsLandscapeSamples bars s e n m) ∧
      (bars ≠ [] → n ≠ 0 →
        ((∃ s e, start = some s ∧ stop = some e ∧ s ≤ e) ∨ (start = none ∧ stop = none)) →
        ∃ m, vectorizeExact interp dgms h start stop n = .ok m) := by
  obtain ⟨o, ho, hsamp⟩ := model_vectorize_of_exact_not_fired interp hi dgms h bars hsel hpos start stop n
  have hf : o.fired = 0 := C03.sweep_fired_zero_of_distinct_deaths bars hd o (exact_inv hsel ho)
  refine ⟨o, ho, hf, hsamp hf, fun hne hn hgrid => ?_⟩
  obtain ⟨o', ho', hret⟩ := model_vectorize_of_exact_returns interp dgms h bars hsel hpos hne start stop n hn hgrid
  rw [ho] at ho'
  cases ho'
  exact hret hf

/-! ### non-vacuity: every hypothesis is met by a concrete non-trivial input, and the run is exhibited -/

/-- two diagrams; degree 1 is selected: five bars, nested (`(1,4)` in `(0,6)`, `(3,5)` in `(2,8)`), crossing, births
    pairwise distinct, followed by an infinite bar (removed by the constructor) -/
def exDgms : List (List (ℚ × Option ℚ)) :=
  [[(9, some 10)], [(0, some 6), (1, some 4), (2, some 8), (3, some 5), (5, some 9), (0, none)]]

/-- the bars the constructor sweeps -/
def exBars : List (ℚ × ℚ) := [(0, 6), (1, 4), (2, 8), (3, 5), (5, 9)]

/-- the hypotheses of `model_vectorize_of_exact_is_landscape` (selection, positive length, distinct births, the
    `np.interp` contract) and of its "returns" clause (non-empty, `num_steps ≠ 0`, `start ≤ stop`) hold -/
theorem ex_hypotheses :
    selectBars exDgms 1 = .ok exBars ∧ (∀ p ∈ exBars, p.1 < p.2) ∧ (exBars.map Prod.fst).Nodup ∧
      LinearInterp (npInterp : List (ℚ × ℚ) → ℚ → ℚ) ∧ exBars ≠ [] ∧ (7 : ℕ) ≠ 0 ∧ (0 : ℚ) ≤ 9 :=
  ⟨by decide +kernel, by decide, by decide, npInterp_linearInterp, by decide, by decide, by norm_num⟩

/-- what the model of `PersLandscapeExact(exDgms, hom_deg=1)` returns: four depths for five bars (the fifth
    function is identically zero), shortcut not fired -/
theorem ex_exact : (exact exDgms 1).toOption.map (fun o => (o.cps, o.fired)) = some
    ([[(0, 0), (3, 3), (4, 2), (5, 3), (13 / 2, 3 / 2), (7, 2), (9, 0)],
      [(1, 0), (5 / 2, 3 / 2), (3, 1), (4, 2), (11 / 2, 1 / 2), (13 / 2, 3 / 2), (8, 0)],
      [(2, 0), (3, 1), (7 / 2, 1 / 2), (4, 1), (5, 0), (11 / 2, 1 / 2), (6, 0)],
      [(3, 0), (7 / 2, 1 / 2), (4, 0)]], 0) := by decide +kernel

/-- **the run, evaluated by the kernel**: `vectorize(PersLandscapeExact(exDgms, 1), 0, 9, 7)` on the grid
    `0, 3/2, 3, 9/2, 6, 15/2, 9` — nodes on breakpoints (`0`, `3`, `6`, `9`) and off them (`3/2`, `9/2`, `15/2`).
    Four rows (one per depth returned; no fifth row); the fourth depth lives on `(3,4)` and is invisible on this
    grid. -/
theorem ex_run : vectorizeExact npInterp exDgms 1 (some 0) (some 9) 7 = .ok
    [[0, 3 / 2, 3, 5 / 2, 2, 3 / 2, 0], [0, 1 / 2, 1, 3 / 2, 1, 1 / 2, 0], [0, 0, 1, 1 / 2, 0, 0, 0],
     [0, 0, 0, 0, 0, 0, 0]] := by decide +kernel

/-- a grid inside the diagram (`vectorize` does not ask the grid to cover it), on which the fourth depth is seen;
    and the default grid (smallest / largest abscissa of the first depth: `0`, `9`) -/
theorem ex_run_inner : vectorizeExact npInterp exDgms 1 (some 3) (some 4) 3 = .ok
    [[3, 5 / 2, 2], [1, 3 / 2, 2], [1, 1 / 2, 1], [0, 1 / 2, 0]] := by decide +kernel

theorem ex_run_default : vectorizeExact npInterp exDgms 1 none none 4 = .ok
    [[0, 3, 2, 0], [0, 1, 1, 0], [0, 1, 0, 0], [0, 0, 0, 0]] := by decide +kernel

/-- **the theorem applied to that run**: from what the model returned, a value of the mathematical landscape at
    an off-breakpoint node — the second function at `g_3 = 9/2` is `3/2` — and the fifth function is zero
    everywhere (there is no fifth row) -/
example : landscape exBars 1 (9 / 2) = 3 / 2 ∧ ∀ t, landscape exBars 4 t = 0 := by
  obtain ⟨hsel, hpos, hb, hi, -⟩ := ex_hypotheses
  obtain ⟨o, -, -, hsamp, -⟩ :=
    model_vectorize_of_exact_is_landscape npInterp hi exDgms 1 exBars hsel hpos hb (some 0) (some 9) 7
  obtain ⟨d0, rest, s, e, -, hs, he, -, -, -, hsam⟩ := hsamp _ ex_run
  have hs0 : s = 0 := by rcases hs with h | ⟨h, -⟩ <;> simp at h; exact h.symm
  have he9 : e = 9 := by rcases he with h | ⟨h, -⟩ <;> simp at h; exact h.symm
  subst hs0; subst he9
  have h1 := hsam.value 1 3 (by decide) (by decide)
  have hnode : node (0 : ℚ) 9 7 3 = 9 / 2 := by norm_num [node, stepOf]
  rw [hnode] at h1
  refine ⟨?_, (hsam.beyond 4 (by decide)).2⟩
  have : (3 / 2 : ℚ) = landscape exBars 1 (9 / 2) := by simpa using h1
  exact this.symm

/-- … and the "returns" clause produces the run from the hypotheses alone -/
example : ∃ m, vectorizeExact npInterp exDgms 1 (some 0) (some 9) 7 = .ok m := by
  obtain ⟨hsel, hpos, hb, hi, hne, hn, hse⟩ := ex_hypotheses
  obtain ⟨o, -, -, -, hret⟩ :=
    model_vectorize_of_exact_is_landscape npInterp hi exDgms 1 exBars hsel hpos hb (some 0) (some 9) 7
  exact hret hne hn (Or.inl ⟨0, 9, rfl, rfl, hse⟩)

/-- hypotheses of the distinct-deaths form: six bars, nested, touching, equal births (`0` twice, `2` twice),
    deaths pairwise distinct; and its run on the grid `0, 7/4, 7/2, 21/4, 7` (off the breakpoints) -/
example : selectBars (α := ℚ) [[(0, some 6), (0, some 4), (2, some 7), (1, some 5), (6, some 8), (2, some 3)]] 0
      = .ok [(0, 6), (0, 4), (2, 7), (1, 5), (6, 8), (2, 3)] ∧
    (∀ p ∈ ([(0, 6), (0, 4), (2, 7), (1, 5), (6, 8), (2, 3)] : List (ℚ × ℚ)), p.1 < p.2) ∧
    (([(0, 6), (0, 4), (2, 7), (1, 5), (6, 8), (2, 3)] : List (ℚ × ℚ)).map Prod.snd).Nodup ∧
    ¬ (([(0, 6), (0, 4), (2, 7), (1, 5), (6, 8), (2, 3)] : List (ℚ × ℚ)).map Prod.fst).Nodup ∧
    vectorizeExact (α := ℚ) npInterp
      [[(0, some 6), (0, some 4), (2, some 7), (1, some 5), (6, some 8), (2, some 3)]] 0 (some 0) (some 7) 5 = .ok
      [[0, 7 / 4, 5 / 2, 7 / 4, 1], [0, 7 / 4, 3 / 2, 3 / 4, 0], [0, 3 / 4, 3 / 2, 0, 0], [0, 0, 1 / 2, 0, 0],
       [0, 0, 0, 0, 0]] :=
  ⟨by decide +kernel, by decide, by decide, by decide, by decide +kernel⟩

/-- hypotheses of the general form `model_vectorize_of_exact_not_fired`: a diagram with equal births AND equal
    deaths (neither trace-free condition applies) on which the shortcut nevertheless does not fire -/
example : selectBars (α := ℚ) [[(0, some 6), (0, some 4), (2, some 6), (1, some 5), (6, some 8)]] 0
      = .ok [(0, 6), (0, 4), (2, 6), (1, 5), (6, 8)] ∧
    (∀ p ∈ ([(0, 6), (0, 4), (2, 6), (1, 5), (6, 8)] : List (ℚ × ℚ)), p.1 < p.2) ∧
    ¬ (([(0, 6), (0, 4), (2, 6), (1, 5), (6, 8)] : List (ℚ × ℚ)).map Prod.fst).Nodup ∧
    ¬ (([(0, 6), (0, 4), (2, 6), (1, 5), (6, 8)] : List (ℚ × ℚ)).map Prod.snd).Nodup ∧
    (exact (α := ℚ) [[(0, some 6), (0, some 4), (2, some 6), (1, some 5), (6, some 8)]] 0).toOption.map (·.fired)
      = some 0 ∧
    vectorizeExact (α := ℚ) npInterp [[(0, some 6), (0, some 4), (2, some 6), (1, some 5), (6, some 8)]] 0
      (some 0) (some 7) 5 = .ok
      [[0, 7 / 4, 5 / 2, 3 / 4, 1], [0, 7 / 4, 3 / 2, 3 / 4, 0], [0, 3 / 4, 3 / 2, 0, 0], [0, 0, 1 / 2, 0, 0]] :=
  ⟨by decide +kernel, by decide, by decide, by decide, by decide +kernel, by decide +kernel⟩

/-- the guard is needed: on C03's known finding `[(1,5),(1,5),(3,6)]` (a repeated bar; the shortcut fires) the
    composed model returns `3/2` at depth index 1, node `9/2`, where the landscape is `1/2`
    (`C03.known_landscape_value`) -/
theorem shortcut_sampled_counterexample :
    vectorizeExact (α := ℚ) npInterp [[(1, some 5), (1, some 5), (3, some 6)]] 0 (some 3) (some 6) 3
      = .ok [[2, 3 / 2, 0], [2, 3 / 2, 0], [0, 1 / 2, 0]] ∧
    node (3 : ℚ) 6 3 1 = 9 / 2 ∧ landscape C03.knownBars 1 (9 / 2) = 1 / 2 :=
  ⟨by decide +kernel, by norm_num [node, stepOf], C03.known_landscape_value⟩

end PersimVerif.C08Model
