import PersimVerif.Model.Kernels
import PersimVerif.Lemmas.Kernels
import PersimVerif.Generated.KernelConsts
import Mathlib.Tactic.NormNum.OfScientific
import Mathlib.Analysis.SpecialFunctions.Sqrt
import Mathlib.Topology.Algebra.Order.Field
import Mathlib.MeasureTheory.Measure.Lebesgue.Basic
import Mathlib.MeasureTheory.Measure.Prod
import Mathlib.Probability.CDF
import Mathlib.Probability.Distributions.Gaussian.Real

/-!
# C13 — the Gaussian / uniform kernels are valid, accurate cumulative distribution functions

What is proved here, about `PersimVerif.Kernels` (the model of `persim/images_kernels.py`) over an arbitrary
linear ordered field `K` (ℚ: every finite float; ℝ):

* the **uniform kernel**, completely: range, monotone, tails, rectangle mass, product of clamps, and (at ℝ)
  Lebesgue measure of box ∩ quadrant over the area (`uniform_is_box_measure`);
* the **product form** `sbvn` (zero covariance) for *every* monotone `Φ : K → K` with values in `[0,1]`:
  range, monotone, rectangle mass = product of two non-negative differences; the dispatch of `gaussian`;
  at ℝ the tails, and — with `Φ` Mathlib's standard normal CDF — equality with the mass that
  `N(μ₀,σ₀₀) ⊗ N(μ₁,σ₁₁)` gives to the quadrant (`gaussian_zero_cov_is_bivariate_normal_cdf`);
* the **constants** of the algorithm: `Generated/KernelConsts.lean` (re-generated from the source on every
  run) — bundled here as `constants_are_gauss_legendre_and_genz`.

What is **not** proved (DESIGN.md section 6/C13 and 8): that `bvn` (Drezner–Wesolowsky / Genz) approximates
the bivariate normal CDF to 1e-7, lies in [0,1] and is monotone when the covariance is non-zero.  The full
statement is kept below as `BvnIsAccurateValidCdf : Prop`; it is tested, not proved.
-/
namespace PersimVerif.C13
open PersimVerif.Kernels PersimVerif.KernelLemmas

set_option linter.unusedSectionVars false

variable {K : Type} [Field K] [LinearOrder K] [IsStrictOrderedRing K]

/-! ## The uniform kernel -/

/-- **the uniform kernel is the product of the two clamped marginals**
    `clamp((x − (μ₀ − w/2))/w) · clamp((y − (μ₁ − h/2))/h)`, `clamp = min 1 ∘ max 0` -/
theorem uniform_is_product_clamp {w h : K} (hw : 0 < w) (hh : 0 < h) (x y μ0 μ1 : K) :
    uniform x y μ0 μ1 w h = clamp01 ((x - (μ0 - w / 2)) / w) * clamp01 ((y - (μ1 - h / 2)) / h) := by
  unfold uniform
  simp only [min_max_eq_mul_clamp hw, min_max_eq_mul_clamp hh]
  field_simp

/-- **values lie in [0,1]** -/
theorem uniform_range {w h : K} (hw : 0 < w) (hh : 0 < h) (x y μ0 μ1 : K) :
    0 ≤ uniform x y μ0 μ1 w h ∧ uniform x y μ0 μ1 w h ≤ 1 := by
  rw [uniform_is_product_clamp hw hh]
  exact prod_mem_unit (clamp01_nonneg _) (clamp01_le_one _) (clamp01_nonneg _) (clamp01_le_one _)

/-- **non-decreasing in each argument** -/
theorem uniform_mono {w h : K} (hw : 0 < w) (hh : 0 < h) {x x' y y' : K} (hx : x ≤ x') (hy : y ≤ y')
    (μ0 μ1 : K) : uniform x y μ0 μ1 w h ≤ uniform x' y' μ0 μ1 w h := by
  rw [uniform_is_product_clamp hw hh, uniform_is_product_clamp hw hh]
  exact mul_le_mul (clamp01_mono (sub_div_mono hw _ hx)) (clamp01_mono (sub_div_mono hh _ hy))
    (clamp01_nonneg _) (clamp01_nonneg _)

/-- **tails**: 0 at or below the lower-left corner of the box in either coordinate, 1 at or beyond the
    upper-right corner in both -/
theorem uniform_tails {w h : K} (hw : 0 < w) (hh : 0 < h) (x y μ0 μ1 : K) :
    (x ≤ μ0 - w / 2 → uniform x y μ0 μ1 w h = 0) ∧
    (y ≤ μ1 - h / 2 → uniform x y μ0 μ1 w h = 0) ∧
    (μ0 + w / 2 ≤ x → μ1 + h / 2 ≤ y → uniform x y μ0 μ1 w h = 1) := by
  rw [uniform_is_product_clamp hw hh]
  refine ⟨fun hx => ?_, fun hy => ?_, fun hx hy => ?_⟩
  · rw [clamp01_of_nonpos (div_nonpos_of_nonpos_of_nonneg (by linarith) hw.le), zero_mul]
  · rw [clamp01_of_nonpos (div_nonpos_of_nonpos_of_nonneg (by linarith) hh.le), mul_zero]
  · rw [clamp01_of_one_le ((one_le_div hw).mpr (by linarith)),
      clamp01_of_one_le ((one_le_div hh).mpr (by linarith)), one_mul]

/-- **every rectangle gets non-negative mass** (inclusion–exclusion), and the mass is the product of the two
    marginal increments -/
theorem uniform_rect_nonneg {w h : K} (hw : 0 < w) (hh : 0 < h) {x0 x1 y0 y1 : K} (hx : x0 ≤ x1)
    (hy : y0 ≤ y1) (μ0 μ1 : K) :
    0 ≤ uniform x1 y1 μ0 μ1 w h - uniform x0 y1 μ0 μ1 w h - uniform x1 y0 μ0 μ1 w h
        + uniform x0 y0 μ0 μ1 w h := by
  simp only [uniform_is_product_clamp hw hh]
  rw [rect_factor]
  exact mul_nonneg (sub_nonneg.mpr (clamp01_mono (sub_div_mono hw _ hx)))
    (sub_nonneg.mpr (clamp01_mono (sub_div_mono hh _ hy)))

/-- inside the box the kernel is the area fraction of the part of the box below and to the left -/
theorem uniform_inside {w h : K} (hw : 0 < w) (hh : 0 < h) {x y μ0 μ1 : K}
    (hx0 : μ0 - w / 2 ≤ x) (hx1 : x ≤ μ0 + w / 2) (hy0 : μ1 - h / 2 ≤ y) (hy1 : y ≤ μ1 + h / 2) :
    uniform x y μ0 μ1 w h = (x - (μ0 - w / 2)) * (y - (μ1 - h / 2)) / (w * h) := by
  rw [uniform_is_product_clamp hw hh,
    clamp01_of_mem (div_nonneg (by linarith) hw.le) ((div_le_one hw).mpr (by linarith)),
    clamp01_of_mem (div_nonneg (by linarith) hh.le) ((div_le_one hh).mpr (by linarith))]
  field_simp

/-- non-vacuity: a box of width 3, height 1/2 centred at (−1, 2); an inside point, exact value 1/8 -/
example : uniform (-7/4 : ℚ) (2 : ℚ) (-1) 2 3 (1/2) = 1/8 := by
  rw [uniform_inside (by norm_num) (by norm_num) (by norm_num) (by norm_num) (by norm_num) (by norm_num)]
  norm_num
example : (0 : ℚ) < 3 ∧ (0 : ℚ) < 1 / 2 := by norm_num

/-- the guard `0 < w, 0 < h` is the property's quantifier ("the box"), the code itself does not check it; it
    is needed: with a negative width the value far to the left of the box is not 0 -/
example : uniform (-10 : ℚ) 0 0 0 (-2) 1 = 1 / 2 := by decide +kernel

/-! ## The product form (zero covariance) for any monotone Φ into [0,1] -/

/-- the contract of `norm_cdf` used by the theorems: monotone with values in [0,1] -/
structure IsCdfLike (Φ : K → K) : Prop where
  mono : Monotone Φ
  nonneg : ∀ t, 0 ≤ Φ t
  le_one : ∀ t, Φ t ≤ 1

/-- non-vacuity of the contract: the clamp itself (the uniform CDF on [0,1]) satisfies it -/
example : IsCdfLike (clamp01 : ℚ → ℚ) := ⟨clamp01_mono, clamp01_nonneg, clamp01_le_one⟩

/-- **values lie in [0,1]** (no hypothesis on the variances or on `sqrt`) -/
theorem sbvn_range {Φ : K → K} (hΦ : IsCdfLike Φ) (sqrt : K → K) (x y μ0 μ1 sx sy : K) :
    0 ≤ sbvn Φ sqrt x y μ0 μ1 sx sy ∧ sbvn Φ sqrt x y μ0 μ1 sx sy ≤ 1 :=
  prod_mem_unit (hΦ.nonneg _) (hΦ.le_one _) (hΦ.nonneg _) (hΦ.le_one _)

/-- **non-decreasing in each argument**, for positive standard deviations `sqrt σ` -/
theorem sbvn_mono {Φ : K → K} (hΦ : IsCdfLike Φ) {sqrt : K → K} {sx sy : K} (hsx : 0 < sqrt sx)
    (hsy : 0 < sqrt sy) {x x' y y' : K} (hx : x ≤ x') (hy : y ≤ y') (μ0 μ1 : K) :
    sbvn Φ sqrt x y μ0 μ1 sx sy ≤ sbvn Φ sqrt x' y' μ0 μ1 sx sy :=
  mul_le_mul (hΦ.mono (sub_div_mono hsx _ hx)) (hΦ.mono (sub_div_mono hsy _ hy)) (hΦ.nonneg _)
    (hΦ.nonneg _)

/-- **rectangle mass is the product of the two marginal increments** … -/
theorem sbvn_rect_eq (Φ sqrt : K → K) (x0 x1 y0 y1 μ0 μ1 sx sy : K) :
    sbvn Φ sqrt x1 y1 μ0 μ1 sx sy - sbvn Φ sqrt x0 y1 μ0 μ1 sx sy - sbvn Φ sqrt x1 y0 μ0 μ1 sx sy
        + sbvn Φ sqrt x0 y0 μ0 μ1 sx sy
      = (Φ ((x1 - μ0) / sqrt sx) - Φ ((x0 - μ0) / sqrt sx))
        * (Φ ((y1 - μ1) / sqrt sy) - Φ ((y0 - μ1) / sqrt sy)) := by
  unfold sbvn; ring

/-- … **hence non-negative** -/
theorem sbvn_rect_nonneg {Φ : K → K} (hΦ : IsCdfLike Φ) {sqrt : K → K} {sx sy : K} (hsx : 0 < sqrt sx)
    (hsy : 0 < sqrt sy) {x0 x1 y0 y1 : K} (hx : x0 ≤ x1) (hy : y0 ≤ y1) (μ0 μ1 : K) :
    0 ≤ sbvn Φ sqrt x1 y1 μ0 μ1 sx sy - sbvn Φ sqrt x0 y1 μ0 μ1 sx sy
        - sbvn Φ sqrt x1 y0 μ0 μ1 sx sy + sbvn Φ sqrt x0 y0 μ0 μ1 sx sy := by
  rw [sbvn_rect_eq]
  exact mul_nonneg (sub_nonneg.mpr (hΦ.mono (sub_div_mono hsx _ hx)))
    (sub_nonneg.mpr (hΦ.mono (sub_div_mono hsy _ hy)))

/-- **the dispatch**: `sigma[0][1] == 0` → the product of the marginals standardised by the square roots of
    the *variances*, whatever the other branch is -/
theorem gaussian_zero_cov_is_product [DecidableEq K] (Φ sqrt : K → K)
    (bvn : K → K → K → K → K → K → K → K) (x y μ0 μ1 s00 s11 : K) :
    gaussian Φ sqrt bvn x y μ0 μ1 s00 s11 0 = Φ ((x - μ0) / sqrt s00) * Φ ((y - μ1) / sqrt s11) := by
  simp [gaussian, sbvn]

/-- the other side of the dispatch: a non-zero covariance goes to `bvn_cdf` -/
theorem gaussian_nonzero_cov_is_bvn [DecidableEq K] (Φ sqrt : K → K)
    (bvn : K → K → K → K → K → K → K → K) (x y μ0 μ1 s00 s11 : K) {s01 : K} (h : s01 ≠ 0) :
    gaussian Φ sqrt bvn x y μ0 μ1 s00 s11 s01 = bvn x y μ0 μ1 s00 s11 s01 := by
  simp [gaussian, h]

/-- with zero covariance the Gaussian kernel is a valid CDF-like function: range, monotone, rectangles -/
theorem gaussian_zero_cov_valid [DecidableEq K] {Φ : K → K} (hΦ : IsCdfLike Φ) {sqrt : K → K} {s00 s11 : K}
    (h0 : 0 < sqrt s00) (h1 : 0 < sqrt s11) (bvn : K → K → K → K → K → K → K → K) (μ0 μ1 : K) :
    let F := fun x y => gaussian Φ sqrt bvn x y μ0 μ1 s00 s11 0
    (∀ x y, 0 ≤ F x y ∧ F x y ≤ 1) ∧
    (∀ x x' y y', x ≤ x' → y ≤ y' → F x y ≤ F x' y') ∧
    (∀ x0 x1 y0 y1, x0 ≤ x1 → y0 ≤ y1 → 0 ≤ F x1 y1 - F x0 y1 - F x1 y0 + F x0 y0) := by
  have e : ∀ x y, gaussian Φ sqrt bvn x y μ0 μ1 s00 s11 0 = sbvn Φ sqrt x y μ0 μ1 s00 s11 := by
    intro x y; simp [gaussian]
  simp only [e]
  exact ⟨fun x y => sbvn_range hΦ sqrt x y μ0 μ1 s00 s11,
    fun x x' y y' hx hy => sbvn_mono hΦ h0 h1 hx hy μ0 μ1,
    fun x0 x1 y0 y1 hx hy => sbvn_rect_nonneg hΦ h0 h1 hx hy μ0 μ1⟩

/-- non-vacuity: variances 4 and 9 with `sqrt` the exact root on these two values, Φ the clamp -/
example : let sqrt : ℚ → ℚ := fun v => if v = 4 then 2 else 3
    IsCdfLike (clamp01 : ℚ → ℚ) ∧ 0 < sqrt 4 ∧ 0 < sqrt 9 ∧
    gaussian clamp01 sqrt (fun _ _ _ _ _ _ _ => 0) (1 : ℚ) 3 0 0 4 9 0 = 1 / 2 * 1 := by
  refine ⟨⟨clamp01_mono, clamp01_nonneg, clamp01_le_one⟩, by norm_num, by norm_num, ?_⟩
  rw [gaussian_zero_cov_is_product]
  norm_num [clamp01]

/-! ## At the reals: Lebesgue measure, `Real.sqrt`, tails, the normal law -/

section real
open MeasureTheory ProbabilityTheory Set Filter Topology

private lemma half_len {a w t : ℝ} (hw : 0 < w) :
    max (min (a + w) t - a) 0 = min (max (t - a) 0) w := by
  simp only [min_def, max_def]
  split_ifs <;> linarith

private lemma Icc_inter_Iic' (a b c : ℝ) : Icc a b ∩ Iic c = Icc a (min b c) := by
  ext t
  simp only [mem_inter_iff, mem_Icc, mem_Iic, le_min_iff, and_assoc]

/-- **the uniform kernel is the Lebesgue measure of (box ∩ lower-left quadrant at (x,y)) over the area of the
    box**, i.e. the CDF of the uniform distribution on the box centred at `(μ₀, μ₁)` -/
theorem uniform_is_box_measure {w h : ℝ} (hw : 0 < w) (hh : 0 < h) (x y μ0 μ1 : ℝ) :
    uniform x y μ0 μ1 w h =
      (volume ((Icc (μ0 - w / 2) (μ0 + w / 2) ×ˢ Icc (μ1 - h / 2) (μ1 + h / 2)) ∩ (Iic x ×ˢ Iic y))).toReal
        / (w * h) := by
  rw [Set.prod_inter_prod, Measure.volume_eq_prod, Measure.prod_prod, Icc_inter_Iic', Icc_inter_Iic',
    Real.volume_Icc, Real.volume_Icc, ENNReal.toReal_mul, ENNReal.toReal_ofReal', ENNReal.toReal_ofReal']
  have e0 : μ0 + w / 2 = (μ0 - w / 2) + w := by ring
  have e1 : μ1 + h / 2 = (μ1 - h / 2) + h := by ring
  rw [e0, e1, half_len hw, half_len hh]
  rfl

/-- non-vacuity: the box of the example above has positive sides and positive Lebesgue measure -/
example : (0 : ℝ) < 3 ∧ (0 : ℝ) < 1 / 2 ∧
    volume (Icc (-1 - 3 / 2 : ℝ) (-1 + 3 / 2) ×ˢ Icc (2 - 1 / 2 / 2 : ℝ) (2 + 1 / 2 / 2)) ≠ 0 := by
  refine ⟨by norm_num, by norm_num, ?_⟩
  rw [Measure.volume_eq_prod, Measure.prod_prod, Real.volume_Icc, Real.volume_Icc]
  norm_num

/-- at the reals, with `sqrt := Real.sqrt`: positive variances give positive standard deviations -/
theorem sbvn_mono_real {Φ : ℝ → ℝ} (hΦ : IsCdfLike Φ) {sx sy : ℝ} (hsx : 0 < sx) (hsy : 0 < sy)
    {x x' y y' : ℝ} (hx : x ≤ x') (hy : y ≤ y') (μ0 μ1 : ℝ) :
    sbvn Φ Real.sqrt x y μ0 μ1 sx sy ≤ sbvn Φ Real.sqrt x' y' μ0 μ1 sx sy :=
  sbvn_mono hΦ (Real.sqrt_pos.mpr hsx) (Real.sqrt_pos.mpr hsy) hx hy μ0 μ1

theorem sbvn_rect_nonneg_real {Φ : ℝ → ℝ} (hΦ : IsCdfLike Φ) {sx sy : ℝ} (hsx : 0 < sx) (hsy : 0 < sy)
    {x0 x1 y0 y1 : ℝ} (hx : x0 ≤ x1) (hy : y0 ≤ y1) (μ0 μ1 : ℝ) :
    0 ≤ sbvn Φ Real.sqrt x1 y1 μ0 μ1 sx sy - sbvn Φ Real.sqrt x0 y1 μ0 μ1 sx sy
        - sbvn Φ Real.sqrt x1 y0 μ0 μ1 sx sy + sbvn Φ Real.sqrt x0 y0 μ0 μ1 sx sy :=
  sbvn_rect_nonneg hΦ (Real.sqrt_pos.mpr hsx) (Real.sqrt_pos.mpr hsy) hx hy μ0 μ1

/-- **tails of the product form**: if `Φ → 0` at −∞ and `Φ → 1` at +∞ then the kernel tends to 0 as either
    argument → −∞ (the other fixed) and to 1 as both → +∞ -/
theorem sbvn_tails {Φ : ℝ → ℝ} (h0 : Tendsto Φ atBot (𝓝 0)) (h1 : Tendsto Φ atTop (𝓝 1))
    {sx sy : ℝ} (hsx : 0 < sx) (hsy : 0 < sy) (μ0 μ1 : ℝ) :
    (∀ y, Tendsto (fun x => sbvn Φ Real.sqrt x y μ0 μ1 sx sy) atBot (𝓝 0)) ∧
    (∀ x, Tendsto (fun y => sbvn Φ Real.sqrt x y μ0 μ1 sx sy) atBot (𝓝 0)) ∧
    Tendsto (fun p : ℝ × ℝ => sbvn Φ Real.sqrt p.1 p.2 μ0 μ1 sx sy) (atTop ×ˢ atTop) (𝓝 1) := by
  have px := Real.sqrt_pos.mpr hsx
  have py := Real.sqrt_pos.mpr hsy
  have ax : Tendsto (fun x : ℝ => (x - μ0) / Real.sqrt sx) atBot atBot :=
    (tendsto_atBot_add_const_right _ (-μ0) tendsto_id).atBot_div_const px
  have ay : Tendsto (fun y : ℝ => (y - μ1) / Real.sqrt sy) atBot atBot :=
    (tendsto_atBot_add_const_right _ (-μ1) tendsto_id).atBot_div_const py
  have bx : Tendsto (fun x : ℝ => (x - μ0) / Real.sqrt sx) atTop atTop :=
    (tendsto_atTop_add_const_right _ (-μ0) tendsto_id).atTop_div_const px
  have by' : Tendsto (fun y : ℝ => (y - μ1) / Real.sqrt sy) atTop atTop :=
    (tendsto_atTop_add_const_right _ (-μ1) tendsto_id).atTop_div_const py
  refine ⟨fun y => ?_, fun x => ?_, ?_⟩
  · have := (h0.comp ax).mul_const (Φ ((y - μ1) / Real.sqrt sy))
    simpa [sbvn, Function.comp] using this
  · have := (h0.comp ay).const_mul (Φ ((x - μ0) / Real.sqrt sx))
    simpa [sbvn, Function.comp] using this
  · have t1 : Tendsto (fun p : ℝ × ℝ => Φ ((p.1 - μ0) / Real.sqrt sx)) (atTop ×ˢ atTop) (𝓝 1) :=
      (h1.comp bx).comp tendsto_fst
    have t2 : Tendsto (fun p : ℝ × ℝ => Φ ((p.2 - μ1) / Real.sqrt sy)) (atTop ×ˢ atTop) (𝓝 1) :=
      (h1.comp by').comp tendsto_snd
    simpa [sbvn] using t1.mul t2

/-- Mathlib's standard normal CDF: what the code's `norm_cdf(x) = erfc(-x/√2)/2` is meant to be (Mathlib has
    no `erfc`; that identification is the contract of `scipy.special.erfc`, compared numerically on every run) -/
noncomputable def Φstd : ℝ → ℝ := cdf (gaussianReal 0 1)

/-- the standard normal CDF satisfies the contract used above … -/
theorem stdNormalCdf_isCdfLike : IsCdfLike Φstd :=
  ⟨monotone_cdf _, cdf_nonneg _, cdf_le_one _⟩

/-- … and the tail hypotheses of `sbvn_tails` (non-vacuity of both) -/
theorem stdNormalCdf_tails : Tendsto Φstd atBot (𝓝 0) ∧ Tendsto Φstd atTop (𝓝 1) :=
  ⟨tendsto_cdf_atBot _, tendsto_cdf_atTop _⟩

/-- the CDF of `N(μ, v)` at `x` is the standard normal CDF at `(x − μ)/√v` -/
theorem cdf_gaussianReal_standardise (μ : ℝ) {v : ℝ} (hv : 0 < v) (x : ℝ) :
    cdf (gaussianReal μ v.toNNReal) x = Φstd ((x - μ) / Real.sqrt v) := by
  have hs : 0 < Real.sqrt v := Real.sqrt_pos.mpr hv
  have hmap : gaussianReal μ v.toNNReal = (gaussianReal 0 1).map (fun t => Real.sqrt v * t + μ) := by
    have h1 := gaussianReal_map_const_mul (μ := 0) (v := 1) (Real.sqrt v)
    have hcomp : (fun t => Real.sqrt v * t + μ) = (· + μ) ∘ (Real.sqrt v * ·) := rfl
    rw [hcomp, ← Measure.map_map (by fun_prop) (by fun_prop), h1, gaussianReal_map_add_const]
    congr 1
    · ring
    · ext; simp [Real.sq_sqrt hv.le, hv.le]
  unfold Φstd
  rw [cdf_eq_real, cdf_eq_real, hmap, Measure.real, Measure.real,
    Measure.map_apply (by fun_prop) measurableSet_Iic]
  congr 2
  ext t
  simp only [mem_preimage, mem_Iic]
  rw [le_div_iff₀ hs]
  constructor <;> intro h <;> linarith

/-- **zero covariance: the Gaussian kernel IS the bivariate normal CDF** — with `Φ` the standard normal CDF
    and `sqrt` the real square root, the value at `(x,y)` is the mass that the law of two independent normals
    `N(μ₀,σ₀₀) ⊗ N(μ₁,σ₁₁)` (the bivariate normal with diagonal covariance) gives to the quadrant
    `(-∞,x] × (-∞,y]`, for all means and all positive variances -/
theorem gaussian_zero_cov_is_bivariate_normal_cdf (μ0 μ1 : ℝ) {s00 s11 : ℝ} (h0 : 0 < s00) (h1 : 0 < s11)
    (bvn : ℝ → ℝ → ℝ → ℝ → ℝ → ℝ → ℝ → ℝ) (x y : ℝ) :
    gaussian Φstd Real.sqrt bvn x y μ0 μ1 s00 s11 0 =
      (((gaussianReal μ0 s00.toNNReal).prod (gaussianReal μ1 s11.toNNReal)) (Iic x ×ˢ Iic y)).toReal := by
  rw [gaussian_zero_cov_is_product, Measure.prod_prod, ENNReal.toReal_mul,
    ← cdf_gaussianReal_standardise μ0 h0, ← cdf_gaussianReal_standardise μ1 h1, cdf_eq_real, cdf_eq_real]
  rfl

/-- **the property for the Gaussian kernel, PARTIAL: zero covariance only.**  For all means and all positive
    variances, with `Φ` the standard normal CDF and `sqrt` the real square root, the kernel with `sigma[0][1] = 0`
    (i) *is* the bivariate normal CDF of `N(μ₀,σ₀₀) ⊗ N(μ₁,σ₁₁)`, hence agrees with it to any tolerance, (ii) lies in
    [0,1], (iii) is non-decreasing in each argument, (iv) gives non-negative mass to every rectangle, (v) tends to 0
    and 1 in the tails.  MISSING for the full property (`BvnIsAccurateValidCdf` below): the same for a non-zero
    covariance, i.e. an error bound for the Drezner–Wesolowsky/Genz quadrature in `bvn`; that clause is only tested. -/
theorem gaussian_is_valid_accurate_cdf_partial (μ0 μ1 : ℝ) {s00 s11 : ℝ} (h0 : 0 < s00) (h1 : 0 < s11)
    (bvn : ℝ → ℝ → ℝ → ℝ → ℝ → ℝ → ℝ → ℝ) :
    let F := fun x y => gaussian Φstd Real.sqrt bvn x y μ0 μ1 s00 s11 0
    (∀ x y, F x y =
      (((gaussianReal μ0 s00.toNNReal).prod (gaussianReal μ1 s11.toNNReal)) (Iic x ×ˢ Iic y)).toReal) ∧
    (∀ x y, 0 ≤ F x y ∧ F x y ≤ 1) ∧
    (∀ x x' y y', x ≤ x' → y ≤ y' → F x y ≤ F x' y') ∧
    (∀ x0 x1 y0 y1, x0 ≤ x1 → y0 ≤ y1 → 0 ≤ F x1 y1 - F x0 y1 - F x1 y0 + F x0 y0) ∧
    (∀ y, Tendsto (fun x => F x y) atBot (𝓝 0)) ∧ (∀ x, Tendsto (fun y => F x y) atBot (𝓝 0)) ∧
    Tendsto (fun p : ℝ × ℝ => F p.1 p.2) (atTop ×ˢ atTop) (𝓝 1) := by
  have v := gaussian_zero_cov_valid stdNormalCdf_isCdfLike (Real.sqrt_pos.mpr h0) (Real.sqrt_pos.mpr h1)
    bvn μ0 μ1
  have t := sbvn_tails stdNormalCdf_tails.1 stdNormalCdf_tails.2 h0 h1 μ0 μ1
  have e : ∀ x y, gaussian Φstd Real.sqrt bvn x y μ0 μ1 s00 s11 0 = sbvn Φstd Real.sqrt x y μ0 μ1 s00 s11 := by
    intro x y; simp [gaussian]
  refine ⟨fun x y => gaussian_zero_cov_is_bivariate_normal_cdf μ0 μ1 h0 h1 bvn x y, v.1, v.2.1, v.2.2, ?_, ?_, ?_⟩
  · intro y; simpa only [e] using t.1 y
  · intro x; simpa only [e] using t.2.1 x
  · simpa only [e] using t.2.2

/-- non-vacuity: variances 1e-4 and 1e4 (the extremes of the harness) are admissible -/
example : (0 : ℝ) < 1 / 10000 ∧ (0 : ℝ) < 10000 := by norm_num

end real

/-! ## The pre-fix code (regression witnesses) -/

/-- **what the code before /repo 378a266 (`ind = asr > 100`) dropped**: whenever `-100 < asr ≤ 100` — i.e. at
    every point that matters — the old value of the `|r| ≥ 0.925` branch differs from the present one by exactly
    the leading term `sopmr·exp(asr)·(1 − c(bs−as)(1−d·bs/5)/3 + c·d·as²/5)/(2π)` of Genz's expansion, for every
    `exp sqrt Φ π` and every quadrature rule.  (`bvnHiCore` with `cutAsrOld` is the model of the old code.) -/
theorem old_cutoff_drops_leading_term (exp sqrt Φ : K → K) (pi : K) (rule : GLRule K) (dh dk hk r : K)
    (hnew : (cutAsr : K) < -1.0 * ((dh - dk) * (dh - dk) / ((1.0 - r) * (1.0 + r)) + hk) / 2.0)
    (hold : ¬ (cutAsrOld : K) < -1.0 * ((dh - dk) * (dh - dk) / ((1.0 - r) * (1.0 + r)) + hk) / 2.0) :
    bvnHiCore exp sqrt Φ pi cutAsr cutHk cutAsr1 true rule dh dk hk r
      - bvnHiCore exp sqrt Φ pi cutAsrOld cutHk cutAsr1 true rule dh dk hk r
    = -(sqrt ((1.0 - r) * (1.0 + r)) *
        (exp (-1.0 * ((dh - dk) * (dh - dk) / ((1.0 - r) * (1.0 + r)) + hk) / 2.0) *
          (1.0 - ((4.0 - hk) / 8.0 * ((dh - dk) * (dh - dk) - (1.0 - r) * (1.0 + r))) *
              ((1.0 - (12.0 - hk) / 16.0 * ((dh - dk) * (dh - dk)) / 5.0) / 3.0)
            + (4.0 - hk) / 8.0 * ((12.0 - hk) / 16.0) * ((1.0 - r) * (1.0 + r)) * ((1.0 - r) * (1.0 + r)) / 5.0)))
      / (2.0 * pi) := by
  unfold bvnHiCore
  simp only [if_pos hnew, if_neg hold]
  have e0 : (0.0 : K) = 0 := by norm_num
  have e1 : (1.0 : K) = 1 := by norm_num
  have e2 : (2.0 : K) = 2 := by norm_num
  have e3 : (3.0 : K) = 3 := by norm_num
  have e4 : (4.0 : K) = 4 := by norm_num
  have e5 : (5.0 : K) = 5 := by norm_num
  have e8 : (8.0 : K) = 8 := by norm_num
  have e12 : (12.0 : K) = 12 := by norm_num
  have e16 : (16.0 : K) = 16 := by norm_num
  simp only [e0, e1, e2, e3, e4, e5, e8, e12, e16]
  split_ifs <;> ring

/-- **regression witness for 378a266** (`r = 0.95`, half a standard deviation above the mean in both
    coordinates: `dh = dk = −1/2`): the old and the present code differ there by at least
    `√(39/400)·exp(−1/8)/(2π)` (≈ 0.0439; the error observed on the real pre-fix code at this point was 0.0446),
    for every positive-valued `exp`, `sqrt`, `π`.  That the *old* value is the wrong one is not a theorem about
    the reals available here (it needs the true bivariate normal CDF); it is what the [T] accuracy stream shows
    on the model `bvnOld` and on the reverted tree. -/
theorem old_cutoff_counterexample (exp sqrt Φ : K → K) (pi : K) (rule : GLRule K)
    (hs : 0 < sqrt (39 / 400)) (he : 0 < exp (-1 / 8)) (hp : 0 < pi) :
    sqrt (39 / 400) * exp (-1 / 8) / (2 * pi) ≤
      bvnHiCore exp sqrt Φ pi cutAsrOld cutHk cutAsr1 true rule (-(1 / 2)) (-(1 / 2)) (1 / 4) (19 / 20)
        - bvnHiCore exp sqrt Φ pi cutAsr cutHk cutAsr1 true rule (-(1 / 2)) (-(1 / 2)) (1 / 4) (19 / 20) := by
  have hnew : (cutAsr : K) < -1.0 * ((-(1 / 2) - -(1 / 2)) * (-(1 / 2) - -(1 / 2)) / ((1.0 - 19 / 20) * (1.0 + 19 / 20)) + 1 / 4) / 2.0 := by
    norm_num [cutAsr]
  have hold : ¬ (cutAsrOld : K) < -1.0 * ((-(1 / 2) - -(1 / 2)) * (-(1 / 2) - -(1 / 2)) / ((1.0 - 19 / 20) * (1.0 + 19 / 20)) + 1 / 4) / 2.0 := by
    norm_num [cutAsrOld]
  have h := old_cutoff_drops_leading_term exp sqrt Φ pi rule (-(1 / 2)) (-(1 / 2)) (1 / 4) (19 / 20) hnew hold
  have e : bvnHiCore exp sqrt Φ pi cutAsrOld cutHk cutAsr1 true rule (-(1 / 2)) (-(1 / 2)) (1 / 4) (19 / 20)
        - bvnHiCore exp sqrt Φ pi cutAsr cutHk cutAsr1 true rule (-(1 / 2)) (-(1 / 2)) (1 / 4) (19 / 20)
      = sqrt (39 / 400) * exp (-1 / 8) * (332886461 / 327680000 : K) / (2 * pi) := by
    rw [← neg_sub, h]
    norm_num
    ring
  rw [e]
  have : 0 < sqrt (39 / 400) * exp (-1 / 8) / (2 * pi) := by positivity
  have e2 : sqrt (39 / 400) * exp (-1 / 8) * (332886461 / 327680000 : K) / (2 * pi)
      = (sqrt (39 / 400) * exp (-1 / 8) / (2 * pi)) * (332886461 / 327680000) := by ring
  rw [e2]
  nlinarith

/-- **the repair of /repo 4b6a233 (mask the exponent of `ep1` before `exp`) does not change the function over an
    ordered field**: masked entries are multiplied by `ind1 = 0` either way, unmasked ones have `ind1 = 1`.  The
    defect it removed (`exp` overflows to `inf`, `inf·0 = NaN` in far tails) exists only in IEEE arithmetic, which is
    why it is guarded by the [T] `far_tails` stream and the far-tail correspondence, not by a theorem. -/
theorem far_tail_fix_is_exact_over_the_reals (exp sqrt Φ : K → K) (pi cA cH cA1 : K) (rule : GLRule K)
    (dh dk hk r : K) :
    bvnHiCore exp sqrt Φ pi cA cH cA1 true rule dh dk hk r
      = bvnHiCore exp sqrt Φ pi cA cH cA1 false rule dh dk hk r := by
  have e0 : (0.0 : K) = 0 := by norm_num
  have e1 : (1.0 : K) = 1 := by norm_num
  have key : ∀ (c a E rs sp s : K),
      s * exp (a * (if c < a then (1.0 : K) else 0.0)) *
          (exp (E * (if c < a then (1.0 : K) else 0.0)) / rs * (if c < a then (1.0 : K) else 0.0)
            - sp * (if c < a then (1.0 : K) else 0.0))
        = s * exp (a * (if c < a then (1.0 : K) else 0.0)) *
          (exp E / rs * (if c < a then (1.0 : K) else 0.0) - sp * (if c < a then (1.0 : K) else 0.0)) := by
    intro c a E rs sp s
    split_ifs <;> simp [e0, e1]
  unfold bvnHiCore
  simp only [↓reduceIte, Bool.false_eq_true, key]

/-- the same for the whole `bvn_cdf`: the model of the present code and the model of the code before 4b6a233 agree
    on every input, for every `exp sin asin sqrt Φ π` -/
theorem bvn_eq_bvnOldTail (exp sin asin sqrt Φ : K → K) (pi x y μ0 μ1 sxx syy sxy : K) :
    bvn exp sin asin sqrt Φ pi x y μ0 μ1 sxx syy sxy
      = bvnOldTail exp sin asin sqrt Φ pi x y μ0 μ1 sxx syy sxy := by
  unfold bvn bvnOldTail bvnWith bvnHi
  simp only [far_tail_fix_is_exact_over_the_reals]

/-! ## The clause that is *not* proved

`bvn` is the transcription of Drezner–Wesolowsky / Genz.  The property asks that for positive variances and
`-1 < r < 1` it agrees with the bivariate normal CDF `Φ₂` to 1e-7, lies in [0,1], is monotone and gives
non-negative mass to rectangles.  Stated here for the record; it is a `def … : Prop`, not a theorem —
a machine-checked error bound for these quadratures is out of reach of this development, and the clause is
covered by the [T] streams of `harness/props/c13.py` on the real code. -/

/-- the full-strength statement for the correlated Gaussian kernel at the reals (NOT proved; tested) -/
def BvnIsAccurateValidCdf (exp sin asin sqrt Φ : K → K) (pi : K)
    (Φ₂ : K → K → K → K) (abs : K → K) (tol : K) : Prop :=
  ∀ x y μ0 μ1 sxx syy sxy : K, 0 < sxx → 0 < syy → sxy * sxy < sxx * syy →
    let F := fun x y => bvn exp sin asin sqrt Φ pi x y μ0 μ1 sxx syy sxy
    abs (F x y - Φ₂ ((x - μ0) / sqrt sxx) ((y - μ1) / sqrt syy) (sxy / sqrt (sxx * syy))) ≤ tol ∧
    0 ≤ F x y ∧ F x y ≤ 1 ∧
    (∀ x' y', x ≤ x' → y ≤ y' → F x y ≤ F x' y' ∧ 0 ≤ F x' y' - F x y' - F x' y + F x y)

/-! ## The constants (generated obligations, bundled) -/

open PersimVerif.C13.Consts in
/-- the tables the model (and the driver) uses are the source's tables, each is the positive half of a
    Gauss–Legendre rule (2·lg moment equations, Legendre roots, closed-form weights), the rule sizes are
    3/6/10, and every comparison in the source is Genz's.  All components are generated obligations of
    `Generated/KernelConsts.lean`, re-derived from `/repo` on every run. -/
theorem constants_are_gauss_legendre_and_genz :
    IsGaussLegendre 3 (gl3 (α := Rat)).w (gl3 (α := Rat)).x ∧
    IsGaussLegendre 6 (gl6 (α := Rat)).w (gl6 (α := Rat)).x ∧
    IsGaussLegendre 10 (gl10 (α := Rat)).w (gl10 (α := Rat)).x ∧
    srcGLThresholds = [thrGL3, thrGL6] ∧
    (srcCompares.map fun c => c.2.2.2) = [0, thrBranch, 0, 1, cutAsr, cutHk, cutAsr1, 0, 0, thrGL3, thrGL6] := by
  obtain ⟨a0, b0, c0⟩ := rule0_eq_model
  obtain ⟨a1, b1, c1⟩ := rule1_eq_model
  obtain ⟨a2, b2, c2⟩ := rule2_eq_model
  refine ⟨?_, ?_, ?_, thresholds_eq_model.1, thresholds_eq_model.2⟩
  · rw [b0, c0]; exact rule0_lg ▸ rule0_is_gauss_legendre
  · rw [b1, c1]; exact rule1_lg ▸ rule1_is_gauss_legendre
  · rw [b2, c2]; exact rule2_lg ▸ rule2_is_gauss_legendre

end PersimVerif.C13
