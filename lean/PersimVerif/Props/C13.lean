import PersimVerif.Model.Kernels
import PersimVerif.Generated.KernelConsts
namespace PersimVerif.C13
end PersimVerif.C13
