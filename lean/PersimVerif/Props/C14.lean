import PersimVerif.Model.Heat
import PersimVerif.Lemmas.Sums
import PersimVerif.Lemmas.HeatForm
import PersimVerif.Lemmas.HeatStability
import Mathlib.Tactic.FieldSimp
import PersimVerif.Spec.Matching
import Mathlib.Analysis.SpecialFunctions.Trigonometric.Basic
import Mathlib.Analysis.Complex.Exponential
import Mathlib.Analysis.Real.Sqrt
import Mathlib.Tactic.Ring
import Mathlib.Tactic.Linarith
import Mathlib.Tactic.NormNum

/-!
# C14 — the heat-kernel distance is a real pseudo-metric, stable w.r.t. Wasserstein

All statements are about `PersimVerif.Heat` (the model of `persim/heat.py`) instantiated at `ℝ`.
The algebraic laws below do not use any property of the exponential, so they are stated for an
arbitrary function `e : ℝ → ℝ` in the place of `exp` and an arbitrary constant `c` in the place of
`π` (in particular for `Real.exp`, `Real.pi`: the abbreviations `k`, `d2`, `heatR`).

The code has no guard on `sigma`; the property quantifies over `sigma > 0`, and so do the theorems
(the hypothesis `0 < σ` is not needed by the algebra — it is there because for `σ = 0` the code
divides by zero while `ℝ` totalises `x / 0 = 0`, so nothing is claimed there).

**Proved** (every size, every `σ > 0`):
* algebraic laws, for any `e` in the place of `exp`: `k_symm`, `k_perm_left/right`,
  `k_diag_point_zero_left/right`, `k_ignores_diagonal`, `k_translate_diag`; `dist2_self_perm`, `dist2_symm`,
  `dist2_perm`, `dist2_ignores_diagonal`, `dist2_diag_point`, `dist2_translate`; `heat_nonneg_finite` (the
  radicand handed to `sqrt` is never negative, by construction after the fix) and the same laws for `heat`;
* for the real exponential (`Lemmas/GaussPSD`, `Lemmas/HeatForm`, `Lemmas/HeatStability`: the Gaussian kernel
  is positive semi-definite via its power series; the heat kernel is the quadratic form of the Gaussian at
  the signed point list `Σ_p (δ_p − δ_p̄)`): `kernel_psd` (`dist² ≥ 0` without the clamp), `heat_eq_sqrt_d2`
  (over the reals the clamp is a no-op and the old code computed the same number), `heat_triangle`, and the
  stability theorem `w1_stability_bound` / `w1_stability`: `heat ≤ W1 / (4 σ √π)`.

* `old_heat_counterexample`: the model of the old code evaluated at IEEE double (`decide +kernel`) has a
  negative radicand for a reordered two-point diagram.

Nothing is left unproved for the exact-arithmetic model; floating-point rounding (what produced the
pre-fix NaN) is outside every universally quantified theorem and is covered by the tests of
`harness/props/c14.py`.
-/
namespace PersimVerif.C14
open PersimVerif.Heat PersimVerif.Lemmas

noncomputable section

abbrev Dgm := List (ℝ × ℝ)

/-- translate every point of a diagram along the diagonal by `t` -/
def shift (t : ℝ) (F : Dgm) : Dgm := F.map fun p => (p.1 + t, p.2 + t)

/-- the points of a diagram that are not on the diagonal -/
def offDiag (F : Dgm) : Dgm := F.filter fun p => decide (p.1 ≠ p.2)

/-! ### the summands -/

private lemma sqDist_comm (p q : ℝ × ℝ) : sqDist p q = sqDist q p := by
  unfold sqDist; ring

private lemma sqDist_mirror_comm (p q : ℝ × ℝ) : sqDist p (mirror q) = sqDist q (mirror p) := by
  unfold sqDist mirror; ring

private lemma sqDist_shift (t : ℝ) (p q : ℝ × ℝ) :
    sqDist (p.1 + t, p.2 + t) (q.1 + t, q.2 + t) = sqDist p q := by
  unfold sqDist; ring

private lemma sqDist_mirror_shift (t : ℝ) (p q : ℝ × ℝ) :
    sqDist (p.1 + t, p.2 + t) (mirror (q.1 + t, q.2 + t)) = sqDist p (mirror q) := by
  unfold sqDist mirror; ring

section
variable (e : ℝ → ℝ) (c : ℝ)

private lemma kTerm_symm (σ : ℝ) (p q : ℝ × ℝ) : kTerm e σ p q = kTerm e σ q p := by
  unfold kTerm; rw [sqDist_comm p q, sqDist_mirror_comm p q]

/-- the mirror image of a diagonal point is itself: it contributes nothing on the right … -/
private lemma kTerm_diag_right (σ a : ℝ) (p : ℝ × ℝ) : kTerm e σ p (a, a) = 0 := by
  unfold kTerm mirror; simp

/-- … nor on the left -/
private lemma kTerm_diag_left (σ a : ℝ) (q : ℝ × ℝ) : kTerm e σ (a, a) q = 0 := by
  rw [kTerm_symm]; exact kTerm_diag_right e σ a q

private lemma kTerm_shift (σ t : ℝ) (p q : ℝ × ℝ) :
    kTerm e σ (p.1 + t, p.2 + t) (q.1 + t, q.2 + t) = kTerm e σ p q := by
  unfold kTerm; rw [sqDist_shift, sqDist_mirror_shift]

/-- the accumulator of the double loop is the double sum over all pairs of points -/
theorem kSum_eq_sum (σ : ℝ) (F G : Dgm) :
    kSum e σ F G = (F.map fun p => (G.map fun q => kTerm e σ p q).sum).sum := by
  unfold kSum
  simp only [foldl_add_eq_sum, zero_add]

/-! ### the kernel -/

/-- **k(F,G) = k(G,F)** -/
theorem k_symm (F G : Dgm) (σ : ℝ) (_hσ : 0 < σ) :
    evalHeatKernel e c F G σ = evalHeatKernel e c G F σ := by
  unfold evalHeatKernel
  rw [kSum_eq_sum, kSum_eq_sum, sum_map_sum_comm]
  congr 2
  refine List.map_congr_left fun q _ => ?_
  congr 1
  exact List.map_congr_left fun p _ => kTerm_symm e σ p q

/-- **reordering the first diagram does not change k** -/
theorem k_perm_left {F F' : Dgm} (h : F.Perm F') (G : Dgm) (σ : ℝ) (_hσ : 0 < σ) :
    evalHeatKernel e c F G σ = evalHeatKernel e c F' G σ := by
  unfold evalHeatKernel
  rw [kSum_eq_sum, kSum_eq_sum, (h.map _).sum_eq]

/-- **reordering the second diagram does not change k** -/
theorem k_perm_right (F : Dgm) {G G' : Dgm} (h : G.Perm G') (σ : ℝ) (_hσ : 0 < σ) :
    evalHeatKernel e c F G σ = evalHeatKernel e c F G' σ := by
  unfold evalHeatKernel
  rw [kSum_eq_sum, kSum_eq_sum]
  congr 2
  exact List.map_congr_left fun p _ => (h.map _).sum_eq

/-- **a point `(a,a)` of the first diagram contributes 0** -/
theorem k_diag_point_zero_left (a : ℝ) (F G : Dgm) (σ : ℝ) (_hσ : 0 < σ) :
    evalHeatKernel e c ((a, a) :: F) G σ = evalHeatKernel e c F G σ := by
  unfold evalHeatKernel
  rw [kSum_eq_sum, kSum_eq_sum]
  simp only [List.map_cons, List.sum_cons, kTerm_diag_left, sum_map_zero', zero_add]

/-- **a point `(a,a)` of the second diagram contributes 0** (its mirror image is itself) -/
theorem k_diag_point_zero_right (a : ℝ) (F G : Dgm) (σ : ℝ) (_hσ : 0 < σ) :
    evalHeatKernel e c F ((a, a) :: G) σ = evalHeatKernel e c F G σ := by
  unfold evalHeatKernel
  rw [kSum_eq_sum, kSum_eq_sum]
  simp only [List.map_cons, List.sum_cons, kTerm_diag_right, zero_add]

private lemma sum_filter_offDiag (f : ℝ × ℝ → ℝ) (hf : ∀ a, f (a, a) = 0) (F : Dgm) :
    ((offDiag F).map f).sum = (F.map f).sum := by
  induction F with
  | nil => simp [offDiag]
  | cons p t ih =>
    obtain ⟨x, y⟩ := p
    by_cases hxy : x = y
    · subst hxy
      have : offDiag ((x, x) :: t) = offDiag t := by simp [offDiag]
      rw [this, ih]; simp [hf]
    · have : offDiag ((x, y) :: t) = (x, y) :: offDiag t := by simp [offDiag, hxy]
      rw [this]; simp only [List.map_cons, List.sum_cons, ih]

/-- **k ignores every diagonal point of either diagram, wherever it stands** -/
theorem k_ignores_diagonal (F G : Dgm) (σ : ℝ) (_hσ : 0 < σ) :
    evalHeatKernel e c (offDiag F) (offDiag G) σ = evalHeatKernel e c F G σ := by
  unfold evalHeatKernel
  rw [kSum_eq_sum, kSum_eq_sum]
  congr 1
  rw [sum_filter_offDiag _ (fun a => by simp only [kTerm_diag_left, sum_map_zero']) F]
  congr 1
  refine List.map_congr_left fun p _ => ?_
  exact sum_filter_offDiag _ (fun a => kTerm_diag_right e σ a p) G

/-- **translating both diagrams along the diagonal leaves k unchanged** (any `t`, either sign) -/
theorem k_translate_diag (t : ℝ) (F G : Dgm) (σ : ℝ) (_hσ : 0 < σ) :
    evalHeatKernel e c (shift t F) (shift t G) σ = evalHeatKernel e c F G σ := by
  unfold evalHeatKernel
  rw [kSum_eq_sum, kSum_eq_sum]
  simp only [shift, List.map_map, Function.comp_def, kTerm_shift]

/-! ### the squared distance `k(F,F) + k(G,G) − 2 k(F,G)` -/

/-- **zero between a diagram and any reordering of itself** -/
theorem dist2_self_perm {F F' : Dgm} (h : F.Perm F') (σ : ℝ) (hσ : 0 < σ) :
    dist2 e c F F' σ = 0 := by
  unfold dist2
  rw [← k_perm_left e c h F' σ hσ, ← k_perm_right e c F h σ hσ]
  ring

/-- **symmetry** -/
theorem dist2_symm (F G : Dgm) (σ : ℝ) (hσ : 0 < σ) : dist2 e c F G σ = dist2 e c G F σ := by
  unfold dist2
  rw [k_symm e c F G σ hσ]; ring

/-- **reordering either diagram does not change the squared distance** -/
theorem dist2_perm {F F' G G' : Dgm} (hF : F.Perm F') (hG : G.Perm G') (σ : ℝ) (hσ : 0 < σ) :
    dist2 e c F G σ = dist2 e c F' G' σ := by
  unfold dist2
  rw [k_perm_left e c hF F σ hσ, k_perm_right e c F' hF σ hσ, k_perm_left e c hG G σ hσ,
    k_perm_right e c G' hG σ hσ, k_perm_left e c hF G σ hσ, k_perm_right e c F' hG σ hσ]

/-- **diagonal points are ignored** -/
theorem dist2_ignores_diagonal (F G : Dgm) (σ : ℝ) (hσ : 0 < σ) :
    dist2 e c (offDiag F) (offDiag G) σ = dist2 e c F G σ := by
  unfold dist2
  rw [k_ignores_diagonal e c F F σ hσ, k_ignores_diagonal e c G G σ hσ, k_ignores_diagonal e c F G σ hσ]

/-- one diagonal point added to the first diagram (at the head; any other position by `dist2_perm`) -/
theorem dist2_diag_point (a : ℝ) (F G : Dgm) (σ : ℝ) (hσ : 0 < σ) :
    dist2 e c ((a, a) :: F) G σ = dist2 e c F G σ := by
  unfold dist2
  rw [k_diag_point_zero_left e c a F G σ hσ, k_diag_point_zero_left e c a F ((a, a) :: F) σ hσ,
    k_diag_point_zero_right e c a F F σ hσ]

/-- **translation of both diagrams along the diagonal** -/
theorem dist2_translate (t : ℝ) (F G : Dgm) (σ : ℝ) (hσ : 0 < σ) :
    dist2 e c (shift t F) (shift t G) σ = dist2 e c F G σ := by
  unfold dist2
  rw [k_translate_diag e c t F F σ hσ, k_translate_diag e c t G G σ hσ, k_translate_diag e c t F G σ hσ]

/-! ### the distance itself -/

/-- **after the fix the argument of the square root is never negative** — for every interpretation of
    `exp` and of the arithmetic's result `dist2`, this is by construction (`np.maximum(·, 0)`). -/
theorem heat_radicand_nonneg (F G : Dgm) (σ : ℝ) : 0 ≤ max (dist2 e c F G σ) 0 :=
  le_max_right _ _

/-- **heat is a well-defined non-negative number**: for *any* square-root function that is only
    specified on non-negative arguments (`sqrt x ≥ 0`, `sqrt x * sqrt x = x` for `x ≥ 0` — what an IEEE
    `sqrt` guarantees up to rounding, being NaN exactly on negative arguments), the value is `≥ 0` and is a
    genuine root of the clamped squared distance. -/
theorem heat_nonneg_finite (sqrt : ℝ → ℝ) (hsqrt : ∀ x, 0 ≤ x → 0 ≤ sqrt x ∧ sqrt x * sqrt x = x)
    (F G : Dgm) (σ : ℝ) (_hσ : 0 < σ) :
    0 ≤ heat e sqrt c F G σ ∧
      heat e sqrt c F G σ * heat e sqrt c F G σ = max (dist2 e c F G σ) 0 :=
  hsqrt _ (heat_radicand_nonneg e c F G σ)

/-- the same with `Real.sqrt` -/
theorem heat_real_nonneg (F G : Dgm) (σ : ℝ) (_hσ : 0 < σ) : 0 ≤ heat e Real.sqrt c F G σ :=
  Real.sqrt_nonneg _

/-- where the squared distance is non-negative the clamp changes nothing: the fix only removes the NaN -/
theorem heatOld_eq_heat_of_nonneg (sqrt : ℝ → ℝ) (F G : Dgm) (σ : ℝ) (h : 0 ≤ dist2 e c F G σ) :
    heatOld e sqrt c F G σ = heat e sqrt c F G σ := by
  unfold heatOld heat; rw [max_eq_left h]

/-- **zero between a diagram and any reordering of itself** -/
theorem heat_self_perm {F F' : Dgm} (h : F.Perm F') (σ : ℝ) (hσ : 0 < σ) :
    heat e Real.sqrt c F F' σ = 0 := by
  unfold heat; rw [dist2_self_perm e c h σ hσ]; simp

/-- **symmetry** -/
theorem heat_symm (sqrt : ℝ → ℝ) (F G : Dgm) (σ : ℝ) (hσ : 0 < σ) :
    heat e sqrt c F G σ = heat e sqrt c G F σ := by
  unfold heat; rw [dist2_symm e c F G σ hσ]

/-- **diagonal points are ignored** -/
theorem heat_ignores_diagonal (sqrt : ℝ → ℝ) (F G : Dgm) (σ : ℝ) (hσ : 0 < σ) :
    heat e sqrt c (offDiag F) (offDiag G) σ = heat e sqrt c F G σ := by
  unfold heat; rw [dist2_ignores_diagonal e c F G σ hσ]

/-- **translation of both diagrams along the diagonal** -/
theorem heat_translate (sqrt : ℝ → ℝ) (t : ℝ) (F G : Dgm) (σ : ℝ) (hσ : 0 < σ) :
    heat e sqrt c (shift t F) (shift t G) σ = heat e sqrt c F G σ := by
  unfold heat; rw [dist2_translate e c t F G σ hσ]

end

/-! ### the instance the code computes -/

/-- the multi-scale kernel of Reininghaus et al. as the code computes it -/
abbrev k (F G : Dgm) (σ : ℝ) : ℝ := evalHeatKernel Real.exp Real.pi F G σ
/-- its squared distance -/
abbrev d2 (F G : Dgm) (σ : ℝ) : ℝ := dist2 Real.exp Real.pi F G σ
/-- `heat(F, G, sigma)` -/
abbrev heatR (F G : Dgm) (σ : ℝ) : ℝ := heat Real.exp Real.sqrt Real.pi F G σ

/-- the closed form of the statement: `k(F,G) = 1/(8πσ) Σ_p Σ_q e^{-|p-q|²/8σ} − e^{-|p-q̄|²/8σ}` and
    `heat = sqrt(max(k(F,F) + k(G,G) − 2k(F,G), 0))` -/
theorem heat_eq_closed_form (F G : Dgm) (σ : ℝ) :
    heatR F G σ = Real.sqrt (max (k F F σ + k G G σ - 2 * k F G σ) 0) ∧
    k F G σ = (F.map fun p => (G.map fun q =>
        Real.exp (-((p.1 - q.1) * (p.1 - q.1) + (p.2 - q.2) * (p.2 - q.2)) / (8 * σ))
        - Real.exp (-((p.1 - q.2) * (p.1 - q.2) + (p.2 - q.1) * (p.2 - q.1)) / (8 * σ))).sum).sum
      / (8 * Real.pi * σ) := by
  refine ⟨rfl, ?_⟩
  unfold k evalHeatKernel
  rw [kSum_eq_sum]
  rfl

/-! ### positive semi-definiteness and the triangle inequality (via the Gaussian kernel, `Lemmas/GaussPSD`,
    `Lemmas/HeatForm`) -/

open PersimVerif.Lemmas.HeatForm in
/-- the squared distance is the quadratic form of the Gaussian kernel at the signed point list
    `Σ_{p∈F} (δ_p − δ_p̄) − Σ_{q∈G} (δ_q − δ_q̄)`, divided by `16πσ` -/
theorem d2_eq_form (F G : Dgm) (σ : ℝ) (hσ : 0 < σ) :
    d2 F G σ = Q σ (diff F G) (diff F G) / (16 * Real.pi * σ) := by
  have hpi := Real.pi_pos
  rw [Q_diff_diff]
  unfold d2 dist2 evalHeatKernel
  field_simp
  ring

open PersimVerif.Lemmas.HeatForm in
/-- **positive semi-definiteness**: the squared distance is non-negative even without the clamp -/
theorem kernel_psd (F G : Dgm) (σ : ℝ) (hσ : 0 < σ) : 0 ≤ d2 F G σ := by
  rw [d2_eq_form F G σ hσ]
  exact div_nonneg (Q_self_nonneg σ hσ _) (by have := Real.pi_pos; positivity)

/-- over the reals the clamp of the fix is a no-op: `heat = sqrt(k(F,F) + k(G,G) − 2k(F,G))` exactly, and
    the old code computed the same number (its NaN was a rounding effect only) -/
theorem heat_eq_sqrt_d2 (F G : Dgm) (σ : ℝ) (hσ : 0 < σ) :
    heatR F G σ = Real.sqrt (d2 F G σ) ∧
    heatOld Real.exp Real.sqrt Real.pi F G σ = heatR F G σ := by
  have h := kernel_psd F G σ hσ
  exact ⟨by unfold heatR heat; rw [max_eq_left h], heatOld_eq_heat_of_nonneg _ _ _ F G σ h⟩

open PersimVerif.Lemmas.HeatForm in
/-- the distance is the semi-norm of the form, rescaled -/
theorem heat_eq_norm (F G : Dgm) (σ : ℝ) (hσ : 0 < σ) :
    heatR F G σ = N σ (diff F G) / Real.sqrt (16 * Real.pi * σ) := by
  rw [(heat_eq_sqrt_d2 F G σ hσ).1, d2_eq_form F G σ hσ, Real.sqrt_div (Q_self_nonneg σ hσ _)]
  rfl

open PersimVerif.Lemmas.HeatForm in
/-- **triangle inequality** -/
theorem heat_triangle (F G H : Dgm) (σ : ℝ) (hσ : 0 < σ) :
    heatR F H σ ≤ heatR F G σ + heatR G H σ := by
  rw [heat_eq_norm F H σ hσ, heat_eq_norm F G σ hσ, heat_eq_norm G H σ hσ, ← add_div]
  have hpos : 0 < Real.sqrt (16 * Real.pi * σ) :=
    Real.sqrt_pos.mpr (by have := Real.pi_pos; positivity)
  exact div_le_div_of_nonneg_right (N_diff_triangle σ hσ F G H) hpos.le

/-- Euclidean distance of two points, and of a point to the diagonal -/
def euclid (p q : ℝ × ℝ) : ℝ := Real.sqrt ((p.1 - q.1) ^ 2 + (p.2 - q.2) ^ 2)
def toDiag (p : ℝ × ℝ) : ℝ := |p.2 - p.1| / Real.sqrt 2

open PersimVerif.Lemmas.HeatForm in
/-- **stability w.r.t. the 1-Wasserstein distance**: the distance never exceeds the cost of *any* partial
    matching between the two diagrams (Euclidean distance between matched points, `|d − b|/√2` for points
    sent to the diagonal) divided by `4 σ √π` — hence never exceeds `W1 / (4 σ √π)`, `W1` being the least
    such cost (`Spec.IsMinSum`, see `w1_stability`). -/
theorem w1_stability_bound (F G : Dgm) (σ : ℝ) (hσ : 0 < σ)
    (m : Spec.PM (Fin F.length) (Fin G.length)) :
    heatR F G σ ≤
      m.sumCost (fun i j => euclid (F.get i) (G.get j)) (fun i => toDiag (F.get i))
        (fun j => toDiag (G.get j)) / (4 * σ * Real.sqrt Real.pi) := by
  have h := N_diff_le_matching (F := F) (G := G) σ hσ m
  have hs : 0 < Real.sqrt σ := Real.sqrt_pos.mpr hσ
  have hp : 0 < Real.sqrt Real.pi := Real.sqrt_pos.mpr Real.pi_pos
  have e16 : Real.sqrt (16 * Real.pi * σ) = 4 * Real.sqrt Real.pi * Real.sqrt σ := by
    rw [Real.sqrt_mul (by positivity), Real.sqrt_mul (by norm_num)]
    have : Real.sqrt 16 = 4 := by
      rw [show (16 : ℝ) = 4 * 4 by norm_num]; exact Real.sqrt_mul_self (by norm_num)
    rw [this]
  have hσσ : Real.sqrt σ * Real.sqrt σ = σ := Real.mul_self_sqrt hσ.le
  rw [heat_eq_norm F G σ hσ, e16]
  have hden : (4 : ℝ) * σ * Real.sqrt Real.pi = Real.sqrt σ * (4 * Real.sqrt Real.pi * Real.sqrt σ) := by
    calc (4 : ℝ) * σ * Real.sqrt Real.pi = 4 * (Real.sqrt σ * Real.sqrt σ) * Real.sqrt Real.pi := by rw [hσσ]
      _ = Real.sqrt σ * (4 * Real.sqrt Real.pi * Real.sqrt σ) := by ring
  rw [hden, ← div_div _ (Real.sqrt σ) (4 * Real.sqrt Real.pi * Real.sqrt σ)]
  exact div_le_div_of_nonneg_right h (by positivity)

/-- in terms of the Wasserstein distance itself: if `w` is the minimum cost over all partial matchings,
    then `heat ≤ w / (4 σ √π)` -/
theorem w1_stability (F G : Dgm) (σ : ℝ) (hσ : 0 < σ) (w : ℝ)
    (hw : Spec.IsMinSum (M := Fin F.length) (N := Fin G.length)
      (fun i j => euclid (F.get i) (G.get j)) (fun i => toDiag (F.get i))
      (fun j => toDiag (G.get j)) w) :
    heatR F G σ ≤ w / (4 * σ * Real.sqrt Real.pi) := by
  obtain ⟨m, hm⟩ := hw.attained
  rw [← hm]
  exact w1_stability_bound F G σ hσ m

/-! ### non-vacuity: the hypotheses are met by concrete non-trivial inputs, and the statements are not
    trivial identities -/

/-- `σ = 0.4` (the default) satisfies the guard; a reordering of a 3-point diagram -/
example : heatR [(0, 1), (2, 5), (1, 3)] [(1, 3), (0, 1), (2, 5)] 0.4 = 0 :=
  heat_self_perm _ _ (List.perm_append_comm (l₁ := [(0, 1), (2, 5)]) (l₂ := [(1, 3)])) _ (by norm_num)

example : d2 [(0, 1), (2, 2), (1, 3)] [(7, 7), (0, 2)] 0.4 = d2 [(0, 1), (1, 3)] [(0, 2)] 0.4 := by
  have := dist2_ignores_diagonal Real.exp Real.pi [(0, 1), (2, 2), (1, 3)] [(7, 7), (0, 2)] 0.4 (by norm_num)
  simpa [offDiag] using this.symm

example : d2 [(-5, -4), (-3, 0)] [(-5, -3)] 1 = d2 [(0, 1), (2, 5)] [(0, 2)] 1 := by
  have := dist2_translate Real.exp Real.pi (-5) [(0, 1), (2, 5)] [(0, 2)] 1 (by norm_num)
  simp only [shift, List.map_cons, List.map_nil] at this
  norm_num at this
  exact this

/-- the kernel is not identically zero: `k({(0,1)},{(0,1)}) = (1 − e^{-1/4})/(8π) > 0` for `σ = 1` -/
example : 0 < k [(0, 1)] [(0, 1)] 1 := by
  unfold k evalHeatKernel
  rw [kSum_eq_sum]
  simp only [List.map_cons, List.map_nil, List.sum_cons, List.sum_nil, kTerm, sqDist, mirror]
  have h : Real.exp (-((0 - 1) * (0 - 1) + (1 - 0) * (1 - 0)) / (8 * 1)) < 1 := by
    rw [Real.exp_lt_one_iff]; norm_num
  have hpi := Real.pi_pos
  apply div_pos
  · norm_num at h ⊢
  · positivity

/-- the stability bound instantiated: a two-point diagram against a one-point diagram, `σ = 0.4`, the empty matching -/
example : heatR [(0, 1), (2, 5)] [(0, 2)] 0.4 ≤
    (Spec.PM.empty : Spec.PM (Fin [((0 : ℝ), (1 : ℝ)), (2, 5)].length) (Fin [((0 : ℝ), (2 : ℝ))].length)).sumCost
      (fun i j => euclid ([((0 : ℝ), (1 : ℝ)), (2, 5)].get i) ([((0 : ℝ), (2 : ℝ))].get j))
      (fun i => toDiag ([((0 : ℝ), (1 : ℝ)), (2, 5)].get i)) (fun j => toDiag ([((0 : ℝ), (2 : ℝ))].get j))
      / (4 * 0.4 * Real.sqrt Real.pi) :=
  w1_stability_bound _ _ _ (by norm_num) _

/-- an admissible `sqrt` for `heat_nonneg_finite` exists: `Real.sqrt` -/
example : ∀ x : ℝ, 0 ≤ x → 0 ≤ Real.sqrt x ∧ Real.sqrt x * Real.sqrt x = x :=
  fun x hx => ⟨Real.sqrt_nonneg x, Real.mul_self_sqrt hx⟩

end

/-! ### the old code (before commit 2acc822): a regression witness at IEEE double

Over the reals the old code is equal to the new one (`heat_eq_sqrt_d2`): its failure was a rounding effect.
The witness below is therefore about the *same model* instantiated at `Float`, whose `+ − × ÷` the Lean
kernel evaluates bit-exactly.  `Float.exp` is opaque to the kernel, so `exp` is replaced by its Taylor
polynomial of degree 8 in Horner form (within 2e-5 of `exp` on the arguments that occur) — the effect
does not depend on how `exp` is computed: the three kernel values of a diagram and a reordering of itself
are the same sum in three different orders, and `k(F,F) + k(F',F') − 2 k(F,F')` comes out at `−5.6e-17`,
on which `sqrt` is NaN.  -/

/-- Taylor polynomial of `exp` of degree 8, Horner form, in IEEE double arithmetic -/
def expT (x : Float) : Float :=
  [8, 7, 6, 5, 4, 3, 2, 1].foldl (fun acc (n : Float) => 1 + x / n * acc) 1

/-- **the old radicand is negative in IEEE double arithmetic** for the two-point diagram
    `[(0.1,1.8),(0.1,1.5)]` and its reordering, `σ = 0.5` (so `heatOld` takes the square root of a negative
    number); with the clamp of the fix the radicand is not negative -/
theorem old_heat_counterexample :
    dist2 expT 3.141592653589793 [(0.1, 1.8), (0.1, 1.5)] [(0.1, 1.5), (0.1, 1.8)] (0.5 : Float) < 0 ∧
    ¬ (max (dist2 expT 3.141592653589793 [(0.1, 1.8), (0.1, 1.5)] [(0.1, 1.5), (0.1, 1.8)] (0.5 : Float)) 0 < 0) := by
  decide +kernel

end PersimVerif.C14
