import PersimVerif.Model.Heat
namespace PersimVerif.C14
end PersimVerif.C14
