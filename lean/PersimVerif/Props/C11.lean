import PersimVerif.Lemmas.Image
import PersimVerif.Lemmas.ImageKernels
import PersimVerif.Props.C13
import Mathlib.Tactic.NormNum

/-!
# C11 — persistence images are additive, order-free and call-style independent

Statements about `PersimVerif.Image` (the model of `_transform`, `_ensure_iterable` and
`PersistenceImager.transform`) over an arbitrary (ordered) field `R`.  The kernel is an arbitrary
elementwise function `F`; where a clause needs a CDF fact (rectangle masses non-negative, mass of the
whole imaged rectangle at most one) it is an explicit hypothesis (`hmass` of `nonneg`, the second
hypothesis of `total_le_weight`).  For the built-in kernels that C13 proves to be CDFs those hypotheses
are DISCHARGED below — `nonneg_uniform`, `total_le_weight_uniform` (uniform box, via
`C13.uniform_rect_nonneg` / `C13.uniform_is_product_clamp`) and `nonneg_zero_cov`,
`total_le_weight_zero_cov` (Gaussian with zero covariance on either code path, for every monotone
`Φ` into [0,1], via `C13.sbvn_rect_nonneg` / `C13.sbvn_rect_eq`; `Lemmas/ImageKernels.lean` identifies the
kernels of the two models).  For the CORRELATED Gaussian (`bvn_cdf`, C13's unproved part) and for user
kernels they remain hypotheses: for those the two clauses are covered by the harness's `nonneg` /
`total_le_weight` streams only.

`T sk dgm` below abbreviates `_transform(dgm, skew=sk, resolution, weight, weight_params, kernel,
kernel_params, _bpnts, _ppnts)` for one fixed imager configuration.

Not expressible here: *which worker* computes an image.  `transform` with `n_jobs` is modelled as the
ordered map that `joblib.Parallel` promises (`n_jobs_irrelevant` is that contract, not a fact about the
runtime); the scheduling quantifier is covered by the harness's bit-for-bit `n_jobs` stream only.
-/
namespace PersimVerif.C11
open PersimVerif.Image PersimVerif.KernelLemmas
set_option linter.unusedSectionVars false

section field
variable {R : Type} [Field R] [BEq R]
variable (sqrt Φ : R → R) (w : Pt R → R) (kc : KernelChoice R) (F : Pt R → R → R → R)
variable (rx ry : Nat) (bs ps : List R)

/-- `_transform` for one fixed configuration -/
abbrev T (sk : Bool) (dgm : List (Pt R)) : Except Err (Mat R) :=
  transformOne sqrt Φ w kc (vectorize F) rx ry bs ps sk dgm

/-- both sides reject a mesh that is not `resolution + 1` long, so statements of the form
    `T … = T …` hold for every mesh -/
private theorem T_eq_of_imageSum_eq (sk sk' : Bool) (A B : List (Pt R))
    (h : imageSum (effKernel sqrt Φ kc F) bs ps (withWeights w (toBP sk A))
       = imageSum (effKernel sqrt Φ kc F) bs ps (withWeights w (toBP sk' B))) :
    T sqrt Φ w kc F rx ry bs ps sk A = T sqrt Φ w kc F rx ry bs ps sk' B := by
  by_cases hm : meshOk rx ry bs ps
  · simp only [T, transformOne_closed sqrt Φ w kc F hm, h]
  · simp only [T, transformOne_shape sqrt Φ w kc _ hm]

private theorem toBP_append (sk : Bool) (A B : List (Pt R)) :
    toBP sk (A ++ B) = toBP sk A ++ toBP sk B := by
  cases sk <;> simp [toBP]

private theorem withWeights_append (A B : List (Pt R)) :
    withWeights w (A ++ B) = withWeights w A ++ withWeights w B := by
  simp [withWeights]

/-- entrywise sum of two images, by pixel -/
theorem pixel_matZip_add (A B : Mat R) (i j : Nat) (x y : R)
    (hA : pixel? A i j = some x) (hB : pixel? B i j = some y) :
    pixel? (matZip (· + ·) A B) i j = some (x + y) := by
  simp only [pixel?, Option.bind_eq_some_iff] at hA hB ⊢
  obtain ⟨ra, hra, hxa⟩ := hA
  obtain ⟨rb, hrb, hxb⟩ := hB
  refine ⟨List.zipWith (· + ·) ra rb, ?_, ?_⟩
  · simp [matZip, List.getElem?_zipWith, hra, hrb]
  · simp [List.getElem?_zipWith, hxa, hxb]

/-- **the image of a union is the sum of the images**, pixel by pixel (diagrams of any size) -/
theorem image_append (hm : meshOk rx ry bs ps) (sk : Bool) (A B : List (Pt R)) :
    ∃ iA iB, T sqrt Φ w kc F rx ry bs ps sk A = .ok iA ∧ T sqrt Φ w kc F rx ry bs ps sk B = .ok iB ∧
      T sqrt Φ w kc F rx ry bs ps sk (A ++ B) = .ok (matZip (· + ·) iA iB) := by
  refine ⟨_, _, transformOne_closed sqrt Φ w kc F hm sk A, transformOne_closed sqrt Φ w kc F hm sk B, ?_⟩
  simp only [T, transformOne_closed sqrt Φ w kc F hm, toBP_append, withWeights_append, imageSum_append]

/-- **the order of the points is irrelevant** -/
theorem image_perm (sk : Bool) {A B : List (Pt R)} (h : A.Perm B) :
    T sqrt Φ w kc F rx ry bs ps sk A = T sqrt Φ w kc F rx ry bs ps sk B := by
  apply T_eq_of_imageSum_eq
  apply imageSum_perm
  have : (toBP sk A).Perm (toBP sk B) := by
    cases sk
    · simpa [toBP] using h
    · simpa [toBP] using h.map skew
  exact this.map _

/-- the point as the weight function sees it -/
def bpOf (sk : Bool) (p : Pt R) : Pt R := if sk then skew p else p

/-- **a point of zero weight contributes nothing**, wherever it stands in the diagram -/
theorem zero_weight_drops (sk : Bool) (A B : List (Pt R)) (p : Pt R) (hp : w (bpOf sk p) = 0) :
    T sqrt Φ w kc F rx ry bs ps sk (A ++ p :: B) = T sqrt Φ w kc F rx ry bs ps sk (A ++ B) := by
  apply T_eq_of_imageSum_eq
  have e : withWeights w (toBP sk (A ++ p :: B))
      = withWeights w (toBP sk A) ++ (bpOf sk p, 0) :: withWeights w (toBP sk B) := by
    cases sk <;> simp [toBP, withWeights, bpOf] at hp ⊢ <;> exact hp
  rw [e, imageSum_drop_zero, toBP_append, withWeights_append]

/-- all zero-weight points can be removed at once -/
theorem zero_weight_filter [DecidableEq R] (sk : Bool) (dgm : List (Pt R)) :
    T sqrt Φ w kc F rx ry bs ps sk dgm
      = T sqrt Φ w kc F rx ry bs ps sk (dgm.filter fun p => decide (w (bpOf sk p) ≠ 0)) := by
  induction dgm with
  | nil => rfl
  | cons p t ih =>
    by_cases hp : w (bpOf sk p) = 0
    · have h1 := zero_weight_drops sqrt Φ w kc F rx ry bs ps sk [] t p hp
      simp only [List.nil_append] at h1
      rw [h1, ih, List.filter_cons_of_neg (by simpa using hp)]
    · rw [List.filter_cons_of_pos (by simpa using hp)]
      have a1 := image_append_eq sqrt Φ w kc F rx ry bs ps sk [p] t
      have a2 := image_append_eq sqrt Φ w kc F rx ry bs ps sk [p]
        (t.filter fun p => decide (w (bpOf sk p) ≠ 0))
      simp only [List.singleton_append] at a1 a2
      rw [a1, a2, ih]
where
  /-- additivity in a form that also covers rejected meshes -/
  image_append_eq (sqrt Φ : R → R) (w : Pt R → R) (kc : KernelChoice R) (F : Pt R → R → R → R)
      (rx ry : Nat) (bs ps : List R) (sk : Bool) (A B : List (Pt R)) :
      T sqrt Φ w kc F rx ry bs ps sk (A ++ B)
        = (do let a ← T sqrt Φ w kc F rx ry bs ps sk A
              let b ← T sqrt Φ w kc F rx ry bs ps sk B
              pure (matZip (· + ·) a b)) := by
    by_cases hm : meshOk rx ry bs ps
    · obtain ⟨iA, iB, hA, hB, hAB⟩ := image_append sqrt Φ w kc F rx ry bs ps hm sk A B
      rw [hAB, hA, hB]; rfl
    · simp only [T, transformOne_shape sqrt Φ w kc _ hm]; rfl

/-- **the empty diagram gives the all-zero image of the configured resolution** -/
theorem empty_is_zero (hm : meshOk rx ry bs ps) (sk : Bool) :
    T sqrt Φ w kc F rx ry bs ps sk [] = .ok (zeros rx ry) ∧
      (zeros rx ry : Mat R).length = rx ∧ (∀ row ∈ (zeros rx ry : Mat R), row.length = ry) ∧
      ∀ row ∈ (zeros rx ry : Mat R), ∀ x ∈ row, x = 0 := by
  refine ⟨?_, by simp [zeros], ?_, ?_⟩
  · have : toBP sk ([] : List (Pt R)) = [] := by cases sk <;> rfl
    simp only [T, transformOne_closed sqrt Φ w kc F hm, this, withWeights, List.map_nil]
    rw [imageSum_nil _ hm]
  · intro row hrow
    simp only [zeros, List.mem_replicate] at hrow
    rw [hrow.2]; simp
  · intro row hrow x hx
    simp only [zeros, List.mem_replicate] at hrow
    rw [hrow.2] at hx
    exact (List.mem_replicate.mp hx).2

/-- **birth–death input with `skew=True` equals pre-converted birth–persistence input with `skew=False`**
    (for every kernel, elementwise or not, and every mesh) -/
theorem skew_consistency (kvec : Pt R → List R → List R → List R) (dgm : List (Pt R)) :
    transformOne sqrt Φ w kc kvec rx ry bs ps true dgm
      = transformOne sqrt Φ w kc kvec rx ry bs ps false (dgm.map fun p => (p.1, p.2 - p.1)) := rfl

end field

/-! ### one diagram or a collection -/

section callstyle
variable {α : Type} [Zero α]
variable (one : List (Pt α) → Except Err (Mat α)) (rx ry : Nat)

/-- `_ensure_iterable` on a single (n,2) diagram: singular unless it is empty (the `IndexError` case) -/
theorem ensureIterable_dgm (d : List (Pt α)) :
    ensureIterable (.dgm d) = if d = [] then ([], false) else ([d], true) := by
  cases d <;> rfl

/-- `_ensure_iterable` on a collection: never singular — whether its first diagram has a row
    (`pers_dgms[0][0]` is iterable) or is empty, or the collection is empty (`IndexError`) -/
theorem ensureIterable_coll (ds : List (List (Pt α))) : ensureIterable (.coll ds) = (ds, false) := by
  match ds with
  | [] => rfl
  | [] :: _ => rfl
  | (_ :: _) :: _ => rfl

/-- the early return: an empty diagram *or* an empty collection gives one all-zero image of shape `resolution` -/
theorem transform_empty (nj : Option Nat) :
    transform one rx ry nj (.dgm []) = .ok (.img (zeros rx ry)) ∧
    transform one rx ry nj (.coll []) = .ok (.img (zeros rx ry)) := ⟨rfl, rfl⟩

/-- a non-empty diagram passed alone: the image of that diagram, not wrapped (never an `IndexError`) -/
theorem transform_dgm (nj : Option Nat) (d : List (Pt α)) (hd : d ≠ []) :
    transform one rx ry nj (.dgm d) = (one d).map Output.img := by
  match d, hd with
  | p :: t, _ =>
    simp only [transform, Input.len, List.length_cons, Nat.add_one_ne_zero, if_false,
      ensureIterable_dgm, List.cons_ne_nil]
    cases nj <;> cases h : one (p :: t) <;> simp [List.mapM_cons, h, Except.map, bind, Except.bind, pure, Except.pure]

/-- a non-empty collection: the ordered list of the images, one per diagram (first diagram empty or not) -/
theorem transform_coll (nj : Option Nat) (ds : List (List (Pt α))) (hd : ds ≠ []) :
    transform one rx ry nj (.coll ds) = (ds.mapM one).map Output.imgs := by
  have hl : (Input.coll ds).len ≠ 0 := by
    simpa [Input.len] using hd
  simp only [transform, hl, if_false, ensureIterable_coll]
  cases nj <;> cases h : ds.mapM one <;> simp [Except.map]

/-- **alone or inside a collection: the same image.**  If `_transform` of the empty diagram is the zero image
    (which `empty_is_zero` proves for every well-formed configuration), then for every non-empty collection
    the call succeeds iff it succeeds on each member, the images come back in order, and the `k`-th one is
    exactly what passing the `k`-th diagram alone returns — including empty members (early return) and a
    collection whose first diagram is empty (the `IndexError` branch of `_ensure_iterable`). -/
theorem single_vs_collection (hone : one [] = .ok (zeros rx ry)) (nj nj' : Option Nat)
    (ds : List (List (Pt α))) (hd : ds ≠ []) (ms : List (Mat α))
    (h : transform one rx ry nj (.coll ds) = .ok (.imgs ms)) :
    ms.length = ds.length ∧
    ∀ (k : Nat) (d : List (Pt α)), ds[k]? = some d →
      ∃ m, ms[k]? = some m ∧ transform one rx ry nj' (.dgm d) = .ok (.img m) := by
  rw [transform_coll one rx ry nj ds hd] at h
  have hms : ds.mapM one = .ok ms := by
    cases h' : ds.mapM one with
    | error e => rw [h'] at h; cases h
    | ok ms' => rw [h'] at h; simp only [Except.map] at h; injection h with h; injection h with h; rw [h]
  have hf := (mapM_ok_iff one ds ms).mp hms
  refine ⟨hf.length_eq.symm, ?_⟩
  intro k d hk
  obtain ⟨m, hm, hdm⟩ : ∃ m, ms[k]? = some m ∧ one d = .ok m := by
    clear h hms hd
    induction hf generalizing k with
    | nil => simp at hk
    | cons h1 _ ih =>
      cases k with
      | zero => simp only [List.getElem?_cons_zero, Option.some.injEq] at hk; subst hk; exact ⟨_, rfl, h1⟩
      | succ k => simp only [List.getElem?_cons_succ] at hk ⊢; exact ih k hk
  refine ⟨m, hm, ?_⟩
  by_cases hde : d = []
  · subst hde
    rw [hone] at hdm
    injection hdm with hdm
    rw [← hdm]; rfl
  · rw [transform_dgm one rx ry nj' d hde, hdm]; rfl

/-- conversely the collection call succeeds whenever `_transform` succeeds on every member -/
theorem collection_of_singles (f : List (Pt α) → Mat α) (hone : ∀ d, one d = .ok (f d))
    (nj : Option Nat) (ds : List (List (Pt α))) (hd : ds ≠ []) :
    transform one rx ry nj (.coll ds) = .ok (.imgs (ds.map f)) := by
  rw [transform_coll one rx ry nj ds hd, mapM_all_ok one f hone]; rfl

/-- `n_jobs`: by `joblib.Parallel`'s contract (an ordered map over the same arguments) the parallel branch
    returns what the serial branch returns.  This is the modelled contract, not a theorem about workers. -/
theorem n_jobs_irrelevant (nj : Option Nat) (x : Input α) :
    transform one rx ry nj x = transform one rx ry none x := by
  cases nj <;> rfl

end callstyle

/-! ### sign and total mass -/

section order
variable {R : Type} [Field R] [LinearOrder R] [IsStrictOrderedRing R] [BEq R]
variable (sqrt Φ : R → R) (w : Pt R → R) (kc : KernelChoice R) (F : Pt R → R → R → R)
variable (rx ry : Nat) (bs ps : List R)

/-- **non-negative weights and non-negative rectangle masses give non-negative pixels** -/
theorem nonneg (hm : meshOk rx ry bs ps) (sk : Bool) (dgm : List (Pt R))
    (hw : ∀ p ∈ toBP sk dgm, 0 ≤ w p)
    (hmass : ∀ p ∈ toBP sk dgm, ∀ q ∈ pairs bs, ∀ r ∈ pairs ps, 0 ≤ rect (effKernel sqrt Φ kc F p) q r) :
    ∃ img, T sqrt Φ w kc F rx ry bs ps sk dgm = .ok img ∧ ∀ row ∈ img, ∀ x ∈ row, 0 ≤ x := by
  refine ⟨_, transformOne_closed sqrt Φ w kc F hm sk dgm, ?_⟩
  apply imageSum_nonneg
  · intro pw hpw
    obtain ⟨p, hp, rfl⟩ := List.mem_map.mp hpw
    exact hw p hp
  · intro pw hpw
    obtain ⟨p, hp, rfl⟩ := List.mem_map.mp hpw
    exact hmass p hp

/-- **the pixel rectangles telescope**: the sum of all pixels is `Σ_k w_k ·` (corner combination of the kernel on
    the WHOLE imaged rectangle `(b_first, b_last] × (p_first, p_last]`) — and therefore at most the total
    weight when the weights are non-negative and each kernel gives that rectangle mass at most one. -/
theorem total_le_weight (hm : meshOk rx ry bs ps) (sk : Bool) (dgm : List (Pt R))
    (b0 b1 p0 p1 : R) (hb0 : bs.head? = some b0) (hb1 : bs.getLast? = some b1)
    (hp0 : ps.head? = some p0) (hp1 : ps.getLast? = some p1) :
    ∃ img, T sqrt Φ w kc F rx ry bs ps sk dgm = .ok img ∧
      matTotal img = ((toBP sk dgm).map fun p => w p * rect (effKernel sqrt Φ kc F p) (b0, b1) (p0, p1)).sum ∧
      ((∀ p ∈ toBP sk dgm, 0 ≤ w p) →
       (∀ p ∈ toBP sk dgm, rect (effKernel sqrt Φ kc F p) (b0, b1) (p0, p1) ≤ 1) →
        matTotal img ≤ ((toBP sk dgm).map w).sum) := by
  refine ⟨_, transformOne_closed sqrt Φ w kc F hm sk dgm, ?_, ?_⟩
  · rw [matTotal_imageSum]
    simp only [withWeights, List.map_map, Function.comp_def,
      total_rect_telescope _ bs ps b0 b1 p0 p1 hb0 hb1 hp0 hp1]
  · intro hw hle
    rw [matTotal_imageSum]
    simp only [withWeights, List.map_map, Function.comp_def,
      total_rect_telescope _ bs ps b0 b1 p0 p1 hb0 hb1 hp0 hp1]
    exact sum_mul_le_sum _ w _ hw hle

end order

/-! ### the built-in kernels: the CDF hypotheses discharged by C13 -/

section builtin
variable {R : Type} [Field R] [LinearOrder R] [IsStrictOrderedRing R] [BEq R]
variable (sqrt Φ : R → R) (w : Pt R → R) (kc : KernelChoice R) (F : Pt R → R → R → R)
variable (rx ry : Nat) (bs ps : List R)

/-- the kernel `_transform` effectively uses is a zero-covariance Gaussian with positive standard deviations: the
    isotropic fast path (`sigma` a variance `v`, `sqrt v > 0`), or the general path with the built-in `gaussian`
    and `sigma = [[vx, 0], [·, vy]]` (`images_kernels.sbvn_cdf`) -/
def ZeroCovKernel (vx vy : R) : Prop :=
  (dispatch kc = .fast vx ∧ vy = vx ∨ dispatch kc = .general ∧ F = prodKernel sqrt Φ vx vy) ∧
    0 < sqrt vx ∧ 0 < sqrt vy

theorem effKernel_of_zeroCov {vx vy : R} (hk : ZeroCovKernel sqrt Φ kc F vx vy) :
    effKernel sqrt Φ kc F = prodKernel sqrt Φ vx vy := by
  rcases hk.1 with ⟨h, rfl⟩ | ⟨h, rfl⟩ <;> simp only [effKernel, h]

private theorem unit_diff_mul {a0 a1 c0 c1 : R} (ha0 : 0 ≤ a0) (ha1 : a1 ≤ 1)
    (hc0 : 0 ≤ c0) (hc : c0 ≤ c1) (hc1 : c1 ≤ 1) : (a1 - a0) * (c1 - c0) ≤ 1 :=
  mul_le_one₀ (by linarith) (by linarith) (by linarith)

/-- the uniform kernel gives every rectangle `(x0,x1] × (y0,y1]` with `y0 ≤ y1` mass at most one -/
theorem uniform_rect_le_one {W H : R} (hW : 0 < W) (hH : 0 < H) {x0 x1 y0 y1 : R} (hy : y0 ≤ y1)
    (mu : Pt R) : rect (uniformKernel W H mu) (x0, x1) (y0, y1) ≤ 1 := by
  simp only [rect, uniformKernel_eq_uniform, C13.uniform_is_product_clamp hW hH]
  rw [rect_factor]
  exact unit_diff_mul (clamp01_nonneg _) (clamp01_le_one _)
    (clamp01_nonneg _) (clamp01_mono (sub_div_mono hH _ hy)) (clamp01_le_one _)

/-- the zero-covariance Gaussian kernel gives every rectangle mass at most one -/
theorem prod_rect_le_one {Φ : R → R} (hΦ : C13.IsCdfLike Φ) {sqrt : R → R} {vx vy : R}
    (hsy : 0 < sqrt vy) {x0 x1 y0 y1 : R} (hy : y0 ≤ y1) (mu : Pt R) :
    rect (prodKernel sqrt Φ vx vy mu) (x0, x1) (y0, y1) ≤ 1 := by
  simp only [rect, prodKernel_eq_sbvn]
  rw [C13.sbvn_rect_eq]
  exact unit_diff_mul (hΦ.nonneg _) (hΦ.le_one _)
    (hΦ.nonneg _) (hΦ.mono (sub_div_mono hsy _ hy)) (hΦ.le_one _)

/-- **no negative pixel, uniform kernel** -/
theorem nonneg_uniform {W H : R} (hW : 0 < W) (hH : 0 < H) (hkc : dispatch kc = .general)
    (hm : meshOk rx ry bs ps) (hbs : ∀ q ∈ pairs bs, q.1 ≤ q.2) (hps : ∀ r ∈ pairs ps, r.1 ≤ r.2)
    (sk : Bool) (dgm : List (Pt R)) (hw : ∀ p ∈ toBP sk dgm, 0 ≤ w p) :
    ∃ img, T sqrt Φ w kc (uniformKernel W H) rx ry bs ps sk dgm = .ok img ∧ ∀ row ∈ img, ∀ x ∈ row, 0 ≤ x := by
  refine nonneg sqrt Φ w kc (uniformKernel W H) rx ry bs ps hm sk dgm hw ?_
  intro p _ q hq r hr
  simp only [effKernel, hkc, rect, uniformKernel_eq_uniform]
  exact C13.uniform_rect_nonneg hW hH (hbs q hq) (hps r hr) p.1 p.2

/-- **no negative pixel, Gaussian kernel with zero covariance** -/
theorem nonneg_zero_cov (hΦ : C13.IsCdfLike Φ) {vx vy : R} (hk : ZeroCovKernel sqrt Φ kc F vx vy)
    (hm : meshOk rx ry bs ps) (hbs : ∀ q ∈ pairs bs, q.1 ≤ q.2) (hps : ∀ r ∈ pairs ps, r.1 ≤ r.2)
    (sk : Bool) (dgm : List (Pt R)) (hw : ∀ p ∈ toBP sk dgm, 0 ≤ w p) :
    ∃ img, T sqrt Φ w kc F rx ry bs ps sk dgm = .ok img ∧ ∀ row ∈ img, ∀ x ∈ row, 0 ≤ x := by
  refine nonneg sqrt Φ w kc F rx ry bs ps hm sk dgm hw ?_
  intro p _ q hq r hr
  rw [effKernel_of_zeroCov sqrt Φ kc F hk]
  simp only [rect, prodKernel_eq_sbvn]
  exact C13.sbvn_rect_nonneg hΦ hk.2.1 hk.2.2 (hbs q hq) (hps r hr) p.1 p.2

/-- **the pixel total is at most the total weight, uniform kernel** -/
theorem total_le_weight_uniform {W H : R} (hW : 0 < W) (hH : 0 < H) (hkc : dispatch kc = .general)
    (hm : meshOk rx ry bs ps) (sk : Bool) (dgm : List (Pt R)) (hw : ∀ p ∈ toBP sk dgm, 0 ≤ w p)
    (b0 b1 p0 p1 : R) (hb0 : bs.head? = some b0) (hb1 : bs.getLast? = some b1)
    (hp0 : ps.head? = some p0) (hp1 : ps.getLast? = some p1) (hp : p0 ≤ p1) :
    ∃ img, T sqrt Φ w kc (uniformKernel W H) rx ry bs ps sk dgm = .ok img ∧
      matTotal img ≤ ((toBP sk dgm).map w).sum := by
  obtain ⟨img, h1, _, h3⟩ := total_le_weight sqrt Φ w kc (uniformKernel W H) rx ry bs ps hm sk dgm b0 b1 p0 p1
    hb0 hb1 hp0 hp1
  refine ⟨img, h1, h3 hw ?_⟩
  intro p _
  simp only [effKernel, hkc]
  exact uniform_rect_le_one hW hH hp p

/-- **the pixel total is at most the total weight, Gaussian kernel with zero covariance** -/
theorem total_le_weight_zero_cov (hΦ : C13.IsCdfLike Φ) {vx vy : R} (hk : ZeroCovKernel sqrt Φ kc F vx vy)
    (hm : meshOk rx ry bs ps) (sk : Bool) (dgm : List (Pt R)) (hw : ∀ p ∈ toBP sk dgm, 0 ≤ w p)
    (b0 b1 p0 p1 : R) (hb0 : bs.head? = some b0) (hb1 : bs.getLast? = some b1)
    (hp0 : ps.head? = some p0) (hp1 : ps.getLast? = some p1) (hp : p0 ≤ p1) :
    ∃ img, T sqrt Φ w kc F rx ry bs ps sk dgm = .ok img ∧ matTotal img ≤ ((toBP sk dgm).map w).sum := by
  obtain ⟨img, h1, _, h3⟩ := total_le_weight sqrt Φ w kc F rx ry bs ps hm sk dgm b0 b1 p0 p1 hb0 hb1 hp0 hp1
  refine ⟨img, h1, h3 hw ?_⟩
  intro p _
  rw [effKernel_of_zeroCov sqrt Φ kc F hk]
  exact prod_rect_le_one hΦ hk.2.2 hp p

end builtin

/-! non-vacuity of the hypotheses of the four theorems above: an increasing 2 × 1 mesh at ℚ; the isotropic fast path
    with variance 4 (`sqrt 4 = 2`) and the general path with the built-in zero-covariance Gaussian (variances 4 and 9),
    `Φ` the clamp (a monotone [0,1]-valued function); the uniform box 3 × 1/2 on the general path -/
section builtin_examples
open PersimVerif.KernelLemmas

private abbrev sqrtE : ℚ → ℚ := fun v => if v = 4 then 2 else 3

example : ∀ q ∈ pairs ([0, 1, 2] : List ℚ), q.1 ≤ q.2 := by simp [pairs]
example : ([0, 1] : List ℚ).head? = some 0 ∧ ([0, 1] : List ℚ).getLast? = some 1 ∧ (0 : ℚ) ≤ 1 :=
  ⟨rfl, rfl, by norm_num⟩
example : C13.IsCdfLike (clamp01 : ℚ → ℚ) := ⟨clamp01_mono, clamp01_nonneg, clamp01_le_one⟩
example : ZeroCovKernel sqrtE clamp01 (.gaussian (.scalar (4 : ℚ))) (fun _ _ _ => 0) 4 4 :=
  ⟨Or.inl ⟨by simp [dispatch, Sigma.toMatrix], rfl⟩, by norm_num [sqrtE], by norm_num [sqrtE]⟩
example : ZeroCovKernel sqrtE clamp01 (.gaussian (.matrix (4 : ℚ) 0 0 9)) (prodKernel sqrtE clamp01 4 9) 4 9 :=
  ⟨Or.inr ⟨by simp [dispatch, Sigma.toMatrix], rfl⟩, by norm_num [sqrtE], by norm_num [sqrtE]⟩
example : (0 : ℚ) < 3 ∧ (0 : ℚ) < 1 / 2 ∧ dispatch (KernelChoice.other : KernelChoice ℚ) = .general :=
  ⟨by norm_num, by norm_num, rfl⟩

end builtin_examples

/-! ### non-vacuity: a concrete imager (2 × 1 pixels, uniform box kernel of width = height = 1, weight = persistence)
    meets every hypothesis used above -/

section examples

private abbrev bsE : List ℚ := [0, 1, 2]
private abbrev psE : List ℚ := [0, 1]
private abbrev wE : Pt ℚ → ℚ := persistenceW (fun p _ => p) 1
private abbrev FE : Pt ℚ → ℚ → ℚ → ℚ := uniformKernel 1 1
private abbrev dgmE : List (Pt ℚ) := [(1 / 2, 1), (1, 3 / 2)]

example : meshOk 2 1 bsE psE := ⟨rfl, rfl⟩

example : ∀ p ∈ toBP true dgmE, 0 ≤ wE p := by
  simp [toBP, skew, persistenceW]; norm_num

example : ∀ p ∈ toBP true dgmE, ∀ q ∈ pairs bsE, ∀ r ∈ pairs psE,
    0 ≤ rect (effKernel (fun x => x) (fun x => x) KernelChoice.other FE p) q r := by
  simp [toBP, skew, pairs, rect, effKernel, dispatch, uniformKernel]; norm_num

example : bsE.head? = some 0 ∧ bsE.getLast? = some 2 ∧ psE.head? = some 0 ∧ psE.getLast? = some 1 :=
  ⟨rfl, rfl, rfl, rfl⟩

example : ∀ p ∈ toBP true dgmE,
    rect (effKernel (fun x => x) (fun x => x) KernelChoice.other FE p) (0, 2) (0, 1) ≤ 1 := by
  simp [toBP, skew, rect, effKernel, dispatch, uniformKernel]; norm_num

/-- a zero-weight point: persistence 0 under the `persistence` weight -/
example : wE (bpOf true ((3 / 4 : ℚ), (3 / 4 : ℚ))) = 0 := by
  simp [bpOf, skew, persistenceW]

/-- the hypothesis of `single_vs_collection` holds for `_transform` on every well-formed mesh -/
example : T (fun x => x) (fun x => x) wE KernelChoice.other FE 2 1 bsE psE true [] = .ok (zeros 2 1) :=
  (empty_is_zero (fun x => x) (fun x => x) wE KernelChoice.other FE 2 1 bsE psE ⟨rfl, rfl⟩ true).1

end examples

end PersimVerif.C11
