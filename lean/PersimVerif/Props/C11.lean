import PersimVerif.Model.Image
namespace PersimVerif.C11
open PersimVerif.Image

/-- skew=True on (b,d) equals skew=False on (b,d−b) at the level of the private copy -/
theorem toBP_skew {α : Type} [Sub α] (dgm : List (Pt α)) : toBP true dgm = toBP false (dgm.map skew) := rfl

end PersimVerif.C11
