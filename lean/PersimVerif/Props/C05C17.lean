import PersimVerif.Lemmas.MGHPublic

/-!
# C05 ∘ C17 — the public `gromov_hausdorff` brackets the mGH distance of the graphs it is given

C17 (`Props/C17.lean`) is about the representation layer of `persim.gromov_hausdorff` with `estimate` a
parameter; C05 (`Props/C05.lean`) is about `estimate` on integer distance matrices with the NumPy generator
an explicit input.  Here the two models are composed: `MGHPublic.publicGH` is C17's dispatch
`Graph.gromovHausdorff` with `est :=` C05's `estimate` run on the matrices `makeDist` returns
(`publicEst`, `Lemmas/MGHPublic.lean`), the generator and `mapping_sample_size_order` together being a
`Sampler σ` (state ↦ the draws of one `estimate` call and the next state).

Every theorem is for all square adjacency inputs of every size (0/1 or weighted, any orientation, connected
or not), every sort-key product `kmX kmY` (C05), every sampler meeting NumPy's contract (`SamplerValid`:
`permutation(n)` is a permutation, `choice(m) < m`) — hence every generator state and every
`mapping_sample_size_order`.  The spaces compared are the block metrics `IsBlockMetric A d` of
`C17.fallback_is_metric`: the shortest-path metric on all vertices of a connected graph, on the first
largest component of a disconnected one.

These are theorems about the COMPOSED MODEL.  Its tie to the real code is the two correspondences that are
checked on every run: C17's (distance matrix, dtype, warning, dispatch with the recorded `estimate` calls
replayed) and C05's (`estimate` downwards with the recorded draws replayed).
-/
namespace PersimVerif.MGHPublic
open PersimVerif.MGHSpec
open PersimVerif.Graph (Mat DistResult makeDist Input Result isSquare adjOf Adj IsDist Walk Connected
  gromovHausdorff)
open PersimVerif.C17 (kept lowerOf)

variable {σ : Type} (kmX kmY : ℕ → ℕ → ℤ) (smp : Sampler σ)

/-! ## the spaces `X'`, `Y'` exist and are metric spaces -/

/-- **whenever a pair call returns, both graphs have a block metric, and it is the matrix `estimate` ran on**:
    the two matrices `makeDist` produced meet C05's hypothesis `DistMat`; read as functions they are the block
    metrics of `G` and `H` — genuine finite metrics (zero diagonal, positive off it, symmetric, triangle
    inequality) on `1 ≤ n ≤ |V|` points — and the block metric is unique. -/
theorem public_pair_spaces {G H : Mat} {s s' : σ} {lb ub : Val}
    (h : publicGH kmX kmY smp (.pair G H) s = .ok (.pair lb ub, s')) :
    ∃ rX rY : DistResult, makeDist G = .ok rX ∧ makeDist H = .ok rY ∧
      publicEst kmX kmY smp s rX.dist rY.dist = ((lb, ub), s') ∧
      (0 < rX.dist.length ∧ rX.dist.length ≤ G.length) ∧ (0 < rY.dist.length ∧ rY.dist.length ≤ H.length) ∧
      DistMat rX.dist rX.dist.length ∧ DistMat rY.dist rY.dist.length ∧
      IsBlockMetric G (matFn rX.dist rX.dist.length) ∧ IsBlockMetric H (matFn rY.dist rY.dist.length) ∧
      IsMetric (matFn rX.dist rX.dist.length) ∧ IsMetric (matFn rY.dist rY.dist.length) ∧
      (∀ {n : ℕ} (d : Fin n → Fin n → ℕ), IsBlockMetric G d → rX.dist.length = n ∧ d = matFn rX.dist n) ∧
      (∀ {m : ℕ} (d : Fin m → Fin m → ℕ), IsBlockMetric H d → rY.dist.length = m ∧ d = matFn rY.dist m) := by
  obtain ⟨rX, rY, hX, hY, he⟩ := (pair_ok_iff _ _ G H s s' lb ub).1 h
  obtain ⟨pX, dmX, bX, mX⟩ := makeDist_facts hX
  obtain ⟨pY, dmY, bY, mY⟩ := makeDist_facts hY
  have lX := (C17.fallback_is_metric G (isSquare_of_makeDist hX) rX hX).1.2.1
  have lY := (C17.fallback_is_metric H (isSquare_of_makeDist hY) rY hY).1.2.1
  exact ⟨rX, rY, hX, hY, he, ⟨pX, lX⟩, ⟨pY, lY⟩, dmX, dmY, bX, bY, mX, mY,
    fun d hd => hd.eq_matFn hX, fun d hd => hd.eq_matFn hY⟩

/-! ## (a) the pair call brackets mGH -/

/-- **`public_pair_brackets`**: if `gromov_hausdorff(G, H)` returns `(lo, hi)` then
    `lo ≤ mGH(X', Y') ≤ hi` and both are non-negative multiples of `1/2`, where `X'`, `Y'` are the
    shortest-path metric spaces of the (largest-component) blocks of `G` and `H`.  For all inputs of all
    sizes, connected or not, every generator state, every `mapping_sample_size_order`. -/
theorem public_pair_brackets (hv : SamplerValid smp) {G H : Mat} {s s' : σ} {lo hi : ℚ}
    (h : publicGH kmX kmY smp (.pair G H) s = .ok (.pair (.ok lo) (.ok hi), s'))
    {n m : ℕ} [NeZero n] [NeZero m] {dX : Fin n → Fin n → ℕ} {dY : Fin m → Fin m → ℕ}
    (bX : IsBlockMetric G dX) (bY : IsBlockMetric H dY) :
    lo ≤ mGH dX dY ∧ mGH dX dY ≤ hi ∧ ∃ a b : ℕ, lo = (a : ℚ) / 2 ∧ hi = (b : ℚ) / 2 := by
  obtain ⟨rX, rY, hX, hY, he⟩ := (pair_ok_iff _ _ G H s s' _ _).1 h
  exact publicEst_brackets kmX kmY smp hv hX hY s (congrArg Prod.fst he) bX bY

/-- for CONNECTED graphs the statement is about the shortest-path metrics of the whole graphs: `dX a b` is
    the length of a shortest walk from `a` to `b` in `G`, for all vertices `a, b` -/
theorem public_pair_brackets_connected (hv : SamplerValid smp) {G H : Mat} (hG : Connected (adjOf G))
    (hH : Connected (adjOf H)) {s s' : σ} {lo hi : ℚ}
    (h : publicGH kmX kmY smp (.pair G H) s = .ok (.pair (.ok lo) (.ok hi), s'))
    [NeZero G.length] [NeZero H.length] {dX : Fin G.length → Fin G.length → ℕ}
    {dY : Fin H.length → Fin H.length → ℕ}
    (bX : ∀ a b : Fin G.length, IsDist (Adj (adjOf G)) a b (dX a b))
    (bY : ∀ a b : Fin H.length, IsDist (Adj (adjOf H)) a b (dY a b)) :
    lo ≤ mGH dX dY ∧ mGH dX dY ≤ hi ∧ ∃ a b : ℕ, lo = (a : ℚ) / 2 ∧ hi = (b : ℚ) / 2 :=
  public_pair_brackets kmX kmY smp hv h ((isBlockMetric_connected hG dX).2 ⟨rfl, bX⟩)
    ((isBlockMetric_connected hH dY).2 ⟨rfl, bY⟩)

/-- the lower half needs nothing from the generator: whatever the sampler does (valid or not), a returned
    lower bound is `≤ mGH` -/
theorem public_pair_lower_sound {G H : Mat} {s s' : σ} {lb ub : Val}
    (h : publicGH kmX kmY smp (.pair G H) s = .ok (.pair lb ub, s'))
    {n m : ℕ} [NeZero n] [NeZero m] {dX : Fin n → Fin n → ℕ} {dY : Fin m → Fin m → ℕ}
    (bX : IsBlockMetric G dX) (bY : IsBlockMetric H dY) :
    ∃ a : ℕ, lb = .ok ((a : ℚ) / 2) ∧ (a : ℚ) / 2 ≤ mGH dX dY := by
  obtain ⟨rX, rY, hX, hY, he⟩ := (pair_ok_iff _ _ G H s s' _ _).1 h
  obtain ⟨hn, rfl⟩ := bX.eq_matFn hX
  obtain ⟨hm, rfl⟩ := bY.eq_matFn hY
  subst hn hm
  obtain ⟨_, dmX, _, _⟩ := makeDist_facts hX
  obtain ⟨_, dmY, _, _⟩ := makeDist_facts hY
  refine ⟨MGH.findLb kmX kmY rX.dist rY.dist, ?_, ?_⟩
  · rw [← publicEst_lb kmX kmY smp s, he]
  · unfold mGH
    have : ((MGH.findLb kmX kmY rX.dist rY.dist : ℕ) : ℚ) ≤
        (mGH2 (matFn rX.dist rX.dist.length) (matFn rY.dist rY.dist.length) : ℚ) := by
      exact_mod_cast C05.find_lb_sound dmX dmY kmX kmY
    linarith

/-! ## (b) isomorphic connected graphs get lower bound 0 -/

private theorem isSquare_sub_perm (A : Mat) (hsq : isSquare A = true) (p : List ℕ)
    (hp : p.Perm (List.range A.length)) : isSquare (Graph.sub 0 p A) = true := by
  have hn := ((Graph.isSquare_iff A).1 hsq).1
  have hpl : p.length = A.length := by simpa using hp.length_eq
  rw [Graph.isSquare_iff]
  refine ⟨by simp [hpl, hn], ?_⟩
  intro r hr
  rw [Graph.row_length_sub 0 p A r hr]; simp

/-- the two distance matrices of a connected graph and any representation of a relabelling of it -/
private theorem relabelled_dist {G H : Mat} (hc : Connected (adjOf G)) (p : List ℕ)
    (hp : p.Perm (List.range G.length)) (hadj : adjOf H = adjOf (Graph.sub 0 p G))
    {rX rY : DistResult} (hX : makeDist G = .ok rX) (hY : makeDist H = .ok rY) :
    p.Perm (List.range rX.dist.length) ∧ rY.dist = Graph.sub 0 p rX.dist := by
  have hsq := isSquare_of_makeDist hX
  obtain ⟨hw, hl⟩ := connected_dist_length hX hc
  have hrel := C17.relabel_connected G hsq p hp rX hX hw
  rw [← C17.format_irrelevant H _ (isSquare_of_makeDist hY) (isSquare_sub_perm G hsq p hp) hadj, hY] at hrel
  refine ⟨by rw [hl]; exact hp, ?_⟩
  have := Except.ok.inj hrel
  rw [this]

/-- **`public_iso_lb_zero`**: a connected graph `G` and ANY representation `H` of a relabelling `G[p][:, p]` of
    it (any orientation / weights with the same undirected adjacency) get lower bound exactly `0`, in either
    argument order, for every generator state. -/
theorem public_iso_lb_zero {G H : Mat} (hc : Connected (adjOf G)) (p : List ℕ)
    (hp : p.Perm (List.range G.length)) (hadj : adjOf H = adjOf (Graph.sub 0 p G)) {s s' : σ} {lb ub : Val} :
    (publicGH kmX kmY smp (.pair G H) s = .ok (.pair lb ub, s') → lb = .ok 0) ∧
    (publicGH kmX kmY smp (.pair H G) s = .ok (.pair lb ub, s') → lb = .ok 0) := by
  constructor
  · intro h
    obtain ⟨rX, rY, hX, hY, he⟩ := (pair_ok_iff _ _ G H s s' _ _).1 h
    obtain ⟨hp', hd⟩ := relabelled_dist hc p hp hadj hX hY
    obtain ⟨pX, dmX, _, _⟩ := makeDist_facts hX
    obtain ⟨_, dmY, _, _⟩ := makeDist_facts hY
    have hl : rY.dist.length = rX.dist.length := by rw [hd]; simpa using hp'.length_eq
    rw [hl] at dmY
    have : NeZero rX.dist.length := ⟨by omega⟩
    have hiso : Isometric (matFn rX.dist rX.dist.length) (matFn rY.dist rX.dist.length) := by
      rw [hd]; exact isometric_sub_perm rX.dist p hp'
    have h0 := C05.iso_lb_zero dmX dmY hiso kmX kmY
    have e1 : (publicEst kmX kmY smp s rX.dist rY.dist).1.1 = lb := by rw [he]
    rw [← e1, publicEst_lb, h0]
    simp
  · intro h
    obtain ⟨rY, rX, hY, hX, he⟩ := (pair_ok_iff _ _ H G s s' _ _).1 h
    obtain ⟨hp', hd⟩ := relabelled_dist hc p hp hadj hX hY
    obtain ⟨pX, dmX, _, _⟩ := makeDist_facts hX
    obtain ⟨_, dmY, _, _⟩ := makeDist_facts hY
    have hl : rY.dist.length = rX.dist.length := by rw [hd]; simpa using hp'.length_eq
    rw [hl] at dmY
    have : NeZero rX.dist.length := ⟨by omega⟩
    have hiso : Isometric (matFn rY.dist rX.dist.length) (matFn rX.dist rX.dist.length) := by
      rw [hd]; exact Isometric.symm' (isometric_sub_perm rX.dist p hp')
    have h0 := C05.iso_lb_zero dmY dmX hiso kmX kmY
    have e1 : (publicEst kmX kmY smp s rY.dist rX.dist).1.1 = lb := by rw [he]
    rw [← e1, publicEst_lb, h0]
    simp

/-! ## (c) the lower bounds do not depend on the generator -/

/-- **`public_lb_deterministic`**: the hypothesis of `C17.lb_deterministic` — the estimator's lower-bound
    component ignores the RNG state and the sampling parameter — holds for C05's model (`find_lb` takes no
    draws: `publicEst_lb`).  Hence for ANY two samplers (two generator states, two
    `mapping_sample_size_order`s, valid or not), the same labelled inputs give the same lower bounds and
    fail on the same inputs, pair and collection calls alike. -/
theorem public_lb_deterministic {σ' : Type} (smp' : Sampler σ') (inp : Input) (s : σ) (s' : σ') :
    match publicGH kmX kmY smp inp s, publicGH kmX kmY smp' inp s' with
    | .ok (r, _), .ok (r', _) => lowerOf r = lowerOf r'
    | .error e, .error e' => e = e'
    | _, _ => False := by
  have key := C17.lb_deterministic (publicEst kmX kmY smp) (.ok 0) (publicEst kmX kmY smp')
    (fun _ _ _ _ => rfl) inp s s'
  unfold publicGH
  generalize gromovHausdorff (publicEst kmX kmY smp) (.ok 0) inp s = a at key ⊢
  generalize gromovHausdorff (publicEst kmX kmY smp') (.ok 0) inp s' = b at key ⊢
  rcases a with e | ⟨r, t⟩ <;> rcases b with e' | ⟨r', t'⟩ <;> exact key

/-! ## (d) the collection call -/

/-- **`public_collection_brackets`**: a collection call on `N ≥ 2` graphs returns two `N×N` matrices,
    symmetric with zero diagonal; every graph has its block metric; and every off-diagonal entry `(i, j)`
    whose two slots are values brackets the mGH distance of the blocks of graphs `i` and `j`, in `½ℕ`. -/
theorem public_collection_brackets (hv : SamplerValid smp) {As : List Mat} {s s' : σ}
    {lbs ubs : List (List Val)} (h : publicGH kmX kmY smp (.coll As) s = .ok (.mats lbs ubs, s')) :
    2 ≤ As.length ∧
    (lbs.length = As.length ∧ ∀ r ∈ lbs, r.length = As.length) ∧
    (ubs.length = As.length ∧ ∀ r ∈ ubs, r.length = As.length) ∧
    (∀ i j, i < As.length → j < As.length →
      Graph.ent (.ok 0) lbs i j = Graph.ent (.ok 0) lbs j i ∧
      Graph.ent (.ok 0) ubs i j = Graph.ent (.ok 0) ubs j i ∧
      Graph.ent (.ok 0) lbs i i = .ok 0 ∧ Graph.ent (.ok 0) ubs i i = .ok 0) ∧
    (∀ i, i < As.length → ∃ r, makeDist (As.getD i []) = .ok r) ∧
    ∀ i j, i < As.length → j < As.length → i ≠ j → ∀ lo hi : ℚ,
      Graph.ent (.ok 0) lbs i j = .ok lo → Graph.ent (.ok 0) ubs i j = .ok hi →
      ∀ {n m : ℕ} [NeZero n] [NeZero m] {dX : Fin n → Fin n → ℕ} {dY : Fin m → Fin m → ℕ},
        IsBlockMetric (As.getD i []) dX → IsBlockMetric (As.getD j []) dY →
        lo ≤ mGH dX dY ∧ mGH dX dY ≤ hi ∧ ∃ a b : ℕ, lo = (a : ℚ) / 2 ∧ hi = (b : ℚ) / 2 := by
  obtain ⟨hN, hl, hu, hsym⟩ := C17.collection_symmetric_zero_diag _ _ As s s' lbs ubs h
  -- the upper triangle
  have upper : ∀ i j, i < j → j < As.length → ∀ lo hi : ℚ,
      Graph.ent (.ok 0) lbs i j = .ok lo → Graph.ent (.ok 0) ubs i j = .ok hi →
      (∃ r, makeDist (As.getD i []) = .ok r) ∧ (∃ r, makeDist (As.getD j []) = .ok r) ∧
      ∀ {n m : ℕ} [NeZero n] [NeZero m] {dX : Fin n → Fin n → ℕ} {dY : Fin m → Fin m → ℕ},
        IsBlockMetric (As.getD i []) dX → IsBlockMetric (As.getD j []) dY →
        lo ≤ mGH dX dY ∧ mGH dX dY ≤ hi ∧ ∃ a b : ℕ, lo = (a : ℚ) / 2 ∧ hi = (b : ℚ) / 2 := by
    intro i j hij hj lo hi e1 e2
    obtain ⟨_, s₁, DX, DY, _, hX, hY, f1, f2, _⟩ :=
      C17.collection_entries_are_pair_results _ _ As s s' lbs ubs h i j hij hj
    refine ⟨⟨DX, hX⟩, ⟨DY, hY⟩, fun bX bY => ?_⟩
    exact publicEst_brackets kmX kmY smp hv hX hY s₁ (Prod.ext (by rw [← f1, e1]) (by rw [← f2, e2])) bX bY
  have dist_ok : ∀ i, i < As.length → ∃ r, makeDist (As.getD i []) = .ok r := by
    intro i hi
    by_cases h0 : i = 0
    · subst h0
      obtain ⟨_, _, DX, _, _, hX, _⟩ :=
        C17.collection_entries_are_pair_results _ _ As s s' lbs ubs h 0 1 (by omega) (by omega)
      exact ⟨DX, hX⟩
    · obtain ⟨_, _, _, DY, _, _, hY, _⟩ :=
        C17.collection_entries_are_pair_results _ _ As s s' lbs ubs h 0 i (by omega) hi
      exact ⟨DY, hY⟩
  refine ⟨hN, hl, hu, hsym, dist_ok, ?_⟩
  intro i j hi hj hne lo hi' e1 e2 n m _ _ dX dY bX bY
  rcases Nat.lt_or_gt_of_ne hne with hlt | hgt
  · exact (upper i j hlt hj lo hi' e1 e2).2.2 bX bY
  · obtain ⟨s1, s2, _, _⟩ := hsym i j hi hj
    have := (upper j i hgt hi lo hi' (by rw [← s1, e1]) (by rw [← s2, e2])).2.2 bY bX
    rwa [mGH_comm dY dX] at this

/-! ## (e) no exception on well-formed graphs -/

/-- **`public_never_raises`** (pair call): under C17's guard (`never_raises`: square non-empty matrices with at
    most `2^63` vertices) and with a sampler that meets NumPy's contract and draws at least one permutation
    per direction, the composed model returns a pair of values — together with `public_pair_brackets`, a
    bracket of the mGH distance.

    The integer-type guard: C05's model computes in unbounded `ℕ`/`ℤ`, the code in the NumPy dtype `makeDist`
    chose.  `C17.int_type_sufficient` / `int_type_sufficient_pair` (restated here for the two matrices the
    call produced) say that every entry and every difference of two entries, within one matrix or across
    the two, lies within the range of that signed type, so none of the code's subtractions
    (`abs(diam_X - diam_Y)`, `DX[x, …] - DY[:, …]`) wraps: that is what makes the unbounded model faithful on
    these matrices.  (The one product, `len(K) * diam_X`, is `keyMul`, arbitrary in every theorem.) -/
theorem public_never_raises (hv : SamplerValid smp) (he : SamplerEnough smp) (G H : Mat)
    (hG : isSquare G = true) (hGn : G.length ≤ 2 ^ 63) (hH : isSquare H = true) (hHn : H.length ≤ 2 ^ 63)
    (s : σ) :
    ∃ (lo hi : ℚ) (s' : σ) (rX rY : DistResult),
      publicGH kmX kmY smp (.pair G H) s = .ok (.pair (.ok lo) (.ok hi), s') ∧
      makeDist G = .ok rX ∧ makeDist H = .ok rY ∧
      ∀ i j k l : ℕ,
        -((max rX.intType.max rY.intType.max : ℕ) : ℤ) ≤
          (Graph.entry rX.dist i j : ℤ) - (Graph.entry rY.dist k l : ℤ) ∧
        (Graph.entry rX.dist i j : ℤ) - (Graph.entry rY.dist k l : ℤ) ≤
          ((max rX.intType.max rY.intType.max : ℕ) : ℤ) := by
  obtain ⟨rX, hX⟩ := C17.never_raises G hG hGn
  obtain ⟨rY, hY⟩ := C17.never_raises H hH hHn
  obtain ⟨lo, hi, hr⟩ := publicEst_total kmX kmY smp hv he s rX.dist rY.dist (makeDist_facts hX).1
    (makeDist_facts hY).1
  refine ⟨lo, hi, (publicEst kmX kmY smp s rX.dist rY.dist).2, rX, rY, ?_, hX, hY,
    fun i j k l => C17.int_type_sufficient_pair G H rX rY hX hY i j k l⟩
  exact (pair_ok_iff _ _ G H s _ _ _).2 ⟨rX, rY, hX, hY, Prod.ext hr rfl⟩

/-- the same for a collection call on `N ≥ 2` well-formed graphs: two matrices are returned and every
    entry of both is a value -/
theorem public_collection_never_raises (hv : SamplerValid smp) (he : SamplerEnough smp) (As : List Mat)
    (hN : 2 ≤ As.length) (hAs : ∀ A ∈ As, isSquare A = true ∧ A.length ≤ 2 ^ 63) (s : σ) :
    ∃ (lbs ubs : List (List Val)) (s' : σ),
      publicGH kmX kmY smp (.coll As) s = .ok (.mats lbs ubs, s') ∧
      ∀ i j, i < As.length → j < As.length →
        (∃ lo : ℚ, Graph.ent (.ok 0) lbs i j = .ok lo) ∧ ∃ hi : ℚ, Graph.ent (.ok 0) ubs i j = .ok hi := by
  have hmk : ∀ i, i < As.length → ∃ r, makeDist (As.getD i []) = .ok r := by
    intro i hi
    have e : As.getD i [] = As[i] := by simp [List.getD_eq_getElem?_getD, List.getElem?_eq_getElem hi]
    obtain ⟨h1, h2⟩ := hAs As[i] (List.getElem_mem hi)
    rw [e]; exact C17.never_raises _ h1 h2
  obtain ⟨lbs, ubs, s', h⟩ := coll_ok (publicEst kmX kmY smp) (.ok 0) As hN hmk s
  refine ⟨lbs, ubs, s', h, ?_⟩
  obtain ⟨_, _, _, hsym⟩ := C17.collection_symmetric_zero_diag _ _ As s s' lbs ubs h
  have upper : ∀ i j, i < j → j < As.length →
      (∃ lo : ℚ, Graph.ent (.ok 0) lbs i j = .ok lo) ∧ ∃ hi : ℚ, Graph.ent (.ok 0) ubs i j = .ok hi := by
    intro i j hij hj
    obtain ⟨_, s₁, DX, DY, _, hX, hY, f1, f2, _⟩ :=
      C17.collection_entries_are_pair_results _ _ As s s' lbs ubs h i j hij hj
    obtain ⟨lo, hi, hr⟩ := publicEst_total kmX kmY smp hv he s₁ DX.dist DY.dist (makeDist_facts hX).1
      (makeDist_facts hY).1
    exact ⟨⟨lo, by rw [f1, hr]⟩, ⟨hi, by rw [f2, hr]⟩⟩
  intro i j hi hj
  rcases Nat.lt_trichotomy i j with hlt | heq | hgt
  · exact upper i j hlt hj
  · subst heq
    obtain ⟨_, _, d1, d2⟩ := hsym i i hi hi
    exact ⟨⟨0, d1⟩, ⟨0, d2⟩⟩
  · obtain ⟨s1, s2, _, _⟩ := hsym i j hi hj
    rw [s1, s2]
    exact upper j i hgt hi

/-- malformed input is rejected as the code rejects it (`ValueError`): a non-square graph, fewer than two
    graphs -/
theorem public_malformed_rejected (G H : Mat) (s : σ) (hG : isSquare G = false) (As : List Mat)
    (hN : As.length < 2) :
    publicGH kmX kmY smp (.pair G H) s = .error .notSquare ∧
    publicGH kmX kmY smp (.coll As) s = .error .tooFewGraphs := by
  refine ⟨?_, C17.collection_needs_two _ _ As hN s⟩
  unfold publicGH
  rw [Graph.gh_pair_eq, C17.malformed_rejected G hG]

/-! ## non-vacuity: a concrete sampler and concrete graphs -/

/-- a sampler meeting both contracts: two permutations (identity and reversal) with first images
    `s mod |Y|` and `0` for `X → Y`, the identity with first image `s mod |X|` for `Y → X`; the state counts
    the calls -/
def demoSampler : Sampler ℕ := fun s DX DY =>
  (⟨[List.range DX.length, (List.range DX.length).reverse], [s % DY.length, 0],
    [List.range DY.length], [s % DX.length]⟩, s + 1)

theorem demoSampler_valid : SamplerValid demoSampler := by
  intro s DX DY hX hY
  refine ⟨?_, ?_, ?_, ?_⟩
  · intro pi hpi
    simp only [demoSampler, List.mem_cons, List.not_mem_nil, or_false] at hpi
    rcases hpi with rfl | rfl
    · exact List.Perm.refl _
    · exact List.reverse_perm _
  · intro y hy
    simp only [demoSampler, List.mem_cons, List.not_mem_nil, or_false] at hy
    rcases hy with rfl | rfl
    · exact Nat.mod_lt _ hY
    · exact hY
  · intro pi hpi
    simp only [demoSampler, List.mem_cons, List.not_mem_nil, or_false] at hpi
    subst hpi
    exact List.Perm.refl _
  · intro y hy
    simp only [demoSampler, List.mem_cons, List.not_mem_nil, or_false] at hy
    subst hy
    exact Nat.mod_lt _ hX

theorem demoSampler_enough : SamplerEnough demoSampler := by
  intro s DX DY _ _
  simp [demoSampler, Draws.Enough]

/-- the path 0–1–2 as a weighted, mixed-orientation matrix; the 4-cycle, upper triangular; the triangle -/
def P3adj : Mat := [[0,7,0],[0,0,0],[0,2,0]]
def C4adj : Mat := [[0,1,0,1],[0,0,1,0],[0,0,0,1],[0,0,0,0]]
def K3adj : Mat := [[0,1,1],[0,0,1],[0,0,0]]

example : isSquare P3adj = true ∧ isSquare C4adj = true ∧ isSquare K3adj = true ∧ isSquare C17.G32 = true := by
  decide

/-- the matrices `estimate` receives: C05's `P3`, `C4`, `K3`, and for the disconnected `G32` (components
    {0,1,2}, a star, and {3,4}) the fallback block -/
example : makeDist P3adj = .ok ⟨C05.P3, false, .i8⟩ ∧ makeDist C4adj = .ok ⟨C05.C4, false, .i8⟩ ∧
    makeDist K3adj = .ok ⟨C05.K3, false, .i8⟩ ∧
    makeDist C17.G32 = .ok ⟨[[0,1,1],[1,0,2],[1,2,0]], true, .i8⟩ := by decide

/-- their block metrics (non-vacuity of the `IsBlockMetric` hypotheses): the full shortest-path metric of a
    connected graph, the metric of the star `{0,1,2}` for `G32` -/
example : IsBlockMetric P3adj (matFn C05.P3 3) ∧ IsBlockMetric C4adj (matFn C05.C4 4) ∧
    IsBlockMetric K3adj (matFn C05.K3 3) ∧ IsBlockMetric C17.G32 (matFn [[0,1,1],[1,0,2],[1,2,0]] 3) :=
  ⟨(makeDist_facts (r := ⟨C05.P3, false, .i8⟩) (by decide)).2.2.1,
   (makeDist_facts (r := ⟨C05.C4, false, .i8⟩) (by decide)).2.2.1,
   (makeDist_facts (r := ⟨C05.K3, false, .i8⟩) (by decide)).2.2.1,
   (makeDist_facts (r := ⟨[[0,1,1],[1,0,2],[1,2,0]], true, .i8⟩) (by decide)).2.2.1⟩

example : kept C17.G32 = [0, 1, 2] ∧ kept P3adj = [0, 1, 2] := by decide

/-- **P3 vs C4** (what the real code returns too: `(0.5, 0.5)`) -/
example : publicGH MGH.exactMul MGH.exactMul demoSampler (.pair P3adj C4adj) 0 =
    .ok (.pair (.ok (1/2)) (.ok (1/2)), 1) := by decide +kernel

/-- `public_pair_brackets` at work: the returned pair pins `mGH(P3, C4) = 1/2`
    (C05's exhaustive oracle: `mgh2Brute P3 C4 = some 1`) -/
example : mGH (matFn C05.P3 3) (matFn C05.C4 4) = 1 / 2 := by
  have h := public_pair_brackets MGH.exactMul MGH.exactMul demoSampler demoSampler_valid
    (G := P3adj) (H := C4adj) (s := 0) (s' := 1) (lo := 1/2) (hi := 1/2) (by decide +kernel)
    (dX := matFn C05.P3 3) (dY := matFn C05.C4 4)
    (makeDist_facts (r := ⟨C05.P3, false, .i8⟩) (by decide)).2.2.1
    (makeDist_facts (r := ⟨C05.C4, false, .i8⟩) (by decide)).2.2.1
  exact le_antisymm h.2.1 h.1

/-- **a disconnected graph (3 + 2 vertices) vs the triangle**: the fallback block (the star on `{0,1,2}`) is
    what is compared; no error, a bracket -/
example : publicGH MGH.exactMul MGH.exactMul demoSampler (.pair C17.G32 K3adj) 5 =
    .ok (.pair (.ok (1/2)) (.ok (1/2)), 6) := by decide +kernel

example : mGH (matFn [[0,1,1],[1,0,2],[1,2,0]] 3) (matFn C05.K3 3) = 1 / 2 := by
  have h := public_pair_brackets MGH.exactMul MGH.exactMul demoSampler demoSampler_valid
    (G := C17.G32) (H := K3adj) (s := 5) (s' := 6) (lo := 1/2) (hi := 1/2) (by decide +kernel)
    (dX := matFn [[0,1,1],[1,0,2],[1,2,0]] 3) (dY := matFn C05.K3 3)
    (makeDist_facts (r := ⟨[[0,1,1],[1,0,2],[1,2,0]], true, .i8⟩) (by decide)).2.2.1
    (makeDist_facts (r := ⟨C05.K3, false, .i8⟩) (by decide)).2.2.1
  exact le_antisymm h.2.1 h.1

/-- **a collection** of four graphs in mixed formats, one disconnected: entry `(0, 2)` is `0` because the
    fallback block of `G32` is a relabelled `P3` -/
example : publicGH MGH.exactMul MGH.exactMul demoSampler (.coll [P3adj, C4adj, C17.G32, K3adj]) 0 =
    .ok (.mats
      [[.ok 0, .ok (1/2), .ok 0, .ok (1/2)], [.ok (1/2), .ok 0, .ok (1/2), .ok (1/2)],
       [.ok 0, .ok (1/2), .ok 0, .ok (1/2)], [.ok (1/2), .ok (1/2), .ok (1/2), .ok 0]]
      [[.ok 0, .ok (1/2), .ok 0, .ok (1/2)], [.ok (1/2), .ok 0, .ok (1/2), .ok (1/2)],
       [.ok 0, .ok (1/2), .ok 0, .ok (1/2)], [.ok (1/2), .ok (1/2), .ok (1/2), .ok 0]], 6) := by
  decide +kernel

/-- **`public_iso_lb_zero`, non-vacuity**: the 4-cycle is connected; `C4rel` is the relabelling
    `C4[p][:, p]`, `p = [2,0,3,1]`, stored lower-triangular with other weights -/
def C4rel : Mat := [[0,0,0,0],[0,0,0,0],[3,5,0,0],[2,9,0,0]]

example : Connected (adjOf C4adj) :=
  (Graph.hasInf_false_iff_connected _ (Graph.adjOf_Symm _)).1 (by decide)
example : [2, 0, 3, 1].Perm (List.range C4adj.length) := by decide
example : adjOf C4rel = adjOf (Graph.sub 0 [2, 0, 3, 1] C4adj) ∧ C4rel ≠ Graph.sub 0 [2, 0, 3, 1] C4adj := by
  decide
example : publicGH MGH.exactMul MGH.exactMul demoSampler (.pair C4adj C4rel) 0 =
    .ok (.pair (.ok 0) (.ok 0), 1) := by decide +kernel

/-- **`public_lb_deterministic`, non-vacuity**: a second sampler (one reversed permutation per direction, last
    point as first image).  On the 5-path vs the 5-star the two samplers return DIFFERENT upper bounds and
    the same lower bound. -/
def revSampler : Sampler Unit := fun _ DX DY =>
  (⟨[(List.range DX.length).reverse], [DY.length - 1], [(List.range DY.length).reverse], [DX.length - 1]⟩, ())

def P5adj : Mat := [[0,1,0,0,0],[0,0,1,0,0],[0,0,0,1,0],[0,0,0,0,1],[0,0,0,0,0]]
def S5adj : Mat := [[0,1,1,1,1],[0,0,0,0,0],[0,0,0,0,0],[0,0,0,0,0],[0,0,0,0,0]]

example : makeDist P5adj = .ok ⟨C05.P5, false, .i8⟩ ∧ makeDist S5adj = .ok ⟨C05.S5, false, .i8⟩ := by decide

example :
    publicGH MGH.exactMul MGH.exactMul demoSampler (.pair P5adj S5adj) 0 = .ok (.pair (.ok 1) (.ok (3/2)), 1) ∧
    publicGH MGH.exactMul MGH.exactMul revSampler (.pair P5adj S5adj) () = .ok (.pair (.ok 1) (.ok 1), ()) := by
  decide +kernel

/-- **the `SamplerEnough` guard is the code's**: a sample size of 0 (the float power
    `|X|^a · log(|X|+1)^b` underflows, e.g. `mapping_sample_size_order = [-1e6, 0]`) makes `next(…)` raise
    `StopIteration` in the real `find_ub_of_min_distortion`; in the model the sampler is valid, not enough,
    the lower bound is still computed and the `ub` slot carries the exception. -/
def zeroSampler : Sampler Unit := fun _ _ _ => (⟨[], [], [], []⟩, ())

example : SamplerValid zeroSampler ∧ ¬ SamplerEnough zeroSampler := by
  refine ⟨fun s DX DY _ _ => ?_, fun h => ?_⟩
  · simp [zeroSampler, Draws.Valid]
  · exact (h () [[0]] [[0]] (by decide) (by decide)).1 rfl

example : publicGH MGH.exactMul MGH.exactMul zeroSampler (.pair P3adj C4adj) () =
    .ok (.pair (.ok (1/2)) (.error .stopIteration), ()) := by decide +kernel

end PersimVerif.MGHPublic
