import PersimVerif.Lemmas.RowsSound
import PersimVerif.Lemmas.RowsExtract
import PersimVerif.Props.C07
import Mathlib.Data.List.FinRange
import Mathlib.Algebra.Order.Field.Rat

/-!
# C06 — returned matchings certify the reported bottleneck / Wasserstein distance

Statement (properties.jsonl): with `matching=True` the distance is the same as without it and the
returned rows certify it — every point of each diagram is in exactly one row (paired with a point of
the other diagram or with the diagonal, −1), the third entry of a row is the cost of that pairing,
and the maximum (bottleneck) / sum (Wasserstein) of the third entries is the reported distance; an
empty diagram is the one-point diagram `[(0,0)]`, index 0.  Any optimal matching is acceptable.

What is proved here, for diagrams of every size and every cost rule `(pairCost, diagCost)` over any
linear order / commutative monoid, then instantiated with C07's two cost systems:

1. **checker soundness** — `checkRows_sound_bn/ws`, `certificate_is_optimal_bn/ws`,
   `rows_witness_attained_bn/ws`, `structOk_sound`: rows accepted by `Rows.checkRows` ARE a partial
   matching `PM (Fin M) (Fin N)` (placeholder-adjusted sizes) with `MaxLE … d` and one pairing
   `= d`, resp. `sumCost = Σ rows`; with C01/C02's `IsBottleneck`/`IsMinSum` they are optimal.
   `checkBnRat_certifies` is this statement for the very function the driver runs (`cert.rows.bn`).
2. **extraction** — `extractRows_bn_accepted`, `extractRows_ws_accepted`, `bn_rows_certify`,
   `ws_rows_certify`, `extracted_rows_pass_checkRows`: for EVERY perfect matching `σ` of the finite
   entries of the augmented matrix (so for whatever Hopcroft–Karp / `linear_sum_assignment` return
   under any hash seed) the two loops return rows the checker accepts; max = least feasible
   threshold, sum = Σ selected entries.
3. `matching_flag_irrelevant_bn/ws`, `empty_as_origin`.

Not proved here: that the reported distance is the minimum over all partial matchings (C01/C02).
Exact arithmetic only: float rounding is covered by the harness' tolerances, not by a theorem.
-/
namespace PersimVerif.C06
open PersimVerif.Rows PersimVerif.Spec

/-- the largest pairing cost of `p` is exactly `d`: some point pays `d` (together with
    `p.MaxLE c u v d` this says "the matching `p` has bottleneck cost `d`") -/
def AttainsMax {M N K : Type} (p : PM M N) (c : M → N → K) (u : M → K) (v : N → K) (d : K) : Prop :=
  (∃ i, p.rowCost c u i = d) ∨ (∃ j, p.g j = none ∧ v j = d)

section Core
variable {K : Type} {M N : Nat} (c : Fin M → Fin N → K) (u : Fin M → K) (v : Fin N → K)

/-- index-level soundness, bottleneck.  `0 ≤` costs (that is `b ≤ d` for every point) is used for
    one thing only: `MaxLE` demands `0 ≤ d`, and `d` is the third entry of some row. -/
theorem checkCore_sound_bn [LinearOrder K] [Zero K] {rows : List (Row K)} {d : K}
    (hc0 : ∀ i j, 0 ≤ c i j) (hu0 : ∀ i, 0 ≤ u i) (hv0 : ∀ j, 0 ≤ v j)
    (h : checkCore M N c u v rows = true) (hd : rowsMax rows = some d) :
    ∃ p : PM (Fin M) (Fin N), p.MaxLE c u v d ∧ AttainsMax p c u v d := by
  simp only [checkCore, Bool.and_eq_true] at h
  obtain ⟨hs, hc⟩ := h
  obtain ⟨t, hi, hj⟩ := exists_table rows hs
  have hc' : ∀ a : Fin rows.length, expected M N c u v (t.ri a) (t.rj a) = some rows[a].cost := by
    intro a; rw [hi, hj]; exact (costsExact_iff c u v rows).mp hc _ (List.getElem_mem a.2)
  obtain ⟨⟨r, hr, rfl⟩, hle⟩ := (rowsMax_eq_some_iff rows d).mp hd
  obtain ⟨a, ha, rfl⟩ := List.getElem_of_mem hr
  have h0 : 0 ≤ rows[a].cost := by
    rcases expected_cases c u v (hc' ⟨a, ha⟩) with ⟨x, y, _, _, e⟩ | ⟨x, _, _, e⟩ | ⟨y, _, _, e⟩
    · exact e ▸ hc0 x y
    · exact e ▸ hu0 x
    · exact e ▸ hv0 y
  exact ⟨t.toPM, t.maxLE c u v _ hc' h0 (fun b => hle _ (List.getElem_mem b.2)),
    t.attains c u v _ hc' ⟨a, ha⟩⟩

/-- index-level soundness, Wasserstein: the sum of the third entries IS the total cost of the
    matching the rows describe (every point in exactly one row; no diagonal–diagonal row). -/
theorem checkCore_sound_ws [AddCommMonoid K] [DecidableEq K] {rows : List (Row K)}
    (h : checkCore M N c u v rows = true) :
    ∃ p : PM (Fin M) (Fin N), p.sumCost c u v = rowsSum rows := by
  simp only [checkCore, Bool.and_eq_true] at h
  obtain ⟨hs, hc⟩ := h
  obtain ⟨t, hi, hj⟩ := exists_table rows hs
  have hc' : ∀ a : Fin rows.length, expected M N c u v (t.ri a) (t.rj a) = some rows[a].cost := by
    intro a; rw [hi, hj]; exact (costsExact_iff c u v rows).mp hc _ (List.getElem_mem a.2)
  exact ⟨t.toPM, by rw [t.sum_eq c u v _ hc', rowsSum_eq_sum_fin]⟩

end Core

/-- **the structural flag alone** (no arithmetic, so it is exact at `Float` too — this is the part of
    `cert.rows.ws` / `cert.rows.bn.f` that is decided exactly): rows passing `structOk` describe a
    partial matching — `p` pairs `i` with `j` iff `(i, j, _)` is a row, sends `i` to the diagonal iff
    `(i, -1, _)` is a row, and leaves `j` unmatched iff `(-1, j, _)` is a row. -/
theorem structOk_sound {K : Type} {M N : Nat} (rows : List (Row K)) (h : structOk M N rows = true) :
    ∃ p : PM (Fin M) (Fin N),
      (∀ i j, p.f i = some j ↔ ∃ r ∈ rows, r.i = ((i : Nat) : Int) ∧ r.j = ((j : Nat) : Int))
      ∧ (∀ i, p.f i = none ↔ ∃ r ∈ rows, r.i = ((i : Nat) : Int) ∧ r.j = -1)
      ∧ (∀ j, p.g j = none ↔ ∃ r ∈ rows, r.i = -1 ∧ r.j = ((j : Nat) : Int)) := by
  obtain ⟨t, hi, hj⟩ := exists_table rows h
  refine ⟨t.toPM, fun i j => ?_, fun i => ?_, fun j => ?_⟩
  · rw [t.toPM_f_some]
    constructor
    · intro hf
      exact ⟨rows[t.rowOf i], List.getElem_mem _, by rw [← hi, t.ri_rowOf], by rw [← hj, hf]⟩
    · rintro ⟨r, hr, h1, h2⟩
      obtain ⟨a, ha, rfl⟩ := List.getElem_of_mem hr
      have : (⟨a, ha⟩ : Fin rows.length) = t.rowOf i := (t.rowOf_spec i _).mp (by rw [hi]; exact h1)
      rw [← this, hj]; exact h2
  · rw [t.toPM_f_none]
    constructor
    · intro hf
      exact ⟨rows[t.rowOf i], List.getElem_mem _, by rw [← hi, t.ri_rowOf], by rw [← hj, hf]⟩
    · rintro ⟨r, hr, h1, h2⟩
      obtain ⟨a, ha, rfl⟩ := List.getElem_of_mem hr
      have : (⟨a, ha⟩ : Fin rows.length) = t.rowOf i := (t.rowOf_spec i _).mp (by rw [hi]; exact h1)
      rw [← this, hj]; exact h2
  · rw [t.toPM_g_none]
    constructor
    · intro hg
      exact ⟨rows[t.colOf j], List.getElem_mem _, by rw [← hi, hg], by rw [← hj, t.rj_colOf]⟩
    · rintro ⟨r, hr, h1, h2⟩
      obtain ⟨a, ha, rfl⟩ := List.getElem_of_mem hr
      have : (⟨a, ha⟩ : Fin rows.length) = t.colOf j := (t.colOf_spec j _).mp (by rw [hj]; exact h2)
      rw [← this, hi]; exact h1

/-! ### the checker on diagrams (placeholder-adjusted index types) -/

section Diagrams
variable {K : Type} (pc : K × K → K × K → K) (dc : K × K → K)

/-- pair costs / diagonal costs of the placeholder-adjusted diagrams, by index -/
abbrev cP [Zero K] (S T : List (K × K)) := cOf pc (placeholder S) (placeholder T)
abbrev uP [Zero K] (S : List (K × K)) := uOf dc (placeholder S)

/-- the index type of a (placeholder-adjusted) diagram -/
abbrev PIdx [Zero K] (S : List (K × K)) := Fin (placeholder S).length

/-- **`checkRows_sound_bn`**: rows accepted for `(S, T)` whose largest third entry is `d` ARE a
    partial matching of the two diagrams all of whose pairings cost at most `d`, and one pairing
    costs exactly `d` — a feasible matching of bottleneck cost exactly `d`.
    `hS`/`hT` (`0 ≤` diagonal cost, i.e. `b ≤ d` pointwise) are needed only for `0 ≤ d`. -/
theorem checkRows_sound_bn [LinearOrder K] [Zero K] (S T : List (K × K)) (rows : List (Row K)) (d : K)
    (hpc : ∀ p q, 0 ≤ pc p q) (hS : ∀ p ∈ placeholder S, 0 ≤ dc p) (hT : ∀ p ∈ placeholder T, 0 ≤ dc p)
    (h : checkRowsBn pc dc S T rows d = true) :
    ∃ p : PM (PIdx S) (PIdx T), p.MaxLE (cP pc S T) (uP dc S) (uP dc T) d
      ∧ AttainsMax p (cP pc S T) (uP dc S) (uP dc T) d := by
  simp only [checkRowsBn, Bool.and_eq_true, decide_eq_true_eq] at h
  exact checkCore_sound_bn _ _ _ (fun _ _ => hpc _ _) (fun i => hS _ (List.getElem_mem i.2))
    (fun j => hT _ (List.getElem_mem j.2)) h.1 h.2

/-- the rows supply the `attained` half of `IsBottleneck` at `d`: with the `least` half (what C01
    proves about the returned distance) `d` is the bottleneck cost … -/
theorem rows_witness_attained_bn [LinearOrder K] [Zero K] (S T : List (K × K)) (rows : List (Row K)) (d : K)
    (hpc : ∀ p q, 0 ≤ pc p q) (hS : ∀ p ∈ placeholder S, 0 ≤ dc p) (hT : ∀ p ∈ placeholder T, 0 ≤ dc p)
    (h : checkRowsBn pc dc S T rows d = true)
    (hleast : ∀ (q : PM (PIdx S) (PIdx T)) (d' : K), q.MaxLE (cP pc S T) (uP dc S) (uP dc T) d' → d ≤ d') :
    IsBottleneck (cP pc S T) (uP dc S) (uP dc T) d := by
  obtain ⟨p, hp, -⟩ := checkRows_sound_bn pc dc S T rows d hpc hS hT h
  exact ⟨⟨p, hp⟩, hleast⟩

/-- **`certificate_is_optimal_bn`** … and the matching the rows describe is an optimal one: its
    largest pairing cost is `d`, and no partial matching has all its pairings below `d`. -/
theorem certificate_is_optimal_bn [LinearOrder K] [Zero K] (S T : List (K × K)) (rows : List (Row K)) (d : K)
    (hpc : ∀ p q, 0 ≤ pc p q) (hS : ∀ p ∈ placeholder S, 0 ≤ dc p) (hT : ∀ p ∈ placeholder T, 0 ≤ dc p)
    (h : checkRowsBn pc dc S T rows d = true)
    (hB : IsBottleneck (cP pc S T) (uP dc S) (uP dc T) d) :
    ∃ p : PM (PIdx S) (PIdx T), p.MaxLE (cP pc S T) (uP dc S) (uP dc T) d
      ∧ AttainsMax p (cP pc S T) (uP dc S) (uP dc T) d
      ∧ ∀ (q : PM (PIdx S) (PIdx T)) (d' : K), q.MaxLE (cP pc S T) (uP dc S) (uP dc T) d' → ¬ d' < d := by
  obtain ⟨p, hp, ha⟩ := checkRows_sound_bn pc dc S T rows d hpc hS hT h
  exact ⟨p, hp, ha, fun q d' hq => not_lt.mpr (hB.least q d' hq)⟩

/-- **`checkRows_sound_ws`**: accepted rows ARE a partial matching whose total cost is the sum of
    the third entries (every point in exactly one row, no diagonal–diagonal row, so nothing is
    counted twice or left out). -/
theorem checkRows_sound_ws [AddCommMonoid K] [DecidableEq K] (S T : List (K × K)) (rows : List (Row K))
    (h : checkRows pc dc S T rows = true) :
    ∃ p : PM (PIdx S) (PIdx T), p.sumCost (cP pc S T) (uP dc S) (uP dc T) = rowsSum rows :=
  checkCore_sound_ws _ _ _ h

/-- **`certificate_is_optimal_ws`**: if moreover the sum is the min–sum cost `w` (C02's conclusion
    about the returned distance), the rows are an optimal matching. -/
theorem certificate_is_optimal_ws [AddCommMonoid K] [LinearOrder K] (S T : List (K × K))
    (rows : List (Row K)) (w : K) (h : checkRowsWs pc dc S T rows w = true)
    (hW : IsMinSum (cP pc S T) (uP dc S) (uP dc T) w) :
    ∃ p : PM (PIdx S) (PIdx T), p.sumCost (cP pc S T) (uP dc S) (uP dc T) = w
      ∧ ∀ q : PM (PIdx S) (PIdx T), p.sumCost (cP pc S T) (uP dc S) (uP dc T)
          ≤ q.sumCost (cP pc S T) (uP dc S) (uP dc T) := by
  simp only [checkRowsWs, Bool.and_eq_true, decide_eq_true_eq] at h
  obtain ⟨p, hp⟩ := checkRows_sound_ws pc dc S T rows h.1
  exact ⟨p, hp.trans h.2, fun q => by rw [hp, h.2]; exact hW.least q⟩

/-- the rows supply the `attained` half of `IsMinSum` -/
theorem rows_witness_attained_ws [AddCommMonoid K] [LinearOrder K] (S T : List (K × K))
    (rows : List (Row K)) (w : K) (h : checkRowsWs pc dc S T rows w = true)
    (hleast : ∀ q : PM (PIdx S) (PIdx T), w ≤ q.sumCost (cP pc S T) (uP dc S) (uP dc T)) :
    IsMinSum (cP pc S T) (uP dc S) (uP dc T) w := by
  simp only [checkRowsWs, Bool.and_eq_true, decide_eq_true_eq] at h
  obtain ⟨p, hp⟩ := checkRows_sound_ws pc dc S T rows h.1
  exact ⟨⟨p, hp.trans h.2⟩, hleast⟩

/-- **`empty_as_origin`**: an empty first diagram is the one-point diagram `[(0,0)]`; the checker
    treats both identically and accepts exactly rows in which index 0 of that side occurs once and
    every other row has −1 there (the second diagram alike, by symmetry of the definition). -/
theorem empty_as_origin [Zero K] [DecidableEq K] (T : List (K × K)) (rows : List (Row K)) :
    placeholder ([] : List (K × K)) = [(0, 0)]
    ∧ checkRows pc dc [] T rows = checkRows pc dc [(0, 0)] T rows
    ∧ checkRows pc dc T [] rows = checkRows pc dc T [(0, 0)] rows
    ∧ (checkRows pc dc [] T rows = true →
        rows.countP (fun r => r.i == 0) = 1 ∧ ∀ r ∈ rows, r.i = 0 ∨ r.i = -1)
    ∧ (checkRows pc dc T [] rows = true →
        rows.countP (fun r => r.j == 0) = 1 ∧ ∀ r ∈ rows, r.j = 0 ∨ r.j = -1) := by
  refine ⟨rfl, rfl, rfl, fun h => ?_, fun h => ?_⟩
  · simp only [checkRows, checkCore, Bool.and_eq_true] at h
    obtain ⟨hr, hM, -⟩ := (structOk_iff rows).mp h.1
    refine ⟨by simpa using hM 0 (by simp [placeholder]), fun r hr' => ?_⟩
    have := (inRange_iff _ _ _ _).mp (hr r hr')
    simp only [placeholder, List.length_singleton] at this
    omega
  · simp only [checkRows, checkCore, Bool.and_eq_true] at h
    obtain ⟨hr, -, hN⟩ := (structOk_iff rows).mp h.1
    refine ⟨by simpa using hN 0 (by simp [placeholder]), fun r hr' => ?_⟩
    have := (inRange_iff _ _ _ _).mp (hr r hr')
    simp only [placeholder, List.length_singleton] at this
    omega

end Diagrams


/-! ### the two extraction loops -/

section Extraction
variable {K : Type} {M N : Nat} {c : Fin M → Fin N → K} {u : Fin M → K} {v : Fin N → K}
  {D : Nat → Nat → Option K} {σ : List Nat}

/-- "every perfect matching of the finite entries of `D` selects some entry `≥ d`": `d` is the least
    feasible threshold (explicit hypothesis here; it is what C01 proves about the bisect loop) -/
def LeastFeasible [LE K] (M N : Nat) (D : Nat → Nat → Option K) (d : K) : Prop :=
  ∀ τ : List Nat, τ.Perm (List.range (M + N)) → AllFinite M N D τ →
    ∃ i < M + N, ∃ e, selected D τ i = some e ∧ d ≤ e

/-- **`extractRows_bn_accepted`**.  For every augmented matrix `D` and every perfect matching `σ`
    of its finite entries (a permutation of the `M+N` indices, as a list): the bottleneck loop
    returns rows, the checker accepts them (structure and every third entry), and if all selected
    entries are `≤ d` where `d` is the least feasible threshold, their maximum is exactly `d`.
    `0 ≤` costs (`b ≤ d` for every point) enters only through `extracted_max`: when the largest
    selected entry lies in the dropped zero block. -/
theorem extractRows_bn_accepted [LinearOrder K] [Zero K] (hD : IsAug M N c u v D)
    (hσ : σ.Perm (List.range (M + N))) (hfin : AllFinite M N D σ) :
    ∃ rows, extractRowsBn M N D σ = some rows ∧ checkCore M N c u v rows = true
      ∧ ∀ d : K, 0 < M + N → (∀ i j, 0 ≤ c i j) → (∀ i, 0 ≤ u i) → (∀ j, 0 ≤ v j)
          → (∀ i < M + N, ∀ e, selected D σ i = some e → e ≤ d) → LeastFeasible M N D d
          → rowsMax rows = some d := by
  refine ⟨_, extractRowsBn_eq hfin, extracted_checkCore hD hσ (stepFun_bnG hfin), ?_⟩
  intro d hpos hc0 hu0 hv0 hle hleast
  obtain ⟨i, hi, e, he, hde⟩ := hleast σ hσ hfin
  have : e = d := le_antisymm (hle i hi e he) hde
  exact extracted_max hD hσ hfin hpos hc0 hu0 hv0 hle ⟨i, hi, this ▸ he⟩

/-- **`extractRows_ws_accepted`**: the Wasserstein post-processing (re-index, drop `i + j = -2`)
    returns rows the checker accepts, and their sum is the sum of ALL selected entries, i.e. the
    reported `matchdist` (the dropped rows lie in the zero block). -/
theorem extractRows_ws_accepted [AddCommMonoid K] [DecidableEq K] (hD : IsAug M N c u v D)
    (hσ : σ.Perm (List.range (M + N))) (hfin : AllFinite M N D σ) :
    ∃ rows, extractRowsWs M N D σ = some rows ∧ checkCore M N c u v rows = true
      ∧ selectedSum M N D σ = some (rowsSum rows) :=
  ⟨_, extractRowsWs_eq hfin, extracted_checkCore hD hσ (stepFun_bnG hfin), extracted_sum hD hσ hfin⟩

/-- both loops return the same rows for the same assignment -/
theorem extractRows_ws_eq_bn [Zero K] (hfin : AllFinite M N D σ) :
    extractRowsWs M N D σ = extractRowsBn M N D σ := by
  rw [extractRowsWs_eq hfin, extractRowsBn_eq hfin]

/-- **`bn_rows_certify`** (DESIGN.md C06): extraction composed with soundness.  For every perfect
    matching `σ` of the finite entries all `≤ d`, `d` the least feasible threshold: the returned
    rows are a partial matching with every pairing `≤ d` and one `= d`. -/
theorem bn_rows_certify [LinearOrder K] [Zero K] (hD : IsAug M N c u v D)
    (hσ : σ.Perm (List.range (M + N))) (hfin : AllFinite M N D σ) (hpos : 0 < M + N)
    (hc0 : ∀ i j, 0 ≤ c i j) (hu0 : ∀ i, 0 ≤ u i) (hv0 : ∀ j, 0 ≤ v j) {d : K}
    (hle : ∀ i < M + N, ∀ e, selected D σ i = some e → e ≤ d) (hleast : LeastFeasible M N D d) :
    ∃ rows, extractRowsBn M N D σ = some rows ∧ checkCore M N c u v rows = true
      ∧ rowsMax rows = some d
      ∧ ∃ p : PM (Fin M) (Fin N), p.MaxLE c u v d ∧ AttainsMax p c u v d := by
  obtain ⟨rows, he, hc, hm⟩ := extractRows_bn_accepted hD hσ hfin
  have hmax := hm d hpos hc0 hu0 hv0 hle hleast
  exact ⟨rows, he, hc, hmax, checkCore_sound_bn c u v hc0 hu0 hv0 hc hmax⟩

/-- **`ws_rows_certify`** (DESIGN.md C06): the returned rows are a partial matching whose total
    cost is the reported `matchdist` (the sum of all selected entries). -/
theorem ws_rows_certify [AddCommMonoid K] [DecidableEq K] (hD : IsAug M N c u v D)
    (hσ : σ.Perm (List.range (M + N))) (hfin : AllFinite M N D σ) :
    ∃ rows w, extractRowsWs M N D σ = some rows ∧ selectedSum M N D σ = some w
      ∧ checkCore M N c u v rows = true ∧ rowsSum rows = w
      ∧ ∃ p : PM (Fin M) (Fin N), p.sumCost c u v = w := by
  obtain ⟨rows, he, hc, hs⟩ := extractRows_ws_accepted hD hσ hfin
  exact ⟨rows, rowsSum rows, he, hs, hc, rfl, checkCore_sound_ws c u v hc⟩

/-- a permutation of `Fin (M+N)` as the list the model consumes -/
def permList {n : Nat} (σ : Equiv.Perm (Fin n)) : List Nat := List.ofFn fun i => ((σ i : Fin n) : Nat)

theorem permList_perm {n : Nat} (σ : Equiv.Perm (Fin n)) : (permList σ).Perm (List.range n) := by
  have h := σ.ofFn_comp_perm (fun i : Fin n => (i : Nat))
  have e : List.ofFn (fun i : Fin n => (i : Nat)) = List.range n := by
    rw [List.ofFn_eq_map, List.map_coe_finRange_eq_range]
  rw [e] at h
  exact h

/-- the same two theorems for `σ : Equiv.Perm (Fin (M+N))` -/
theorem extractRows_accepted_of_equiv [AddCommMonoid K] [DecidableEq K] (hD : IsAug M N c u v D)
    (τ : Equiv.Perm (Fin (M + N))) (hfin : AllFinite M N D (permList τ)) :
    ∃ rows, extractRowsBn M N D (permList τ) = some rows ∧ extractRowsWs M N D (permList τ) = some rows
      ∧ checkCore M N c u v rows = true ∧ selectedSum M N D (permList τ) = some (rowsSum rows) :=
  ⟨_, extractRowsBn_eq hfin, extractRowsWs_eq hfin,
    extracted_checkCore hD (permList_perm τ) (stepFun_bnG hfin), extracted_sum hD (permList_perm τ) hfin⟩

end Extraction

/-! ### the flag -/

/-- **`matching_flag_irrelevant`** (bottleneck model): the distance component of the two entry
    points is the same value (the comparison on the real code is done by the harness). -/
theorem matching_flag_irrelevant_bn {α : Type} (bdist : α) (M N : Nat) (D : Nat → Nat → Option α)
    (σ : List Nat) : (bnReturn true bdist M N D σ).1 = (bnReturn false bdist M N D σ).1 := rfl

/-- **`matching_flag_irrelevant`** (Wasserstein model) -/
theorem matching_flag_irrelevant_ws {α : Type} [Add α] [Zero α] (M N : Nat) (D : Nat → Nat → Option α)
    (σ : List Nat) : (wsReturn true M N D σ).1 = (wsReturn false M N D σ).1 := rfl


/-! ### end to end on the model: extraction from the model's own matrix, then the checker -/

/-- for any two diagrams, any cost rule and any perfect matching `σ` of the finite entries of the
    model's augmented matrix, both loops return the same rows and `checkRows` accepts them -/
theorem extracted_rows_pass_checkRows {K : Type} [Zero K] [DecidableEq K] (pc : K × K → K × K → K)
    (dc : K × K → K) (S T : List (K × K)) (σ : List Nat)
    (hσ : σ.Perm (List.range ((placeholder S).length + (placeholder T).length)))
    (hfin : AllFinite (placeholder S).length (placeholder T).length
      (augD pc dc (placeholder S) (placeholder T)) σ) :
    ∃ rows,
      extractRowsBn (placeholder S).length (placeholder T).length (augD pc dc (placeholder S) (placeholder T)) σ
        = some rows
      ∧ extractRowsWs (placeholder S).length (placeholder T).length (augD pc dc (placeholder S) (placeholder T)) σ
        = some rows
      ∧ checkRows pc dc S T rows = true :=
  ⟨_, extractRowsBn_eq hfin, extractRowsWs_eq hfin,
    extracted_checkCore (augD_isAug pc dc _ _) hσ (stepFun_bnG hfin)⟩

/-! ### the two cost rules of persim -/

section CostRules
variable {K : Type} [Field K] [LinearOrder K] [IsStrictOrderedRing K]

omit [IsStrictOrderedRing K] in
/-- the driver's L∞ cost (core classes only) is the specification's `linf` -/
theorem linfM_eq : (linfM : K × K → K × K → K) = linf := by
  funext p q
  simp only [linfM, absM, linf, abs_eq_max_neg]

omit [LinearOrder K] [IsStrictOrderedRing K] in
/-- the driver's `(d-b)/2` is the specification's `diagInf` -/
theorem diagInfM_eq : (diagInfM : K × K → K) = diagInf := rfl

theorem placeholder_proper {S : List (K × K)} (hS : ∀ p ∈ S, p.1 ≤ p.2) :
    ∀ p ∈ placeholder S, 0 ≤ diagInf p := by
  intro p hp
  have : p.1 ≤ p.2 := by
    cases S with
    | nil => simp only [placeholder, List.mem_singleton] at hp; rw [hp]
    | cons a t => exact hS p hp
  unfold diagInf
  have : 0 ≤ p.2 - p.1 := sub_nonneg.mpr this
  positivity

/-- **bottleneck, what the driver op `cert.rows.bn` decides** (any linear ordered field, in
    particular ℚ = the driver's `Rat`): accepted rows with maximum `d` are a partial matching of the
    placeholder-adjusted diagrams with all L∞ / `(d-b)/2` costs `≤ d` and one `= d`; if `d` is the
    bottleneck cost (C01), no partial matching does better. -/
theorem bottleneck_rows_certify (S T : List (K × K)) (hS : ∀ p ∈ S, p.1 ≤ p.2) (hT : ∀ p ∈ T, p.1 ≤ p.2)
    (rows : List (Row K)) (d : K) (h : checkRowsBn linfM diagInfM S T rows d = true) :
    ∃ p : PM (PIdx S) (PIdx T), p.MaxLE (cP linf S T) (uP diagInf S) (uP diagInf T) d
      ∧ AttainsMax p (cP linf S T) (uP diagInf S) (uP diagInf T) d
      ∧ (IsBottleneck (cP linf S T) (uP diagInf S) (uP diagInf T) d →
          ∀ (q : PM (PIdx S) (PIdx T)) (d' : K),
            q.MaxLE (cP linf S T) (uP diagInf S) (uP diagInf T) d' → ¬ d' < d) := by
  rw [linfM_eq, diagInfM_eq] at h
  obtain ⟨p, hp, ha⟩ := checkRows_sound_bn linf diagInf S T rows d
    (fun p q => le_max_of_le_left (abs_nonneg _)) (placeholder_proper hS) (placeholder_proper hT) h
  exact ⟨p, hp, ha, fun hB q d' hq => not_lt.mpr (hB.least q d' hq)⟩

end CostRules

/-- **the function the driver executes** (`Rows.checkBnRat`, compiled without Mathlib, core `Rat`
    instances) is an instance of the theorem above at `K = ℚ`: whenever `cert.rows.bn` answers
    `T` on the rows returned by the real code, those rows are a partial matching of the two
    diagrams whose largest L∞ / `(d-b)/2` cost is exactly the reported distance. -/
theorem checkBnRat_certifies (S T : List (ℚ × ℚ)) (hS : ∀ p ∈ S, p.1 ≤ p.2) (hT : ∀ p ∈ T, p.1 ≤ p.2)
    (rows : List (Row ℚ)) (d : ℚ) (h : checkBnRat S T rows d = true) :
    ∃ p : PM (PIdx S) (PIdx T), p.MaxLE (cP linf S T) (uP diagInf S) (uP diagInf T) d
      ∧ AttainsMax p (cP linf S T) (uP diagInf S) (uP diagInf T) d := by
  obtain ⟨p, hp, ha, -⟩ := bottleneck_rows_certify S T hS hT rows d h
  exact ⟨p, hp, ha⟩

section Reals
open PersimVerif.C07

/-- the driver's Euclidean cost with `sqrt := Real.sqrt` is C07's `euclid` -/
theorem euclidM_eq : (euclidM Real.sqrt : ℝ × ℝ → ℝ × ℝ → ℝ) = euclid := by
  funext p q
  simp only [euclidM, euclid, pow_two]

/-- the driver's `(d-b)/√2` is C07's `diagL2` -/
theorem diagL2M_eq : (diagL2M Real.sqrt : ℝ × ℝ → ℝ) = diagL2 := rfl

/-- the placeholder-adjusted diagram as a function on its index type -/
abbrev pts (S : List Pt) : PIdx S → Pt := fun i => (placeholder S)[i]

/-- **C06 for the bottleneck distance, over ℝ with C07's cost system**: if `d` is the bottleneck
    distance of the placeholder-adjusted diagrams (C01) then rows accepted by the checker with
    maximum `d` are an optimal matching. -/
theorem bottleneck_matching_certifies (S T : List Pt) (hS : ∀ p ∈ S, p.1 ≤ p.2) (hT : ∀ p ∈ T, p.1 ≤ p.2)
    (rows : List (Row ℝ)) (d : ℝ) (h : checkRowsBn linfM diagInfM S T rows d = true)
    (hB : IsBn (pts S) (pts T) d) :
    ∃ p : PM (PIdx S) (PIdx T), p.MaxLE (cB (pts S) (pts T)) (uB (pts S)) (uB (pts T)) d
      ∧ AttainsMax p (cB (pts S) (pts T)) (uB (pts S)) (uB (pts T)) d
      ∧ ∀ (q : PM (PIdx S) (PIdx T)) (d' : ℝ),
          q.MaxLE (cB (pts S) (pts T)) (uB (pts S)) (uB (pts T)) d' → ¬ d' < d := by
  obtain ⟨p, hp, ha, hopt⟩ := bottleneck_rows_certify S T hS hT rows d h
  exact ⟨p, hp, ha, hopt hB⟩

/-- **C06 for the Wasserstein distance, over ℝ with C07's cost system**: rows accepted by the
    checker are a partial matching whose total Euclidean / `(d-b)/√2` cost is the sum of the third
    entries; if that sum is the Wasserstein distance `w` (C02) the matching is optimal. -/
theorem wasserstein_matching_certifies (S T : List Pt) (rows : List (Row ℝ)) (w : ℝ)
    (h : checkRowsWs (euclidM Real.sqrt) (diagL2M Real.sqrt) S T rows w = true)
    (hW : IsWs (pts S) (pts T) w) :
    ∃ p : PM (PIdx S) (PIdx T), p.sumCost (cW (pts S) (pts T)) (uW (pts S)) (uW (pts T)) = w
      ∧ ∀ q : PM (PIdx S) (PIdx T), p.sumCost (cW (pts S) (pts T)) (uW (pts S)) (uW (pts T))
          ≤ q.sumCost (cW (pts S) (pts T)) (uW (pts S)) (uW (pts T)) := by
  rw [euclidM_eq, diagL2M_eq] at h
  exact certificate_is_optimal_ws euclid diagL2 S T rows w h hW

end Reals

/-! ### non-vacuity: concrete rows accepted / rejected (executed by the kernel at `Rat`, the type the
    driver op `cert.rows.bn` runs at) -/

section Examples

private def S0 : List (Rat × Rat) := [(0, 2), (1, 4)]
private def T0 : List (Rat × Rat) := [(0, 3)]

-- an optimal matching of S0, T0: (0,2)–(0,3) costs 1, (1,4) goes to the diagonal at 3/2
example : checkRowsBn linfM diagInfM S0 T0 [⟨0, 0, 1⟩, ⟨1, -1, 3/2⟩] (3/2) = true := by decide +kernel
-- row order is irrelevant
example : checkRowsBn linfM diagInfM S0 T0 [⟨1, -1, 3/2⟩, ⟨0, 0, 1⟩] (3/2) = true := by decide +kernel
-- a feasible but different matching is accepted with ITS maximum (any matching is checked, not compared)
example : checkRowsBn linfM diagInfM S0 T0 [⟨0, -1, 1⟩, ⟨1, 0, 1⟩] 1 = true := by decide +kernel
-- a duplicated index
example : checkRowsBn linfM diagInfM S0 T0 [⟨0, 0, 1⟩, ⟨0, -1, 1⟩, ⟨1, -1, 3/2⟩] (3/2) = false := by decide +kernel
-- a point that is in no row
example : checkRowsBn linfM diagInfM S0 T0 [⟨0, 0, 1⟩] 1 = false := by decide +kernel
-- a wrong cost
example : checkRowsBn linfM diagInfM S0 T0 [⟨0, 0, 1⟩, ⟨1, -1, 3⟩] 3 = false := by decide +kernel
-- a (−1,−1) row
example : checkRowsBn linfM diagInfM S0 T0 [⟨0, 0, 1⟩, ⟨1, -1, 3/2⟩, ⟨-1, -1, 0⟩] (3/2) = false := by decide +kernel
-- an index out of range (the −1 convention dropped: column index ≥ N)
example : checkRowsBn linfM diagInfM S0 T0 [⟨0, 0, 1⟩, ⟨1, 2, 3/2⟩] (3/2) = false := by decide +kernel
-- a maximum that is not attained / too small
example : checkRowsBn linfM diagInfM S0 T0 [⟨0, 0, 1⟩, ⟨1, -1, 3/2⟩] 2 = false := by decide +kernel
example : checkRowsBn linfM diagInfM S0 T0 [⟨0, 0, 1⟩, ⟨1, -1, 3/2⟩] 1 = false := by decide +kernel
-- the sum version (the checker is generic in the cost rule; `sqrt` is not available at `Rat`)
example : checkRowsWs linfM diagInfM S0 T0 [⟨0, 0, 1⟩, ⟨1, -1, 3/2⟩] (5/2) = true := by decide +kernel
example : checkRowsWs linfM diagInfM S0 T0 [⟨0, 0, 1⟩, ⟨1, -1, 3/2⟩] (3/2) = false := by decide +kernel
-- an empty side is index 0 of [(0,0)]
example : checkRowsBn linfM diagInfM [] T0 [⟨0, -1, 0⟩, ⟨-1, 0, 3/2⟩] (3/2) = true := by decide +kernel
example : checkRowsBn linfM diagInfM [] T0 [⟨0, 0, 3⟩] 3 = true := by decide +kernel
example : checkRowsBn linfM diagInfM [] T0 [⟨-1, 0, 3/2⟩] (3/2) = false := by decide +kernel
example : checkRowsBn linfM diagInfM [] [] [⟨0, 0, 0⟩] 0 = true := by decide +kernel

-- the extraction loops on the model's matrix of S0, T0 and the assignment 0↦0, 1↦2 (its diagonal
-- slot), 2↦1 (zero block, dropped): hypotheses of the extraction theorems are met …
example : [0, 2, 1].Perm (List.range (2 + 1)) := by decide
example : AllFinite 2 1 (augD linfM diagInfM S0 T0) [0, 2, 1] := by unfold AllFinite; decide +kernel
example : IsAug S0.length T0.length (cOf linfM S0 T0) (uOf diagInfM S0) (uOf diagInfM T0)
    (augD linfM diagInfM S0 T0) := augD_isAug linfM diagInfM S0 T0
-- … and the conclusion, computed
example : extractRowsBn 2 1 (augD linfM diagInfM S0 T0) [0, 2, 1] = some [⟨0, 0, 1⟩, ⟨1, -1, 3/2⟩] := by
  decide +kernel
example : extractRowsWs 2 1 (augD linfM diagInfM S0 T0) [0, 2, 1] = some [⟨0, 0, 1⟩, ⟨1, -1, 3/2⟩] := by
  decide +kernel
-- an assignment through an ∞ entry is rejected, not defaulted
example : extractRowsBn 2 1 (augD linfM diagInfM S0 T0) [0, 1, 2] = none := by decide +kernel
-- `LeastFeasible` is satisfiable: for [(0,2)] vs [(0,3)] every perfect matching uses an entry ≥ 1
example : LeastFeasible 1 1 (augD linfM diagInfM [((0 : Rat), (2 : Rat))] [(0, 3)]) 1 := by
  intro τ hτ _
  obtain ⟨j, hj, hlt⟩ := perm_get hτ 0 (by decide)
  refine ⟨0, by decide, 1, ?_, by decide +kernel⟩
  have : j = 0 ∨ j = 1 := by omega
  rcases this with rfl | rfl <;> simp only [selected, hj, Option.bind_some] <;> decide +kernel

end Examples

end PersimVerif.C06
