import PersimVerif.Model.Rows
import PersimVerif.Spec.Matching

namespace PersimVerif.C06
open PersimVerif.Rows PersimVerif.Spec

/-- the distance component does not depend on the `matching` flag (bottleneck) -/
theorem matching_flag_irrelevant_bn {α : Type} (bdist : α) (M N : Nat) (D : Nat → Nat → Option α) (σ : List Nat) :
    (bnReturn true bdist M N D σ).1 = (bnReturn false bdist M N D σ).1 := rfl

end PersimVerif.C06
