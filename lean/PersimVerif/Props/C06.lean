import PersimVerif.Lemmas.RowsSound

/-!
# C06 — returned matchings certify the reported bottleneck / Wasserstein distance

Part 1 (this section): the certificate checker `Rows.checkRows` is sound against the
partial-matching specification `Spec.PM`.  Nothing here depends on how the rows were produced.
-/
namespace PersimVerif.C06
open PersimVerif.Rows PersimVerif.Spec

/-- the largest pairing cost of `p` is exactly `d`: some point pays `d` (together with
    `p.MaxLE c u v d` this says "the matching `p` has bottleneck cost `d`") -/
def AttainsMax {M N K : Type} (p : PM M N) (c : M → N → K) (u : M → K) (v : N → K) (d : K) : Prop :=
  (∃ i, p.rowCost c u i = d) ∨ (∃ j, p.g j = none ∧ v j = d)

section Core
variable {K : Type} {M N : Nat} (c : Fin M → Fin N → K) (u : Fin M → K) (v : Fin N → K)

/-- index-level soundness, bottleneck.  `0 ≤` costs (that is `b ≤ d` for every point) is used for
    one thing only: `MaxLE` demands `0 ≤ d`, and `d` is the third entry of some row. -/
theorem checkCore_sound_bn [LinearOrder K] [Zero K] {rows : List (Row K)} {d : K}
    (hc0 : ∀ i j, 0 ≤ c i j) (hu0 : ∀ i, 0 ≤ u i) (hv0 : ∀ j, 0 ≤ v j)
    (h : checkCore M N c u v rows = true) (hd : rowsMax rows = some d) :
    ∃ p : PM (Fin M) (Fin N), p.MaxLE c u v d ∧ AttainsMax p c u v d := by
  simp only [checkCore, Bool.and_eq_true] at h
  obtain ⟨hs, hc⟩ := h
  obtain ⟨t, hi, hj⟩ := exists_table rows hs
  have hc' : ∀ a : Fin rows.length, expected M N c u v (t.ri a) (t.rj a) = some rows[a].cost := by
    intro a; rw [hi, hj]; exact (costsExact_iff c u v rows).mp hc _ (List.getElem_mem a.2)
  obtain ⟨⟨r, hr, rfl⟩, hle⟩ := (rowsMax_eq_some_iff rows d).mp hd
  obtain ⟨a, ha, rfl⟩ := List.getElem_of_mem hr
  have h0 : 0 ≤ rows[a].cost := by
    rcases expected_cases c u v (hc' ⟨a, ha⟩) with ⟨x, y, _, _, e⟩ | ⟨x, _, _, e⟩ | ⟨y, _, _, e⟩
    · exact e ▸ hc0 x y
    · exact e ▸ hu0 x
    · exact e ▸ hv0 y
  exact ⟨t.toPM, t.maxLE c u v _ hc' h0 (fun b => hle _ (List.getElem_mem b.2)),
    t.attains c u v _ hc' ⟨a, ha⟩⟩

/-- index-level soundness, Wasserstein: the sum of the third entries IS the total cost of the
    matching the rows describe (every point in exactly one row; no diagonal–diagonal row). -/
theorem checkCore_sound_ws [AddCommMonoid K] [DecidableEq K] {rows : List (Row K)}
    (h : checkCore M N c u v rows = true) :
    ∃ p : PM (Fin M) (Fin N), p.sumCost c u v = rowsSum rows := by
  simp only [checkCore, Bool.and_eq_true] at h
  obtain ⟨hs, hc⟩ := h
  obtain ⟨t, hi, hj⟩ := exists_table rows hs
  have hc' : ∀ a : Fin rows.length, expected M N c u v (t.ri a) (t.rj a) = some rows[a].cost := by
    intro a; rw [hi, hj]; exact (costsExact_iff c u v rows).mp hc _ (List.getElem_mem a.2)
  exact ⟨t.toPM, by rw [t.sum_eq c u v _ hc', rowsSum_eq_sum_fin]⟩

end Core

end PersimVerif.C06
