import PersimVerif.Lemmas.RowsSound
import PersimVerif.Lemmas.RowsExtract
import PersimVerif.Props.C07
import Mathlib.Data.List.FinRange

/-!
# C06 — returned matchings certify the reported bottleneck / Wasserstein distance

Part 1 (this section): the certificate checker `Rows.checkRows` is sound against the
partial-matching specification `Spec.PM`.  Nothing here depends on how the rows were produced.
-/
namespace PersimVerif.C06
open PersimVerif.Rows PersimVerif.Spec

/-- the largest pairing cost of `p` is exactly `d`: some point pays `d` (together with
    `p.MaxLE c u v d` this says "the matching `p` has bottleneck cost `d`") -/
def AttainsMax {M N K : Type} (p : PM M N) (c : M → N → K) (u : M → K) (v : N → K) (d : K) : Prop :=
  (∃ i, p.rowCost c u i = d) ∨ (∃ j, p.g j = none ∧ v j = d)

section Core
variable {K : Type} {M N : Nat} (c : Fin M → Fin N → K) (u : Fin M → K) (v : Fin N → K)

/-- index-level soundness, bottleneck.  `0 ≤` costs (that is `b ≤ d` for every point) is used for
    one thing only: `MaxLE` demands `0 ≤ d`, and `d` is the third entry of some row. -/
theorem checkCore_sound_bn [LinearOrder K] [Zero K] {rows : List (Row K)} {d : K}
    (hc0 : ∀ i j, 0 ≤ c i j) (hu0 : ∀ i, 0 ≤ u i) (hv0 : ∀ j, 0 ≤ v j)
    (h : checkCore M N c u v rows = true) (hd : rowsMax rows = some d) :
    ∃ p : PM (Fin M) (Fin N), p.MaxLE c u v d ∧ AttainsMax p c u v d := by
  simp only [checkCore, Bool.and_eq_true] at h
  obtain ⟨hs, hc⟩ := h
  obtain ⟨t, hi, hj⟩ := exists_table rows hs
  have hc' : ∀ a : Fin rows.length, expected M N c u v (t.ri a) (t.rj a) = some rows[a].cost := by
    intro a; rw [hi, hj]; exact (costsExact_iff c u v rows).mp hc _ (List.getElem_mem a.2)
  obtain ⟨⟨r, hr, rfl⟩, hle⟩ := (rowsMax_eq_some_iff rows d).mp hd
  obtain ⟨a, ha, rfl⟩ := List.getElem_of_mem hr
  have h0 : 0 ≤ rows[a].cost := by
    rcases expected_cases c u v (hc' ⟨a, ha⟩) with ⟨x, y, _, _, e⟩ | ⟨x, _, _, e⟩ | ⟨y, _, _, e⟩
    · exact e ▸ hc0 x y
    · exact e ▸ hu0 x
    · exact e ▸ hv0 y
  exact ⟨t.toPM, t.maxLE c u v _ hc' h0 (fun b => hle _ (List.getElem_mem b.2)),
    t.attains c u v _ hc' ⟨a, ha⟩⟩

/-- index-level soundness, Wasserstein: the sum of the third entries IS the total cost of the
    matching the rows describe (every point in exactly one row; no diagonal–diagonal row). -/
theorem checkCore_sound_ws [AddCommMonoid K] [DecidableEq K] {rows : List (Row K)}
    (h : checkCore M N c u v rows = true) :
    ∃ p : PM (Fin M) (Fin N), p.sumCost c u v = rowsSum rows := by
  simp only [checkCore, Bool.and_eq_true] at h
  obtain ⟨hs, hc⟩ := h
  obtain ⟨t, hi, hj⟩ := exists_table rows hs
  have hc' : ∀ a : Fin rows.length, expected M N c u v (t.ri a) (t.rj a) = some rows[a].cost := by
    intro a; rw [hi, hj]; exact (costsExact_iff c u v rows).mp hc _ (List.getElem_mem a.2)
  exact ⟨t.toPM, by rw [t.sum_eq c u v _ hc', rowsSum_eq_sum_fin]⟩

end Core

/-! ### the checker on diagrams (placeholder-adjusted index types) -/

section Diagrams
variable {K : Type} (pc : K × K → K × K → K) (dc : K × K → K)

/-- pair costs / diagonal costs of the placeholder-adjusted diagrams, by index -/
abbrev cP [Zero K] (S T : List (K × K)) := cOf pc (placeholder S) (placeholder T)
abbrev uP [Zero K] (S : List (K × K)) := uOf dc (placeholder S)

/-- the index type of a (placeholder-adjusted) diagram -/
abbrev PIdx [Zero K] (S : List (K × K)) := Fin (placeholder S).length

/-- **`checkRows_sound_bn`**: rows accepted for `(S, T)` whose largest third entry is `d` ARE a
    partial matching of the two diagrams all of whose pairings cost at most `d`, and one pairing
    costs exactly `d` — a feasible matching of bottleneck cost exactly `d`.
    `hS`/`hT` (`0 ≤` diagonal cost, i.e. `b ≤ d` pointwise) are needed only for `0 ≤ d`. -/
theorem checkRows_sound_bn [LinearOrder K] [Zero K] (S T : List (K × K)) (rows : List (Row K)) (d : K)
    (hpc : ∀ p q, 0 ≤ pc p q) (hS : ∀ p ∈ placeholder S, 0 ≤ dc p) (hT : ∀ p ∈ placeholder T, 0 ≤ dc p)
    (h : checkRowsBn pc dc S T rows d = true) :
    ∃ p : PM (PIdx S) (PIdx T), p.MaxLE (cP pc S T) (uP dc S) (uP dc T) d
      ∧ AttainsMax p (cP pc S T) (uP dc S) (uP dc T) d := by
  simp only [checkRowsBn, Bool.and_eq_true, decide_eq_true_eq] at h
  exact checkCore_sound_bn _ _ _ (fun _ _ => hpc _ _) (fun i => hS _ (List.getElem_mem i.2))
    (fun j => hT _ (List.getElem_mem j.2)) h.1 h.2

/-- the rows supply the `attained` half of `IsBottleneck` at `d`: with the `least` half (what C01
    proves about the returned distance) `d` is the bottleneck cost … -/
theorem rows_witness_attained_bn [LinearOrder K] [Zero K] (S T : List (K × K)) (rows : List (Row K)) (d : K)
    (hpc : ∀ p q, 0 ≤ pc p q) (hS : ∀ p ∈ placeholder S, 0 ≤ dc p) (hT : ∀ p ∈ placeholder T, 0 ≤ dc p)
    (h : checkRowsBn pc dc S T rows d = true)
    (hleast : ∀ (q : PM (PIdx S) (PIdx T)) (d' : K), q.MaxLE (cP pc S T) (uP dc S) (uP dc T) d' → d ≤ d') :
    IsBottleneck (cP pc S T) (uP dc S) (uP dc T) d := by
  obtain ⟨p, hp, -⟩ := checkRows_sound_bn pc dc S T rows d hpc hS hT h
  exact ⟨⟨p, hp⟩, hleast⟩

/-- **`certificate_is_optimal_bn`** … and the matching the rows describe is an optimal one: its
    largest pairing cost is `d`, and no partial matching has all its pairings below `d`. -/
theorem certificate_is_optimal_bn [LinearOrder K] [Zero K] (S T : List (K × K)) (rows : List (Row K)) (d : K)
    (hpc : ∀ p q, 0 ≤ pc p q) (hS : ∀ p ∈ placeholder S, 0 ≤ dc p) (hT : ∀ p ∈ placeholder T, 0 ≤ dc p)
    (h : checkRowsBn pc dc S T rows d = true)
    (hB : IsBottleneck (cP pc S T) (uP dc S) (uP dc T) d) :
    ∃ p : PM (PIdx S) (PIdx T), p.MaxLE (cP pc S T) (uP dc S) (uP dc T) d
      ∧ AttainsMax p (cP pc S T) (uP dc S) (uP dc T) d
      ∧ ∀ (q : PM (PIdx S) (PIdx T)) (d' : K), q.MaxLE (cP pc S T) (uP dc S) (uP dc T) d' → ¬ d' < d := by
  obtain ⟨p, hp, ha⟩ := checkRows_sound_bn pc dc S T rows d hpc hS hT h
  exact ⟨p, hp, ha, fun q d' hq => not_lt.mpr (hB.least q d' hq)⟩

/-- **`checkRows_sound_ws`**: accepted rows ARE a partial matching whose total cost is the sum of
    the third entries (every point in exactly one row, no diagonal–diagonal row, so nothing is
    counted twice or left out). -/
theorem checkRows_sound_ws [AddCommMonoid K] [DecidableEq K] (S T : List (K × K)) (rows : List (Row K))
    (h : checkRows pc dc S T rows = true) :
    ∃ p : PM (PIdx S) (PIdx T), p.sumCost (cP pc S T) (uP dc S) (uP dc T) = rowsSum rows :=
  checkCore_sound_ws _ _ _ h

/-- **`certificate_is_optimal_ws`**: if moreover the sum is the min–sum cost `w` (C02's conclusion
    about the returned distance), the rows are an optimal matching. -/
theorem certificate_is_optimal_ws [AddCommMonoid K] [LinearOrder K] (S T : List (K × K))
    (rows : List (Row K)) (w : K) (h : checkRowsWs pc dc S T rows w = true)
    (hW : IsMinSum (cP pc S T) (uP dc S) (uP dc T) w) :
    ∃ p : PM (PIdx S) (PIdx T), p.sumCost (cP pc S T) (uP dc S) (uP dc T) = w
      ∧ ∀ q : PM (PIdx S) (PIdx T), p.sumCost (cP pc S T) (uP dc S) (uP dc T)
          ≤ q.sumCost (cP pc S T) (uP dc S) (uP dc T) := by
  simp only [checkRowsWs, Bool.and_eq_true, decide_eq_true_eq] at h
  obtain ⟨p, hp⟩ := checkRows_sound_ws pc dc S T rows h.1
  exact ⟨p, hp.trans h.2, fun q => by rw [hp, h.2]; exact hW.least q⟩

/-- the rows supply the `attained` half of `IsMinSum` -/
theorem rows_witness_attained_ws [AddCommMonoid K] [LinearOrder K] (S T : List (K × K))
    (rows : List (Row K)) (w : K) (h : checkRowsWs pc dc S T rows w = true)
    (hleast : ∀ q : PM (PIdx S) (PIdx T), w ≤ q.sumCost (cP pc S T) (uP dc S) (uP dc T)) :
    IsMinSum (cP pc S T) (uP dc S) (uP dc T) w := by
  simp only [checkRowsWs, Bool.and_eq_true, decide_eq_true_eq] at h
  obtain ⟨p, hp⟩ := checkRows_sound_ws pc dc S T rows h.1
  exact ⟨⟨p, hp.trans h.2⟩, hleast⟩

/-- **`empty_as_origin`**: an empty first diagram is the one-point diagram `[(0,0)]`; the checker
    treats both identically and accepts exactly rows in which index 0 of that side occurs once and
    every other row has −1 there (the second diagram alike, by symmetry of the definition). -/
theorem empty_as_origin [Zero K] [DecidableEq K] (T : List (K × K)) (rows : List (Row K)) :
    placeholder ([] : List (K × K)) = [(0, 0)]
    ∧ checkRows pc dc [] T rows = checkRows pc dc [(0, 0)] T rows
    ∧ checkRows pc dc T [] rows = checkRows pc dc T [(0, 0)] rows
    ∧ (checkRows pc dc [] T rows = true →
        rows.countP (fun r => r.i == 0) = 1 ∧ ∀ r ∈ rows, r.i = 0 ∨ r.i = -1)
    ∧ (checkRows pc dc T [] rows = true →
        rows.countP (fun r => r.j == 0) = 1 ∧ ∀ r ∈ rows, r.j = 0 ∨ r.j = -1) := by
  refine ⟨rfl, rfl, rfl, fun h => ?_, fun h => ?_⟩
  · simp only [checkRows, checkCore, Bool.and_eq_true] at h
    obtain ⟨hr, hM, -⟩ := (structOk_iff rows).mp h.1
    refine ⟨by simpa using hM 0 (by simp [placeholder]), fun r hr' => ?_⟩
    have := (inRange_iff _ _ _ _).mp (hr r hr')
    simp only [placeholder, List.length_singleton] at this
    omega
  · simp only [checkRows, checkCore, Bool.and_eq_true] at h
    obtain ⟨hr, -, hN⟩ := (structOk_iff rows).mp h.1
    refine ⟨by simpa using hN 0 (by simp [placeholder]), fun r hr' => ?_⟩
    have := (inRange_iff _ _ _ _).mp (hr r hr')
    simp only [placeholder, List.length_singleton] at this
    omega

end Diagrams

end PersimVerif.C06
