import PersimVerif.Model.Sliced
namespace PersimVerif.C15
end PersimVerif.C15
