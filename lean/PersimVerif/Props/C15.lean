import PersimVerif.Model.Sliced
import PersimVerif.Lemmas.Sums
import PersimVerif.Lemmas.SortedL1
import PersimVerif.Lemmas.SlicedW1
import PersimVerif.Spec.Matching
import Mathlib.Analysis.Real.Sqrt
import Mathlib.Algebra.BigOperators.Ring.List
import Mathlib.Tactic.Ring
import Mathlib.Tactic.Linarith
import Mathlib.Tactic.FieldSimp
import Mathlib.Tactic.NormNum

/-!
# C15 — sliced Wasserstein is the averaged 1-D transport cost and a pseudo-metric

All statements are about `PersimVerif.Sliced` (the model of `persim/sliced_wasserstein.py`)
instantiated at `ℝ`, for an **arbitrary list of directions** `dirs` (the code's `M` float64 vectors
`(cos θ_i, sin θ_i)` are one such list; `M = dirs.length`) and diagrams of every size with coordinates
of either sign.  The diagonal projection is the one after fix 1c74424, `dot(dd, p) / s`, with
`dd = (c, c)`, `s = 2c`, `c·c = 1/2` (i.e. `c = cos π/4 = 1/√2`, `s = √2`); only the theorems that
need the projection to be the orthogonal projection onto the diagonal carry this hypothesis (`Diag`).

**Proved:** `sw_eq_average` (the value is the average over the directions of the sorted L1 cost of the
augmented projections), `sorted_l1_is_ot` (that cost is the minimum over all bijections: 1-D optimal
transport), `sw_symm`, `sw_perm`, `sw_self_perm` (zero between reorderings), `sw_translate_diag`
(either sign), `sw_scale`, `proj_of_diag_is_self`, `sw_ignores_diagonal` (+ `_right`, `_filter`),
`sw_triangle`, `sw_nonneg`, and the regression witnesses `old_proj_counterexample`,
`old_sw_counterexample` for the projection `sqrt(x²/2)` of the old code.

`sw_le_two_w1` (for unit directions the value is at most twice the cost of every partial matching,
hence `≤ 2·W1`).  Nothing is left unproved for the exact-arithmetic model; rounding (the float64 direction
vectors and `diag_theta` are correct to one rounding since /repo e37e244; the float32 vectors before it made
the projection inexact by ~4e-8 of the coordinate scale) is outside every theorem and is covered by the tests
of `harness/props/c15.py`, which include offsets of 1e6 × the feature size.
-/
namespace PersimVerif.C15
open PersimVerif.Sliced PersimVerif.Lemmas PersimVerif.Lemmas.SortedL1 List

noncomputable section

abbrev Dgm := List (ℝ × ℝ)
abbrev natCast : ℕ → ℝ := fun n => (n : ℝ)

/-- the hypothesis on the constants of the diagonal projection: `diag_theta = (c, c)`, the divisor is
    `2c`, and `c² = 1/2` — satisfied by `c = √2/2`, for which `2c = √2` (see the `example` below) -/
structure Diag (dd : ℝ × ℝ) (s c : ℝ) : Prop where
  dd_eq : dd = (c, c)
  s_eq : s = 2 * c
  sq : c * c = 1 / 2

theorem Diag.ne_zero {dd : ℝ × ℝ} {s c : ℝ} (h : Diag dd s c) : c ≠ 0 := by
  intro h0; have := h.sq; rw [h0] at this; norm_num at this

/-- non-vacuity: the constants of the code (in exact arithmetic) satisfy `Diag` -/
example : Diag (Real.sqrt 2 / 2, Real.sqrt 2 / 2) (Real.sqrt 2) (Real.sqrt 2 / 2) :=
  ⟨rfl, by ring, by
    have h : Real.sqrt 2 * Real.sqrt 2 = 2 := Real.mul_self_sqrt (by norm_num)
    rw [div_mul_div_comm, h]; norm_num⟩

def shift (t : ℝ) (F : Dgm) : Dgm := F.map fun p => (p.1 + t, p.2 + t)
def scale (lam : ℝ) (F : Dgm) : Dgm := F.map fun p => (lam * p.1, lam * p.2)
def offDiag (F : Dgm) : Dgm := F.filter fun p => decide (p.1 ≠ p.2)

/-! ### the value as an average of sorted costs -/

/-- the cost of one direction is the sorted L1 cost of the two augmented projected lists -/
theorem sliceCost_eq (dir : ℝ × ℝ) (PD1 D1 PD2 D2 : Dgm) :
    sliceCost dir PD1 D1 PD2 D2 = sortedCost (slice dir PD1 D2) (slice dir PD2 D1) := rfl

theorem swWith_eq_sum (proj : ℝ × ℝ → ℝ × ℝ) (dirs : List (ℝ × ℝ)) (PD1 PD2 : Dgm) :
    swWith proj natCast dirs PD1 PD2 =
      (dirs.map fun dir => 1 / (dirs.length : ℝ) *
        sortedCost (slice dir PD1 (PD2.map proj)) (slice dir PD2 (PD1.map proj))).sum := by
  unfold swWith
  simp only [foldl_add_eq_sum, zero_add, sliceCost_eq, natCast]

/-- **the value is the average over the `M` directions of the 1-D cost** between each diagram augmented
    with the diagonal projections of the other -/
theorem sw_eq_average (dd : ℝ × ℝ) (s : ℝ) (dirs : List (ℝ × ℝ)) (PD1 PD2 : Dgm) :
    swVal natCast dd s dirs PD1 PD2 =
      (dirs.map fun dir => sortedCost (slice dir PD1 (PD2.map (diagProj dd s)))
        (slice dir PD2 (PD1.map (diagProj dd s)))).sum / (dirs.length : ℝ) := by
  unfold swVal
  rw [swWith_eq_sum, sum_map_mul_left]
  ring

/-- **[P2] the sorted L1 cost is the 1-D optimal transport cost**: it is attained by, and is the least
    of, the costs `Σ |a_i − b'_i|` over all rearrangements `b'` of `b` (all bijections between the two
    equally long lists) -/
theorem sorted_l1_is_ot (a b : List ℝ) (h : a.length = b.length) :
    IsLeast {c | ∃ b' : List ℝ, b'.Perm b ∧ c = cityblock a b'} (cityblock (sort a) (sort b)) :=
  sortedCost_isLeast a b h

/-- the two lists compared for one direction always have equally many entries -/
theorem slice_lengths (proj : ℝ × ℝ → ℝ × ℝ) (dir : ℝ × ℝ) (PD1 PD2 : Dgm) :
    (slice dir PD1 (PD2.map proj)).length = (slice dir PD2 (PD1.map proj)).length := by
  simp [slice, Nat.add_comm]

/-- `M = 0` is rejected, every `M ≥ 1` yields the value -/
theorem sw_ok_iff (dd : ℝ × ℝ) (s : ℝ) (dirs : List (ℝ × ℝ)) (PD1 PD2 : Dgm) :
    (dirs ≠ [] → sw natCast dd s dirs PD1 PD2 = .ok (swVal natCast dd s dirs PD1 PD2)) ∧
    (dirs = [] → sw natCast dd s dirs PD1 PD2 = .error .zeroDivision) := by
  cases dirs <;> simp [sw]

/-! ### laws that hold for every projection function -/

section AnyProj
variable (proj : ℝ × ℝ → ℝ × ℝ) (dirs : List (ℝ × ℝ))

private lemma sum_congr_dirs {f g : ℝ × ℝ → ℝ} (h : ∀ d, f d = g d) :
    (dirs.map f).sum = (dirs.map g).sum := by
  rw [show f = g from funext h]

theorem swWith_symm (PD1 PD2 : Dgm) :
    swWith proj natCast dirs PD1 PD2 = swWith proj natCast dirs PD2 PD1 := by
  rw [swWith_eq_sum, swWith_eq_sum]
  exact sum_congr_dirs dirs fun d => by rw [sortedCost_symm]

theorem swWith_perm {PD1 PD1' PD2 PD2' : Dgm} (h1 : PD1.Perm PD1') (h2 : PD2.Perm PD2') :
    swWith proj natCast dirs PD1 PD2 = swWith proj natCast dirs PD1' PD2' := by
  rw [swWith_eq_sum, swWith_eq_sum]
  refine sum_congr_dirs dirs fun d => ?_
  rw [sortedCost_perm (u := slice d PD1 (PD2.map proj)) (u' := slice d PD1' (PD2'.map proj))
    (v := slice d PD2 (PD1.map proj)) (v' := slice d PD2' (PD1'.map proj))]
  · exact ((h1.map _).append ((h2.map _).map _))
  · exact ((h2.map _).append ((h1.map _).map _))

theorem swWith_self_perm {PD PD' : Dgm} (h : PD.Perm PD') :
    swWith proj natCast dirs PD PD' = 0 := by
  rw [swWith_eq_sum]
  have : ∀ d : ℝ × ℝ, 1 / (dirs.length : ℝ) *
      sortedCost (slice d PD (PD'.map proj)) (slice d PD' (PD.map proj)) = 0 := by
    intro d
    rw [sortedCost_self_perm, mul_zero]
    exact (h.map _).append ((h.symm.map _).map _)
  rw [sum_congr_dirs dirs this, sum_map_zero']

theorem swWith_nonneg (PD1 PD2 : Dgm) : 0 ≤ swWith proj natCast dirs PD1 PD2 := by
  rw [swWith_eq_sum]
  apply List.sum_nonneg
  intro x hx
  obtain ⟨d, _, rfl⟩ := List.mem_map.mp hx
  exact mul_nonneg (by positivity) (sortedCost_nonneg _ _)

/-- the triangle inequality of the augmented construction, per direction: add the projections of the
    third diagram to both lists (a common sub-list does not change the sorted cost), go through the
    middle list, remove the common parts again -/
private lemma slice_triangle (d : ℝ × ℝ) (A B C : Dgm) :
    sortedCost (slice d A (C.map proj)) (slice d C (A.map proj)) ≤
      sortedCost (slice d A (B.map proj)) (slice d B (A.map proj)) +
      sortedCost (slice d B (C.map proj)) (slice d C (B.map proj)) := by
  -- abbreviations: P_X the projected points of X, Q_X the projected diagonal points of X
  set PA := A.map (dot d) with hPA
  set PB := B.map (dot d) with hPB
  set PC := C.map (dot d) with hPC
  set QA := (A.map proj).map (dot d) with hQA
  set QB := (B.map proj).map (dot d) with hQB
  set QC := (C.map proj).map (dot d) with hQC
  have lA : QA.length = PA.length := by simp [hQA, hPA]
  have lB : QB.length = PB.length := by simp [hQB, hPB]
  have lC : QC.length = PC.length := by simp [hQC, hPC]
  show sortedCost (PA ++ QC) (PC ++ QA) ≤ sortedCost (PA ++ QB) (PB ++ QA) + sortedCost (PB ++ QC) (PC ++ QB)
  have e13 : sortedCost (PA ++ QC) (PC ++ QA) = sortedCost (QB ++ (PA ++ QC)) (QB ++ (PC ++ QA)) :=
    (sortedCost_append_common QB _ _ (by simp [lA, lC, Nat.add_comm])).symm
  have e12 : sortedCost (PA ++ QB) (PB ++ QA) = sortedCost (QB ++ (PA ++ QC)) (PB ++ (QA ++ QC)) := by
    rw [← sortedCost_append_common QC (PA ++ QB) (PB ++ QA) (by simp [lA, lB, Nat.add_comm])]
    apply sortedCost_perm
    · -- QC ++ (PA ++ QB) ~ QB ++ (PA ++ QC)
      calc QC ++ (PA ++ QB) ~ (PA ++ QB) ++ QC := perm_append_comm
        _ ~ PA ++ (QB ++ QC) := by rw [append_assoc]
        _ ~ PA ++ (QC ++ QB) := (perm_append_comm).append_left PA
        _ ~ (PA ++ QC) ++ QB := by rw [append_assoc]
        _ ~ QB ++ (PA ++ QC) := perm_append_comm
    · calc QC ++ (PB ++ QA) ~ (PB ++ QA) ++ QC := perm_append_comm
        _ ~ PB ++ (QA ++ QC) := by rw [append_assoc]
  have e23 : sortedCost (PB ++ QC) (PC ++ QB) = sortedCost (PB ++ (QA ++ QC)) (QB ++ (PC ++ QA)) := by
    rw [← sortedCost_append_common QA (PB ++ QC) (PC ++ QB) (by simp [lB, lC, Nat.add_comm])]
    apply sortedCost_perm
    · calc QA ++ (PB ++ QC) ~ (PB ++ QC) ++ QA := perm_append_comm
        _ ~ PB ++ (QC ++ QA) := by rw [append_assoc]
        _ ~ PB ++ (QA ++ QC) := (perm_append_comm).append_left PB
    · calc QA ++ (PC ++ QB) ~ (PC ++ QB) ++ QA := perm_append_comm
        _ ~ PC ++ (QB ++ QA) := by rw [append_assoc]
        _ ~ PC ++ (QA ++ QB) := (perm_append_comm).append_left PC
        _ ~ (PC ++ QA) ++ QB := by rw [append_assoc]
        _ ~ QB ++ (PC ++ QA) := perm_append_comm
  rw [e13, e12, e23]
  exact sortedCost_triangle _ _ _ (by simp only [length_append, lA, lB, lC])
    (by simp only [length_append, lA, lB, lC]; omega)

theorem swWith_triangle (A B C : Dgm) :
    swWith proj natCast dirs A C ≤ swWith proj natCast dirs A B + swWith proj natCast dirs B C := by
  rw [swWith_eq_sum, swWith_eq_sum, swWith_eq_sum, ← sum_map_add']
  apply List.sum_le_sum
  intro d _
  rw [← mul_add]
  exact mul_le_mul_of_nonneg_left (slice_triangle proj d A B C) (by positivity)

end AnyProj

/-! ### the laws of the statement for `sliced_wasserstein` -/

section Laws
variable (dd : ℝ × ℝ) (s : ℝ) (dirs : List (ℝ × ℝ))

/-- **symmetry** -/
theorem sw_symm (PD1 PD2 : Dgm) :
    sw natCast dd s dirs PD1 PD2 = sw natCast dd s dirs PD2 PD1 := by
  cases dirs with
  | nil => rfl
  | cons d ds => simp only [sw, swVal]; rw [swWith_symm]

/-- **invariance under reordering either diagram** -/
theorem sw_perm {PD1 PD1' PD2 PD2' : Dgm} (h1 : PD1.Perm PD1') (h2 : PD2.Perm PD2') :
    sw natCast dd s dirs PD1 PD2 = sw natCast dd s dirs PD1' PD2' := by
  cases dirs with
  | nil => rfl
  | cons d ds => simp only [sw, swVal]; rw [swWith_perm _ _ h1 h2]

/-- **zero between reorderings of the same diagram** -/
theorem sw_self_perm {PD PD' : Dgm} (h : PD.Perm PD') :
    swVal natCast dd s dirs PD PD' = 0 :=
  swWith_self_perm _ _ h

/-- **non-negative** -/
theorem sw_nonneg (PD1 PD2 : Dgm) : 0 ≤ swVal natCast dd s dirs PD1 PD2 :=
  swWith_nonneg _ _ _ _

/-- **triangle inequality** of the augmented construction (every list of directions, every size) -/
theorem sw_triangle (A B C : Dgm) :
    swVal natCast dd s dirs A C ≤ swVal natCast dd s dirs A B + swVal natCast dd s dirs B C :=
  swWith_triangle _ _ A B C

/-! scaling: holds for every `dd`, `s` (the projection is linear) -/

private lemma dot_scale (lam : ℝ) (d p : ℝ × ℝ) : dot d (lam * p.1, lam * p.2) = lam * dot d p := by
  unfold dot; ring

private lemma diagProj_scale (lam : ℝ) (p : ℝ × ℝ) :
    diagProj dd s (lam * p.1, lam * p.2) = (lam * (diagProj dd s p).1, lam * (diagProj dd s p).2) := by
  simp only [diagProj, dot_scale, mul_div_assoc]

private lemma slice_scale (lam : ℝ) (d : ℝ × ℝ) (A B : Dgm) :
    slice d (scale lam A) ((scale lam B).map (diagProj dd s)) =
      (slice d A (B.map (diagProj dd s))).map (lam * ·) := by
  simp only [slice, scale, map_map, map_append, Function.comp_def, diagProj_scale, dot_scale]

/-- **linear scaling**: multiplying all coordinates by `λ ≥ 0` multiplies the value by `λ` -/
theorem sw_scale {lam : ℝ} (hlam : 0 ≤ lam) (PD1 PD2 : Dgm) :
    swVal natCast dd s dirs (scale lam PD1) (scale lam PD2) = lam * swVal natCast dd s dirs PD1 PD2 := by
  unfold swVal
  rw [swWith_eq_sum, swWith_eq_sum, ← sum_map_mul_left]
  refine sum_congr_dirs dirs fun d => ?_
  rw [slice_scale, slice_scale]
  unfold sortedCost
  rw [sort_map_of_monotone (fun _ _ h => mul_le_mul_of_nonneg_left h hlam),
    sort_map_of_monotone (fun _ _ h => mul_le_mul_of_nonneg_left h hlam), cb_map_mul hlam]
  ring

/-! translation and diagonal points: need the projection to be the orthogonal one -/

variable {dd s} {c : ℝ}

/-- **a point of the diagonal is its own projection, for either sign of the coordinate** -/
theorem proj_of_diag_is_self (h : Diag dd s c) (a : ℝ) : diagProj dd s (a, a) = (a, a) := by
  have hc := h.ne_zero
  simp only [diagProj, dot, h.dd_eq, h.s_eq]
  have : (c * a + c * a) / (2 * c) = a := by field_simp; ring
  rw [this]

/-- the projection is `((b+d)/2, (b+d)/2)` -/
theorem diagProj_eq_midpoint (h : Diag dd s c) (p : ℝ × ℝ) :
    diagProj dd s p = ((p.1 + p.2) / 2, (p.1 + p.2) / 2) := by
  have hc := h.ne_zero
  simp only [diagProj, dot, h.dd_eq, h.s_eq]
  have : (c * p.1 + c * p.2) / (2 * c) = (p.1 + p.2) / 2 := by field_simp
  rw [this]

private lemma dot_shift (t : ℝ) (d p : ℝ × ℝ) :
    dot d (p.1 + t, p.2 + t) = dot d p + t * (d.1 + d.2) := by
  unfold dot; ring

private lemma diagProj_shift (h : Diag dd s c) (t : ℝ) (p : ℝ × ℝ) :
    diagProj dd s (p.1 + t, p.2 + t) = ((diagProj dd s p).1 + t, (diagProj dd s p).2 + t) := by
  rw [diagProj_eq_midpoint h, diagProj_eq_midpoint h]
  simp only [Prod.mk.injEq]
  constructor <;> ring

private lemma slice_shift (h : Diag dd s c) (t : ℝ) (d : ℝ × ℝ) (A B : Dgm) :
    slice d (shift t A) ((shift t B).map (diagProj dd s)) =
      (slice d A (B.map (diagProj dd s))).map (· + t * (d.1 + d.2)) := by
  simp only [slice, shift, map_map, map_append, Function.comp_def, diagProj_shift h, dot_shift]

/-- **translation of both diagrams along the diagonal, by any `t` of either sign, into coordinates of
    either sign**: every projected value moves by the same constant on both sides -/
theorem sw_translate_diag (h : Diag dd s c) (t : ℝ) (PD1 PD2 : Dgm) :
    swVal natCast dd s dirs (shift t PD1) (shift t PD2) = swVal natCast dd s dirs PD1 PD2 := by
  unfold swVal
  rw [swWith_eq_sum, swWith_eq_sum]
  refine sum_congr_dirs dirs fun d => ?_
  rw [slice_shift h, slice_shift h]
  unfold sortedCost
  rw [sort_map_of_monotone (f := (· + t * (d.1 + d.2))) (fun _ _ hxy => by dsimp only; linarith),
    sort_map_of_monotone (f := (· + t * (d.1 + d.2))) (fun _ _ hxy => by dsimp only; linarith), cb_map_add]

/-- **[P2] a diagonal point in the first diagram is ignored** (either sign): it adds the same number to
    both lists of every direction -/
theorem sw_ignores_diagonal (h : Diag dd s c) (a : ℝ) (PD1 PD2 : Dgm) :
    swVal natCast dd s dirs ((a, a) :: PD1) PD2 = swVal natCast dd s dirs PD1 PD2 := by
  unfold swVal
  rw [swWith_eq_sum, swWith_eq_sum]
  refine sum_congr_dirs dirs fun d => ?_
  congr 1
  have e1 : slice d ((a, a) :: PD1) (PD2.map (diagProj dd s)) =
      dot d (a, a) :: slice d PD1 (PD2.map (diagProj dd s)) := by simp [slice]
  have e2 : (slice d PD2 (((a, a) :: PD1).map (diagProj dd s))).Perm
      (dot d (a, a) :: slice d PD2 (PD1.map (diagProj dd s))) := by
    simp only [slice, map_cons, proj_of_diag_is_self h]
    exact perm_middle
  rw [e1, sortedCost_perm (Perm.refl _) e2]
  exact sortedCost_cons_same _ _ _ (slice_lengths _ d PD1 PD2)

theorem sw_ignores_diagonal_right (h : Diag dd s c) (a : ℝ) (PD1 PD2 : Dgm) :
    swVal natCast dd s dirs PD1 ((a, a) :: PD2) = swVal natCast dd s dirs PD1 PD2 := by
  unfold swVal
  rw [swWith_symm, swWith_symm _ _ PD1 PD2]
  exact sw_ignores_diagonal dirs h a PD2 PD1

private lemma swVal_perm {PD1 PD1' PD2 PD2' : Dgm} (h1 : PD1.Perm PD1') (h2 : PD2.Perm PD2') :
    swVal natCast dd s dirs PD1 PD2 = swVal natCast dd s dirs PD1' PD2' :=
  swWith_perm _ _ h1 h2

private lemma ignores_left_aux (h : Diag dd s c) (PD2 : Dgm) : ∀ (t pre : Dgm),
    swVal natCast dd s dirs (pre ++ offDiag t) PD2 = swVal natCast dd s dirs (pre ++ t) PD2
  | [], pre => by simp [offDiag]
  | (x, y) :: t, pre => by
    by_cases hxy : x = y
    · subst hxy
      have e : offDiag ((x, x) :: t) = offDiag t := by simp [offDiag]
      rw [e, ignores_left_aux h PD2 t pre,
        swVal_perm dirs (perm_middle (a := (x, x)) (l₁ := pre) (l₂ := t)) (Perm.refl PD2),
        sw_ignores_diagonal dirs h]
    · have e : offDiag ((x, y) :: t) = (x, y) :: offDiag t := by simp [offDiag, hxy]
      rw [e]
      have := ignores_left_aux h PD2 t (pre ++ [(x, y)])
      simpa using this

/-- **diagonal points are ignored wherever they stand, in either diagram** -/
theorem sw_ignores_diagonal_filter (h : Diag dd s c) (PD1 PD2 : Dgm) :
    swVal natCast dd s dirs (offDiag PD1) (offDiag PD2) = swVal natCast dd s dirs PD1 PD2 := by
  have l := fun (A B : Dgm) => ignores_left_aux dirs h B A []
  simp only [nil_append] at l
  rw [l PD1 (offDiag PD2)]
  unfold swVal
  rw [swWith_symm, swWith_symm _ _ PD1 PD2]
  exact l PD2 PD1

end Laws

/-! ### the old projection (before commit 1c74424) -/

/-- **the old projection `sqrt(x²/2)` does not fix the diagonal point `(−3,−3)`**: it sends it to `(3,3)` -/
theorem old_proj_counterexample {c : ℝ} (hc : c * c = 1 / 2) :
    diagProjOld Real.sqrt (c, c) (-3, -3) = (3, 3) ∧
    diagProjOld Real.sqrt (c, c) (-3, -3) ≠ (-3, -3) := by
  have e : (c * -3 + c * -3) * (c * -3 + c * -3) / 2 = 3 * 3 := by
    have : (c * -3 + c * -3) * (c * -3 + c * -3) = 36 * (c * c) := by ring
    rw [this, hc]; norm_num
  have h3 : diagProjOld Real.sqrt (c, c) (-3, -3) = (3, 3) := by
    simp only [diagProjOld, dot, e, Real.sqrt_mul_self (by norm_num : (0 : ℝ) ≤ 3)]
  refine ⟨h3, ?_⟩
  rw [h3]; intro h
  have := congrArg Prod.fst h
  norm_num at this

/-- with the single direction `θ = π/2` (`(cos θ, sin θ) = (0, 1)`, the first direction of the code) the
    old code gives distance `6` between the diagonal point `(−3,−3)` and the empty diagram, the fixed
    code gives `0` -/
theorem old_sw_counterexample {c : ℝ} (hc : c * c = 1 / 2) :
    swValOld Real.sqrt natCast (c, c) [(0, 1)] [(-3, -3)] [] = 6 ∧
    swVal natCast (c, c) (2 * c) [(0, 1)] [(-3, -3)] [] = 0 := by
  constructor
  · unfold swValOld
    rw [swWith_eq_sum]
    simp only [map_cons, map_nil, (old_proj_counterexample hc).1, slice, dot, sortedCost, sort,
      nil_append, append_nil, mergeSort_singleton, cb_cons, cb_nil_left, sum_cons, sum_nil, length_cons,
      length_nil]
    norm_num
  · have h : Diag (c, c) (2 * c) c := ⟨rfl, rfl, hc⟩
    rw [sw_ignores_diagonal [(0, 1)] h (-3) [] []]
    exact sw_self_perm _ _ _ (Perm.refl [])

/-! ### comparison with the 1-Wasserstein distance -/

/-- Euclidean distance of two points, and of a point to the diagonal -/
def euclid (p q : ℝ × ℝ) : ℝ := Real.sqrt ((p.1 - q.1) ^ 2 + (p.2 - q.2) ^ 2)
def toDiag (p : ℝ × ℝ) : ℝ := |p.2 - p.1| / Real.sqrt 2

/-- **the value never exceeds twice the 1-Wasserstein distance**: for unit directions (every
    `(cos θ, sin θ)` is one) it is at most twice the cost of *every* partial matching between the two
    diagrams (Euclidean distance between matched points, `|d − b|/√2` for points sent to the diagonal),
    hence at most twice the least such cost (`sw_le_two_w1_min`). -/
theorem sw_le_two_w1 {dd : ℝ × ℝ} {s c : ℝ} (h : Diag dd s c) (dirs : List (ℝ × ℝ)) (hne : dirs ≠ [])
    (hunit : ∀ d ∈ dirs, d.1 * d.1 + d.2 * d.2 = 1) (PD1 PD2 : Dgm)
    (m : Spec.PM (Fin PD1.length) (Fin PD2.length)) :
    swVal natCast dd s dirs PD1 PD2 ≤
      2 * m.sumCost (fun i j => euclid (PD1.get i) (PD2.get j)) (fun i => toDiag (PD1.get i))
        (fun j => toDiag (PD2.get j)) := by
  have hproj : diagProj dd s = SlicedW1.mid := funext fun p => diagProj_eq_midpoint h p
  rw [sw_eq_average, hproj]
  have hlen : (0 : ℝ) < dirs.length := by
    have : 0 < dirs.length := List.length_pos_iff.mpr hne
    exact_mod_cast this
  rw [div_le_iff₀ hlen]
  set B := 2 * m.sumCost (fun i j => euclid (PD1.get i) (PD2.get j)) (fun i => toDiag (PD1.get i))
        (fun j => toDiag (PD2.get j)) with hB
  have hle := List.sum_le_card_nsmul
    (dirs.map fun dir => sortedCost (slice dir PD1 (PD2.map SlicedW1.mid)) (slice dir PD2 (PD1.map SlicedW1.mid))) B
    (by
      intro x hx
      obtain ⟨d, hd, rfl⟩ := List.mem_map.mp hx
      exact SlicedW1.sortedCost_slice_le d (hunit d hd) m)
  rw [List.length_map, nsmul_eq_mul] at hle
  linarith

/-- in terms of the Wasserstein distance itself (the minimum cost over all partial matchings) -/
theorem sw_le_two_w1_min {dd : ℝ × ℝ} {s c : ℝ} (h : Diag dd s c) (dirs : List (ℝ × ℝ)) (hne : dirs ≠ [])
    (hunit : ∀ d ∈ dirs, d.1 * d.1 + d.2 * d.2 = 1) (PD1 PD2 : Dgm) (w : ℝ)
    (hw : Spec.IsMinSum (M := Fin PD1.length) (N := Fin PD2.length)
      (fun i j => euclid (PD1.get i) (PD2.get j)) (fun i => toDiag (PD1.get i))
      (fun j => toDiag (PD2.get j)) w) :
    swVal natCast dd s dirs PD1 PD2 ≤ 2 * w := by
  obtain ⟨m, hm⟩ := hw.attained
  rw [← hm]
  exact sw_le_two_w1 h dirs hne hunit PD1 PD2 m

/-! ### non-vacuity -/

/-- the sorted cost is a genuine minimum, and not every pairing attains it:
    `[0, 10]` vs `[10, 0]` pairs as `0↔0, 10↔10` (cost 0) although the given pairing costs 20 -/
example : cityblock (sort ([0, 10] : List ℝ)) (sort [10, 0]) = 0 ∧
    cityblock ([0, 10] : List ℝ) [10, 0] = 20 := by
  constructor
  · have : ([0, 10] : List ℝ).Perm [10, 0] := Perm.swap _ _ _
    exact sortedCost_self_perm this
  · simp only [cb_cons, cb_nil_left]; norm_num

/-- a translation into negative coordinates: `[(0,1),(2,5)]`, `[(0,2)]` moved by `t = −7` -/
example {dd : ℝ × ℝ} {s c : ℝ} (h : Diag dd s c) (dirs : List (ℝ × ℝ)) :
    swVal natCast dd s dirs [(-7, -6), (-5, -2)] [(-7, -5)] =
      swVal natCast dd s dirs [(0, 1), (2, 5)] [(0, 2)] := by
  have := sw_translate_diag dirs h (-7) [(0, 1), (2, 5)] [(0, 2)]
  simp only [shift, map_cons, map_nil] at this
  norm_num at this
  exact this

/-- the value is not identically zero: one direction `(0,1)`, `{(0,1)}` against the empty diagram costs `1/2` -/
example {c : ℝ} (hc : c * c = 1 / 2) : swVal natCast (c, c) (2 * c) [(0, 1)] [(0, 1)] [] = 1 / 2 := by
  have h : Diag (c, c) (2 * c) c := ⟨rfl, rfl, hc⟩
  unfold swVal
  rw [swWith_eq_sum]
  simp only [map_cons, map_nil, diagProj_eq_midpoint h, slice, dot, sortedCost, sort,
    nil_append, append_nil, mergeSort_singleton, cb_cons, cb_nil_left, sum_cons, sum_nil, length_cons,
    length_nil]
  norm_num

/-- the hypotheses of `sw_le_two_w1` are met: two unit directions, a one-point diagram against the empty one,
    the empty matching -/
example {c : ℝ} (hc : c * c = 1 / 2) :
    swVal natCast (c, c) (2 * c) [(0, 1), (1, 0)] [(0, 1)] [] ≤
      2 * (Spec.PM.empty : Spec.PM (Fin [((0 : ℝ), (1 : ℝ))].length) (Fin ([] : Dgm).length)).sumCost
        (fun i j => euclid ([((0 : ℝ), (1 : ℝ))].get i) (([] : Dgm).get j))
        (fun i => toDiag ([((0 : ℝ), (1 : ℝ))].get i)) (fun j => toDiag (([] : Dgm).get j)) :=
  sw_le_two_w1 ⟨rfl, rfl, hc⟩ _ (by simp)
    (by intro d hd; simp at hd; rcases hd with rfl | rfl <;> norm_num) _ _ _

end

end PersimVerif.C15
