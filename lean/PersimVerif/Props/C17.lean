import PersimVerif.Lemmas.GraphExtra
import PersimVerif.Lemmas.GraphDispatch
import PersimVerif.Lemmas.GraphUnique

/-!
# C17 — mGH accepts every graph representation and degrades gracefully

All statements are about `PersimVerif.Graph` (the model of the representation layer of
`persim/gromov_hausdorff.py`, `Model/Graph.lean`) over `Nat` matrices of every size; `estimate` is a
parameter (property C05 is about it).  Core Lean only: no Mathlib import is needed.

Specification vocabulary (`Lemmas/GraphBFS.lean`, `Lemmas/GraphFallback.lean`):
`Adj rows u v` — the edge relation of an adjacency matrix; `Walk R k s t` — a walk of length `k`;
`IsDist R s t d` — `d` is the length of a shortest walk from `s` to `t`; `Connected rows` — every two
vertices are joined by a walk.  What the containers (nested list / ndarray / sparse) hold is the entry
matrix `A : Mat`; unpacking them is the correspondence harness's part (`harness/props/c17.py`).
-/
namespace PersimVerif.C17
open PersimVerif.Graph

deriving instance DecidableEq for Except
deriving instance DecidableEq for Result

/-! ## 1. Representation: orientation, weights, container -/

/-- **The model's input is the matrix of entries** and the result depends on it only through the
    undirected, unweighted adjacency: two well-formed inputs with the same `adjOf` get the same distance
    matrix, warning flag and dtype.  Nested lists, dense arrays of any dtype and sparse matrices holding the
    same entries are the same `Mat`; different weights / orientations with the same non-zero pattern "in
    either direction" have the same `adjOf`. -/
theorem format_irrelevant (A B : Mat) (hA : isSquare A = true) (hB : isSquare B = true)
    (h : adjOf A = adjOf B) : makeDist A = makeDist B := by
  unfold makeDist
  rw [hA, hB, h]

/-- non-vacuity: a weighted, mixed-orientation matrix and the symmetric 0/1 matrix of the same path -/
example : isSquare ([[0,7,0],[0,0,0],[0,2,0]] : Mat) = true ∧ isSquare ([[0,1,0],[1,0,1],[0,1,0]] : Mat) = true ∧
    adjOf [[0,7,0],[0,0,0],[0,2,0]] = adjOf [[0,1,0],[1,0,1],[0,1,0]] := by decide

private theorem entry_symClosure (A : Mat) {i j : Nat} (hi : i < A.length) (hj : j < A.length) :
    entry (symClosure A) i j = max (entry A i j) (entry A j i) := by
  simp [entry, symClosure, ent_tab 0 _ hi hj]

private theorem entry_upper (A : Mat) {i j : Nat} (hi : i < A.length) (hj : j < A.length) :
    entry (upper A) i j = if i ≤ j then entry A i j else 0 := by
  simp [entry, upper, ent_tab 0 _ hi hj]

/-- `np.maximum(A, A.T)` describes the same undirected graph as `A`, whatever `A` is. -/
theorem symClosure_same_adjacency (A : Mat) : adjOf (symClosure A) = adjOf A := by
  apply adjOf_congr _ _ (by simp [symClosure])
  intro i j hi hj
  have hi' : i < A.length := by simpa [symClosure] using hi
  have hj' : j < A.length := by simpa [symClosure] using hj
  rw [entry_symClosure A hi' hj', entry_symClosure A hj' hi', Bool.eq_iff_iff]
  simp only [Bool.or_eq_true, bne_iff_ne, ne_eq]
  omega

/-- the upper triangle of a matrix whose non-zero pattern is symmetric has the same adjacency -/
theorem upper_of_symmetric (S : Mat) (hS : ∀ i j, entry S i j = 0 ↔ entry S j i = 0) :
    adjOf (upper S) = adjOf S := by
  apply adjOf_congr _ _ (by simp [upper])
  intro i j hi hj
  have hi' : i < S.length := by simpa [upper] using hi
  have hj' : j < S.length := by simpa [upper] using hj
  rw [entry_upper S hi' hj', entry_upper S hj' hi']
  have hs := hS i j
  rw [Bool.eq_iff_iff]
  simp only [Bool.or_eq_true, bne_iff_ne, ne_eq]
  by_cases hij : i ≤ j <;> by_cases hji : j ≤ i <;> simp only [hij, hji, if_true, if_false] <;>
    (try simp only [not_true_eq_false, or_false, false_or]) <;> omega

/-- **`upper_eq_symmetric`**: for every graph `A` (given in any orientation), the upper-triangular part of
    its symmetric form and the symmetric form `A ∨ Aᵀ` itself have the same undirected adjacency — and
    that is the adjacency of `A`. -/
theorem upper_eq_symmetric (A : Mat) :
    adjOf (upper (symClosure A)) = adjOf (symClosure A) ∧ adjOf (symClosure A) = adjOf A := by
  refine ⟨upper_of_symmetric _ ?_, symClosure_same_adjacency A⟩
  intro i j
  by_cases hi : i < A.length
  · by_cases hj : j < A.length
    · rw [entry_symClosure A hi hj, entry_symClosure A hj hi, Nat.max_comm]
    · simp [entry, symClosure, ent_tab_of_ge_right 0 _ (Nat.le_of_not_lt hj),
        ent_tab_of_ge_left 0 _ (Nat.le_of_not_lt hj)]
  · simp [entry, symClosure, ent_tab_of_ge_right 0 _ (Nat.le_of_not_lt hi),
      ent_tab_of_ge_left 0 _ (Nat.le_of_not_lt hi)]

/-- an upper-triangular input (the documented usage) is the same graph as its symmetric completion -/
theorem upper_triangular_input (U : Mat) : adjOf U = adjOf (symClosure U) :=
  (symClosure_same_adjacency U).symm

private theorem isSquare_symClosure (A : Mat) (h : isSquare A = true) : isSquare (symClosure A) = true :=
  isSquare_tab _ ((isSquare_iff A).1 h).1

private theorem isSquare_upper (A : Mat) (h : isSquare A = true) : isSquare (upper A) = true :=
  isSquare_tab _ ((isSquare_iff A).1 h).1

/-- hence the same distance matrix, warning and dtype for the upper-triangular and the symmetric form -/
theorem upper_same_result (A : Mat) (h : isSquare A = true) :
    makeDist (upper (symClosure A)) = makeDist (symClosure A) ∧ makeDist (symClosure A) = makeDist A :=
  ⟨format_irrelevant _ _ (isSquare_upper _ (isSquare_symClosure A h)) (isSquare_symClosure A h)
      (upper_eq_symmetric A).1,
   format_irrelevant _ _ (isSquare_symClosure A h) h (upper_eq_symmetric A).2⟩

example : isSquare ([[0,7,0],[0,0,0],[0,2,0]] : Mat) = true := by decide
example : upper (symClosure [[0,7,0],[0,0,0],[0,2,0]]) = [[0,7,0],[0,0,2],[0,0,0]] := by decide
example : makeDist [[0,7,0],[0,0,0],[0,2,0]] = .ok ⟨[[0,1,2],[1,0,1],[2,1,0]], false, .i8⟩ := by decide

private theorem entry_map (f : Nat → Nat) (hf : f 0 = 0) (A : Mat) (i j : Nat) :
    entry (A.map fun r => r.map f) i j = f (entry A i j) := by
  unfold entry ent
  by_cases hi : i < A.length
  · by_cases hj : j < A[i].length
    · simp [List.getD_eq_getElem?_getD, List.getElem?_map, List.getElem?_eq_getElem hi,
        List.getElem?_eq_getElem hj]
    · simp [List.getD_eq_getElem?_getD, List.getElem?_map, List.getElem?_eq_getElem hi,
        List.getElem?_eq_none (Nat.le_of_not_lt hj), hf]
  · simp [List.getD_eq_getElem?_getD, List.getElem?_map, List.getElem?_eq_none (Nat.le_of_not_lt hi), hf]

/-- **`unweighted=True`**: re-weighting the edges (any map of the entries that keeps zero and non-zero
    apart: weights ≠ 1, bool / int / float views of the same pattern) changes nothing. -/
theorem weights_irrelevant (f : Nat → Nat) (hf : ∀ x, f x = 0 ↔ x = 0) (A : Mat) (h : isSquare A = true) :
    makeDist (A.map fun r => r.map f) = makeDist A := by
  have hsq : isSquare (A.map fun r => r.map f) = true := by
    rw [isSquare_iff] at h ⊢
    refine ⟨by simpa using h.1, ?_⟩
    intro r hr
    obtain ⟨r', hr', rfl⟩ := List.mem_map.1 hr
    simpa using h.2 r' hr'
  apply format_irrelevant _ _ hsq h
  apply adjOf_congr _ _ (by simp)
  intro i j _ _
  rw [entry_map f ((hf 0).2 rfl), entry_map f ((hf 0).2 rfl), Bool.eq_iff_iff]
  simp only [Bool.or_eq_true, bne_iff_ne, ne_eq, hf]

example : (fun x : Nat => if x = 0 then 0 else 1) 5 = 1 ∧ ∀ x : Nat, (if x = 0 then 0 else 1) = 0 ↔ x = 0 := by
  refine ⟨rfl, fun x => ?_⟩
  by_cases h : x = 0 <;> simp [h]

/-- **Self-loops / diagonal entries never matter** (`shortest_path` gives `d(i,i) = 0` whatever `A[i][i]`
    is): two well-formed inputs of the same size that agree off the diagonal get the same result. -/
theorem diagonal_irrelevant (A B : Mat) (hA : isSquare A = true) (hB : isSquare B = true)
    (hl : A.length = B.length) (h : ∀ i j, i ≠ j → entry A i j = entry B i j) : makeDist A = makeDist B := by
  have e : bfsAll (adjOf A) = bfsAll (adjOf B) := by
    apply bfsAll_congr_offdiag _ _ (adjOf_Symm A) (adjOf_Symm B) (by simp [hl])
    intro i j hij
    by_cases hi : i < A.length
    · by_cases hj : j < A.length
      · rw [ent_adjOf A hi hj, ent_adjOf B (hl ▸ hi) (hl ▸ hj), h i j hij, h j i (Ne.symm hij)]
      · rw [ent_adjOf_ge A (Or.inr (Nat.le_of_not_lt hj)), ent_adjOf_ge B (Or.inr (hl ▸ Nat.le_of_not_lt hj))]
    · rw [ent_adjOf_ge A (Or.inl (Nat.le_of_not_lt hi)), ent_adjOf_ge B (Or.inl (hl ▸ Nat.le_of_not_lt hi))]
  unfold makeDist
  rw [hA, hB]
  simp only [if_true, e]

/-- so the STRICT upper triangle (`np.triu(A, 1)`) of a symmetric-pattern matrix is as good as the matrix -/
theorem strict_upper_same_result (S : Mat) (hsq : isSquare S = true)
    (hS : ∀ i j, entry S i j = 0 ↔ entry S j i = 0) : makeDist (strictUpper S) = makeDist S := by
  have hn := ((isSquare_iff S).1 hsq).1
  have h1 : makeDist (strictUpper S) = makeDist (upper S) := by
    apply diagonal_irrelevant _ _ (isSquare_tab _ hn) (isSquare_upper S hsq) (by simp [upper])
    intro i j hij
    by_cases hi : i < S.length
    · by_cases hj : j < S.length
      · rw [entry_upper S hi hj]
        simp only [entry, ent_tab 0 _ hi hj]
        by_cases h1 : i < j
        · simp [h1, Nat.le_of_lt h1]
        · have : ¬ i ≤ j := by omega
          simp [h1, this]
      · simp [entry, upper, ent_tab_of_ge_right 0 _ (Nat.le_of_not_lt hj)]
    · simp [entry, upper, ent_tab_of_ge_left 0 _ (Nat.le_of_not_lt hi)]
  rw [h1]
  exact format_irrelevant _ _ (isSquare_upper S hsq) hsq (upper_of_symmetric S hS)

example : makeDist (strictUpper [[5,1,0],[1,0,3],[0,3,9]]) = makeDist [[5,1,0],[1,0,3],[0,3,9]] := by decide

/-! ## 2. Shortest paths: BFS is correct, and commutes with relabelling -/

/-- **Shortest-path contract, discharged for the model's BFS**: for the adjacency of any input, the entry
    `(s, t)` of the BFS matrix is `some d` exactly when `d` is the length of a shortest walk, and `none`
    (∞) exactly when no walk exists.  `n` levels of fuel are enough for graphs of every size. -/
theorem bfs_is_shortest_path (A : Mat) {s t : Nat} (hs : s < A.length) (ht : t < A.length) :
    (∀ d, ent none (bfsAll (adjOf A)) s t = some d ↔ IsDist (Adj (adjOf A)) s t d) ∧
    (ent none (bfsAll (adjOf A)) s t = none ↔ ∀ k, ¬ Walk (Adj (adjOf A)) k s t) :=
  ⟨fun d => dist_eq_some_iff (adjOf A) (adjOf_Symm A) (by simpa using hs) (by simpa using ht) d,
   dist_eq_none_iff (adjOf A) (adjOf_Symm A) (by simpa using hs) (by simpa using ht)⟩

/-- **`relabel_equivariant`**: the BFS matrix of a relabelled graph `A[p][:, p]` is the relabelled BFS
    matrix, for every permutation `p` of the vertices and every graph, connected or not. -/
theorem relabel_equivariant (A : Mat) (p : List Nat) (hp : p.Perm (List.range A.length)) :
    bfsAll (adjOf (sub 0 p A)) = sub none p (bfsAll (adjOf A)) := by
  have hp' : p.Perm (List.range (adjOf A).length) := by simpa using hp
  rw [adjOf_sub A p (fun x hx => List.mem_range.1 (hp.mem_iff.1 hx))]
  exact bfsAll_sub (adjOf A) p hp' (adjOf_Symm A)

example : [2, 0, 1].Perm (List.range ([[0,1,0],[0,0,1],[0,0,0]] : Mat).length) := by decide
example : sub 0 [2, 0, 1] [[0,1,0],[0,0,1],[0,0,0]] = [[0,0,0],[0,0,1],[1,0,0]] := by decide

private theorem isSquare_sub_perm (A : Mat) (hsq : isSquare A = true) (p : List Nat)
    (hp : p.Perm (List.range A.length)) : isSquare (sub 0 p A) = true := by
  have hn := ((isSquare_iff A).1 hsq).1
  have hpl : p.length = A.length := by simpa using hp.length_eq
  rw [isSquare_iff]
  refine ⟨by simp [hpl, hn], ?_⟩
  intro r hr
  rw [row_length_sub 0 p A r hr]; simp

/-- for a CONNECTED graph the whole result is equivariant: the relabelled graph gives the relabelled
    distance matrix, no warning, the same dtype.  (A disconnected graph with several largest components may
    select a different one after relabelling — the statement leaves that choice to the labelling.) -/
theorem relabel_connected (A : Mat) (hsq : isSquare A = true) (p : List Nat)
    (hp : p.Perm (List.range A.length)) (r : DistResult) (h : makeDist A = .ok r) (hw : r.warned = false) :
    makeDist (sub 0 p A) = .ok ⟨sub 0 p r.dist, false, r.intType⟩ := by
  obtain ⟨hd, hwarn, ht⟩ := (makeDist_ok_iff A hsq r).1 h
  have hsym := adjOf_Symm A
  have hp' : p.Perm (List.range (adjOf A).length) := by simpa using hp
  have hpl : p.length = A.length := by simpa using hp.length_eq
  have hinf : hasInf (bfsAll (adjOf A)) = false := by rw [← hwarn, hw]
  have hadj : adjOf (sub 0 p A) = sub false p (adjOf A) :=
    adjOf_sub A p (fun x hx => List.mem_range.1 (hp.mem_iff.1 hx))
  have hinf' : hasInf (bfsAll (adjOf (sub 0 p A))) = false := by
    rw [hadj]
    exact (hasInf_false_iff_connected _ (symm_sub (adjOf A) p hp' hsym)).2
      (connected_sub (adjOf A) hsym p hp' ((hasInf_false_iff_connected _ hsym).1 hinf))
  have hblock : blockOf (adjOf (sub 0 p A)) = sub 0 p (blockOf (adjOf A)) := by
    rw [blockOf_connected _ hinf', blockOf_connected _ hinf]
    have hl' : (adjOf (sub 0 p A)).length = A.length := by simp [hpl]
    rw [hl']
    refine mat_ext 0 (n := A.length) (m := A.length) _ _ (by simp) (by simp [hpl]) (row_length_tab _) ?_ ?_
    · intro r hr; rw [row_length_sub 0 p _ r hr, hpl]
    · intro i j hi hj
      rw [ent_tab 0 _ hi hj, ent_sub 0 p _ (by omega) (by omega)]
      have hi' : i < (adjOf A).length := by simpa using hi
      have hj' : j < (adjOf A).length := by simpa using hj
      have hpi := perm_lt (adjOf A) p hp' hi'
      have hpj := perm_lt (adjOf A) p hp' hj'
      rw [ent_tab 0 _ (by simpa using hpi) (by simpa using hpj), hadj, dist_sub (adjOf A) p hp' hsym hi' hj']
  apply (makeDist_ok_iff (sub 0 p A) (isSquare_sub_perm A hsq p hp) _).2
  refine ⟨by rw [hblock, hd], hinf'.symm, ?_⟩
  rw [hblock, maxEntry_sub_perm (blockOf (adjOf A)) A.length ?_ ?_ p hp]
  · exact ht
  · rw [blockOf_connected _ hinf]; simp
  · intro r hr
    rw [blockOf_connected _ hinf] at hr
    simpa using row_length_tab _ r hr

example : makeDist [[0,1,0],[0,0,1],[0,0,0]] = .ok ⟨[[0,1,2],[1,0,1],[2,1,0]], false, .i8⟩ := by decide
example : makeDist (sub 0 [2, 0, 1] [[0,1,0],[0,0,1],[0,0,0]]) =
    .ok ⟨sub 0 [2, 0, 1] [[0,1,2],[1,0,1],[2,1,0]], false, .i8⟩ := by decide

/-! ## 3. Graceful degradation: the largest-component fallback -/

/-- The vertices kept by `makeDist`, in increasing order: all of them when the graph is connected, the
    FIRST largest component otherwise. -/
def kept (A : Mat) : List Nat := selected (bfsAll (adjOf A))

/-- **`fallback_is_metric`**: whenever `makeDist` returns (it does, see `never_raises`), the matrix handed
    to `estimate` is a genuine finite metric: square of size `m` with `1 ≤ m ≤ n`, zero diagonal, positive
    off the diagonal, symmetric, triangle inequality; its entries are the shortest-walk lengths, in the
    ORIGINAL graph, between the kept vertices (which form a strictly increasing list of vertices, all in one
    component); and the warning flag is set iff the graph is disconnected. -/
theorem fallback_is_metric (A : Mat) (hsq : isSquare A = true) (r : DistResult) (h : makeDist A = .ok r) :
    let m := r.dist.length
    (0 < m ∧ m ≤ A.length ∧ ∀ row ∈ r.dist, row.length = m) ∧
    (∀ a, a < m → entry r.dist a a = 0) ∧
    (∀ a b, a < m → b < m → entry r.dist a b = entry r.dist b a) ∧
    (∀ a b, a < m → b < m → entry r.dist a b = 0 → a = b) ∧
    (∀ a b c, a < m → b < m → c < m → entry r.dist a c ≤ entry r.dist a b + entry r.dist b c) ∧
    ((kept A).length = m ∧ (kept A).Pairwise (· < ·) ∧ (∀ v ∈ kept A, v < A.length) ∧
      ∀ a b, a < m → b < m →
        IsDist (Adj (adjOf A)) ((kept A).getD a 0) ((kept A).getD b 0) (entry r.dist a b)) ∧
    (r.warned = true ↔ ¬ Connected (adjOf A)) := by
  obtain ⟨hd, hw, _⟩ := (makeDist_ok_iff A hsq r).1 h
  have hsym := adjOf_Symm A
  have hn : 0 < (adjOf A).length := by simpa using ((isSquare_iff A).1 hsq).1
  have hlen : r.dist.length = (selected (bfsAll (adjOf A))).length := by rw [hd, blockOf_length]
  intro m
  have hm : m = (selected (bfsAll (adjOf A))).length := hlen
  have D : ∀ a b, a < m → b < m →
      dist (adjOf A) (vtx (adjOf A) a) (vtx (adjOf A) b) = some (entry r.dist a b) := by
    intro a b ha hb
    rw [hd]; exact dist_vtx (adjOf A) hsym (hm ▸ ha) (hm ▸ hb)
  have L : ∀ a, a < m → vtx (adjOf A) a < (adjOf A).length := fun a ha => vtx_lt (adjOf A) (hm ▸ ha)
  refine ⟨⟨?_, ?_, ?_⟩, ?_, ?_, ?_, ?_, ⟨hlen.symm, selected_sorted _, ?_, ?_⟩, ?_⟩
  · rw [hm]
    exact List.length_pos_iff.2 (selected_ne_nil (adjOf A) hsym hn)
  · rw [hm]; simpa using selected_length_le (adjOf A)
  · intro row hrow
    rw [hd] at hrow
    rw [hm]; exact blockOf_row_length (adjOf A) row hrow
  · intro a ha
    have := D a a ha ha
    rw [dist_self (adjOf A) hsym (L a ha)] at this
    exact (Option.some.inj this).symm
  · intro a b ha hb
    have h1 := D a b ha hb
    have h2 := D b a hb ha
    rw [dist_symm (adjOf A) hsym] at h1
    rw [h1] at h2
    exact Option.some.inj h2
  · intro a b ha hb h0
    have h1 := D a b ha hb
    rw [h0] at h1
    exact vtx_inj (adjOf A) (hm ▸ ha) (hm ▸ hb) (eq_of_dist_zero (adjOf A) hsym (L a ha) (L b hb) h1)
  · intro a b c ha hb hc
    obtain ⟨x, hx, hx'⟩ := dist_triangle (adjOf A) hsym (L a ha) (L b hb) (L c hc) (D a b ha hb) (D b c hb hc)
    rw [D a c ha hc] at hx'
    have := Option.some.inj hx'
    omega
  · intro v hv
    simpa using selected_lt (adjOf A) hv
  · intro a b ha hb
    exact isDist_of_dist (adjOf A) hsym (L a ha) (L b hb) (D a b ha hb)
  · rw [hw, ← hasInf_false_iff_connected (adjOf A) hsym]
    simp

/-- **Never raises on a well-formed graph** (connected or not): for every square non-empty matrix with at
    most `2^63` vertices `makeDist` returns a result; a malformed input is rejected, as the code does. -/
theorem never_raises (A : Mat) (hsq : isSquare A = true) (hn : A.length ≤ 2 ^ 63) :
    ∃ r, makeDist A = .ok r := by
  have hb : maxEntry (blockOf (adjOf A)) ≤ 2 ^ 63 - 1 := by
    apply maxEntry_le
    intro r hr x hx
    have := blockOf_entry_lt (adjOf A) (adjOf_Symm A) r hr x hx
    simp at this
    omega
  obtain ⟨t, ht⟩ := optimalIntType_isOk hb
  exact ⟨⟨blockOf (adjOf A), hasInf (bfsAll (adjOf A)), t⟩, (makeDist_ok_iff A hsq _).2 ⟨rfl, rfl, ht⟩⟩

theorem malformed_rejected (A : Mat) (h : isSquare A = false) : makeDist A = .error .notSquare := by
  unfold makeDist; rw [h]; rfl

/-- **`connected_no_fallback`**: a connected graph gives no warning and the FULL `n×n` matrix of
    shortest-walk lengths. -/
theorem connected_no_fallback (A : Mat) (hsq : isSquare A = true) (hn : A.length ≤ 2 ^ 63)
    (hc : Connected (adjOf A)) :
    ∃ r, makeDist A = .ok r ∧ r.warned = false ∧ r.dist.length = A.length ∧
      (∀ row ∈ r.dist, row.length = A.length) ∧
      ∀ s t, s < A.length → t < A.length → IsDist (Adj (adjOf A)) s t (entry r.dist s t) := by
  obtain ⟨r, hr⟩ := never_raises A hsq hn
  have hsym := adjOf_Symm A
  have hinf : hasInf (bfsAll (adjOf A)) = false := (hasInf_false_iff_connected (adjOf A) hsym).2 hc
  obtain ⟨hd, hw, _⟩ := (makeDist_ok_iff A hsq r).1 hr
  have hsel : selected (bfsAll (adjOf A)) = List.range A.length := by
    unfold selected; rw [hinf]; simp
  refine ⟨r, hr, by rw [hw, hinf], ?_, ?_, ?_⟩
  · rw [hd, blockOf_length, hsel]; simp
  · intro row hrow
    rw [hd] at hrow
    rw [blockOf_row_length (adjOf A) row hrow, hsel]; simp
  · intro s t hs ht
    have hs' : s < (selected (bfsAll (adjOf A))).length := by rw [hsel]; simpa using hs
    have ht' : t < (selected (bfsAll (adjOf A))).length := by rw [hsel]; simpa using ht
    have := dist_vtx (adjOf A) hsym hs' ht'
    have e1 : vtx (adjOf A) s = s := by simp [vtx, hsel, List.getD_eq_getElem?_getD, hs]
    have e2 : vtx (adjOf A) t = t := by simp [vtx, hsel, List.getD_eq_getElem?_getD, ht]
    rw [e1, e2, ← hd] at this
    exact isDist_of_dist (adjOf A) hsym (by simpa using hs) (by simpa using ht) this

/-- **Component labels are in the order of first vertices** (scipy's labelling): `rep v` is the smallest vertex
    joined to `v` by a walk, two vertices have the same label iff they are joined, labels increase with the
    first vertex of the component and are `< numComponents`. -/
theorem labels_in_first_vertex_order (A : Mat) {u v : Nat} (hu : u < A.length) (hv : v < A.length) :
    rep (bfsAll (adjOf A)) v ≤ v ∧
    (∃ k, Walk (Adj (adjOf A)) k (rep (bfsAll (adjOf A)) v) v) ∧
    (∀ w, w < rep (bfsAll (adjOf A)) v → ∀ k, ¬ Walk (Adj (adjOf A)) k w v) ∧
    (label (bfsAll (adjOf A)) u = label (bfsAll (adjOf A)) v ↔ ∃ k, Walk (Adj (adjOf A)) k u v) ∧
    (label (bfsAll (adjOf A)) u < label (bfsAll (adjOf A)) v ↔
      rep (bfsAll (adjOf A)) u < rep (bfsAll (adjOf A)) v) ∧
    label (bfsAll (adjOf A)) v < numComponents (bfsAll (adjOf A)) := by
  have hsym := adjOf_Symm A
  have hu' : u < (adjOf A).length := by simpa using hu
  have hv' : v < (adjOf A).length := by simpa using hv
  have walk_of_reach : ∀ a b, Reach (adjOf A) a b → ∃ k, Walk (Adj (adjOf A)) k a b := by
    intro a b hab
    obtain ⟨d, hd⟩ := (reach_iff _ a b).1 hab
    have l := reach_lt (adjOf A) hab
    exact ⟨d, (isDist_of_dist _ hsym l.1 l.2 hd).1⟩
  have reach_of_walk : ∀ a b k, a < (adjOf A).length → Walk (Adj (adjOf A)) k a b → Reach (adjOf A) a b := by
    intro a b k ha hw
    obtain ⟨d, _, hd⟩ := dist_of_walk _ hsym ha hw
    exact (reach_iff _ a b).2 ⟨d, hd⟩
  obtain ⟨s1, s2, s3⟩ := rep_spec (adjOf A) hsym hv'
  refine ⟨s1, walk_of_reach _ _ s2, ?_, ?_, ?_, label_lt (adjOf A) hsym hv'⟩
  · intro w hw k hwk
    exact s3 w hw (reach_of_walk w v k (by omega) hwk)
  · rw [label_eq_iff (adjOf A) hsym hu' hv']
    constructor
    · intro h; exact walk_of_reach _ _ (reach_of_rep_eq (adjOf A) hsym hu' hv' h)
    · rintro ⟨k, hw⟩; exact rep_eq_of_reach (adjOf A) hsym (reach_of_walk u v k hu' hw)
  · rw [label_eq, label_eq]
    constructor
    · intro h
      rcases Nat.lt_or_ge (rep (bfsAll (adjOf A)) u) (rep (bfsAll (adjOf A)) v) with h' | h'
      · exact h'
      · have := countRoots_mono (bfsAll (adjOf A)) h'; omega
    · intro h
      exact countRoots_lt _ h (rep_rep (adjOf A) hsym hu')

/-- **The FIRST largest component is selected** (`np.unique` sorts the labels, `np.argmax` returns the first
    maximum): the selected label has the maximal count, every earlier label has a strictly smaller one, and
    the kept vertices are exactly those carrying it. -/
theorem largest_is_first_maximum (A : Mat) (hsq : isSquare A = true) :
    ∃ h : largestLabel (bfsAll (adjOf A)) <
        (sizes (labels (bfsAll (adjOf A))) (numComponents (bfsAll (adjOf A)))).length,
      (∀ l (hl : l < (sizes (labels (bfsAll (adjOf A))) (numComponents (bfsAll (adjOf A)))).length),
        (sizes (labels (bfsAll (adjOf A))) (numComponents (bfsAll (adjOf A))))[l] ≤
          (sizes (labels (bfsAll (adjOf A))) (numComponents (bfsAll (adjOf A))))[largestLabel (bfsAll (adjOf A))]) ∧
      (∀ l (hl : l < largestLabel (bfsAll (adjOf A))),
        (sizes (labels (bfsAll (adjOf A))) (numComponents (bfsAll (adjOf A))))[l]'(by omega) <
          (sizes (labels (bfsAll (adjOf A))) (numComponents (bfsAll (adjOf A))))[largestLabel (bfsAll (adjOf A))]) ∧
      ∀ v, v ∈ largestComponent (bfsAll (adjOf A)) ↔
        v < A.length ∧ label (bfsAll (adjOf A)) v = largestLabel (bfsAll (adjOf A)) := by
  have hn : 0 < (adjOf A).length := by simpa using ((isSquare_iff A).1 hsq).1
  have hc : 0 < numComponents (bfsAll (adjOf A)) :=
    Nat.lt_of_le_of_lt (Nat.zero_le _) (label_lt (adjOf A) (adjOf_Symm A) hn)
  have hne : sizes (labels (bfsAll (adjOf A))) (numComponents (bfsAll (adjOf A))) ≠ [] := by
    intro h
    have := congrArg List.length h
    simp [sizes] at this
    omega
  obtain ⟨h1, h2, h3⟩ := argmaxFirst_spec _ hne
  refine ⟨h1, h2, h3, fun v => ?_⟩
  have := mem_members (adjOf A) (largestLabel (bfsAll (adjOf A))) v
  unfold largestComponent
  simpa using this

/-- the path 0 – 1 – 2 is connected (non-vacuity of `connected_no_fallback`) -/
example : hasInf (bfsAll (adjOf [[0,1,0],[0,0,1],[0,0,0]])) = false := by decide
example : Connected (adjOf [[0,1,0],[0,0,1],[0,0,0]]) :=
  (hasInf_false_iff_connected _ (adjOf_Symm _)).1 (by decide)

/-- a disconnected graph (components {0,1,2} and {3,4}): warning, 3×3 block of the star -/
def G32 : Mat := [[0,1,1,0,0],[0,0,0,0,0],[0,0,0,0,0],[0,0,0,0,1],[0,0,0,0,0]]

example : makeDist G32 = .ok ⟨[[0,1,1],[1,0,2],[1,2,0]], true, .i8⟩ := by decide
example : kept G32 = [0, 1, 2] := by decide
/-- ties go to the component of the smallest vertex -/
example : kept [[0,0,1,0],[0,0,0,1],[0,0,0,0],[0,0,0,0]] = [0, 2] := by decide

/-- **`old_fallback_not_square`**: before commit e3ee023 (`DG[mask]`, rows only) the same 5-vertex graph
    with components of sizes 3 and 2 gave a 3×5 matrix containing ∞, and the call raised. -/
theorem old_fallback_not_square :
    (restrictOld (bfsAll (adjOf G32))).length = 3 ∧
    (restrictOld (bfsAll (adjOf G32))).all (fun r => r.length == 5) = true ∧
    hasInf (restrictOld (bfsAll (adjOf G32))) = true ∧
    makeDistOld G32 = .error .tooLarge := by decide

/-! ### relabelling a disconnected graph

  "Its largest connected component" is well defined exactly when one component is strictly larger than all
  others (`UniqueLargest`; every connected graph qualifies).  Then the fallback commutes with every
  relabelling.  With a TIE between largest components the statement leaves the choice open, the code takes
  the one containing the smallest vertex, and a relabelling may select another, non-isometric one
  (`tie_relabel_selects_other_component`): that is the one exception to "under any vertex relabelling". -/

/-- **`relabel_unique_largest`**: if some component of the graph is strictly larger than every other one,
    then for EVERY relabelling `p` the relabelled graph `A[p][:, p]` yields the relabelled block: the same
    warning flag, the same dtype, and the distance matrix `r.dist[q][:, q]` for a permutation `q` of the
    block's positions — namely the one under which position `a` of the new block is the original vertex
    `p[kept'(a)] = kept(q[a])`, i.e. exactly the same original vertices are kept. -/
theorem relabel_unique_largest (A : Mat) (hsq : isSquare A = true) (p : List Nat)
    (hp : p.Perm (List.range A.length)) (r : DistResult) (h : makeDist A = .ok r)
    (hu : UniqueLargest (adjOf A)) :
    ∃ q : List Nat, q.Perm (List.range r.dist.length) ∧
      makeDist (sub 0 p A) = .ok ⟨sub 0 q r.dist, r.warned, r.intType⟩ ∧
      ∀ a, a < r.dist.length →
        (kept A).getD (q.getD a 0) 0 = p.getD ((kept (sub 0 p A)).getD a 0) 0 := by
  obtain ⟨hd, hw, ht⟩ := (makeDist_ok_iff A hsq r).1 h
  have hsym := adjOf_Symm A
  have hp' : p.Perm (List.range (adjOf A).length) := by simpa using hp
  have hadj : adjOf (sub 0 p A) = sub false p (adjOf A) :=
    adjOf_sub A p (fun x hx => List.mem_range.1 (hp.mem_iff.1 hx))
  have hlen : r.dist.length = (selected (bfsAll (adjOf A))).length := by rw [hd, blockOf_length]
  have hq := blockPerm_perm (adjOf A) p hp' hsym hu
  refine ⟨blockPerm (adjOf A) p, by rw [hlen]; exact hq, ?_, ?_⟩
  · apply (makeDist_ok_iff (sub 0 p A) (isSquare_sub_perm A hsq p hp) _).2
    refine ⟨?_, ?_, ?_⟩
    · show sub 0 (blockPerm (adjOf A) p) r.dist = _
      rw [hadj, blockOf_sub_unique (adjOf A) p hp' hsym hu, hd]
    · show r.warned = _
      rw [hadj, hasInf_sub (adjOf A) p hp' hsym, hw]
    · show optimalIntType _ = .ok r.intType
      rw [hadj, blockOf_sub_unique (adjOf A) p hp' hsym hu,
        maxEntry_sub_perm (blockOf (adjOf A)) _ (blockOf_length (adjOf A)) (blockOf_row_length (adjOf A)) _ hq]
      exact ht
  · intro a ha
    have := vtx_blockPerm (adjOf A) p hp' hsym hu (hlen ▸ ha)
    unfold kept
    rw [hadj]
    exact this

/-- a connected graph has a (trivially) unique largest component, so `relabel_unique_largest` contains
    `relabel_connected` -/
theorem connected_uniqueLargest (A : Mat) (hsq : isSquare A = true) (hc : Connected (adjOf A)) :
    UniqueLargest (adjOf A) := by
  have hn : 0 < (adjOf A).length := by simpa using ((isSquare_iff A).1 hsq).1
  refine ⟨0, hn, fun u hu hr => ?_⟩
  obtain ⟨k, hw⟩ := hc 0 u hn hu
  obtain ⟨d, _, hd⟩ := dist_of_walk _ (adjOf_Symm A) hn hw
  have : reachable (bfsAll (adjOf A)) 0 u = true := (reach_iff _ 0 u).2 ⟨d, hd⟩
  rw [this] at hr; cases hr

/-- non-vacuity: `G32` (components {0,1,2} and {3,4}) is disconnected and has a unique largest component;
    relabelled by `[3,0,4,1,2]` (the star becomes the vertices 1,3,4) it still yields the star's block,
    here with the centre in first position again -/
example : UniqueLargest (adjOf G32) := ⟨0, by decide, by decide⟩
example : makeDist (sub 0 [3, 0, 4, 1, 2] G32) = .ok ⟨[[0,1,1],[1,0,2],[1,2,0]], true, .i8⟩ := by decide

/-- the path 0–1–2 next to the triangle 3–4–5: two largest components of size 3 that are not isometric -/
def P3K3 : Mat :=
  [[0,1,0,0,0,0],[0,0,1,0,0,0],[0,0,0,0,0,0],[0,0,0,0,1,1],[0,0,0,0,0,1],[0,0,0,0,0,0]]

/-- **the tie exception**: with two largest components the first one (smallest vertex) is taken; the
    relabelling `[3,4,5,0,1,2]` swaps the two and the fallback then returns the triangle's metric
    instead of the path's — not a relabelling of the same block (largest entries 1 and 2). -/
theorem tie_relabel_selects_other_component :
    ¬ UniqueLargest (adjOf P3K3) ∧
    makeDist P3K3 = .ok ⟨[[0,1,2],[1,0,1],[2,1,0]], true, .i8⟩ ∧
    makeDist (sub 0 [3, 4, 5, 0, 1, 2] P3K3) = .ok ⟨[[0,1,1],[1,0,1],[1,1,0]], true, .i8⟩ := by
  refine ⟨?_, by decide, by decide⟩
  rintro ⟨v, hv, h⟩
  have hv' : v < 6 := hv
  have key : ∀ v, v < 6 → ∃ u, u < 6 ∧ reachable (bfsAll (adjOf P3K3)) v u = false ∧
      ¬ compSize (adjOf P3K3) u < compSize (adjOf P3K3) v := by decide
  obtain ⟨u, hu, hr, hn⟩ := key v hv'
  exact hn (h u hu hr)

/-! ## 4. Integer type -/

/-- **`int_type_sufficient`**: the dtype chosen for the returned matrix is the SMALLEST of
    int8/16/32/64 whose maximum is ≥ the largest distance; it holds every entry, and every difference of
    two entries lies within `[-max, max] ⊂ [min, max]` of that signed type, so the subtractions done later
    (`abs(diam_X - diam_Y)`, `|DX[i,j] - DX[k,l]|`) cannot overflow. -/
theorem int_type_sufficient (A : Mat) (r : DistResult) (h : makeDist A = .ok r) (i j k l : Nat) :
    entry r.dist i j ≤ r.intType.max ∧
    -((2 : Int) ^ (r.intType.bits - 1)) ≤ (entry r.dist i j : Int) - (entry r.dist k l : Int) ∧
    (entry r.dist i j : Int) - (entry r.dist k l : Int) ≤ (r.intType.max : Int) ∧
    (∀ t' : IntType, t'.bits < r.intType.bits → t'.max < maxEntry r.dist) := by
  have hsq : isSquare A = true := by
    cases hs : isSquare A with
    | true => rfl
    | false => rw [malformed_rejected A hs] at h; simp at h
  obtain ⟨hd, _, ht⟩ := (makeDist_ok_iff A hsq r).1 h
  rw [← hd] at ht
  obtain ⟨hmax, hmin⟩ := optimalIntType_ok ht
  have h1 := entry_le_maxEntry r.dist i j
  have h2 := entry_le_maxEntry r.dist k l
  have hpow : ((r.intType.max : Nat) : Int) = (2 : Int) ^ (r.intType.bits - 1) - 1 := by
    cases r.intType <;> simp [IntType.max, IntType.bits]
  refine ⟨by omega, ?_, by omega, hmin⟩
  have : (0 : Int) ≤ (2 : Int) ^ (r.intType.bits - 1) - 1 := by rw [← hpow]; omega
  omega

/-- two matrices of different dtypes: NumPy promotes to the wider one, which holds every mixed difference -/
theorem int_type_sufficient_pair (A B : Mat) (rX rY : DistResult) (hX : makeDist A = .ok rX)
    (hY : makeDist B = .ok rY) (i j k l : Nat) :
    -((max rX.intType.max rY.intType.max : Nat) : Int) ≤ (entry rX.dist i j : Int) - (entry rY.dist k l : Int) ∧
    (entry rX.dist i j : Int) - (entry rY.dist k l : Int) ≤ ((max rX.intType.max rY.intType.max : Nat) : Int) := by
  have h1 := (int_type_sufficient A rX hX i j i j).1
  have h2 := (int_type_sufficient B rY hY k l k l).1
  omega

/-- the type is decided by thresholds 127 / 32767 / 2^31-1 / 2^63-1, larger values are an error -/
theorem int_type_thresholds :
    optimalIntType 127 = .ok .i8 ∧ optimalIntType 128 = .ok .i16 ∧ optimalIntType 32767 = .ok .i16 ∧
    optimalIntType 32768 = .ok .i32 ∧ optimalIntType (2 ^ 31 - 1) = .ok .i32 ∧ optimalIntType (2 ^ 31) = .ok .i64 ∧
    optimalIntType (2 ^ 63 - 1) = .ok .i64 ∧ ∀ v, 2 ^ 63 - 1 < v → optimalIntType v = .error .tooLarge :=
  ⟨by decide, by decide, by decide, by decide, by decide, by decide, by decide, fun _ h => optimalIntType_error h⟩

/-! ## 5. Dispatch: pair and collection calls, for every `estimate` and every RNG state -/

section dispatch
variable {σ β : Type} (est : σ → Mat → Mat → (β × β) × σ) (zero : β)

/-- **`collection_symmetric_zero_diag`**: for every `estimate`, every number `N ≥ 2` of graphs and every
    RNG state, the two matrices returned by a collection call are `N×N`, symmetric, with zero diagonal. -/
theorem collection_symmetric_zero_diag (As : List Mat) (s s' : σ) (lbs ubs : List (List β))
    (h : gromovHausdorff est zero (.coll As) s = .ok (.mats lbs ubs, s')) :
    2 ≤ As.length ∧
    (lbs.length = As.length ∧ ∀ r ∈ lbs, r.length = As.length) ∧
    (ubs.length = As.length ∧ ∀ r ∈ ubs, r.length = As.length) ∧
    ∀ i j, i < As.length → j < As.length →
      ent zero lbs i j = ent zero lbs j i ∧ ent zero ubs i j = ent zero ubs j i ∧
      ent zero lbs i i = zero ∧ ent zero ubs i i = zero := by
  unfold gromovHausdorff at h
  simp only at h
  by_cases hN : As.length < 2
  · rw [if_pos hN] at h; simp at h
  · rw [if_neg hN] at h
    cases hc : collect est As (pairsOf As.length) s with
    | error e => rw [hc] at h; simp at h
    | ok r =>
      obtain ⟨vals, s1⟩ := r
      rw [hc] at h
      simp only [Except.ok.injEq, Prod.mk.injEq, Result.mats.injEq] at h
      obtain ⟨⟨rfl, rfl⟩, _⟩ := h
      refine ⟨by omega, ⟨by simp, row_length_symmetrise _ _ _⟩, ⟨by simp, row_length_symmetrise _ _ _⟩, ?_⟩
      intro i j hi hj
      exact ⟨symmetrise_symm _ _ _ hi hj, symmetrise_symm _ _ _ hi hj, symmetrise_diag _ _ _ hi,
        symmetrise_diag _ _ _ hi⟩

/-- fewer than two graphs are rejected (the code's `ValueError`) -/
theorem collection_needs_two (As : List Mat) (h : As.length < 2) (s : σ) :
    gromovHausdorff est zero (.coll As) s = .error .tooFewGraphs := by
  unfold gromovHausdorff; simp [h]

/-- **`collection_entries_are_pair_results`**: entry `(i, j)`, `i < j`, of a collection result is exactly
    `estimate(D_i, D_j)` on the two distance matrices, evaluated in the RNG state `s₁` the loop has reached
    after the pairs that precede `(i, j)`; and the pair call `gromov_hausdorff(A_i, A_j)` started in that
    state returns exactly that entry. -/
theorem collection_entries_are_pair_results (As : List Mat) (s s' : σ) (lbs ubs : List (List β))
    (h : gromovHausdorff est zero (.coll As) s = .ok (.mats lbs ubs, s'))
    (i j : Nat) (hij : i < j) (hj : j < As.length) :
    ∃ (pre : List (β × β)) (s₁ : σ) (DX DY : DistResult),
      collect est As ((pairsOf As.length).take ((pairsOf As.length).idxOf (i, j))) s = .ok (pre, s₁) ∧
      makeDist (As.getD i []) = .ok DX ∧ makeDist (As.getD j []) = .ok DY ∧
      ent zero lbs i j = (est s₁ DX.dist DY.dist).1.1 ∧
      ent zero ubs i j = (est s₁ DX.dist DY.dist).1.2 ∧
      gromovHausdorff est zero (.pair (As.getD i []) (As.getD j [])) s₁ =
        .ok (.pair (ent zero lbs i j) (ent zero ubs i j), (est s₁ DX.dist DY.dist).2) := by
  unfold gromovHausdorff at h
  simp only at h
  by_cases hN : As.length < 2
  · rw [if_pos hN] at h; simp at h
  · rw [if_neg hN] at h
    cases hc : collect est As (pairsOf As.length) s with
    | error e => rw [hc] at h; simp at h
    | ok r =>
      obtain ⟨vals, s2⟩ := r
      rw [hc] at h
      simp only [Except.ok.injEq, Prod.mk.injEq, Result.mats.injEq] at h
      obtain ⟨⟨rfl, rfl⟩, _⟩ := h
      obtain ⟨pre, s₁, DX, DY, h1, h2, h3, h4⟩ :=
        collect_at est As hc ((mem_pairsOf As.length i j).2 ⟨hij, hj⟩)
      have el : ent zero (symmetrise As.length zero
          (upperVal zero (pairsOf As.length) (vals.map Prod.fst))) i j = (est s₁ DX.dist DY.dist).1.1 := by
        rw [symmetrise_upper _ _ _ hij hj]
        simp [upperVal, List.getD_eq_getElem?_getD, List.getElem?_map, h4]
      have eu : ent zero (symmetrise As.length zero
          (upperVal zero (pairsOf As.length) (vals.map Prod.snd))) i j = (est s₁ DX.dist DY.dist).1.2 := by
        rw [symmetrise_upper _ _ _ hij hj]
        simp [upperVal, List.getD_eq_getElem?_getD, List.getElem?_map, h4]
      refine ⟨pre, s₁, DX, DY, h1, h2, h3, el, eu, ?_⟩
      rw [gh_pair_eq, h2, h3, el, eu]

/-- lower bound(s) of a result: `lb` of a pair call, `lbs` of a collection call -/
def lowerOf : Result β → List (List β)
  | .pair lb _ => [[lb]]
  | .mats lbs _ => lbs

/-- **`lb_deterministic`**: the lower bound does not consume the RNG.  Given that `find_lb` is a function of
    `(DX, DY)` alone — i.e. two estimators (two RNG states, two `mapping_sample_size_order`s) always agree
    on the lower-bound component — the same labelled inputs give the same lower bounds (and fail on the same
    inputs), pair or collection call alike. -/
theorem lb_deterministic {σ' : Type} (est' : σ' → Mat → Mat → (β × β) × σ')
    (hlb : ∀ s s' X Y, (est s X Y).1.1 = (est' s' X Y).1.1) (inp : Input) (s : σ) (s' : σ') :
    match gromovHausdorff est zero inp s, gromovHausdorff est' zero inp s' with
    | .ok (r, _), .ok (r', _) => lowerOf r = lowerOf r'
    | .error e, .error e' => e = e'
    | _, _ => False := by
  cases inp with
  | pair G H =>
    rw [gh_pair_eq, gh_pair_eq]
    cases makeDist G with
    | error e => simp
    | ok DX =>
      cases makeDist H with
      | error e => simp
      | ok DY => simp [lowerOf, hlb s s']
  | coll As =>
    unfold gromovHausdorff
    simp only
    by_cases hN : As.length < 2
    · simp [hN]
    · rw [if_neg hN, if_neg hN]
      have := collect_lb_indep est As est' hlb (pairsOf As.length) s s'
      cases h1 : collect est As (pairsOf As.length) s with
      | error e =>
        cases h2 : collect est' As (pairsOf As.length) s' with
        | error e' => rw [h1, h2] at this; simpa using this
        | ok r' => rw [h1, h2] at this; simp at this
      | ok r =>
        cases h2 : collect est' As (pairsOf As.length) s' with
        | error e' => rw [h1, h2] at this; simp at this
        | ok r' =>
          rw [h1, h2] at this
          obtain ⟨v, t⟩ := r
          obtain ⟨v', t'⟩ := r'
          simp only at this ⊢
          simp [lowerOf, this]

/-- **identical labelings, any format**: if every graph of a collection is replaced by another
    representation with the same undirected adjacency, the whole result (lower AND upper bounds, final RNG
    state, error) is the same. -/
theorem collection_format_irrelevant (As Bs : List Mat) (hl : As.length = Bs.length)
    (h : ∀ i, i < As.length → isSquare (As.getD i []) = true ∧ isSquare (Bs.getD i []) = true ∧
      adjOf (As.getD i []) = adjOf (Bs.getD i [])) (s : σ) :
    gromovHausdorff est zero (.coll As) s = gromovHausdorff est zero (.coll Bs) s := by
  have hmk : ∀ i, makeDist (As.getD i []) = makeDist (Bs.getD i []) := by
    intro i
    by_cases hi : i < As.length
    · obtain ⟨h1, h2, h3⟩ := h i hi
      exact format_irrelevant _ _ h1 h2 h3
    · simp [List.getD_eq_getElem?_getD, List.getElem?_eq_none (Nat.le_of_not_lt hi),
        List.getElem?_eq_none (hl ▸ Nat.le_of_not_lt hi)]
  unfold gromovHausdorff
  simp only [hl, collect_congr est As Bs hmk]

/-- the same for a pair call -/
theorem pair_format_irrelevant (G G' H H' : Mat)
    (hG : isSquare G = true ∧ isSquare G' = true ∧ adjOf G = adjOf G')
    (hH : isSquare H = true ∧ isSquare H' = true ∧ adjOf H = adjOf H') (s : σ) :
    gromovHausdorff est zero (.pair G H) s = gromovHausdorff est zero (.pair G' H') s := by
  rw [gh_pair_eq, gh_pair_eq, format_irrelevant G G' hG.1 hG.2.1 hG.2.2, format_irrelevant H H' hH.1 hH.2.1 hH.2.2]

end dispatch

/-! ## 6. Specification level: the distance being bracketed does not depend on the labelling

  `estimate` brackets the modified Gromov–Hausdorff distance of the two metric spaces it is handed (C05).
  Together with `relabel_connected` the following shows that a relabelled graph yields brackets of the SAME
  distance: `2·mGH(X, Y) ≤ c` is invariant under relabelling the points of `X` (and, by symmetry of the
  definition, of `Y`). -/

/-- `f` maps the space with distance matrix `DX` into the one with `DY` with distortion `≤ c` -/
def DisLe (DX DY : Mat) (f : Nat → Nat) (c : Nat) : Prop :=
  (∀ i, i < DX.length → f i < DY.length) ∧
  ∀ i j, i < DX.length → j < DX.length →
    entry DX i j ≤ entry DY (f i) (f j) + c ∧ entry DY (f i) (f j) ≤ entry DX i j + c

/-- `2·mGH(X, Y) ≤ c`: maps of distortion `≤ c` exist in both directions (Mémoli's modified distance) -/
def TwiceMGHLe (DX DY : Mat) (c : Nat) : Prop := (∃ f, DisLe DX DY f c) ∧ ∃ g, DisLe DY DX g c

theorem TwiceMGHLe.symm {DX DY : Mat} {c : Nat} (h : TwiceMGHLe DX DY c) : TwiceMGHLe DY DX c := ⟨h.2, h.1⟩

/-- **`mGH_relabel_invariant`** (spec level) -/
theorem mGH_relabel_invariant (DX DY : Mat) (p : List Nat) (hp : p.Perm (List.range DX.length)) (c : Nat) :
    TwiceMGHLe (sub 0 p DX) DY c ↔ TwiceMGHLe DX DY c := by
  have hp' : p.Perm (List.range (adjOf DX).length) := by simpa using hp
  have hpl : p.length = DX.length := by simpa using hp.length_eq
  have hl : (sub 0 p DX).length = DX.length := by simp [hpl]
  have P_lt : ∀ a, a < DX.length → p.getD a 0 < DX.length := fun a ha => by
    simpa using perm_lt (adjOf DX) p hp' (by simpa using ha)
  have I_lt : ∀ b, b < DX.length → p.idxOf b < DX.length := fun b hb => by
    rw [← hpl]; exact List.idxOf_lt_length_of_mem (hp.mem_iff.2 (List.mem_range.2 hb))
  have PI : ∀ b, b < DX.length → p.getD (p.idxOf b) 0 = b := fun b hb => by
    have h := I_lt b hb
    have h' : p.idxOf b < p.length := by omega
    simp [List.getD_eq_getElem?_getD, List.getElem?_eq_getElem h', List.getElem_idxOf h']
  have E : ∀ a b, a < DX.length → b < DX.length →
      entry (sub 0 p DX) a b = entry DX (p.getD a 0) (p.getD b 0) := fun a b ha hb => by
    unfold entry; exact ent_sub 0 p DX (by omega) (by omega)
  constructor
  · rintro ⟨⟨f, hf1, hf2⟩, ⟨g, hg1, hg2⟩⟩
    refine ⟨⟨fun b => f (p.idxOf b), ?_, ?_⟩, ⟨fun y => p.getD (g y) 0, ?_, ?_⟩⟩
    · intro i hi; exact hf1 _ (by rw [hl]; exact I_lt i hi)
    · intro i j hi hj
      have := hf2 _ _ (by rw [hl]; exact I_lt i hi) (by rw [hl]; exact I_lt j hj)
      rwa [E _ _ (I_lt i hi) (I_lt j hj), PI i hi, PI j hj] at this
    · intro y hy; exact P_lt _ (by have := hg1 y hy; rwa [hl] at this)
    · intro y y' hy hy'
      have h1 := hg1 y hy; have h2 := hg1 y' hy'
      rw [hl] at h1 h2
      have := hg2 y y' hy hy'
      rwa [E _ _ h1 h2] at this
  · rintro ⟨⟨f, hf1, hf2⟩, ⟨g, hg1, hg2⟩⟩
    refine ⟨⟨fun a => f (p.getD a 0), ?_, ?_⟩, ⟨fun y => p.idxOf (g y), ?_, ?_⟩⟩
    · intro i hi; rw [hl] at hi; exact hf1 _ (P_lt i hi)
    · intro i j hi hj
      rw [hl] at hi hj
      rw [E i j hi hj]
      exact hf2 _ _ (P_lt i hi) (P_lt j hj)
    · intro y hy; rw [hl]; exact I_lt _ (hg1 y hy)
    · intro y y' hy hy'
      rw [E _ _ (I_lt _ (hg1 y hy)) (I_lt _ (hg1 y' hy')), PI _ (hg1 y hy), PI _ (hg1 y' hy')]
      exact hg2 y y' hy hy'

/-- non-vacuity: the path on 3 points and the single point are at `2·mGH = 2` (and not `≤ 1`) -/
example : TwiceMGHLe [[0,1,2],[1,0,1],[2,1,0]] [[0]] 2 :=
  ⟨⟨fun _ => 0, by decide, fun i j hi hj =>
      (by decide : ∀ i, i < 3 → ∀ j, j < 3 →
        entry [[0,1,2],[1,0,1],[2,1,0]] i j ≤ entry [[0]] 0 0 + 2 ∧
        entry [[0]] 0 0 ≤ entry [[0,1,2],[1,0,1],[2,1,0]] i j + 2) i hi j hj⟩,
   ⟨fun _ => 0, by decide, fun i j hi hj =>
      (by decide : ∀ i, i < 1 → ∀ j, j < 1 →
        entry [[0]] i j ≤ entry [[0,1,2],[1,0,1],[2,1,0]] 0 0 + 2 ∧
        entry [[0,1,2],[1,0,1],[2,1,0]] 0 0 ≤ entry [[0]] i j + 2) i hi j hj⟩⟩

/-! non-vacuity of the dispatch theorems: a concrete `estimate` (sizes of the two spaces; the "RNG state"
    counts the calls) on three graphs, one of them disconnected -/

def demoEst (s : Nat) (X Y : Mat) : (Nat × Nat) × Nat := ((X.length, X.length + Y.length + s), s + 1)

example :
    gromovHausdorff demoEst 0 (.coll [[[0,1],[0,0]], [[0]], G32]) 10 =
      .ok (.mats [[0,2,2],[2,0,1],[2,1,0]] [[0,13,16],[13,0,16],[16,16,0]], 13) := by decide

/-- `demoEst` meets the hypothesis of `lb_deterministic`: its lower bound ignores the state -/
example : ∀ s s' X Y, (demoEst s X Y).1.1 = (demoEst s' X Y).1.1 := fun _ _ _ _ => rfl

example :
    gromovHausdorff demoEst 0 (.pair [[0]] G32) 12 = .ok (.pair 1 16, 13) := by decide

end PersimVerif.C17
