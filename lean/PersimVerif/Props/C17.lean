import PersimVerif.Model.Graph

namespace PersimVerif.C17
open PersimVerif.Graph

deriving instance DecidableEq for Except

/-- 5 vertices, components {0,1,2} (a star) and {3,4}: the pre-fix fallback keeps 3 rows of 5 columns -/
def G32 : Mat := [[0,1,1,0,0],[0,0,0,0,0],[0,0,0,0,0],[0,0,0,0,1],[0,0,0,0,0]]

theorem old_fallback_not_square :
    (restrictOld (bfsAll (adjOf G32))).length = 3 ∧
    (restrictOld (bfsAll (adjOf G32))).all (fun r => r.length == 5) = true ∧
    makeDistOld G32 = .error .tooLarge := by decide

end PersimVerif.C17
