import PersimVerif.Model.PLArith
namespace PersimVerif.C09
end PersimVerif.C09
